package c13

// Engine-API leg: generated schedules of 1-3 sessions over one embedded
// store + SQL engine, executed statement by statement (the harness is the
// barrier between statements) and compared with the reference interpreter.

import (
	"context"
	"errors"
	"fmt"
	"os"
	"sort"
	"strings"
	"sync"
	"testing"

	"github.com/codenotary/immudb/embedded/sql"
	"github.com/codenotary/immudb/embedded/store"
	"pgregory.net/rapid"

	"verif/internal/sqlgen"
	"verif/internal/vk"
)

var tmpOnce sync.Once

func setupTmp() {
	tmpOnce.Do(func() { os.Setenv("TMPDIR", vk.Dir()) })
}

type session struct {
	id int
	st *txstate // nil: no transaction open
	tx *sql.SQLTx
	// foreignCommits counts commits of other sessions since this transaction began
	foreignCommits int
}

type harness struct {
	rt        *rapid.T
	c         *vk.Case
	g         *gen
	db        *sqlgen.DB
	committed *world
	sess      []*session
	trace     []string
	// names of tables that must not exist at the end (created by transactions that did not commit)
	ghosts map[string]bool
	// tables created by transactions that are still open or committed later than a given snapshot
	flags map[string]bool
	// probeSoon: a dropped constraint was just discarded; the next steps try to violate it
	probeSoon int
	// quiet: no query outside the open transactions (each one opens a read-only
	// transaction, which re-loads the engine's cached schema) until a straddle is over
	quiet bool
	// cold: no reader and no plain commit since the last DDL commit (the engine has no cached schema)
	cold bool
}

func (h *harness) logf(format string, args ...any) {
	h.trace = append(h.trace, strings.ReplaceAll(fmt.Sprintf(format, args...), "\x00", `\x00`))
}

func (h *harness) failf(format string, args ...any) {
	dump := map[string]any{"trace": h.trace, "committed": strings.Split(h.committed.dump(), "\n")}
	for _, s := range h.sess {
		if s.st != nil {
			dump[fmt.Sprintf("view-s%d", s.id)] = strings.Split(s.st.view.dump(), "\n")
		}
	}
	h.c.Failf(h.rt, dump, format, args...)
}

func (h *harness) flag(l string) {
	h.flags[l] = true
	h.c.Label(l)
}

var ctx = context.Background()

// foreign lists tables that exist for someone but not for st.
func (h *harness) foreign(st *txstate) []string {
	seen := map[string]bool{}
	var out []string
	consider := func(w *world) {
		for _, n := range w.names {
			if st.view.tabs[n] == nil && !seen[n] {
				seen[n] = true
				out = append(out, n)
			}
		}
	}
	consider(h.committed)
	for _, o := range h.sess {
		if o.st != nil && o.st != st {
			consider(o.st.view)
		}
	}
	sort.Strings(out)
	return out
}

// ---- observation

// warm: known finding K13g. The first transaction after a DDL commit hands its
// private schema objects to the store's index mappers, so its own ALTER TABLE
// ADD COLUMN keeps acting even if it is rolled back. While that is listed a
// reader goes first, except inside a straddle (whose participants run no DDL
// they do not commit).
func (h *harness) warm() {
	if !h.cold || h.quiet || !vk.Excluded(kfColdDDL) || len(h.committed.names) == 0 {
		return
	}
	vk.CountExcluded(kfColdDDL)
	h.c.Label("reader-before-first-tx-after-ddl-K13g")
	h.runQuery("warm", nil, h.committed, &query{table: h.committed.names[0]})
}

func (h *harness) runQuery(who string, tx *sql.SQLTx, w *world, q *query) {
	if tx == nil {
		h.cold = false
	}
	d := w.tabs[q.table].def
	text := q.sql(d)
	got, err := sqlgen.QueryEngine(h.db.Eng, tx, text, nil)
	if err != nil {
		h.logf("%s: %s => ERROR %v", who, text, err)
		h.failf("%s: query failed: %s: %v", who, text, err)
	}
	want := q.eval(w)
	if diff := q.diff(got, want); diff != "" {
		h.logf("%s: %s => %v", who, text, got.Keys())
		h.failf("%s: %s returned %v, reference %v (%s)", who, text, got.Keys(), want.Keys(), diff)
	}
	h.logf("%s: %s => %d rows", who, text, len(got.Rows))
}

// checkView compares every readable table of a transaction with its reference view.
func (h *harness) checkView(s *session, why string) {
	for _, t := range s.st.tables(s.st.scannable) {
		h.runQuery(fmt.Sprintf("s%d(%s)", s.id, why), s.tx, s.st.view, &query{table: t.def.name})
	}
}

// audit compares the committed tables, read outside any transaction, with
// the reference; viaIndexes also reads them through every secondary index.
func (h *harness) audit(why string, viaIndexes bool) {
	if h.quiet {
		return // see straddle: no reader may re-load the schema now
	}
	for _, n := range h.committed.names {
		t := h.committed.tabs[n]
		h.runQuery("audit("+why+")", nil, h.committed, &query{table: n})
		if viaIndexes {
			for _, ix := range t.def.idx {
				h.runQuery("audit-index("+why+")", nil, h.committed, &query{table: n, useIdx: ix.Cols})
			}
			// columns added by transactions that did not commit must not exist
			res, err := sqlgen.QueryEngine(h.db.Eng, nil, "SELECT * FROM "+n, nil)
			if err != nil || len(res.Cols) != len(t.def.cols) {
				h.failf("audit(%s): SELECT * FROM %s: err=%v, columns %v, reference %v", why, n, err, res, t.def.colNames())
			}
		}
	}
	var ghosts []string
	for n := range h.ghosts {
		ghosts = append(ghosts, n)
	}
	sort.Strings(ghosts)
	for _, n := range ghosts {
		if h.committed.tabs[n] != nil {
			continue
		}
		if _, err := sqlgen.QueryEngine(h.db.Eng, nil, "SELECT * FROM "+n, nil); !errors.Is(err, sql.ErrTableDoesNotExist) {
			h.failf("audit(%s): table %s was created by a transaction that did not commit, yet SELECT * FROM %s returns err=%v", why, n, n, err)
		}
	}
}

// observe: some session (or an outside reader) looks at one table.
func (h *harness) observe() {
	var open []*session
	writers := 0
	for _, s := range h.sess {
		if s.st != nil {
			open = append(open, s)
			if s.st.hasWrites() {
				writers++
			}
		}
	}
	k := h.g.intn(0, len(open), "observer")
	if k == len(open) {
		if len(h.committed.names) == 0 {
			return
		}
		n := h.committed.names[h.g.intn(0, len(h.committed.names)-1, "observedTable")]
		h.runQuery("outside", nil, h.committed, &query{table: n})
		if writers > 0 {
			h.flag("outside-reader-during-open-writer")
		}
		return
	}
	s := open[k]
	ts := s.st.tables(s.st.scannable)
	if len(ts) == 0 {
		return
	}
	t := ts[h.g.intn(0, len(ts)-1, "observedTable")]
	h.runQuery(fmt.Sprintf("s%d(observe)", s.id), s.tx, s.st.view, &query{table: t.def.name})
	others := writers
	if s.st.hasWrites() {
		others--
	}
	if others > 0 {
		if s.st.ro {
			h.flag("read-only-session-during-open-writer")
		} else {
			h.flag("reader-during-open-writer")
		}
	}
	if s.foreignCommits > 0 {
		h.flag("read-after-foreign-commit")
	}
}

// ---- transactions

func (h *harness) begin(s *session, ro bool) {
	h.warm()
	var err error
	if ro {
		s.tx, err = h.db.Eng.NewTx(ctx, sql.DefaultTxOptions().WithReadOnly(true))
		h.logf("s%d: NewTx(read-only) => %v", s.id, err)
	} else {
		s.tx, _, err = h.db.Eng.Exec(ctx, nil, "BEGIN TRANSACTION", nil)
		h.logf("s%d: BEGIN TRANSACTION => %v", s.id, err)
	}
	if err != nil || s.tx == nil {
		h.failf("s%d: cannot begin: %v", s.id, err)
	}
	s.st = newTxstate(h.committed, ro)
	s.foreignCommits = 0
	if ro {
		h.c.Label("tx-read-only")
	} else {
		h.c.Label("tx-read-write")
	}
	// pin the snapshot
	if vk.Excluded(kfSnapshot) {
		// known finding K13a: the snapshot of an index is taken when the
		// transaction first touches it; the harness touches every index now
		vk.CountExcluded(kfSnapshot)
		for _, t := range s.st.tables(nil) {
			h.runQuery(fmt.Sprintf("s%d(pin)", s.id), s.tx, s.st.view, &query{table: t.def.name})
			for _, ix := range t.def.idx {
				h.runQuery(fmt.Sprintf("s%d(pin)", s.id), s.tx, s.st.view, &query{table: t.def.name, useIdx: ix.Cols})
			}
		}
	} else if ts := s.st.tables(nil); len(ts) > 0 {
		h.runQuery(fmt.Sprintf("s%d(first-read)", s.id), s.tx, s.st.view, &query{table: ts[0].def.name})
	}
}

func samePKs(a, b map[string]int64) bool {
	if len(a) != len(b) {
		return false
	}
	for k, v := range a {
		if w, ok := b[k]; !ok || w != v {
			return false
		}
	}
	return true
}

func (h *harness) checkCounters(who string, tx *sql.SQLTx, st *txstate) {
	if tx.UpdatedRows() != st.upd {
		h.failf("%s: UpdatedRows()=%d, reference %d", who, tx.UpdatedRows(), st.upd)
	}
	if !samePKs(tx.FirstInsertedPKs(), st.first) {
		h.failf("%s: FirstInsertedPKs()=%v, reference %v", who, tx.FirstInsertedPKs(), st.first)
	}
	if !samePKs(tx.LastInsertedPKs(), st.last) {
		h.failf("%s: LastInsertedPKs()=%v, reference %v", who, tx.LastInsertedPKs(), st.last)
	}
}

// checkNothingReported: a rolled-back transaction must not be handed back as committed.
func (h *harness) checkNothingReported(who string, ctxs []*sql.SQLTx) {
	if len(ctxs) == 0 {
		return
	}
	if vk.Excluded(kfReported) {
		vk.CountExcluded(kfReported)
		h.c.Label("rolled-back-tx-reported-K13c")
		return
	}
	h.failf("%s: %d transaction(s) reported as committed (UpdatedRows=%d) after ROLLBACK", who, len(ctxs), ctxs[0].UpdatedRows())
}

// exec runs a statement that must succeed inside the session's transaction.
func (h *harness) exec(s *session, st *stmt) {
	ntx, _, err := h.db.Eng.Exec(ctx, s.tx, st.sql, nil)
	h.logf("s%d: %s => %v", s.id, st.sql, err)
	if err != nil {
		h.failf("s%d: statement failed: %s: %v", s.id, st.sql, err)
	}
	if ntx == nil || ntx.Closed() {
		h.failf("s%d: transaction gone after %s", s.id, st.sql)
	}
	s.tx = ntx
	h.c.Label("stmt-" + st.label)
	h.checkCounters(fmt.Sprintf("s%d after %s", s.id, st.sql), s.tx, s.st)
}

// abort: the transaction of s is gone without effect.
func (h *harness) abort(s *session, why string) {
	for n := range s.st.created {
		h.ghosts[n] = true
	}
	for _, op := range s.st.ddl { // tables created before a savepoint rollback are in ddl only while not rolled back
		if op.kind == "create-table" {
			h.ghosts[op.table] = true
		}
	}
	if s.st.hasWrites() {
		h.flag("writes-discarded-by-" + why)
	}
	for _, op := range s.st.ddl {
		if op.kind == "drop-constraint" {
			h.flag("constraint-drop-discarded")
			h.probeSoon = 2
		}
	}
	s.st, s.tx = nil, nil
}

func (h *harness) execFailing(s *session, st *stmt) {
	_, _, err := h.db.Eng.Exec(ctx, s.tx, st.sql, nil)
	h.logf("s%d: %s => %v", s.id, st.sql, err)
	if err == nil {
		h.failf("s%d: generator expectation: statement must fail but succeeded: %s", s.id, st.sql)
	}
	if !s.tx.Closed() {
		h.failf("s%d: transaction still open after failed statement %s (%v)", s.id, st.sql, err)
	}
	h.c.Label("stmt-" + st.label)
	if st.label == "fail-ddl-in-read-only-tx" {
		h.ghosts["zro"] = true
	}
	h.abort(s, "failed-statement")
}

func (h *harness) noteCommit(by *session, ddl bool) {
	h.cold = ddl
	for _, o := range h.sess {
		if o != by && o.st != nil {
			o.foreignCommits++
			if ddl {
				o.st.foreignDDL = true
				if len(o.st.created)+len(o.st.altered) > 0 {
					h.c.Label("own-ddl-objects-unusable-after-foreign-ddl-commit")
				}
			}
		}
	}
}

func (h *harness) end(s *session, how string) {
	st := s.st
	switch how {
	case "commit":
		_, ctxs, err := h.db.Eng.Exec(ctx, s.tx, "COMMIT", nil)
		h.logf("s%d: COMMIT => %v", s.id, err)
		switch {
		case err == nil:
			if len(ctxs) != 1 {
				h.failf("s%d: COMMIT returned %d committed transactions", s.id, len(ctxs))
			}
			h.checkCounters(fmt.Sprintf("s%d committed", s.id), ctxs[0], st)
			h.committed.apply(st)
			h.c.Label("end-commit")
			if s.foreignCommits > 0 {
				h.c.Label("end-commit-after-foreign-commit")
			}
			if len(st.ddl) > 0 {
				h.c.Label("commit-with-ddl")
			}
			s.st, s.tx = nil, nil
			h.noteCommit(s, len(st.ddl) > 0)
		case errors.Is(err, store.ErrTxReadConflict) && s.foreignCommits > 0:
			if !s.tx.Closed() {
				h.failf("s%d: transaction still open after failed COMMIT", s.id)
			}
			h.c.Label("end-commit-conflict")
			h.abort(s, "failed-commit")
		default:
			h.failf("s%d: COMMIT failed: %v (commits of other sessions since BEGIN: %d)", s.id, err, s.foreignCommits)
		}
	case "rollback":
		_, ctxs, err := h.db.Eng.Exec(ctx, s.tx, "ROLLBACK", nil)
		h.logf("s%d: ROLLBACK => %v", s.id, err)
		if err != nil {
			h.failf("s%d: ROLLBACK failed: %v", s.id, err)
		}
		h.checkNothingReported(fmt.Sprintf("s%d ROLLBACK", s.id), ctxs)
		h.c.Label("end-rollback")
		h.abort(s, "rollback")
	case "abandon":
		err := s.tx.Cancel()
		h.logf("s%d: Cancel() => %v", s.id, err)
		if err != nil {
			h.failf("s%d: Cancel failed: %v", s.id, err)
		}
		h.c.Label("end-abandon")
		h.abort(s, "abandon")
	}
	h.audit("after "+how, false)
}

// autocommit runs one statement outside any transaction.
func (h *harness) autocommit(s *session) {
	h.warm()
	st := newTxstate(h.committed, false)
	if h.g.chance(5, "autoFails") {
		f := h.g.failing(st, h.foreign(st))
		if f == nil || f.label == "fail-savepoint-missing" || f.label == "fail-nested-begin" {
			return
		}
		ntx, ctxs, err := h.db.Eng.Exec(ctx, nil, f.sql, nil)
		h.logf("s%d(auto): %s => %v", s.id, f.sql, err)
		if err == nil || ntx != nil || len(ctxs) != 0 {
			h.failf("s%d(auto): statement must fail: %s: err=%v committed=%d", s.id, f.sql, err, len(ctxs))
		}
		h.c.Label("auto-" + f.label)
		h.audit("after failed autocommit", false)
		return
	}
	d := h.g.dml(st)
	if d == nil {
		return
	}
	ntx, ctxs, err := h.db.Eng.Exec(ctx, nil, d.sql, nil)
	h.logf("s%d(auto): %s => %v", s.id, d.sql, err)
	if err != nil || ntx != nil || len(ctxs) != 1 {
		h.failf("s%d(auto): %s: err=%v open=%v committed=%d", s.id, d.sql, err, ntx != nil, len(ctxs))
	}
	h.checkCounters(fmt.Sprintf("s%d(auto) %s", s.id, d.sql), ctxs[0], st)
	h.committed.apply(st)
	h.c.Label("auto-" + d.label)
	h.noteCommit(s, false)
	h.audit("after autocommit", false)
}

// checkProbe: outside any transaction, a statement that violates a committed
// CHECK constraint must fail, whatever open or rolled-back transactions did to
// their own copy of the schema.
func (h *harness) checkProbe(s *session, force bool) bool {
	if !force && h.g.chance(2, "plainAutocommit") {
		return false
	}
	f := h.g.checkViolation(newTxstate(h.committed, false))
	if f == nil {
		return false
	}
	ntx, ctxs, err := h.db.Eng.Exec(ctx, nil, f.sql, nil)
	h.logf("s%d(auto): %s => %v", s.id, f.sql, err)
	if err == nil || ntx != nil || len(ctxs) != 0 {
		h.failf("s%d(auto): statement violates CHECK constraint and must fail: %s: err=%v committed=%d", s.id, f.sql, err, len(ctxs))
	}
	h.c.Label("auto-" + f.label)
	if h.flags["constraint-drop-discarded"] {
		h.c.Label("check-enforced-after-discarded-drop")
	}
	for _, o := range h.sess {
		if o.st != nil {
			for _, op := range o.st.ddl {
				if op.kind == "drop-constraint" {
					h.c.Label("check-enforced-while-other-session-dropped-it")
				}
			}
		}
	}
	h.audit("after failed autocommit", false)
	return true
}

// body draws the statements of a transaction block sent as one script.
func (h *harness) script(s *session) {
	h.warm()
	st := newTxstate(h.committed, false)
	n := h.g.intn(1, 6, "scriptLen")
	parts := []string{"BEGIN TRANSACTION"}
	failed := ""
	for i := 0; i < n && failed == ""; i++ {
		var x *stmt
		switch k := h.g.intn(0, 9, "scriptStmt"); {
		case k < 6:
			x = h.g.dml(st)
		case k < 8:
			x = h.g.savepointStmt(st)
		case k == 8:
			x = h.g.ddl(st)
		default:
			x = h.g.failing(st, h.foreign(st))
		}
		if x == nil {
			continue
		}
		parts = append(parts, x.sql)
		if x.fails {
			failed = x.label
			// statements after the failing one must not run either
			if y := h.g.dml(newTxstate(st.view, false)); y != nil {
				parts = append(parts, y.sql)
			}
		}
	}
	end := "COMMIT"
	if h.g.chance(4, "scriptRollback") {
		end = "ROLLBACK"
	}
	parts = append(parts, end)
	text := strings.Join(parts, "; ")
	ntx, ctxs, err := h.db.Eng.Exec(ctx, nil, text, nil)
	h.logf("s%d(script): %s => %v", s.id, text, err)
	if ntx != nil {
		h.failf("s%d(script): a transaction is left open after %s", s.id, text)
	}
	discard := func(why string) {
		for n := range st.created {
			h.ghosts[n] = true
		}
		if st.hasWrites() {
			h.flag("writes-discarded-by-" + why)
		}
	}
	switch {
	case failed != "":
		if err == nil || len(ctxs) != 0 {
			h.failf("s%d(script): script with a failing statement (%s): err=%v committed=%d: %s", s.id, failed, err, len(ctxs), text)
		}
		h.c.Label("script-failed-statement")
		discard("failed-statement")
	case end == "ROLLBACK":
		if err != nil {
			h.failf("s%d(script): err=%v: %s", s.id, err, text)
		}
		h.checkNothingReported(fmt.Sprintf("s%d(script) %s", s.id, text), ctxs)
		h.c.Label("script-rollback")
		discard("rollback")
	default:
		if err != nil || len(ctxs) != 1 {
			h.failf("s%d(script): err=%v committed=%d: %s", s.id, err, len(ctxs), text)
		}
		h.checkCounters(fmt.Sprintf("s%d(script)", s.id), ctxs[0], st)
		h.committed.apply(st)
		h.c.Label("script-commit")
		h.noteCommit(s, len(st.ddl) > 0)
	}
	h.audit("after script", false)
}

// step lets one session do one thing.
// dropInFlight: another session has dropped a constraint and not committed, or a drop was just discarded.
func (h *harness) dropInFlight(s *session) bool {
	if h.probeSoon > 0 {
		return true
	}
	for _, o := range h.sess {
		if o != s && o.st != nil {
			for _, op := range o.st.ddl {
				if op.kind == "drop-constraint" {
					return true
				}
			}
		}
	}
	return false
}

// ddlCommit: one session commits a transaction block that contains DDL (sent as one script).
func (h *harness) ddlCommit(s *session) bool {
	st := newTxstate(h.committed, false)
	parts := []string{"BEGIN TRANSACTION"}
	var kinds []string
	for try := 0; try < 6 && len(kinds) == 0; try++ {
		if x := h.g.ddl(st); x != nil {
			parts = append(parts, x.sql)
			kinds = append(kinds, x.label)
		}
	}
	if len(kinds) == 0 {
		return false
	}
	for i, n := 0, h.g.intn(0, 2, "ddlTxDML"); i < n; i++ {
		if x := h.g.dml(st); x != nil {
			parts = append(parts, x.sql)
		}
	}
	parts = append(parts, "COMMIT")
	text := strings.Join(parts, "; ")
	ntx, ctxs, err := h.db.Eng.Exec(ctx, nil, text, nil)
	h.logf("s%d(script): %s => %v", s.id, text, err)
	if err != nil || ntx != nil || len(ctxs) != 1 {
		h.failf("s%d(script): err=%v open=%v committed=%d: %s", s.id, err, ntx != nil, len(ctxs), text)
	}
	h.checkCounters(fmt.Sprintf("s%d(script)", s.id), ctxs[0], st)
	h.committed.apply(st)
	h.c.Label("straddled-ddl-" + kinds[0])
	h.noteCommit(nil, true) // the script is a transaction of its own, also for an open transaction of s
	return true
}

// straddle: a read-write transaction that only reads (the holder) stays open
// across a DDL transaction another session commits, and ends right after it,
// with no reader in between; then fresh readers must find exactly the
// committed tables, columns and rows. Variant: the holder begins after a
// first DDL commit nobody has read since.
func (h *harness) straddle() bool {
	var cands []*session
	for _, s := range h.sess {
		if s.st == nil || (!s.st.ro && !s.st.hasWrites()) {
			cands = append(cands, s)
		}
	}
	if len(cands) == 0 {
		return false
	}
	holder := cands[h.g.intn(0, len(cands)-1, "holder")]
	other := h.sess[h.g.intn(0, len(h.sess)-1, "ddlSession")]
	if other == holder {
		other = &session{id: 0} // one more client, only used for the DDL transaction
	}
	h.quiet = true
	defer func() { h.quiet = false }()
	if holder.st == nil {
		if h.g.chance(2, "ddlBeforeHolder") && h.ddlCommit(other) {
			h.c.Label("straddle-holder-begins-after-unread-ddl-commit")
		}
		h.begin(holder, false)
	} else {
		h.c.Label("straddle-holder-already-open")
	}
	if h.g.chance(2, "holderReads") {
		if q := h.g.query(holder.st); q != nil {
			h.inTxQuery(holder, q)
		}
	}
	if !h.ddlCommit(other) {
		return true
	}
	how := rapid.SampledFrom([]string{"commit", "commit", "commit", "rollback", "abandon"}).Draw(h.rt, "holderEnd")
	h.end(holder, how)
	h.c.Label("straddle-holder-" + how)
	h.flag("holder-straddled-ddl-commit")
	h.quiet = false
	h.audit("after straddle", true)
	return true
}

// ddlRace: two overlapping read-write transactions change the schema of the
// same table. One creates an index on a column (or writes rows of the table),
// the other one, a complete BEGIN; ALTER TABLE .. DROP COLUMN; COMMIT, commits
// first. The first one then commits: either it is refused (read conflict) or
// the audited state must be the reference's, in which an index on a dropped
// column cannot work.
func (h *harness) ddlRace() bool {
	var idle []*session
	for _, s := range h.sess {
		if s.st == nil {
			idle = append(idle, s)
		}
	}
	type target struct {
		t *tstate
		c *sqlgen.Column
	}
	var targets []target
	for _, n := range h.committed.names {
		t := h.committed.tabs[n]
		if len(t.def.idx) >= 2 || len(t.def.cols) <= len(t.def.pk)+1 {
			continue
		}
		for _, c := range t.def.cols {
			if !t.def.isPK(c.Name) && !t.def.indexed(c.Name) && !isChecked(c) && !c.NotNull {
				targets = append(targets, target{t, c})
			}
		}
	}
	if len(idle) == 0 || len(targets) == 0 {
		return false
	}
	a := idle[h.g.intn(0, len(idle)-1, "raceSession")]
	tg := targets[h.g.intn(0, len(targets)-1, "raceColumn")]
	name, col := tg.t.def.name, tg.c.Name
	h.begin(a, false)
	h.quiet = true
	defer func() { h.quiet = false }()
	if h.g.chance(3, "raceDML") {
		// plain DML of the table instead of DDL: equivalent to running before the DROP COLUMN
		for i := 0; i < 3; i++ {
			if d := h.g.dml(a.st); d != nil {
				h.exec(a, d)
			}
		}
		h.c.Label("ddl-race-dml-vs-drop-column")
	} else {
		ix := sqlgen.Index{Cols: []string{col}}
		t := a.st.view.tabs[name]
		t.def = t.def.with(func(n *tdef) { n.idx = append(n.idx, ix) })
		a.st.altered[name] = true
		a.st.ddl = append(a.st.ddl, ddlop{kind: "create-index", table: name, ix: ix})
		h.exec(a, &stmt{sql: ix.CreateSQL(name), label: "create-index", wrote: true})
		h.c.Label("ddl-race-create-index-vs-drop-column")
	}
	// the other session: drops the column and commits
	st := newTxstate(h.committed, false)
	dt := st.view.tabs[name]
	dt.def = dt.def.with(func(n *tdef) { n.dropCol(col) })
	st.altered[name] = true
	st.ddl = append(st.ddl, ddlop{kind: "drop-column", table: name, name: col})
	text := fmt.Sprintf("BEGIN TRANSACTION; ALTER TABLE %s DROP COLUMN %s; COMMIT", name, col)
	ntx, ctxs, err := h.db.Eng.Exec(ctx, nil, text, nil)
	h.logf("s0(script): %s => %v", text, err)
	if err != nil || ntx != nil || len(ctxs) != 1 {
		h.failf("s0(script): err=%v open=%v committed=%d: %s", err, ntx != nil, len(ctxs), text)
	}
	h.committed.apply(st)
	h.noteCommit(nil, true)
	before := len(h.committed.tabs[name].def.idx)
	h.end(a, "commit")
	if len(h.committed.tabs[name].def.idx) > before {
		h.c.Label("ddl-race-both-committed")
	}
	h.flag("ddl-race")
	h.quiet = false
	h.audit("after ddl race", true)
	return true
}

func (h *harness) step() {
	if h.g.chance(10, "straddle") && h.straddle() {
		return
	}
	if h.g.chance(12, "ddlRace") && h.ddlRace() {
		return
	}
	s := h.sess[h.g.intn(0, len(h.sess)-1, "session")]
	if h.dropInFlight(s) && h.g.chance(2, "probeCheck") {
		// the constraint must still hold for everybody else
		if s.st == nil {
			if h.checkProbe(s, true) {
				if h.probeSoon > 0 {
					h.probeSoon--
				}
				return
			}
		} else if !s.st.ro {
			if f := h.g.checkViolation(s.st); f != nil {
				h.c.Label("check-violation-in-tx-while-drop-in-flight")
				h.execFailing(s, f)
				return
			}
		}
	}
	if s.st == nil {
		switch k := h.g.intn(0, 9, "idleAction"); {
		case k < 5:
			h.begin(s, false)
		case k < 7:
			h.begin(s, true)
		case k == 7:
			if !h.checkProbe(s, false) {
				h.autocommit(s)
			}
		case k == 8:
			h.script(s)
		default:
			if len(h.committed.names) > 0 {
				st := newTxstate(h.committed, true)
				if q := h.g.query(st); q != nil {
					h.runQuery(fmt.Sprintf("s%d(auto)", s.id), nil, h.committed, q)
					h.c.Label("auto-query")
				}
			}
		}
		return
	}
	st := s.st
	if st.ro {
		switch k := h.g.intn(0, 9, "roAction"); {
		case k < 7:
			if q := h.g.query(st); q != nil {
				h.inTxQuery(s, q)
			}
		case k == 7:
			if f := h.g.failing(st, nil); f != nil {
				h.execFailing(s, f)
			}
		default:
			h.end(s, "abandon")
		}
		return
	}
	switch k := h.g.intn(0, 19, "rwAction"); {
	case k < 6:
		if d := h.g.dml(st); d != nil {
			h.exec(s, d)
		}
	case k < 9:
		if q := h.g.query(st); q != nil {
			h.inTxQuery(s, q)
		}
	case k < 13:
		if x := h.g.savepointStmt(st); x != nil {
			h.exec(s, x)
			if x.label == "rollback-to-after-write" {
				h.flag("rolled-back-to-savepoint-after-write")
			}
		}
	case k == 13 || k == 14:
		if x := h.g.ddl(st); x != nil {
			h.exec(s, x)
		}
	case k == 15:
		if f := h.g.failing(st, h.foreign(st)); f != nil {
			h.execFailing(s, f)
		}
	case k == 16:
		// failing query or unparsable statement: the transaction goes on
		if h.g.chance(2, "parseError") {
			_, _, err := h.db.Eng.Exec(ctx, s.tx, "INSRT INTO nowhere", nil)
			h.logf("s%d: INSRT INTO nowhere => %v", s.id, err)
			if !errors.Is(err, sql.ErrParsingError) {
				h.failf("s%d: unparsable statement: err=%v", s.id, err)
			}
			h.c.Label("stmt-parse-error")
		} else {
			text := h.g.failingQuery(st, h.foreign(st))
			_, err := sqlgen.QueryEngine(h.db.Eng, s.tx, text, nil)
			h.logf("s%d: %s => %v", s.id, text, err)
			if err == nil {
				h.failf("s%d: generator expectation: query must fail: %s", s.id, text)
			}
			h.c.Label("stmt-failing-query")
		}
		if s.tx.Closed() {
			h.failf("s%d: transaction closed by a failing query / unparsable statement", s.id)
		}
		h.checkCounters(fmt.Sprintf("s%d after failing query", s.id), s.tx, st)
		h.checkView(s, "after-failing-query")
		if st.hasWrites() {
			h.flag("failed-query-mid-transaction")
		}
	default:
		h.checkView(s, "before-end")
		h.end(s, rapid.SampledFrom([]string{"commit", "commit", "commit", "rollback", "abandon"}).Draw(h.rt, "endKind"))
	}
}

func (h *harness) inTxQuery(s *session, q *query) {
	h.runQuery(fmt.Sprintf("s%d", s.id), s.tx, s.st.view, q)
	h.c.Label("stmt-query")
	if s.st.hasWrites() {
		h.c.Label("query-over-own-writes")
	}
	if s.foreignCommits > 0 {
		h.flag("read-after-foreign-commit")
	}
}

// setup creates the initial tables and rows (committed before any session starts).
func (h *harness) setup() {
	nt := h.g.intn(1, 2, "nTables")
	for i := 1; i <= nt; i++ {
		d := h.g.genTable(fmt.Sprintf("t%d", i), true)
		text := d.createSQL()
		for _, ix := range d.idx {
			text += "; " + ix.CreateSQL(d.name)
		}
		if err := h.db.Exec(text, nil); err != nil {
			h.failf("setup: %s: %v", text, err)
		}
		h.logf("setup: %s", text)
		h.committed.add(d)
		h.cold = true
	}
	for i, n := 0, h.g.intn(0, 4, "setupStmts"); i < n; i++ {
		st := newTxstate(h.committed, false)
		x := h.g.insert(st, "insert")
		if x == nil {
			continue
		}
		if err := h.db.Exec(x.sql, nil); err != nil {
			h.failf("setup: %s: %v", x.sql, err)
		}
		h.logf("setup: %s", x.sql)
		h.committed.apply(st)
	}
}

func TestTxPrograms(t *testing.T) {
	setupTmp()
	maxSteps := 24
	if vk.Thorough() {
		maxSteps = 40
	}
	vk.Check(t, 480, 20000, func(rt *rapid.T, c *vk.Case) {
		dir := vk.Dir()
		defer os.RemoveAll(dir)
		db, err := sqlgen.Open(dir, sqlgen.DBOpts{})
		if err != nil {
			rt.Fatalf("open: %v", err)
		}
		defer db.Close()
		h := &harness{rt: rt, c: c, g: &gen{rt: rt, c: c}, db: db, committed: newWorld(), ghosts: map[string]bool{}, flags: map[string]bool{}}
		defer func() {
			for _, s := range h.sess {
				if s.tx != nil && !s.tx.Closed() {
					s.tx.Cancel()
				}
			}
		}()
		h.setup()
		ns := h.g.intn(1, 3, "nSessions")
		for i := 1; i <= ns; i++ {
			h.sess = append(h.sess, &session{id: i})
		}
		steps := h.g.intn(4, maxSteps, "nSteps")
		for i := 0; i < steps; i++ {
			h.step()
			h.observe()
		}
		for _, s := range h.sess {
			if s.st == nil {
				continue
			}
			h.checkView(s, "final")
			if s.st.ro {
				h.end(s, "abandon")
			} else {
				h.end(s, rapid.SampledFrom([]string{"commit", "commit", "rollback", "abandon"}).Draw(rt, "endKind"))
			}
		}
		h.audit("final", true)
		c.Descf("%s", strings.Join(h.trace, "\n"))
		c.Label(fmt.Sprintf("sessions-%d", ns))
		for l := range h.flags {
			if strings.HasPrefix(l, "writes-discarded-by-") || l == "rolled-back-to-savepoint-after-write" || l == "failed-query-mid-transaction" ||
				strings.HasSuffix(l, "-during-open-writer") || l == "read-after-foreign-commit" || l == "holder-straddled-ddl-commit" || l == "ddl-race" {
				c.NonTrivial()
			}
		}
	})
}
