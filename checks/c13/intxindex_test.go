package c13

// Own writes seen through composite secondary indexes: inside one explicit
// transaction rows are rewritten so that a leading index column changes while
// the last one keeps its value (and the other way round, inserted, deleted);
// after every statement the transaction reads the table through the primary
// key, through the composite index and with predicates on old / new leading
// values. Every read must equal the reference rows, whatever index is forced.

import (
	"fmt"
	"os"
	"sort"
	"strings"
	"testing"

	"github.com/codenotary/immudb/embedded/sql"
	"pgregory.net/rapid"

	"verif/internal/sqlgen"
	"verif/internal/vk"
)

type ixRow struct {
	id, a, b, v int64
	c           string
}

func (r ixRow) vals() []sqlgen.Value {
	return []sqlgen.Value{sqlgen.Int(r.id), sqlgen.Int(r.a), sqlgen.Int(r.b), sqlgen.Varchar(r.c), sqlgen.Int(r.v)}
}

func ixExpect(rows map[int64]ixRow, keep func(ixRow) bool) *sqlgen.Result {
	ids := make([]int64, 0, len(rows))
	for id := range rows {
		ids = append(ids, id)
	}
	sort.Slice(ids, func(i, j int) bool { return ids[i] < ids[j] })
	res := &sqlgen.Result{}
	for _, id := range ids {
		if keep == nil || keep(rows[id]) {
			res.Rows = append(res.Rows, rows[id].vals())
		}
	}
	return res
}

func TestInTxCompositeIndex(t *testing.T) {
	vk.Check(t, 320, 12000, func(rt *rapid.T, c *vk.Case) {
		dir := vk.Dir()
		defer os.RemoveAll(dir)
		db, err := sqlgen.Open(dir, sqlgen.DBOpts{})
		if err != nil {
			rt.Fatalf("open: %v", err)
		}
		defer db.Close()
		ixCols := rapid.SampledFrom([]string{"a, b", "a, b", "a, b, c", "a, c", "b, a"}).Draw(rt, "indexCols")
		var trace []string
		logf := func(format string, args ...any) { trace = append(trace, fmt.Sprintf(format, args...)) }
		fail := func(format string, args ...any) {
			c.Failf(rt, map[string]any{"trace": trace}, format, args...)
		}
		setup := "CREATE TABLE t (id INTEGER, a INTEGER, b INTEGER, c VARCHAR[8], v INTEGER, PRIMARY KEY id); CREATE INDEX ON t (" + ixCols + ")"
		if err := db.Exec(setup, nil); err != nil {
			rt.Fatalf("%s: %v", setup, err)
		}
		logf("setup: %s", setup)
		val := func(label string) int64 { return int64(rapid.IntRange(0, 3).Draw(rt, label)) }
		str := func() string { return rapid.SampledFrom([]string{"x", "y", "z"}).Draw(rt, "c") }
		rows := map[int64]ixRow{}
		n0 := rapid.IntRange(2, 7).Draw(rt, "initialRows")
		for id := int64(1); id <= int64(n0); id++ {
			r := ixRow{id: id, a: val("a"), b: val("b"), c: str(), v: val("v")}
			text := fmt.Sprintf("INSERT INTO t (id, a, b, c, v) VALUES (%d, %d, %d, '%s', %d)", r.id, r.a, r.b, r.c, r.v)
			if err := db.Exec(text, nil); err != nil {
				rt.Fatalf("%s: %v", text, err)
			}
			rows[id] = r
		}
		logf("setup: %d rows %v", n0, ixExpect(rows, nil).Keys())
		committed := map[int64]ixRow{}
		for k, v := range rows {
			committed[k] = v
		}

		var tx *sql.SQLTx
		read := func(who string, tx *sql.SQLTx, want map[int64]ixRow) {
			queries := []struct {
				text string
				keep func(ixRow) bool
			}{
				{"SELECT id, a, b, c, v FROM t", nil},
				{"SELECT id, a, b, c, v FROM t USE INDEX ON (" + ixCols + ")", nil},
			}
			for _, lead := range []int64{val("probeA"), val("probeA")} {
				lead := lead
				queries = append(queries,
					struct {
						text string
						keep func(ixRow) bool
					}{fmt.Sprintf("SELECT id, a, b, c, v FROM t WHERE a = %d", lead), func(r ixRow) bool { return r.a == lead }},
					struct {
						text string
						keep func(ixRow) bool
					}{fmt.Sprintf("SELECT id, a, b, c, v FROM t USE INDEX ON (%s) WHERE a = %d AND b >= 1", ixCols, lead), func(r ixRow) bool { return r.a == lead && r.b >= 1 }},
					struct {
						text string
						keep func(ixRow) bool
					}{fmt.Sprintf("SELECT COUNT(*) FROM t USE INDEX ON (%s) WHERE a = %d", ixCols, lead), nil})
				queries[len(queries)-1].keep = func(r ixRow) bool { return r.a == lead }
			}
			for _, q := range queries {
				got, err := sqlgen.QueryEngine(db.Eng, tx, q.text, nil)
				if err != nil {
					logf("%s: %s => %v", who, q.text, err)
					fail("%s: %s: %v", who, q.text, err)
				}
				exp := ixExpect(want, q.keep)
				if strings.HasPrefix(q.text, "SELECT COUNT") {
					exp = &sqlgen.Result{Rows: [][]sqlgen.Value{{sqlgen.Int(int64(len(exp.Rows)))}}}
				}
				if diff := sqlgen.DiffMultiset(got, exp); diff != "" {
					logf("%s: %s => %v", who, q.text, got.Keys())
					fail("%s: %s returned %v, reference %v (%s)", who, q.text, got.Keys(), exp.Keys(), diff)
				}
			}
			logf("%s: %d reads ok (%d rows)", who, len(queries), len(want))
		}

		tx, _, err = db.Eng.Exec(ctx, nil, "BEGIN TRANSACTION", nil)
		if err != nil {
			rt.Fatalf("BEGIN: %v", err)
		}
		defer func() {
			if tx != nil && !tx.Closed() {
				tx.Cancel()
			}
		}()
		read("tx(begin)", tx, rows)
		leadingChanged := 0
		deleted := map[int64]bool{} // rows this transaction deleted are not re-created (known finding K13b)
		steps := rapid.IntRange(2, 7).Draw(rt, "statements")
		for i := 0; i < steps; i++ {
			ids := make([]int64, 0, len(rows))
			for id := range rows {
				ids = append(ids, id)
			}
			sort.Slice(ids, func(i, j int) bool { return ids[i] < ids[j] })
			kind := rapid.SampledFrom([]string{"update-a", "update-a", "update-a", "upsert-a", "conflict-a", "update-b", "update-v", "update-many-a", "insert", "delete"}).Draw(rt, "kind")
			if len(ids) == 0 {
				kind = "insert"
			}
			var text string
			switch kind {
			case "insert":
				id := int64(rapid.IntRange(1, 12).Draw(rt, "newID"))
				if _, exists := rows[id]; exists || deleted[id] {
					continue
				}
				r := ixRow{id: id, a: val("a"), b: val("b"), c: str(), v: val("v")}
				text = fmt.Sprintf("INSERT INTO t (id, a, b, c, v) VALUES (%d, %d, %d, '%s', %d)", r.id, r.a, r.b, r.c, r.v)
				rows[id] = r
			case "delete":
				id := ids[rapid.IntRange(0, len(ids)-1).Draw(rt, "row")]
				text = fmt.Sprintf("DELETE FROM t WHERE id = %d", id)
				delete(rows, id)
				deleted[id] = true
			case "update-many-a":
				b, na := val("b"), val("a")
				text = fmt.Sprintf("UPDATE t SET a = %d WHERE b = %d", na, b)
				for _, id := range ids {
					if r := rows[id]; r.b == b {
						if r.a != na {
							leadingChanged++
						}
						r.a = na
						rows[id] = r
					}
				}
			default:
				id := ids[rapid.IntRange(0, len(ids)-1).Draw(rt, "row")]
				r := rows[id]
				switch kind {
				case "update-a":
					na := val("a")
					if na != r.a {
						leadingChanged++
					}
					r.a = na
					text = fmt.Sprintf("UPDATE t SET a = %d WHERE id = %d", r.a, id)
				case "upsert-a":
					na := val("a")
					if na != r.a {
						leadingChanged++
					}
					r.a = na
					text = fmt.Sprintf("UPSERT INTO t (id, a, b, c, v) VALUES (%d, %d, %d, '%s', %d)", r.id, r.a, r.b, r.c, r.v)
				case "conflict-a":
					na := val("a")
					if na != r.a {
						leadingChanged++
					}
					r.a = na
					text = fmt.Sprintf("INSERT INTO t (id, a, b, c, v) VALUES (%d, 9, 9, 'q', 9) ON CONFLICT DO UPDATE SET a = %d", r.id, r.a)
				case "update-b":
					r.b = val("b")
					text = fmt.Sprintf("UPDATE t SET b = %d, c = '%s' WHERE id = %d", r.b, r.c, id)
				case "update-v":
					r.v = val("v")
					text = fmt.Sprintf("UPDATE t SET v = %d WHERE id = %d", r.v, id)
				}
				rows[id] = r
			}
			ntx, _, err := db.Eng.Exec(ctx, tx, text, nil)
			logf("tx: %s => %v", text, err)
			if err != nil {
				fail("tx: %s: %v", text, err)
			}
			tx = ntx
			c.Label("stmt-" + kind)
			read(fmt.Sprintf("tx(after %d)", i+1), tx, rows)
		}
		end := rapid.SampledFrom([]string{"COMMIT", "COMMIT", "ROLLBACK"}).Draw(rt, "end")
		if _, _, err := db.Eng.Exec(ctx, tx, end, nil); err != nil {
			fail("%s: %v", end, err)
		}
		logf("tx: %s", end)
		if end == "ROLLBACK" {
			rows = committed
		}
		read("outside(after "+end+")", nil, rows)
		c.Descf("index=(%s) %s", ixCols, strings.Join(trace, "\n"))
		c.Label("index-" + strings.ReplaceAll(ixCols, ", ", "-"))
		c.Label("end-" + end)
		if leadingChanged > 0 {
			c.Label("index-column-changed-while-others-kept")
			c.NonTrivial()
		}
	})
}
