package c13

// The reference side of C13: an in-memory copy of the tables (world), the
// state of one transaction on top of a snapshot of it (txstate: own changes,
// write log, savepoint stack, counters) and the interpreter of the statement
// kinds the generator emits.

import (
	"fmt"
	"sort"
	"strings"

	"verif/internal/sqlgen"
)

// tdef is the definition of a table as one transaction sees it. Definitions
// are immutable: DDL replaces the pointer.
type tdef struct {
	name    string
	cols    []*sqlgen.Column
	pk      []string
	autoInc bool
	idx     []sqlgen.Index // secondary indexes
	checks  []check        // named CHECK constraints
}

// check is the named constraint CHECK (col >= min).
type check struct {
	name string
	col  string
	min  int64
}

func (d *tdef) checkOn(col string) *check {
	for i := range d.checks {
		if d.checks[i].col == col {
			return &d.checks[i]
		}
	}
	return nil
}

// createSQL is the CREATE TABLE statement including the CHECK constraints.
func (d *tdef) createSQL() string {
	text := d.table().CreateSQL()
	var cs strings.Builder
	for _, c := range d.checks {
		fmt.Fprintf(&cs, ", CONSTRAINT %s CHECK (%s >= %d)", c.name, c.col, c.min)
	}
	return strings.Replace(text, ", PRIMARY KEY", cs.String()+", PRIMARY KEY", 1)
}

func (d *tdef) col(name string) *sqlgen.Column {
	for _, c := range d.cols {
		if c.Name == name {
			return c
		}
	}
	return nil
}

func (d *tdef) isPK(name string) bool {
	for _, p := range d.pk {
		if p == name {
			return true
		}
	}
	return false
}

// indexed reports whether name is a column of a secondary index.
func (d *tdef) indexed(name string) bool {
	for _, ix := range d.idx {
		for _, c := range ix.Cols {
			if c == name {
				return true
			}
		}
	}
	return false
}

func (d *tdef) uniqueCol() *sqlgen.Column {
	for _, ix := range d.idx {
		if ix.Unique {
			return d.col(ix.Cols[0])
		}
	}
	return nil
}

func (d *tdef) hasIndexes() bool { return len(d.idx) > 0 }

func (d *tdef) table() *sqlgen.Table {
	return &sqlgen.Table{Name: d.name, Cols: d.cols, PK: d.pk, Indexes: d.idx}
}

func (d *tdef) colNames() []string {
	out := make([]string, len(d.cols))
	for i, c := range d.cols {
		out[i] = c.Name
	}
	return out
}

func (d *tdef) with(f func(n *tdef)) *tdef {
	n := &tdef{name: d.name, cols: append([]*sqlgen.Column(nil), d.cols...), pk: d.pk, autoInc: d.autoInc, idx: append([]sqlgen.Index(nil), d.idx...),
		checks: append([]check(nil), d.checks...)}
	f(n)
	return n
}

// row maps column name to value; an absent column is NULL. Rows are immutable.
type row map[string]sqlgen.Value

func (d *tdef) val(r row, name string) sqlgen.Value {
	if v, ok := r[name]; ok {
		return v
	}
	return sqlgen.Null(d.col(name).Type)
}

func (d *tdef) pkKey(r row) string {
	parts := make([]string, len(d.pk))
	for i, p := range d.pk {
		parts[i] = d.val(r, p).Key()
	}
	return strings.Join(parts, "|")
}

func (d *tdef) project(r row) []sqlgen.Value {
	out := make([]sqlgen.Value, len(d.cols))
	for i, c := range d.cols {
		out[i] = d.val(r, c.Name)
	}
	return out
}

func (d *tdef) env(r row) sqlgen.Env {
	e := sqlgen.Env{}
	for _, c := range d.cols {
		e["."+c.Name] = d.val(r, c.Name)
	}
	return e
}

func (d *tdef) cmpPK(a, b row) int {
	for _, p := range d.pk {
		if c := sqlgen.Compare(d.val(a, p), d.val(b, p)); c != 0 {
			return c
		}
	}
	return 0
}

type tstate struct {
	def   *tdef
	rows  map[string]row
	maxPK int64 // AUTO_INCREMENT tables: largest key ever written (deleted rows included)
}

func (t *tstate) clone() *tstate {
	n := &tstate{def: t.def, rows: make(map[string]row, len(t.rows)), maxPK: t.maxPK}
	for k, r := range t.rows {
		n.rows[k] = r
	}
	return n
}

// sorted returns the rows in primary-key order.
func (t *tstate) sorted() []row {
	out := make([]row, 0, len(t.rows))
	for _, r := range t.rows {
		out = append(out, r)
	}
	sort.Slice(out, func(i, j int) bool { return t.def.cmpPK(out[i], out[j]) < 0 })
	return out
}

// world is the content of the database: committed, or as one transaction sees it.
type world struct {
	tabs  map[string]*tstate
	names []string // creation order
}

func newWorld() *world { return &world{tabs: map[string]*tstate{}} }

func (w *world) clone() *world {
	n := &world{tabs: make(map[string]*tstate, len(w.tabs)), names: append([]string(nil), w.names...)}
	for k, t := range w.tabs {
		n.tabs[k] = t.clone()
	}
	return n
}

func (w *world) add(d *tdef) {
	w.tabs[d.name] = &tstate{def: d, rows: map[string]row{}}
	w.names = append(w.names, d.name)
}

// dump renders the world for failure reports.
func (w *world) dump() string {
	var sb strings.Builder
	for _, n := range w.names {
		t := w.tabs[n]
		fmt.Fprintf(&sb, "%s(%s):", n, strings.Join(t.def.colNames(), ","))
		for _, r := range t.sorted() {
			sb.WriteString(" [" + sqlgen.RowKey(t.def.project(r)) + "]")
		}
		sb.WriteString("\n")
	}
	return sb.String()
}

// wop is one row-level effect of a transaction: the row a primary key maps to
// afterwards (nil = deleted).
type wop struct {
	table string
	pk    string
	r     row
}

type ddlop struct {
	kind  string // "create-table" | "create-index" | "add-column" | "drop-constraint"
	name  string // drop-constraint
	table string
	def   *tdef // create-table
	ix    sqlgen.Index
	col   *sqlgen.Column
}

type savepoint struct {
	name    string
	id      int
	view    *world
	wlogLen int
	ddlLen  int
	written map[string]map[string]bool
	created map[string]bool
	altered map[string]bool
	upd     int
	first   map[string]int64
	last    map[string]int64
}

// txstate is the reference state of one open transaction.
type txstate struct {
	ro      bool
	view    *world
	wlog    []wop
	ddl     []ddlop
	written map[string]map[string]bool // table -> primary keys this transaction wrote or deleted
	created map[string]bool            // tables created by this transaction
	altered map[string]bool            // tables this transaction ran DDL on
	// foreignDDL: another session committed DDL since this transaction began
	foreignDDL bool
	sps        []savepoint
	imm        map[string]int // name -> id of the savepoint the engine's name map holds
	spSeq      int
	upd        int
	first      map[string]int64
	last       map[string]int64
}

func newTxstate(snapshot *world, ro bool) *txstate {
	return &txstate{ro: ro, view: snapshot.clone(), written: map[string]map[string]bool{}, created: map[string]bool{},
		altered: map[string]bool{}, imm: map[string]int{}, first: map[string]int64{}, last: map[string]int64{}}
}

func copyPKs(m map[string]int64) map[string]int64 {
	n := make(map[string]int64, len(m))
	for k, v := range m {
		n[k] = v
	}
	return n
}

func copySet(m map[string]bool) map[string]bool {
	n := make(map[string]bool, len(m))
	for k, v := range m {
		n[k] = v
	}
	return n
}

func copyWritten(m map[string]map[string]bool) map[string]map[string]bool {
	n := make(map[string]map[string]bool, len(m))
	for k, v := range m {
		n[k] = copySet(v)
	}
	return n
}

func (s *txstate) wrote(table, pk string) bool { return s.written[table][pk] }

// hasWrites reports whether the transaction changed anything so far.
func (s *txstate) hasWrites() bool { return len(s.wlog) > 0 || len(s.ddl) > 0 }

func (s *txstate) put(table string, r row) {
	t := s.view.tabs[table]
	k := t.def.pkKey(r)
	t.rows[k] = r
	s.mark(table, k)
	s.wlog = append(s.wlog, wop{table: table, pk: k, r: r})
}

func (s *txstate) del(table, pk string) {
	delete(s.view.tabs[table].rows, pk)
	s.mark(table, pk)
	s.wlog = append(s.wlog, wop{table: table, pk: pk})
}

func (s *txstate) mark(table, pk string) {
	if s.written[table] == nil {
		s.written[table] = map[string]bool{}
	}
	s.written[table][pk] = true
}

func (s *txstate) insertedPK(table string, id int64) {
	if _, ok := s.first[table]; !ok {
		s.first[table] = id
	}
	s.last[table] = id
}

// ---- savepoints (PostgreSQL stack semantics; the generator only refers to
// names on which they and the engine's name map agree, see usable)

func (s *txstate) savepoint(name string) {
	s.spSeq++
	s.sps = append(s.sps, savepoint{name: name, id: s.spSeq, view: s.view.clone(), wlogLen: len(s.wlog), ddlLen: len(s.ddl),
		written: copyWritten(s.written), created: copySet(s.created), altered: copySet(s.altered),
		upd: s.upd, first: copyPKs(s.first), last: copyPKs(s.last)})
	s.imm[name] = s.spSeq
}

func (s *txstate) find(name string) int {
	for i := len(s.sps) - 1; i >= 0; i-- {
		if s.sps[i].name == name {
			return i
		}
	}
	return -1
}

// usable: the name denotes the same savepoint for a stack of savepoints and
// for the engine's map of names.
func (s *txstate) usable(name string) bool {
	i := s.find(name)
	return i >= 0 && s.imm[name] == s.sps[i].id
}

func (s *txstate) usableNames() []string {
	var out []string
	seen := map[string]bool{}
	for _, sp := range s.sps {
		if !seen[sp.name] && s.usable(sp.name) {
			out = append(out, sp.name)
		}
		seen[sp.name] = true
	}
	sort.Strings(out)
	return out
}

// changedSince reports whether anything was written after the savepoint.
func (s *txstate) changedSince(name string) bool {
	sp := s.sps[s.find(name)]
	return len(s.wlog) > sp.wlogLen || len(s.ddl) > sp.ddlLen
}

func (s *txstate) rollbackTo(name string) {
	i := s.find(name)
	sp := s.sps[i]
	counters := map[string]int64{}
	for n, t := range s.view.tabs {
		counters[n] = t.maxPK
	}
	s.view = sp.view.clone()
	// AUTO_INCREMENT counters behave like sequences: not rolled back
	for n, t := range s.view.tabs {
		if counters[n] > t.maxPK {
			t.maxPK = counters[n]
		}
	}
	s.wlog = s.wlog[:sp.wlogLen]
	s.ddl = s.ddl[:sp.ddlLen]
	s.written = copyWritten(sp.written)
	s.created = copySet(sp.created)
	s.altered = copySet(sp.altered)
	s.upd = sp.upd
	s.first = copyPKs(sp.first)
	s.last = copyPKs(sp.last)
	s.sps = s.sps[:i+1]
	delete(s.imm, name)
}

func (s *txstate) release(name string) {
	i := s.find(name)
	s.sps = s.sps[:i]
	delete(s.imm, name)
}

// apply merges a committed transaction into the committed world.
func (w *world) apply(s *txstate) {
	for _, op := range s.ddl {
		switch op.kind {
		case "create-table":
			w.add(op.def)
		case "create-index":
			t := w.tabs[op.table]
			t.def = t.def.with(func(n *tdef) { n.idx = append(n.idx, op.ix) })
		case "add-column":
			t := w.tabs[op.table]
			t.def = t.def.with(func(n *tdef) { n.cols = append(n.cols, op.col) })
		case "drop-constraint":
			t := w.tabs[op.table]
			t.def = t.def.with(func(n *tdef) { n.dropCheck(op.name) })
		case "drop-column":
			t := w.tabs[op.table]
			t.def = t.def.with(func(n *tdef) { n.dropCol(op.name) })
		}
	}
	for _, op := range s.wlog {
		t := w.tabs[op.table]
		if op.r == nil {
			delete(t.rows, op.pk)
		} else {
			t.rows[op.pk] = op.r
		}
	}
	for n, t := range s.view.tabs {
		if c := w.tabs[n]; c != nil && t.maxPK > c.maxPK {
			c.maxPK = t.maxPK
		}
	}
}

// ---- queries

type query struct {
	table  string
	where  sqlgen.Expr
	count  bool
	order  int // 0 none, 1 ascending primary key, -1 descending
	limit  int // 0 none
	useIdx []string
}

func (q *query) sql(d *tdef) string {
	var sb strings.Builder
	if q.count {
		sb.WriteString("SELECT COUNT(*) FROM " + d.name)
	} else {
		sb.WriteString("SELECT " + strings.Join(d.colNames(), ", ") + " FROM " + d.name)
	}
	if len(q.useIdx) > 0 {
		sb.WriteString(" USE INDEX ON (" + strings.Join(q.useIdx, ", ") + ")")
	}
	if q.where != nil {
		sb.WriteString(" WHERE " + q.where.Render(nil))
	}
	if q.order != 0 {
		parts := make([]string, len(d.pk))
		for i, p := range d.pk {
			parts[i] = p
			if q.order < 0 {
				parts[i] += " DESC"
			}
		}
		sb.WriteString(" ORDER BY " + strings.Join(parts, ", "))
	}
	if q.limit > 0 {
		fmt.Fprintf(&sb, " LIMIT %d", q.limit)
	}
	return sb.String()
}

func matches(d *tdef, where sqlgen.Expr, r row) bool {
	if where == nil {
		return true
	}
	v, _, err := where.Eval(d.env(r))
	if err != nil {
		panic(fmt.Sprintf("c13: predicate %s cannot be evaluated: %v", where.Render(nil), err))
	}
	return !v.Null && v.B
}

// eval computes the expected result of q over w.
func (q *query) eval(w *world) *sqlgen.Result {
	t := w.tabs[q.table]
	rows := t.sorted()
	var sel []row
	for _, r := range rows {
		if matches(t.def, q.where, r) {
			sel = append(sel, r)
		}
	}
	if q.count {
		return &sqlgen.Result{Rows: [][]sqlgen.Value{{sqlgen.Int(int64(len(sel)))}}}
	}
	if q.order < 0 {
		for i, j := 0, len(sel)-1; i < j; i, j = i+1, j-1 {
			sel[i], sel[j] = sel[j], sel[i]
		}
	}
	if q.limit > 0 && len(sel) > q.limit {
		sel = sel[:q.limit]
	}
	res := &sqlgen.Result{}
	for _, r := range sel {
		res.Rows = append(res.Rows, t.def.project(r))
	}
	return res
}

// diff compares an engine result with the expected one ("" = equal).
func (q *query) diff(got, want *sqlgen.Result) string {
	if q.order != 0 {
		return sqlgen.DiffSeq(got, want)
	}
	return sqlgen.DiffMultiset(got, want)
}

func (d *tdef) dropCheck(name string) {
	var kept []check
	for _, c := range d.checks {
		if c.name != name {
			kept = append(kept, c)
		}
	}
	d.checks = kept
}

// dropCol removes a column from the definition (rows keep the value under the
// name, which no definition refers to any more: column names are never reused).
func (d *tdef) dropCol(name string) {
	var kept []*sqlgen.Column
	for _, c := range d.cols {
		if c.Name != name {
			kept = append(kept, c)
		}
	}
	d.cols = kept
}
