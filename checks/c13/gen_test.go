package c13

// Generators of C13: schemas, statements of a transaction program (DML, DDL,
// queries, savepoint statements, statements that must fail). Every generator
// takes the reference state of the transaction it generates for, so that the
// outcome of each statement is known by construction; a statement that is
// expected to succeed is applied to that state right away.

import (
	"fmt"
	"strings"
	"time"

	"pgregory.net/rapid"

	"verif/internal/sqlgen"
	"verif/internal/vk"
)

const (
	kfSavepoint = "K1-rollback-to-savepoint-keeps-writes"
	kfSnapshot  = "K13a-snapshot-taken-lazily-per-index"
	kfOwnDelete = "K13b-own-delete-invisible-to-insert"
	kfReported  = "K13c-rolled-back-tx-reported-as-committed"
	kfRODDL     = "K13d-failed-ddl-in-read-only-tx-leaks-into-catalog-cache"
	kfColdDDL   = "K13g-rolled-back-add-column-stays-in-index-mapper"
)

type gen struct {
	rt   *rapid.T
	c    *vk.Case
	useq int // fresh values of UNIQUE columns
	tseq int // tables created by transactions
	cseq int // columns added by transactions
	// types of the non-key columns (nil = filterTypes); prefix of generated table names
	types  []sqlgen.Type
	prefix string
	// noAuto: no AUTO_INCREMENT keys, noUnique: no UNIQUE indexes
	noUnique bool
	// noNUL: no NUL bytes in strings (they cannot travel in a PostgreSQL protocol message)
	noNUL bool
	// noChecks: no CHECK constraints
	noChecks bool
	// skipFail: kinds of failing statements this front-end does not reject
	skipFail map[string]bool
}

func (g *gen) colType() sqlgen.Type {
	if g.types != nil {
		return rapid.SampledFrom(g.types).Draw(g.rt, "colType")
	}
	return rapid.SampledFrom(filterTypes).Draw(g.rt, "colType")
}

// stmt is one generated statement. fails: the engine must reject it.
type stmt struct {
	sql   string
	label string
	fails bool
	// wrote: the statement (when it succeeds) changes rows or the catalog
	wrote bool
	// ins: INSERT / UPSERT statements can also be rendered with bound parameters
	ins *insSpec
}

type insSpec struct {
	head   string // "INSERT INTO t (a, b) VALUES "
	cols   []*sqlgen.Column
	rows   []row
	d      *tdef
	suffix string
}

// paramSQL renders the statement with $1.. placeholders and their values.
func (i *insSpec) paramSQL() (string, []any) {
	var sb strings.Builder
	var args []any
	sb.WriteString(i.head)
	for ri, r := range i.rows {
		if ri > 0 {
			sb.WriteString(", ")
		}
		sb.WriteString("(")
		for ci, c := range i.cols {
			if ci > 0 {
				sb.WriteString(", ")
			}
			v := i.d.val(r, c.Name)
			var a any
			switch {
			case v.Null:
				a = nil
			case v.T == sqlgen.TInt:
				a = v.I
			case v.T == sqlgen.TBool:
				a = v.B
			default:
				a = v.S
			}
			args = append(args, a)
			fmt.Fprintf(&sb, "$%d", len(args))
		}
		sb.WriteString(")")
	}
	sb.WriteString(i.suffix)
	return sb.String(), args
}

func (g *gen) intn(lo, hi int, label string) int { return rapid.IntRange(lo, hi).Draw(g.rt, label) }
func (g *gen) chance(n int, label string) bool   { return rapid.IntRange(0, n-1).Draw(g.rt, label) == 0 }

var baseTime = time.Date(2024, 2, 29, 23, 59, 59, 0, time.UTC)

func poolFor(typ sqlgen.Type, maxLen int) []sqlgen.Value {
	switch typ {
	case sqlgen.TInt:
		return []sqlgen.Value{sqlgen.Int(0), sqlgen.Int(1), sqlgen.Int(2), sqlgen.Int(3), sqlgen.Int(5), sqlgen.Int(-1), sqlgen.Int(10), sqlgen.Int(100)}
	case sqlgen.TBool:
		return []sqlgen.Value{sqlgen.Bool(false), sqlgen.Bool(true)}
	case sqlgen.TFloat:
		return []sqlgen.Value{sqlgen.Float(0), sqlgen.Float(1.5), sqlgen.Float(-2.25), sqlgen.Float(100.75), sqlgen.Float(3)}
	case sqlgen.TTimestamp:
		return []sqlgen.Value{sqlgen.Timestamp(baseTime), sqlgen.Timestamp(baseTime.Add(time.Second)), sqlgen.Timestamp(baseTime.Add(-24 * time.Hour)),
			sqlgen.Timestamp(baseTime.Add(1234567 * time.Microsecond))}
	case sqlgen.TBlob:
		var out []sqlgen.Value
		for _, b := range [][]byte{{0}, {0xff}, {'a', 'b'}, {1, 2, 3}} {
			if maxLen == 0 || len(b) <= maxLen {
				out = append(out, sqlgen.Blob(b))
			}
		}
		return out
	case sqlgen.TVarchar:
		var out []sqlgen.Value
		for _, s := range []string{"a", "b", "ab", "z", "", "it's", "é", "a b", "Zq"} {
			if maxLen == 0 || len(s) <= maxLen {
				out = append(out, sqlgen.Varchar(s))
			}
		}
		return out
	}
	return nil
}

func (g *gen) newColumn(name string, typ sqlgen.Type, notNull bool) *sqlgen.Column {
	c := &sqlgen.Column{Name: name, Type: typ, NotNull: notNull}
	if typ.VarSized() {
		c.MaxLen = rapid.SampledFrom([]int{4, 8, 16}).Draw(g.rt, "maxLen")
	}
	c.Pool = poolFor(typ, c.MaxLen)
	return c
}

var filterTypes = []sqlgen.Type{sqlgen.TInt, sqlgen.TInt, sqlgen.TInt, sqlgen.TVarchar, sqlgen.TVarchar, sqlgen.TBool, sqlgen.TFloat, sqlgen.TTimestamp, sqlgen.TBlob}

// genTable draws a table: primary key k1[,k2] (INTEGER, AUTO_INCREMENT
// INTEGER, VARCHAR or INTEGER+VARCHAR), 1-3 columns f* that predicates may
// use, optionally x1 with a plain secondary index and u1 with a UNIQUE one.
func (g *gen) genTable(name string, allowIndexes bool) *tdef {
	d := &tdef{name: name}
	shape := rapid.SampledFrom([]string{"int", "int", "auto", "vc", "int+vc"}).Draw(g.rt, "pkShape")
	intKey := func(n string, hi int) *sqlgen.Column {
		c := &sqlgen.Column{Name: n, Type: sqlgen.TInt, NotNull: true}
		for i := 1; i <= hi; i++ {
			c.Pool = append(c.Pool, sqlgen.Int(int64(i)))
		}
		return c
	}
	vcKey := func(n string, vals ...string) *sqlgen.Column {
		c := &sqlgen.Column{Name: n, Type: sqlgen.TVarchar, MaxLen: 8, NotNull: true}
		for _, v := range vals {
			c.Pool = append(c.Pool, sqlgen.Varchar(v))
		}
		return c
	}
	switch shape {
	case "int":
		d.cols = append(d.cols, intKey("k1", 10))
		d.pk = []string{"k1"}
	case "auto":
		c := intKey("k1", 10)
		c.AutoInc = true
		d.cols = append(d.cols, c)
		d.pk = []string{"k1"}
		d.autoInc = true
	case "vc":
		d.cols = append(d.cols, vcKey("k1", "a", "b", "c", "d", "e", "k", "kk", "Z", "0", "é"))
		d.pk = []string{"k1"}
	case "int+vc":
		d.cols = append(d.cols, intKey("k1", 4), vcKey("k2", "a", "b", "c"))
		d.pk = []string{"k1", "k2"}
	}
	nf := g.intn(1, 3, "nFilterCols")
	for i := 1; i <= nf; i++ {
		d.cols = append(d.cols, g.newColumn(fmt.Sprintf("f%d", i), g.colType(), g.intn(0, 3, "notNull") == 0))
	}
	if !g.noChecks && g.intn(0, 9, "checkConstraint") < 4 {
		// q1 INTEGER NOT NULL with CONSTRAINT c_<table> CHECK (q1 >= 0)
		c := &sqlgen.Column{Name: "q1", Type: sqlgen.TInt, NotNull: true}
		for _, v := range []int64{0, 1, 2, 5, 10, 50} {
			c.Pool = append(c.Pool, sqlgen.Int(v))
		}
		d.cols = append(d.cols, c)
		d.checks = append(d.checks, check{name: "c_" + name, col: "q1", min: 0})
	}
	if allowIndexes && g.intn(0, 9, "plainIndex") < 4 {
		typ := rapid.SampledFrom([]sqlgen.Type{sqlgen.TInt, sqlgen.TVarchar}).Draw(g.rt, "xType")
		d.cols = append(d.cols, g.newColumn("x1", typ, false))
		d.idx = append(d.idx, sqlgen.Index{Cols: []string{"x1"}})
	}
	if allowIndexes && !g.noUnique && g.intn(0, 9, "uniqueIndex") < 2 {
		d.cols = append(d.cols, &sqlgen.Column{Name: "u1", Type: sqlgen.TVarchar, MaxLen: 12, NotNull: true})
		d.idx = append(d.idx, sqlgen.Index{Cols: []string{"u1"}, Unique: true})
	}
	return d
}

// checkedValue draws a value for a column that has (or had) a CHECK
// constraint: one that satisfies it while the constraint is there, often a
// violating one once the transaction has dropped it.
func (g *gen) checkedValue(d *tdef, c *sqlgen.Column) sqlgen.Value {
	if d.checkOn(c.Name) == nil && g.chance(2, "belowCheck") {
		return sqlgen.Int(int64(-g.intn(1, 60, "negative")))
	}
	return c.Pool[g.intn(0, len(c.Pool)-1, "checkedPool")]
}

func isChecked(c *sqlgen.Column) bool { return c.Name == "q1" }

func (g *gen) freshUnique() sqlgen.Value {
	g.useq++
	return sqlgen.Varchar(fmt.Sprintf("u%d", g.useq))
}

func (g *gen) value(c *sqlgen.Column) sqlgen.Value {
	if c.NotNull {
		return g.nonNull(c)
	}
	return g.clean(sqlgen.GenValue(g.rt, c))
}

func (g *gen) nonNull(c *sqlgen.Column) sqlgen.Value { return g.clean(sqlgen.GenNonNull(g.rt, c)) }

func (g *gen) clean(v sqlgen.Value) sqlgen.Value {
	if g.noNUL && !v.Null && v.T == sqlgen.TVarchar {
		v.S = strings.ReplaceAll(v.S, "\x00", "n")
	}
	return v
}

// ---- tables a transaction can use

func (s *txstate) tables(pred func(t *tstate) bool) []*tstate {
	var out []*tstate
	for _, n := range s.view.names {
		if s.foreignDDL && (s.created[n] || s.altered[n]) {
			// see Assumptions: the ids this transaction gave its new tables / columns
			// now belong to what the other session committed
			continue
		}
		if t := s.view.tabs[n]; pred == nil || pred(t) {
			out = append(out, t)
		}
	}
	return out
}

// scannable: a table created by the transaction itself has no index in the
// store yet; the engine can insert into it but not read it (see Assumptions).
func (s *txstate) scannable(t *tstate) bool { return !s.created[t.def.name] }

func (g *gen) pick(ts []*tstate) *tstate {
	if len(ts) == 0 {
		return nil
	}
	return ts[g.intn(0, len(ts)-1, "table")]
}

// ---- predicates (only over primary-key columns and columns without a
// secondary index; independent of how NULL compares)

func (g *gen) literalFor(t *tstate, c *sqlgen.Column) sqlgen.Value {
	if len(t.rows) > 0 && g.intn(0, 2, "litFromRow") != 0 {
		rows := t.sorted()
		v := t.def.val(rows[g.intn(0, len(rows)-1, "litRow")], c.Name)
		if !v.Null {
			return v
		}
	}
	return g.nonNull(c)
}

func (g *gen) atom(t *tstate) sqlgen.Expr {
	var cands []*sqlgen.Column
	for _, c := range t.def.cols {
		if !t.def.indexed(c.Name) {
			cands = append(cands, c)
			if t.def.isPK(c.Name) {
				cands = append(cands, c) // primary-key predicates twice as often
			}
		}
	}
	c := cands[g.intn(0, len(cands)-1, "predCol")]
	col := &sqlgen.Col{C: c}
	lit := func() sqlgen.Expr { return &sqlgen.Lit{V: g.literalFor(t, c)} }
	guard := func(e sqlgen.Expr) sqlgen.Expr {
		if c.NotNull {
			return e
		}
		return &sqlgen.Bin{Op: "AND", L: &sqlgen.IsNull{E: col, Not: true}, R: e}
	}
	if !c.NotNull && g.chance(6, "isNull") {
		return &sqlgen.IsNull{E: col, Not: g.chance(2, "isNotNull")}
	}
	switch c.Type {
	case sqlgen.TBool, sqlgen.TBlob:
		return &sqlgen.Cmp{Op: "=", L: col, R: lit()}
	case sqlgen.TInt:
		switch g.intn(0, 7, "intAtom") {
		case 0, 1:
			return &sqlgen.Cmp{Op: "=", L: col, R: lit()}
		case 2:
			return &sqlgen.Cmp{Op: ">=", L: col, R: lit()}
		case 3:
			return &sqlgen.Cmp{Op: ">", L: col, R: lit()}
		case 4:
			return guard(&sqlgen.Cmp{Op: rapid.SampledFrom([]string{"<", "<=", "<>"}).Draw(g.rt, "guardedOp"), L: col, R: lit()})
		case 5:
			n := g.intn(1, 3, "inLen")
			in := &sqlgen.InList{E: col}
			for i := 0; i < n; i++ {
				in.Vals = append(in.Vals, lit())
			}
			return in
		default:
			a, b := g.literalFor(t, c), g.literalFor(t, c)
			if sqlgen.Compare(a, b) > 0 {
				a, b = b, a
			}
			return &sqlgen.Between{E: col, Lo: &sqlgen.Lit{V: a}, Hi: &sqlgen.Lit{V: b}}
		}
	default:
		switch g.intn(0, 3, "cmpAtom") {
		case 0, 1:
			return &sqlgen.Cmp{Op: "=", L: col, R: lit()}
		case 2:
			return &sqlgen.Cmp{Op: ">=", L: col, R: lit()}
		default:
			return guard(&sqlgen.Cmp{Op: "<", L: col, R: lit()})
		}
	}
}

// pred returns a WHERE clause (nil = none).
func (g *gen) pred(t *tstate) sqlgen.Expr {
	switch g.intn(0, 9, "predShape") {
	case 0:
		return nil
	case 1, 2:
		return &sqlgen.Bin{Op: rapid.SampledFrom([]string{"AND", "OR", "OR"}).Draw(g.rt, "boolOp"), L: g.atom(t), R: g.atom(t)}
	}
	return g.atom(t)
}

// ---- queries

func (g *gen) query(s *txstate) *query {
	t := g.pick(s.tables(s.scannable))
	if t == nil {
		return nil
	}
	q := &query{table: t.def.name}
	if g.intn(0, 2, "withWhere") != 0 {
		q.where = g.pred(t)
	}
	switch g.intn(0, 5, "queryShape") {
	case 0:
		q.count = true
	case 1, 2:
		q.order = 1
		if g.chance(2, "desc") {
			q.order = -1
		}
		if g.chance(2, "limit") {
			q.limit = g.intn(1, 4, "limitN")
		}
	}
	return q
}

// ---- DML

type assign struct {
	c    *sqlgen.Column
	v    sqlgen.Value
	incr int64
}

func (a assign) sql() string {
	if a.incr != 0 {
		return fmt.Sprintf("%s = %s + %d", a.c.Name, a.c.Name, a.incr)
	}
	return a.c.Name + " = " + a.v.SQL()
}

func (a assign) apply(d *tdef, r row) sqlgen.Value {
	if a.incr != 0 {
		return sqlgen.Int(d.val(r, a.c.Name).I + a.incr)
	}
	return a.v
}

func assignsSQL(as []assign) string {
	parts := make([]string, len(as))
	for i, a := range as {
		parts[i] = a.sql()
	}
	return strings.Join(parts, ", ")
}

// assigns draws SET items over the columns allowed by ok.
func (g *gen) assigns(d *tdef, ok func(c *sqlgen.Column) bool) []assign {
	var cands []*sqlgen.Column
	for _, c := range d.cols {
		if !d.isPK(c.Name) && ok(c) {
			cands = append(cands, c)
		}
	}
	if len(cands) == 0 {
		return nil
	}
	n := g.intn(1, min(2, len(cands)), "nSet")
	perm := rapid.Permutation(cands).Draw(g.rt, "setPerm")
	var out []assign
	for _, c := range perm[:n] {
		if isChecked(c) {
			out = append(out, assign{c: c, v: g.checkedValue(d, c)})
			continue
		}
		if c.Type == sqlgen.TInt && c.NotNull && g.chance(2, "incr") {
			out = append(out, assign{c: c, incr: rapid.SampledFrom([]int64{1, -1, 10}).Draw(g.rt, "incrBy")})
			continue
		}
		out = append(out, assign{c: c, v: g.value(c)})
	}
	return out
}

func rowsSQL(cols []*sqlgen.Column, rows []row, d *tdef) string {
	var sb strings.Builder
	for i, r := range rows {
		if i > 0 {
			sb.WriteString(", ")
		}
		sb.WriteString("(")
		for j, c := range cols {
			if j > 0 {
				sb.WriteString(", ")
			}
			sb.WriteString(d.val(r, c.Name).SQL())
		}
		sb.WriteString(")")
	}
	return sb.String()
}

func colList(cols []*sqlgen.Column) string {
	names := make([]string, len(cols))
	for i, c := range cols {
		names[i] = c.Name
	}
	return strings.Join(names, ", ")
}

// insertCols: key and NOT NULL columns always, the others mostly; all (so
// that index columns keep their values) when all is set.
func (g *gen) insertCols(d *tdef, all bool) []*sqlgen.Column {
	var cols []*sqlgen.Column
	for _, c := range d.cols {
		if c.AutoInc {
			continue
		}
		if all || d.isPK(c.Name) || c.NotNull || d.indexed(c.Name) || g.intn(0, 5, "withCol") != 0 {
			cols = append(cols, c)
		}
	}
	if len(cols) == 0 { // AUTO_INCREMENT key and only optional columns
		for _, c := range d.cols {
			if !c.AutoInc {
				cols = append(cols, c)
				break
			}
		}
	}
	if g.chance(4, "shuffleCols") {
		cols = rapid.Permutation(cols).Draw(g.rt, "colPerm")
	}
	return cols
}

func (g *gen) keyValues(d *tdef) row {
	r := row{}
	for _, p := range d.pk {
		c := d.col(p)
		r[p] = c.Pool[g.intn(0, len(c.Pool)-1, "keyVal")]
	}
	return r
}

// ownDeleted: the transaction removed the row with that key and has not put it back.
func (s *txstate) ownDeleted(t *tstate, pk string) bool {
	_, live := t.rows[pk]
	return !live && s.wrote(t.def.name, pk)
}

// newRow fills the non-key columns of a row to insert.
func (g *gen) fillRow(d *tdef, cols []*sqlgen.Column, r row) {
	for _, c := range cols {
		if d.isPK(c.Name) {
			continue
		}
		if u := d.uniqueCol(); u != nil && u.Name == c.Name {
			r[c.Name] = g.freshUnique()
			continue
		}
		if isChecked(c) {
			r[c.Name] = g.checkedValue(d, c)
			continue
		}
		if v := g.value(c); !v.Null {
			r[c.Name] = v
		}
	}
}

// reinsertable: may a statement of kind INSERT / ON CONFLICT name this key?
func (g *gen) reinsertable(s *txstate, t *tstate, pk string, upsert bool) bool {
	if !s.ownDeleted(t, pk) {
		return true
	}
	if t.def.hasIndexes() {
		// re-creating a row the transaction deleted rewrites its index entries a
		// second time within the transaction (C11 K11 territory)
		return false
	}
	if upsert {
		return true
	}
	if vk.Excluded(kfOwnDelete) {
		vk.CountExcluded(kfOwnDelete)
		g.c.Label("insert-after-own-delete-avoided-K13b")
		return false
	}
	return true
}

// insert generates INSERT (kind "insert"), INSERT .. ON CONFLICT DO NOTHING
// ("ignore") or INSERT .. ON CONFLICT DO UPDATE ("conflict-update").
func (g *gen) insert(s *txstate, kind string) *stmt {
	t := g.pick(s.tables(func(t *tstate) bool {
		if kind != "insert" && (t.def.autoInc || s.created[t.def.name]) {
			return false
		}
		return kind != "conflict-update" || t.def.uniqueCol() == nil
	}))
	if t == nil {
		return nil
	}
	d := t.def
	cols := g.insertCols(d, false)
	var set []assign
	if kind == "conflict-update" {
		set = g.assigns(d, func(c *sqlgen.Column) bool { return !d.indexed(c.Name) })
		if set == nil {
			return nil
		}
	}
	n := g.intn(1, 3, "nRows")
	var rows []row
	inStmt := map[string]bool{}
	next := t.maxPK
	for i := 0; i < n; i++ {
		var r row
		if d.autoInc {
			next++
			r = row{d.pk[0]: sqlgen.Int(next)}
		} else {
			wantExisting := kind != "insert" && g.chance(2, "conflicting")
			for try := 0; try < 8; try++ {
				cand := g.keyValues(d)
				k := d.pkKey(cand)
				_, exists := t.rows[k]
				if inStmt[k] || (kind == "insert" && exists) || !g.reinsertable(s, t, k, false) {
					continue
				}
				if exists == wantExisting || try > 3 {
					r = cand
					break
				}
			}
			if r == nil {
				continue
			}
		}
		inStmt[d.pkKey(r)] = true
		g.fillRow(d, cols, r)
		rows = append(rows, r)
	}
	if len(rows) == 0 {
		return nil
	}
	st := &stmt{label: kind, wrote: true}
	st.ins = &insSpec{head: fmt.Sprintf("INSERT INTO %s (%s) VALUES ", d.name, colList(cols)), cols: cols, rows: rows, d: d}
	switch kind {
	case "ignore":
		st.ins.suffix = " ON CONFLICT DO NOTHING"
	case "conflict-update":
		st.ins.suffix = " ON CONFLICT DO UPDATE SET " + assignsSQL(set)
	}
	st.sql = st.ins.head + rowsSQL(cols, rows, d) + st.ins.suffix
	for _, r := range rows {
		k := d.pkKey(r)
		old, exists := t.rows[k]
		switch {
		case !exists:
			s.put(d.name, r)
			s.upd++
			if d.autoInc {
				t.maxPK = r[d.pk[0]].I
				s.insertedPK(d.name, t.maxPK)
			}
		case kind == "conflict-update":
			nr := row{}
			for k, v := range old {
				nr[k] = v
			}
			for _, a := range set {
				if v := a.apply(d, old); v.Null {
					delete(nr, a.c.Name)
				} else {
					nr[a.c.Name] = v
				}
			}
			s.put(d.name, nr)
			s.upd++
		}
	}
	return st
}

// upsert generates UPSERT INTO over new and existing keys.
func (g *gen) upsert(s *txstate) *stmt {
	t := g.pick(s.tables(func(t *tstate) bool { return !s.created[t.def.name] && (!t.def.autoInc || len(t.rows) > 0) }))
	if t == nil {
		return nil
	}
	d := t.def
	var cols []*sqlgen.Column
	for _, c := range d.cols {
		if d.isPK(c.Name) || c.NotNull || d.indexed(c.Name) || g.intn(0, 5, "withCol") != 0 {
			cols = append(cols, c)
		}
	}
	n := g.intn(1, 2, "nRows")
	var rows []row
	inStmt := map[string]bool{}
	existing := t.sorted()
	for i := 0; i < n; i++ {
		var r row
		if d.autoInc || (len(existing) > 0 && g.chance(2, "existingKey")) {
			src := existing[g.intn(0, len(existing)-1, "existingRow")]
			r = row{}
			for _, p := range d.pk {
				r[p] = src[p]
			}
		} else {
			r = g.keyValues(d)
		}
		k := d.pkKey(r)
		if inStmt[k] || !g.reinsertable(s, t, k, true) {
			continue
		}
		inStmt[k] = true
		g.fillRow(d, cols, r)
		if old, exists := t.rows[k]; exists {
			// index columns of an existing row keep their values (see Assumptions)
			for _, c := range d.cols {
				if !d.indexed(c.Name) {
					continue
				}
				if v, ok := old[c.Name]; ok {
					r[c.Name] = v
				} else {
					delete(r, c.Name)
				}
			}
		}
		rows = append(rows, r)
	}
	if len(rows) == 0 {
		return nil
	}
	st := &stmt{label: "upsert", wrote: true}
	st.ins = &insSpec{head: fmt.Sprintf("UPSERT INTO %s (%s) VALUES ", d.name, colList(cols)), cols: cols, rows: rows, d: d}
	st.sql = st.ins.head + rowsSQL(cols, rows, d)
	for _, r := range rows {
		s.put(d.name, r)
		s.upd++
		if d.autoInc {
			s.insertedPK(d.name, r[d.pk[0]].I)
		}
	}
	return st
}

// update generates UPDATE .. SET .. [WHERE ..].
func (g *gen) update(s *txstate) *stmt {
	t := g.pick(s.tables(s.scannable))
	if t == nil {
		return nil
	}
	d := t.def
	where := g.pred(t)
	var hit []row
	for _, r := range t.sorted() {
		if matches(d, where, r) {
			hit = append(hit, r)
		}
	}
	set := g.assigns(d, func(c *sqlgen.Column) bool { return !d.indexed(c.Name) })
	if set == nil {
		return nil
	}
	st := &stmt{label: "update", wrote: len(hit) > 0}
	st.sql = fmt.Sprintf("UPDATE %s SET %s", d.name, assignsSQL(set))
	if where != nil {
		st.sql += " WHERE " + where.Render(nil)
	}
	for _, r := range hit {
		nr := row{}
		for k, v := range r {
			nr[k] = v
		}
		for _, a := range set {
			if v := a.apply(d, r); v.Null {
				delete(nr, a.c.Name)
			} else {
				nr[a.c.Name] = v
			}
		}
		s.put(d.name, nr)
		s.upd++
	}
	if len(hit) == 0 {
		st.label = "update-no-rows"
	}
	return st
}

func (g *gen) delete(s *txstate) *stmt {
	t := g.pick(s.tables(s.scannable))
	if t == nil {
		return nil
	}
	d := t.def
	where := g.pred(t)
	st := &stmt{label: "delete"}
	st.sql = "DELETE FROM " + d.name
	if where != nil {
		st.sql += " WHERE " + where.Render(nil)
	}
	for _, r := range t.sorted() {
		if matches(d, where, r) {
			s.del(d.name, d.pkKey(r))
			s.upd++
			st.wrote = true
		}
	}
	if !st.wrote {
		st.label = "delete-no-rows"
	}
	return st
}

// dml draws one data-changing statement that must succeed.
func (g *gen) dml(s *txstate) *stmt {
	for try := 0; try < 4; try++ {
		var st *stmt
		switch rapid.SampledFrom([]string{"insert", "insert", "insert", "upsert", "ignore", "conflict-update", "update", "update", "delete"}).Draw(g.rt, "dmlKind") {
		case "insert":
			st = g.insert(s, "insert")
		case "ignore":
			st = g.insert(s, "ignore")
		case "conflict-update":
			st = g.insert(s, "conflict-update")
		case "upsert":
			st = g.upsert(s)
		case "update":
			st = g.update(s)
		case "delete":
			st = g.delete(s)
		}
		if st != nil {
			return st
		}
	}
	return nil
}

// ---- DDL

func (g *gen) ddl(s *txstate) *stmt {
	kinds := []string{"create-table", "create-table", "create-index", "add-column"}
	if dropable := s.tables(func(t *tstate) bool { return !s.created[t.def.name] && len(t.def.checks) > 0 }); len(dropable) > 0 {
		kinds = append(kinds, "drop-constraint", "drop-constraint", "drop-constraint")
	}
	switch rapid.SampledFrom(kinds).Draw(g.rt, "ddlKind") {
	case "drop-constraint":
		t := g.pick(s.tables(func(t *tstate) bool { return !s.created[t.def.name] && len(t.def.checks) > 0 }))
		name := t.def.checks[0].name
		t.def = t.def.with(func(n *tdef) { n.dropCheck(name) })
		s.altered[t.def.name] = true
		s.ddl = append(s.ddl, ddlop{kind: "drop-constraint", table: t.def.name, name: name})
		return &stmt{sql: fmt.Sprintf("ALTER TABLE %s DROP CONSTRAINT %s", t.def.name, name), label: "drop-constraint", wrote: true}
	case "create-table":
		g.tseq++
		d := g.genTable(fmt.Sprintf("%sn%d", g.prefix, g.tseq), false)
		s.view.add(d)
		s.created[d.name] = true
		s.ddl = append(s.ddl, ddlop{kind: "create-table", table: d.name, def: d})
		return &stmt{sql: d.createSQL(), label: "create-table", wrote: true}
	case "create-index":
		t := g.pick(s.tables(func(t *tstate) bool { return !s.created[t.def.name] && len(t.def.idx) < 2 }))
		if t == nil {
			return nil
		}
		var cands []*sqlgen.Column
		for _, c := range t.def.cols {
			if !t.def.isPK(c.Name) && !t.def.indexed(c.Name) && (!c.Type.VarSized() || c.MaxLen > 0) {
				cands = append(cands, c)
			}
		}
		if len(cands) == 0 {
			return nil
		}
		c := cands[g.intn(0, len(cands)-1, "indexCol")]
		ix := sqlgen.Index{Cols: []string{c.Name}}
		t.def = t.def.with(func(n *tdef) { n.idx = append(n.idx, ix) })
		s.altered[t.def.name] = true
		s.ddl = append(s.ddl, ddlop{kind: "create-index", table: t.def.name, ix: ix})
		return &stmt{sql: ix.CreateSQL(t.def.name), label: "create-index", wrote: true}
	default:
		t := g.pick(s.tables(func(t *tstate) bool { return !s.created[t.def.name] && len(t.def.cols) < 8 }))
		if t == nil {
			return nil
		}
		g.cseq++
		c := g.newColumn(fmt.Sprintf("a%d", g.cseq), g.colType(), false)
		t.def = t.def.with(func(n *tdef) { n.cols = append(n.cols, c) })
		s.altered[t.def.name] = true
		s.ddl = append(s.ddl, ddlop{kind: "add-column", table: t.def.name, col: c})
		typ := c.Type.String()
		if c.Type.VarSized() {
			typ += fmt.Sprintf("[%d]", c.MaxLen)
		}
		return &stmt{sql: fmt.Sprintf("ALTER TABLE %s ADD COLUMN %s %s", t.def.name, c.Name, typ), label: "add-column", wrote: true}
	}
}

// ---- savepoint statements

var spNames = []string{"a", "b", "c"}

func (g *gen) savepointStmt(s *txstate) *stmt {
	names := s.usableNames()
	kind := rapid.SampledFrom([]string{"savepoint", "savepoint", "rollback-to", "rollback-to", "rollback-to", "release", "release"}).Draw(g.rt, "spKind")
	if len(names) == 0 {
		kind = "savepoint"
	}
	switch kind {
	case "savepoint":
		n := spNames[g.intn(0, len(spNames)-1, "spName")]
		label := "savepoint"
		if s.find(n) >= 0 {
			label = "savepoint-redeclared"
		} else if len(s.sps) > 0 {
			label = "savepoint-nested"
		}
		s.savepoint(n)
		return &stmt{sql: "SAVEPOINT " + n, label: label}
	case "rollback-to":
		n := names[g.intn(0, len(names)-1, "spRef")]
		if s.changedSince(n) {
			if vk.Excluded(kfSavepoint) {
				vk.CountExcluded(kfSavepoint)
				g.c.Label("rollback-to-after-write-suppressed-K1")
				return nil
			}
			s.rollbackTo(n)
			return &stmt{sql: "ROLLBACK TO SAVEPOINT " + n, label: "rollback-to-after-write", wrote: true}
		}
		s.rollbackTo(n)
		return &stmt{sql: "ROLLBACK TO SAVEPOINT " + n, label: "rollback-to-no-write"}
	default:
		n := names[g.intn(0, len(names)-1, "spRef")]
		s.release(n)
		return &stmt{sql: "RELEASE SAVEPOINT " + n, label: "release"}
	}
}

// ---- statements that must fail

// checkViolation is a statement that breaks a CHECK constraint the
// transaction still sees (nil when it sees none).
func (g *gen) checkViolation(s *txstate) *stmt {
	t := g.pick(s.tables(func(t *tstate) bool { return !s.created[t.def.name] && len(t.def.checks) > 0 }))
	if t == nil || s.ro {
		return nil
	}
	d := t.def
	ck := d.checks[0]
	bad := sqlgen.Int(ck.min - int64(g.intn(1, 60, "below")))
	if len(t.rows) > 0 && g.chance(3, "viaUpdate") {
		return &stmt{sql: fmt.Sprintf("UPDATE %s SET %s = %s", d.name, ck.col, bad.SQL()), label: "fail-check-constraint", fails: true}
	}
	cols := g.insertCols(d, true)
	r := g.keyValues(d)
	for try := 0; try < 8 && !d.autoInc; try++ {
		if _, exists := t.rows[d.pkKey(r)]; !exists {
			break
		}
		r = g.keyValues(d)
	}
	g.fillRow(d, cols, r)
	r[ck.col] = bad
	return &stmt{sql: fmt.Sprintf("INSERT INTO %s (%s) VALUES %s", d.name, colList(cols), rowsSQL(cols, []row{r}, d)), label: "fail-check-constraint", fails: true}
}

// failing draws a statement the engine must reject whatever rows exist.
// foreign are names of tables this transaction cannot see (created by
// transactions that are still open or that committed after its snapshot).
func (g *gen) failing(s *txstate, foreign []string) *stmt {
	type cand struct {
		label string
		sql   func() string
	}
	var cands []cand
	add := func(label string, f func() string) {
		if !g.skipFail[label] {
			cands = append(cands, cand{label, f})
		}
	}

	if x := g.checkViolation(s); x != nil && g.chance(3, "preferCheckViolation") {
		return x
	}
	scannable := s.tables(s.scannable)
	t := g.pick(scannable)
	if s.ro {
		// any write in a read-only transaction
		if t != nil && !t.def.autoInc {
			d := t.def
			add("fail-write-in-read-only-tx", func() string {
				cols := g.insertCols(d, true)
				r := g.keyValues(d)
				g.fillRow(d, cols, r)
				return fmt.Sprintf("UPSERT INTO %s (%s) VALUES %s", d.name, colList(cols), rowsSQL(cols, []row{r}, d))
			})
			if len(t.rows) > 0 {
				add("fail-write-in-read-only-tx", func() string { return "DELETE FROM " + d.name })
			}
		}
		if vk.Excluded(kfRODDL) {
			// known finding K13d: DDL in a read-only transaction changes the catalog shared by all sessions
			vk.CountExcluded(kfRODDL)
			g.c.Label("ddl-in-read-only-tx-avoided-K13d")
		} else {
			add("fail-ddl-in-read-only-tx", func() string { return "CREATE TABLE zro (id INTEGER, PRIMARY KEY id)" })
			if t != nil {
				d := t.def
				add("fail-ddl-in-read-only-tx", func() string { return "ALTER TABLE " + d.name + " ADD COLUMN zc INTEGER" })
			}
		}
		if len(cands) == 0 {
			return nil
		}
	} else {
		add("fail-unknown-table", func() string { return "INSERT INTO nosuch (k1) VALUES (1)" })
		add("fail-savepoint-missing", func() string {
			return rapid.SampledFrom([]string{"ROLLBACK TO SAVEPOINT zz", "RELEASE SAVEPOINT zz"}).Draw(g.rt, "spMissing")
		})
		add("fail-nested-begin", func() string { return "BEGIN TRANSACTION" })
		for _, f := range foreign {
			f := f
			// tables other sessions created and this one must not see: three times as likely as the other kinds
			add("fail-invisible-table", func() string { return "DELETE FROM " + f })
			add("fail-invisible-table", func() string { return "INSERT INTO " + f + " (k1) VALUES (1)" })
			add("fail-invisible-table", func() string { return "UPDATE " + f + " SET f1 = NULL" })
		}
		if t != nil {
			d := t.def
			full := func(mod func(cols []*sqlgen.Column, r row) string) string {
				cols := g.insertCols(d, true)
				r := g.keyValues(d)
				g.fillRow(d, cols, r)
				return mod(cols, r)
			}
			add("fail-table-exists", func() string { return fmt.Sprintf("CREATE TABLE %s (id INTEGER, PRIMARY KEY id)", d.name) })
			add("fail-unknown-column", func() string {
				return full(func(cols []*sqlgen.Column, r row) string {
					return fmt.Sprintf("INSERT INTO %s (%s, zz) VALUES %s", d.name, colList(cols), strings.TrimSuffix(rowsSQL(cols, []row{r}, d), ")")+", 1)")
				})
			})
			add("fail-update-primary-key", func() string {
				return fmt.Sprintf("UPDATE %s SET %s = %s", d.name, d.pk[0], d.col(d.pk[0]).Pool[0].SQL())
			})
			rows := t.sorted()
			if len(rows) > 0 && !d.autoInc {
				// duplicate primary key, as the last row of the statement
				add("fail-duplicate-key", func() string {
					cols := g.insertCols(d, true)
					var ins []row
					inStmt := map[string]bool{}
					for i, n := 0, g.intn(0, 2, "rowsBefore"); i < n; i++ {
						r := g.keyValues(d)
						k := d.pkKey(r)
						if _, exists := t.rows[k]; exists || inStmt[k] || s.ownDeleted(t, k) {
							continue
						}
						inStmt[k] = true
						g.fillRow(d, cols, r)
						ins = append(ins, r)
					}
					src := rows[g.intn(0, len(rows)-1, "dupOf")]
					r := row{}
					for _, p := range d.pk {
						r[p] = src[p]
					}
					g.fillRow(d, cols, r)
					return fmt.Sprintf("INSERT INTO %s (%s) VALUES %s", d.name, colList(cols), rowsSQL(cols, append(ins, r), d))
				})
			}
			if u := d.uniqueCol(); u != nil && !d.autoInc {
				// value of the UNIQUE column of a row the transaction has not touched
				var holders []row
				for _, r := range rows {
					if !s.wrote(d.name, d.pkKey(r)) {
						holders = append(holders, r)
					}
				}
				if len(holders) > 0 {
					add("fail-unique-index", func() string {
						cols := g.insertCols(d, true)
						for try := 0; try < 8; try++ {
							r := g.keyValues(d)
							k := d.pkKey(r)
							if _, exists := t.rows[k]; exists || s.wrote(d.name, k) {
								continue
							}
							g.fillRow(d, cols, r)
							r[u.Name] = holders[g.intn(0, len(holders)-1, "holder")][u.Name]
							return fmt.Sprintf("INSERT INTO %s (%s) VALUES %s", d.name, colList(cols), rowsSQL(cols, []row{r}, d))
						}
						return ""
					})
				}
			}
			for _, c := range d.cols {
				c := c
				if d.isPK(c.Name) {
					continue
				}
				if c.NotNull {
					add("fail-not-null", func() string {
						return full(func(cols []*sqlgen.Column, r row) string {
							var kept []*sqlgen.Column
							for _, x := range cols {
								if x != c {
									kept = append(kept, x)
								}
							}
							if len(kept) > 0 && g.chance(2, "omit") {
								return fmt.Sprintf("INSERT INTO %s (%s) VALUES %s", d.name, colList(kept), rowsSQL(kept, []row{r}, d))
							}
							delete(r, c.Name)
							return fmt.Sprintf("INSERT INTO %s (%s) VALUES %s", d.name, colList(cols), rowsSQL(cols, []row{r}, d))
						})
					})
				}
				if c.Type == sqlgen.TInt && !d.indexed(c.Name) {
					add("fail-type", func() string {
						return full(func(cols []*sqlgen.Column, r row) string {
							return strings.Replace(fmt.Sprintf("INSERT INTO %s (%s) VALUES %s", d.name, colList(cols), rowsSQL(cols, []row{markRow(r, c)}, d)), "424242", "'abc'", 1)
						})
					})
				}
				if c.Type == sqlgen.TVarchar && c.MaxLen > 0 && !d.indexed(c.Name) {
					add("fail-too-long", func() string {
						return full(func(cols []*sqlgen.Column, r row) string {
							r[c.Name] = sqlgen.Varchar(strings.Repeat("w", c.MaxLen+1))
							return fmt.Sprintf("INSERT INTO %s (%s) VALUES %s", d.name, colList(cols), rowsSQL(cols, []row{r}, d))
						})
					})
				}
			}
		}
	}
	for try := 0; try < 4; try++ {
		c := cands[g.intn(0, len(cands)-1, "failKind")]
		if sql := c.sql(); sql != "" {
			return &stmt{sql: sql, label: c.label, fails: true}
		}
	}
	return nil
}

func markRow(r row, c *sqlgen.Column) row {
	r[c.Name] = sqlgen.Int(424242)
	return r
}

// failingQuery is a SELECT the engine must reject (the transaction goes on).
func (g *gen) failingQuery(s *txstate, foreign []string) string {
	t := g.pick(s.tables(s.scannable))
	var cands []string
	cands = append(cands, "SELECT k1 FROM nosuch")
	for _, f := range foreign {
		cands = append(cands, "SELECT * FROM "+f)
	}
	if t != nil {
		cands = append(cands, "SELECT zz FROM "+t.def.name, fmt.Sprintf("SELECT %s FROM %s WHERE zz = 1", t.def.pk[0], t.def.name))
	}
	return cands[g.intn(0, len(cands)-1, "badQuery")]
}
