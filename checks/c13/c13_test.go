// C13 — SQL transactions are atomic and isolated, incl. rollback and savepoints.
package c13

import (
	sql2 "database/sql"
	"errors"
	"fmt"
	"os"
	"testing"

	"github.com/codenotary/immudb/embedded/sql"
	"github.com/codenotary/immudb/embedded/store"

	"verif/internal/sqlgen"
	"verif/internal/vk"
)

func TestMain(m *testing.M) {
	pgLeg := "PostgreSQL wire leg: RUN (in-process server, pgsql listener on a loopback port, lib/pq; simple-query protocol, and Parse/Bind/Execute with text parameters for a third of the INSERT / UPSERT statements; INTEGER / VARCHAR / BOOLEAN columns without NUL bytes, no UNIQUE indexes, no read-only sessions, no DDL inside transactions)"
	if err := loopbackError(); err != nil {
		pgNotRun = "loopback sockets unavailable: " + err.Error()
		pgLeg = "PostgreSQL wire leg: NOT RUN (" + pgNotRun + "); only the engine-API leg supports the claim"
	}
	vk.Main(m, vk.Config{
		Property: "C13",
		Rule: "rapid-generated schedules of 1-3 sessions (read-write, read-only, autocommit, whole BEGIN..COMMIT scripts) over one embedded engine: " +
			"mixed DML / DDL / queries, statements that must fail, SAVEPOINT / ROLLBACK TO / RELEASE in any nesting, COMMIT / ROLLBACK / Cancel / failed COMMIT; " +
			"every statement is executed with the harness as the barrier and compared with a reference interpreter (tables in memory, snapshot per " +
			"transaction, write log, savepoint stack, counters). Non-trivial: a transaction with writes ended without effect (rollback, cancel, failed " +
			"statement, failed commit) or rolled back to a savepoint after a write, or a query failed in the middle of a writing transaction, or a session " +
			"read while another one had uncommitted writes or after another one committed (TestParallelTransfers: some transfer was rolled back, cancelled, failed or lost its COMMIT to a conflict); distinct by hash of the executed trace.",
		Assumptions: []string{
			"TestInTxCompositeIndex reads through 2-3 column secondary indexes inside the writing transaction (rows rewritten so that one index column changes while the others keep their value; C11's K11/K12/K25 are repaired); in TestTxPrograms / TestPgWirePrograms rows are still read through the primary index only (WHERE clauses use key columns and columns without a secondary index): reads through a secondary index inside the writing transaction are C11's known findings K11/K12",
			"in tables with secondary indexes a transaction does not change the indexed columns of existing rows (two rows of one transaction meeting in one index value fail with 'cannot change a non-transient key to transient'), does not re-create a row it deleted, and uses ON CONFLICT DO UPDATE only without UNIQUE indexes (the engine rejects or mishandles these, C11/C12 territory)",
			"a table created by a transaction is only inserted into by that transaction (the engine answers 'index not found' to reads of a table created in the same transaction)",
			"once another session has committed DDL, a transaction no longer uses the tables it created or altered itself (both catalogs handed out the same table / column ids, the engine answers 'data is corrupted' to the statement; such a transaction cannot commit anyway)",
			"savepoint names are referred to only while PostgreSQL's stack of savepoints and the engine's map of names agree on what they denote (not after ROLLBACK TO the same name, not a name declared after a savepoint that was rolled back to or released)",
			"COMMIT may fail with a read conflict whenever another session committed since BEGIN (either outcome accepted, then checked for all-or-nothing); without such a commit it must succeed",
			"AUTO_INCREMENT counters are not rolled back by ROLLBACK TO SAVEPOINT (sequence semantics) in the reference",
			pgLeg,
			"TestTxPrograms / TestPgWirePrograms execute interleavings at statement granularity from one goroutine; sessions that really run in parallel are covered by TestParallelTransfers only (transfers between accounts: the total is the same for every reader, final balances = initial + committed transfers)",
			"not implemented: queries with bound parameters over the PostgreSQL front-end; DROP TABLE / DROP INDEX / column renames inside transactions",
		},
		Probes: []vk.Probe{
			{ID: kfSavepoint, Present: probeSavepoint},
			{ID: kfSnapshot, Present: probeSnapshot},
			{ID: kfOwnDelete, Present: probeOwnDelete},
			{ID: kfReported, Present: probeReported},
			{ID: kfRODDL, Present: probeReadOnlyDDL},
			{ID: kfColdDDL, Present: probeColdDDL},
			{ID: kfPgAfterFailure, Present: probePgAfterFailure},
			{ID: kfPgAffected, Present: probePgAffected},
		},
	})
}

// probeDB opens a scratch database with t(id, a) + index on a and rows 1, 2.
func probeDB() (*sqlgen.DB, func(), error) {
	dir := vk.Dir()
	db, err := sqlgen.Open(dir, sqlgen.DBOpts{})
	if err != nil {
		os.RemoveAll(dir)
		return nil, nil, err
	}
	cleanup := func() { db.Close(); os.RemoveAll(dir) }
	if err := db.Exec("CREATE TABLE t (id INTEGER, a INTEGER, PRIMARY KEY id); CREATE INDEX ON t(a); CREATE TABLE u (id INTEGER, PRIMARY KEY id)", nil); err != nil {
		cleanup()
		return nil, nil, err
	}
	if err := db.Exec("INSERT INTO t (id, a) VALUES (1, 10), (2, 20)", nil); err != nil {
		cleanup()
		return nil, nil, err
	}
	return db, cleanup, nil
}

func ids(db *sqlgen.DB, tx *sql.SQLTx, text string) string {
	r, err := sqlgen.QueryEngine(db.Eng, tx, text, nil)
	if err != nil {
		return "error: " + err.Error()
	}
	return fmt.Sprint(r.Keys())
}

// probeSavepoint (K1): ROLLBACK TO SAVEPOINT keeps the rows written after the savepoint.
func probeSavepoint() (bool, string) {
	db, cleanup, err := probeDB()
	if err != nil {
		return false, ""
	}
	defer cleanup()
	if err := db.Exec("BEGIN TRANSACTION; INSERT INTO t (id, a) VALUES (3, 30); SAVEPOINT sp; INSERT INTO t (id, a) VALUES (4, 40); ROLLBACK TO SAVEPOINT sp; COMMIT", nil); err != nil {
		return false, ""
	}
	if got := ids(db, nil, "SELECT id FROM t"); got != "[i1 i2 i3]" {
		return true, "BEGIN; INSERT 3; SAVEPOINT sp; INSERT 4; ROLLBACK TO SAVEPOINT sp; COMMIT leaves ids " + got
	}
	return false, ""
}

// probeSnapshot (K13a): the snapshot of each index is taken at first use.
func probeSnapshot() (bool, string) {
	db, cleanup, err := probeDB()
	if err != nil {
		return false, ""
	}
	defer cleanup()
	ro, err := db.Eng.NewTx(ctx, sql.DefaultTxOptions().WithReadOnly(true))
	if err != nil {
		return false, ""
	}
	defer ro.Cancel()
	first := ids(db, ro, "SELECT id FROM t")
	if err := db.Exec("BEGIN TRANSACTION; INSERT INTO t (id, a) VALUES (7, 70); INSERT INTO u (id) VALUES (1); COMMIT", nil); err != nil {
		return false, ""
	}
	again := ids(db, ro, "SELECT id FROM t")
	viaIndex := ids(db, ro, "SELECT id FROM t USE INDEX ON (a)")
	other := ids(db, ro, "SELECT id FROM u")
	if first == again && (viaIndex != first || other != "[]") {
		return true, fmt.Sprintf("read-only tx: SELECT id FROM t = %s; another session commits INSERT t(7), INSERT u(1); same tx: t again %s, t USE INDEX ON (a) %s, u %s",
			first, again, viaIndex, other)
	}
	return false, ""
}

// probeOwnDelete (K13b): INSERT does not see the transaction's own DELETE of the same key.
func probeOwnDelete() (bool, string) {
	db, cleanup, err := probeDB()
	if err != nil {
		return false, ""
	}
	defer cleanup()
	tx, _, err := db.Eng.Exec(ctx, nil, "BEGIN TRANSACTION", nil)
	if err != nil {
		return false, ""
	}
	defer func() {
		if !tx.Closed() {
			tx.Cancel()
		}
	}()
	if _, _, err := db.Eng.Exec(ctx, tx, "DELETE FROM u WHERE id = 1", nil); err != nil {
		return false, ""
	}
	if _, _, err := db.Eng.Exec(ctx, tx, "INSERT INTO u (id) VALUES (5)", nil); err != nil {
		return false, ""
	}
	if _, _, err := db.Eng.Exec(ctx, tx, "DELETE FROM u WHERE id = 5", nil); err != nil {
		return false, ""
	}
	_, _, err = db.Eng.Exec(ctx, tx, "INSERT INTO u (id) VALUES (5)", nil)
	if errors.Is(err, store.ErrKeyAlreadyExists) {
		return true, "BEGIN; INSERT INTO u (id) VALUES (5); DELETE FROM u WHERE id = 5; INSERT INTO u (id) VALUES (5) fails: " + err.Error()
	}
	return false, ""
}

// probeReported (K13c): a rolled-back transaction is handed back in the list of committed ones.
func probeReported() (bool, string) {
	db, cleanup, err := probeDB()
	if err != nil {
		return false, ""
	}
	defer cleanup()
	ntx, ctxs, err := db.Eng.Exec(ctx, nil, "BEGIN TRANSACTION; INSERT INTO u (id) VALUES (1), (2); ROLLBACK", nil)
	if err != nil || ntx != nil {
		return false, ""
	}
	if len(ctxs) > 0 {
		return true, fmt.Sprintf("Exec(BEGIN TRANSACTION; INSERT 2 rows; ROLLBACK) returns %d committed transaction(s), UpdatedRows=%d, TxHeader=%v", len(ctxs), ctxs[0].UpdatedRows(), ctxs[0].TxHeader())
	}
	return false, ""
}

// probeReadOnlyDDL (K13d): CREATE TABLE fails in a read-only transaction but stays in the catalog all sessions share.
func probeReadOnlyDDL() (bool, string) {
	db, cleanup, err := probeDB()
	if err != nil {
		return false, ""
	}
	defer cleanup()
	var errs []error
	for i := 0; i < 2; i++ {
		ro, err := db.Eng.NewTx(ctx, sql.DefaultTxOptions().WithReadOnly(true))
		if err != nil {
			return false, ""
		}
		_, _, err = db.Eng.Exec(ctx, ro, "CREATE TABLE zro (id INTEGER, PRIMARY KEY id)", nil)
		errs = append(errs, err)
		if !ro.Closed() {
			ro.Cancel()
		}
	}
	if errors.Is(errs[1], sql.ErrTableAlreadyExists) {
		return true, fmt.Sprintf("CREATE TABLE zro in a read-only tx: %v; the same statement in the next read-only tx: %v", errs[0], errs[1])
	}
	return false, ""
}

func pgProbeConn() (*sql2.Conn, string, error) {
	if pgNotRun != "" {
		return nil, "", errors.New(pgNotRun)
	}
	p, err := pgFixture()
	if err != nil {
		return nil, "", err
	}
	conn, err := p.db.Conn(bg)
	if err != nil {
		return nil, "", err
	}
	name := fmt.Sprintf("probe%d", pgSeq)
	if _, err := conn.ExecContext(bg, "CREATE TABLE "+name+" (id INTEGER, PRIMARY KEY id)"); err != nil {
		conn.Close()
		return nil, "", err
	}
	if _, err := conn.ExecContext(bg, "INSERT INTO "+name+" (id) VALUES (1)"); err != nil {
		conn.Close()
		return nil, "", err
	}
	return conn, name, nil
}

// probePgAfterFailure (K13e): after a failed statement inside BEGIN the pgsql
// session silently runs in autocommit mode.
func probePgAfterFailure() (bool, string) {
	conn, t, err := pgProbeConn()
	if err != nil {
		return false, ""
	}
	defer conn.Close()
	defer conn.ExecContext(bg, "DROP TABLE "+t)
	conn.ExecContext(bg, "BEGIN")
	conn.ExecContext(bg, "INSERT INTO "+t+" (id) VALUES (5)")
	_, errDup := conn.ExecContext(bg, "INSERT INTO "+t+" (id) VALUES (1)")
	conn.ExecContext(bg, "INSERT INTO "+t+" (id) VALUES (6)")
	_, errRb := conn.ExecContext(bg, "ROLLBACK")
	res, err := pgQuery(conn, "SELECT id FROM "+t, &tdef{cols: []*sqlgen.Column{{Name: "id", Type: sqlgen.TInt}}}, false)
	if err != nil || errDup == nil {
		return false, ""
	}
	if got := fmt.Sprint(res.Keys()); got != "[i1]" {
		return true, fmt.Sprintf("pgsql: BEGIN; INSERT 5; INSERT 1 (%v); INSERT 6; ROLLBACK (%v) leaves ids %s", errDup, errRb, got)
	}
	return false, ""
}

// probePgAffected (K13f): the CommandComplete tag never carries the number of affected rows.
func probePgAffected() (bool, string) {
	conn, t, err := pgProbeConn()
	if err != nil {
		return false, ""
	}
	defer conn.Close()
	defer conn.ExecContext(bg, "DROP TABLE "+t)
	res, err := conn.ExecContext(bg, "INSERT INTO "+t+" (id) VALUES (2), (3)")
	if err != nil {
		return false, ""
	}
	if n, _ := res.RowsAffected(); n != 2 {
		return true, fmt.Sprintf("pgsql: INSERT of 2 rows reports RowsAffected()=%d", n)
	}
	return false, ""
}

// probeColdDDL (K13g): ALTER TABLE ADD COLUMN of a transaction that was rolled back keeps
// acting on later transactions when that transaction was the first one after a DDL commit.
func probeColdDDL() (bool, string) {
	dir := vk.Dir()
	defer os.RemoveAll(dir)
	db, err := sqlgen.Open(dir, sqlgen.DBOpts{})
	if err != nil {
		return false, ""
	}
	defer db.Close()
	if err := db.Exec("CREATE TABLE t (id INTEGER, PRIMARY KEY id)", nil); err != nil {
		return false, ""
	}
	if err := db.Exec("BEGIN TRANSACTION; ALTER TABLE t ADD COLUMN a1 INTEGER; ROLLBACK", nil); err != nil {
		return false, ""
	}
	if err := db.Exec("ALTER TABLE t ADD COLUMN a2 BLOB[16]", nil); err != nil {
		return false, ""
	}
	if err := db.Exec("INSERT INTO t (id, a2) VALUES (1, x'01020300')", nil); err != nil {
		return true, "CREATE TABLE t; BEGIN; ALTER TABLE t ADD COLUMN a1 INTEGER; ROLLBACK; ALTER TABLE t ADD COLUMN a2 BLOB[16]; INSERT INTO t (id, a2) VALUES (1, x'01020300') fails: " + err.Error()
	}
	return false, ""
}
