package c13

// Sessions that really run in parallel (one goroutine each): transfers
// between accounts inside explicit transactions that commit, roll back, are
// cancelled or hit a failing statement, while readers sum the balances. The
// total never changes for any reader; at the end the balances are the initial
// ones plus exactly the transfers whose COMMIT succeeded.

import (
	"errors"
	"fmt"
	"os"
	"runtime"
	"sync"
	"testing"

	"github.com/codenotary/immudb/embedded/sql"
	"github.com/codenotary/immudb/embedded/store"
	"pgregory.net/rapid"

	"verif/internal/sqlgen"
	"verif/internal/vk"
)

type transfer struct {
	from, to int
	amount   int64
	end      string // commit | rollback | cancel | fail | script
	yields   int
}

func balances(db *sqlgen.DB, tx *sql.SQLTx) (map[int64]int64, int64, error) {
	r, err := sqlgen.QueryEngine(db.Eng, tx, "SELECT id, bal FROM acct", nil)
	if err != nil {
		return nil, 0, err
	}
	m := map[int64]int64{}
	var sum int64
	for _, row := range r.Rows {
		m[row[0].I] = row[1].I
		sum += row[1].I
	}
	return m, sum, nil
}

func TestParallelTransfers(t *testing.T) {
	vk.Check(t, 240, 6000, func(rt *rapid.T, c *vk.Case) {
		dir := vk.Dir()
		defer os.RemoveAll(dir)
		db, err := sqlgen.Open(dir, sqlgen.DBOpts{})
		if err != nil {
			rt.Fatalf("open: %v", err)
		}
		defer db.Close()
		n := rapid.IntRange(2, 6).Draw(rt, "accounts")
		if err := db.Exec("CREATE TABLE acct (id INTEGER, bal INTEGER NOT NULL, PRIMARY KEY id)", nil); err != nil {
			rt.Fatalf("%v", err)
		}
		for i := 1; i <= n; i++ {
			if err := db.Exec(fmt.Sprintf("INSERT INTO acct (id, bal) VALUES (%d, 100)", i), nil); err != nil {
				rt.Fatalf("%v", err)
			}
		}
		total := int64(n) * 100
		nw := rapid.IntRange(2, 4).Draw(rt, "writers")
		nr := rapid.IntRange(1, 2).Draw(rt, "readers")
		scripts := make([][]transfer, nw)
		for w := range scripts {
			for i, k := 0, rapid.IntRange(2, 7).Draw(rt, "txs"); i < k; i++ {
				tr := transfer{from: rapid.IntRange(1, n).Draw(rt, "from"), to: rapid.IntRange(1, n).Draw(rt, "to"),
					amount: int64(rapid.IntRange(1, 30).Draw(rt, "amount")),
					end:    rapid.SampledFrom([]string{"commit", "commit", "commit", "script", "rollback", "cancel", "fail"}).Draw(rt, "end"),
					yields: rapid.IntRange(0, 3).Draw(rt, "yields")}
				scripts[w] = append(scripts[w], tr)
			}
			c.Descf("w%d=%v", w, scripts[w])
		}
		reads := rapid.IntRange(3, 12).Draw(rt, "reads")
		c.Descf("n=%d readers=%d reads=%d", n, nr, reads)

		var mu sync.Mutex
		var problems []string
		committed := map[int64]int64{}
		stats := map[string]int{}
		report := func(format string, args ...any) {
			mu.Lock()
			problems = append(problems, fmt.Sprintf(format, args...))
			mu.Unlock()
		}
		var wg sync.WaitGroup
		for w := 0; w < nw; w++ {
			wg.Add(1)
			go func(w int) {
				defer wg.Done()
				for i, tr := range scripts[w] {
					who := fmt.Sprintf("writer %d tx %d %+v", w, i, tr)
					debit := fmt.Sprintf("UPDATE acct SET bal = bal - %d WHERE id = %d", tr.amount, tr.from)
					credit := fmt.Sprintf("UPDATE acct SET bal = bal + %d WHERE id = %d", tr.amount, tr.to)
					applied := false
					outcome := tr.end
					if tr.end == "script" {
						_, ctxs, err := db.Eng.Exec(ctx, nil, "BEGIN TRANSACTION; "+debit+"; "+credit+"; COMMIT", nil)
						switch {
						case err == nil && len(ctxs) == 1 && ctxs[0].UpdatedRows() == 2:
							applied = true
						case err == nil:
							report("%s: script committed %d transactions", who, len(ctxs))
						case errors.Is(err, store.ErrTxReadConflict):
							outcome = "conflict"
						default:
							report("%s: %v", who, err)
						}
					} else {
						tx, _, err := db.Eng.Exec(ctx, nil, "BEGIN TRANSACTION", nil)
						if err != nil {
							report("%s: BEGIN: %v", who, err)
							return
						}
						step := func(text string) bool {
							for y := 0; y < tr.yields; y++ {
								runtime.Gosched()
							}
							ntx, _, err := db.Eng.Exec(ctx, tx, text, nil)
							if err != nil {
								report("%s: %s: %v", who, text, err)
								if !tx.Closed() {
									tx.Cancel()
								}
								return false
							}
							tx = ntx
							return true
						}
						if !step(debit) {
							continue
						}
						if tr.end == "fail" {
							// duplicate key: the engine cancels the whole transaction
							if _, _, err := db.Eng.Exec(ctx, tx, "INSERT INTO acct (id, bal) VALUES (1, 0)", nil); err == nil || !tx.Closed() {
								report("%s: duplicate insert: err=%v closed=%v", who, err, tx.Closed())
							}
						} else if step(credit) {
							if tx.UpdatedRows() != 2 {
								report("%s: UpdatedRows()=%d after two single-row updates", who, tx.UpdatedRows())
							}
							switch tr.end {
							case "commit":
								_, _, err := db.Eng.Exec(ctx, tx, "COMMIT", nil)
								switch {
								case err == nil:
									applied = true
								case errors.Is(err, store.ErrTxReadConflict):
									outcome = "conflict"
								default:
									report("%s: COMMIT: %v", who, err)
								}
							case "rollback":
								if _, _, err := db.Eng.Exec(ctx, tx, "ROLLBACK", nil); err != nil {
									report("%s: ROLLBACK: %v", who, err)
								}
							case "cancel":
								if err := tx.Cancel(); err != nil {
									report("%s: Cancel: %v", who, err)
								}
							}
						}
					}
					mu.Lock()
					stats[outcome]++
					if applied {
						committed[int64(tr.from)] -= tr.amount
						committed[int64(tr.to)] += tr.amount
					}
					mu.Unlock()
				}
			}(w)
		}
		for r := 0; r < nr; r++ {
			wg.Add(1)
			go func(r int) {
				defer wg.Done()
				for i := 0; i < reads; i++ {
					if i%2 == 0 {
						_, sum, err := balances(db, nil)
						if err != nil || sum != total {
							report("reader %d: sum of balances = %d (err=%v), must be %d", r, sum, err, total)
						}
						continue
					}
					// the same read twice inside one read-only transaction
					ro, err := db.Eng.NewTx(ctx, sql.DefaultTxOptions().WithReadOnly(true))
					if err != nil {
						report("reader %d: NewTx: %v", r, err)
						continue
					}
					a, sum, err := balances(db, ro)
					if err != nil || sum != total {
						report("reader %d (tx): sum of balances = %d (err=%v), must be %d", r, sum, err, total)
					}
					runtime.Gosched()
					b, _, err := balances(db, ro)
					if err != nil || fmt.Sprint(a) != fmt.Sprint(b) {
						report("reader %d (tx): two reads in one transaction differ: %v then %v (err=%v)", r, a, b, err)
					}
					ro.Cancel()
				}
			}(r)
		}
		wg.Wait()
		final, sum, err := balances(db, nil)
		if err != nil {
			problems = append(problems, fmt.Sprintf("final read: %v", err))
		}
		if sum != total {
			problems = append(problems, fmt.Sprintf("final sum %d, must be %d", sum, total))
		}
		for id := int64(1); id <= int64(n); id++ {
			if want := 100 + committed[id]; final[id] != want {
				problems = append(problems, fmt.Sprintf("account %d: balance %d, initial 100 plus committed transfers = %d", id, final[id], want))
			}
		}
		if len(problems) > 0 {
			c.Failf(rt, map[string]any{"problems": problems, "scripts": fmt.Sprint(scripts)}, "%s", problems[0])
		}
		for k, v := range stats {
			if v > 0 {
				c.Label("outcome-" + k)
			}
		}
		if stats["rollback"]+stats["cancel"]+stats["fail"]+stats["conflict"] > 0 {
			c.NonTrivial()
		}
	})
}
