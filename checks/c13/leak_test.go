package c13

import (
	"fmt"
	"testing"
)

func TestPgLeakExplore(t *testing.T) {
	p, err := pgFixture()
	if err != nil {
		t.Fatal(err)
	}
	obs, _ := p.db.Conn(bg)
	defer obs.Close()
	if _, err := obs.ExecContext(bg, "CREATE TABLE lk (id INTEGER, a INTEGER, PRIMARY KEY id)"); err != nil {
		t.Fatal(err)
	}
	obs.ExecContext(bg, "CREATE INDEX ON lk (a)")
	for i := 0; i < 150; i++ {
		c, err := p.db.Conn(bg)
		if err != nil {
			t.Fatalf("conn %d: %v", i, err)
		}
		if _, err := c.ExecContext(bg, "BEGIN"); err != nil {
			t.Fatalf("begin %d: %v", i, err)
		}
		if _, err := c.ExecContext(bg, fmt.Sprintf("INSERT INTO lk (id, a) VALUES (%d, 1)", i)); err != nil {
			t.Fatalf("insert %d: %v", i, err)
		}
		rows, err := c.QueryContext(bg, "SELECT id FROM lk USE INDEX ON (a)")
		if err != nil {
			t.Fatalf("query %d: %v", i, err)
		}
		rows.Close()
		c.Raw(func(dc any) error { return dc.(interface{ Close() error }).Close() })
		c.Close()
	}
	t.Log("150 abandoned transactions: no error")
}
