package c13

// PostgreSQL-wire leg: the same kind of transaction programs sent through
// lib/pq connections to the pgsql listener of an in-process immudb server
// (loopback TCP), checked with the same reference interpreter.

import (
	"context"
	"database/sql"
	"fmt"
	"net"
	"os"
	"sort"
	"strings"
	"sync"
	"testing"
	"time"

	"github.com/codenotary/immudb/pkg/server"
	_ "github.com/lib/pq"
	"pgregory.net/rapid"

	"verif/internal/sqlgen"
	"verif/internal/vk"
)

const (
	kfPgAfterFailure = "K13e-pgwire-statements-after-failed-statement-autocommit"
	kfPgAffected     = "K13f-pgwire-affected-rows-always-zero"
)

type nullLogger struct{}

func (nullLogger) Errorf(string, ...interface{})   {}
func (nullLogger) Warningf(string, ...interface{}) {}
func (nullLogger) Infof(string, ...interface{})    {}
func (nullLogger) Debugf(string, ...interface{})   {}
func (nullLogger) Close() error                    { return nil }

// loopbackError is nil when the sandbox lets the process listen on 127.0.0.1.
func loopbackError() error {
	l, err := net.Listen("tcp", "127.0.0.1:0")
	if err != nil {
		return err
	}
	return l.Close()
}

type pgServer struct {
	srv   *server.ImmuServer
	db    *sql.DB
	dir   string
	cases int
	// leaks: transactions left open by clients that went away. The pgsql
	// front-end never cancels them (session.Close does not look at s.tx), each
	// keeps a snapshot of every index it touched, and an index refuses the
	// 101st snapshot ("max active snapshots limit reached").
	leaks int
}

var pgProxy func(port int) int

var (
	pgMu  sync.Mutex
	pgCur *pgServer
	pgSeq int
)

func startPg() (*pgServer, error) {
	dir := vk.Dir()
	opts := server.DefaultOptions().WithDir(dir).WithAddress("127.0.0.1").WithPort(0).WithPgsqlServer(true).WithPgsqlServerPort(0).
		WithMetricsServer(false).WithWebServer(false)
	opts.LogFormat = "json"
	opts.NoHistograms = true
	opts.GRPCReflectionServerEnabled = false
	srv := server.DefaultServer().WithOptions(opts).WithLogger(nullLogger{}).(*server.ImmuServer)
	if err := srv.Initialize(); err != nil {
		os.RemoveAll(dir)
		return nil, fmt.Errorf("initialize: %w", err)
	}
	go srv.Start()
	port := srv.PgsqlSrv.GetPort()
	if pgProxy != nil {
		port = pgProxy(port)
	}
	db, err := sql.Open("postgres", fmt.Sprintf("host=127.0.0.1 port=%d sslmode=disable user=immudb dbname=defaultdb password=immudb", port))
	if err != nil {
		return nil, err
	}
	db.SetMaxIdleConns(0)
	deadline := time.Now().Add(300 * time.Second)
	for {
		err = db.Ping()
		if err == nil {
			break
		}
		if time.Now().After(deadline) {
			return nil, fmt.Errorf("pgsql server does not answer: %v", err)
		}
		time.Sleep(10 * time.Millisecond)
	}
	return &pgServer{srv: srv, db: db, dir: dir}, nil
}

func (p *pgServer) stop() {
	p.db.Close()
	p.srv.Stop()
	os.RemoveAll(p.dir)
}

// pgFixture returns the shared server, restarted every 80 cases so that the
// catalog (tables are dropped, their catalog entries stay) does not grow
// without bound.
func pgFixture() (*pgServer, error) {
	pgMu.Lock()
	defer pgMu.Unlock()
	if pgCur != nil && (pgCur.cases >= 80 || pgCur.leaks >= 50) {
		pgCur.stop()
		pgCur = nil
	}
	if pgCur == nil {
		p, err := startPg()
		if err != nil {
			return nil, err
		}
		pgCur = p
	}
	pgCur.cases++
	pgSeq++
	return pgCur, nil
}

type pgSession struct {
	id             int
	conn           *sql.Conn
	st             *txstate
	foreignCommits int
}

type pgHarness struct {
	rt        *rapid.T
	c         *vk.Case
	g         *gen
	p         *pgServer
	obs       *sql.Conn
	committed *world
	sess      []*pgSession
	trace     []string
	ghosts    map[string]bool
	flags     map[string]bool
}

func (h *pgHarness) logf(format string, args ...any) {
	h.trace = append(h.trace, strings.ReplaceAll(fmt.Sprintf(format, args...), "\x00", `\x00`))
}

func (h *pgHarness) failf(format string, args ...any) {
	dump := map[string]any{"trace": h.trace, "committed": strings.Split(h.committed.dump(), "\n")}
	for _, s := range h.sess {
		if s.st != nil {
			dump[fmt.Sprintf("view-s%d", s.id)] = strings.Split(s.st.view.dump(), "\n")
		}
	}
	h.c.Failf(h.rt, dump, format, args...)
}

func (h *pgHarness) flag(l string) {
	h.flags[l] = true
	h.c.Label(l)
}

var bg = context.Background()

// pgQuery reads a result set and converts it by the column types of d.
func pgQuery(conn *sql.Conn, text string, d *tdef, count bool) (*sqlgen.Result, error) {
	rows, err := conn.QueryContext(bg, text)
	if err != nil {
		return nil, err
	}
	defer rows.Close()
	cols, err := rows.Columns()
	if err != nil {
		return nil, err
	}
	res := &sqlgen.Result{Cols: cols}
	for rows.Next() {
		vals := make([]any, len(cols))
		ptrs := make([]any, len(cols))
		for i := range vals {
			ptrs[i] = &vals[i]
		}
		if err := rows.Scan(ptrs...); err != nil {
			return nil, err
		}
		out := make([]sqlgen.Value, len(cols))
		for i, v := range vals {
			typ := sqlgen.TInt
			if !count {
				typ = d.cols[i].Type
			}
			switch x := v.(type) {
			case nil:
				out[i] = sqlgen.Null(typ)
			case int64:
				out[i] = sqlgen.Int(x)
			case bool:
				out[i] = sqlgen.Bool(x)
			case string:
				out[i] = sqlgen.Varchar(x)
			case []byte:
				switch typ {
				case sqlgen.TInt:
					var n int64
					fmt.Sscan(string(x), &n)
					out[i] = sqlgen.Int(n)
				case sqlgen.TBool:
					out[i] = sqlgen.Bool(string(x) == "t" || string(x) == "true")
				default:
					out[i] = sqlgen.Varchar(string(x))
				}
			default:
				return nil, fmt.Errorf("column %s: unexpected Go type %T", cols[i], v)
			}
		}
		res.Rows = append(res.Rows, out)
	}
	return res, rows.Err()
}

func (h *pgHarness) runQuery(who string, conn *sql.Conn, w *world, q *query) {
	d := w.tabs[q.table].def
	text := q.sql(d)
	got, err := pgQuery(conn, text, d, q.count)
	if err != nil {
		h.logf("%s: %s => ERROR %v", who, text, err)
		h.failf("%s: query failed: %s: %v", who, text, err)
	}
	want := q.eval(w)
	if diff := q.diff(got, want); diff != "" {
		h.logf("%s: %s => %v", who, text, got.Keys())
		h.failf("%s: %s returned %v, reference %v (%s)", who, text, got.Keys(), want.Keys(), diff)
	}
	h.logf("%s: %s => %d rows", who, text, len(got.Rows))
}

func (h *pgHarness) checkView(s *pgSession, why string) {
	for _, t := range s.st.tables(s.st.scannable) {
		h.runQuery(fmt.Sprintf("s%d(%s)", s.id, why), s.conn, s.st.view, &query{table: t.def.name})
	}
}

func (h *pgHarness) audit(why string, viaIndexes bool) {
	for _, n := range h.committed.names {
		t := h.committed.tabs[n]
		h.runQuery("audit("+why+")", h.obs, h.committed, &query{table: n})
		if viaIndexes {
			for _, ix := range t.def.idx {
				h.runQuery("audit-index("+why+")", h.obs, h.committed, &query{table: n, useIdx: ix.Cols})
			}
		}
	}
	var ghosts []string
	for n := range h.ghosts {
		ghosts = append(ghosts, n)
	}
	sort.Strings(ghosts)
	for _, n := range ghosts {
		if h.committed.tabs[n] != nil {
			continue
		}
		rows, err := h.obs.QueryContext(bg, "SELECT * FROM "+n)
		if err == nil {
			rows.Close()
			h.failf("audit(%s): table %s was created by a transaction that did not commit, yet it can be read", why, n)
		}
		if !strings.Contains(err.Error(), "table does not exist") {
			h.failf("audit(%s): SELECT * FROM %s: %v", why, n, err)
		}
	}
}

func (h *pgHarness) observe() {
	var open []*pgSession
	writers := 0
	for _, s := range h.sess {
		if s.st != nil {
			open = append(open, s)
			if s.st.hasWrites() {
				writers++
			}
		}
	}
	k := h.g.intn(0, len(open), "observer")
	if k == len(open) {
		n := h.committed.names[h.g.intn(0, len(h.committed.names)-1, "observedTable")]
		h.runQuery("outside", h.obs, h.committed, &query{table: n})
		if writers > 0 {
			h.flag("outside-reader-during-open-writer")
		}
		return
	}
	s := open[k]
	ts := s.st.tables(s.st.scannable)
	if len(ts) == 0 {
		return
	}
	t := ts[h.g.intn(0, len(ts)-1, "observedTable")]
	h.runQuery(fmt.Sprintf("s%d(observe)", s.id), s.conn, s.st.view, &query{table: t.def.name})
	if s.st.hasWrites() {
		writers--
	}
	if writers > 0 {
		h.flag("reader-during-open-writer")
	}
	if s.foreignCommits > 0 {
		h.flag("read-after-foreign-commit")
	}
}

func (h *pgHarness) connect(s *pgSession) {
	conn, err := h.p.db.Conn(bg)
	if err != nil {
		h.failf("s%d: cannot connect: %v", s.id, err)
	}
	s.conn = conn
}

func (h *pgHarness) begin(s *pgSession) {
	text := rapid.SampledFrom([]string{"BEGIN", "BEGIN TRANSACTION"}).Draw(h.rt, "beginText")
	_, err := s.conn.ExecContext(bg, text)
	h.logf("s%d: %s => %v", s.id, text, err)
	if err != nil {
		h.failf("s%d: %s: %v", s.id, text, err)
	}
	s.st = newTxstate(h.committed, false)
	s.foreignCommits = 0
	h.c.Label("tx-read-write")
	if vk.Excluded(kfSnapshot) {
		vk.CountExcluded(kfSnapshot)
		for _, t := range s.st.tables(nil) {
			h.runQuery(fmt.Sprintf("s%d(pin)", s.id), s.conn, s.st.view, &query{table: t.def.name})
			for _, ix := range t.def.idx {
				h.runQuery(fmt.Sprintf("s%d(pin)", s.id), s.conn, s.st.view, &query{table: t.def.name, useIdx: ix.Cols})
			}
		}
	} else if ts := s.st.tables(nil); len(ts) > 0 {
		h.runQuery(fmt.Sprintf("s%d(first-read)", s.id), s.conn, s.st.view, &query{table: ts[0].def.name})
	}
}

// checkAffected compares the reported number of affected rows.
func (h *pgHarness) checkAffected(who string, res sql.Result, want int) {
	n, err := res.RowsAffected()
	if err == nil && int(n) == want {
		return
	}
	if vk.Excluded(kfPgAffected) {
		vk.CountExcluded(kfPgAffected)
		return
	}
	h.failf("%s: RowsAffected()=%d (%v), reference %d", who, n, err, want)
}

func (h *pgHarness) exec(s *pgSession, st *stmt, updBefore int) {
	var res sql.Result
	var err error
	if st.ins != nil && h.g.chance(3, "extendedProtocol") {
		// extended query protocol: Parse / Bind / Execute with text parameters
		text, args := st.ins.paramSQL()
		res, err = s.conn.ExecContext(bg, text, args...)
		h.logf("s%d: %s %v => %v", s.id, text, args, err)
		h.c.Label("extended-protocol-statement")
	} else {
		res, err = s.conn.ExecContext(bg, st.sql)
		h.logf("s%d: %s => %v", s.id, st.sql, err)
	}
	if err != nil {
		h.failf("s%d: statement failed: %s: %v", s.id, st.sql, err)
	}
	h.c.Label("stmt-" + st.label)
	// UPSERT is not a PostgreSQL command: its tag ("ok") carries no count
	if strings.HasPrefix(st.sql, "INSERT") || strings.HasPrefix(st.sql, "UPDATE") || strings.HasPrefix(st.sql, "DELETE") {
		h.checkAffected(fmt.Sprintf("s%d %s", s.id, st.sql), res, s.st.upd-updBefore)
	}
}

func (h *pgHarness) abort(s *pgSession, why string) {
	for n := range s.st.created {
		h.ghosts[n] = true
	}
	if s.st.hasWrites() {
		h.flag("writes-discarded-by-" + why)
	}
	s.st = nil
}

func (h *pgHarness) noteCommit(by *pgSession) {
	for _, o := range h.sess {
		if o != by && o.st != nil {
			o.foreignCommits++
		}
	}
}

// execFailing sends a statement that must fail; what follows depends on K13e.
func (h *pgHarness) execFailing(s *pgSession, st *stmt) {
	_, err := s.conn.ExecContext(bg, st.sql)
	h.logf("s%d: %s => %v", s.id, st.sql, err)
	if err == nil {
		h.failf("s%d: generator expectation: statement must fail but succeeded: %s", s.id, st.sql)
	}
	h.c.Label("stmt-" + st.label)
	h.afterFailure(s)
}

// afterFailure: a statement failed inside the block of s. PostgreSQL semantics:
// the block is aborted, nothing of it may ever be committed.
func (h *pgHarness) afterFailure(s *pgSession) {
	view := s.st.view
	h.abort(s, "failed-statement")
	if vk.Excluded(kfPgAfterFailure) {
		// known finding K13e: the session is silently back in autocommit mode;
		// the client ends the block right away
		vk.CountExcluded(kfPgAfterFailure)
		h.c.Label("statements-after-failure-avoided-K13e")
	} else {
		// the block is still open for the client: whatever it sends before
		// ROLLBACK / COMMIT must not take effect
		for i, n := 0, h.g.intn(1, 2, "afterFailure"); i < n; i++ {
			if x := h.g.dml(newTxstate(view, false)); x != nil {
				_, err := s.conn.ExecContext(bg, x.sql)
				h.logf("s%d: (after failure) %s => %v", s.id, x.sql, err)
				h.c.Label("stmt-after-failure")
			}
		}
	}
	end := rapid.SampledFrom([]string{"ROLLBACK", "COMMIT"}).Draw(h.rt, "endAfterFailure")
	_, err := s.conn.ExecContext(bg, end)
	h.logf("s%d: %s => %v", s.id, end, err)
	h.audit("after failed statement", false)
}

func (h *pgHarness) end(s *pgSession, how string) {
	st := s.st
	switch how {
	case "commit":
		text := "COMMIT"
		_, err := s.conn.ExecContext(bg, text)
		h.logf("s%d: %s => %v", s.id, text, err)
		switch {
		case err == nil:
			h.committed.apply(st)
			h.c.Label("end-commit")
			if s.foreignCommits > 0 {
				h.c.Label("end-commit-after-foreign-commit")
			}
			s.st = nil
			h.noteCommit(s)
		case strings.Contains(err.Error(), "read conflict") && s.foreignCommits > 0:
			h.c.Label("end-commit-conflict")
			h.abort(s, "failed-commit")
		default:
			h.failf("s%d: COMMIT failed: %v (commits of other sessions since BEGIN: %d)", s.id, err, s.foreignCommits)
		}
	case "rollback":
		text := "ROLLBACK"
		_, err := s.conn.ExecContext(bg, text)
		h.logf("s%d: %s => %v", s.id, text, err)
		if err != nil {
			h.failf("s%d: %s failed: %v", s.id, text, err)
		}
		h.c.Label("end-rollback")
		h.abort(s, "rollback")
	case "abandon":
		// the client goes away in the middle of the block
		err := s.conn.Raw(func(dc any) error { return dc.(interface{ Close() error }).Close() })
		h.logf("s%d: connection closed => %v", s.id, err)
		s.conn.Close()
		h.c.Label("end-connection-closed")
		h.p.leaks++
		h.abort(s, "abandon")
		h.connect(s)
	}
	h.audit("after "+how, false)
}

func (h *pgHarness) autocommit(s *pgSession) {
	st := newTxstate(h.committed, false)
	d := h.g.dml(st)
	if d == nil {
		return
	}
	res, err := s.conn.ExecContext(bg, d.sql)
	h.logf("s%d(auto): %s => %v", s.id, d.sql, err)
	if err != nil {
		h.failf("s%d(auto): %s: %v", s.id, d.sql, err)
	}
	if !strings.HasPrefix(d.sql, "UPSERT") {
		h.checkAffected(fmt.Sprintf("s%d(auto) %s", s.id, d.sql), res, st.upd)
	}
	h.committed.apply(st)
	h.c.Label("auto-" + d.label)
	h.noteCommit(s)
	h.audit("after autocommit", false)
}

// script sends a whole block as one simple-query message.
func (h *pgHarness) script(s *pgSession) {
	st := newTxstate(h.committed, false)
	n := h.g.intn(1, 5, "scriptLen")
	parts := []string{"BEGIN"}
	failed := ""
	for i := 0; i < n && failed == ""; i++ {
		var x *stmt
		switch k := h.g.intn(0, 9, "scriptStmt"); {
		case k < 7:
			x = h.g.dml(st)
		case k < 9:
			x = h.g.savepointStmt(st)
		default:
			x = h.g.failing(st, nil)
			if x != nil && x.label == "fail-nested-begin" {
				x = nil
			}
		}
		if x == nil {
			continue
		}
		parts = append(parts, x.sql)
		if x.fails {
			failed = x.label
			if y := h.g.dml(newTxstate(st.view, false)); y != nil {
				parts = append(parts, y.sql)
			}
		}
	}
	end := "COMMIT"
	if h.g.chance(4, "scriptRollback") {
		end = "ROLLBACK"
	}
	parts = append(parts, end)
	text := strings.Join(parts, "; ")
	_, err := s.conn.ExecContext(bg, text)
	h.logf("s%d(script): %s => %v", s.id, text, err)
	switch {
	case failed != "":
		if err == nil {
			h.failf("s%d(script): script with a failing statement (%s) succeeded: %s", s.id, failed, text)
		}
		h.c.Label("script-failed-statement")
		if st.hasWrites() {
			h.flag("writes-discarded-by-failed-statement")
		}
		// the client closes the block it believes to be open
		_, err := s.conn.ExecContext(bg, "ROLLBACK")
		h.logf("s%d: ROLLBACK => %v", s.id, err)
	case err != nil:
		h.failf("s%d(script): %s: %v", s.id, text, err)
	case end == "ROLLBACK":
		h.c.Label("script-rollback")
		if st.hasWrites() {
			h.flag("writes-discarded-by-rollback")
		}
	default:
		h.committed.apply(st)
		h.c.Label("script-commit")
		h.noteCommit(s)
	}
	h.audit("after script", false)
}

func (h *pgHarness) step() {
	s := h.sess[h.g.intn(0, len(h.sess)-1, "session")]
	if s.st == nil {
		switch k := h.g.intn(0, 9, "idleAction"); {
		case k < 6:
			h.begin(s)
		case k < 8:
			h.autocommit(s)
		case k == 8:
			h.script(s)
		default:
			if q := h.g.query(newTxstate(h.committed, true)); q != nil {
				h.runQuery(fmt.Sprintf("s%d(auto)", s.id), s.conn, h.committed, q)
				h.c.Label("auto-query")
			}
		}
		return
	}
	st := s.st
	switch k := h.g.intn(0, 19, "rwAction"); {
	case k < 9:
		before := st.upd
		if d := h.g.dml(st); d != nil {
			h.exec(s, d, before)
		}
	case k < 12:
		if q := h.g.query(st); q != nil {
			h.runQuery(fmt.Sprintf("s%d", s.id), s.conn, st.view, q)
			h.c.Label("stmt-query")
			if st.hasWrites() {
				h.c.Label("query-over-own-writes")
			}
			if s.foreignCommits > 0 {
				h.flag("read-after-foreign-commit")
			}
		}
	case k < 14:
		if x := h.g.savepointStmt(st); x != nil {
			h.exec(s, x, st.upd)
			if x.label == "rollback-to-after-write" {
				h.flag("rolled-back-to-savepoint-after-write")
			}
		}
	case k == 14 || k == 15:
		if f := h.g.failing(st, nil); f != nil {
			h.execFailing(s, f)
		}
	case k == 16:
		var text string
		if h.g.chance(2, "parseError") {
			text = "INSRT INTO nowhere"
			_, err := s.conn.ExecContext(bg, text)
			h.logf("s%d: %s => %v", s.id, text, err)
			if err == nil {
				h.failf("s%d: unparsable statement accepted", s.id)
			}
			h.c.Label("stmt-parse-error")
		} else {
			text = h.g.failingQuery(st, nil)
			rows, err := s.conn.QueryContext(bg, text)
			h.logf("s%d: %s => %v", s.id, text, err)
			if err == nil {
				rows.Close()
				h.failf("s%d: generator expectation: query must fail: %s", s.id, text)
			}
			h.c.Label("stmt-failing-query")
		}
		if st.hasWrites() {
			h.flag("failed-query-mid-transaction")
		}
		if vk.Excluded(kfPgAfterFailure) {
			// as long as K13e is there the front-end keeps the engine's behaviour:
			// a failing query or an unparsable statement leaves the transaction open
			h.checkView(s, "after-failing-query")
		} else {
			h.afterFailure(s)
		}
	default:
		h.checkView(s, "before-end")
		h.end(s, rapid.SampledFrom([]string{"commit", "commit", "commit", "rollback", "abandon"}).Draw(h.rt, "endKind"))
	}
}

func (h *pgHarness) setup() {
	nt := h.g.intn(1, 2, "nTables")
	for i := 1; i <= nt; i++ {
		d := h.g.genTable(fmt.Sprintf("%st%d", h.g.prefix, i), true)
		stmts := []string{d.table().CreateSQL()}
		for _, ix := range d.idx {
			stmts = append(stmts, ix.CreateSQL(d.name))
		}
		for _, text := range stmts {
			if _, err := h.obs.ExecContext(bg, text); err != nil {
				h.failf("setup: %s: %v", text, err)
			}
			h.logf("setup: %s", text)
		}
		h.committed.add(d)
	}
	for i, n := 0, h.g.intn(0, 3, "setupStmts"); i < n; i++ {
		st := newTxstate(h.committed, false)
		x := h.g.insert(st, "insert")
		if x == nil {
			continue
		}
		if _, err := h.obs.ExecContext(bg, x.sql); err != nil {
			h.failf("setup: %s: %v", x.sql, err)
		}
		h.logf("setup: %s", x.sql)
		h.committed.apply(st)
	}
}

var pgNotRun string

func TestPgWirePrograms(t *testing.T) {
	if pgNotRun != "" {
		vk.AddLabel("TestPgWirePrograms/NOT-RUN-no-loopback-sockets", 1)
		t.Skip(pgNotRun)
	}
	vk.Check(t, 160, 3000, func(rt *rapid.T, c *vk.Case) {
		p, err := pgFixture()
		if err != nil {
			rt.Fatalf("pg fixture: %v", err)
		}
		h := &pgHarness{rt: rt, c: c, p: p, committed: newWorld(), ghosts: map[string]bool{}, flags: map[string]bool{}}
		h.g = &gen{rt: rt, c: c, prefix: fmt.Sprintf("p%d", pgSeq), noUnique: true, noNUL: true, noChecks: true,
			// the pgsql front-end turns CREATE TABLE into CREATE TABLE IF NOT EXISTS
			skipFail: map[string]bool{"fail-table-exists": true},
			types:    []sqlgen.Type{sqlgen.TInt, sqlgen.TInt, sqlgen.TVarchar, sqlgen.TVarchar, sqlgen.TBool}}
		h.obs, err = p.db.Conn(bg)
		if err != nil {
			rt.Fatalf("connect: %v", err)
		}
		defer func() {
			// leave nothing behind: close the sessions, drop the tables
			for _, s := range h.sess {
				if s.conn != nil {
					if s.st != nil {
						h.p.leaks++
					}
					s.conn.Raw(func(dc any) error { return dc.(interface{ Close() error }).Close() })
					s.conn.Close()
				}
			}
			for _, n := range h.committed.names {
				h.obs.ExecContext(bg, "DROP TABLE "+n)
			}
			h.obs.Close()
		}()
		h.setup()
		ns := h.g.intn(1, 2, "nSessions")
		for i := 1; i <= ns; i++ {
			s := &pgSession{id: i}
			h.connect(s)
			h.sess = append(h.sess, s)
		}
		steps := h.g.intn(4, 18, "nSteps")
		for i := 0; i < steps; i++ {
			h.step()
			h.observe()
		}
		for _, s := range h.sess {
			if s.st == nil {
				continue
			}
			h.checkView(s, "final")
			h.end(s, rapid.SampledFrom([]string{"commit", "commit", "rollback", "abandon"}).Draw(rt, "endKind"))
		}
		h.audit("final", true)
		// the descriptor must not depend on the table-name prefix of this run
		c.Descf("%s", strings.ReplaceAll(strings.Join(h.trace, "\n"), h.g.prefix, "p"))
		c.Label(fmt.Sprintf("sessions-%d", ns))
		for l := range h.flags {
			if strings.HasPrefix(l, "writes-discarded-by-") || l == "rolled-back-to-savepoint-after-write" || l == "failed-query-mid-transaction" ||
				strings.HasSuffix(l, "-during-open-writer") || l == "read-after-foreign-commit" {
				c.NonTrivial()
			}
		}
	})
	pgMu.Lock()
	if pgCur != nil {
		pgCur.stop()
		pgCur = nil
	}
	pgMu.Unlock()
}
