// C02 — committed history is append-only and immutable.
//
// A ledger L[id] = (header, entries, values, alh) is filled at acknowledgement
// time (when Commit / AsyncCommit / CommitWith returns a header) from the content
// of the request and the returned header. After every step, and continuously
// from a checker goroutine while committers run, every read API of the store is
// compared with the ledger.
package c02

import (
	"bytes"
	"context"
	"crypto/sha256"
	"encoding/binary"
	"errors"
	"fmt"
	"os"
	"path/filepath"
	"runtime"
	"strconv"
	"strings"
	"sync"
	"sync/atomic"
	"testing"
	"time"

	"github.com/codenotary/immudb/embedded/store"
	"github.com/codenotary/immudb/embedded/watchers"
	"pgregory.net/rapid"

	"verif/internal/fsim"
	"verif/internal/refmodel"
	"verif/internal/stx"
	"verif/internal/vk"
)

func TestMain(m *testing.M) {
	vk.Main(m, vk.Config{
		Property: "C02",
		Rule: "rapid-generated programs on a real store whose every log goes through the fsim storage seam (yield/sleep hook before every storage operation of the commit path, fault injection): generated configuration " +
			"(synced with 1 ms sync frequency / unsynced, embedded values, prealloc, header version 0/1, MaxIOConcurrency 1-3, file sizes 256 B-1 MiB forcing chunk rotation inside tx records, tx-log cache 1-1000, " +
			"MaxActiveTransactions 4-1000) and steps: bursts of 1-6 concurrent committers (write-only Commit/AsyncCommit, CommitWith callbacks, read-write txs, preconditions that pass or fail, txs cancelled before commit, " +
			"contexts cancelled during commit, commits whose n-th storage operation fails) with FlushIndexes/CompactIndexes/TruncateUptoTx/Sync running inside the bursts, close/reopen with changed options; in " +
			"external-commit-allowance mode AllowCommitUpto / DiscardPrecommittedTxsSince (also of committed ids, which must be refused) followed by new commits under the same ids; a replica store following one primary, or " +
			"switching to a second primary that forked from the first, through concurrent ReplicateTx calls, allowances, discards and restarts; replication of a whole history into a second store. The ledger of " +
			"acknowledged transactions (request content + returned header) is compared with ReadTx/ReadTxHeader/ExportTx/ReadValue/TxReader/CommittedAlh/DualProof after every step and continuously from a checker goroutine. " +
			"Non-trivial: >= 2 committers (or ReplicateTx calls) overlapped in one burst AND at least one of {reopen in the middle of the history, tx log rotated over several chunks, discard of precommitted txs, " +
			"injected storage failure that fired}; distinct by hash of (configuration, step sequence with per-call outcomes).",
		Assumptions: []string{
			"a commit call that returns an error after an injected storage fault, a cancelled context, a closed store, ErrBufferIsFull or a waiters-limit error has an unknown outcome (like a timeout): its transaction may appear later, exactly once and exactly with the requested content; a commit refused for a failed precondition, a read conflict, a cancelled OngoingTx or the MaxActiveTransactions limit must never appear",
			"after an injected storage fault nothing is asserted about the liveness of later commits until the store was closed and reopened (reopen must succeed; commit calls of such a burst are abandoned after 3 s); every other unexpected commit error is reported",
			"DiscardPrecommittedTxsSince is called only after the commit calls waiting on the discarded ids were cancelled (what the replicator does); read-write transactions and preconditions are generated only without external commit allowance, and not in the first burst after an unsynced store was reopened with precommitted transactions in its log (such a commit waits for ever, holding the commit mutex, for the indexing of transactions only it could commit: liveness, not this property)",
			"values of transactions below the largest TruncateUptoTx argument may be unreadable (never different); ExportTx is not called for them (truncated exports are C14's business). TruncateUptoTx runs concurrently with committers only when there is one value log: with several it keeps the value logs it already fetched while waiting for the next and releaseVLog wakes one arbitrary waiter, so the wake-up can be lost for good (hang observed; liveness, C14)",
			"expired entries are not generated (ReadValue refuses them by wall clock); keys are distinct inside one transaction; a read-write tx that fails to stage a write (Set returns 'ts is greater than current ts' under concurrency) is not submitted",
			"on a replica, after DiscardPrecommittedTxsSince a ReplicateTx call that is not the first of its burst may be refused (unexistent data / wrong order / invalid blRoot) instead of waiting for its predecessor, because the in-memory precommit watermark is not taken back; it is retried",
			"schedule coverage is whatever the Go scheduler plus yields/sleeps at every storage operation of the commit path produce; pre-emptions between two non-I/O instructions are hit only by chance",
		},
		Probes: []vk.Probe{
			{ID: "K02a-buffer-full-wedges-commits", Present: probeK02a},
			{ID: "K02b-first-tx-stale-blroot-after-discard", Present: probeK02b},
			{ID: "K02c-truncation-ignores-uncommitted-txs", Present: probeK02c},
		},
	})
}

// ---------------------------------------------------------------------------
// ledger and attempts

const (
	stPending = iota
	stAcked
	stNoID    // refused before anything was written: must never appear
	stUnknown // outcome unknown: may appear later, once, with exactly this content
	stAdopted // unknown attempt later seen committed
)

var stName = [...]string{"pending", "acked", "refused", "unknown", "adopted"}

type preSpec struct {
	kind int // 0 KeyMustExist, 1 KeyMustNotExist, 2 KeyNotModifiedAfterTx
	key  []byte
	tx   uint64
}

type plan struct {
	kind         string // "wo", "pre", "rw", "with"
	async        bool
	cancelBefore bool
	ctxCancelUs  int
	entries      []stx.Entry
	extra        []byte
	pre          []preSpec
	reads        [][]byte
}

type attempt struct {
	seq       int
	plan      plan
	es        []stx.Entry // final content
	status    int
	err       error
	hdr       *store.TxHeader
	id        uint64
	cbID      uint64
	cbCalls   int
	ctx       context.Context
	cancel    context.CancelFunc
	harnessCx bool // cancelled by the harness (discard / close)
	done      chan struct{}
}

type ltx struct {
	id      uint64
	hdr     *store.TxHeader
	alh     [sha256.Size]byte
	es      []stx.Entry
	att     *attempt
	adopted bool
}

var errInjected = errors.New("c02: injected storage fault")
var errNotSubmitted = errors.New("c02: transaction was not submitted for commit")

type faultSpec struct {
	logClass  string // "tx", "commit", "val", "aht"
	kind      fsim.Kind
	countdown atomic.Int32
	repeat    int32
	fired     atomic.Int32
}

type env struct {
	rt  *rapid.T
	c   *vk.Case
	cfg stx.Cfg
	dir string
	st  *store.ImmuStore
	fs  *fsim.FS

	mu        sync.Mutex
	ledger    map[uint64]*ltx
	attempts  []*attempt
	truncUpto uint64
	bgFail    string

	lastN   uint64
	chained uint64
	alhs    []refmodel.Hash // leaf hashes of Alh(1..chained)

	pending map[uint64]*attempt // external allowance: blocked committers by precommitted id

	perturb atomic.Bool
	sched   atomic.Pointer[[]byte]
	schedAt atomic.Uint32
	fault   atomic.Pointer[faultSpec]

	txh, txh2 *store.Tx

	faultSinceOpen bool

	// classes seen
	overlap, reopens, discards, faultsFired, rotated, refusedCommittedDiscard int
	unknownAdopted, preFailed, prePassed, conflicts, cancelled, ctxCancelled  int
	truncs, compactions, flushes, withs, rws, maxActiveHit, bufferFull        int
	replicated                                                                bool
}

func (e *env) failf(format string, args ...any) {
	e.c.Failf(e.rt, e.dump(), format, args...)
}

func (e *env) dump() any {
	e.mu.Lock()
	defer e.mu.Unlock()
	var as []string
	for _, a := range e.attempts {
		as = append(as, fmt.Sprintf("#%d %s st=%s id=%d err=%v %v", a.seq, a.plan.kind, stName[a.status], a.id, a.err, a.es))
	}
	if len(as) > 80 {
		as = as[len(as)-80:]
	}
	return map[string]any{"cfg": e.cfg.String(), "attempts": as}
}

func (e *env) bgFailf(format string, args ...any) {
	// callers hold e.mu
	if e.bgFail == "" {
		e.bgFail = fmt.Sprintf(format, args...)
	}
}

func (e *env) get(id uint64) *ltx {
	e.mu.Lock()
	defer e.mu.Unlock()
	return e.ledger[id]
}

func (e *env) drainBg() {
	e.mu.Lock()
	m := e.bgFail
	e.mu.Unlock()
	if m != "" {
		e.failf("%s", m)
	}
}

// ---------------------------------------------------------------------------
// storage seam hooks

func commitPathLog(log string) string {
	switch {
	case log == "tx":
		return "tx"
	case log == "commit":
		return "commit"
	case strings.HasPrefix(log, "val_"):
		return "val"
	case strings.HasPrefix(log, "aht"):
		return "aht"
	}
	return ""
}

func (e *env) yield(log string, k fsim.Kind) {
	if !e.perturb.Load() {
		return
	}
	if commitPathLog(log) == "" {
		return
	}
	sp := e.sched.Load()
	if sp == nil || len(*sp) == 0 {
		return
	}
	s := *sp
	switch s[int(e.schedAt.Add(1))%len(s)] {
	case 1:
		runtime.Gosched()
	case 2:
		for i := 0; i < 4; i++ {
			runtime.Gosched()
		}
	case 3:
		time.Sleep(40 * time.Microsecond)
	case 4:
		time.Sleep(400 * time.Microsecond)
	}
}

func (e *env) failAt(seq int, log string, k fsim.Kind) error {
	f := e.fault.Load()
	if f == nil {
		return nil
	}
	if commitPathLog(log) != f.logClass {
		return nil
	}
	if f.kind != 0 && f.kind != k {
		return nil
	}
	c := f.countdown.Add(-1)
	if c <= 0 && c > -f.repeat {
		f.fired.Add(1)
		return errInjected
	}
	return nil
}

func (e *env) open() {
	e.fs = fsim.New(e.dir)
	e.fs.Yield = e.yield
	e.fs.FailAt = e.failAt
	st, err := store.Open(e.dir, e.cfg.Options().WithMaxConcurrency(12).WithAppFactory(e.fs.Factory()))
	if err != nil {
		e.failf("store.Open: %v", err)
	}
	e.st = st
	e.faultSinceOpen = false
	e.pending = map[uint64]*attempt{}
}

// ---------------------------------------------------------------------------
// content

func marker(seq int, id uint64) string {
	if id > 0 {
		return fmt.Sprintf("A%05d|id=%d|", seq, id)
	}
	return fmt.Sprintf("A%05d|", seq)
}

func parseMarker(v []byte) (int, bool) {
	if len(v) < 7 || v[0] != 'A' || v[6] != '|' {
		return 0, false
	}
	n, err := strconv.Atoi(string(v[1:6]))
	return n, err == nil
}

// finalEntries stamps the attempt marker (and, for CommitWith, the id handed to the callback) on the first value.
func finalEntries(p plan, seq int, id uint64, maxValueLen int) []stx.Entry {
	es := make([]stx.Entry, len(p.entries))
	copy(es, p.entries)
	m := []byte(marker(seq, id))
	v := append(m, es[0].Value...)
	if len(v) > maxValueLen {
		v = v[:maxValueLen]
	}
	es[0].Value = v
	return es
}

func specsOf(es []stx.Entry) []*store.EntrySpec {
	out := make([]*store.EntrySpec, len(es))
	for i, en := range es {
		out[i] = &store.EntrySpec{Key: en.Key, Metadata: en.MD(), Value: en.Value}
	}
	return out
}

func presOf(ps []preSpec) []store.Precondition {
	var out []store.Precondition
	for _, p := range ps {
		switch p.kind {
		case 0:
			out = append(out, &store.PreconditionKeyMustExist{Key: p.key})
		case 1:
			out = append(out, &store.PreconditionKeyMustNotExist{Key: p.key})
		default:
			out = append(out, &store.PreconditionKeyNotModifiedAfterTx{Key: p.key, TxID: p.tx})
		}
	}
	return out
}

func mdBytes(e stx.Entry) []byte {
	md := e.MD()
	if md == nil {
		return nil
	}
	return md.Bytes()
}

func txmdBytes(md *store.TxMetadata) []byte {
	if md == nil {
		return nil
	}
	return md.Bytes()
}

func hdrDiff(a, b *store.TxHeader) string {
	switch {
	case a.ID != b.ID:
		return fmt.Sprintf("ID %d vs %d", a.ID, b.ID)
	case a.Ts != b.Ts:
		return fmt.Sprintf("Ts %d vs %d", a.Ts, b.Ts)
	case a.BlTxID != b.BlTxID:
		return fmt.Sprintf("BlTxID %d vs %d", a.BlTxID, b.BlTxID)
	case a.BlRoot != b.BlRoot:
		return "BlRoot"
	case a.PrevAlh != b.PrevAlh:
		return "PrevAlh"
	case a.Version != b.Version:
		return fmt.Sprintf("Version %d vs %d", a.Version, b.Version)
	case a.NEntries != b.NEntries:
		return fmt.Sprintf("NEntries %d vs %d", a.NEntries, b.NEntries)
	case a.Eh != b.Eh:
		return "Eh"
	case !bytes.Equal(txmdBytes(a.Metadata), txmdBytes(b.Metadata)):
		return "Metadata"
	}
	return ""
}

// refEh is the entries hash the header must carry for the requested content:
// RFC 6962 root over the entry digests of the header version.
func refEh(version int, es []stx.Entry) ([sha256.Size]byte, error) {
	if len(es) == 0 {
		return sha256.Sum256(nil), nil
	}
	leaves := make([]refmodel.Hash, len(es))
	for i, en := range es {
		te := store.NewTxEntry(en.Key, en.MD(), len(en.Value), sha256.Sum256(en.Value), 0)
		var d [sha256.Size]byte
		var err error
		if version == 0 {
			d, err = store.TxEntryDigest_v1_1(te)
		} else {
			d, err = store.TxEntryDigest_v1_2(te)
		}
		if err != nil {
			return d, err
		}
		leaves[i] = refmodel.LeafHash(d[:])
	}
	return refmodel.MerkleRoot(leaves), nil
}

// expectedExport is the export format of a transaction whose values are all present.
func expectedExport(l *ltx) ([]byte, error) {
	hb, err := l.hdr.Bytes()
	if err != nil {
		return nil, err
	}
	var buf bytes.Buffer
	var b4 [4]byte
	var b2 [2]byte
	binary.BigEndian.PutUint32(b4[:], uint32(len(hb)))
	buf.Write(b4[:])
	buf.Write(hb)
	for _, en := range l.es {
		binary.BigEndian.PutUint16(b2[:], uint16(len(en.Key)))
		buf.Write(b2[:])
		buf.Write(en.Key)
		md := mdBytes(en)
		binary.BigEndian.PutUint16(b2[:], uint16(len(md)))
		buf.Write(b2[:])
		buf.Write(md)
		binary.BigEndian.PutUint32(b4[:], uint32(len(en.Value)))
		buf.Write(b4[:])
		buf.Write(en.Value)
	}
	binary.BigEndian.PutUint16(b2[:], 1)
	buf.Write(b2[:])
	buf.WriteByte(0)
	return buf.Bytes(), nil
}

func short(b []byte) string {
	if len(b) > 24 {
		return fmt.Sprintf("%q..(%d)", b[:20], len(b))
	}
	return fmt.Sprintf("%q", b)
}

// verifyID compares every read API for one committed id with the ledger entry (nil: only integrity and id).
func verifyID(st *store.ImmuStore, id uint64, l *ltx, txh *store.Tx, trunc uint64) string {
	if err := st.ReadTx(id, false, txh); err != nil {
		if errors.Is(err, store.ErrAlreadyClosed) {
			return ""
		}
		return fmt.Sprintf("ReadTx(%d) of a committed transaction: %v", id, err)
	}
	hdr := txh.Header()
	if hdr.ID != id {
		return fmt.Sprintf("ReadTx(%d) returned transaction %d", id, hdr.ID)
	}
	if l == nil {
		return ""
	}
	if d := hdrDiff(hdr, l.hdr); d != "" {
		return fmt.Sprintf("ReadTx(%d): header differs from the acknowledged one in %s", id, d)
	}
	if hdr.Alh() != l.alh {
		return fmt.Sprintf("ReadTx(%d): accumulated hash differs from the acknowledged one", id)
	}
	tes := txh.Entries()
	if len(tes) != len(l.es) {
		return fmt.Sprintf("ReadTx(%d): %d entries, acknowledged %d", id, len(tes), len(l.es))
	}
	for i, te := range tes {
		want := l.es[i]
		if !bytes.Equal(te.Key(), want.Key) {
			return fmt.Sprintf("ReadTx(%d) entry %d: key %s, acknowledged %s", id, i, short(te.Key()), short(want.Key))
		}
		var gotMD []byte
		if te.Metadata() != nil {
			gotMD = te.Metadata().Bytes()
		}
		if !bytes.Equal(gotMD, mdBytes(want)) {
			return fmt.Sprintf("ReadTx(%d) entry %d (%s): metadata %x, acknowledged %x", id, i, short(want.Key), gotMD, mdBytes(want))
		}
		if te.VLen() != len(want.Value) || te.HVal() != sha256.Sum256(want.Value) {
			return fmt.Sprintf("ReadTx(%d) entry %d (%s): value length/hash differ from the acknowledged value (len %d vs %d)", id, i, short(want.Key), te.VLen(), len(want.Value))
		}
		v, err := st.ReadValue(te)
		if err != nil {
			if errors.Is(err, store.ErrAlreadyClosed) {
				return ""
			}
			if id < trunc {
				continue // truncated away: allowed to be absent, never different
			}
			return fmt.Sprintf("ReadValue(tx %d, entry %d %s): %v (acknowledged value %s; truncated up to %d)", id, i, short(want.Key), err, short(want.Value), trunc)
		}
		if !bytes.Equal(v, want.Value) {
			return fmt.Sprintf("ReadValue(tx %d, entry %d %s) = %s, acknowledged %s", id, i, short(want.Key), short(v), short(want.Value))
		}
	}
	h2, err := st.ReadTxHeader(id, false, false)
	if err != nil {
		if errors.Is(err, store.ErrAlreadyClosed) {
			return ""
		}
		return fmt.Sprintf("ReadTxHeader(%d): %v", id, err)
	}
	if d := hdrDiff(h2, l.hdr); d != "" {
		return fmt.Sprintf("ReadTxHeader(%d): differs from the acknowledged header in %s", id, d)
	}
	if id >= trunc {
		exp, err := st.ExportTx(id, false, false, txh)
		if err != nil {
			if errors.Is(err, store.ErrAlreadyClosed) {
				return ""
			}
			return fmt.Sprintf("ExportTx(%d): %v", id, err)
		}
		want, err := expectedExport(l)
		if err != nil {
			return fmt.Sprintf("harness: expected export of %d: %v", id, err)
		}
		if !bytes.Equal(exp, want) {
			return fmt.Sprintf("ExportTx(%d): %d bytes differ from the export of the acknowledged content (%d bytes)", id, len(exp), len(want))
		}
	}
	return ""
}

// proofCheck asks the store for dual proofs between ledger headers: they are built from the store's hash tree, so they
// verify only if leaf i of that tree is the accumulated hash acknowledged for transaction i.
func proofCheck(st *store.ImmuStore, n uint64, get func(uint64) *ltx, rt *rapid.T) string {
	if n < 2 {
		return ""
	}
	pairs := [][2]uint64{{1, n}, {n - 1, n}}
	for i := 0; i < 2; i++ {
		j := uint64(rapid.IntRange(2, int(n)).Draw(rt, "proofTarget"))
		pairs = append(pairs, [2]uint64{uint64(rapid.IntRange(1, int(j)-1).Draw(rt, "proofSource")), j})
	}
	for _, pr := range pairs {
		a, b := get(pr[0]), get(pr[1])
		proof, err := st.DualProof(a.hdr, b.hdr)
		if err != nil {
			if errors.Is(err, store.ErrAlreadyClosed) {
				return ""
			}
			return fmt.Sprintf("DualProof(%d,%d) over acknowledged headers: %v", pr[0], pr[1], err)
		}
		if !store.VerifyDualProof(proof, pr[0], pr[1], a.alh, b.alh) {
			return fmt.Sprintf("DualProof(%d,%d) built by the store does not verify against the acknowledged accumulated hashes (hash tree and history disagree)", pr[0], pr[1])
		}
	}
	return ""
}

// ---------------------------------------------------------------------------
// committers

func (e *env) newAttempt(p plan) *attempt {
	e.mu.Lock()
	defer e.mu.Unlock()
	a := &attempt{seq: len(e.attempts), plan: p, done: make(chan struct{})}
	a.ctx, a.cancel = context.WithCancel(context.Background())
	if p.kind != "with" {
		a.es = finalEntries(p, a.seq, 0, e.cfg.MaxValueLen)
	}
	e.attempts = append(e.attempts, a)
	return a
}

func (e *env) runAttempt(a *attempt, faulted bool) {
	defer close(a.done)
	st := e.st
	p := a.plan
	ctx := a.ctx
	if faulted {
		var cancel context.CancelFunc
		ctx, cancel = context.WithTimeout(ctx, faultedCommitBound)
		defer cancel()
	}
	if p.ctxCancelUs > 0 {
		t := time.AfterFunc(time.Duration(p.ctxCancelUs)*time.Microsecond, a.cancel)
		defer t.Stop()
	}
	var hdr *store.TxHeader
	var err error
	if p.kind == "with" {
		hdr, err = st.CommitWith(ctx, func(txID uint64, idx store.KeyIndex) ([]*store.EntrySpec, []store.Precondition, error) {
			es := finalEntries(p, a.seq, txID, e.cfg.MaxValueLen)
			e.mu.Lock()
			a.es = es
			a.cbID = txID
			a.cbCalls++
			e.mu.Unlock()
			return specsOf(es), presOf(p.pre), nil
		}, !p.async)
		e.finish(a, hdr, err, faulted)
		return
	}
	var tx *store.OngoingTx
	if p.kind == "rw" {
		tx, err = st.NewTx(ctx, store.DefaultTxOptions())
	} else {
		tx, err = st.NewWriteOnlyTx(ctx)
	}
	if err != nil {
		e.finish(a, nil, err, faulted)
		return
	}
	defer tx.Cancel()
	for _, k := range p.reads {
		tx.Get(ctx, k) // outcome irrelevant: it only populates the read set
	}
	for _, en := range a.es {
		if err = tx.Set(en.Key, en.MD(), en.Value); err != nil {
			// a read-write tx may fail to stage a write on its snapshot (C05's business): nothing was submitted for commit
			e.finish(a, nil, fmt.Errorf("%w: Set: %v", errNotSubmitted, err), faulted)
			return
		}
	}
	if p.extra != nil {
		md := store.NewTxMetadata()
		if err = md.WithExtra(p.extra); err != nil {
			e.finish(a, nil, fmt.Errorf("WithExtra: %w", err), faulted)
			return
		}
		tx.WithMetadata(md)
	}
	for _, pc := range presOf(p.pre) {
		if err = tx.AddPrecondition(pc); err != nil {
			e.finish(a, nil, fmt.Errorf("AddPrecondition: %w", err), faulted)
			return
		}
	}
	if p.cancelBefore {
		tx.Cancel()
	}
	if p.async {
		hdr, err = tx.AsyncCommit(ctx)
	} else {
		hdr, err = tx.Commit(ctx)
	}
	e.finish(a, hdr, err, faulted)
}

// finish classifies the outcome of a commit call; an acknowledgement goes to the ledger right away.
func (e *env) finish(a *attempt, hdr *store.TxHeader, err error, faulted bool) {
	e.mu.Lock()
	defer e.mu.Unlock()
	a.err, a.hdr = err, hdr
	p := a.plan
	if hdr != nil {
		// acknowledged (a non-nil error next to a header can only come from the wait for indexing)
		a.status, a.id = stAcked, hdr.ID
		if old := e.ledger[hdr.ID]; old != nil {
			e.bgFailf("transaction id %d was acknowledged to attempt #%d although it already belongs to attempt #%d (acknowledged/observed before): ids are not unique", hdr.ID, a.seq, old.att.seq)
			return
		}
		if p.kind == "with" && (a.cbID != hdr.ID || a.cbCalls != 1) {
			e.bgFailf("CommitWith: callback was given id %d (%d calls) but the acknowledged header has id %d", a.cbID, a.cbCalls, hdr.ID)
			return
		}
		if p.cancelBefore {
			e.bgFailf("attempt #%d: a cancelled OngoingTx was committed as tx %d", a.seq, hdr.ID)
			return
		}
		e.ledger[hdr.ID] = &ltx{id: hdr.ID, hdr: hdr, alh: hdr.Alh(), es: a.es, att: a}
		return
	}
	switch {
	case err == nil:
		e.bgFailf("attempt #%d: commit returned neither header nor error", a.seq)
	case errors.Is(err, errNotSubmitted) && p.kind == "rw":
		a.status = stNoID
	case faulted:
		a.status = stUnknown
	case errors.Is(err, store.ErrPreconditionFailed) && len(p.pre) > 0:
		a.status = stNoID
	case errors.Is(err, store.ErrTxReadConflict) && p.kind == "rw":
		a.status = stNoID
	case p.cancelBefore && errors.Is(err, store.ErrAlreadyClosed):
		a.status = stNoID
	case errors.Is(err, store.ErrMaxActiveTransactionsLimitExceeded):
		a.status = stNoID
	case (p.ctxCancelUs > 0 || a.harnessCx) && (errors.Is(err, context.Canceled) || errors.Is(err, store.ErrAlreadyClosed)):
		a.status = stUnknown
	case errors.Is(err, store.ErrBufferIsFull) && !e.cfg.Synced && e.cfg.ExternalAllow:
		a.status = stUnknown
	case errors.Is(err, watchers.ErrMaxWaitessLimitExceeded):
		a.status = stUnknown
	default:
		a.status = stUnknown
		e.bgFailf("attempt #%d (%s, %d entries): commit failed unexpectedly: %v", a.seq, p.kind, len(a.es), err)
	}
}

// checker runs next to the committers: the committed prefix only grows, and everything acknowledged so far reads back unchanged.
func (e *env) checker(stop, done chan struct{}, seed uint64) {
	defer close(done)
	var lastN uint64
	var lastAlh [sha256.Size]byte
	x := seed | 1
	fail := func(format string, args ...any) {
		e.mu.Lock()
		e.bgFailf("concurrent checker: "+format, args...)
		e.mu.Unlock()
	}
	for i := 0; ; i++ {
		select {
		case <-stop:
			return
		default:
		}
		n, alh := e.st.CommittedAlh()
		if n < lastN {
			fail("CommittedAlh went back from %d to %d", lastN, n)
			return
		}
		if n == lastN && n > 0 && alh != lastAlh {
			fail("CommittedAlh changed its hash at the same id %d", n)
			return
		}
		lastN, lastAlh = n, alh
		if n == 0 {
			runtime.Gosched()
			continue
		}
		x ^= x << 13
		x ^= x >> 7
		x ^= x << 17
		id := 1 + x%n
		if i%3 == 0 {
			id = n - (x>>32)%minU(n, 4)
		}
		e.mu.Lock()
		ln, l, trunc := e.ledger[n], e.ledger[id], e.truncUpto
		e.mu.Unlock()
		if ln != nil && ln.alh != alh {
			fail("CommittedAlh() = (%d, %x..) but the accumulated hash acknowledged for tx %d is %x..", n, alh[:6], n, ln.alh[:6])
			return
		}
		if msg := verifyID(e.st, id, l, e.txh2, trunc); msg != "" {
			fail("%s (committed=%d)", msg, n)
			return
		}
		if i%4 == 0 {
			time.Sleep(20 * time.Microsecond)
		} else {
			runtime.Gosched()
		}
	}
}

func minU(a, b uint64) uint64 {
	if a < b {
		return a
	}
	return b
}

// ---------------------------------------------------------------------------
// oracle after every step

const waitBound = 120 * time.Second

// after an injected storage fault a commit may block for good (e.g. a precondition waiting, with the commit mutex held, for the
// indexing of a transaction that the failed commit left precommitted): such calls are abandoned with an unknown outcome
const faultedCommitBound = 3 * time.Second

// adopt records a committed transaction nobody was acknowledged for: it must be one of the attempts whose outcome is unknown.
func (e *env) adopt(id uint64) {
	if err := e.st.ReadTx(id, false, e.txh); err != nil {
		e.failf("ReadTx(%d) of a committed transaction: %v", id, err)
	}
	hdr := e.txh.Header()
	tes := e.txh.Entries()
	if len(tes) == 0 {
		e.failf("committed tx %d was never acknowledged and has no entries", id)
	}
	v, err := e.st.ReadValue(tes[0])
	if err != nil {
		e.failf("committed tx %d was never acknowledged; reading its first value: %v", id, err)
	}
	seq, ok := parseMarker(v)
	e.mu.Lock()
	if !ok || seq >= len(e.attempts) {
		e.mu.Unlock()
		e.failf("committed tx %d was never acknowledged and its content (first value %s) is not something any commit call asked for", id, short(v))
	}
	a := e.attempts[seq]
	if a.status != stUnknown {
		st, aerr, aid := a.status, a.err, a.id
		e.mu.Unlock()
		e.failf("committed tx %d carries the content of attempt #%d whose commit call ended as %q (id %d, err=%v): a refused/cancelled/already acknowledged commit left a (second) id", id, seq, stName[st], aid, aerr)
	}
	a.status, a.id = stAdopted, id
	e.ledger[id] = &ltx{id: id, hdr: hdr, alh: hdr.Alh(), es: a.es, att: a, adopted: true}
	e.unknownAdopted++
	e.mu.Unlock()
}

func (e *env) checkAll(what string, full bool) {
	e.drainBg()
	st := e.st
	n, calh := st.CommittedAlh()
	if n < e.lastN {
		e.failf("%s: committed id went back from %d to %d", what, e.lastN, n)
	}
	e.lastN = n
	// every committed id is in the ledger, or belongs to an attempt with unknown outcome
	for id := uint64(1); id <= n; id++ {
		e.mu.Lock()
		l := e.ledger[id]
		e.mu.Unlock()
		if l == nil {
			e.adopt(id)
		}
	}
	e.mu.Lock()
	for id := range e.ledger {
		if id > n {
			a := e.ledger[id].att
			e.mu.Unlock()
			e.failf("%s: tx %d was acknowledged to attempt #%d but the store reports only %d committed transactions", what, id, a.seq, n)
		}
	}
	e.mu.Unlock()
	// ledger-internal: chain, binary linking, entries hash
	for id := e.chained + 1; id <= n; id++ {
		l := e.get(id)
		prev := sha256.Sum256(nil)
		if id > 1 {
			prev = e.get(id - 1).alh
		}
		h := l.hdr
		if h.ID != id {
			e.failf("%s: ledger: header of tx %d carries id %d", what, id, h.ID)
		}
		if h.PrevAlh != prev {
			e.failf("%s: tx %d: PrevAlh is not the accumulated hash of tx %d", what, id, id-1)
		}
		if h.BlTxID != id-1 {
			e.failf("%s: tx %d: BlTxID=%d, the hash tree it embeds does not cover all %d earlier transactions", what, id, h.BlTxID, id-1)
		}
		var wantRoot [sha256.Size]byte
		if h.BlTxID > 0 {
			wantRoot = refmodel.MerkleRoot(e.alhs[:h.BlTxID])
		}
		if h.BlRoot != wantRoot {
			e.failf("%s: tx %d: BlRoot is not the reference Merkle root over Alh(1..%d)", what, id, h.BlTxID)
		}
		if h.Version != e.cfg.HdrVersion && !l.adopted {
			e.failf("%s: tx %d: header version %d, configured %d", what, id, h.Version, e.cfg.HdrVersion)
		}
		if h.NEntries != len(l.es) {
			e.failf("%s: tx %d: NEntries=%d, requested %d", what, id, h.NEntries, len(l.es))
		}
		eh, err := refEh(h.Version, l.es)
		if err != nil {
			e.failf("harness: entry digest of tx %d: %v", id, err)
		}
		if h.Eh != eh {
			e.failf("%s: tx %d: Eh of the acknowledged header is not the reference root over the requested entries", what, id)
		}
		if l.alh != h.Alh() {
			e.failf("harness: alh of %d", id)
		}
		e.alhs = append(e.alhs, refmodel.LeafHash(l.alh[:]))
		e.chained = id
	}
	if n > 0 && calh != e.get(n).alh {
		// a transaction may have been committed by the syncer between the two calls: re-read
		n2, calh2 := st.CommittedAlh()
		if n2 == n || e.get(n2) != nil && calh2 != e.get(n2).alh {
			e.failf("%s: CommittedAlh() = (%d, %x..), the accumulated hash of tx %d is %x..", what, n, calh[:6], n, e.get(n).alh[:6])
		}
	}
	// store vs ledger
	ids := make([]uint64, 0, n)
	if full || n <= 24 {
		for id := uint64(1); id <= n; id++ {
			ids = append(ids, id)
		}
	} else {
		ids = append(ids, 1, 2, n, n-1, n-2, n-3)
		for i := 0; i < 10; i++ {
			ids = append(ids, uint64(rapid.IntRange(1, int(n)).Draw(e.rt, "checkId")))
		}
	}
	for _, id := range ids {
		if msg := verifyID(st, id, e.get(id), e.txh, e.truncUpto); msg != "" {
			e.failf("%s: %s", what, msg)
		}
	}
	// the hash tree the store keeps (and answers proofs from) holds exactly the accumulated hashes of the ledger
	if msg := proofCheck(st, n, e.get, e.rt); msg != "" {
		e.failf("%s: %s", what, msg)
	}
	// nothing beyond the committed prefix is visible
	if err := st.ReadTx(n+1, false, e.txh); !errors.Is(err, store.ErrTxNotFound) {
		if st.LastCommittedTxID() <= n {
			e.failf("%s: ReadTx(%d) beyond the committed prefix (%d): err=%v", what, n+1, n, err)
		}
	}
	// a reader over the whole history validates the chain
	if n > 0 {
		from := uint64(1)
		if !full && n > 30 {
			from = uint64(rapid.IntRange(1, int(n)).Draw(e.rt, "readerFrom"))
		}
		r, err := st.NewTxReader(from, false, e.txh)
		if err != nil {
			e.failf("%s: NewTxReader: %v", what, err)
		}
		for id := from; id <= n; id++ {
			tx, err := r.Read()
			if err != nil {
				e.failf("%s: TxReader from %d: reading tx %d of %d: %v", what, from, id, n, err)
			}
			if h := tx.Header(); h.ID != id || h.Alh() != e.get(id).alh {
				e.failf("%s: TxReader from %d: position %d returned tx %d / a different accumulated hash", what, from, id, h.ID)
			}
		}
		r, err = st.NewTxReader(n, true, e.txh)
		if err != nil {
			e.failf("%s: NewTxReader desc: %v", what, err)
		}
		lim := n
		if !full && lim > 12 {
			lim = 12
		}
		for k := uint64(0); k < lim; k++ {
			tx, err := r.Read()
			if err != nil {
				e.failf("%s: descending TxReader from %d: %v", what, n, err)
			}
			if h := tx.Header(); h.ID != n-k || h.Alh() != e.get(n-k).alh {
				e.failf("%s: descending TxReader: expected tx %d got %d / different hash", what, n-k, h.ID)
			}
		}
	}
	e.drainBg()
}

// ---------------------------------------------------------------------------
// generators

var keyPool = [][]byte{[]byte("k0"), []byte("k1"), []byte("k2"), []byte("k3"), []byte("k4"), []byte("k5"), []byte("k6"), []byte("k7")}

func (e *env) genEntries(rt *rapid.T) []stx.Entry {
	n := 1
	switch rapid.IntRange(0, 9).Draw(rt, "nEntriesClass") {
	case 0, 1, 2:
		n = rapid.IntRange(2, 4).Draw(rt, "nEntries")
	case 3:
		hi := e.cfg.MaxTxEntries
		if hi > 24 {
			hi = 24
		}
		n = rapid.IntRange(5, hi).Draw(rt, "nEntriesBig")
	}
	perm := rapid.Permutation([]int{0, 1, 2, 3, 4, 5, 6, 7}).Draw(rt, "keys")
	var es []stx.Entry
	for i := 0; i < n; i++ {
		var k []byte
		switch {
		case i < len(perm):
			k = keyPool[perm[i]]
		default:
			k = []byte(fmt.Sprintf("x%03d", i))
		}
		if i == 1 && rapid.IntRange(0, 5).Draw(rt, "longKey") == 0 {
			k = bytes.Repeat([]byte("L"), e.cfg.MaxKeyLen)
		}
		var v []byte
		switch rapid.IntRange(0, 7).Draw(rt, "vshape") {
		case 0:
			v = []byte{}
		case 1:
			v = bytes.Repeat([]byte{byte('a' + i%26)}, e.cfg.MaxValueLen)
		case 2:
			v = bytes.Repeat([]byte{byte('A' + i%26)}, rapid.IntRange(1, e.cfg.MaxValueLen).Draw(rt, "vlen"))
		default:
			v = []byte(fmt.Sprintf("v%d", rapid.IntRange(0, 999).Draw(rt, "v")))
		}
		en := stx.Entry{Key: k, Value: v}
		if e.cfg.HdrVersion == 1 {
			switch rapid.IntRange(0, 11).Draw(rt, "md") {
			case 0:
				en.Deleted = true
			case 1:
				en.NonIndexable = true
			case 2:
				en.Expire = 2
			}
		}
		es = append(es, en)
	}
	return es
}

func (e *env) genPlan(rt *rapid.T, ext, noPre bool) plan {
	p := plan{kind: "wo"}
	if noPre {
		p.kind = rapid.SampledFrom([]string{"wo", "wo", "with"}).Draw(rt, "kindNoPre")
	} else if !ext {
		p.kind = rapid.SampledFrom([]string{"wo", "wo", "wo", "pre", "pre", "rw", "with", "with"}).Draw(rt, "kind")
	}
	p.async = rapid.Bool().Draw(rt, "async")
	if ext {
		p.async = true // indexing does not advance over precommitted transactions
	}
	p.entries = e.genEntries(rt)
	if e.cfg.HdrVersion == 1 && p.kind != "with" && rapid.IntRange(0, 5).Draw(rt, "txmd") == 0 {
		p.extra = []byte(fmt.Sprintf("x%d", rapid.IntRange(0, 99).Draw(rt, "extra")))
	}
	n := e.lastN
	genPre := func() preSpec {
		ps := preSpec{kind: rapid.IntRange(0, 2).Draw(rt, "preKind"), key: keyPool[rapid.IntRange(0, 7).Draw(rt, "preKey")]}
		if ps.kind == 2 {
			ps.tx = uint64(rapid.IntRange(1, int(n)+2).Draw(rt, "preTx"))
		}
		return ps
	}
	switch p.kind {
	case "pre":
		for i := rapid.IntRange(1, 2).Draw(rt, "nPre"); i > 0; i-- {
			p.pre = append(p.pre, genPre())
		}
	case "with":
		if !noPre && rapid.IntRange(0, 2).Draw(rt, "withPre") == 0 {
			p.pre = append(p.pre, genPre())
		}
	case "rw":
		for i := rapid.IntRange(1, 2).Draw(rt, "nReads"); i > 0; i-- {
			p.reads = append(p.reads, keyPool[rapid.IntRange(0, 7).Draw(rt, "readKey")])
		}
	}
	if p.kind != "with" && !ext {
		switch rapid.IntRange(0, 11).Draw(rt, "cancel") {
		case 0:
			p.cancelBefore = true
		case 1:
			p.ctxCancelUs = rapid.SampledFrom([]int{1, 20, 100, 400, 1500}).Draw(rt, "ctxCancelUs")
		}
	}
	return p
}

func (p plan) String() string {
	s := p.kind
	if p.async {
		s += "a"
	}
	if p.cancelBefore {
		s += "X"
	}
	if p.ctxCancelUs > 0 {
		s += "C"
	}
	return fmt.Sprintf("%s%d", s, len(p.entries))
}

func (e *env) genSchedule(rt *rapid.T) {
	n := rapid.IntRange(0, 40).Draw(rt, "schedLen")
	s := make([]byte, n)
	for i := range s {
		s[i] = byte(rapid.SampledFrom([]int{0, 0, 0, 1, 1, 2, 3, 3, 4}).Draw(rt, "sched"))
	}
	e.sched.Store(&s)
	e.schedAt.Store(0)
}

// ---------------------------------------------------------------------------
// steps

// burst runs k committers (and generated maintenance) concurrently, next to the checker goroutine.
func (e *env) burst(rt *rapid.T) {
	ext := e.cfg.ExternalAllow
	k := rapid.IntRange(1, 6).Draw(rt, "committers")
	if ext && !e.cfg.Synced && vk.Excluded("K02a-buffer-full-wedges-commits") {
		// known finding K02a: the (MaxActiveTransactions+1)-th precommitted-but-not-committed transaction of an unsynced store
		// fails with ErrBufferIsFull and leaves the handle refusing every later commit. The generator stays below the limit.
		free := e.cfg.MaxActiveTx - int(e.st.LastPrecommittedTxID()-e.st.LastCommittedTxID())
		if k > free {
			vk.CountExcluded("K02a-buffer-full-wedges-commits")
			k = free
		}
		if k <= 0 {
			e.c.Descf("B0")
			return
		}
	}
	// An unsynced store that found precommitted transactions in its log at open commits them with the next commit; a commit with
	// preconditions (or a read-write tx) would first wait, holding the commit mutex, for their indexing, which needs them committed:
	// it never returns. That is a liveness matter outside this property: the first burst after such a restart has no preconditions.
	noPre := !ext && !e.cfg.Synced && e.st.LastPrecommittedTxID() > e.st.LastCommittedTxID()
	var as []*attempt
	desc := "B["
	for i := 0; i < k; i++ {
		p := e.genPlan(rt, ext, noPre)
		as = append(as, e.newAttempt(p))
		desc += p.String() + ","
	}
	// maintenance inside the burst
	type maint struct {
		kind string
		arg  uint64
		pct  float32
		sync bool
	}
	var ms []maint
	{
		for i := rapid.IntRange(0, 2).Draw(rt, "maint"); i > 0; i-- {
			m := maint{kind: rapid.SampledFrom([]string{"flush", "flush", "compact", "truncate", "sync"}).Draw(rt, "maintKind")}
			switch m.kind {
			case "flush":
				m.pct = float32(rapid.SampledFrom([]int{0, 0, 50, 100}).Draw(rt, "cleanup"))
				m.sync = rapid.Bool().Draw(rt, "flushSynced")
			case "truncate":
				// with several value logs TruncateUptoTx keeps the ones it already fetched while it waits for the next one and
				// releaseVLog wakes a single waiter whatever it waits for: next to concurrent readers/committers the wake-up can be
				// lost for good (hang). That is a liveness matter of C14; here truncation runs concurrently only with one value log.
				if e.lastN == 0 || (e.cfg.IOConc > 1 && !e.cfg.Embedded && !truncMulti) {
					continue
				}
				if e.st.LastPrecommittedTxID() > e.st.LastCommittedTxID() && vk.Excluded("K02c-truncation-ignores-uncommitted-txs") {
					// known finding K02c: TruncateUptoTx only looks at committed transactions; the value of a precommitted one that was
					// written before the value of the truncation point is deleted although the transaction is committed later
					vk.CountExcluded("K02c-truncation-ignores-uncommitted-txs")
					continue
				}
				m.arg = uint64(rapid.IntRange(1, int(e.lastN)).Draw(rt, "truncUpto"))
				// published before the burst starts: the checker must never export a transaction the truncation may already cover
				e.mu.Lock()
				if m.arg > e.truncUpto {
					e.truncUpto = m.arg
				}
				e.mu.Unlock()
			}
			ms = append(ms, m)
			desc += "+" + m.kind
		}
	}
	// injected storage fault
	var f *faultSpec
	injectOK := true
	if e.lastN == 0 && vk.Excluded("K02b-first-tx-stale-blroot-after-discard") {
		// known finding K02b (second trigger): a restart that finds only an unfinished record of tx 1 in the tx log parses it into a
		// pooled tx holder; the next tx 1 inherits that holder's BlRoot. No fault is injected before the first transaction is committed.
		injectOK = false
	}
	if !ext && rapid.IntRange(0, 4).Draw(rt, "fault") == 0 && (injectOK || !countK02b()) {
		f = &faultSpec{logClass: rapid.SampledFrom([]string{"tx", "tx", "commit", "commit", "val", "aht"}).Draw(rt, "faultLog")}
		if e.cfg.Embedded && f.logClass == "val" {
			f.logClass = "tx"
		}
		f.kind = fsim.Kind(rapid.SampledFrom([]int{0, 0, int(fsim.Append), int(fsim.Flush), int(fsim.Sync), int(fsim.SetOff)}).Draw(rt, "faultKind"))
		f.countdown.Store(int32(rapid.IntRange(1, 14).Draw(rt, "faultAt")))
		f.repeat = int32(rapid.IntRange(1, 3).Draw(rt, "faultRepeat"))
		desc += fmt.Sprintf("!%s%d", f.logClass, f.kind)
	}
	e.genSchedule(rt)
	seed := rapid.Uint64().Draw(rt, "checkerSeed")

	base := e.st.LastPrecommittedTxID()
	tStart := time.Now()
	stop, cdone := make(chan struct{}), make(chan struct{})
	go e.checker(stop, cdone, seed)
	e.perturb.Store(true)
	if f != nil {
		e.fault.Store(f)
		e.faultSinceOpen = true
	}
	var wg sync.WaitGroup
	for _, a := range as {
		wg.Add(1)
		go func(a *attempt) {
			defer wg.Done()
			e.runAttempt(a, f != nil)
		}(a)
	}
	var mwg sync.WaitGroup
	for _, m := range ms {
		mwg.Add(1)
		go func(m maint) {
			defer mwg.Done()
			switch m.kind {
			case "flush":
				if err := e.st.FlushIndexes(m.pct, m.sync); err == nil {
					e.mu.Lock()
					e.flushes++
					e.mu.Unlock()
				}
			case "compact":
				if err := e.st.CompactIndexes(); err == nil {
					e.mu.Lock()
					e.compactions++
					e.mu.Unlock()
				}
			case "sync":
				e.st.Sync()
			case "truncate":
				if err := e.st.TruncateUptoTx(m.arg); err == nil {
					e.mu.Lock()
					e.truncs++
					e.mu.Unlock()
				}
			}
		}(m)
	}

	if !ext {
		wg.Wait()
	} else {
		// every committer either returned or sits precommitted (identified by its content), waiting for the allowance
		deadline := time.Now().Add(waitBound)
		identified := base
		for {
			if p := e.st.LastPrecommittedTxID(); p > identified {
				e.identifyPending(identified, p)
				identified = p
			}
			parked := 0
			for _, a := range as {
				select {
				case <-a.done:
					parked++
				default:
					e.mu.Lock()
					if a.status == stPending && a.id != 0 {
						parked++
					}
					e.mu.Unlock()
				}
			}
			if parked == k {
				break
			}
			if time.Now().After(deadline) {
				e.perturb.Store(false)
				close(stop)
				e.failf("burst of %d committers under external commit allowance: after %v only %d returned or were precommitted (precommitted %d -> %d)", k, waitBound, parked, base, e.st.LastPrecommittedTxID())
			}
			time.Sleep(100 * time.Microsecond)
		}
	}
	mwg.Wait()
	tJoin := time.Now()
	e.perturb.Store(false)
	e.fault.Store(nil)
	close(stop)
	<-cdone

	// outcomes
	e.mu.Lock()
	for _, a := range as {
		switch a.status {
		case stNoID:
			switch {
			case errors.Is(a.err, store.ErrPreconditionFailed):
				e.preFailed++
			case errors.Is(a.err, store.ErrTxReadConflict):
				e.conflicts++
			case a.plan.cancelBefore:
				e.cancelled++
			case errors.Is(a.err, store.ErrMaxActiveTransactionsLimitExceeded):
				e.maxActiveHit++
			}
		case stUnknown:
			if a.plan.ctxCancelUs > 0 {
				e.ctxCancelled++
			}
			if errors.Is(a.err, store.ErrBufferIsFull) {
				e.bufferFull++
			}
		}
		if a.status == stAcked {
			switch a.plan.kind {
			case "pre":
				e.prePassed++
			case "with":
				e.withs++
			case "rw":
				e.rws++
			}
		}
		desc += stName[a.status][:1]
	}
	if k >= 2 {
		e.overlap++
	}
	if f != nil && f.fired.Load() > 0 {
		e.faultsFired++
		desc += "!"
	}
	e.mu.Unlock()
	e.c.Descf("%s]", desc)
	tCheck := time.Now()
	e.checkAll("after burst "+desc, false)
	if timing {
		fmt.Fprintf(os.Stderr, "TIMING burst %s: run %v, check %v sync=%v\n", desc, tJoin.Sub(tStart), time.Since(tCheck), e.cfg.Synced)
	}
	if f != nil {
		// the handle may legitimately be degraded after a storage error: restart it
		e.reopen(rt, true)
	}
}

// identifyPending maps the precommitted ids above the commit frontier to the blocked committers (by content).
func (e *env) identifyPending(base, p uint64) {
	for id := base + 1; id <= p; id++ {
		if _, err := e.st.ExportTx(id, true, false, e.txh); err != nil {
			e.failf("ExportTx(%d, allowPrecommitted) of a precommitted transaction: %v", id, err)
		}
		tes := e.txh.Entries()
		if len(tes) == 0 {
			e.failf("precommitted tx %d has no entries", id)
		}
		v, err := e.st.ReadValue(tes[0])
		if err != nil {
			e.failf("ReadValue of precommitted tx %d: %v", id, err)
		}
		seq, ok := parseMarker(v)
		if !ok || seq >= len(e.attempts) {
			e.failf("precommitted tx %d has content nobody asked for (%s)", id, short(v))
		}
		e.mu.Lock()
		a := e.attempts[seq]
		if a.status == stPending {
			a.id = id
			e.pending[id] = a
		}
		e.mu.Unlock()
	}
}

// cancelPending cancels the blocked committers of ids >= since and waits for them: their outcome is unknown from here on.
func (e *env) cancelPending(since uint64) {
	for id, a := range e.pending {
		if id < since {
			continue
		}
		e.mu.Lock()
		a.harnessCx = true
		e.mu.Unlock()
		a.cancel()
		select {
		case <-a.done:
		case <-time.After(waitBound):
			e.failf("commit call of precommitted tx %d did not return %v after its context was cancelled", id, waitBound)
		}
		delete(e.pending, id)
	}
}

func (e *env) allow(rt *rapid.T) {
	n, p := e.st.LastCommittedTxID(), e.st.LastPrecommittedTxID()
	x := uint64(rapid.IntRange(int(n), int(p)+2).Draw(rt, "allowUpto"))
	if err := e.st.AllowCommitUpto(x); err != nil {
		e.failf("AllowCommitUpto(%d) with committed=%d precommitted=%d: %v", x, n, p, err)
	}
	upto := minU(x, p)
	if e.cfg.Synced && rapid.Bool().Draw(rt, "forceSync") {
		if err := e.st.Sync(); err != nil {
			e.failf("Sync after AllowCommitUpto: %v", err)
		}
	}
	if upto > n {
		ctx, cancel := context.WithTimeout(context.Background(), waitBound)
		err := e.st.WaitForTx(ctx, upto, false)
		cancel()
		if err != nil {
			e.failf("AllowCommitUpto(%d): tx %d not committed within %v: %v", x, upto, waitBound, err)
		}
	}
	for id := n + 1; id <= upto; id++ {
		a := e.pending[id]
		if a == nil {
			continue
		}
		select {
		case <-a.done:
		case <-time.After(waitBound):
			e.failf("tx %d is committed but its commit call did not return within %v", id, waitBound)
		}
		delete(e.pending, id)
		e.mu.Lock()
		if a.status == stAcked && a.id != id {
			e.mu.Unlock()
			e.failf("the commit call whose transaction was precommitted as %d was acknowledged id %d", id, a.id)
		}
		e.mu.Unlock()
	}
	e.c.Descf("A%d/%d/%d", x, n, p)
	e.checkAll(fmt.Sprintf("after AllowCommitUpto(%d) (committed %d, precommitted %d)", x, n, p), false)
}

func (e *env) discard(rt *rapid.T) {
	n, p := e.st.LastCommittedTxID(), e.st.LastPrecommittedTxID()
	lo := int(n) - 1
	if lo < 0 {
		lo = 0
	}
	since := uint64(rapid.IntRange(lo, int(p)+1).Draw(rt, "discardSince"))
	switch mode := rapid.IntRange(0, 3).Draw(rt, "discardMode"); {
	case mode == 0 && n > 0:
		since = n // the last committed transaction: must be refused
	case mode <= 2 && p > n:
		since = uint64(rapid.IntRange(int(n)+1, int(p)).Draw(rt, "discardSinceValid"))
	}
	e.c.Descf("D%d/%d/%d", since, n, p)
	switch {
	case since <= n:
		k, err := e.st.DiscardPrecommittedTxsSince(since)
		if err == nil {
			e.failf("DiscardPrecommittedTxsSince(%d) with %d committed transactions was accepted (discarded %d)", since, n, k)
		}
		if n2, p2 := e.st.LastCommittedTxID(), e.st.LastPrecommittedTxID(); n2 != n || p2 != p {
			e.failf("refused DiscardPrecommittedTxsSince(%d) moved the frontiers from (%d,%d) to (%d,%d)", since, n, p, n2, p2)
		}
		if since > 0 {
			e.refusedCommittedDiscard++
		}
	case since > p:
		k, err := e.st.DiscardPrecommittedTxsSince(since)
		if err != nil || k != 0 {
			e.failf("DiscardPrecommittedTxsSince(%d) beyond precommitted %d: (%d, %v)", since, p, k, err)
		}
	default:
		if since == 1 && vk.Excluded("K02b-first-tx-stale-blroot-after-discard") {
			// known finding K02b: a transaction precommitted under id 1 after everything was discarded carries a stale BlRoot
			vk.CountExcluded("K02b-first-tx-stale-blroot-after-discard")
			if p < 2 {
				e.c.Descf("skipK02b")
				return
			}
			since = 2
		}
		e.cancelPending(since)
		k, err := e.st.DiscardPrecommittedTxsSince(since)
		if err != nil || k != int(p+1-since) {
			e.failf("DiscardPrecommittedTxsSince(%d) with committed=%d precommitted=%d: (%d, %v)", since, n, p, k, err)
		}
		if p2 := e.st.LastPrecommittedTxID(); p2 != since-1 {
			e.failf("after DiscardPrecommittedTxsSince(%d) the last precommitted id is %d", since, p2)
		}
		e.discards++
	}
	e.checkAll(fmt.Sprintf("after DiscardPrecommittedTxsSince(%d) (committed %d, precommitted %d)", since, n, p), false)
}

func countK02b() bool {
	vk.CountExcluded("K02b-first-tx-stale-blroot-after-discard")
	return true
}

func (e *env) reopen(rt *rapid.T, afterFault bool) {
	if e.cfg.ExternalAllow && e.st.LastCommittedTxID() == 0 && e.st.LastPrecommittedTxID() > 0 && vk.Excluded("K02b-first-tx-stale-blroot-after-discard") {
		// known finding K02b (second trigger): precommitted transactions that a restart cannot reload (embedded values) leave their
		// bytes in a pooled tx holder and the next tx 1 inherits a stale BlRoot: tx 1 is committed before the restart
		countK02b()
		if err := e.st.AllowCommitUpto(1); err != nil {
			e.failf("AllowCommitUpto(1): %v", err)
		}
		ctx, cancel := context.WithTimeout(context.Background(), waitBound)
		err := e.st.WaitForTx(ctx, 1, false)
		cancel()
		if err != nil {
			e.failf("AllowCommitUpto(1): not committed within %v: %v", waitBound, err)
		}
		if a := e.pending[1]; a != nil {
			select {
			case <-a.done:
			case <-time.After(waitBound):
				e.failf("tx 1 is committed but its commit call did not return within %v", waitBound)
			}
			delete(e.pending, 1)
		}
	}
	closeFirst := rapid.Bool().Draw(rt, "closeBeforeCancel")
	if len(e.pending) > 0 && closeFirst {
		// the store is closed under the waiting commit calls
		e.mu.Lock()
		for _, a := range e.pending {
			a.harnessCx = true
		}
		e.mu.Unlock()
	} else {
		e.cancelPending(0)
	}
	underCommitters := len(e.pending) > 0
	err := e.st.Close()
	if err != nil && !e.faultSinceOpen && !underCommitters {
		// (closed under waiting commit calls, Close may find a tx holder that a call which just precommitted has not handed back yet)
		e.failf("Close: %v", err)
	}
	e.cancelPending(0)
	// options that may change across a restart
	if rapid.IntRange(0, 3).Draw(rt, "flipSynced") == 0 {
		e.cfg.Synced = !e.cfg.Synced
	}
	e.cfg.TxLogCache = rapid.SampledFrom([]int{1, 2, 10, 1000}).Draw(rt, "txLogCache2")
	if !e.cfg.ExternalAllow || rapid.Bool().Draw(rt, "changeMaxActive") {
		e.cfg.MaxActiveTx = rapid.SampledFrom([]int{4, 16, 1000}).Draw(rt, "maxActiveTx2")
	}
	e.open()
	e.reopens++
	e.c.Descf("O%v", e.cfg.Synced)
	// in external-allowance mode reloaded precommitted transactions stay precommitted; otherwise they get committed
	if !e.cfg.ExternalAllow && e.st.LastPrecommittedTxID() > e.st.LastCommittedTxID() {
		if e.cfg.Synced || rapid.Bool().Draw(rt, "syncAfterOpen") {
			if err := e.st.Sync(); err != nil {
				e.failf("Sync after reopen: %v", err)
			}
		}
	}
	e.checkAll("after reopen", true)
}

// replicate copies the whole committed history into a fresh store with ReplicateTx and compares it with the ledger.
func (e *env) replicate() {
	n := e.lastN // the prefix the ledger was just reconciled with (the syncer may commit more at any time)
	dir := vk.Dir()
	defer os.RemoveAll(dir)
	cfg := e.cfg
	cfg.Synced, cfg.ExternalAllow = false, false
	rst, err := store.Open(dir, cfg.Options().WithMaxConcurrency(4))
	if err != nil {
		e.failf("replica: open: %v", err)
	}
	defer rst.Close()
	for id := uint64(1); id <= n; id++ {
		exp, err := e.st.ExportTx(id, false, false, e.txh)
		if err != nil {
			e.failf("replica: ExportTx(%d): %v", id, err)
		}
		hdr, err := rst.ReplicateTx(context.Background(), exp, false, false)
		if err != nil {
			e.failf("replica: ReplicateTx(%d): %v", id, err)
		}
		if d := hdrDiff(hdr, e.get(id).hdr); d != "" {
			e.failf("replica: ReplicateTx(%d) acknowledged a header that differs from the primary's in %s", id, d)
		}
	}
	rn, ralh := rst.CommittedAlh()
	if rn != n || (n > 0 && ralh != e.get(n).alh) {
		e.failf("replica: state (%d, %x..) differs from the primary's (%d)", rn, ralh[:6], n)
	}
	for id := uint64(1); id <= n; id++ {
		if msg := verifyID(rst, id, e.get(id), e.txh, 0); msg != "" {
			e.failf("replica: %s", msg)
		}
	}
	e.replicated = true
}

var timing = os.Getenv("VERIF_C02_TIMING") != ""

// VERIF_C02_TRUNC_MULTI=1 lets TruncateUptoTx run inside the bursts also with several value logs (used to try fixes of the
// lost wake-up in releaseVLog; off by default, see Assumptions)
var truncMulti = os.Getenv("VERIF_C02_TRUNC_MULTI") != ""

func txLogChunks(dir string) int {
	m, _ := filepath.Glob(filepath.Join(dir, "tx", "*.tx"))
	return len(m)
}

// ---------------------------------------------------------------------------

func runCase(rt *rapid.T, c *vk.Case, ext bool) {
	cfg := stx.GenCfg(rt)
	cfg.Synced = rapid.Bool().Draw(rt, "syncedStore")
	cfg.ExternalAllow = ext
	cfg.Compression = 0
	cfg.FileSize = rapid.SampledFrom([]int{256, 512, 1024, 4096, 1 << 20}).Draw(rt, "txFileSize")
	// the store preallocates MaxConcurrency tx holders of MaxTxEntries*MaxKeyLen bytes at every open: keep them small
	cfg.MaxTxEntries = rapid.SampledFrom([]int{8, 32, 64}).Draw(rt, "maxTxEntries2")
	cfg.MaxKeyLen = rapid.SampledFrom([]int{64, 256}).Draw(rt, "maxKeyLen2")
	e := &env{rt: rt, c: c, cfg: cfg, ledger: map[uint64]*ltx{}}
	e.dir = vk.Dir()
	defer os.RemoveAll(e.dir)
	c.Descf("cfg=%s", cfg)
	e.txh = store.NewTx(cfg.MaxTxEntries, cfg.MaxKeyLen)
	e.txh2 = store.NewTx(cfg.MaxTxEntries, cfg.MaxKeyLen)
	e.open()
	defer func() {
		e.perturb.Store(false)
		for _, a := range e.pending {
			a.cancel()
		}
		e.st.Close()
		for _, a := range e.attempts {
			a.cancel()
		}
	}()
	maxTx, maxSteps := 60, 14
	if vk.Thorough() {
		maxTx, maxSteps = 150, 24
	}
	steps := rapid.IntRange(3, maxSteps).Draw(rt, "steps")
	for s := 0; s < steps; s++ {
		kinds := []string{"burst", "burst", "burst", "burst", "reopen", "maint"}
		if ext {
			kinds = []string{"burst", "burst", "burst", "allow", "allow", "discard", "discard", "reopen"}
		}
		k := rapid.SampledFrom(kinds).Draw(rt, "step")
		if int(e.st.LastPrecommittedTxID()) >= maxTx && k == "burst" {
			k = "reopen"
		}
		t0 := time.Now()
		if timing {
			defer func(k string, s int) {
				if d := time.Since(t0); d > 200*time.Millisecond {
					fmt.Fprintf(os.Stderr, "TIMING step %d %s: %v (cfg %s)\n", s, k, d, e.cfg)
				}
			}(k, s)
		}
		switch k {
		case "burst":
			e.burst(rt)
		case "allow":
			e.allow(rt)
		case "discard":
			e.discard(rt)
		case "reopen":
			e.reopen(rt, false)
		case "maint":
			switch rapid.SampledFrom([]string{"flush", "compact", "truncate", "sync"}).Draw(rt, "maintStep") {
			case "flush":
				if err := e.st.FlushIndexes(float32(rapid.SampledFrom([]int{0, 100}).Draw(rt, "cleanup")), rapid.Bool().Draw(rt, "flushSynced")); err != nil {
					e.failf("FlushIndexes: %v", err)
				}
				e.flushes++
				c.Descf("F")
			case "compact":
				if e.lastN > 0 {
					ctx, cancel := context.WithTimeout(context.Background(), waitBound)
					e.st.WaitForIndexingUpto(ctx, e.lastN)
					cancel()
				}
				if err := e.st.CompactIndexes(); err == nil {
					e.compactions++
				}
				c.Descf("K")
			case "truncate":
				if e.lastN > 0 && e.st.LastPrecommittedTxID() > e.st.LastCommittedTxID() && vk.Excluded("K02c-truncation-ignores-uncommitted-txs") {
					vk.CountExcluded("K02c-truncation-ignores-uncommitted-txs")
				} else if e.lastN > 0 {
					m := uint64(rapid.IntRange(1, int(e.lastN)).Draw(rt, "truncUpto"))
					if m > e.truncUpto {
						e.truncUpto = m
					}
					if err := e.st.TruncateUptoTx(m); err != nil {
						e.failf("TruncateUptoTx(%d): %v", m, err)
					}
					e.truncs++
					c.Descf("T%d", m)
				}
			case "sync":
				if err := e.st.Sync(); err != nil {
					e.failf("Sync: %v", err)
				}
				c.Descf("S")
			}
			e.checkAll("after maintenance", false)
		}
	}
	// settle: in external-allowance mode commit what is still allowed to be committed, then a final full comparison
	if ext && rapid.Bool().Draw(rt, "finalAllow") {
		p := e.st.LastPrecommittedTxID()
		if err := e.st.AllowCommitUpto(p); err != nil {
			e.failf("final AllowCommitUpto(%d): %v", p, err)
		}
		ctx, cancel := context.WithTimeout(context.Background(), waitBound)
		err := e.st.WaitForTx(ctx, p, false)
		cancel()
		if err != nil {
			e.failf("final AllowCommitUpto(%d): not committed: %v", p, err)
		}
		for id, a := range e.pending {
			select {
			case <-a.done:
			case <-time.After(waitBound):
				e.failf("tx %d is committed but its commit call did not return", id)
			}
			delete(e.pending, id)
		}
	}
	e.checkAll("at the end", true)
	if e.truncUpto == 0 && e.lastN > 0 && rapid.IntRange(0, 3).Draw(rt, "replica") == 0 {
		e.replicate()
	}
	if txLogChunks(e.dir) > 1 {
		e.rotated = 1
	}
	midReopens := e.reopens
	e.reopen(rt, false)

	c.Descf("n=%d", e.lastN)
	lab := func(cond bool, l string) {
		if cond {
			c.Label(l)
		}
	}
	lab(e.overlap > 0, "overlapping-committers")
	lab(midReopens > 0, "reopen-mid-history")
	lab(e.rotated > 0, "tx-log-rotated")
	lab(e.discards > 0, "discard-precommitted")
	lab(e.refusedCommittedDiscard > 0, "discard-of-committed-id-refused")
	lab(e.faultsFired > 0, "injected-fault-fired")
	lab(e.unknownAdopted > 0, "unknown-outcome-later-committed")
	lab(e.preFailed > 0, "precondition-failed")
	lab(e.prePassed > 0, "precondition-passed")
	lab(e.conflicts > 0, "read-conflict")
	lab(e.cancelled > 0, "cancelled-before-commit")
	lab(e.ctxCancelled > 0, "context-cancelled-during-commit")
	lab(e.maxActiveHit > 0, "max-active-transactions-hit")
	lab(e.bufferFull > 0, "precommit-buffer-full")
	lab(e.truncs > 0, "truncate")
	lab(e.compactions > 0, "compaction")
	lab(e.flushes > 0, "flush")
	lab(e.withs > 0, "commit-with")
	lab(e.rws > 0, "read-write-tx")
	lab(e.replicated, "replicated-to-second-store")
	lab(cfg.Synced, "synced")
	lab(cfg.Embedded, "embedded-values")
	lab(cfg.Prealloc, "prealloc")
	lab(cfg.HdrVersion == 0, "header-v0")
	lab(e.lastN >= 20, "n>=20")
	if e.overlap > 0 && (midReopens > 0 || e.rotated > 0 || e.discards > 0 || e.faultsFired > 0) {
		c.NonTrivial()
	}
}

func TestHistoryImmutable(t *testing.T) {
	vk.Check(t, 400, 6000, func(rt *rapid.T, c *vk.Case) {
		runCase(rt, c, false)
	})
}

func TestHistoryImmutableExternalAllowance(t *testing.T) {
	vk.Check(t, 280, 5000, func(rt *rapid.T, c *vk.Case) {
		runCase(rt, c, true)
	})
}

// probeK02a (K02a): unsynced store with external commit allowance: the precommit that finds the precommit buffer full fails
// after it appended to the hash tree; from then on every commit on that handle fails with ErrUnexpectedLinkingError,
// also after the allowance emptied the buffer.
func probeK02a() (bool, string) {
	dir := vk.Dir()
	defer os.RemoveAll(dir)
	cfg := stx.Cfg{SyncFreqMs: 1, HdrVersion: 1, IOConc: 1, FileSize: 1 << 20, TxLogCache: 10, MaxActiveTx: 2, MaxKeyLen: 64,
		MaxValueLen: 64, MaxTxEntries: 8, WriteBuf: 4096, BulkSize: 1, FlushThld: 100, SyncThld: 100, IdxCache: 10, CompactionThld: 2, AHTSyncThld: 5,
		MaxBuffered: 1 << 20, ExternalAllow: true}
	st, err := store.Open(dir, cfg.Options())
	if err != nil {
		return false, ""
	}
	defer st.Close()
	var cancels []context.CancelFunc
	defer func() {
		for _, c := range cancels {
			c()
		}
	}()
	start := func(v string) chan error {
		ctx, cancel := context.WithCancel(context.Background())
		cancels = append(cancels, cancel)
		ch := make(chan error, 1)
		go func() {
			tx, err := st.NewWriteOnlyTx(ctx)
			if err != nil {
				ch <- err
				return
			}
			tx.Set([]byte("k"), nil, []byte(v))
			_, err = tx.AsyncCommit(ctx)
			ch <- err
		}()
		return ch
	}
	waitPre := func(id uint64) bool {
		for t0 := time.Now(); st.LastPrecommittedTxID() < id && time.Since(t0) < waitBound; {
			time.Sleep(100 * time.Microsecond)
		}
		return st.LastPrecommittedTxID() >= id
	}
	c1 := start("v1")
	if !waitPre(1) {
		return false, ""
	}
	c2 := start("v2")
	if !waitPre(2) {
		return false, ""
	}
	c3 := start("v3") // third precommitted-but-uncommitted transaction: buffer (MaxActiveTransactions=2) is full
	var err3 error
	select {
	case err3 = <-c3:
	case <-time.After(waitBound):
		return false, ""
	}
	if !errors.Is(err3, store.ErrBufferIsFull) {
		return false, ""
	}
	if err := st.AllowCommitUpto(2); err != nil {
		return false, ""
	}
	if <-c1 != nil || <-c2 != nil {
		return false, ""
	}
	c4 := start("v4") // buffer is empty again
	for t0 := time.Now(); time.Since(t0) < waitBound; {
		select {
		case err4 := <-c4:
			if err4 != nil {
				return true, fmt.Sprintf("unsynced, external allowance, MaxActiveTransactions=2: 3rd pending commit -> %v; AllowCommitUpto(2) committed both, the next commit fails: %v", err3, err4)
			}
			return false, ""
		default:
		}
		if st.LastPrecommittedTxID() >= 3 {
			return false, "" // precommitted, waiting for the allowance: healthy
		}
		time.Sleep(100 * time.Microsecond)
	}
	return false, ""
}

// probeK02b: external commit allowance; tx 1 and tx 2 precommitted, both discarded, a new transaction precommitted under id 1:
// performPrecommit assigns header.BlRoot only when BlTxID > 0, so the pooled tx holder keeps the BlRoot of the discarded tx 2.
// The header of tx 1 (BlTxID 0) then embeds a non-zero BlRoot, and ReplicateTx of that transaction is refused by any replica.
func probeK02b() (bool, string) {
	dir := vk.Dir()
	defer os.RemoveAll(dir)
	cfg := stx.Cfg{SyncFreqMs: 1, HdrVersion: 1, IOConc: 1, FileSize: 1 << 20, TxLogCache: 10, MaxActiveTx: 100, MaxKeyLen: 64,
		MaxValueLen: 64, MaxTxEntries: 8, WriteBuf: 4096, BulkSize: 1, FlushThld: 100, SyncThld: 100, IdxCache: 10, CompactionThld: 2, AHTSyncThld: 5,
		MaxBuffered: 1 << 20, ExternalAllow: true}
	st, err := store.Open(dir, cfg.Options())
	if err != nil {
		return false, ""
	}
	defer st.Close()
	type pend struct {
		cancel context.CancelFunc
		done   chan error
	}
	precommit := func(v string, wantID uint64) *pend {
		ctx, cancel := context.WithCancel(context.Background())
		p := &pend{cancel: cancel, done: make(chan error, 1)}
		go func() {
			tx, err := st.NewWriteOnlyTx(ctx)
			if err != nil {
				p.done <- err
				return
			}
			tx.Set([]byte("k"), nil, []byte(v))
			_, err = tx.AsyncCommit(ctx)
			p.done <- err
		}()
		for t0 := time.Now(); st.LastPrecommittedTxID() < wantID && time.Since(t0) < waitBound; {
			time.Sleep(100 * time.Microsecond)
		}
		return p
	}
	p1 := precommit("a", 1)
	p2 := precommit("b", 2)
	if st.LastPrecommittedTxID() != 2 {
		p1.cancel()
		p2.cancel()
		return false, ""
	}
	p1.cancel()
	p2.cancel()
	<-p1.done
	<-p2.done
	if _, err := st.DiscardPrecommittedTxsSince(1); err != nil {
		return false, ""
	}
	p3 := precommit("c", 1)
	defer p3.cancel()
	hdr, err := st.ReadTxHeader(1, true, false)
	if err != nil {
		return false, ""
	}
	var zero [sha256.Size]byte
	if hdr.BlTxID != 0 || hdr.BlRoot == zero {
		return false, ""
	}
	detail := fmt.Sprintf("precommit tx1,tx2; discard since 1; new tx 1: header has BlTxID=0 but BlRoot=%x..", hdr.BlRoot[:6])
	if err := st.AllowCommitUpto(1); err == nil {
		if err := <-p3.done; err == nil {
			exp, err := st.ExportTx(1, false, false, store.NewTx(8, 64))
			if err == nil {
				rdir := vk.Dir()
				defer os.RemoveAll(rdir)
				cfg.ExternalAllow = false
				if rst, err := store.Open(rdir, cfg.Options()); err == nil {
					_, rerr := rst.ReplicateTx(context.Background(), exp, false, false)
					rst.Close()
					detail += fmt.Sprintf("; ReplicateTx of the committed tx 1 into an empty store: %v", rerr)
				}
			}
		}
	}
	return true, detail
}

// probeK02c: a replica (external commit allowance) receives tx 2 before tx 1: ReplicateTx writes the values of tx 2 into the value
// log, then waits for tx 1, whose values land in the next chunk. With tx 1 committed and tx 2 still only precommitted,
// TruncateUptoTx(1) walks the committed transactions only and discards the chunk that holds the value of tx 2; once tx 2 is
// committed its value cannot be read.
func probeK02c() (bool, string) {
	base := stx.Cfg{SyncFreqMs: 1, HdrVersion: 1, IOConc: 1, FileSize: 4096, TxLogCache: 10, MaxActiveTx: 100, MaxKeyLen: 64,
		MaxValueLen: 4096, MaxTxEntries: 8, WriteBuf: 512, BulkSize: 1, FlushThld: 100, SyncThld: 100, IdxCache: 10, CompactionThld: 2, AHTSyncThld: 5,
		MaxBuffered: 1 << 20}
	pdir := vk.Dir()
	defer os.RemoveAll(pdir)
	pst, err := store.Open(pdir, base.Options().WithMaxConcurrency(4))
	if err != nil {
		return false, ""
	}
	var exps [][]byte
	for i := 0; i < 2; i++ {
		if _, err := stx.Commit(pst, []stx.Entry{{Key: []byte("k"), Value: bytes.Repeat([]byte{byte('a' + i)}, 4096)}}, false); err != nil {
			pst.Close()
			return false, ""
		}
		exp, err := pst.ExportTx(uint64(i+1), false, false, store.NewTx(8, 64))
		if err != nil {
			pst.Close()
			return false, ""
		}
		exps = append(exps, append([]byte(nil), exp...))
	}
	pst.Close()

	rdir := vk.Dir()
	defer os.RemoveAll(rdir)
	rcfg := base
	rcfg.ExternalAllow = true
	fs := fsim.New(rdir)
	rst, err := store.Open(rdir, rcfg.Options().WithMaxConcurrency(4).WithAppFactory(fs.Factory()))
	if err != nil {
		return false, ""
	}
	defer rst.Close()
	ctx, cancel := context.WithCancel(context.Background())
	defer cancel()
	done2 := make(chan error, 1)
	go func() {
		_, err := rst.ReplicateTx(ctx, exps[1], false, false)
		done2 <- err
	}()
	// wait until the value of tx 2 went into the value log
	wrote := false
	for t0 := time.Now(); !wrote && time.Since(t0) < waitBound; {
		for _, ev := range fs.Events() {
			if ev.Log == "val_0" && ev.Kind == fsim.Append && len(ev.Data) == 4096 {
				wrote = true
			}
		}
		time.Sleep(200 * time.Microsecond)
	}
	if !wrote {
		return false, ""
	}
	if _, err := rst.ReplicateTx(ctx, exps[0], false, false); err != nil {
		return false, ""
	}
	if err := <-done2; err != nil {
		return false, ""
	}
	wait := func(id uint64) bool {
		if err := rst.AllowCommitUpto(id); err != nil {
			return false
		}
		c, cancel := context.WithTimeout(context.Background(), waitBound)
		defer cancel()
		return rst.WaitForTx(c, id, false) == nil
	}
	if !wait(1) {
		return false, ""
	}
	if err := rst.TruncateUptoTx(1); err != nil {
		return false, ""
	}
	if !wait(2) {
		return false, ""
	}
	tx := store.NewTx(8, 64)
	if err := rst.ReadTx(2, false, tx); err != nil {
		return true, "ReadTx(2) after the truncation: " + err.Error()
	}
	if _, err := rst.ReadValue(tx.Entries()[0]); err != nil {
		return true, "replica: tx 2 replicated before tx 1 (its 4096-byte value fills value-log chunk 0, tx 1's goes to chunk 1); tx 1 committed, TruncateUptoTx(1), tx 2 committed: ReadValue(tx 2) = " + err.Error()
	}
	return false, ""
}
