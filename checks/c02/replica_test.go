package c02

import (
	"context"
	"errors"
	"fmt"
	"os"
	"strings"
	"sync"
	"testing"
	"time"

	"github.com/codenotary/immudb/embedded/ahtree"
	"github.com/codenotary/immudb/embedded/store"
	"pgregory.net/rapid"

	"verif/internal/fsim"
	"verif/internal/stx"
	"verif/internal/vk"
)

// A replica store (external commit allowance) follows a primary history through concurrent ReplicateTx calls,
// AllowCommitUpto, DiscardPrecommittedTxsSince (re-replication of the same transactions, or of the transactions
// of a second primary that forked from the first one) and restarts. Its committed history must at every moment
// be a prefix of the history of the primary it follows, byte for byte, and must never change.

type source struct {
	name    string
	ledger  []*ltx   // index id-1
	exports [][]byte // index id-1
}

func (s *source) n() uint64 { return uint64(len(s.ledger)) }

// buildPrimary commits the generated transactions (optionally after replicating a prefix of another primary).
func buildPrimary(rt *rapid.T, c *vk.Case, cfg stx.Cfg, name string, base *source, prefix uint64, own int, seq *int) *source {
	dir := vk.Dir()
	defer os.RemoveAll(dir)
	cfg.Synced, cfg.ExternalAllow = false, false
	st, err := store.Open(dir, cfg.Options().WithMaxConcurrency(4))
	if err != nil {
		c.Failf(rt, nil, "primary %s: open: %v", name, err)
	}
	defer st.Close()
	src := &source{name: name}
	for id := uint64(1); id <= prefix; id++ {
		hdr, err := st.ReplicateTx(context.Background(), base.exports[id-1], false, false)
		if err != nil {
			c.Failf(rt, nil, "primary %s: ReplicateTx(%d): %v", name, id, err)
		}
		if d := hdrDiff(hdr, base.ledger[id-1].hdr); d != "" {
			c.Failf(rt, nil, "primary %s: replicated tx %d differs in %s", name, id, d)
		}
		src.ledger = append(src.ledger, base.ledger[id-1])
	}
	e := &env{cfg: cfg}
	for i := 0; i < own; i++ {
		p := plan{kind: "wo", async: true, entries: e.genEntries(rt)}
		es := finalEntries(p, *seq, 0, cfg.MaxValueLen)
		*seq++
		hdr, err := stx.Commit(st, es, false)
		if err != nil {
			c.Failf(rt, nil, "primary %s: commit: %v", name, err)
		}
		src.ledger = append(src.ledger, &ltx{id: hdr.ID, hdr: hdr, alh: hdr.Alh(), es: es})
	}
	txh := store.NewTx(cfg.MaxTxEntries, cfg.MaxKeyLen)
	for id := uint64(1); id <= src.n(); id++ {
		exp, err := st.ExportTx(id, false, false, txh)
		if err != nil {
			c.Failf(rt, nil, "primary %s: ExportTx(%d): %v", name, id, err)
		}
		src.exports = append(src.exports, append([]byte(nil), exp...))
	}
	return src
}

type renv struct {
	rt  *rapid.T
	c   *vk.Case
	cfg stx.Cfg
	dir string
	st  *store.ImmuStore
	y   *env // only its yield hook / schedule
	txh *store.Tx

	p1, p2 *source
	fork   uint64 // common prefix of p1 and p2 (0: no second primary)
	cur    *source
	lastN  uint64

	overlap, discards, reopens, switched, bufferFull, maxActive, dupRefused, outOfOrder int
	staleOrder                                                                          bool
}

func (r *renv) failf(format string, args ...any) {
	r.c.Failf(r.rt, map[string]any{"cfg": r.cfg.String()}, format, args...)
}

func (r *renv) open() {
	fs := fsim.New(r.dir)
	fs.Yield = r.y.yield
	st, err := store.Open(r.dir, r.cfg.Options().WithMaxConcurrency(12).WithAppFactory(fs.Factory()))
	if err != nil {
		r.failf("replica: open: %v", err)
	}
	r.st = st
	r.staleOrder = false
}

func (r *renv) want(id uint64) *ltx {
	if id <= r.fork || r.cur == r.p1 {
		return r.p1.ledger[id-1]
	}
	return r.cur.ledger[id-1]
}

// limit is the highest id the harness may allow: before the switch to the second primary only the common prefix.
func (r *renv) allowLimit() uint64 {
	if r.p2 != nil && r.cur == r.p1 {
		return r.fork
	}
	return r.cur.n()
}

func (r *renv) check(what string, full bool) {
	st := r.st
	n, alh := st.CommittedAlh()
	if n < r.lastN {
		r.failf("%s: committed id went back from %d to %d", what, r.lastN, n)
	}
	r.lastN = n
	if n > r.cur.n() {
		r.failf("%s: replica has %d committed transactions, the primary it follows only %d", what, n, r.cur.n())
	}
	if n > 0 && alh != r.want(n).alh {
		r.failf("%s: replica state (%d, %x..) is not the primary's accumulated hash of tx %d", what, n, alh[:6], n)
	}
	lo := uint64(1)
	if !full && n > 16 {
		lo = n - 16
	}
	for id := lo; id <= n; id++ {
		if msg := verifyID(st, id, r.want(id), r.txh, 0); msg != "" {
			r.failf("%s: replica: %s", what, msg)
		}
	}
	if err := st.ReadTx(n+1, false, r.txh); !errors.Is(err, store.ErrTxNotFound) && st.LastCommittedTxID() <= n {
		r.failf("%s: replica: ReadTx(%d) beyond the committed prefix (%d): err=%v", what, n+1, n, err)
	}
	if msg := proofCheck(st, n, r.want, r.rt); msg != "" {
		r.failf("%s: replica: %s", what, msg)
	}
	if n > 0 {
		rd, err := st.NewTxReader(1, false, r.txh)
		if err != nil {
			r.failf("%s: NewTxReader: %v", what, err)
		}
		for id := uint64(1); id <= n; id++ {
			tx, err := rd.Read()
			if err != nil {
				r.failf("%s: replica: TxReader at %d of %d: %v", what, id, n, err)
			}
			if h := tx.Header(); h.ID != id || h.Alh() != r.want(id).alh {
				r.failf("%s: replica: TxReader position %d returned tx %d / a different accumulated hash", what, id, h.ID)
			}
		}
	}
	// the precommitted tail is what the followed primary has under those ids
	p := st.LastPrecommittedTxID()
	for id := n + 1; id <= p && id <= r.cur.n(); id++ {
		h, err := st.ReadTxHeader(id, true, false)
		if err != nil {
			r.failf("%s: replica: ReadTxHeader(%d, allowPrecommitted): %v", what, id, err)
		}
		if d := hdrDiff(h, r.want(id).hdr); d != "" {
			r.failf("%s: replica: precommitted tx %d differs from the primary's in %s", what, id, d)
		}
	}
}

// replicate starts k concurrent ReplicateTx calls for the next ids of the followed primary.
func (r *renv) replicate(rt *rapid.T) {
	p := r.st.LastPrecommittedTxID()
	room := int(r.cur.n() - p)
	if room <= 0 {
		r.c.Descf("R0")
		return
	}
	k := rapid.IntRange(1, 6).Draw(rt, "replicas")
	if k > room {
		k = room
	}
	dup := uint64(0)
	if p > 0 && rapid.IntRange(0, 3).Draw(rt, "dup") == 0 {
		dup = uint64(rapid.IntRange(1, int(p)).Draw(rt, "dupId"))
	}
	r.y.genSchedule(rt)
	r.y.perturb.Store(true)
	type res struct {
		hdr *store.TxHeader
		err error
	}
	results := make([]res, k)
	ctxs := make([]context.CancelFunc, k)
	dones := make([]chan struct{}, k)
	for i := 0; i < k; i++ {
		ctx, cancel := context.WithCancel(context.Background())
		ctxs[i] = cancel
		dones[i] = make(chan struct{})
		go func(i int, ctx context.Context) {
			defer close(dones[i])
			id := p + 1 + uint64(i)
			results[i].hdr, results[i].err = r.st.ReplicateTx(ctx, r.cur.exports[id-1], false, false)
		}(i, ctx)
	}
	var dupErr error
	var dwg sync.WaitGroup
	if dup > 0 {
		dwg.Add(1)
		go func() {
			defer dwg.Done()
			_, dupErr = r.st.ReplicateTx(context.Background(), r.cur.exports[dup-1], false, false)
		}()
	}
	// a call whose predecessor failed waits for it for ever: cancel the calls above the first failure
	deadline := time.Now().Add(waitBound)
	for i := 0; i < k; i++ {
		select {
		case <-dones[i]:
		case <-time.After(time.Until(deadline)):
			r.y.perturb.Store(false)
			r.failf("ReplicateTx(%d) did not return within %v", p+1+uint64(i), waitBound)
		}
		if results[i].err != nil {
			for j := i + 1; j < k; j++ {
				ctxs[j]()
			}
		}
	}
	dwg.Wait()
	r.y.perturb.Store(false)
	for _, c := range ctxs {
		c()
	}
	ok := 0
	failed := false
	desc := fmt.Sprintf("R%d[", k)
	for i := 0; i < k; i++ {
		id := p + 1 + uint64(i)
		err := results[i].err
		switch {
		case err == nil && !failed:
			ok++
			desc += "p"
			if d := hdrDiff(results[i].hdr, r.want(id).hdr); d != "" {
				r.failf("ReplicateTx(%d) returned a header that differs from the primary's in %s", id, d)
			}
		case err == nil:
			r.failf("ReplicateTx(%d) succeeded although ReplicateTx of an earlier id failed in the same burst", id)
		case failed && errors.Is(err, context.Canceled):
			desc += "c"
		case errors.Is(err, store.ErrBufferIsFull) && !r.cfg.Synced:
			r.bufferFull++
			failed = true
			desc += "f"
		case errors.Is(err, store.ErrMaxActiveTransactionsLimitExceeded):
			r.maxActive++
			failed = true
			desc += "m"
		case r.staleOrder && i > 0 && (errors.Is(err, ahtree.ErrUnexistentData) || errors.Is(err, store.ErrUnexpectedError) || strings.Contains(err.Error(), "invalid blRoot")):
			// DiscardPrecommittedTxsSince does not take back the in-memory precommit watermark ReplicateTx waits on: until the
			// next restart a call may run before its predecessor is precommitted; it then checks its BlRoot against a hash tree
			// that does not hold the predecessor yet (or still holds a discarded leaf) and is refused, to be retried
			r.outOfOrder++
			failed = true
			desc += "o"
		default:
			r.failf("ReplicateTx(%d) on the replica (committed %d, precommitted %d): %v", id, r.st.LastCommittedTxID(), p, err)
		}
	}
	if dup > 0 {
		if !errors.Is(dupErr, store.ErrTxAlreadyCommitted) {
			r.failf("ReplicateTx of the already precommitted tx %d: err=%v", dup, dupErr)
		}
		r.dupRefused++
		desc += "+dup"
	}
	if got := r.st.LastPrecommittedTxID(); got != p+uint64(ok) {
		r.failf("after %s] the replica has %d precommitted transactions, expected %d", desc, got, p+uint64(ok))
	}
	if k >= 2 {
		r.overlap++
	}
	r.c.Descf("%s]", desc)
	r.check("after "+desc+"]", false)
}

func (r *renv) allow(rt *rapid.T) {
	n, p := r.st.LastCommittedTxID(), r.st.LastPrecommittedTxID()
	lim := minU(p, r.allowLimit())
	if lim <= n {
		r.c.Descf("A-")
		return
	}
	x := uint64(rapid.IntRange(int(n)+1, int(lim)).Draw(rt, "allowUpto"))
	if err := r.st.AllowCommitUpto(x); err != nil {
		r.failf("AllowCommitUpto(%d): %v", x, err)
	}
	ctx, cancel := context.WithTimeout(context.Background(), waitBound)
	err := r.st.WaitForTx(ctx, x, false)
	cancel()
	if err != nil {
		r.failf("AllowCommitUpto(%d): not committed within %v: %v", x, waitBound, err)
	}
	r.c.Descf("A%d", x)
	r.check(fmt.Sprintf("after AllowCommitUpto(%d)", x), false)
}

func (r *renv) discard(rt *rapid.T, since uint64) {
	n, p := r.st.LastCommittedTxID(), r.st.LastPrecommittedTxID()
	if since == 0 {
		if p <= n {
			// also the refusal of a committed id
			if n > 0 {
				if k, err := r.st.DiscardPrecommittedTxsSince(n); err == nil {
					r.failf("DiscardPrecommittedTxsSince(%d) of a committed id accepted (%d)", n, k)
				}
				r.check("after refused discard", false)
			}
			r.c.Descf("D-")
			return
		}
		since = uint64(rapid.IntRange(int(n)+1, int(p)).Draw(rt, "discardSince"))
	}
	if since == 1 && vk.Excluded("K02b-first-tx-stale-blroot-after-discard") {
		// known finding K02b: a transaction precommitted under id 1 after everything was discarded gets a stale BlRoot
		// (on a replica: a header, hence an accumulated hash, that differs from the primary's)
		vk.CountExcluded("K02b-first-tx-stale-blroot-after-discard")
		if p < 2 {
			r.c.Descf("skipK02b")
			return
		}
		since = 2
	}
	k, err := r.st.DiscardPrecommittedTxsSince(since)
	if err != nil || k != int(p+1-since) {
		r.failf("DiscardPrecommittedTxsSince(%d) with committed=%d precommitted=%d: (%d, %v)", since, n, p, k, err)
	}
	r.discards++
	r.staleOrder = true
	r.c.Descf("D%d", since)
	r.check(fmt.Sprintf("after DiscardPrecommittedTxsSince(%d)", since), false)
}

// rediscard does what the replicator does after a restart: precommitted transactions found in the log that are not the
// followed primary's are discarded again (the store documents that discarding may have to be redone after reopening).
func (r *renv) rediscard() {
	n, p := r.st.LastCommittedTxID(), r.st.LastPrecommittedTxID()
	for id := n + 1; id <= p; id++ {
		diverged := id > r.cur.n()
		if !diverged {
			h, err := r.st.ReadTxHeader(id, true, false)
			if err != nil {
				r.failf("after reopen: ReadTxHeader(%d, allowPrecommitted): %v", id, err)
			}
			diverged = h.Alh() != r.want(id).alh
		}
		if diverged {
			if _, err := r.st.DiscardPrecommittedTxsSince(id); err != nil {
				r.failf("after reopen: DiscardPrecommittedTxsSince(%d): %v", id, err)
			}
			r.staleOrder = true
			return
		}
	}
}

func (r *renv) reopen(rt *rapid.T) {
	if r.st.LastCommittedTxID() == 0 && r.st.LastPrecommittedTxID() > 0 && vk.Excluded("K02b-first-tx-stale-blroot-after-discard") {
		// known finding K02b (second trigger, see TestHistoryImmutableExternalAllowance): tx 1 is committed before the restart
		countK02b()
		if r.allowLimit() == 0 {
			r.c.Descf("skipK02b")
			return
		}
		if err := r.st.AllowCommitUpto(1); err != nil {
			r.failf("AllowCommitUpto(1): %v", err)
		}
		ctx, cancel := context.WithTimeout(context.Background(), waitBound)
		err := r.st.WaitForTx(ctx, 1, false)
		cancel()
		if err != nil {
			r.failf("AllowCommitUpto(1): not committed within %v: %v", waitBound, err)
		}
	}
	if err := r.st.Close(); err != nil {
		r.failf("replica: Close: %v", err)
	}
	if rapid.IntRange(0, 3).Draw(rt, "flipSynced") == 0 {
		r.cfg.Synced = !r.cfg.Synced
	}
	r.cfg.TxLogCache = rapid.SampledFrom([]int{1, 2, 10, 1000}).Draw(rt, "txLogCache2")
	r.open()
	r.reopens++
	r.rediscard()
	r.c.Descf("O%v", r.cfg.Synced)
	r.check("after reopen", true)
}

func TestReplicaFollowsPrimary(t *testing.T) {
	vk.Check(t, 240, 5000, func(rt *rapid.T, c *vk.Case) {
		cfg := stx.GenCfg(rt)
		cfg.Compression = 0
		cfg.MaxTxEntries = rapid.SampledFrom([]int{8, 32}).Draw(rt, "maxTxEntries2")
		cfg.MaxKeyLen = rapid.SampledFrom([]int{64, 256}).Draw(rt, "maxKeyLen2")
		seq := 0
		n1 := rapid.IntRange(4, 28).Draw(rt, "n1")
		p1 := buildPrimary(rt, c, cfg, "P1", nil, 0, n1, &seq)
		r := &renv{rt: rt, c: c, p1: p1, cur: p1}
		if rapid.Bool().Draw(rt, "fork") {
			r.fork = uint64(rapid.IntRange(0, n1-1).Draw(rt, "forkAt"))
			if r.fork == 0 && vk.Excluded("K02b-first-tx-stale-blroot-after-discard") {
				vk.CountExcluded("K02b-first-tx-stale-blroot-after-discard")
				r.fork = 1 // switching at 0 discards everything and re-replicates tx 1
			}
			r.p2 = buildPrimary(rt, c, cfg, "P2", p1, r.fork, rapid.IntRange(1, 12).Draw(rt, "n2"), &seq)
		}
		rcfg := cfg
		rcfg.ExternalAllow = true
		rcfg.Synced = rapid.Bool().Draw(rt, "replicaSynced")
		rcfg.MaxActiveTx = rapid.SampledFrom([]int{4, 4, 16, 1000}).Draw(rt, "replicaMaxActive")
		rcfg.FileSize = rapid.SampledFrom([]int{256, 1024, 4096, 1 << 20}).Draw(rt, "replicaFileSize")
		rcfg.TxLogCache = rapid.SampledFrom([]int{1, 2, 10, 1000}).Draw(rt, "replicaTxLogCache")
		r.cfg = rcfg
		r.y = &env{}
		r.dir = vk.Dir()
		defer os.RemoveAll(r.dir)
		r.txh = store.NewTx(cfg.MaxTxEntries, cfg.MaxKeyLen)
		c.Descf("replica cfg=%s n1=%d fork=%v@%d", rcfg, n1, r.p2 != nil, r.fork)
		r.open()
		defer func() {
			r.y.perturb.Store(false)
			r.st.Close()
		}()
		steps := rapid.IntRange(4, 16).Draw(rt, "steps")
		for s := 0; s < steps; s++ {
			switch rapid.SampledFrom([]string{"rep", "rep", "rep", "allow", "allow", "discard", "reopen", "switch"}).Draw(rt, "step") {
			case "rep":
				r.replicate(rt)
			case "allow":
				r.allow(rt)
			case "discard":
				r.discard(rt, 0)
			case "reopen":
				r.reopen(rt)
			case "switch":
				if r.p2 != nil && r.cur == r.p1 && r.st.LastCommittedTxID() <= r.fork {
					if r.st.LastPrecommittedTxID() > r.fork {
						r.discard(rt, r.fork+1)
					}
					r.cur = r.p2
					r.switched++
					c.Descf("X")
					r.check("after switching to the second primary", false)
				}
			}
		}
		// catch up with the followed primary completely
		for guard := 0; r.st.LastCommittedTxID() < r.allowLimit() && guard < 200; guard++ {
			if r.st.LastPrecommittedTxID() < r.cur.n() {
				r.replicate(rt)
			}
			if p := minU(r.st.LastPrecommittedTxID(), r.allowLimit()); p > r.st.LastCommittedTxID() {
				if err := r.st.AllowCommitUpto(p); err != nil {
					r.failf("final AllowCommitUpto(%d): %v", p, err)
				}
				ctx, cancel := context.WithTimeout(context.Background(), waitBound)
				err := r.st.WaitForTx(ctx, p, false)
				cancel()
				if err != nil {
					r.failf("final AllowCommitUpto(%d): not committed: %v", p, err)
				}
			}
		}
		if got, want := r.st.LastCommittedTxID(), r.allowLimit(); got != want {
			r.failf("replica could not catch up with primary %s: committed %d of %d", r.cur.name, got, want)
		}
		r.check("at the end", true)
		r.reopen(rt)
		lab := func(cond bool, l string) {
			if cond {
				c.Label(l)
			}
		}
		lab(r.overlap > 0, "overlapping-replicate-calls")
		lab(r.discards > 0, "discard-precommitted")
		lab(r.switched > 0, "switched-to-forked-primary")
		lab(r.reopens > 1, "reopen-mid-history")
		lab(r.bufferFull > 0, "precommit-buffer-full")
		lab(r.maxActive > 0, "max-active-transactions-hit")
		lab(r.dupRefused > 0, "duplicate-replication-refused")
		lab(r.outOfOrder > 0, "out-of-order-refused-after-discard")
		lab(txLogChunks(r.dir) > 1, "tx-log-rotated")
		lab(rcfg.Synced, "synced")
		lab(cfg.Embedded, "embedded-values")
		c.Descf("n=%d", r.lastN)
		if r.overlap > 0 && (r.discards > 0 || r.reopens > 1 || txLogChunks(r.dir) > 1) {
			c.NonTrivial()
		}
	})
}
