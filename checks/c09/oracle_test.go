package c09

// The oracle: every integrity-checked read of an altered copy either fails or
// returns exactly the pristine content; nothing panics; everything returns.

import (
	"bytes"
	"context"
	"encoding/binary"
	"errors"
	"fmt"
	"os"
	"path/filepath"
	"reflect"
	"runtime"
	"runtime/debug"
	"strings"
	"time"

	"github.com/codenotary/immudb/embedded/store"

	"verif/internal/vk"
)

const (
	kfK4 = "K4-vlen-zero-served-as-empty-value"
	kfF4 = "F4-txmetadata-extra-len-panics-tx-read"
	kfF2 = "F2-exporttx-partial-truncation-keeps-lock"
	kfK9 = "K9-record-substitution-not-detected-by-direct-reads"
	kfK10 = "K10-vlog-id-beyond-value-logs-nil-deref"
)

// liveness bounds: a case normally takes 10-100 ms; the bounds only guard the "bounded time" clause and must
// not fire because the machine is oversubscribed
const (
	caseBound  = 600 * time.Second
	indexBound = 300 * time.Second
)

// storeStacks: the goroutines that are inside immudb or the harness (for the report of a hang).
func storeStacks() string {
	buf := make([]byte, 8<<20)
	buf = buf[:runtime.Stack(buf, true)]
	var out []string
	for _, g := range strings.Split(string(buf), "\n\n") {
		if strings.Contains(g, "codenotary/immudb") || strings.Contains(g, "checks/c09") {
			out = append(out, firstLines(g, 24))
		}
		if len(out) >= 30 {
			break
		}
	}
	return strings.Join(out, "\n\n")
}

// result of one altered copy
type result struct {
	violation string
	opened    bool
	errs      map[string]int // read path -> calls that returned an error
	oks       map[string]int // read path -> calls that returned the pristine content
	notes     map[string]bool
	indexedTo uint64
	log       []string
}

func (r *result) fail(format string, args ...any) {
	if r.violation == "" {
		r.violation = fmt.Sprintf(format, args...)
	}
}

type checker struct {
	p   *pristine
	st  *store.ImmuStore
	lg  *clogger
	res *result
	alt *alteration
	// substituted: direct reads of tx `tx` may return exactly the content of tx `by` (known finding K9, only when excluded)
	subst map[uint64]uint64
	noExp bool // ExportTx no longer usable on this handle (known finding F2)
	payloads map[string][]byte
	sfx      string // "@rebuilt-index" while the rebuilt index is read
}

// guard runs f, turning a panic into a violation.
func (c *checker) guard(path string, f func()) {
	defer func() {
		if r := recover(); r != nil {
			c.res.fail("panic in %s: %v\n%s", path, r, firstLines(string(debug.Stack()), 30))
		}
	}()
	f()
}

func firstLines(s string, n int) string {
	ls := strings.Split(s, "\n")
	if len(ls) > n {
		ls = ls[:n]
	}
	return strings.Join(ls, "\n")
}

func (c *checker) ok(path string)  { c.res.oks[path+c.sfx]++ }
func (c *checker) err(path string) { c.res.errs[path+c.sfx]++ }

func hdrDiff(got *store.TxHeader, want *pTx) string {
	w := want.hdr
	switch {
	case got == nil:
		return "nil header"
	case got.ID != w.ID:
		return fmt.Sprintf("ID %d want %d", got.ID, w.ID)
	case got.Ts != w.Ts:
		return fmt.Sprintf("Ts %d want %d", got.Ts, w.Ts)
	case got.BlTxID != w.BlTxID:
		return fmt.Sprintf("BlTxID %d want %d", got.BlTxID, w.BlTxID)
	case got.BlRoot != w.BlRoot:
		return "BlRoot differs"
	case got.PrevAlh != w.PrevAlh:
		return "PrevAlh differs"
	case got.Version != w.Version:
		return fmt.Sprintf("Version %d want %d", got.Version, w.Version)
	case !bytes.Equal(txmdBytes(got.Metadata), want.txmd):
		return fmt.Sprintf("tx metadata %x want %x", txmdBytes(got.Metadata), want.txmd)
	case got.NEntries != w.NEntries:
		return fmt.Sprintf("NEntries %d want %d", got.NEntries, w.NEntries)
	case got.Eh != w.Eh:
		return "Eh differs"
	case got.Alh() != want.alh:
		return "Alh differs"
	}
	return ""
}

func entDiff(e *store.TxEntry, w *pEnt) string {
	switch {
	case e == nil:
		return "nil entry"
	case !bytes.Equal(e.Key(), w.key):
		return fmt.Sprintf("key %q want %q", trunc(e.Key()), trunc(w.key))
	case !bytes.Equal(mdBytes(e.Metadata()), w.md):
		return fmt.Sprintf("kv metadata %x want %x", mdBytes(e.Metadata()), w.md)
	case e.HVal() != w.hVal:
		return "hVal differs"
	}
	return ""
}

// want returns the pristine tx a direct read of id must equal (K9 tolerance: the substituted one).
func (c *checker) want(id uint64) *pTx {
	if by, ok := c.subst[id]; ok {
		return c.p.txs[by-1]
	}
	return c.p.txs[id-1]
}

func (c *checker) readValue(path string, id uint64, j int, e *store.TxEntry, w *pEnt) {
	if c.hazardous(e.VLen(), e.VOff()) {
		c.res.notes["value-read-skipped-huge-allocation"] = true
		return
	}
	c.guard(path, func() {
		v, err := c.st.ReadValue(e)
		if err != nil {
			c.err(path)
			return
		}
		if w.exp == 1 {
			c.res.fail("%s tx %d/%d: the entry expired in 2001, a value was returned", path, id, j)
			return
		}
		if !bytes.Equal(v, w.value) {
			c.res.fail("%s tx %d entry %d (key %q) returned %d bytes %q as a valid value; committed value: %d bytes %q (entry vLen=%d vOff=%x)",
				path, id, j, trunc(w.key), len(v), trunc(v), len(w.value), trunc(w.value), e.VLen(), e.VOff())
			return
		}
		c.ok(path)
	})
}

func (c *checker) checkTx(holder *store.Tx, id uint64) {
	p, st := c.p, c.st
	w := c.want(id)
	// ReadTx with integrity checks
	c.guard("ReadTx", func() {
		if err := st.ReadTx(id, false, holder); err != nil {
			c.err("ReadTx")
			return
		}
		h := holder.Header()
		if d := hdrDiff(h, w); d != "" {
			c.res.fail("ReadTx(%d, integrity checks on) succeeded with a different header: %s", id, d)
			return
		}
		es := holder.Entries()
		if len(es) != len(w.entries) {
			c.res.fail("ReadTx(%d) returned %d entries, committed %d", id, len(es), len(w.entries))
			return
		}
		for j, e := range es {
			if d := entDiff(e, &w.entries[j]); d != "" {
				c.res.fail("ReadTx(%d, integrity checks on) succeeded with a different entry %d: %s", id, j, d)
				return
			}
		}
		c.ok("ReadTx")
		for j, e := range es {
			c.readValue("ReadTx+ReadValue", id, j, e, &w.entries[j])
		}
	})
	c.guard("ReadTxHeader", func() {
		h, err := st.ReadTxHeader(id, false, false)
		if err != nil {
			c.err("ReadTxHeader")
			return
		}
		if d := hdrDiff(h, w); d != "" {
			c.res.fail("ReadTxHeader(%d, integrity checks on) succeeded with a different header: %s", id, d)
			return
		}
		c.ok("ReadTxHeader")
	})
	for j := range w.entries {
		we := &w.entries[j]
		c.guard("ReadTxEntry", func() {
			e, h, err := st.ReadTxEntry(id, we.key, false)
			if err != nil {
				c.err("ReadTxEntry")
				return
			}
			if d := hdrDiff(h, w); d != "" {
				c.res.fail("ReadTxEntry(%d,%q) succeeded with a different header: %s", id, trunc(we.key), d)
				return
			}
			if d := entDiff(e, we); d != "" {
				c.res.fail("ReadTxEntry(%d,%q) succeeded with a different entry: %s", id, trunc(we.key), d)
				return
			}
			c.ok("ReadTxEntry")
			c.readValue("ReadTxEntry+ReadValue", id, j, e, we)
		})
	}
	if _, sub := c.subst[id]; !sub {
		// a key the tx never held must not be found
		c.guard("ReadTxEntry", func() {
			if e, _, err := st.ReadTxEntry(id, []byte("~never-written~"), false); err == nil {
				c.res.fail("ReadTxEntry(%d, a key that was never written) returned an entry with key %q", id, trunc(e.Key()))
			}
		})
	}
	_ = p
	c.export(holder, id, w)
}

// digestOnly builds the export of a tx whose values are not available (what ExportTx emits for truncated values).
func digestOnly(w *pTx) []byte {
	hl := int(binary.BigEndian.Uint32(w.export))
	out := append([]byte(nil), w.export[:4+hl]...)
	for _, e := range w.entries {
		out = append(out, bePut(2, uint64(len(e.key)))...)
		out = append(out, e.key...)
		out = append(out, bePut(2, uint64(len(e.md)))...)
		out = append(out, e.md...)
		out = append(out, bePut(4, 32)...)
		out = append(out, e.hVal[:]...)
	}
	return append(out, 0, 1, 1)
}

func (c *checker) export(holder *store.Tx, id uint64, w *pTx) {
	if c.noExp {
		vk.CountExcluded(kfF2)
		return
	}
	// the read inside ExportTx allocates whatever the record says: look first (integrity checks off, not asserted)
	huge := false
	c.guard("ReadTx(skipIntegrityCheck)", func() {
		if err := c.st.ReadTx(id, true, holder); err != nil {
			return
		}
		for _, e := range holder.Entries() {
			if c.hazardous(e.VLen(), e.VOff()) {
				huge = true
			}
		}
	})
	if huge {
		c.res.notes["export-skipped-huge-allocation"] = true
		return
	}
	c.guard("ExportTx", func() {
		ex, err := c.st.ExportTx(id, false, false, holder)
		if err != nil {
			c.err("ExportTx")
			if strings.Contains(err.Error(), "partially truncated transaction") && vk.Excluded(kfF2) {
				// known finding F2: the handle's export mutex stays locked; no further ExportTx on it
				c.noExp = true
				c.res.notes["export-disabled-F2"] = true
			}
			return
		}
		switch {
		case bytes.Equal(ex, w.export):
			c.ok("ExportTx")
		case bytes.Equal(ex, digestOnly(w)):
			// values reported as not available, authenticated digests instead: nothing different is served
			c.ok("ExportTx")
			c.res.notes["export-digest-only"] = true
		default:
			c.res.fail("ExportTx(%d, integrity checks on) succeeded with %d bytes that are neither the pristine export (%d bytes) nor its digest-only form: %x",
				id, len(ex), len(w.export), trunc(ex))
		}
	})
}

func (c *checker) txReader(holder *store.Tx, from uint64, desc bool) {
	path := "TxReader-asc"
	if desc {
		path = "TxReader-desc"
	}
	n := c.p.n()
	c.guard(path, func() {
		r, err := c.st.NewTxReader(from, desc, holder)
		if err != nil {
			c.err(path)
			return
		}
		id := from
		first := true
		for steps := uint64(0); steps <= n+1; steps++ {
			tx, err := r.Read()
			if err != nil {
				if errors.Is(err, store.ErrNoMoreEntries) {
					if id >= 1 && id <= n {
						c.res.fail("%s from %d reported the end of the log at tx %d of %d", path, from, id, n)
					}
					return
				}
				c.err(path)
				return
			}
			if id < 1 || id > n {
				c.res.fail("%s from %d returned a transaction (header id %d) beyond the %d committed ones", path, from, tx.Header().ID, n)
				return
			}
			w := c.p.txs[id-1]
			if first {
				w = c.want(id) // no chaining information yet: same as a direct read
			}
			first = false
			if d := hdrDiff(tx.Header(), w); d != "" {
				c.res.fail("%s from %d returned tx %d with a different header: %s", path, from, id, d)
				return
			}
			es := tx.Entries()
			if len(es) != len(w.entries) {
				c.res.fail("%s from %d returned tx %d with %d entries, committed %d", path, from, id, len(es), len(w.entries))
				return
			}
			for j, e := range es {
				if d := entDiff(e, &w.entries[j]); d != "" {
					c.res.fail("%s from %d returned tx %d with a different entry %d: %s", path, from, id, j, d)
					return
				}
			}
			c.ok(path)
			if desc {
				id--
			} else {
				id++
			}
		}
		c.res.fail("%s from %d did not end after %d reads", path, from, n+2)
	})
}

func (c *checker) proofs() {
	n := c.p.n()
	for _, pr := range proofPairs(n) {
		want := c.p.proofs[pr]
		src, tgt := c.p.txs[pr[0]-1], c.p.txs[pr[1]-1]
		c.guard("DualProof", func() {
			pf, err := c.st.DualProof(src.hdr, tgt.hdr)
			if err != nil {
				c.err("DualProof")
				return
			}
			if !reflect.DeepEqual(pf, want) && len(c.subst) > 0 && !store.VerifyDualProof(pf, pr[0], pr[1], src.alh, tgt.alh) {
				// known finding K9: the first (unchained) read of the linear proof returned the substituted record;
				// the proof does not verify against the committed hashes
				c.res.notes["proof-from-substituted-record-does-not-verify-K9"] = true
				c.err("DualProof")
				return
			}
			if !reflect.DeepEqual(pf, want) {
				c.res.fail("DualProof(%d,%d) succeeded with terms that differ from the pristine proof", pr[0], pr[1])
				return
			}
			if !store.VerifyDualProof(pf, pr[0], pr[1], src.alh, tgt.alh) {
				c.res.fail("DualProof(%d,%d) equals the pristine proof but does not verify", pr[0], pr[1])
				return
			}
			c.ok("DualProof")
		})
	}
}

type ver struct {
	tx uint64
	e  *pEnt
	t  *pTx
}

func (p *pristine) versions(k []byte) []ver {
	var out []ver
	for i, t := range p.txs {
		for j := range t.entries {
			e := &t.entries[j]
			if bytes.Equal(e.key, k) && !p.spec.Txs[i].Entries[j].NonIndexable {
				out = append(out, ver{tx: uint64(i + 1), e: e, t: t})
			}
		}
	}
	return out
}

// waitIndex: until the index reached tx n or the indexer reported that it cannot go on.
func (c *checker) waitIndex(n uint64) {
	ctx, cancel := context.WithCancel(context.Background())
	defer cancel()
	done := make(chan error, 1)
	go func() { done <- c.st.WaitForIndexingUpto(ctx, n) }()
	failed := c.lg.idxFailed
	if c.alt == nil {
		// unaltered copy: the indexer retries after a transient error (e.g. the chunk-cache race of multiapp
		// under concurrent readers, which surfaces as "key not found"); only completion counts
		failed = nil
	}
	select {
	case err := <-done:
		if err != nil {
			c.res.notes["index-wait-error"] = true
		} else {
			c.res.indexedTo = n
		}
	case <-failed:
		c.res.notes["indexer-gave-up"] = true
		c.lg.mu.Lock()
		c.res.log = append([]string(nil), c.lg.lines...)
		c.lg.mu.Unlock()
		cancel()
		<-done
	case <-time.After(indexBound):
		c.res.fail("bounded time: the index neither reached tx %d nor reported a failure within %v; goroutines:\n%s", n, indexBound, storeStacks())
		cancel()
		<-done
	}
}

func (c *checker) refDiff(ref store.ValueRef, i int, v ver) string {
	switch {
	case ref.Tx() != v.tx:
		return fmt.Sprintf("tx %d want %d", ref.Tx(), v.tx)
	case ref.HC() != uint64(i+1):
		return fmt.Sprintf("revision %d want %d", ref.HC(), i+1)
	case ref.HVal() != v.e.hVal:
		return "value hash differs"
	case !bytes.Equal(mdBytes(ref.KVMetadata()), v.e.md):
		return fmt.Sprintf("kv metadata %x want %x", mdBytes(ref.KVMetadata()), v.e.md)
	case !bytes.Equal(txmdBytes(ref.TxMetadata()), v.t.txmd):
		return fmt.Sprintf("tx metadata %x want %x", txmdBytes(ref.TxMetadata()), v.t.txmd)
	}
	return ""
}

func (c *checker) resolve(path string, k []byte, ref store.ValueRef, v ver) {
	if c.hazardous(int(ref.Len()), ref.VOff()) {
		c.res.notes["value-read-skipped-huge-allocation"] = true
		return
	}
	c.guard(path, func() {
		val, err := ref.Resolve()
		if err != nil {
			c.err(path)
			return
		}
		if v.e.exp == 1 {
			c.res.fail("%s key %q tx %d: the entry expired in 2001, a value was returned", path, trunc(k), v.tx)
			return
		}
		if !bytes.Equal(val, v.e.value) {
			c.res.fail("%s key %q (tx %d) resolved to %d bytes %q as a valid value; committed value: %d bytes %q (ref len=%d vOff=%x)",
				path, trunc(k), v.tx, len(val), trunc(val), len(v.e.value), trunc(v.e.value), ref.Len(), ref.VOff())
			return
		}
		c.ok(path)
	})
}

func (c *checker) index() {
	n := c.p.n()
	c.waitIndex(n)
	if c.res.violation != "" {
		return
	}
	for _, k := range c.p.keys {
		vers := c.p.versions(k)
		shown := 0
		c.guard("History", func() {
			refs, hc, err := c.st.History(k, 0, false, len(vers)+5)
			if err != nil {
				c.err("History")
				return
			}
			if len(refs) > len(vers) || hc > uint64(len(vers)) {
				c.res.fail("History(%q) returned %d versions (count %d); only %d were committed", trunc(k), len(refs), hc, len(vers))
				return
			}
			for i, ref := range refs {
				if d := c.refDiff(ref, i, vers[i]); d != "" {
					c.res.fail("History(%q) version %d differs from the committed one: %s", trunc(k), i+1, d)
					return
				}
			}
			shown = len(refs)
			c.ok("History")
			for i, ref := range refs {
				c.resolve("History+Resolve", k, ref, vers[i])
			}
		})
		c.guard("Get", func() {
			ref, err := c.st.Get(context.Background(), k)
			if err != nil {
				c.err("Get")
				return
			}
			at := -1
			for i, v := range vers {
				if v.tx == ref.Tx() {
					at = i
				}
			}
			if at < 0 || at < shown-1 {
				c.res.fail("Get(%q) returned tx %d which is not the latest indexed version of the key (committed versions at %v)", trunc(k), ref.Tx(), verTxs(vers))
				return
			}
			if d := c.refDiff(ref, at, vers[at]); d != "" {
				c.res.fail("Get(%q) differs from the committed version at tx %d: %s", trunc(k), vers[at].tx, d)
				return
			}
			if md := ref.KVMetadata(); md != nil && md.Deleted() {
				c.res.fail("Get(%q) returned a deleted entry", trunc(k))
				return
			}
			c.ok("Get")
			c.resolve("Get+Resolve", k, ref, vers[at])
		})
	}
}

func verTxs(vs []ver) []uint64 {
	out := make([]uint64, len(vs))
	for i, v := range vs {
		out[i] = v.tx
	}
	return out
}

// checkAltered opens the altered copy under dir and runs every read path.
func checkAltered(p *pristine, dir string, alt *alteration, rebuilt bool) *result {
	res := &result{errs: map[string]int{}, oks: map[string]int{}, notes: map[string]bool{}}
	done := make(chan struct{})
	go func() {
		defer close(done)
		c := &checker{p: p, res: res, alt: alt, lg: newLogger(), subst: map[uint64]uint64{}}
		if alt != nil && alt.kind == "splice-record" && vk.Excluded(kfK9) {
			c.subst[uint64(alt.tx)] = uint64(alt.spliced)
			vk.CountExcluded(kfK9)
		}
		// phase A: the copy with its index. Nothing is left to index, so every read below runs in this
		// goroutine only and a panic is recovered and reported (a panic of the indexer goroutine would
		// kill the process instead).
		if !c.open(dir) {
			return
		}
		res.opened = true
		c.phaseA()
		c.guard("Close", func() { c.st.Close() })
		if res.violation != "" || !rebuilt {
			return
		}
		if len(c.subst) > 0 {
			// known finding K9: the indexer reads the substituted record like any direct read
			res.notes["index-not-asserted-K9"] = true
			return
		}
		// phase B: index deleted, rebuilt from the altered tx log by the indexer
		if err := os.RemoveAll(filepath.Join(dir, "index")); err != nil {
			res.fail("harness: cannot delete the index: %v", err)
			return
		}
		c.lg = newLogger()
		c.sfx = "@rebuilt-index"
		if !c.open(dir) {
			return
		}
		c.index()
		c.guard("Close", func() { c.st.Close() })
	}()
	select {
	case <-done:
	case <-time.After(caseBound):
		// res is still being written by the stuck goroutine: report without touching it
		return &result{violation: fmt.Sprintf("bounded time: reading the altered copy did not finish within %v (a read path hangs); goroutines:\n%s", caseBound, storeStacks()),
			errs: map[string]int{}, oks: map[string]int{}, notes: map[string]bool{}}
	}
	return res
}

func (c *checker) open(dir string) bool {
	c.st = nil
	c.guard("store.Open", func() {
		st, err := store.Open(dir, c.p.spec.options(c.lg))
		if err != nil {
			c.err("Open")
			return
		}
		c.st = st
	})
	return c.st != nil
}

func (c *checker) phaseA() {
	p, res, alt, st := c.p, c.res, c.alt, c.st
	if got := st.TxCount(); got != p.n() {
		res.fail("the reopened store reports %d committed transactions, %d were committed (the commit log was not altered)", got, p.n())
		return
	}
	holder := store.NewTx(p.spec.Cfg.MaxTxEntries, p.spec.Cfg.MaxKeyLen)
	n := p.n()
	for id := uint64(1); id <= n && res.violation == ""; id++ {
		c.checkTx(holder, id)
	}
	if res.violation != "" {
		return
	}
	c.txReader(holder, 1, false)
	c.txReader(holder, n, true)
	if alt != nil && alt.tx > 1 {
		c.txReader(holder, uint64(alt.tx), false)
		c.txReader(holder, uint64(alt.tx)-1, false)
	}
	if alt != nil && alt.tx >= 1 && uint64(alt.tx) < n {
		c.txReader(holder, uint64(alt.tx)+1, true)
	}
	if res.violation != "" {
		return
	}
	c.proofs()
	if res.violation != "" {
		return
	}
	c.index()
}
