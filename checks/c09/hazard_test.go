package c09

// Resource hygiene: mirror of what multiapp/singleapp do when a value is read from a
// COMPRESSED value log, to predict reads that would allocate a garbage chunk length
// (singleapp.ReadAt does make([]byte, len32) with the 4 bytes found at the offset:
// C16's known finding F18). Such calls are not made; everything else is.

import (
	"bytes"
	"compress/flate"
	"compress/gzip"
	"compress/lzw"
	"compress/zlib"
	"encoding/binary"
	"io"

	"github.com/codenotary/immudb/embedded/appendable"
)

func decompress(format int, b []byte) ([]byte, bool) {
	var r io.ReadCloser
	var err error
	switch format {
	case appendable.FlateCompression:
		r = flate.NewReader(bytes.NewReader(b))
	case appendable.GZipCompression:
		r, err = gzip.NewReader(bytes.NewReader(b))
	case appendable.LZWCompression:
		r = lzw.NewReader(bytes.NewReader(b), lzw.MSB, 8)
	case appendable.ZLibCompression:
		r, err = zlib.NewReader(bytes.NewReader(b))
	default:
		return nil, false
	}
	if err != nil {
		return nil, false
	}
	defer r.Close()
	var buf bytes.Buffer
	buf.ReadFrom(r) // errors are ignored by singleapp as well
	return buf.Bytes(), true
}

// alteredPayload returns the payload of chunk ci of value log id with the edits applied.
func (c *checker) alteredPayload(id, ci int) []byte {
	vl := c.p.lay.vlogs[id]
	if vl == nil || ci >= len(vl.chunks) {
		return nil
	}
	ch := vl.chunks[ci]
	key := ch.name
	if b, ok := c.payloads[key]; ok {
		return b
	}
	b := ch.payload
	if c.alt != nil {
		copied := false
		for _, e := range c.alt.edits {
			if e.file == ch.name && int(e.off) >= ch.base {
				if !copied {
					b = append([]byte(nil), b...)
					copied = true
				}
				b[int(e.off)-ch.base] = e.new
			}
		}
	}
	if c.payloads == nil {
		c.payloads = map[string][]byte{}
	}
	c.payloads[key] = b
	return b
}

// hazardous: reading vLen bytes at vOff would allocate 16 MiB or more.
func (c *checker) hazardous(vLen int, vOff int64) bool {
	if vLen > lenCap {
		return true
	}
	l := c.p.lay
	if !l.compressed || vLen == 0 {
		return false
	}
	id := int(byte(vOff >> 56))
	off := vOff & ^(0xff << 55)
	if id < 1 || id > c.p.spec.Cfg.IOConc {
		return false
	}
	r := 0
	for steps := 0; r < vLen && steps < 1<<16; steps++ {
		offr := off + int64(r)
		if offr < 0 {
			return false
		}
		ci := int(offr / int64(l.fileSize))
		lo := int(offr % int64(l.fileSize))
		p := c.alteredPayload(id, ci)
		if p == nil || lo+4 > len(p) {
			return false
		}
		clen := int(binary.BigEndian.Uint32(p[lo:]))
		if clen >= lenCap {
			return true
		}
		if lo+4+clen > len(p) {
			return false
		}
		rbs, ok := decompress(c.p.spec.Cfg.Compression, p[lo+4:lo+4+clen])
		if !ok {
			return false
		}
		n := len(rbs)
		if n > vLen-r {
			n = vLen - r
		}
		if n == 0 {
			return false
		}
		r += n
	}
	return false
}
