package c09

// Alterations of the bytes that hold committed tx records and the values they reference.

import (
	"crypto/sha256"
	"encoding/binary"
	"fmt"
	"sort"
	"strings"

	"pgregory.net/rapid"
)

type alteration struct {
	kind    string // none flip1 flip2 flip3 flip8 bytes field splice-value splice-record
	class   string // class of the (first) field hit
	tx      int
	entry   int
	what    string // human-readable detail
	edits   []edit
	spliced int // splice-record: id of the record copied over tx
}

func (a *alteration) String() string {
	return fmt.Sprintf("%s %s tx=%d e=%d %s (%d bytes changed)", a.kind, a.class, a.tx, a.entry, a.what, len(a.edits))
}

// touched lists the distinct (class, tx, entry) fields whose bytes change.
func (l *layout) touched(edits []edit) []*field {
	if len(edits) == 0 {
		return nil
	}
	set := map[addr]bool{}
	for _, e := range edits {
		set[addr{e.file, e.off}] = true
	}
	var out []*field
	for _, f := range l.fields {
		reg := l.regions[f.region]
		for i := f.lo; i < f.hi; i++ {
			if set[reg.addrs[i]] {
				out = append(out, f)
				break
			}
		}
	}
	return out
}

var numericClasses = map[string]bool{"id": true, "ts": true, "blTxID": true, "version": true, "txmdLen": true, "nentries": true,
	"kvmdLen": true, "kLen": true, "vLen": true, "vOff": true, "zlen": true}
var hashClasses = map[string]bool{"blRoot": true, "prevAlh": true, "hVal": true, "alh": true}

func beUint(b []byte) uint64 {
	var v uint64
	for _, x := range b {
		v = v<<8 | uint64(x)
	}
	return v
}

func bePut(n int, v uint64) []byte {
	b := make([]byte, n)
	for i := n - 1; i >= 0; i-- {
		b[i] = byte(v)
		v >>= 8
	}
	return b
}

// pickField: a class first (so that small fields are hit as often as large ones), then one of its fields.
// The last transaction is validated by store.Open itself, after which nothing else can be observed: 5 out of 6
// picks avoid it when the class has fields elsewhere.
// uni draws an index in [0,n) without rapid's bias towards small and special values (a single integer draw
// returns 0 about one time in five): six byte draws are hashed. Shrinking still works on the underlying bytes.
var uniGen = rapid.SliceOfN(rapid.Byte(), 6, 6)

func uni(rt *rapid.T, n int, label string) int {
	var x uint64 = 14695981039346656037
	for _, b := range uniGen.Draw(rt, label) {
		x = (x ^ uint64(b)) * 1099511628211
	}
	x += 0x9E3779B97F4A7C15
	x = (x ^ (x >> 30)) * 0xBF58476D1CE4E5B9
	x = (x ^ (x >> 27)) * 0x94D049BB133111EB
	x ^= x >> 31
	return int(x % uint64(n))
}

func pickField(rt *rapid.T, l *layout, classes []string) *field {
	c := classes[uni(rt, len(classes), "class")]
	fs := l.byClass[c]
	if uni(rt, 6, "avoidLastTx") > 0 {
		var inner []*field
		for _, f := range fs {
			if f.tx != len(l.recs) {
				inner = append(inner, f)
			}
		}
		if len(inner) > 0 {
			fs = inner
		}
	}
	return fs[uni(rt, len(fs), "fieldIdx")]
}

func classesWhere(l *layout, pred func(string) bool) []string {
	var out []string
	for _, c := range l.classes {
		if pred(c) {
			out = append(out, c)
		}
	}
	return out
}

// genAlteration draws one alteration of the pristine image.
func genAlteration(rt *rapid.T, p *pristine) *alteration {
	l := p.lay
	kinds := []string{"flip1", "flip1", "flip1", "flip2", "flip3", "flip8", "bytes", "bytes", "field", "field", "field", "field", "splice-value", "splice-record"}
	kind := kinds[uni(rt, len(kinds), "kind")]
	a := &alteration{kind: kind, entry: -1}
	switch kind {
	case "flip1", "flip2", "flip3", "flip8":
		k := int(kind[4] - '0')
		f := pickField(rt, l, l.classes)
		a.class, a.tx, a.entry = f.class, f.tx, f.entry
		reg := l.regions[f.region]
		seen := map[[2]int]bool{}
		spread := func() string { o := []string{"field", "region", "anywhere"}; return o[uni(rt, len(o), "spread")] }()
		var ws []string
		for i := 0; i < k; i++ {
			ri, pos := f.region, 0
			switch {
			case i == 0 || spread == "field":
				pos = f.lo + uni(rt, f.hi-f.lo, "pos")
			case spread == "region":
				pos = uni(rt, len(reg.addrs), "pos")
			default:
				g := pickField(rt, l, l.classes)
				ri = g.region
				pos = g.lo + uni(rt, g.hi-g.lo, "pos")
			}
			bit := uni(rt, 8, "bit")
			if seen[[2]int{ri*1000000 + pos, bit}] {
				continue
			}
			seen[[2]int{ri*1000000 + pos, bit}] = true
			a.edits = mergeEdits(a.edits, flipBit(l, ri, pos, bit))
			ws = append(ws, fmt.Sprintf("r%d+%d.%d", ri, pos, bit))
		}
		a.what = spread + " " + strings.Join(ws, ",")
	case "bytes":
		f := pickField(rt, l, l.classes)
		a.class, a.tx, a.entry = f.class, f.tx, f.entry
		reg := l.regions[f.region]
		pos := f.lo + uni(rt, f.hi-f.lo, "pos")
		n := rapid.IntRange(1, 8).Draw(rt, "n")
		if pos+n > len(reg.addrs) {
			n = len(reg.addrs) - pos
		}
		nb := make([]byte, n)
		pat := func() string { o := []string{"random", "zero", "ff", "shift"}; return o[uni(rt, len(o), "pattern")] }()
		switch pat {
		case "random":
			for i := range nb {
				nb[i] = byte(rapid.IntRange(0, 255).Draw(rt, "b"))
			}
		case "ff":
			for i := range nb {
				nb[i] = 0xff
			}
		case "shift": // the following bytes moved one position back
			for i := range nb {
				if pos+i+1 < len(reg.data) {
					nb[i] = reg.data[pos+i+1]
				}
			}
		}
		a.edits = l.editsFor(f.region, pos, nb)
		a.what = fmt.Sprintf("%s r%d+%d n=%d", pat, f.region, pos, n)
	case "field":
		fieldEdit(rt, p, a)
	case "splice-value":
		// the bytes of a stored value replaced by those of another value of the same stored length
		vals := append(append([]*field{}, l.byClass["value"]...), l.byClass["zdata"]...)
		if len(vals) < 2 {
			return genFallback(rt, p)
		}
		f := vals[uni(rt, len(vals), "dst")]
		var cands []*field
		for _, g := range vals {
			if g != f && g.class == f.class && g.hi-g.lo == f.hi-f.lo {
				cands = append(cands, g)
			}
		}
		if len(cands) == 0 {
			return genFallback(rt, p)
		}
		g := cands[uni(rt, len(cands), "src")]
		a.class, a.tx, a.entry = f.class, f.tx, f.entry
		a.edits = l.editsFor(f.region, f.lo, l.bytesOf(g))
		a.what = fmt.Sprintf("value of tx %d/%d copied over", g.tx, g.entry)
	case "splice-record":
		// a whole record overwritten by another committed record that fits
		if len(l.recs) < 2 {
			return genFallback(rt, p)
		}
		dst := 1 + uni(rt, len(l.recs), "dstTx")
		var cands []int
		for j, r := range l.recs {
			if j+1 != dst && r.size <= l.recs[dst-1].size {
				cands = append(cands, j+1)
			}
		}
		if len(cands) == 0 {
			return genFallback(rt, p)
		}
		src := cands[uni(rt, len(cands), "srcTx")]
		var dreg, sreg int
		for i, r := range l.regions {
			if r.kind == "rec" && r.tx == dst {
				dreg = i
			}
			if r.kind == "rec" && r.tx == src {
				sreg = i
			}
		}
		a.class, a.tx, a.spliced = "record", dst, src
		a.edits = l.editsFor(dreg, 0, l.regions[sreg].data)
		a.what = fmt.Sprintf("record of tx %d copied over", src)
	}
	return a
}

func genFallback(rt *rapid.T, p *pristine) *alteration {
	a := &alteration{kind: "field", entry: -1}
	fieldEdit(rt, p, a)
	return a
}

func flipBit(l *layout, ri, pos, bit int) []edit {
	reg := l.regions[ri]
	return l.editsFor(ri, pos, []byte{reg.data[pos] ^ (1 << uint(bit))})
}

// mergeEdits: later edits of the same byte compose (bit flips of one byte).
func mergeEdits(es []edit, more []edit) []edit {
	for _, m := range more {
		found := false
		for i := range es {
			if es[i].file == m.file && es[i].off == m.off {
				es[i].new ^= m.old ^ m.new
				found = true
			}
		}
		if !found {
			es = append(es, m)
		}
	}
	out := es[:0]
	for _, e := range es {
		if e.new != e.old {
			out = append(out, e)
		}
	}
	return out
}

// fieldEdit: field-aware edits of lengths, offsets, counts, ids, versions and hashes.
func fieldEdit(rt *rapid.T, p *pristine, a *alteration) {
	l := p.lay
	classes := classesWhere(l, func(c string) bool { return numericClasses[c] || hashClasses[c] || c == "txmd" || c == "kvmd" })
	f := pickField(rt, l, classes)
	a.class, a.tx, a.entry = f.class, f.tx, f.entry
	cur := l.bytesOf(f)
	n := len(cur)
	var nb []byte
	switch {
	case f.class == "vOff":
		v := beUint(cur)
		choice := func() string { o := []string{"same-len", "same-len", "other", "plus1", "minus1", "zero", "beyond", "vlog", "max"}; return o[uni(rt, len(o), "vOffEdit")] }()
		myLen := p.txs[f.tx-1].entries[f.entry].vLen
		var pool []uint64
		for _, g := range l.byClass["vOff"] {
			if g == f {
				continue
			}
			o := beUint(l.bytesOf(g))
			gl := p.txs[g.tx-1].entries[g.entry].vLen
			if (choice == "same-len") == (gl == myLen) && gl > 0 && o != v {
				pool = append(pool, o)
			}
		}
		sort.Slice(pool, func(i, j int) bool { return pool[i] < pool[j] })
		nv := v
		switch choice {
		case "same-len", "other":
			if len(pool) > 0 {
				nv = pool[uni(rt, len(pool), "otherOff")]
			} else {
				nv = v + 1
				choice += "(none:+1)"
			}
		case "plus1":
			nv = v + 1
		case "minus1":
			nv = v - 1
		case "zero":
			nv = 0
		case "beyond":
			nv = v + uint64(rapid.SampledFrom([]int{1 << 12, 1 << 21, 1 << 40}).Draw(rt, "far"))
		case "vlog":
			id := v >> 56
			nid := uint64(rapid.IntRange(0, 4).Draw(rt, "vlogID"))
			if nid == id {
				nid = id + 1
			}
			nv = nid<<56 | v&(1<<56-1)
		case "max":
			nv = ^uint64(0)
		}
		nb = bePut(n, nv)
		a.what = fmt.Sprintf("vOff %x -> %x (%s)", v, nv, choice)
	case numericClasses[f.class]:
		v := beUint(cur)
		max := uint64(1)<<(8*uint(n)) - 1
		if n == 8 {
			max = ^uint64(0)
		}
		choice := func() string { o := []string{"zero", "one", "minus1", "plus1", "max", "other", "high", "double"}; return o[uni(rt, len(o), "numEdit")] }()
		nv := v
		switch choice {
		case "zero":
			nv = 0
		case "one":
			nv = 1
		case "minus1":
			nv = (v - 1) & max
		case "plus1":
			nv = (v + 1) & max
		case "max":
			nv = max
		case "other":
			gs := l.byClass[f.class]
			nv = beUint(l.bytesOf(gs[uni(rt, len(gs), "otherNum")]))
		case "high":
			nv = v | 1<<(8*uint(n)-1)
		case "double":
			nv = (v * 2) & max
		}
		if f.class == "zlen" && nv >= lenCap {
			// generator bound (see Assumptions): a compressed-chunk length of 16 MiB or more is not generated
			nv = v + 1
			choice += "(capped:+1)"
		}
		nb = bePut(n, nv)
		a.what = fmt.Sprintf("%s %d -> %d (%s)", f.class, v, nv, choice)
	case hashClasses[f.class]:
		choice := func() string { o := []string{"same-class", "same-class", "any-hash", "zero", "empty-sha"}; return o[uni(rt, len(o), "hashEdit")] }()
		switch choice {
		case "same-class", "any-hash":
			var pool [][]byte
			for _, g := range l.fields {
				if g == f || !hashClasses[g.class] || (choice == "same-class" && g.class != f.class) {
					continue
				}
				pool = append(pool, l.bytesOf(g))
			}
			if len(pool) == 0 {
				nb = make([]byte, n)
			} else {
				nb = pool[uni(rt, len(pool), "otherHash")]
			}
		case "zero":
			nb = make([]byte, n)
		case "empty-sha":
			h := sha256.Sum256(nil)
			nb = h[:]
		}
		a.what = fmt.Sprintf("%s := %s %x", f.class, choice, nb[:4])
	default: // metadata bytes: attribute codes, embedded lengths and timestamps
		nb = append([]byte(nil), cur...)
		pos := uni(rt, n, "mdPos")
		choice := func() string { o := []string{"code0", "code1", "code2", "code3", "ff", "inc", "swap"}; return o[uni(rt, len(o), "mdEdit")] }()
		switch choice {
		case "code0", "code1", "code2", "code3":
			nb[pos] = choice[4] - '0'
		case "ff":
			nb[pos] = 0xff
		case "inc":
			nb[pos]++
		case "swap":
			if pos+1 < n {
				nb[pos], nb[pos+1] = nb[pos+1], nb[pos]
			}
		}
		a.what = fmt.Sprintf("%s byte %d %s", f.class, pos, choice)
	}
	a.edits = l.editsFor(f.region, f.lo, nb)
}

// ---------------------------------------------------------------------------
// predicates over the altered image (shadow parse with the harness' own parser)

const lenCap = 16 << 20

// vLenZeroed: some entry of a committed record whose value is not empty has its 4 vLen bytes equal to 0
// in the altered image (known finding K4).
func (l *layout) vLenZeroed(edits []edit) bool {
	if len(edits) == 0 {
		return false
	}
	nv := map[addr]byte{}
	for _, e := range edits {
		nv[addr{e.file, e.off}] = e.new
	}
	for _, f := range l.byClass["vLen"] {
		reg := l.regions[f.region]
		if beUint(reg.data[f.lo:f.hi]) == 0 {
			continue
		}
		touched, zero := false, true
		for i := f.lo; i < f.hi; i++ {
			b := reg.data[i]
			if x, ok := nv[reg.addrs[i]]; ok {
				b, touched = x, true
			}
			if b != 0 {
				zero = false
			}
		}
		if touched && zero {
			return true
		}
	}
	return false
}

// txmdPanics mirrors TxMetadata.ReadFrom + Bytes over the tx-metadata bytes the reader of record
// at off would consume in stream: true when the real code indexes past the buffer (known finding F4).
func txmdPanics(stream []byte, off int) bool {
	p := off + 8 + 8 + 8 + 32 + 32
	if p+4 > len(stream) {
		return false
	}
	if binary.BigEndian.Uint64(stream[off:]) == 0 {
		return false
	}
	if binary.BigEndian.Uint16(stream[p:]) != 1 {
		return false
	}
	mdLen := int(binary.BigEndian.Uint16(stream[p+2:]))
	p += 4
	if mdLen == 0 || mdLen > maxTxMDLen || p+mdLen > len(stream) {
		return false
	}
	b := stream[p : p+mdLen]
	i := 0
	for i < len(b) {
		code := b[i]
		i++
		switch code {
		case 0:
			if len(b)-i < 8 {
				return false // ErrCorruptedData
			}
			i += 8
		case 1:
			if len(b)-i < 2 {
				return false
			}
			n := int(binary.BigEndian.Uint16(b[i:]))
			if i+2+n > len(b) {
				return true // i runs past len(b): b[i:] panics
			}
			if n > 256 {
				return true // decodes, then serialize() slices a 258-byte array beyond its end
			}
			i += 2 + n
		default:
			return false
		}
	}
	return false
}

// anyTxmdPanics: would reading any committed record of the altered image hit F4?
func (l *layout) anyTxmdPanics(edits []edit) bool {
	s := l.applyToStream(edits)
	for _, r := range l.recs {
		if txmdPanics(s, r.off) {
			return true
		}
	}
	return false
}

// vlogIDBeyond: in a store with several value logs, some vOff field of a committed record names (in its top
// byte) a value log beyond the configured ones in the altered image (known finding K10).
func (l *layout) vlogIDBeyond(edits []edit, ioConc int) bool {
	if len(edits) == 0 || l.embedded || ioConc <= 1 {
		return false
	}
	nv := map[addr]byte{}
	for _, e := range edits {
		nv[addr{e.file, e.off}] = e.new
	}
	for _, f := range l.byClass["vOff"] {
		reg := l.regions[f.region]
		if x, ok := nv[reg.addrs[f.lo]]; ok && int(x) > ioConc {
			return true
		}
	}
	return false
}
