// C09 — corruption of stored data is detected, never served as valid.
package c09

import (
	"encoding/json"
	"fmt"
	"os"
	"path/filepath"
	"sort"
	"strings"
	"testing"
	"time"

	"pgregory.net/rapid"

	"verif/internal/vk"
)

func TestMain(m *testing.M) {
	vk.Main(m, vk.Config{
		Property: "C09",
		Level:    "fault_enumeration",
		Rule: "rapid-generated small stores (1-25 txs; embedded values on/off, every value-log compression format, file sizes from 256 B so that records and values span chunks, " +
			"header version 0/1, kv + tx metadata, empty / duplicated / maximal values, 1-3 value logs), closed cleanly and parsed with the harness' own tx-record parser; then per store " +
			"the unaltered copy (baseline) and 8 alterations of the bytes of committed tx records and of the value ranges they reference: k in {1,2,3,8} bit flips (same field / same record / anywhere), " +
			"1-8 byte overwrites, field-aware edits (every id/ts/length/offset/count/version set to 0,1,-1,+1,max,another field's value; vOff pointed at another value of the same or another length, " +
			"other value log, beyond the end; hashes replaced by other hashes of the store), value-over-value and record-over-record splices. Each altered copy is opened and read through ReadTx, ReadTxHeader, " +
			"ReadTxEntry, ReadValue, ExportTx (integrity checks on), TxReader ascending/descending from several positions, DualProof, and History/Get/Resolve on the kept or rebuilt-from-scratch index. " +
			"One evaluation = one store (baseline) or one alteration. NON-TRIVIAL: the alteration changes at least one byte that the readers consume (a field of a committed record or a byte of a referenced value). " +
			"DISTINCT: hash of (store shape, alteration kind, field class, record position, edit, index kept/rebuilt). Thorough: every single bit of every committed record and value of fixed tiny stores.",
		Assumptions: []string{
			"chunk headers (appendable metadata), the commit log, the hash tree (aht) and the index files are not altered: the property's text is about the bytes that hold committed transactions and their values",
			"SHA-256 collisions are not searched for",
			"TxEntry.VLen()/VOff() and ValueRef.Len()/VOff() are physical locators, not content: they are not compared (they are not covered by any digest); the VALUE read through them is compared",
			"ExportTx returning the digest-only form (values reported as truncated, authenticated value hashes instead) is accepted: no different value is served",
			"an index that stops before the first unreadable transaction is accepted; what it returns must be a prefix of the committed history of each key",
			"resource hygiene: a value read that would allocate 16 MiB or more is not made (counted under note:*-skipped-huge-allocation): the recorded length exceeds 16 MiB (ReadValue/ExportTx/Resolve allocate the recorded length: C16's F22), or, in a compressed value log, the harness' mirror of multiapp/singleapp.ReadAt predicts that a garbage chunk-length prefix of 16 MiB or more would be allocated (C16's F18: a vLen larger than the value or a vOff into the middle of a chunk make the reader continue inside compressed data); field-aware edits do not set a chunk-length prefix to 16 MiB or more",
			"expirations use fixed far-past / far-future instants; an entry that expired in 2001 must never yield a value",
			"liveness bounds (index wait 300 s, whole case 600 s) are >3000x the normal latency and only guard the 'bounded time' clause",
			"every altered copy is first opened with its (unaltered) index, so that all direct reads run in the harness goroutine where a panic is recovered and reported; only then the index is deleted and rebuilt by the indexer goroutine (a panic there kills the process: driver exit 2, attributed by replays/_new/C09-inflight-*.json)",
			"record-over-record splices (known finding K9): direct reads and the first read of a TxReader may return exactly the substituted committed record, the rebuilt index is not asserted; chained TxReader reads, DualProof verification and everything else still are",
			"the unaltered copy must read back without any error; there the index is awaited before the reads (a transient 'key not found' of multiapp's chunk cache under concurrent readers makes the indexer retry, which is not this property's business)",
		},
		Probes: []vk.Probe{
			{ID: kfK4, Present: probeK4},
			{ID: kfF4, Present: probeF4},
			{ID: kfF2, Present: probeF2},
			{ID: kfK9, Present: probeK9},
			{ID: kfK10, Present: probeK10},
		},
	})
}

// inflight: breadcrumb of the case whose store is open, so that a crash of a background goroutine of
// immudb (which kills the process: driver exit 2) can be attributed. Removed when the case ends.
func inflightPath() string {
	return filepath.Join(vk.Root(), "replays", "_new", fmt.Sprintf("C09-inflight-shard%d-pid%d.json", vk.Shard(), os.Getpid()))
}

func setInflight(spec *storeSpec, alt *alteration, rebuild bool) {
	d := map[string]any{"property": "C09", "note": "this file is removed when the case ends; if it is still here the process died while this case was running",
		"store": spec.String(), "rebuild_index": rebuild}
	if alt != nil {
		d["alteration"] = alt.String()
		d["edits"] = editDump(alt.edits)
	}
	b, _ := json.MarshalIndent(d, "", " ")
	os.MkdirAll(filepath.Dir(inflightPath()), 0o755)
	os.WriteFile(inflightPath(), b, 0o644)
}

func clearInflight() { os.Remove(inflightPath()) }

func editDump(es []edit) []string {
	var out []string
	for i, e := range es {
		if i >= 40 {
			out = append(out, fmt.Sprintf("... %d more", len(es)-i))
			break
		}
		out = append(out, fmt.Sprintf("%s@%d: %02x->%02x", e.file, e.off, e.old, e.new))
	}
	return out
}

// runAlteration writes the altered copy, runs the oracle and removes the copy.
func runAlteration(p *pristine, alt *alteration, rebuild bool) *result {
	dir := vk.Dir()
	defer os.RemoveAll(dir)
	var edits []edit
	if alt != nil {
		edits = alt.edits
	}
	if err := p.img.writeTo(dir, edits); err != nil {
		return &result{violation: "harness: cannot write the altered copy: " + err.Error()}
	}
	setInflight(p.spec, alt, rebuild)
	defer clearInflight()
	if os.Getenv("C09_TRACE") != "" && alt != nil { // development aid
		t0 := time.Now()
		r := checkAltered(p, dir, alt, rebuild)
		var cl []string
		for _, f := range p.lay.touched(alt.edits) {
			cl = append(cl, fmt.Sprintf("%s(tx%d/%d)", f.class, f.tx, f.entry))
		}
		fmt.Printf("TRACE %v %s touched=%v opened=%v errs=%v notes=%v viol=%.100q\n", time.Since(t0), alt, cl, r.opened, r.errs, r.notes, r.violation)
		return r
	}
	return checkAltered(p, dir, alt, rebuild)
}

// outcomeLabels classifies what the readers did; base = errors of the unaltered copy (expired / deleted entries).
func outcomeLabels(e interface{ Label(string) }, r *result, base map[string]int, changed bool) (silent bool) {
	if !r.opened {
		e.Label("outcome:open-failed")
		return false
	}
	nerr := 0
	var paths []string
	for p, n := range r.errs {
		if n > base[p] {
			nerr += n - base[p]
			paths = append(paths, p)
		}
	}
	sort.Strings(paths)
	switch {
	case nerr > 0:
		e.Label("outcome:some-read-failed")
	case changed && (r.notes["value-read-skipped-huge-allocation"] || r.notes["export-skipped-huge-allocation"]):
		e.Label("outcome:changed-bytes-no-error-but-value-reads-skipped-for-hygiene")
	case changed:
		e.Label("outcome:changed-bytes-all-reads-returned-pristine")
		silent = true
	default:
		e.Label("outcome:all-reads-returned-pristine")
	}
	for _, p := range paths {
		e.Label("detected-by:" + p)
	}
	for n := range r.notes {
		e.Label("note:" + n)
	}
	return silent
}

const altsPerStore = 8

func TestCorruptionDetected(t *testing.T) {
	vk.Check(t, 160, 6000, func(rt *rapid.T, c *vk.Case) {
		spec := genStoreSpec(rt, 25)
		c.Descf("%s", spec)
		dir := vk.Dir()
		defer os.RemoveAll(dir)
		p := buildStore(spec, dir, func(format string, args ...any) { c.Failf(rt, spec.String(), format, args...) })
		shape := shapeLabels(c, p)

		// baseline: the unaltered copy reads back exactly, through every path, with and without the index
		baseErrs := map[bool]map[string]int{}
		for _, rebuild := range []bool{false, true} {
			r := runAlteration(p, nil, rebuild)
			baseErrs[rebuild] = r.errs
			if r.violation != "" {
				c.Failf(rt, spec.String(), "unaltered copy (rebuild index=%v): %s", rebuild, r.violation)
			}
			nerr := 0
			for path, n := range r.errs {
				switch strings.TrimSuffix(path, "@rebuilt-index") {
				case "ReadTx+ReadValue", "ReadTxEntry+ReadValue", "History+Resolve", "Get+Resolve", "Get":
					continue // expired / deleted entries
				}
				nerr += n
			}
			if !r.opened || nerr > 0 || r.indexedTo != p.n() {
				c.Failf(rt, spec.String(), "unaltered copy (rebuild index=%v) does not read back: opened=%v errors=%v indexedTo=%d of %d log=%v", rebuild, r.opened, r.errs, r.indexedTo, p.n(), r.log)
			}
		}

		anyNonTrivial := false
		for i := 0; i < altsPerStore; i++ {
			alt := genAlteration(rt, p)
			rebuild := uni(rt, 3, "rebuildIndex") > 0
			e := vk.NewEnum(t.Name() + "/alteration")
			e.Descf("%s | %s rebuild=%v", shape, alt, rebuild)
			e.Label("kind:" + alt.kind)
			e.Label("class:" + alt.class)
			for _, f := range p.lay.touched(alt.edits) {
				e.Label("touched:" + f.class)
			}
			if rebuild {
				e.Label("index-rebuilt")
			} else {
				e.Label("index-kept")
			}
			if len(alt.edits) == 0 {
				e.Label("no-op")
			}
			// known findings: exactly these classes are left out
			if vk.Excluded(kfK4) && p.lay.vLenZeroed(alt.edits) {
				vk.CountExcluded(kfK4)
				e.Label("excluded:K4")
				e.Done()
				continue
			}
			if vk.Excluded(kfF4) && p.lay.anyTxmdPanics(alt.edits) {
				vk.CountExcluded(kfF4)
				e.Label("excluded:F4")
				e.Done()
				continue
			}
			if vk.Excluded(kfK10) && p.lay.vlogIDBeyond(alt.edits, p.spec.Cfg.IOConc) {
				vk.CountExcluded(kfK10)
				e.Label("excluded:K10")
				e.Done()
				continue
			}
			r := runAlteration(p, alt, rebuild)
			if r.violation != "" {
				c.Failf(rt, map[string]any{"store": spec.String(), "alteration": alt.String(), "edits": editDump(alt.edits), "rebuild_index": rebuild},
					"%s [alteration: %s; index rebuilt: %v]", r.violation, alt, rebuild)
			}
			if outcomeLabels(e, r, baseErrs[rebuild], len(alt.edits) > 0) {
				for _, f := range p.lay.touched(alt.edits) {
					e.Label("silently-accepted-change-in:" + f.class)
				}
			}
			if len(alt.edits) > 0 {
				e.NonTrivial()
				anyNonTrivial = true
			}
			e.Done()
		}
		if anyNonTrivial {
			c.NonTrivial()
		}
	})
}

// shapeLabels labels the store case and returns a short shape string for the descriptors of its alterations.
func shapeLabels(c *vk.Case, p *pristine) string {
	cfg := p.spec.Cfg
	if cfg.Embedded {
		c.Label("embedded-values")
	} else {
		c.Label("compression:" + compName(cfg.Compression))
		c.Label(fmt.Sprintf("value-logs:%d", cfg.IOConc))
	}
	c.Label(fmt.Sprintf("header-version:%d", cfg.HdrVersion))
	if cfg.Prealloc {
		c.Label("prealloc")
	}
	multi := false
	for _, r := range p.lay.regions {
		if len(r.addrs) > 0 && r.addrs[0].file != r.addrs[len(r.addrs)-1].file {
			multi = true
		}
	}
	if multi {
		c.Label("record-or-value-spans-chunks")
	}
	if len(p.img.files) > 0 {
		nchunks := 0
		for name := range p.img.files {
			if filepath.Dir(name) == "tx" {
				nchunks++
			}
		}
		if nchunks > 1 {
			c.Label("multi-chunk-tx-log")
		}
	}
	if len(p.lay.byClass["txmd"]) > 0 {
		c.Label("tx-metadata")
	}
	if len(p.lay.byClass["kvmd"]) > 0 {
		c.Label("kv-metadata")
	}
	empty := false
	for _, t := range p.txs {
		for _, e := range t.entries {
			if e.vLen == 0 {
				empty = true
			}
		}
	}
	if empty {
		c.Label("empty-value")
	}
	for _, t := range p.txs {
		if len(t.entries) == 0 {
			c.Label("tx-without-entries")
			break
		}
	}
	if p.n() == 1 {
		c.Label("single-tx")
	}
	if p.n() >= 10 {
		c.Label("txs>=10")
	}
	return fmt.Sprintf("emb=%v cmp=%s hv=%d fs=%d io=%d pre=%v n=%d sz=%d", cfg.Embedded, compName(cfg.Compression), cfg.HdrVersion, cfg.FileSize, cfg.IOConc, cfg.Prealloc, p.n(), len(p.lay.txStream))
}
