package c09

// Generation of small stores and the record of their pristine content.

import (
	"bytes"
	"context"
	"crypto/sha256"
	"fmt"
	"os"
	"strings"
	"sync"
	"sync/atomic"
	"time"

	"github.com/codenotary/immudb/embedded/appendable"
	"github.com/codenotary/immudb/embedded/store"
	"pgregory.net/rapid"

	"verif/internal/stx"
)

type txSpec struct {
	Entries []stx.Entry
	Extra   []byte // tx metadata: extra attribute (header version 1 only)
	Trunc   uint64 // tx metadata: truncated-up-to attribute (0 = absent)
}

type storeSpec struct {
	Cfg stx.Cfg
	Txs []txSpec
}

func (s *storeSpec) String() string {
	var sb strings.Builder
	fmt.Fprintf(&sb, "cfg=%s txs=[", s.Cfg)
	for i, t := range s.Txs {
		if i > 0 {
			sb.WriteByte(' ')
		}
		if len(t.Extra) > 0 {
			fmt.Fprintf(&sb, "x%d", len(t.Extra))
		}
		if t.Trunc > 0 {
			fmt.Fprintf(&sb, "t%d", t.Trunc)
		}
		sb.WriteByte('{')
		for j, e := range t.Entries {
			if j > 0 {
				sb.WriteByte(',')
			}
			sb.WriteString(e.String())
		}
		sb.WriteByte('}')
	}
	sb.WriteByte(']')
	return sb.String()
}

var compressions = []int{appendable.NoCompression, appendable.NoCompression, appendable.NoCompression,
	appendable.FlateCompression, appendable.GZipCompression, appendable.LZWCompression, appendable.ZLibCompression}

func compName(c int) string {
	switch c {
	case appendable.NoCompression:
		return "none"
	case appendable.FlateCompression:
		return "flate"
	case appendable.GZipCompression:
		return "gzip"
	case appendable.LZWCompression:
		return "lzw"
	case appendable.ZLibCompression:
		return "zlib"
	}
	return fmt.Sprint(c)
}

func genStoreSpec(rt *rapid.T, maxTxs int) *storeSpec {
	cfg := stx.GenCfg(rt)
	cfg.Synced = false
	cfg.MaxTxEntries = rapid.SampledFrom([]int{8, 64}).Draw(rt, "maxTxEntries2")
	cfg.MaxKeyLen = rapid.SampledFrom([]int{64, 256}).Draw(rt, "maxKeyLen2")
	cfg.Embedded = uni(rt, 3, "embedded2") == 0
	cfg.HdrVersion = []int{1, 1, 0}[uni(rt, 3, "hdrVersion2")]
	cfg.IOConc = 1 + uni(rt, 3, "ioConc2")
	cfg.FileSize = []int{256, 512, 1024, 4096, 1 << 20}[uni(rt, 5, "fileSize2")]
	cfg.Compression = compressions[uni(rt, len(compressions), "compression2")]
	if cfg.Embedded {
		cfg.IOConc = 1
		cfg.Compression = appendable.NoCompression
	}
	s := &storeSpec{Cfg: cfg}
	n := rapid.SampledFrom([]int{1, 2, 3, 3, 4, 5, 6, 8, 12, 18, 25}).Draw(rt, "nTxs")
	if n > maxTxs {
		n = maxTxs
	}
	keys := [][]byte{[]byte("a"), []byte("b"), []byte("key-c"), []byte("key-d"), bytes.Repeat([]byte("p"), 40),
		append(bytes.Repeat([]byte("p"), 40), 'x'), bytes.Repeat([]byte("L"), cfg.MaxKeyLen)}
	var prevVals [][]byte
	ctr := 0
	genValue := func() []byte {
		ctr++
		var v []byte
		switch uni(rt, 12, "vshape") {
		case 0:
			v = []byte{}
		case 1:
			v = []byte{byte('A' + ctr%26)}
		case 2:
			v = bytes.Repeat([]byte{byte('a' + ctr%26)}, cfg.MaxValueLen)
		case 3, 4:
			if len(prevVals) > 0 { // an exact copy of an earlier value
				v = prevVals[rapid.IntRange(0, len(prevVals)-1).Draw(rt, "dupOf")]
			} else {
				v = []byte(fmt.Sprintf("v%03d", ctr))
			}
		case 5:
			m := rapid.IntRange(8, 200).Draw(rt, "vlen")
			if m > cfg.MaxValueLen {
				m = cfg.MaxValueLen
			}
			v = make([]byte, m)
			for i := range v {
				v[i] = byte(ctr*7 + i*13)
			}
		case 6: // compressible
			v = []byte(strings.Repeat(fmt.Sprintf("w%d-", ctr%7), 12))
		default:
			v = []byte(fmt.Sprintf("v%03d", ctr)) // many values of the same length
		}
		prevVals = append(prevVals, v)
		return v
	}
	for i := 0; i < n; i++ {
		var t txSpec
		if cfg.HdrVersion == 1 && uni(rt, 25, "noEntries") == 0 {
			// a transaction without entries is legal when it carries the truncated-up-to attribute
			t.Trunc = uint64(rapid.IntRange(1, 50).Draw(rt, "trunc"))
			s.Txs = append(s.Txs, t)
			continue
		}
		ne := rapid.SampledFrom([]int{1, 1, 1, 2, 2, 3, 5, 8}).Draw(rt, "nEntries")
		for j := 0; j < ne; j++ {
			e := stx.Entry{Key: keys[uni(rt, len(keys), "key")], Value: genValue()}
			if cfg.HdrVersion == 1 {
				switch uni(rt, 20, "kvmd") {
				case 0, 1:
					e.Deleted = true
				case 2, 3:
					e.Expire = 2
				case 4:
					e.Expire = 1
				case 5:
					e.NonIndexable = true
				case 6:
					e.Deleted, e.NonIndexable = true, true
				case 7:
					e.Deleted, e.Expire = true, 2
				}
			}
			t.Entries = append(t.Entries, e)
		}
		t.Entries = stx.Dedup(t.Entries)
		if cfg.HdrVersion == 1 {
			switch uni(rt, 12, "txmd") {
			case 0, 1:
				t.Extra = []byte(fmt.Sprintf("extra-%d", i))
			case 2:
				t.Extra = bytes.Repeat([]byte{byte(i + 1)}, rapid.SampledFrom([]int{1, 2, 64, 255, 256}).Draw(rt, "extraLen"))
			case 3:
				t.Trunc = uint64(rapid.IntRange(1, 1000).Draw(rt, "trunc"))
			case 4:
				t.Trunc = uint64(i + 1)
				t.Extra = []byte("xt")
			}
		}
		s.Txs = append(s.Txs, t)
	}
	return s
}

// ---------------------------------------------------------------------------

// clogger: logger handed to the store; tells the harness when the indexer gave up on a transaction.
type clogger struct {
	mu        sync.Mutex
	idxFailed chan struct{}
	once      sync.Once
	lines     []string
}

func newLogger() *clogger { return &clogger{idxFailed: make(chan struct{})} }

func (l *clogger) Errorf(f string, a ...interface{}) {
	s := fmt.Sprintf(f, a...)
	l.mu.Lock()
	if len(l.lines) < 20 {
		l.lines = append(l.lines, s)
	}
	l.mu.Unlock()
	if strings.HasPrefix(f, "indexing failed") {
		l.once.Do(func() { close(l.idxFailed) })
	}
}
func (l *clogger) Warningf(string, ...interface{}) {}
func (l *clogger) Infof(string, ...interface{})    {}
func (l *clogger) Debugf(string, ...interface{})   {}
func (l *clogger) Close() error                    { return nil }

var baseTime = time.Date(2020, 1, 1, 0, 0, 0, 0, time.UTC)

func (s *storeSpec) options(lg *clogger) *store.Options {
	var ticks int64
	o := s.Cfg.Options().
		WithMaxConcurrency(4).
		WithLogger(lg).
		WithTimeFunc(func() time.Time { return baseTime.Add(time.Duration(atomic.AddInt64(&ticks, 1)) * time.Second) })
	return o
}

// pristine content of a store, as the read API reports it before the store is closed
type pTx struct {
	hdr     *store.TxHeader
	alh     [sha256.Size]byte
	txmd    []byte
	entries []pEnt
	export  []byte
}

type pEnt struct {
	key   []byte
	md    []byte // canonical KV metadata bytes
	value []byte
	hVal  [sha256.Size]byte
	vLen  int
	vOff  int64
	exp   int
}

type pristine struct {
	spec   *storeSpec
	txs    []*pTx
	img    *image
	lay    *layout
	proofs map[[2]uint64]*store.DualProof
	keys   [][]byte
}

func (p *pristine) n() uint64 { return uint64(len(p.txs)) }

func mdBytes(md *store.KVMetadata) []byte {
	if md == nil {
		return nil
	}
	return md.Bytes()
}

func txmdBytes(md *store.TxMetadata) []byte {
	if md == nil {
		return nil
	}
	return md.Bytes()
}

func cpHdr(h *store.TxHeader) *store.TxHeader {
	c := *h
	return &c
}

// buildStore creates the store of the spec under dir, commits everything, records what every
// read path returns (and checks it against the spec: the baseline), closes it cleanly and
// parses the directory. fail is called for baseline disagreements.
func buildStore(spec *storeSpec, dir string, fail func(format string, args ...any)) *pristine {
	lg := newLogger()
	st, err := store.Open(dir, spec.options(lg))
	if err != nil {
		fail("store.Open of a fresh directory: %v", err)
		return nil
	}
	closed := false
	defer func() {
		if !closed {
			st.Close()
		}
	}()
	p := &pristine{spec: spec, proofs: map[[2]uint64]*store.DualProof{}}
	for i, t := range spec.Txs {
		tx, err := st.NewWriteOnlyTx(context.Background())
		if err != nil {
			fail("NewWriteOnlyTx: %v", err)
			return nil
		}
		if len(t.Extra) > 0 || t.Trunc > 0 {
			md := store.NewTxMetadata()
			if t.Trunc > 0 {
				md.WithTruncatedTxID(t.Trunc)
			}
			if len(t.Extra) > 0 {
				if err := md.WithExtra(t.Extra); err != nil {
					fail("WithExtra: %v", err)
					return nil
				}
			}
			tx.WithMetadata(md)
		}
		for _, e := range t.Entries {
			if err := tx.Set(e.Key, e.MD(), e.Value); err != nil {
				fail("Set: %v", err)
				return nil
			}
		}
		hdr, err := tx.AsyncCommit(context.Background())
		if err != nil {
			fail("commit of tx %d (%v): %v", i+1, t, err)
			return nil
		}
		if hdr.ID != uint64(i+1) {
			fail("commit returned id %d want %d", hdr.ID, i+1)
			return nil
		}
	}
	n := uint64(len(spec.Txs))
	ctx, cancel := context.WithTimeout(context.Background(), 120*time.Second)
	err = st.WaitForIndexingUpto(ctx, n)
	cancel()
	if err != nil {
		fail("indexing of the pristine store did not reach tx %d: %v", n, err)
		return nil
	}
	// record + baseline
	holder := store.NewTx(spec.Cfg.MaxTxEntries, spec.Cfg.MaxKeyLen)
	seen := map[string]bool{}
	for i, t := range spec.Txs {
		id := uint64(i + 1)
		if err := st.ReadTx(id, false, holder); err != nil {
			fail("baseline: ReadTx(%d): %v", id, err)
			return nil
		}
		h := holder.Header()
		pt := &pTx{hdr: cpHdr(h), alh: h.Alh(), txmd: txmdBytes(h.Metadata)}
		if h.ID != id || h.NEntries != len(t.Entries) || h.Version != spec.Cfg.HdrVersion {
			fail("baseline: tx %d header %+v does not match the spec", id, h)
			return nil
		}
		wantMD := store.NewTxMetadata()
		if t.Trunc > 0 {
			wantMD.WithTruncatedTxID(t.Trunc)
		}
		wantMD.WithExtra(t.Extra)
		if !bytes.Equal(pt.txmd, wantMD.Bytes()) {
			fail("baseline: tx %d metadata %x want %x", id, pt.txmd, wantMD.Bytes())
			return nil
		}
		for j, e := range holder.Entries() {
			se := t.Entries[j]
			pe := pEnt{key: e.Key(), md: mdBytes(e.Metadata()), hVal: e.HVal(), vLen: e.VLen(), vOff: e.VOff(), value: se.Value, exp: se.Expire}
			if !bytes.Equal(pe.key, se.Key) || !bytes.Equal(pe.md, mdBytes(se.MD())) || pe.hVal != sha256.Sum256(se.Value) || pe.vLen != len(se.Value) {
				fail("baseline: tx %d entry %d read back as key=%q md=%x vLen=%d, spec %v", id, j, pe.key, pe.md, pe.vLen, se)
				return nil
			}
			v, err := st.ReadValue(e)
			if se.Expire == 1 {
				if err == nil {
					fail("baseline: value of the expired entry tx %d/%d was returned", id, j)
					return nil
				}
			} else if err != nil || !bytes.Equal(v, se.Value) {
				fail("baseline: ReadValue tx %d/%d = %q, %v; spec %q", id, j, trunc(v), err, trunc(se.Value))
				return nil
			}
			pt.entries = append(pt.entries, pe)
			if !se.NonIndexable && !seen[string(se.Key)] {
				seen[string(se.Key)] = true
				p.keys = append(p.keys, se.Key)
			}
		}
		ex, err := st.ExportTx(id, false, false, holder)
		if err != nil {
			fail("baseline: ExportTx(%d): %v", id, err)
			return nil
		}
		pt.export = ex
		p.txs = append(p.txs, pt)
	}
	for _, pr := range proofPairs(n) {
		pf, err := st.DualProof(p.txs[pr[0]-1].hdr, p.txs[pr[1]-1].hdr)
		if err != nil {
			fail("baseline: DualProof(%d,%d): %v", pr[0], pr[1], err)
			return nil
		}
		if !store.VerifyDualProof(pf, pr[0], pr[1], p.txs[pr[0]-1].alh, p.txs[pr[1]-1].alh) {
			fail("baseline: DualProof(%d,%d) does not verify", pr[0], pr[1])
			return nil
		}
		p.proofs[pr] = pf
	}
	closed = true
	if err := st.Close(); err != nil {
		fail("Close of the pristine store: %v", err)
		return nil
	}
	img, err := readImage(dir)
	if err != nil {
		fail("harness: reading the store directory: %v", err)
		return nil
	}
	p.img = img
	lay, err := parseLayout(img, spec.Cfg.FileSize, spec.Cfg.Embedded, spec.Cfg.Compression, spec.Cfg.IOConc)
	if err != nil {
		fail("harness: the record parser does not understand the pristine directory: %v", err)
		return nil
	}
	// the harness parser must agree with the store about every field
	if len(lay.recs) != len(p.txs) {
		fail("harness: commit log has %d entries, %d txs committed", len(lay.recs), len(p.txs))
		return nil
	}
	for i, r := range lay.recs {
		pt := p.txs[i]
		ok := r.id == pt.hdr.ID && int64(r.ts) == pt.hdr.Ts && r.blTxID == pt.hdr.BlTxID && r.blRoot == pt.hdr.BlRoot &&
			r.prevAlh == pt.hdr.PrevAlh && int(r.version) == pt.hdr.Version && bytes.Equal(r.txmd, pt.txmd) &&
			r.nentries == len(pt.entries) && r.alh == pt.alh && r.clogAlh == pt.alh
		for j := 0; ok && j < len(r.entries); j++ {
			e, pe := r.entries[j], pt.entries[j]
			ok = bytes.Equal(e.key, pe.key) && bytes.Equal(e.kvmd, pe.md) && int(e.vLen) == pe.vLen && int64(e.vOff) == pe.vOff && e.hVal == pe.hVal
		}
		if !ok {
			fail("harness: parsed record %d disagrees with ReadTx", i+1)
			return nil
		}
	}
	for _, f := range lay.byClass["value"] {
		if !bytes.Equal(lay.bytesOf(f), p.txs[f.tx-1].entries[f.entry].value) {
			fail("harness: located value range of tx %d/%d holds other bytes", f.tx, f.entry)
			return nil
		}
	}
	os.RemoveAll(dir)
	p.lay = lay
	return p
}

// proofPairs: the (source, target) pairs whose dual proofs are compared.
func proofPairs(n uint64) [][2]uint64 {
	var out [][2]uint64
	add := func(a, b uint64) {
		if a >= 1 && a <= b && b <= n {
			for _, o := range out {
				if o == [2]uint64{a, b} {
					return
				}
			}
			out = append(out, [2]uint64{a, b})
		}
	}
	add(1, n)
	add(n, n)
	add(1, 1)
	add(n/2, n)
	add(1, n/2+1)
	add(n-1, n)
	add(2, n-1)
	return out
}

func trunc(b []byte) []byte {
	if len(b) > 24 {
		return b[:24]
	}
	return b
}
