package c09

// Pinned deterministic reproductions of the known findings of C09.

import (
	"fmt"
	"os"
	"runtime"
	"strings"
	"time"

	"github.com/codenotary/immudb/embedded/appendable"
	"github.com/codenotary/immudb/embedded/store"

	"verif/internal/stx"
	"verif/internal/vk"
)

func probeCfg() stx.Cfg {
	return stx.Cfg{SyncFreqMs: 1, HdrVersion: 1, IOConc: 1, FileSize: 1 << 20, TxLogCache: 10, MaxActiveTx: 16, MaxKeyLen: 64, MaxValueLen: 256,
		MaxTxEntries: 8, Compression: appendable.NoCompression, WriteBuf: 4096, BulkSize: 1, FlushThld: 10, SyncThld: 10, IdxCache: 10,
		CompactionThld: 2, AHTSyncThld: 1, MaxBuffered: 1 << 20}
}

func kv(k, v string) stx.Entry { return stx.Entry{Key: []byte(k), Value: []byte(v)} }

// probeStore builds the pristine store of spec; nil when the harness cannot.
func probeStore(spec *storeSpec) *pristine {
	dir := vk.Dir()
	defer os.RemoveAll(dir)
	failed := false
	p := buildStore(spec, dir, func(string, ...any) { failed = true })
	if failed || p == nil {
		return nil
	}
	return p
}

func (l *layout) find(class string, tx, entry int) *field {
	for _, f := range l.byClass[class] {
		if f.tx == tx && f.entry == entry {
			return f
		}
	}
	return nil
}

// openAltered writes the altered copy (index kept) and opens it.
func openAltered(p *pristine, edits []edit) (*store.ImmuStore, string) {
	dir := vk.Dir()
	if err := p.img.writeTo(dir, edits); err != nil {
		return nil, dir
	}
	st, err := store.Open(dir, p.spec.options(newLogger()))
	if err != nil {
		return nil, dir
	}
	return st, dir
}

// probeK4: the 4 vLen bytes of a committed entry rewritten to 0.
func probeK4() (bool, string) {
	p := probeStore(&storeSpec{Cfg: probeCfg(), Txs: []txSpec{{Entries: []stx.Entry{kv("thekey", "thevalue")}}, {Entries: []stx.Entry{kv("k2", "v2")}}}})
	if p == nil {
		return false, ""
	}
	f := p.lay.find("vLen", 1, 0)
	st, dir := openAltered(p, p.lay.editsFor(f.region, f.lo, []byte{0, 0, 0, 0}))
	defer os.RemoveAll(dir)
	if st == nil {
		return false, ""
	}
	defer st.Close()
	tx := store.NewTx(8, 64)
	if err := st.ReadTx(1, false, tx); err != nil {
		return false, ""
	}
	v, err := st.ReadValue(tx.Entries()[0])
	if err != nil {
		return false, ""
	}
	detail := fmt.Sprintf("tx 1 = {thekey: thevalue}; vLen bytes of the tx-log record set to 0: ReadTx(1, integrity checks on) = nil, ReadValue = %q, nil", v)
	return true, detail
}

// probeF4: the 16-bit length of the extra attribute of a committed tx's metadata made larger than the metadata.
func probeF4() (present bool, detail string) {
	p := probeStore(&storeSpec{Cfg: probeCfg(), Txs: []txSpec{{Entries: []stx.Entry{kv("a", "1")}, Extra: []byte("ab")}, {Entries: []stx.Entry{kv("b", "2")}}}})
	if p == nil {
		return false, ""
	}
	f := p.lay.find("txmd", 1, -1) // 01 00 02 'a' 'b'
	if f == nil || f.hi-f.lo != 5 {
		return false, ""
	}
	st, dir := openAltered(p, p.lay.editsFor(f.region, f.lo+1, []byte{0xff, 0xff}))
	defer os.RemoveAll(dir)
	if st == nil {
		return false, ""
	}
	defer st.Close()
	defer func() {
		if r := recover(); r != nil {
			present, detail = true, fmt.Sprintf("tx 1 carries the extra tx-metadata attribute 'ab'; its length bytes set to ff ff: ReadTx(1, integrity checks on) panics: %v", r)
		}
	}()
	st.ReadTx(1, false, store.NewTx(8, 64))
	return false, ""
}

// probeF2: after ExportTx reported a partially truncated transaction the next ExportTx never returns.
func probeF2() (bool, string) {
	p := probeStore(&storeSpec{Cfg: probeCfg(), Txs: []txSpec{{Entries: []stx.Entry{kv("a", "one"), kv("b", "two")}}, {Entries: []stx.Entry{kv("c", "3")}}}})
	if p == nil {
		return false, ""
	}
	f := p.lay.find("vOff", 1, 1)
	st, dir := openAltered(p, p.lay.editsFor(f.region, f.lo, bePut(8, 1<<56|1<<40)))
	defer os.RemoveAll(dir)
	if st == nil {
		return false, ""
	}
	defer st.Close()
	_, err := st.ExportTx(1, false, false, store.NewTx(8, 64))
	if err == nil || !strings.Contains(err.Error(), "partially truncated") {
		return false, ""
	}
	done := make(chan struct{})
	go func() {
		defer close(done)
		st.ExportTx(2, false, false, store.NewTx(8, 64)) // c09-f2-probe
	}()
	// stuck = the goroutine sits in sync.Mutex.Lock for 2 s in a row while nobody else uses the store
	var since time.Time
	deadline := time.Now().Add(60 * time.Second)
	for time.Now().Before(deadline) {
		select {
		case <-done:
			return false, ""
		case <-time.After(50 * time.Millisecond):
		}
		buf := make([]byte, 4<<20)
		buf = buf[:runtime.Stack(buf, true)]
		waiting := false
		for _, g := range strings.Split(string(buf), "\n\n") {
			if strings.Contains(g, "c09.probeF2.func") && strings.Contains(g, "[sync.Mutex.Lock") {
				waiting = true
			}
		}
		switch {
		case !waiting:
			since = time.Time{}
		case since.IsZero():
			since = time.Now()
		case time.Since(since) >= 2*time.Second:
			return true, "tx 1 = {a: one, b: two}, vOff of the second entry pointed beyond the value log: ExportTx(1) = 'partially truncated transaction'; the following ExportTx(2) waits for _valBsMux for ever"
		}
	}
	return true, "ExportTx after a 'partially truncated transaction' error did not return within 60 s"
}

// probeK9: the record of tx 1 overwritten with the (shorter) record of tx 2.
func probeK9() (bool, string) {
	p := probeStore(&storeSpec{Cfg: probeCfg(), Txs: []txSpec{{Entries: []stx.Entry{kv("first-key", "first")}}, {Entries: []stx.Entry{kv("k2", "second")}}, {Entries: []stx.Entry{kv("k3", "third")}}}})
	if p == nil {
		return false, ""
	}
	var r1, r2 int
	for i, r := range p.lay.regions {
		if r.kind == "rec" && r.tx == 1 {
			r1 = i
		}
		if r.kind == "rec" && r.tx == 2 {
			r2 = i
		}
	}
	st, dir := openAltered(p, p.lay.editsFor(r1, 0, p.lay.regions[r2].data))
	defer os.RemoveAll(dir)
	if st == nil {
		return false, ""
	}
	defer st.Close()
	tx := store.NewTx(8, 64)
	if err := st.ReadTx(1, false, tx); err != nil {
		return false, ""
	}
	v, err := st.ReadValue(tx.Entries()[0])
	return true, fmt.Sprintf("record of tx 2 copied over the record of tx 1: ReadTx(1, integrity checks on) = nil with header id %d, key %q, value %q (%v)", tx.Header().ID, tx.Entries()[0].Key(), v, err)
}

// probeK10: several value logs; the value-log id (top byte of vOff) of a committed entry set to an id that does not exist.
func probeK10() (present bool, detail string) {
	cfg := probeCfg()
	cfg.IOConc = 2
	p := probeStore(&storeSpec{Cfg: cfg, Txs: []txSpec{{Entries: []stx.Entry{kv("a", "one")}}, {Entries: []stx.Entry{kv("c", "3")}}}})
	if p == nil {
		return false, ""
	}
	f := p.lay.find("vOff", 1, 0)
	st, dir := openAltered(p, p.lay.editsFor(f.region, f.lo, []byte{5}))
	defer os.RemoveAll(dir)
	if st == nil {
		return false, ""
	}
	defer st.Close()
	tx := store.NewTx(8, 64)
	if err := st.ReadTx(1, false, tx); err != nil {
		return false, ""
	}
	defer func() {
		if r := recover(); r != nil {
			present, detail = true, fmt.Sprintf("MaxIOConcurrency=2, top byte of the vOff of tx 1 set to 5: ReadTx(1, integrity checks on) = nil, ReadValue panics: %v", r)
		}
	}()
	st.ReadValue(tx.Entries()[0])
	return false, ""
}
