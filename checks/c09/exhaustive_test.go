package c09

// Exhaustive single-bit enumeration: every bit of every committed tx record and of
// every referenced value range of fixed tiny stores (the bits are split over the shards).

import (
	"fmt"
	"os"
	"testing"

	"github.com/codenotary/immudb/embedded/appendable"

	"verif/internal/stx"
	"verif/internal/vk"
)

func tinySpecs() []*storeSpec {
	var out []*storeSpec
	base := func() stx.Cfg {
		c := probeCfg()
		c.VLogCache = 0
		return c
	}
	del := stx.Entry{Key: []byte("a"), Value: []byte("gone"), Deleted: true}
	fut := stx.Entry{Key: []byte("f"), Value: []byte("later"), Expire: 2}
	ni := stx.Entry{Key: []byte("n"), Value: []byte("ni"), NonIndexable: true}
	v1 := func() []txSpec {
		return []txSpec{
			{Entries: []stx.Entry{kv("a", "one"), kv("b", ""), kv("c", "same")}, Extra: []byte("xt")},
			{Entries: []stx.Entry{del, fut, kv("c", "same")}, Trunc: 1},
			{Entries: []stx.Entry{kv("a", "four"), ni}},
			{Entries: []stx.Entry{kv("z", "last")}},
		}
	}
	v0 := func() []txSpec {
		return []txSpec{
			{Entries: []stx.Entry{kv("a", "one"), kv("b", ""), kv("c", "same")}},
			{Entries: []stx.Entry{kv("a", "two2"), kv("c", "same")}},
			{Entries: []stx.Entry{kv("z", "last")}},
		}
	}
	for _, comp := range []int{appendable.NoCompression, appendable.FlateCompression, appendable.GZipCompression, appendable.LZWCompression, appendable.ZLibCompression} {
		for _, hv := range []int{1, 0} {
			c := base()
			c.Compression, c.HdrVersion = comp, hv
			if comp == appendable.GZipCompression || comp == appendable.LZWCompression {
				c.IOConc = 2
			}
			txs := v1()
			if hv == 0 {
				txs = v0()
			}
			out = append(out, &storeSpec{Cfg: c, Txs: txs})
		}
	}
	for _, hv := range []int{1, 0} {
		c := base()
		c.Embedded, c.HdrVersion = true, hv
		txs := v1()
		if hv == 0 {
			txs = v0()
		}
		out = append(out, &storeSpec{Cfg: c, Txs: txs})
	}
	// records and values spanning chunk files; preallocated files; three value logs
	c := base()
	c.FileSize = 256
	out = append(out, &storeSpec{Cfg: c, Txs: v1()})
	c = base()
	c.FileSize, c.Embedded = 256, true
	out = append(out, &storeSpec{Cfg: c, Txs: v1()})
	c = base()
	c.Prealloc, c.FileSize, c.IOConc = true, 4096, 3
	out = append(out, &storeSpec{Cfg: c, Txs: v0()})
	return out
}

func TestExhaustiveSingleBit(t *testing.T) {
	specs := tinySpecs()
	if !vk.Thorough() {
		specs = specs[:1] // quick: one store (uncompressed, header version 1, kv + tx metadata)
	}
	const name = "TestExhaustiveSingleBit"
	shard, shards := vk.Shard(), vk.Shards()
	total := 0
	for si, spec := range specs {
		dir := vk.Dir()
		failed := ""
		p := buildStore(spec, dir, func(f string, a ...any) { failed = fmt.Sprintf(f, a...) })
		os.RemoveAll(dir)
		if failed != "" || p == nil {
			vk.ReportViolation(name, map[string]any{"message": "baseline: " + failed, "store": spec.String()})
			t.Fatalf("baseline of tiny store %d: %s", si, failed)
		}
		shape := fmt.Sprintf("tiny%d emb=%v cmp=%s hv=%d fs=%d io=%d pre=%v", si, spec.Cfg.Embedded, compName(spec.Cfg.Compression), spec.Cfg.HdrVersion, spec.Cfg.FileSize, spec.Cfg.IOConc, spec.Cfg.Prealloc)
		base := map[bool]map[string]int{}
		for _, rb := range []bool{false, true} {
			r := runAlteration(p, nil, rb)
			if r.violation != "" || !r.opened || r.indexedTo != p.n() {
				vk.ReportViolation(name, map[string]any{"message": "unaltered copy does not read back: " + r.violation, "store": spec.String()})
				t.Fatalf("unaltered copy of tiny store %d does not read back: %s %v", si, r.violation, r.errs)
			}
			base[rb] = r.errs
		}
		bitNo := 0
		for ri, reg := range p.lay.regions {
			for pos := range reg.addrs {
				for bit := 0; bit < 8; bit++ {
					bitNo++
					if bitNo%shards != shard {
						continue
					}
					alt := &alteration{kind: "flip1", tx: reg.tx, entry: reg.entry, edits: flipBit(p.lay, ri, pos, bit), what: fmt.Sprintf("r%d+%d.%d", ri, pos, bit)}
					fs := p.lay.touched(alt.edits)
					if len(fs) > 0 {
						alt.class, alt.entry = fs[0].class, fs[0].entry
					}
					modes := []bool{true}
					if reg.kind == "val" {
						modes = []bool{true, false} // the kept index only depends on the value bytes
					}
					for _, rebuild := range modes {
						e := vk.NewEnum(name)
						e.Descf("%s | %s rebuild=%v", shape, alt, rebuild)
						e.Label("class:" + alt.class)
						total++
						switch {
						case vk.Excluded(kfK4) && p.lay.vLenZeroed(alt.edits):
							vk.CountExcluded(kfK4)
							e.Label("excluded:K4")
						case vk.Excluded(kfF4) && p.lay.anyTxmdPanics(alt.edits):
							vk.CountExcluded(kfF4)
							e.Label("excluded:F4")
						case vk.Excluded(kfK10) && p.lay.vlogIDBeyond(alt.edits, spec.Cfg.IOConc):
							vk.CountExcluded(kfK10)
							e.Label("excluded:K10")
						default:
							r := runAlteration(p, alt, rebuild)
							if r.violation != "" {
								e.Failf(t, map[string]any{"store": spec.String(), "alteration": alt.String(), "edits": editDump(alt.edits), "rebuild_index": rebuild},
									"%s [store: %s; alteration: %s; index rebuilt: %v]", r.violation, shape, alt, rebuild)
								return
							}
							if outcomeLabels(e, r, base[rebuild], true) {
								e.Label("silently-accepted-change-in:" + alt.class)
							}
							e.NonTrivial()
						}
						e.Done()
					}
				}
			}
		}
	}
	if vk.Thorough() {
		vk.SetExhaustive(fmt.Sprintf("every single bit of every committed tx record and referenced value range of %d fixed tiny stores (embedded / plain / flate / gzip / lzw / zlib value logs, header version 0 and 1, multi-chunk, preallocated), split over the shards", len(specs)))
	} else {
		vk.SetExhaustive("every single bit of every committed tx record and referenced value range of one fixed tiny store (split over the shards)")
	}
	t.Logf("%d single-bit alterations on this shard", total)
}
