package c09

// The harness' own view of a store directory: an in-memory image of every
// file, the chunked logs (appendable header + payload per chunk file), the
// commit-log entries, and an independent parser of the tx-log record layout
// (immustore.go performPrecommit / tx.go txDataReader) that locates every
// field of every committed record and the byte ranges of the values they
// reference. Nothing here calls into embedded/store.

import (
	"encoding/binary"
	"fmt"
	"os"
	"path/filepath"
	"sort"
	"strings"
)

// image of a directory tree: relative path -> content
type image struct {
	files map[string][]byte
	names []string // sorted
}

func readImage(root string) (*image, error) {
	img := &image{files: map[string][]byte{}}
	err := filepath.Walk(root, func(p string, info os.FileInfo, err error) error {
		if err != nil {
			return err
		}
		if info.IsDir() {
			return nil
		}
		rel, _ := filepath.Rel(root, p)
		b, err := os.ReadFile(p)
		if err != nil {
			return err
		}
		img.files[rel] = b
		img.names = append(img.names, rel)
		return nil
	})
	sort.Strings(img.names)
	return img, err
}

func (img *image) size() int {
	n := 0
	for _, b := range img.files {
		n += len(b)
	}
	return n
}

// writeTo materialises the image under root with the edits applied; files
// under a directory of skipDirs (e.g. "index") are left out.
func (img *image) writeTo(root string, edits []edit, skipDirs ...string) error {
	patched := map[string][]byte{}
	for _, e := range edits {
		b, ok := patched[e.file]
		if !ok {
			b = append([]byte(nil), img.files[e.file]...)
			patched[e.file] = b
		}
		b[e.off] = e.new
	}
	made := map[string]bool{}
next:
	for _, name := range img.names {
		for _, sd := range skipDirs {
			if name == sd || strings.HasPrefix(name, sd+string(filepath.Separator)) {
				continue next
			}
		}
		b := img.files[name]
		if pb, ok := patched[name]; ok {
			b = pb
		}
		p := filepath.Join(root, name)
		if d := filepath.Dir(p); !made[d] {
			if err := os.MkdirAll(d, 0o755); err != nil {
				return err
			}
			made[d] = true
		}
		if err := os.WriteFile(p, b, 0o644); err != nil {
			return err
		}
	}
	return nil
}

// addr is one byte of one file.
type addr struct {
	file string
	off  int64
}

// edit replaces one byte.
type edit struct {
	file     string
	off      int64
	old, new byte
}

// chunked log = the files <dir>/%08d.<ext>; each file is [mLen 4][metadata mLen][payload]
type chunk struct {
	name    string
	base    int // offset of the payload in the file
	payload []byte
}

type clog struct {
	dir      string
	fileSize int
	chunks   []chunk
}

func loadLog(img *image, dir, ext string, fileSize int) (*clog, error) {
	l := &clog{dir: dir, fileSize: fileSize}
	for i := 0; ; i++ {
		name := filepath.Join(dir, fmt.Sprintf("%08d.%s", i, ext))
		b, ok := img.files[name]
		if !ok {
			break
		}
		if len(b) < 4 {
			return nil, fmt.Errorf("%s: short header", name)
		}
		mLen := int(binary.BigEndian.Uint32(b))
		if len(b) < 4+mLen {
			return nil, fmt.Errorf("%s: short metadata", name)
		}
		l.chunks = append(l.chunks, chunk{name: name, base: 4 + mLen, payload: b[4+mLen:]})
	}
	if len(l.chunks) == 0 {
		return nil, fmt.Errorf("%s: no chunk files", dir)
	}
	return l, nil
}

// stream is the logical byte stream of an uncompressed log (what ReadAt sees)
// together with the address of every byte.
func (l *clog) stream() ([]byte, []addr, error) {
	var bs []byte
	var as []addr
	for i, c := range l.chunks {
		p := c.payload
		if i < len(l.chunks)-1 {
			if len(p) < l.fileSize {
				return nil, nil, fmt.Errorf("%s: inner chunk holds %d < fileSize %d bytes", c.name, len(p), l.fileSize)
			}
		}
		if len(p) > l.fileSize {
			p = p[:l.fileSize]
		}
		for j := range p {
			as = append(as, addr{c.name, int64(c.base + j)})
		}
		bs = append(bs, p...)
	}
	return bs, as, nil
}

// chunkRange addresses n bytes at chunk-local positions of the chunk that holds
// logical offset off (compressed logs keep a whole record inside one chunk file,
// even beyond fileSize).
func (l *clog) chunkRange(off int64, n int) ([]byte, []addr, error) {
	ci := int(off / int64(l.fileSize))
	lo := int(off % int64(l.fileSize))
	if ci >= len(l.chunks) {
		return nil, nil, fmt.Errorf("%s: offset %d beyond the last chunk", l.dir, off)
	}
	c := l.chunks[ci]
	if lo+n > len(c.payload) {
		return nil, nil, fmt.Errorf("%s: range %d+%d beyond chunk payload %d", c.name, lo, n, len(c.payload))
	}
	as := make([]addr, n)
	for j := 0; j < n; j++ {
		as[j] = addr{c.name, int64(c.base + lo + j)}
	}
	return c.payload[lo : lo+n], as, nil
}

// ---------------------------------------------------------------------------
// tx-log records

// field of a region: bytes [lo,hi) of the region
type field struct {
	class  string // id ts blTxID blRoot prevAlh version txmdLen txmd nentries kvmdLen kvmd kLen key vLen vOff hVal alh | value zlen zdata
	tx     int    // 1-based tx id
	entry  int    // -1 for header fields
	region int    // index into layout.regions
	lo, hi int
}

// region: a run of bytes read as a unit (one tx record, or one stored value)
type region struct {
	kind  string // "rec" | "val"
	tx    int
	entry int
	addrs []addr
	data  []byte // pristine bytes
	log   string // directory of the log that holds it
}

type pEntry struct {
	kvmd []byte
	key  []byte
	vLen uint32
	vOff uint64
	hVal [32]byte
}

type pRec struct {
	off, size int
	id        uint64
	ts        uint64
	blTxID    uint64
	blRoot    [32]byte
	prevAlh   [32]byte
	version   uint16
	txmd      []byte
	nentries  int
	entries   []pEntry
	alh       [32]byte
	clogAlh   [32]byte
}

type layout struct {
	embedded   bool
	compressed bool
	fileSize   int
	txStream   []byte
	txAddrs    []addr
	recs       []*pRec
	regions    []*region
	fields     []*field
	byClass    map[string][]*field
	classes    []string // sorted
	vlogs      map[int]*clog
}

type rdr struct {
	b   []byte
	p   int
	err error
}

func (r *rdr) take(n int) []byte {
	if r.err != nil {
		return make([]byte, n)
	}
	if r.p+n > len(r.b) {
		r.err = fmt.Errorf("short record at %d (+%d)", r.p, n)
		return make([]byte, n)
	}
	v := r.b[r.p : r.p+n]
	r.p += n
	return v
}
func (r *rdr) u16() uint16 { return binary.BigEndian.Uint16(r.take(2)) }
func (r *rdr) u32() uint32 { return binary.BigEndian.Uint32(r.take(4)) }
func (r *rdr) u64() uint64 { return binary.BigEndian.Uint64(r.take(8)) }

const maxTxMDLen = 1 + 8 + 1 + 2 + 256

// parseRecord parses the record at off of the logical tx-log stream; add is
// called with (class, entry, lo, hi) relative to off for every field.
func parseRecord(stream []byte, off int, add func(class string, entry, lo, hi int)) (*pRec, error) {
	r := &rdr{b: stream, p: off}
	rec := &pRec{off: off}
	mark := func(class string, entry int, n int, f func()) {
		lo := r.p - off
		f()
		if add != nil && r.err == nil {
			add(class, entry, lo, lo+n)
		}
	}
	mark("id", -1, 8, func() { rec.id = r.u64() })
	mark("ts", -1, 8, func() { rec.ts = r.u64() })
	mark("blTxID", -1, 8, func() { rec.blTxID = r.u64() })
	mark("blRoot", -1, 32, func() { copy(rec.blRoot[:], r.take(32)) })
	mark("prevAlh", -1, 32, func() { copy(rec.prevAlh[:], r.take(32)) })
	mark("version", -1, 2, func() { rec.version = r.u16() })
	switch rec.version {
	case 0:
		mark("nentries", -1, 2, func() { rec.nentries = int(r.u16()) })
	case 1:
		var mdLen int
		mark("txmdLen", -1, 2, func() { mdLen = int(r.u16()) })
		if mdLen > maxTxMDLen {
			return nil, fmt.Errorf("tx metadata length %d", mdLen)
		}
		if mdLen > 0 {
			mark("txmd", -1, mdLen, func() { rec.txmd = append([]byte(nil), r.take(mdLen)...) })
		}
		mark("nentries", -1, 4, func() { rec.nentries = int(r.u32()) })
	default:
		return nil, fmt.Errorf("header version %d", rec.version)
	}
	if r.err != nil {
		return nil, r.err
	}
	if rec.nentries > 1<<16 {
		return nil, fmt.Errorf("nentries %d", rec.nentries)
	}
	for i := 0; i < rec.nentries; i++ {
		var e pEntry
		var mdLen, kLen int
		mark("kvmdLen", i, 2, func() { mdLen = int(r.u16()) })
		if mdLen > 0 {
			mark("kvmd", i, mdLen, func() { e.kvmd = append([]byte(nil), r.take(mdLen)...) })
		}
		mark("kLen", i, 2, func() { kLen = int(r.u16()) })
		mark("key", i, kLen, func() { e.key = append([]byte(nil), r.take(kLen)...) })
		mark("vLen", i, 4, func() { e.vLen = r.u32() })
		mark("vOff", i, 8, func() { e.vOff = r.u64() })
		mark("hVal", i, 32, func() { copy(e.hVal[:], r.take(32)) })
		if r.err != nil {
			return nil, r.err
		}
		rec.entries = append(rec.entries, e)
	}
	mark("alh", -1, 32, func() { copy(rec.alh[:], r.take(32)) })
	if r.err != nil {
		return nil, r.err
	}
	rec.size = r.p - off
	return rec, nil
}

const clogEntrySize = 8 + 4 + 32

// parseLayout maps the committed records and the value ranges of a pristine image.
func parseLayout(img *image, fileSize int, embedded bool, compression int, ioConc int) (*layout, error) {
	l := &layout{embedded: embedded, compressed: compression != 0 && !embedded, fileSize: fileSize,
		byClass: map[string][]*field{}, vlogs: map[int]*clog{}}
	txl, err := loadLog(img, "tx", "tx", fileSize)
	if err != nil {
		return nil, err
	}
	l.txStream, l.txAddrs, err = txl.stream()
	if err != nil {
		return nil, err
	}
	cl, err := loadLog(img, "commit", "txi", fileSize)
	if err != nil {
		return nil, err
	}
	cs, _, err := cl.stream()
	if err != nil {
		return nil, err
	}
	if !embedded {
		for i := 0; i < ioConc; i++ {
			vl, err := loadLog(img, fmt.Sprintf("val_%d", i), "val", fileSize)
			if err != nil {
				return nil, err
			}
			l.vlogs[i+1] = vl
		}
	}
	type vstream struct {
		bs []byte
		as []addr
	}
	vstreams := map[int]*vstream{}
	addField := func(f *field) {
		l.fields = append(l.fields, f)
		l.byClass[f.class] = append(l.byClass[f.class], f)
	}
	for i := 0; (i+1)*clogEntrySize <= len(cs); i++ {
		e := cs[i*clogEntrySize : (i+1)*clogEntrySize]
		allZero := true
		for _, x := range e {
			if x != 0 {
				allZero = false
			}
		}
		if allZero {
			break // preallocated commit log
		}
		off := int(binary.BigEndian.Uint64(e))
		size := int(binary.BigEndian.Uint32(e[8:]))
		tx := i + 1
		if off+size > len(l.txStream) {
			return nil, fmt.Errorf("commit-log entry %d points beyond the tx log", tx)
		}
		ri := len(l.regions)
		reg := &region{kind: "rec", tx: tx, entry: -1, addrs: l.txAddrs[off : off+size], data: l.txStream[off : off+size], log: "tx"}
		l.regions = append(l.regions, reg)
		rec, err := parseRecord(l.txStream, off, func(class string, entry, lo, hi int) {
			addField(&field{class: class, tx: tx, entry: entry, region: ri, lo: lo, hi: hi})
		})
		if err != nil {
			return nil, fmt.Errorf("tx %d: %v", tx, err)
		}
		if rec.size != size || rec.id != uint64(tx) {
			return nil, fmt.Errorf("tx %d: parsed id %d size %d, commit log says size %d", tx, rec.id, rec.size, size)
		}
		copy(rec.clogAlh[:], e[12:])
		l.recs = append(l.recs, rec)
		// value ranges
		for ei, pe := range rec.entries {
			if pe.vLen == 0 {
				continue
			}
			vlogID := int(pe.vOff >> 56)
			voff := int64(pe.vOff & (1<<55 - 1))
			vi := len(l.regions)
			switch {
			case embedded:
				if vlogID != 0 || int(voff)+int(pe.vLen) > len(l.txStream) {
					return nil, fmt.Errorf("tx %d entry %d: embedded value offset %x", tx, ei, pe.vOff)
				}
				lo, hi := int(voff), int(voff)+int(pe.vLen)
				l.regions = append(l.regions, &region{kind: "val", tx: tx, entry: ei, addrs: l.txAddrs[lo:hi], data: l.txStream[lo:hi], log: "tx"})
				addField(&field{class: "value", tx: tx, entry: ei, region: vi, lo: 0, hi: int(pe.vLen)})
			case !l.compressed:
				vl := l.vlogs[vlogID]
				if vl == nil {
					return nil, fmt.Errorf("tx %d entry %d: value log %d", tx, ei, vlogID)
				}
				vst := vstreams[vlogID]
				if vst == nil {
					bs, as, err := vl.stream()
					if err != nil {
						return nil, err
					}
					vst = &vstream{bs, as}
					vstreams[vlogID] = vst
				}
				vs, va := vst.bs, vst.as
				lo, hi := int(voff), int(voff)+int(pe.vLen)
				if hi > len(vs) {
					return nil, fmt.Errorf("tx %d entry %d: value beyond value log", tx, ei)
				}
				l.regions = append(l.regions, &region{kind: "val", tx: tx, entry: ei, addrs: va[lo:hi], data: vs[lo:hi], log: vl.dir})
				addField(&field{class: "value", tx: tx, entry: ei, region: vi, lo: 0, hi: int(pe.vLen)})
			default:
				vl := l.vlogs[vlogID]
				if vl == nil {
					return nil, fmt.Errorf("tx %d entry %d: value log %d", tx, ei, vlogID)
				}
				hb, _, err := vl.chunkRange(voff, 4)
				if err != nil {
					return nil, err
				}
				zl := int(binary.BigEndian.Uint32(hb))
				data, as, err := vl.chunkRange(voff, 4+zl)
				if err != nil {
					return nil, err
				}
				l.regions = append(l.regions, &region{kind: "val", tx: tx, entry: ei, addrs: as, data: data, log: vl.dir})
				addField(&field{class: "zlen", tx: tx, entry: ei, region: vi, lo: 0, hi: 4})
				addField(&field{class: "zdata", tx: tx, entry: ei, region: vi, lo: 4, hi: 4 + zl})
			}
		}
	}
	for c := range l.byClass {
		l.classes = append(l.classes, c)
	}
	sort.Strings(l.classes)
	return l, nil
}

func (l *layout) bytesOf(f *field) []byte { return l.regions[f.region].data[f.lo:f.hi] }

// editsFor builds the edits that turn bytes [lo, lo+len(nb)) of region ri into nb
// (only bytes that really change).
func (l *layout) editsFor(ri, lo int, nb []byte) []edit {
	reg := l.regions[ri]
	var es []edit
	for j, x := range nb {
		if lo+j >= len(reg.addrs) {
			break
		}
		if old := reg.data[lo+j]; old != x {
			a := reg.addrs[lo+j]
			es = append(es, edit{file: a.file, off: a.off, old: old, new: x})
		}
	}
	return es
}

// applyToStream returns the logical tx-log stream with the edits applied.
func (l *layout) applyToStream(edits []edit) []byte {
	var out []byte
	for _, e := range edits {
		if !strings.HasPrefix(e.file, "tx"+string(filepath.Separator)) {
			continue
		}
		if out == nil {
			out = append([]byte(nil), l.txStream...)
		}
		// binary search on addresses is not needed: streams are small, but edits may be many (splices)
		i := l.streamIndex(e.file, e.off)
		if i >= 0 {
			out[i] = e.new
		}
	}
	if out == nil {
		return l.txStream
	}
	return out
}

func (l *layout) streamIndex(file string, off int64) int {
	// chunks are laid out in order, fileSize bytes each (the last may be shorter)
	for i := 0; i < len(l.txAddrs); i += l.fileSize {
		a := l.txAddrs[i]
		if a.file == file {
			d := int(off - a.off)
			if d >= 0 && i+d < len(l.txAddrs) && l.txAddrs[i+d].file == file {
				return i + d
			}
			return -1
		}
	}
	return -1
}
