package c09

import (
	"fmt"
	"os"
	"testing"

	"pgregory.net/rapid"
	"verif/internal/vk"
)

// development aid: prints the alterations that changed consumed bytes and were not noticed by any reader
func TestSilentDev(t *testing.T) {
	if os.Getenv("C09_DEV") == "" {
		t.Skip()
	}
	rapid.Check(t, func(rt *rapid.T) {
		spec := genStoreSpec(rt, 25)
		dir := vk.Dir()
		p := buildStore(spec, dir, func(f string, a ...any) { rt.Fatalf(f, a...) })
		base := map[bool]map[string]int{false: runAlteration(p, nil, false).errs, true: runAlteration(p, nil, true).errs}
		for i := 0; i < 8; i++ {
			alt := genAlteration(rt, p)
			if p.lay.vLenZeroed(alt.edits) || p.lay.anyTxmdPanics(alt.edits) || p.lay.vlogIDBeyond(alt.edits, spec.Cfg.IOConc) || len(alt.edits) == 0 {
				continue
			}
			rb := i%2 == 0
			ra := runAlteration(p, alt, rb)
			if ra.violation != "" {
				fmt.Printf("VIOL %s: %.300s\n", alt, ra.violation)
				continue
			}
			nerr := 0
			for k, n := range ra.errs {
				if n > base[rb][k] {
					nerr++
				}
			}
			if ra.opened && nerr == 0 {
				e := p.txs[alt.tx-1]
				var ent string
				if alt.entry >= 0 {
					ent = fmt.Sprintf("entry: vLen=%d exp=%d md=%x", e.entries[alt.entry].vLen, e.entries[alt.entry].exp, e.entries[alt.entry].md)
				}
				fmt.Printf("SILENT emb=%v cmp=%d %s notes=%v %s\n", spec.Cfg.Embedded, spec.Cfg.Compression, alt, ra.notes, ent)
			}
		}
	})
}
