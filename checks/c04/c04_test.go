// C04 — reads reflect exactly the committed log (index agrees with history).
package c04

import (
	"bytes"
	"context"
	"errors"
	"fmt"
	"os"
	"sort"
	"strings"
	"testing"
	"time"

	"github.com/codenotary/immudb/embedded/logger"
	"github.com/codenotary/immudb/embedded/store"
	"github.com/codenotary/immudb/embedded/tbtree"
	"pgregory.net/rapid"

	"verif/internal/stx"
	"verif/internal/vk"
)

func TestMain(m *testing.M) {
	vk.Main(m, vk.Config{
		Property: "C04",
		Rule: "rapid stateful histories on a real store (generated index options: bulk size, flush/sync thresholds, node size, cache, buffered-data limit; " +
			"default index, or multi-indexing with prefixed and injective mapped indexes) with commit/flush/compact/snapshot/reopen interleaved; every read API is compared " +
			"with a reference KV-history model after indexing caught up. Non-trivial: history with >=1 overwritten or deleted key AND (bulk size > 1 OR a flush/compaction/reopen " +
			"between a write and the read that observes it); distinct by hash of (config, op sequence).",
		Assumptions: []string{
			"expirations use fixed far-past / far-future instants, so the wall clock cannot flip an outcome",
			"GetWithPrefix is asserted only when the first key under the prefix is live or no key exists (the code applies the filters to the first key only; the property does not pin that case)",
			"history of mapped (secondary) index keys is not asserted, only live lookups/scans: one live mapped key per live source row",
			"an indexer that does not catch up within 60 s is reported as infrastructure/inconclusive unless a probe pins it",
		},
		Probes: []vk.Probe{
			{ID: "F1-indexer-bulk-key-aliasing", Present: probeF1},
			{ID: "F9-injective-index-stale-entry-in-bulk", Present: probeF9},
			{ID: "F10-injective-index-tombstone-readonly-metadata", Present: probeF10},
			{ID: "F11-indexer-kvs-overflow-panic", Present: probeF11},
			{ID: "F12-tbtree-getbetween-foreign-history", Present: probeF12},
		},
	})
}

// probeF1: with MaxBulkSize > 1 the indexer kept slices into a reused tx buffer as keys.
func probeF1() (bool, string) {
	dir := vk.Dir()
	defer os.RemoveAll(dir)
	opts := store.DefaultOptions().WithLogger(logger.NewMemoryLoggerWithLevel(logger.LogError)).WithIndexOptions(store.DefaultIndexOptions().WithMaxBulkSize(4).WithBulkPreparationTimeout(200 * time.Millisecond))
	st, err := store.Open(dir, opts)
	if err != nil {
		return false, ""
	}
	defer st.Close()
	for i := 0; i < 8; i++ {
		tx, _ := st.NewWriteOnlyTx(context.Background())
		tx.Set([]byte(fmt.Sprintf("key-%d", i)), nil, []byte(fmt.Sprintf("v%d", i)))
		if _, err := tx.AsyncCommit(context.Background()); err != nil {
			return false, ""
		}
	}
	ctx, cancel := context.WithTimeout(context.Background(), 30*time.Second)
	defer cancel()
	if err := st.WaitForIndexingUpto(ctx, 8); err != nil {
		return true, "indexing of 8 single-key txs with bulk size 4 did not complete: " + err.Error()
	}
	missing := 0
	for i := 0; i < 8; i++ {
		if _, err := st.Get(context.Background(), []byte(fmt.Sprintf("key-%d", i))); err != nil {
			missing++
		}
	}
	if missing > 0 {
		return true, fmt.Sprintf("8 single-key txs, MaxBulkSize=4: %d of 8 keys not found after indexing", missing)
	}
	return false, ""
}

// index layout of a case
type idxSpec struct {
	kind   string // "default", "prefixed", "mapped"
	source []byte
	target []byte
}

var (
	prefA = []byte("A")
	prefB = []byte("B")
	prefM = []byte("M") // mapped from A
)

// mapper of the secondary index: target = "M" + first value byte (0 when empty) + source key without its prefix
func mapAtoM(key, value []byte) ([]byte, error) {
	f := byte(0)
	if len(value) > 0 {
		f = value[0]
	}
	out := make([]byte, 0, len(key)+1)
	out = append(out, 'M', f)
	out = append(out, key[1:]...)
	return out, nil
}

type env struct {
	rt    *rapid.T
	c     *vk.Case
	cfg   stx.Cfg
	dir   string
	st    *store.ImmuStore
	model stx.Model
	specs []idxSpec
	multi bool

	keyPool [][]byte
	// bookkeeping for the non-triviality rule
	overwritten      bool
	maintSinceWrite  bool
	observedAfterMnt bool
}

func (e *env) open() {
	opts := e.cfg.Options()
	st, err := store.Open(e.dir, opts)
	if err != nil {
		e.c.Failf(e.rt, nil, "store.Open: %v", err)
	}
	e.st = st
	if e.multi {
		for _, s := range e.specs {
			spec := &store.IndexSpec{SourcePrefix: s.source, TargetPrefix: s.target}
			if s.kind == "mapped" {
				spec.TargetEntryMapper = mapAtoM
				spec.InjectiveMapping = true
			}
			if err := st.InitIndexing(spec); err != nil {
				e.c.Failf(e.rt, nil, "InitIndexing(%s): %v", s.kind, err)
			}
		}
	}
}

func (e *env) waitIndexed() {
	n := e.model.N()
	if n == 0 {
		return
	}
	ctx, cancel := context.WithTimeout(context.Background(), 60*time.Second)
	defer cancel()
	if err := e.st.WaitForIndexingUpto(ctx, n); err != nil {
		e.c.Failf(e.rt, nil, "indexing did not catch up with tx %d within 60s: %v", n, err)
	}
}

func (e *env) genKey(label string) []byte {
	rt := e.rt
	pfx := []byte{}
	if e.multi {
		pfx = rapid.SampledFrom([][]byte{prefA, prefA, prefB}).Draw(rt, label+"Pfx")
	}
	if len(e.keyPool) > 0 && rapid.IntRange(0, 9).Draw(rt, label+"Reuse") < 6 {
		k := e.keyPool[rapid.IntRange(0, len(e.keyPool)-1).Draw(rt, label+"Idx")]
		if !e.multi || bytes.HasPrefix(k, pfx) {
			return k
		}
	}
	var body []byte
	switch rapid.IntRange(0, 9).Draw(rt, label+"Shape") {
	case 0: // long shared prefix
		body = append(bytes.Repeat([]byte("p"), 40), byte('a'+rapid.IntRange(0, 5).Draw(rt, label+"Sfx")))
	case 1: // max-length key
		n := e.cfg.MaxKeyLen - len(pfx)
		if e.multi {
			n-- // mapped key is one byte longer
		}
		body = bytes.Repeat([]byte("z"), n)
		body[n-1] = byte('a' + rapid.IntRange(0, 3).Draw(rt, label+"Sfx"))
	default:
		body = []byte(rapid.StringMatching(`[a-d]{1,3}`).Draw(rt, label+"Body"))
	}
	k := append(append([]byte{}, pfx...), body...)
	e.keyPool = append(e.keyPool, k)
	return k
}

func (e *env) genEntry(i int) stx.Entry {
	rt := e.rt
	en := stx.Entry{Key: e.genKey(fmt.Sprintf("k%d", i))}
	switch rapid.IntRange(0, 11).Draw(rt, "vshape") {
	case 0:
		en.Value = []byte{}
	case 1:
		n := e.cfg.MaxValueLen
		en.Value = bytes.Repeat([]byte{byte('A' + rapid.IntRange(0, 3).Draw(rt, "vb"))}, n)
	default:
		en.Value = []byte(rapid.StringMatching(`[x-z][0-9]{0,6}`).Draw(rt, "val"))
	}
	mdc := rapid.IntRange(0, 11).Draw(rt, "md")
	if e.cfg.HdrVersion == 0 {
		mdc = 11 // header version 0 (1.1 compatibility) cannot carry metadata
	}
	switch mdc {
	case 0, 1:
		en.Deleted = true
	case 2:
		en.Expire = 1
	case 3:
		en.Expire = 2
	case 4:
		en.NonIndexable = true
	}
	return en
}

func (e *env) commit() {
	rt := e.rt
	n := 1
	switch rapid.IntRange(0, 5).Draw(rt, "nEntries") {
	case 0:
		n = rapid.IntRange(2, 6).Draw(rt, "n")
	case 1:
		max := e.cfg.MaxTxEntries
		if max > 50 {
			max = 50
		}
		n = rapid.IntRange(2, max).Draw(rt, "nBig")
	}
	var entries []stx.Entry
	for i := 0; i < n; i++ {
		entries = append(entries, e.genEntry(i))
	}
	entries = stx.Dedup(entries)
	for _, en := range entries {
		if len(e.model.Versions(en.Key, e.model.N())) > 0 || en.Deleted {
			e.overwritten = true
		}
	}
	hdr, err := stx.Commit(e.st, entries, rapid.Bool().Draw(rt, "waitIdx"))
	if err != nil {
		e.c.Failf(rt, nil, "commit of %v failed: %v", entries, err)
	}
	if hdr.ID != e.model.N()+1 {
		e.c.Failf(rt, nil, "commit returned id %d, model expects %d", hdr.ID, e.model.N()+1)
	}
	e.model.Add(hdr, entries)
	e.maintSinceWrite = false
	e.c.Descf("C%d", len(entries))
}

// ---------------------------------------------------------------------------
// comparison with the model

type got struct {
	tx, hc  uint64
	val     []byte
	deleted bool
	exp     bool
}

func (e *env) checkRef(what string, key []byte, ref store.ValueRef, want stx.Ver) {
	if ref.Tx() != want.Tx || ref.HC() != want.HC {
		e.failf("%s(%q): tx=%d rev=%d, model tx=%d rev=%d", what, key, ref.Tx(), ref.HC(), want.Tx, want.HC)
	}
	v, err := ref.Resolve()
	if want.E.Expire == 1 {
		// resolving an expired entry is refused by design; it must never yield a value
		if err == nil {
			e.failf("%s(%q): expired version (tx %d) resolved to %q", what, key, want.Tx, trunc(v))
		}
	} else if err != nil || !bytes.Equal(v, want.E.Value) {
		e.failf("%s(%q): value=%q err=%v, model %q (tx %d)", what, key, trunc(v), err, trunc(want.E.Value), want.Tx)
	}
	md := ref.KVMetadata()
	del := md != nil && md.Deleted()
	expb := md != nil && md.IsExpirable()
	if del != want.E.Deleted || expb != (want.E.Expire != 0) {
		e.failf("%s(%q): metadata deleted=%v expirable=%v, model %+v", what, key, del, expb, want.E)
	}
	if int(ref.Len()) != len(want.E.Value) || ref.HVal() != stx.HashOf(want.E.Value) {
		e.failf("%s(%q): len/hash of value differ from the model", what, key)
	}
}

func trunc(b []byte) []byte {
	if len(b) > 24 {
		return b[:24]
	}
	return b
}

// failf fails the case with diagnostics about the state of the index (is it merely lagging?).
func (e *env) failf(format string, args ...any) {
	diag := map[string]any{"model_n": e.model.N()}
	probe := func(tag string) {
		var pfx []byte
		if e.multi {
			pfx = prefA
		}
		if snap, err := e.st.Snapshot(pfx); err == nil {
			diag["index_ts_"+tag] = snap.Ts()
			snap.Close()
		} else {
			diag["index_ts_"+tag] = err.Error()
		}
	}
	probe("at_failure")
	time.Sleep(500 * time.Millisecond)
	probe("500ms_later")
	msg := fmt.Sprintf(format, args...)
	e.c.Failf(e.rt, diag, "%s [diag: %v]", msg, diag)
}

// checkIdentityIndex compares every read API on an identity-mapped index (default or prefixed).
func (e *env) checkIdentityIndex(prefix []byte, full bool) {
	rt, st, m := e.rt, e.st, &e.model
	n := m.N()
	ctx := context.Background()
	keys := m.Keys(prefix, n)
	probe := keys
	if !full && len(keys) > 6 {
		probe = nil
		for i := 0; i < 6; i++ {
			probe = append(probe, keys[rapid.IntRange(0, len(keys)-1).Draw(rt, "probeKey")])
		}
	}
	for _, k := range probe {
		vers := m.Versions(k, n)
		last := vers[len(vers)-1]
		ref, err := st.Get(ctx, k)
		switch {
		case last.E.Deleted:
			if !errors.Is(err, store.ErrKeyNotFound) {
				e.failf("Get(%q): latest version (tx %d) is a logical delete, got ref=%v err=%v", k, last.Tx, ref != nil, err)
			}
		case last.E.Expire == 1:
			if err == nil {
				e.failf("Get(%q): latest version (tx %d) expired in 2001, got a value", k, last.Tx)
			}
		default:
			if err != nil {
				e.failf("Get(%q): %v, model has live version tx=%d rev=%d", k, err, last.Tx, last.HC)
			}
			e.checkRef("Get", k, ref, last)
		}
		// unfiltered lookup returns the latest version whatever its metadata
		ref, err = st.GetWithFilters(ctx, k)
		if err != nil {
			// diagnostics only: is the miss transient?
			time.Sleep(300 * time.Millisecond)
			_, err2 := st.GetWithFilters(ctx, k)
			_, hc, err3 := st.History(k, 0, false, 1)
			e.failf("GetWithFilters(%q) without filters: %v (model versions at txs %v, n=%d; retried after 300ms: err=%v; History count=%d err=%v)", k, err, verTxs(vers), n, err2, hc, err3)
		}
		e.checkRef("GetWithFilters", k, ref, last)

		// history
		desc := rapid.Bool().Draw(rt, "hDesc")
		off := rapid.IntRange(0, len(vers)-1).Draw(rt, "hOff")
		lim := rapid.IntRange(1, len(vers)+1).Draw(rt, "hLim")
		refs, hc, err := st.History(k, uint64(off), desc, lim)
		if err != nil {
			e.failf("History(%q,%d,%v,%d): %v", k, off, desc, lim, err)
		}
		if hc != uint64(len(vers)) {
			e.failf("History(%q): count %d, model %d", k, hc, len(vers))
		}
		var want []stx.Ver
		if desc {
			for i := len(vers) - 1 - off; i >= 0 && len(want) < lim; i-- {
				want = append(want, vers[i])
			}
		} else {
			for i := off; i < len(vers) && len(want) < lim; i++ {
				want = append(want, vers[i])
			}
		}
		if len(refs) != len(want) {
			e.failf("History(%q,%d,%v,%d): %d versions, model %d", k, off, desc, lim, len(refs), len(want))
		}
		for i := range want {
			e.checkRef("History", k, refs[i], want[i])
		}
		if _, _, err := st.History(k, uint64(len(vers)), desc, 1); err == nil && len(vers) > 0 {
			// offset == count: the code returns ErrOffsetOutOfRange or an empty page; both are fine, a version is not
		}

		// bounded-by-tx lookup
		a := uint64(rapid.IntRange(1, int(n)).Draw(rt, "gbA"))
		b := uint64(rapid.IntRange(int(a), int(n)).Draw(rt, "gbB"))
		var wantV *stx.Ver
		for i := range vers {
			if vers[i].Tx >= a && vers[i].Tx <= b {
				wantV = &vers[i]
			}
		}
		ref, err = st.GetBetween(ctx, k, a, b)
		if wantV == nil {
			if !errors.Is(err, store.ErrKeyNotFound) {
				var gtx uint64
				if ref != nil {
					gtx = ref.Tx()
				}
				extra := ""
				if gtx > 0 && gtx <= n {
					extra = fmt.Sprintf(" model tx %d = %v", gtx, m.Txs[gtx-1].Entries)
					tx := store.NewTx(e.cfg.MaxTxEntries, e.cfg.MaxKeyLen)
					if err := st.ReadTx(gtx, false, tx); err == nil {
						extra += " store tx keys:"
						for _, te := range tx.Entries() {
							extra += fmt.Sprintf(" %q", short(te.Key()))
						}
					}
				}
				e.failf("GetBetween(%q,%d,%d): model has no version in range (versions %v), got tx=%d err=%v%s", k, a, b, verTxs(vers), gtx, err, extra)
			}
		} else {
			if err != nil {
				e.failf("GetBetween(%q,%d,%d): %v, model tx %d", k, a, b, err, wantV.Tx)
			}
			if ref.Tx() != wantV.Tx {
				e.failf("GetBetween(%q,%d,%d): tx %d, model %d", k, a, b, ref.Tx(), wantV.Tx)
			}
			v, err := ref.Resolve()
			if wantV.E.Expire != 1 && (err != nil || !bytes.Equal(v, wantV.E.Value)) {
				e.failf("GetBetween(%q,%d,%d): value %q err %v, model %q", k, a, b, trunc(v), err, trunc(wantV.E.Value))
			}
		}
	}
	// a key that was never written
	absent := append(append([]byte{}, prefix...), []byte("~never~")...)
	if _, err := st.Get(ctx, absent); !errors.Is(err, store.ErrKeyNotFound) {
		e.failf("Get(absent key): err=%v", err)
	}

	// prefix lookup
	if len(keys) > 0 {
		k0 := keys[rapid.IntRange(0, len(keys)-1).Draw(rt, "pfxKey")]
		pl := rapid.IntRange(len(prefix), len(k0)).Draw(rt, "pfxLen")
		p := k0[:pl]
		// exclusion key: only nil or the first matching key are generated — for those "skip keys equal to neq"
		// and "skip keys up to neq" (what the tree implements) coincide, so no undocumented semantics is asserted
		var matching [][]byte
		for _, k := range keys {
			if bytes.HasPrefix(k, p) {
				matching = append(matching, k)
			}
		}
		var neq []byte
		if rapid.Bool().Draw(rt, "useNeq") {
			neq = matching[0]
			matching = matching[1:]
		}
		var first []byte
		if len(matching) > 0 {
			first = matching[0]
		}
		if len(p) > 0 {
			gk, ref, err := st.GetWithPrefix(ctx, p, neq)
			if first == nil {
				if !errors.Is(err, store.ErrKeyNotFound) {
					e.failf("GetWithPrefix(%q,neq=%q): no such key in the model, got key=%q err=%v", p, neq, gk, err)
				}
			} else {
				vers := m.Versions(first, n)
				last := vers[len(vers)-1]
				if last.E.Live() {
					if err != nil || !bytes.Equal(gk, first) {
						e.failf("GetWithPrefix(%q,neq=%q): key=%q err=%v, model first key %q", p, neq, gk, err, first)
					}
					e.checkRef("GetWithPrefix", first, ref, last)
				}
			}
		}
	}

	// scans over a snapshot
	e.checkScan(prefix, keys, identityLive(m, n))
}

// liveFn tells, for a key of the index, the live version or nil
type liveFn func(k []byte) *stx.Ver

func identityLive(m *stx.Model, n uint64) liveFn {
	return func(k []byte) *stx.Ver {
		vers := m.Versions(k, n)
		if len(vers) == 0 {
			return nil
		}
		last := vers[len(vers)-1]
		if !last.E.Live() {
			return nil
		}
		return &last
	}
}

func (e *env) checkScan(prefix []byte, keys [][]byte, live liveFn) {
	rt, c, st := e.rt, e.c, e.st
	n := e.model.N()
	snap, err := st.SnapshotMustIncludeTxID(context.Background(), prefix, n)
	if err != nil {
		e.failf("SnapshotMustIncludeTxID(%q,%d): %v", prefix, n, err)
	}
	defer snap.Close()
	if snap.Ts() < n {
		e.failf("snapshot ts %d < requested %d", snap.Ts(), n)
	}
	for round := 0; round < 2; round++ {
		spec := store.KeyReaderSpec{Prefix: prefix, Filters: []store.FilterFn{store.IgnoreExpired, store.IgnoreDeleted}}
		spec.DescOrder = rapid.Bool().Draw(rt, "desc")
		pickKey := func(label string) []byte {
			if len(keys) == 0 || rapid.IntRange(0, 3).Draw(rt, label+"Nil") == 0 {
				return nil
			}
			k := keys[rapid.IntRange(0, len(keys)-1).Draw(rt, label)]
			if rapid.IntRange(0, 3).Draw(rt, label+"Mod") == 0 {
				if len(k) < e.cfg.MaxKeyLen {
					k = append(append([]byte{}, k...), '!') // a key that is not in the index
				} else {
					k = append([]byte{}, k...)
					k[len(k)-1]++
				}
			}
			return k
		}
		spec.SeekKey = pickKey("seek")
		spec.EndKey = pickKey("end")
		spec.InclusiveSeek = rapid.Bool().Draw(rt, "incSeek")
		spec.InclusiveEnd = rapid.Bool().Draw(rt, "incEnd")
		if len(keys) > 0 && rapid.IntRange(0, 2).Draw(rt, "longerPfx") == 0 {
			k := keys[rapid.IntRange(0, len(keys)-1).Draw(rt, "pk")]
			spec.Prefix = k[:rapid.IntRange(len(prefix), len(k)).Draw(rt, "pl")]
		}
		spec.Offset = uint64(rapid.IntRange(0, 3).Draw(rt, "offset"))

		// model
		var want [][]byte
		for _, k := range keys {
			if !bytes.HasPrefix(k, spec.Prefix) {
				continue
			}
			if len(spec.SeekKey) > 0 {
				cmp := bytes.Compare(k, spec.SeekKey)
				if spec.DescOrder && (cmp > 0 || (cmp == 0 && !spec.InclusiveSeek)) {
					continue
				}
				if !spec.DescOrder && (cmp < 0 || (cmp == 0 && !spec.InclusiveSeek)) {
					continue
				}
			}
			if len(spec.EndKey) > 0 {
				cmp := bytes.Compare(k, spec.EndKey)
				if spec.DescOrder && (cmp < 0 || (cmp == 0 && !spec.InclusiveEnd)) {
					continue
				}
				if !spec.DescOrder && (cmp > 0 || (cmp == 0 && !spec.InclusiveEnd)) {
					continue
				}
			}
			if live(k) == nil {
				continue
			}
			want = append(want, k)
		}
		if spec.DescOrder {
			sort.Slice(want, func(i, j int) bool { return bytes.Compare(want[i], want[j]) > 0 })
		}
		if int(spec.Offset) >= len(want) {
			want = nil
		} else {
			want = want[spec.Offset:]
		}

		r, err := snap.NewKeyReader(spec)
		if err != nil {
			e.failf("NewKeyReader(%+v): %v", specStr(spec), err)
		}
		var gotKeys [][]byte
		for {
			k, ref, err := r.Read(context.Background())
			if errors.Is(err, store.ErrNoMoreEntries) {
				break
			}
			if err != nil {
				r.Close()
				e.failf("reader %s: %v", specStr(spec), err)
			}
			gotKeys = append(gotKeys, append([]byte{}, k...))
			if lv := live(k); lv != nil {
				if ref.Tx() != lv.Tx {
					r.Close()
					e.failf("reader %s: key %q tx=%d, model tx=%d", specStr(spec), k, ref.Tx(), lv.Tx)
				}
				v, err := ref.Resolve()
				if err != nil || !bytes.Equal(v, lv.E.Value) {
					r.Close()
					e.failf("reader %s: key %q value %q err=%v, model %q", specStr(spec), k, trunc(v), err, trunc(lv.E.Value))
				}
			}
			if len(gotKeys) > len(want)+5 {
				break
			}
		}
		r.Close()
		if !sameKeys(gotKeys, want) {
			c.Failf(rt, map[string]any{"got": strs(gotKeys), "want": strs(want)}, "reader %s returned %d keys, model %d: got %v want %v",
				specStr(spec), len(gotKeys), len(want), strs(gotKeys), strs(want))
		}
	}
}

func specStr(s store.KeyReaderSpec) string {
	return fmt.Sprintf("{prefix=%q seek=%q(%v) end=%q(%v) desc=%v off=%d}", short(s.Prefix), short(s.SeekKey), s.InclusiveSeek, short(s.EndKey), s.InclusiveEnd, s.DescOrder, s.Offset)
}

func short(b []byte) []byte {
	if len(b) > 16 {
		return append(append([]byte{}, b[:12]...), []byte(fmt.Sprintf("..%d", len(b)))...)
	}
	return b
}

func strs(ks [][]byte) []string {
	out := make([]string, len(ks))
	for i, k := range ks {
		out[i] = string(short(k))
	}
	return out
}

func sameKeys(a, b [][]byte) bool {
	if len(a) != len(b) {
		return false
	}
	for i := range a {
		if !bytes.Equal(a[i], b[i]) {
			return false
		}
	}
	return true
}

// checkMappedIndex: live keys of M = { map(s, v) : s live source key under A with latest value v }.
func (e *env) checkMappedIndex() {
	st, m := e.st, &e.model
	n := m.N()
	srcKeys := m.Keys(prefA, n)
	liveMap := map[string]stx.Ver{}
	allTargets := map[string]bool{}
	for _, t := range m.Txs {
		for _, en := range t.Entries {
			if !en.NonIndexable && bytes.HasPrefix(en.Key, prefA) {
				tk, _ := mapAtoM(en.Key, en.Value)
				allTargets[string(tk)] = true
			}
		}
	}
	for _, s := range srcKeys {
		vers := m.Versions(s, n)
		last := vers[len(vers)-1]
		tk, _ := mapAtoM(s, last.E.Value)
		if last.E.Live() {
			liveMap[string(tk)] = last
		}
	}
	var tkeys [][]byte
	for k := range allTargets {
		tkeys = append(tkeys, []byte(k))
	}
	sort.Slice(tkeys, func(i, j int) bool { return bytes.Compare(tkeys[i], tkeys[j]) < 0 })
	describe := func(tk []byte) string {
		src := append([]byte("A"), tk[2:]...)
		out := fmt.Sprintf(" source %q versions:", short(src))
		for _, t := range m.Txs {
			for _, en := range t.Entries {
				if bytes.Equal(en.Key, src) {
					out += fmt.Sprintf(" tx%d:%s", t.ID, en)
				}
			}
		}
		out += "; target history in store:"
		refs, hc, err := st.History(tk, 0, false, 100)
		out += fmt.Sprintf(" count=%d err=%v", hc, err)
		for _, r := range refs {
			md := r.KVMetadata()
			out += fmt.Sprintf(" tx%d(del=%v)", r.Tx(), md != nil && md.Deleted())
		}
		return out
	}
	for _, tk := range tkeys {
		ref, err := st.Get(context.Background(), tk)
		if lv, ok := liveMap[string(tk)]; ok {
			if err != nil {
				e.failf("mapped index Get(%q): %v, model: live (source tx %d)%s", short(tk), err, lv.Tx, describe(tk))
			}
			if ref.Tx() != lv.Tx {
				e.failf("mapped index Get(%q): tx %d, model %d", short(tk), ref.Tx(), lv.Tx)
			}
			v, err := ref.Resolve()
			if err != nil || !bytes.Equal(v, lv.E.Value) {
				e.failf("mapped index Get(%q): value %q err=%v, model %q", short(tk), trunc(v), err, trunc(lv.E.Value))
			}
		} else if err == nil {
			e.failf("mapped index Get(%q) returned tx %d but no live source row maps to it (stale secondary-index entry)%s", short(tk), ref.Tx(), describe(tk))
		}
	}
	e.checkScan(prefM, tkeys, func(k []byte) *stx.Ver {
		if lv, ok := liveMap[string(k)]; ok {
			return &lv
		}
		return nil
	})
}

func (e *env) checkAll(full bool) {
	e.waitIndexed()
	if e.model.N() == 0 {
		return
	}
	if e.maintSinceWrite {
		e.observedAfterMnt = true
	}
	if !e.multi {
		e.checkIdentityIndex(nil, full)
		return
	}
	for _, s := range e.specs {
		switch s.kind {
		case "prefixed":
			e.checkIdentityIndex(s.target, full)
		case "mapped":
			e.checkMappedIndex()
		}
	}
}

func TestIndexAgreesWithHistory(t *testing.T) {
	vk.Check(t, 400, 12000, func(rt *rapid.T, c *vk.Case) {
		cfg := stx.GenCfg(rt)
		cfg.Synced = false // durability is C03's business; unsynced keeps cases fast
		if os.Getenv("VERIF_C04_BULK1") != "" { // debugging aid
			cfg.BulkSize = 1
		}
		if os.Getenv("VERIF_C04_NOCOMPACT") != "" {
			cfg.CompactionThld = 1000000
		}
		e := &env{rt: rt, c: c, cfg: cfg}
		e.multi = rapid.IntRange(0, 2).Draw(rt, "multiIndexing") > 0
		e.cfg.MultiIndexing = e.multi
		if e.multi {
			e.specs = []idxSpec{{"prefixed", prefA, prefA}, {"prefixed", prefB, prefB}, {"mapped", prefA, prefM}}
		}
		c.Descf("cfg=%s", e.cfg)
		e.dir = vk.Dir()
		defer os.RemoveAll(e.dir)
		e.open()
		defer func() {
			if e.st != nil {
				e.st.Close()
			}
		}()
		flushes, compactions, reopens := 0, 0, 0
		maxTx := 40
		rt.Repeat(map[string]func(*rapid.T){
			"commit": func(rt *rapid.T) {
				e.rt = rt
				if int(e.model.N()) >= maxTx {
					rt.Skip("enough")
				}
				k := rapid.IntRange(1, 4).Draw(rt, "burst")
				for i := 0; i < k; i++ {
					e.commit()
				}
			},
			"flush": func(rt *rapid.T) {
				e.rt = rt
				pct := float32(rapid.SampledFrom([]int{0, 0, 30, 100}).Draw(rt, "cleanup"))
				if err := e.st.FlushIndexes(pct, rapid.Bool().Draw(rt, "synced")); err != nil {
					c.Failf(rt, nil, "FlushIndexes: %v", err)
				}
				flushes++
				e.maintSinceWrite = true
				c.Descf("F")
			},
			"compact": func(rt *rapid.T) {
				e.rt = rt
				e.waitIndexed()
				err := e.st.CompactIndexes()
				if err != nil && !errors.Is(err, tbtree.ErrCompactionThresholdNotReached) && !errors.Is(err, store.ErrCompactionDisabled) &&
					!strings.Contains(err.Error(), tbtree.ErrTargetPathAlreadyExists.Error()) { // nothing new since the previous compaction
					c.Failf(rt, nil, "CompactIndexes: %v", err)
				}
				if err == nil {
					compactions++
					e.maintSinceWrite = true
				}
				c.Descf("K")
			},
			"reopen": func(rt *rapid.T) {
				e.rt = rt
				if err := e.st.Close(); err != nil {
					c.Failf(rt, nil, "Close: %v", err)
				}
				e.st = nil
				// index options may change across restarts
				e.cfg.BulkSize = rapid.SampledFrom([]int{1, 2, 4, 8}).Draw(rt, "bulkSize2")
				e.cfg.IdxCache = rapid.SampledFrom([]int{1, 10, 100}).Draw(rt, "idxCache2")
				e.open()
				reopens++
				e.maintSinceWrite = true
				c.Descf("O")
			},
			"": func(rt *rapid.T) {
				e.rt = rt
				e.checkAll(false)
			},
		})
		e.rt = rt
		e.checkAll(true)
		c.Descf("n=%d", e.model.N())
		if e.cfg.BulkSize > 1 {
			c.Label("bulk>1")
		}
		if e.multi {
			c.Label("multi-indexing")
		}
		if flushes > 0 {
			c.Label("flush")
		}
		if compactions > 0 {
			c.Label("compaction")
		}
		if reopens > 0 {
			c.Label("reopen")
		}
		if e.overwritten {
			c.Label("overwrite-or-delete")
		}
		if e.overwritten && (e.cfg.BulkSize > 1 || e.observedAfterMnt) {
			c.NonTrivial()
		}
	})
}


func verTxs(vs []stx.Ver) []uint64 {
	out := make([]uint64, len(vs))
	for i, v := range vs {
		out[i] = v.Tx
	}
	return out
}
