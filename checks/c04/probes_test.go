package c04

import (
	"context"
	"errors"
	"fmt"
	"os"
	"testing"
	"time"

	"github.com/codenotary/immudb/embedded/logger"
	"github.com/codenotary/immudb/embedded/store"

	"verif/internal/vk"
)

func quietOpts() *store.Options {
	return store.DefaultOptions().WithLogger(logger.NewMemoryLoggerWithLevel(logger.LogError))
}

func put(st *store.ImmuStore, key, val string, md *store.KVMetadata) error {
	tx, err := st.NewWriteOnlyTx(context.Background())
	if err != nil {
		return err
	}
	if err := tx.Set([]byte(key), md, []byte(val)); err != nil {
		return err
	}
	_, err = tx.AsyncCommit(context.Background())
	return err
}

func initAM(st *store.ImmuStore) error {
	if err := st.InitIndexing(&store.IndexSpec{SourcePrefix: prefA, TargetPrefix: prefA}); err != nil {
		return err
	}
	return st.InitIndexing(&store.IndexSpec{SourcePrefix: prefA, TargetPrefix: prefM, TargetEntryMapper: mapAtoM, InjectiveMapping: true})
}

func waitIdx(st *store.ImmuStore, n uint64) error {
	ctx, cancel := context.WithTimeout(context.Background(), 30*time.Second)
	defer cancel()
	return st.WaitForIndexingUpto(ctx, n)
}

// probeF9 (fixed): two versions of one source row inside the same indexing bulk; the mapped key of the
// first one must not stay live in the injective secondary index.
func probeF9() (bool, string) {
	dir := vk.Dir()
	defer os.RemoveAll(dir)
	opts := quietOpts().WithMultiIndexing(true).WithIndexOptions(store.DefaultIndexOptions().WithMaxBulkSize(4).WithBulkPreparationTimeout(200 * time.Millisecond))
	st, err := store.Open(dir, opts)
	if err != nil {
		return false, ""
	}
	defer st.Close()
	// commit before indexing starts so that all four txs are available for one bulk
	put(st, "Ak", "a1", nil)
	put(st, "Ak", "b1", nil)
	put(st, "Ak", "c1", nil)
	put(st, "Aj", "x", nil)
	if err := initAM(st); err != nil {
		return false, ""
	}
	if err := waitIdx(st, 4); err != nil {
		return true, "indexing did not complete: " + err.Error()
	}
	stale := ""
	for _, k := range []string{"Mak", "Mbk"} {
		if ref, err := st.Get(context.Background(), []byte(k)); err == nil {
			stale += fmt.Sprintf(" %s(tx %d)", k, ref.Tx())
		}
	}
	if _, err := st.Get(context.Background(), []byte("Mck")); err != nil {
		return true, "latest mapped key Mck not found: " + err.Error()
	}
	if stale != "" {
		return true, "bulk size 4, row Ak rewritten twice within one bulk: stale live secondary entries" + stale
	}
	return false, ""
}

// probeF10 (fixed): previous version carries metadata (far-future expiration).
func probeF10() (bool, string) {
	dir := vk.Dir()
	defer os.RemoveAll(dir)
	st, err := store.Open(dir, quietOpts().WithMultiIndexing(true))
	if err != nil {
		return false, ""
	}
	defer st.Close()
	if err := initAM(st); err != nil {
		return false, ""
	}
	md := store.NewKVMetadata()
	md.ExpiresAt(time.Date(2999, 1, 1, 0, 0, 0, 0, time.UTC))
	put(st, "Ak", "a1", md)
	waitIdx(st, 1)
	put(st, "Ak", "b1", nil)
	if err := waitIdx(st, 2); err != nil {
		return true, "indexing did not complete: " + err.Error()
	}
	if ref, err := st.Get(context.Background(), []byte("Mak")); err == nil {
		return true, fmt.Sprintf("row Ak (expiring in 2999) rewritten: old secondary entry Mak still live (tx %d)", ref.Tx())
	}
	return false, ""
}

// TestChildF11 is run in a child process by probeF11: on the defective code the indexer goroutine panics.
func TestChildF11(t *testing.T) {
	if !vk.IsChild() {
		t.Skip("child-only")
	}
	dir := vk.Dir()
	defer os.RemoveAll(dir)
	st, err := store.Open(dir, quietOpts().WithMultiIndexing(true).WithMaxTxEntries(4))
	if err != nil {
		t.Fatal(err)
	}
	defer st.Close()
	if err := initAM(st); err != nil {
		t.Fatal(err)
	}
	for round, v := range []string{"a", "b"} {
		tx, _ := st.NewWriteOnlyTx(context.Background())
		for i := 0; i < 4; i++ {
			tx.Set([]byte(fmt.Sprintf("Ak%d", i)), nil, []byte(v))
		}
		if _, err := tx.AsyncCommit(context.Background()); err != nil {
			t.Fatal(err)
		}
		if err := waitIdx(st, uint64(round+1)); err != nil {
			t.Fatalf("indexing: %v", err)
		}
	}
	for i := 0; i < 4; i++ {
		if _, err := st.Get(context.Background(), []byte(fmt.Sprintf("Mbk%d", i))); err != nil {
			t.Fatalf("Mbk%d: %v", i, err)
		}
		if _, err := st.Get(context.Background(), []byte(fmt.Sprintf("Mak%d", i))); !errors.Is(err, store.ErrKeyNotFound) {
			t.Fatalf("Mak%d still live: %v", i, err)
		}
	}
}

// probeF11 (fixed): a tx rewriting MaxTxEntries rows of a table with an injective index.
func probeF11() (bool, string) {
	ok, out := vk.RunChild("TestChildF11", 90*time.Second)
	if ok {
		return false, ""
	}
	return true, "tx rewriting MaxTxEntries=4 rows with an injective secondary index: " + out
}

// probeF12 (fixed): GetBetween for a range older than every version of the key.
func probeF12() (bool, string) {
	dir := vk.Dir()
	defer os.RemoveAll(dir)
	st, err := store.Open(dir, quietOpts())
	if err != nil {
		return false, ""
	}
	defer st.Close()
	put(st, "j", "j1", nil) // tx 1
	put(st, "j", "j2", nil) // tx 2
	waitIdx(st, 2)
	st.FlushIndexes(0, false) // history record of j at the beginning of the history log
	for i := 3; i <= 7; i++ {
		put(st, "k", fmt.Sprintf("k%d", i), nil)
	}
	waitIdx(st, 7)
	st.FlushIndexes(0, false)
	put(st, "k", "k8", nil)
	waitIdx(st, 8)
	st.FlushIndexes(0, false)
	ref, err := st.GetBetween(context.Background(), []byte("k"), 1, 2)
	if err == nil {
		v, _ := ref.Resolve()
		return true, fmt.Sprintf("GetBetween(k,1,2): k was first written by tx 3, got tx=%d value=%q", ref.Tx(), v)
	}
	if !errors.Is(err, store.ErrKeyNotFound) {
		return true, "GetBetween(k,1,2): " + err.Error()
	}
	return false, ""
}
