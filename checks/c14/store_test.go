package c14

import (
	"bytes"
	"context"
	"crypto/sha256"
	"encoding/binary"
	"errors"
	"fmt"
	"os"
	"path/filepath"
	"runtime"
	"sort"
	"strings"
	"sync"
	"sync/atomic"
	"testing"
	"time"

	"github.com/codenotary/immudb/embedded/appendable"
	"github.com/codenotary/immudb/embedded/store"
	"pgregory.net/rapid"

	"verif/internal/fsim"
	"verif/internal/stx"
	"verif/internal/vk"
)

// ltx is one acknowledged transaction of the ledger.
type ltx struct {
	id      uint64
	hdr     *store.TxHeader
	entries []stx.Entry
	export  []byte // full export taken when the tx was acknowledged / before any truncation could reach it
	// placement of the values in the store under test
	vlog   byte  // value log holding the values (0: the tx has no non-empty value)
	minOff int64 // lowest offset of a non-empty value
}

type env struct {
	rt  *rapid.T
	c   *vk.Case
	cfg stx.Cfg
	dir string
	fs  *fsim.FS
	st  *store.ImmuStore

	mu  sync.Mutex
	led []*ltx // led[i].id == i+1
	cut uint64 // largest cut point of a truncation that returned nil

	wedged bool // a call hung inside the store: do not Close it

	valCtr   int
	keyCtr   int
	emptyPct int // share of empty values
	maxConc  int // store option MaxConcurrency (size of the tx-holder pool: commits / replications in their precommit stage)

	jitterOn atomic.Bool
	jctr     atomic.Int64
	jtab     []int

	// statistics for labels / the non-triviality rule
	chunksDeleted   int
	nontrivial      bool
	sawDigestOnly   bool
	sawPartialErr   bool
	sawFullBelowCut bool
	f2Avoided       int
}

func (e *env) failf(format string, args ...any) {
	e.c.Failf(e.rt, e.dump(), format, args...)
}

func (e *env) dump() any {
	e.mu.Lock()
	defer e.mu.Unlock()
	var txs []string
	for _, l := range e.led {
		s := fmt.Sprintf("tx%d@vlog%d+%d:", l.id, l.vlog, l.minOff)
		for _, en := range l.entries {
			s += fmt.Sprintf(" %s[%d]", en.Key, len(en.Value))
		}
		txs = append(txs, s)
	}
	d := map[string]any{"cfg": e.cfg.String(), "cut": e.cut, "ledger": txs}
	if e.wedged {
		d["goroutines_at_hang"] = hangDump.Load()
	}
	return d
}

func (e *env) n() uint64 {
	e.mu.Lock()
	defer e.mu.Unlock()
	return uint64(len(e.led))
}

func (e *env) tx(id uint64) *ltx {
	e.mu.Lock()
	defer e.mu.Unlock()
	if id == 0 || id > uint64(len(e.led)) {
		return nil
	}
	return e.led[id-1]
}

func (e *env) newTx() *store.Tx { return store.NewTx(e.cfg.MaxTxEntries, e.cfg.MaxKeyLen) }

func (e *env) yield(log string, k fsim.Kind) {
	if !e.jitterOn.Load() || (k != fsim.Append && k != fsim.Discard) {
		return
	}
	switch e.jtab[int(e.jctr.Add(1))%len(e.jtab)] {
	case 1:
		runtime.Gosched()
	case 2:
		time.Sleep(30 * time.Microsecond)
	case 3:
		time.Sleep(300 * time.Microsecond)
	}
}

func storeOpts(cfg stx.Cfg) *store.Options { return cfg.Options() }

func (e *env) open() {
	st, err := store.Open(e.dir, storeOpts(e.cfg).WithMaxConcurrency(e.maxConc).WithAppFactory(e.fs.Factory()))
	if err != nil {
		e.failf("store.Open: %v", err)
	}
	e.st = st
}

// ---------------------------------------------------------------------------
// generators

func genStoreCfg(rt *rapid.T) stx.Cfg {
	cfg := stx.GenCfg(rt)
	cfg.Embedded = false
	cfg.Synced = false
	cfg.Prealloc = false
	cfg.IOConc = rapid.IntRange(1, 4).Draw(rt, "ioConc")
	cfg.FileSize = rapid.SampledFrom([]int{64, 96, 128, 128, 256, 256, 512}).Draw(rt, "fileSize")
	cfg.MaxActiveTx = 1000
	cfg.MaxKeyLen = 64
	cfg.MaxValueLen = 2048
	cfg.MaxTxEntries = 8
	cfg.HdrVersion = rapid.SampledFrom([]int{1, 1, 1, 0}).Draw(rt, "hdrVersion")
	cfg.BulkSize = rapid.SampledFrom([]int{1, 2, 4}).Draw(rt, "bulk")
	cfg.MaxNodeSize = 0
	if os.Getenv("VERIF_C14_IOCONC") != "" { // debugging aid
		fmt.Sscan(os.Getenv("VERIF_C14_IOCONC"), &cfg.IOConc)
	}
	return cfg
}

func (e *env) genValue(rt *rapid.T) []byte {
	fsz := e.cfg.FileSize
	var n int
	shape := rapid.IntRange(3, 11).Draw(rt, "vshape")
	if rapid.IntRange(0, 99).Draw(rt, "empty") < e.emptyPct {
		shape = 0
	}
	switch shape {
	case 0:
		n = 0
	case 3:
		n = rapid.IntRange(1, 8).Draw(rt, "vlen")
	case 4:
		n = fsz + rapid.IntRange(-2, 2).Draw(rt, "vlen")
	case 5, 6:
		n = rapid.IntRange(fsz/2, fsz).Draw(rt, "vlen")
	case 7:
		n = rapid.IntRange(fsz, 2*fsz+3).Draw(rt, "vlen")
	case 8:
		if fsz <= 256 {
			n = rapid.IntRange(2*fsz, 3*fsz).Draw(rt, "vlen")
		} else {
			n = rapid.IntRange(fsz, fsz+64).Draw(rt, "vlen")
		}
	default:
		n = rapid.IntRange(fsz/4, fsz*3/4).Draw(rt, "vlen")
	}
	e.valCtr++
	v := make([]byte, n)
	tag := fmt.Sprintf("v%d|", e.valCtr)
	for i := range v {
		if i < len(tag) {
			v[i] = tag[i]
		} else {
			v[i] = byte('a' + (e.valCtr*7+i)%26)
		}
	}
	return v
}

func (e *env) genEntries(rt *rapid.T) []stx.Entry {
	n := rapid.SampledFrom([]int{1, 1, 2, 2, 3, 4, 5}).Draw(rt, "nEntries")
	var es []stx.Entry
	for i := 0; i < n; i++ {
		var k []byte
		if rapid.IntRange(0, 2).Draw(rt, "fresh") == 0 {
			e.keyCtr++
			k = []byte(fmt.Sprintf("u%d", e.keyCtr))
		} else {
			k = []byte(fmt.Sprintf("k%d", rapid.IntRange(0, 7).Draw(rt, "key")))
		}
		en := stx.Entry{Key: k, Value: e.genValue(rt)}
		if e.cfg.HdrVersion == 1 && rapid.IntRange(0, 9).Draw(rt, "del") == 0 {
			en.Deleted = true
		}
		es = append(es, en)
	}
	return stx.Dedup(es)
}

// ---------------------------------------------------------------------------
// export format (harness parser)

type expEntry struct{ key, md, val []byte }

func parseExport(b []byte) (hdr *store.TxHeader, es []expEntry, truncated bool, err error) {
	bad := func(what string) (*store.TxHeader, []expEntry, bool, error) {
		return nil, nil, false, fmt.Errorf("malformed export: %s", what)
	}
	if len(b) < 4 {
		return bad("no header length")
	}
	hl := int(binary.BigEndian.Uint32(b))
	i := 4
	if len(b) < i+hl {
		return bad("short header")
	}
	hdr = &store.TxHeader{}
	if err := hdr.ReadFrom(b[i : i+hl]); err != nil {
		return nil, nil, false, err
	}
	i += hl
	for k := 0; k < hdr.NEntries; k++ {
		if len(b) < i+2 {
			return bad("entry key length")
		}
		kl := int(binary.BigEndian.Uint16(b[i:]))
		i += 2
		if len(b) < i+kl+2 {
			return bad("entry key")
		}
		key := b[i : i+kl]
		i += kl
		ml := int(binary.BigEndian.Uint16(b[i:]))
		i += 2
		if len(b) < i+ml+4 {
			return bad("entry metadata")
		}
		md := b[i : i+ml]
		i += ml
		vl := int(binary.BigEndian.Uint32(b[i:]))
		i += 4
		if len(b) < i+vl {
			return bad("entry value")
		}
		es = append(es, expEntry{key, md, b[i : i+vl]})
		i += vl
	}
	if len(b) != i+3 || binary.BigEndian.Uint16(b[i:]) != 1 || b[i+2] > 1 {
		return bad("trailer")
	}
	return hdr, es, b[i+2] == 1, nil
}

// checkExport compares an export of tx l with the ledger. digestOnly tells which form it has.
func (e *env) checkExport(what string, l *ltx, b []byte) (digestOnly bool) {
	hdr, es, trunc, err := parseExport(b)
	if err != nil {
		e.failf("%s: export of tx %d: %v", what, l.id, err)
	}
	if hdr.ID != l.id || hdr.Alh() != l.hdr.Alh() {
		e.failf("%s: export of tx %d carries header id=%d alh=%x, acknowledged alh=%x", what, l.id, hdr.ID, hdr.Alh(), l.hdr.Alh())
	}
	if len(es) != len(l.entries) {
		e.failf("%s: export of tx %d has %d entries, acknowledged %d", what, l.id, len(es), len(l.entries))
	}
	for i, x := range es {
		want := l.entries[i]
		if !bytes.Equal(x.key, want.Key) {
			e.failf("%s: export of tx %d entry %d: key %q, acknowledged %q", what, l.id, i, x.key, want.Key)
		}
		var wmd []byte
		if md := want.MD(); md != nil {
			wmd = md.Bytes()
		}
		if !bytes.Equal(x.md, wmd) {
			e.failf("%s: export of tx %d entry %d: metadata %x, acknowledged %x", what, l.id, i, x.md, wmd)
		}
		if trunc {
			h := sha256.Sum256(want.Value)
			if !bytes.Equal(x.val, h[:]) {
				e.failf("%s: digest-only export of tx %d entry %d (%q): digest %x is not the hash of the acknowledged value", what, l.id, i, want.Key, x.val)
			}
		} else if !bytes.Equal(x.val, want.Value) {
			e.failf("%s: export of tx %d entry %d (%q): value %q, acknowledged %q", what, l.id, i, want.Key, trunc20(x.val), trunc20(want.Value))
		}
	}
	return trunc
}

func trunc20(b []byte) []byte {
	if len(b) > 20 {
		return append(append([]byte{}, b[:16]...), []byte(fmt.Sprintf("..(%d)", len(b)))...)
	}
	return b
}

// exportBounded is ExportTx under the liveness bound. quiescent: nothing else runs in the store.
func (e *env) exportBounded(what string, id uint64, quiescent bool, after string) ([]byte, error) {
	var b []byte
	var err error
	if !bounded("", func() { b, err = e.st.ExportTx(id, false, false, e.newTx()) }) {
		e.wedged = true
		e.failf("%s: ExportTx(%d) did not return within the liveness bound (%v)%s", what, id, liveness, after)
	}
	return b, err
}

// ---------------------------------------------------------------------------
// loading the history

func decodeOff(off int64) (byte, int64) { return byte(off >> 56), off & (1<<55 - 1) }

// place records where the values of l live in the store under test.
func (e *env) place(l *ltx) {
	tx := e.newTx()
	if err := e.st.ReadTx(l.id, false, tx); err != nil {
		e.failf("ReadTx(%d) right after acknowledgement: %v", l.id, err)
	}
	l.vlog, l.minOff = 0, 0
	for _, te := range tx.Entries() {
		if te.VLen() == 0 {
			continue
		}
		v, off := decodeOff(te.VOff())
		if l.vlog == 0 || off < l.minOff {
			l.vlog, l.minOff = v, off
		}
	}
}

// ack appends acknowledged transactions (any order) to the ledger once all of them are known.
func (e *env) ack(news map[uint64]*ltx) {
	base := e.n()
	for i := uint64(1); i <= uint64(len(news)); i++ {
		l := news[base+i]
		if l == nil {
			e.failf("acknowledged tx ids are not contiguous: %d missing after %d", base+i, base)
		}
		e.mu.Lock()
		e.led = append(e.led, l)
		e.mu.Unlock()
	}
}

// baseline takes (or checks) the full export and the placement of every tx with id > from.
func (e *env) baseline(what string, from uint64) {
	for id := from + 1; id <= e.n(); id++ {
		l := e.tx(id)
		e.place(l)
		if id < e.cut {
			continue // (a truncation ran while the history was being replicated: the primary's export stands)
		}
		b, err := e.exportBounded(what, id, true, "")
		if err != nil {
			e.failf("%s: ExportTx(%d) of a transaction at or after every cut (cut=%d): %v", what, id, e.cut, err)
		}
		if e.checkExport(what, l, b) {
			e.failf("%s: ExportTx(%d) is digest-only although no truncation reached it (cut=%d)", what, id, e.cut)
		}
		if l.export == nil {
			l.export = b
		} else if !bytes.Equal(l.export, b) {
			e.failf("%s: ExportTx(%d) on the replica differs from the export of the primary", what, id)
		}
	}
}

// commitConcurrently runs the plans (one committer each) and returns the acknowledged transactions.
func (e *env) commitConcurrently(plans [][][]stx.Entry) (map[uint64]*ltx, error) {
	var wg sync.WaitGroup
	var mu sync.Mutex
	out := map[uint64]*ltx{}
	var firstErr error
	for i := range plans {
		wg.Add(1)
		go func(i int) {
			defer wg.Done()
			for j, es := range plans[i] {
				hdr, err := stx.Commit(e.st, es, false)
				mu.Lock()
				if err != nil {
					if firstErr == nil {
						firstErr = fmt.Errorf("committer %d tx %d (%d entries): %w", i, j, len(es), err)
					}
					mu.Unlock()
					return
				}
				if out[hdr.ID] != nil && firstErr == nil {
					firstErr = fmt.Errorf("tx id %d acknowledged twice", hdr.ID)
				}
				out[hdr.ID] = &ltx{id: hdr.ID, hdr: hdr, entries: es}
				mu.Unlock()
			}
		}(i)
	}
	wg.Wait()
	return out, firstErr
}

func (e *env) genPlans(rt *rapid.T, committers, total int) [][][]stx.Entry {
	plans := make([][][]stx.Entry, committers)
	for t := 0; t < total; t++ {
		w := t % committers
		plans[w] = append(plans[w], e.genEntries(rt))
	}
	return plans
}

func (e *env) loadByCommitters(rt *rapid.T, committers, total int) {
	plans := e.genPlans(rt, committers, total)
	e.jitterOn.Store(true)
	news, err := e.commitConcurrently(plans)
	e.jitterOn.Store(false)
	if err != nil {
		e.failf("load: %v", err)
	}
	e.ack(news)
}

func valAppends(fs *fsim.FS) int {
	n := 0
	for _, ev := range fs.Events() {
		if ev.Kind == fsim.Append && strings.HasPrefix(ev.Log, "val_") {
			n++
		}
	}
	return n
}

// appendCounter counts the completed value-log appends without copying the event list on every poll.
type appendCounter struct {
	fs      *fsim.FS
	scanned int
	n       int
}

func (a *appendCounter) count() int {
	if a.fs.Len() == a.scanned {
		return a.n
	}
	evs := a.fs.Events()
	for _, ev := range evs[a.scanned:] {
		if ev.Kind == fsim.Append && strings.HasPrefix(ev.Log, "val_") {
			a.n++
		}
	}
	a.scanned = len(evs)
	return a.n
}

// loadByReplication writes `total` transactions on a primary store, exports them, and replicates them into the
// store under test with `window` replicators in flight: launch order is a generated permutation in which a tx is
// launched at most window-1 positions early; the next replicator starts only when the previous one has appended
// all its values, so the order of the values in the value logs is the launch order.
func (e *env) loadByReplication(rt *rapid.T, window, total int) string {
	pdir := vk.Dir()
	defer os.RemoveAll(pdir)
	pcfg := e.cfg
	pcfg.FileSize = 1 << 20
	pcfg.IOConc = 1
	pcfg.Compression = appendable.NoCompression
	pcfg.VLogCache = 0
	primary, err := store.Open(pdir, storeOpts(pcfg))
	if err != nil {
		e.failf("primary store.Open: %v", err)
	}
	defer primary.Close()
	var src []*ltx
	for i := 0; i < total; i++ {
		es := e.genEntries(rt)
		hdr, err := stx.Commit(primary, es, false)
		if err != nil {
			e.failf("primary commit: %v", err)
		}
		b, err := primary.ExportTx(hdr.ID, false, false, e.newTx())
		if err != nil {
			e.failf("primary ExportTx(%d): %v", hdr.ID, err)
		}
		src = append(src, &ltx{id: hdr.ID, hdr: hdr, entries: es, export: b})
	}
	// launch order. A launched replicator whose predecessor is not launched yet waits inside its precommit and keeps
	// a tx holder of the pool (MaxConcurrency holders): at most MaxConcurrency-1 may wait, one holder stays free for
	// the lowest transaction not launched yet.
	// The launcher itself keeps at most `slots` calls in flight; with `slots`-1 waiting ones at most, a full house always
	// contains a call that does not wait for anybody and returns.
	slots := min(12, e.maxConc)
	launched := make([]bool, total)
	var order []int
	lo := 0
	waiting := func() int {
		w := 0
		for k := lo + 1; k < total; k++ {
			if launched[k] {
				w++
			}
		}
		return w
	}
	for len(order) < total {
		for lo < total && launched[lo] {
			lo++
		}
		if lo == total {
			break
		}
		pick := lo
		if waiting() < slots-1 {
			var cand []int
			for k := lo; k < total && k < lo+window; k++ {
				if !launched[k] {
					cand = append(cand, k)
				}
			}
			// the farthest candidate half of the time (reversed blocks: later ids land before earlier ones), else any
			pick = cand[len(cand)-1]
			if rapid.Bool().Draw(rt, "launchAny") {
				pick = cand[rapid.IntRange(0, len(cand)-1).Draw(rt, "launch")]
			}
			// now and then one replicator far ahead: its values land first, then a long run of lower ids overtakes it
			// (farther than MaxConcurrency ids most of the time)
			if rapid.IntRange(0, 2).Draw(rt, "launchFar") == 0 {
				by := rapid.IntRange(2, 12).Draw(rt, "farBy")
				if e.maxConc >= 12 && total-1-lo > e.maxConc && rapid.Bool().Draw(rt, "farBeyond") {
					by = rapid.IntRange(e.maxConc+1, total-1-lo).Draw(rt, "farByBeyond")
				}
				if far := lo + by; far < total && !launched[far] {
					pick = far
				}
			}
		}
		launched[pick] = true
		order = append(order, pick)
	}
	type res struct {
		i   int
		hdr *store.TxHeader
		err error
	}
	results := make(chan res, total)
	appends := &appendCounter{fs: e.fs}
	expected := appends.count()
	inFlight, doneN := 0, 0
	take := func(r res) {
		inFlight--
		doneN++
		if r.err != nil {
			e.failf("ReplicateTx(tx %d) on the store under test: %v (launch order %v)", r.i+1, r.err, order)
		}
		if r.hdr.ID != src[r.i].id || r.hdr.Alh() != src[r.i].hdr.Alh() {
			e.failf("ReplicateTx(tx %d): replica header id=%d alh=%x, primary alh=%x", r.i+1, r.hdr.ID, r.hdr.Alh(), src[r.i].hdr.Alh())
		}
	}
	for _, i := range order {
		i := i
		// never more calls in flight than the store has tx holders (fewer than all of them wait for a predecessor, so one always returns)
		for inFlight >= slots {
			select {
			case r := <-results:
				take(r)
			case <-time.After(120 * time.Second):
				e.failf("harness: concurrent ReplicateTx did not complete within 120 s (launch order %v)", order)
			}
		}
		inFlight++
		go func() {
			hdr, err := e.st.ReplicateTx(context.Background(), src[i].export, false, false)
			results <- res{i, hdr, err}
		}()
		for _, en := range src[i].entries {
			if len(en.Value) > 0 {
				expected++
			}
		}
		deadline := time.Now().Add(120 * time.Second)
		for appends.count() < expected {
			select {
			case r := <-results:
				take(r)
			default:
			}
			if time.Now().After(deadline) {
				e.failf("harness: replicator of tx %d did not append its values within 120 s (launch order %v)", i+1, order)
			}
			time.Sleep(20 * time.Microsecond)
		}
		// a truncation while replicators are in flight (values appended, transaction not committed yet)
		if committed := e.st.LastCommittedTxID(); committed > 0 && rapid.IntRange(0, 9).Draw(rt, "truncDuringLoad") == 0 {
			for drained := false; !drained; {
				select {
				case r := <-results:
					take(r)
				default:
					drained = true
				}
			}
			if inFlight > 0 {
				if vk.Excluded(kfInflight) && os.Getenv("VERIF_C14_FORCE_INFLIGHT") == "" { // (the variable is a debugging aid)
					vk.CountExcluded(kfInflight) // known finding K14c: the values of the in-flight transactions may be deleted
				} else {
					cn := uint64(rapid.IntRange(1, int(committed)).Draw(rt, "cutDuringLoad"))
					if err := e.st.TruncateUptoTx(cn); err != nil {
						e.failf("TruncateUptoTx(%d) with %d committed transactions and %d replicators in flight: %v", cn, committed, inFlight, err)
					}
					if cn > e.cut {
						e.cut = cn
					}
					e.c.Label("truncation-with-replicators-in-flight")
					e.c.Descf("L%d", cn)
				}
			}
		}
	}
	for doneN < total {
		select {
		case r := <-results:
			take(r)
		case <-time.After(120 * time.Second):
			e.failf("harness: concurrent ReplicateTx did not complete within 120 s (launch order %v)", order)
		}
	}
	news := map[uint64]*ltx{}
	for _, l := range src {
		news[l.id] = l
	}
	e.ack(news)
	s := ""
	for _, i := range order {
		s += fmt.Sprintf("%d,", i+1)
	}
	return s
}

// ---------------------------------------------------------------------------
// the oracle

func (e *env) chunkFiles() map[string]bool {
	m, _ := filepath.Glob(filepath.Join(e.dir, "val_*", "*.val"))
	out := map[string]bool{}
	for _, f := range m {
		out[f] = true
	}
	return out
}

// deletedSince counts the chunk files of `before` that no longer exist.
func (e *env) deletedSince(before map[string]bool) int {
	now := e.chunkFiles()
	n := 0
	for f := range before {
		if !now[f] {
			n++
		}
	}
	return n
}

// readable tells which values of tx id can be read right now: 0 = all, 1 = none of the non-empty ones, 2 = mixed.
// Every value that can be read must be the acknowledged one.
func (e *env) valueState(what string, l *ltx, tx *store.Tx) int {
	okN, goneN := 0, 0
	for i, te := range tx.Entries() {
		want := l.entries[i]
		v, err := e.st.ReadValue(te)
		if err != nil {
			if l.id >= e.cut {
				e.failf("%s: ReadValue(tx %d, entry %d %q, %d bytes at vlog %d offset %d): %v — the transaction is at or after every cut (cut=%d)",
					what, l.id, i, want.Key, len(want.Value), byte(te.VOff()>>56), te.VOff()&(1<<55-1), err, e.cut)
			}
			goneN++
			continue
		}
		if !bytes.Equal(v, want.Value) {
			e.failf("%s: ReadValue(tx %d, entry %d %q) = %q, acknowledged %q (cut=%d)", what, l.id, i, want.Key, trunc20(v), trunc20(want.Value), e.cut)
		}
		okN++
	}
	switch {
	case goneN == 0:
		return 0
	case okN == 0:
		return 1
	}
	return 2
}

// onDisk tells whether the chunk file in which the value of te starts still exists.
func (e *env) onDisk(te *store.TxEntry) bool {
	v, off := decodeOff(te.VOff())
	_, err := os.Stat(filepath.Join(e.dir, fmt.Sprintf("val_%d", int(v)-1), fmt.Sprintf("%08d.val", off/int64(e.cfg.FileSize))))
	return err == nil
}

// avoidF2 decides, right before an ExportTx of tx l below the cut, whether the call belongs to the class of known
// finding F2 (some value of the transaction can be read, another cannot: the call fails and leaks the export mutex).
// Without a value cache the class is exactly "ReadValue succeeds for some entries and fails for others"; with a
// value cache a deleted value may or may not still be cached at the time of the call, so only transactions whose
// non-empty values are all still on disk are outside the class for sure.
func (e *env) avoidF2(what string, l *ltx) bool {
	if !vk.Excluded(kfF2) {
		return false
	}
	tx := e.newTx()
	if err := e.st.ReadTx(l.id, false, tx); err != nil {
		e.failf("%s: ReadTx(%d): %v", what, l.id, err)
	}
	avoid := false
	if e.cfg.VLogCache > 0 {
		for _, te := range tx.Entries() {
			if te.VLen() > 0 && !e.onDisk(te) {
				avoid = true
			}
		}
	} else {
		avoid = e.valueState(what, l, tx) == 2
	}
	if avoid {
		vk.CountExcluded(kfF2)
		e.f2Avoided++
	}
	return avoid
}

func (e *env) checkRef(what string, key []byte, ref store.ValueRef, want stx.Ver) {
	if ref.Tx() != want.Tx || ref.HC() != want.HC {
		e.failf("%s(%q): tx=%d rev=%d, ledger tx=%d rev=%d (cut=%d)", what, key, ref.Tx(), ref.HC(), want.Tx, want.HC, e.cut)
	}
	if ref.HVal() != sha256.Sum256(want.E.Value) || int(ref.Len()) != len(want.E.Value) {
		e.failf("%s(%q): index entry of tx %d carries a different value hash/length than the ledger", what, key, want.Tx)
	}
	md := ref.KVMetadata()
	if (md != nil && md.Deleted()) != want.E.Deleted {
		e.failf("%s(%q): metadata of tx %d differs from the ledger", what, key, want.Tx)
	}
	v, err := ref.Resolve()
	if err != nil {
		if want.Tx >= e.cut {
			e.failf("%s(%q): resolving the value of tx %d: %v — the transaction is at or after every cut (cut=%d)", what, key, want.Tx, err, e.cut)
		}
		return
	}
	if !bytes.Equal(v, want.E.Value) {
		e.failf("%s(%q): value of tx %d = %q, acknowledged %q", what, key, want.Tx, trunc20(v), trunc20(want.E.Value))
	}
}

func (e *env) model() *stx.Model {
	e.mu.Lock()
	defer e.mu.Unlock()
	m := &stx.Model{}
	for _, l := range e.led {
		m.Add(l.hdr, l.entries)
	}
	return m
}

// verify compares the whole store with the ledger (nothing else may be running in the store).
func (e *env) verify(what string) {
	st := e.st
	n := e.n()
	if got := st.LastCommittedTxID(); got != n {
		e.failf("%s: LastCommittedTxID=%d, ledger has %d", what, got, n)
	}
	if n == 0 {
		return
	}
	if id, alh := st.CommittedAlh(); id != n || alh != e.tx(n).hdr.Alh() {
		e.failf("%s: CommittedAlh=(%d,%x), ledger (%d,%x)", what, id, alh, n, e.tx(n).hdr.Alh())
	}
	hLast, err := st.ReadTxHeader(n, false, false)
	if err != nil {
		e.failf("%s: ReadTxHeader(%d): %v", what, n, err)
	}
	h1, err := st.ReadTxHeader(1, false, false)
	if err != nil {
		e.failf("%s: ReadTxHeader(1): %v", what, err)
	}
	tx := e.newTx()
	for id := uint64(1); id <= n; id++ {
		l := e.tx(id)
		// header, Alh, proofs: for every id
		h, err := st.ReadTxHeader(id, false, false)
		if err != nil {
			e.failf("%s: ReadTxHeader(%d): %v", what, id, err)
		}
		if h.Alh() != l.hdr.Alh() || h.Eh != l.hdr.Eh || h.NEntries != len(l.entries) {
			e.failf("%s: header of tx %d differs from the acknowledged one", what, id)
		}
		p, err := st.DualProof(h, hLast)
		if err != nil || !store.VerifyDualProof(p, id, n, l.hdr.Alh(), e.tx(n).hdr.Alh()) {
			e.failf("%s: DualProof(%d -> %d) err=%v does not verify against the acknowledged hashes", what, id, n, err)
		}
		p, err = st.DualProof(h1, h)
		if err != nil || !store.VerifyDualProof(p, 1, id, e.tx(1).hdr.Alh(), l.hdr.Alh()) {
			e.failf("%s: DualProof(1 -> %d) err=%v does not verify against the acknowledged hashes", what, id, err)
		}
		// entries
		if err := st.ReadTx(id, false, tx); err != nil {
			e.failf("%s: ReadTx(%d): %v (cut=%d)", what, id, err, e.cut)
		}
		if tx.Header().Alh() != l.hdr.Alh() {
			e.failf("%s: ReadTx(%d) header differs from the acknowledged one", what, id)
		}
		tes := tx.Entries()
		if len(tes) != len(l.entries) {
			e.failf("%s: ReadTx(%d): %d entries, acknowledged %d", what, id, len(tes), len(l.entries))
		}
		digestFn, err := store.EntrySpecDigestFor(tx.Header().Version)
		if err != nil {
			e.failf("%s: tx %d: %v", what, id, err)
		}
		for i, te := range tes {
			want := l.entries[i]
			if !bytes.Equal(te.Key(), want.Key) || te.HVal() != sha256.Sum256(want.Value) || te.VLen() != len(want.Value) {
				e.failf("%s: ReadTx(%d) entry %d: key/hash/length differ from the acknowledged entry %s", what, id, i, want)
			}
			ip, err := tx.Proof(want.Key)
			if err != nil || !store.VerifyInclusion(ip, digestFn(&store.EntrySpec{Key: want.Key, Metadata: want.MD(), Value: want.Value}), l.hdr.Eh) {
				e.failf("%s: inclusion proof of %q in tx %d err=%v does not verify against the acknowledged Eh", what, want.Key, id, err)
			}
		}
		e.valueState(what, l, tx)
	}

	// index
	ctx, cancel := context.WithTimeout(context.Background(), 120*time.Second)
	err = st.WaitForIndexingUpto(ctx, n)
	cancel()
	if err != nil {
		e.failf("%s: indexing did not catch up with tx %d within 120 s: %v", what, n, err)
	}
	m := e.model()
	for _, k := range m.Keys(nil, n) {
		vers := m.Versions(k, n)
		last := vers[len(vers)-1]
		ref, err := st.Get(context.Background(), k)
		if last.E.Deleted {
			if !errors.Is(err, store.ErrKeyNotFound) {
				e.failf("%s: Get(%q): latest version (tx %d) is a delete, got err=%v", what, k, last.Tx, err)
			}
			ref, err = st.GetWithFilters(context.Background(), k)
		}
		if err != nil {
			e.failf("%s: Get(%q): %v, ledger: tx %d (cut=%d)", what, k, err, last.Tx, e.cut)
		}
		e.checkRef(what+": Get", k, ref, last)
		refs, hc, err := st.History(k, 0, false, len(vers)+1)
		if err != nil || hc != uint64(len(vers)) || len(refs) != len(vers) {
			e.failf("%s: History(%q): %d refs, count %d, err=%v; ledger has %d versions", what, k, len(refs), hc, err, len(vers))
		}
		for i := range vers {
			e.checkRef(what+": History", k, refs[i], vers[i])
		}
	}

	// exports: ascending, then a few more in generated order (the call after a failed / digest-only export matters)
	ids := make([]uint64, 0, n+6)
	for id := uint64(1); id <= n; id++ {
		ids = append(ids, id)
	}
	for q := 0; q < 6; q++ {
		ids = append(ids, uint64(rapid.IntRange(1, int(n)).Draw(e.rt, "exportId")))
	}
	after := ""
	for _, id := range ids {
		l := e.tx(id)
		if id < e.cut && e.avoidF2(what, l) {
			continue // known finding F2: this export fails with "partially truncated" and leaks the export mutex
		}
		b, err := e.exportBounded(what, id, true, after)
		if id >= e.cut {
			if err != nil {
				e.failf("%s: ExportTx(%d): %v — the transaction is at or after every cut (cut=%d)%s", what, id, err, e.cut, after)
			}
			if !bytes.Equal(b, l.export) {
				e.checkExport(what, l, b)
				e.failf("%s: ExportTx(%d) differs from the export taken at acknowledgement (cut=%d)", what, id, e.cut)
			}
			after = ""
			continue
		}
		switch {
		case err != nil:
			// explicit error: allowed below the cut
			e.sawPartialErr = true
			after = fmt.Sprintf(" [previous call: ExportTx(%d) = %v]", id, err)
		case e.checkExport(what, l, b):
			e.sawDigestOnly = true
			after = fmt.Sprintf(" [previous call: digest-only ExportTx(%d)]", id)
		default:
			e.sawFullBelowCut = true
			after = ""
		}
	}
	// the store still serves reads after the exports
	if err := st.ReadTx(n, false, tx); err != nil {
		e.failf("%s: ReadTx(%d) after the exports: %v", what, n, err)
	}
}

// twin replicates the exports of the store under test into a fresh store and compares hashes and values.
func (e *env) twin(what string) {
	tdir := vk.Dir()
	defer os.RemoveAll(tdir)
	tcfg := e.cfg
	tcfg.FileSize = 1 << 20
	tcfg.IOConc = 1
	tcfg.VLogCache = 0
	tw, err := store.Open(tdir, storeOpts(tcfg))
	if err != nil {
		e.failf("twin store.Open: %v", err)
	}
	defer tw.Close()
	n := e.n()
	tx := e.newTx()
	digestOnly := map[uint64]bool{}
	for id := uint64(1); id <= n; id++ {
		l := e.tx(id)
		b := l.export
		if err := e.st.ReadTx(id, false, tx); err != nil {
			e.failf("%s: ReadTx(%d): %v", what, id, err)
		}
		if id < e.cut && e.avoidF2(what, l) {
			// the export taken at acknowledgement stands in
		} else if xb, err := e.exportBounded(what, id, true, ""); err == nil {
			b = xb
			digestOnly[id] = e.checkExport(what, l, xb)
		} else if id >= e.cut {
			e.failf("%s: ExportTx(%d): %v (cut=%d)", what, id, err, e.cut)
		}
		hdr, err := tw.ReplicateTx(context.Background(), b, false, false)
		if err != nil {
			e.failf("%s: twin ReplicateTx of the export of tx %d (digest-only=%v): %v", what, id, digestOnly[id], err)
		}
		if hdr.ID != id || hdr.Alh() != l.hdr.Alh() {
			e.failf("%s: twin: tx %d replicated from its export (digest-only=%v) has alh %x, acknowledged %x", what, id, digestOnly[id], hdr.Alh(), l.hdr.Alh())
		}
	}
	if id, alh := tw.CommittedAlh(); id != n || alh != e.tx(n).hdr.Alh() {
		e.failf("%s: twin state (%d,%x) differs from the ledger (%d,%x)", what, id, alh, n, e.tx(n).hdr.Alh())
	}
	for id := uint64(1); id <= n; id++ {
		l := e.tx(id)
		if err := tw.ReadTx(id, false, tx); err != nil {
			e.failf("%s: twin ReadTx(%d): %v", what, id, err)
		}
		for i, te := range tx.Entries() {
			want := l.entries[i]
			if !bytes.Equal(te.Key(), want.Key) || te.HVal() != sha256.Sum256(want.Value) {
				e.failf("%s: twin tx %d entry %d differs from the ledger", what, id, i)
			}
			if digestOnly[id] {
				continue
			}
			v, err := tw.ReadValue(te)
			if err != nil || !bytes.Equal(v, want.Value) {
				e.failf("%s: twin ReadValue(tx %d, %q) = %q err=%v, acknowledged %q", what, id, want.Key, trunc20(v), err, trunc20(want.Value))
			}
		}
	}
	if len(digestOnly) > 0 {
		e.c.Label("twin-replicated")
	}
	for _, d := range digestOnly {
		if d {
			e.c.Label("twin-with-digest-only-txs")
			break
		}
	}
}

func (e *env) placement(from uint64) string {
	e.mu.Lock()
	defer e.mu.Unlock()
	s := ""
	for _, l := range e.led[from:] {
		s += fmt.Sprintf("%d@%d+%d/%d ", l.id, l.vlog, l.minOff, len(l.entries))
	}
	return s
}

// outOfOrderAt: some tx >= n has its values before the values of a tx < n in the same value log.
func (e *env) outOfOrderAt(n uint64) bool {
	e.mu.Lock()
	defer e.mu.Unlock()
	if n == 0 { // any inversion at all
		last := map[byte]int64{}
		for _, l := range e.led {
			if l.vlog == 0 {
				continue
			}
			if prev, ok := last[l.vlog]; ok && l.minOff < prev {
				return true
			}
			if l.minOff > last[l.vlog] {
				last[l.vlog] = l.minOff
			}
		}
		return false
	}
	maxBelow := map[byte]int64{}
	for _, l := range e.led {
		if l.id < n && l.vlog != 0 && l.minOff > maxBelow[l.vlog] {
			maxBelow[l.vlog] = l.minOff
		}
	}
	for _, l := range e.led {
		if l.id >= n && l.vlog != 0 {
			if mb, ok := maxBelow[l.vlog]; ok && l.minOff < mb {
				return true
			}
		}
	}
	return false
}

// farOutOfOrderAt: some tx with id > n+MaxConcurrency has its values before the values of a tx <= n in the same value log.
func (e *env) farOutOfOrderAt(n uint64) bool {
	e.mu.Lock()
	defer e.mu.Unlock()
	maxUpTo := map[byte]int64{}
	for _, l := range e.led {
		if l.id <= n && l.vlog != 0 && l.minOff > maxUpTo[l.vlog] {
			maxUpTo[l.vlog] = l.minOff
		}
	}
	for _, l := range e.led {
		if l.id > n+uint64(e.maxConc) && l.vlog != 0 {
			if mb, ok := maxUpTo[l.vlog]; ok && l.minOff < mb {
				return true
			}
		}
	}
	return false
}

func (e *env) truncate(n uint64) {
	before := e.chunkFiles()
	ooo := e.outOfOrderAt(n)
	if e.farOutOfOrderAt(n) {
		e.c.Label("out-of-order-beyond-max-concurrency-at-cut")
	}
	err := e.st.TruncateUptoTx(n)
	if err != nil {
		e.failf("TruncateUptoTx(%d) with %d committed transactions: %v", n, e.n(), err)
	}
	if n > e.cut {
		e.cut = n
	}
	if del := e.deletedSince(before); del > 0 {
		e.chunksDeleted += del
		e.c.Label("chunk-deleted")
		if ooo {
			e.nontrivial = true
			e.c.Label("chunk-deleted-with-out-of-order-at-cut")
		}
	}
	if ooo {
		e.c.Label("out-of-order-at-cut")
	}
}

// ---------------------------------------------------------------------------

func TestStoreTruncation(t *testing.T) {
	vk.Check(t, 250, 6000, func(rt *rapid.T, c *vk.Case) {
		e := &env{rt: rt, c: c, cfg: genStoreCfg(rt)}
		e.emptyPct = rapid.SampledFrom([]int{0, 0, 3, 3, 8, 20}).Draw(rt, "emptyPct")
		e.dir = vk.Dir()
		defer os.RemoveAll(e.dir)
		e.fs = fsim.New(e.dir)
		e.fs.Yield = e.yield
		e.jtab = rapid.SliceOfN(rapid.SampledFrom([]int{0, 0, 0, 1, 1, 2, 3}), 16, 16).Draw(rt, "jitter")
		e.maxConc = rapid.SampledFrom([]int{1, 2, 2, 3, 3, 30}).Draw(rt, "maxConcurrency")
		c.Descf("cfg=%s maxConc=%d", e.cfg, e.maxConc)
		e.open()
		defer func() {
			if e.st != nil && !e.wedged {
				e.st.Close()
			}
		}()

		// history
		total := rapid.IntRange(6, 36).Draw(rt, "txs")
		window := rapid.IntRange(1, 6).Draw(rt, "committers")
		mode := rapid.SampledFrom([]string{"replicate", "replicate", "commit"}).Draw(rt, "mode")
		if mode == "replicate" && rapid.IntRange(0, 3).Draw(rt, "wide") == 0 {
			window = rapid.IntRange(6, 9).Draw(rt, "replicators")
		}
		if mode == "replicate" {
			order := e.loadByReplication(rt, window, total)
			c.Descf("replicate w=%d order=%s", window, order)
		} else {
			window = min(window, e.maxConc) // a commit beyond the holders of the pool is refused (ErrMaxConcurrencyLimitExceeded)
			e.loadByCommitters(rt, window, total)
			c.Descf("commit w=%d n=%d", window, total)
		}
		c.Label("mode-" + mode)
		e.baseline("after load", 0)
		c.Descf("place=%s", e.placement(0))
		e.verify("after load")

		truncs, reopens, concs, edges := 0, 0, 0, 0
		step := func(op string) {
			n := e.n()
			switch op {
			case "truncate":
				cutN := uint64(rapid.IntRange(1, int(n)).Draw(rt, "cut"))
				switch rapid.IntRange(0, 9).Draw(rt, "cutBias") {
				case 0:
					cutN = uint64(rapid.IntRange(int(n*2/3)+1, int(n)).Draw(rt, "cutH"))
				case 4, 5, 6, 7:
					// a cut below which lie the values of a transaction more than MaxConcurrency ids above it
					var cand []uint64
					for x := uint64(1); x <= n; x++ {
						if e.farOutOfOrderAt(x) {
							cand = append(cand, x)
						}
					}
					if len(cand) > 0 {
						cutN = cand[rapid.IntRange(0, len(cand)-1).Draw(rt, "cutFar")]
					}
				case 1, 2, 3:
					// a cut at which some later transaction lies before an earlier one in a value log
					var cand []uint64
					for x := uint64(2); x <= n; x++ {
						if e.outOfOrderAt(x) {
							cand = append(cand, x)
						}
					}
					if len(cand) > 0 {
						cutN = cand[rapid.IntRange(len(cand)/2, len(cand)-1).Draw(rt, "cutOOO")]
					}
				}
				if truncs > 0 && cutN < e.cut {
					c.Label("lower-cut-after-higher")
				}
				e.truncate(cutN)
				truncs++
				c.Descf("T%d", cutN)
				e.verify(fmt.Sprintf("after TruncateUptoTx(%d)", cutN))
			case "edge":
				// cut points outside 1..committed: rejected or harmless; never a panic, never damage at or after the cut
				// (a call that returns nil counts as a truncation at that cut; one that fails must leave everything >= the current cut alone)
				for _, bad := range []uint64{0, n + 1, n + 1 + uint64(rapid.IntRange(1, 1000).Draw(rt, "beyond"))} {
					err := e.st.TruncateUptoTx(bad)
					if err == nil && bad > e.cut {
						e.cut = bad
						c.Label("out-of-range-cut-accepted")
					}
					if err != nil {
						c.Label("out-of-range-cut-rejected")
					}
				}
				edges++
				c.Descf("E")
				e.verify("after out-of-range truncations")
			case "commit":
				k := rapid.IntRange(1, 5).Draw(rt, "more")
				w := min(rapid.IntRange(1, 3).Draw(rt, "moreCommitters"), e.maxConc)
				news, err := e.commitConcurrently(e.genPlans(rt, w, k))
				if err != nil {
					e.failf("commit: %v", err)
				}
				e.ack(news)
				e.baseline("after further commits", n)
				c.Descf("C%d/%d %s", k, w, e.placement(n))
			case "reopen":
				if err := e.st.Close(); err != nil {
					e.st = nil
					e.failf("Close: %v", err)
				}
				e.st = nil
				e.cfg.VLogCache = rapid.SampledFrom([]int{0, 0, 2, 100}).Draw(rt, "vlogCache2")
				e.cfg.TxLogCache = rapid.SampledFrom([]int{1, 10, 1000}).Draw(rt, "txLogCache2")
				e.open()
				reopens++
				c.Descf("O")
				e.verify("after restart")
			case "concurrent":
				e.concurrentPhase(rt)
				concs++
			case "twin":
				e.twin("twin")
				c.Descf("W")
			}
		}
		nOps := rapid.IntRange(2, 7).Draw(rt, "nOps")
		for i := 0; i < nOps; i++ {
			step(rapid.SampledFrom([]string{"truncate", "truncate", "truncate", "truncate", "edge", "commit", "commit", "reopen", "reopen", "concurrent", "concurrent", "twin"}).Draw(rt, "op"))
		}
		if truncs == 0 && concs == 0 {
			step("truncate")
		}
		step("reopen")
		// the store accepts new transactions, chained to the ledger
		step("commit")
		e.verify("at the end")
		if rapid.IntRange(0, 2).Draw(rt, "finalTwin") > 0 {
			step("twin")
		}

		c.Descf("n=%d cut=%d", e.n(), e.cut)
		c.Label(fmt.Sprintf("ioconc-%d", e.cfg.IOConc))
		c.Label(fmt.Sprintf("maxconcurrency-%d", e.maxConc))
		c.Label(fmt.Sprintf("filesize-%d", e.cfg.FileSize))
		if e.cfg.Compression != appendable.NoCompression {
			c.Label("compression")
		}
		if e.cfg.VLogCache > 0 {
			c.Label("value-cache")
		}
		if truncs > 1 {
			c.Label("truncation-repeated")
		}
		if reopens > 1 {
			c.Label("restart-mid-program")
		}
		if concs > 0 {
			c.Label("concurrent-phase")
		}
		if edges > 0 {
			c.Label("edge-cuts")
		}
		if e.sawDigestOnly {
			c.Label("digest-only-export")
		}
		if e.sawPartialErr {
			c.Label("partially-truncated-export-error")
		}
		if e.sawFullBelowCut {
			c.Label("full-export-below-cut")
		}
		if e.f2Avoided > 0 {
			c.Label("partially-truncated-export-avoided-F2")
		}
		if e.outOfOrderAt(0) {
			c.Label("placement-out-of-id-order-" + mode)
		}
		emptyFirst, emptyLater := false, false
		for _, l := range e.led {
			for i, en := range l.entries {
				if len(en.Value) == 0 && len(l.entries) > 1 {
					if i == 0 {
						emptyFirst = true
					} else {
						emptyLater = true
					}
				}
			}
		}
		if emptyFirst {
			c.Label("empty-value-first-in-tx")
		}
		if emptyLater {
			c.Label("empty-value-later-in-tx")
		}
		if e.nontrivial {
			c.NonTrivial()
		}
	})
}

// concurrentPhase: truncations racing with each other, with committers and with readers. Cut points are at most
// the last transaction committed before the phase; readers only touch transactions at or after every cut.
func (e *env) concurrentPhase(rt *rapid.T) {
	n0 := e.n()
	nTrunc := rapid.IntRange(1, 3).Draw(rt, "truncators")
	nWriters := min(rapid.IntRange(0, 2).Draw(rt, "writers"), e.maxConc)
	nReaders := rapid.IntRange(0, 2).Draw(rt, "readers")
	serialize := false
	if e.cfg.IOConc > 1 && vk.Excluded(kfDeadlock) {
		// known finding K14a: a truncation keeps the value logs it visited locked while it waits for the next one.
		// Two truncations in flight wait for each other; one truncation plus a reader waiting for a log the truncation
		// holds hang as well (releaseVLog wakes one waiter only: the reader consumes the wake-up meant for the truncation).
		// While the finding is open: truncations one at a time and no value readers next to them (committers stay).
		if nTrunc > 1 {
			serialize = true
		}
		if nReaders > 0 {
			nReaders = 0
			vk.CountExcluded(kfDeadlock)
			e.c.Label("readers-dropped-K14a")
		}
	}
	var cuts [][]uint64
	maxCut := e.cut
	desc := ""
	for i := 0; i < nTrunc; i++ {
		var cs []uint64
		for j := rapid.IntRange(1, 2).Draw(rt, "truncs"); j > 0; j-- {
			cn := uint64(rapid.IntRange(1, int(n0)).Draw(rt, "ccut"))
			cs = append(cs, cn)
			if cn > maxCut {
				maxCut = cn
			}
			desc += fmt.Sprintf("%d,", cn)
		}
		cuts = append(cuts, cs)
	}
	var plans [][][]stx.Entry
	if nWriters > 0 {
		plans = e.genPlans(rt, nWriters, rapid.IntRange(nWriters, 6).Draw(rt, "ctxs"))
	}
	// readers: generated list of ids in maxCut..n0
	var reads [][]uint64
	for i := 0; i < nReaders; i++ {
		var ids []uint64
		for j := 0; j < 12; j++ {
			ids = append(ids, uint64(rapid.IntRange(int(maxCut), int(n0)).Draw(rt, "rid")))
		}
		reads = append(reads, ids)
	}
	e.c.Descf("X[t=%s w=%d r=%d]", desc, nWriters, nReaders)

	before := e.chunkFiles()
	ooo := false
	for _, cs := range cuts {
		for _, cn := range cs {
			ooo = ooo || e.outOfOrderAt(cn)
		}
	}
	var errMu sync.Mutex
	var errs []string
	fail := func(format string, args ...any) {
		errMu.Lock()
		errs = append(errs, fmt.Sprintf(format, args...))
		errMu.Unlock()
	}
	var truncMu sync.Mutex
	var news map[uint64]*ltx
	var fns []func()
	for _, cs := range cuts {
		cs := cs
		fns = append(fns, func() {
			for _, cn := range cs {
				if serialize {
					vk.CountExcluded(kfDeadlock)
					truncMu.Lock()
				}
				err := e.st.TruncateUptoTx(cn)
				if serialize {
					truncMu.Unlock()
				}
				if err != nil {
					fail("TruncateUptoTx(%d) racing with %d other truncators, %d writers, %d readers: %v", cn, nTrunc-1, nWriters, nReaders, err)
				}
			}
		})
	}
	if nWriters > 0 {
		fns = append(fns, func() {
			var err error
			news, err = e.commitConcurrently(plans)
			if err != nil {
				fail("commit racing with truncation: %v", err)
			}
		})
	}
	for _, ids := range reads {
		ids := ids
		fns = append(fns, func() {
			tx := e.newTx()
			for _, id := range ids {
				l := e.tx(id)
				if err := e.st.ReadTx(id, false, tx); err != nil {
					fail("ReadTx(%d) racing with truncations at %s: %v", id, desc, err)
					return
				}
				for i, te := range tx.Entries() {
					v, err := e.st.ReadValue(te)
					if err != nil || !bytes.Equal(v, l.entries[i].Value) {
						fail("ReadValue(tx %d, entry %d) racing with truncations at %s (all <= %d): %q err=%v, acknowledged %q", id, i, desc, maxCut, trunc20(v), err, trunc20(l.entries[i].Value))
						return
					}
				}
				var b []byte
				var err error
				if !bounded("", func() { b, err = e.st.ExportTx(id, false, false, e.newTx()) }) {
					fail("ExportTx(%d) racing with truncations at %s did not return within %v", id, desc, liveness)
					return
				}
				if err != nil || !bytes.Equal(b, l.export) {
					fail("ExportTx(%d) racing with truncations at %s (all <= %d): err=%v, equal to the acknowledged export: %v", id, desc, maxCut, err, bytes.Equal(b, l.export))
					return
				}
			}
		})
	}
	e.jitterOn.Store(true)
	fin := boundedFor(3*liveness, "", fns...) // the phase is up to a few dozen calls
	e.jitterOn.Store(false)
	if !fin {
		e.wedged = true
		e.failf("concurrent phase (truncations at %s by %d truncators, %d writers, %d readers, MaxIOConcurrency %d) did not complete within %v", desc, nTrunc, nWriters, nReaders, e.cfg.IOConc, 3*liveness)
	}
	sort.Strings(errs)
	if len(errs) > 0 {
		e.failf("%s", errs[0])
	}
	e.cut = maxCut
	if del := e.deletedSince(before); del > 0 {
		e.chunksDeleted += del
		e.c.Label("chunk-deleted")
		if ooo {
			e.nontrivial = true
			e.c.Label("chunk-deleted-with-out-of-order-at-cut")
		}
	}
	if nTrunc > 1 && !serialize {
		e.c.Label("truncation-concurrent-with-itself")
	}
	if nTrunc > 1 && serialize {
		e.c.Label("truncations-serialized-K14a")
	}
	if nWriters > 0 {
		e.c.Label("truncation-vs-writers")
		e.ack(news)
		e.baseline("after the concurrent phase", n0)
	}
	if nReaders > 0 {
		e.c.Label("truncation-vs-readers")
	}
	e.verify(fmt.Sprintf("after the concurrent phase (truncations at %s)", desc))
}
