package c14

import (
	"context"
	"errors"
	"fmt"
	"os"
	"path/filepath"
	"strings"
	"testing"
	"time"

	"github.com/codenotary/immudb/embedded/document"
	"github.com/codenotary/immudb/pkg/api/protomodel"
	"github.com/codenotary/immudb/pkg/api/schema"
	"github.com/codenotary/immudb/pkg/database"
	"github.com/codenotary/immudb/pkg/truncator"
	"google.golang.org/protobuf/types/known/structpb"
	"pgregory.net/rapid"

	"verif/internal/stx"
	"verif/internal/vk"
)

// rows of t0 (id AUTO_INCREMENT, so ids and tx ids grow together)
type row0 struct {
	id      int
	name    string
	amount  int
	payload string
	extra   string // "" = NULL (column added by ALTER TABLE)
	tx      uint64
}

// latest version of a row of t1 (explicit key, UPSERTed)
type row1 struct {
	v  string
	tx uint64
}

type docRec struct {
	id  string
	num float64
	tag string
	tx  uint64
}

type dbEnv struct {
	rt   *rapid.T
	c    *vk.Case
	dir  string
	opts *database.Options
	db   database.DB

	fileSize int
	hasT1    bool
	hasAmtIx bool
	hasExtra bool
	t0       []row0
	t1       map[int]row1
	t1keys   []int
	docs     []docRec
	createTx uint64 // last DDL transaction of the initial schema
	cut      uint64
	ctr      int

	chunksDeleted     bool
	catalogBelowCut   bool
	restartsAfterCut  int
	truncations       int
	rowsBelowCut      bool
	retainedRowsRead  bool
	retainedDocsFound bool
}

var bg = context.Background()

func (e *dbEnv) failf(format string, args ...any) {
	e.c.Failf(e.rt, map[string]any{"cut": e.cut, "t0": len(e.t0), "t1": len(e.t1), "docs": len(e.docs)}, format, args...)
}

func (e *dbEnv) exec(sqlText string) uint64 {
	_, ctxs, err := e.db.SQLExec(bg, nil, &schema.SQLExecRequest{Sql: sqlText})
	if err != nil {
		e.failf("SQLExec(%s) (cut=%d, %d truncations, %d restarts after a truncation): %v", short(sqlText), e.cut, e.truncations, e.restartsAfterCut, err)
	}
	if len(ctxs) == 0 || ctxs[len(ctxs)-1].TxHeader() == nil {
		e.failf("SQLExec(%s): no committed transaction reported", short(sqlText))
	}
	return ctxs[len(ctxs)-1].TxHeader().ID
}

func short(s string) string {
	if len(s) > 90 {
		return s[:90] + "…"
	}
	return s
}

// query returns the rows rendered as strings.
func (e *dbEnv) query(sqlText string) ([][]string, error) {
	rows, err := e.db.SQLQueryAll(bg, nil, &schema.SQLQueryRequest{Sql: sqlText})
	if err != nil {
		return nil, err
	}
	var out [][]string
	for _, r := range rows {
		var vs []string
		for _, v := range r.ValuesByPosition {
			if v.IsNull() {
				vs = append(vs, "NULL")
			} else {
				vs = append(vs, fmt.Sprint(v.RawValue()))
			}
		}
		out = append(out, vs)
	}
	return out, nil
}

func (e *dbEnv) mustQuery(sqlText string, want [][]string) {
	got, err := e.query(sqlText)
	if err != nil {
		e.failf("%s (cut=%d, %d truncations, %d restarts after a truncation): %v", sqlText, e.cut, e.truncations, e.restartsAfterCut, err)
	}
	if fmt.Sprint(got) != fmt.Sprint(want) {
		e.failf("%s (cut=%d): got %d rows %v, ledger %d rows %v", sqlText, e.cut, len(got), clip(got), len(want), clip(want))
	}
}

func clip(rs [][]string) string {
	s := fmt.Sprint(rs)
	if len(s) > 300 {
		return s[:300] + "…"
	}
	return s
}

func (e *dbEnv) payload() string {
	e.ctr++
	n := rapid.IntRange(e.fileSize/4, e.fileSize).Draw(e.rt, "payloadLen")
	if n > 1500 {
		n = 1500
	}
	b := []byte(fmt.Sprintf("p%d-", e.ctr))
	for len(b) < n {
		b = append(b, byte('a'+(e.ctr+len(b))%26))
	}
	return string(b)
}

func (e *dbEnv) chunkFiles() map[string]bool {
	m, _ := filepath.Glob(filepath.Join(e.dir, "db1", "val_*", "*.val"))
	out := map[string]bool{}
	for _, f := range m {
		out[f] = true
	}
	return out
}

func (e *dbEnv) lastTx() uint64 {
	st, err := e.db.CurrentState()
	if err != nil {
		e.failf("CurrentState: %v", err)
	}
	return st.TxId
}

// ---------------------------------------------------------------------------

func (e *dbEnv) insertRow0() {
	e.ctr++
	r := row0{id: len(e.t0) + 1, name: fmt.Sprintf("n%d", e.ctr), amount: e.ctr * 10, payload: e.payload()}
	if e.hasExtra && rapid.Bool().Draw(e.rt, "withExtra") {
		r.extra = fmt.Sprintf("x%d", e.ctr)
		r.tx = e.exec(fmt.Sprintf("INSERT INTO t0(name, amount, payload, extra) VALUES ('%s', %d, '%s', '%s')", r.name, r.amount, r.payload, r.extra))
	} else {
		r.tx = e.exec(fmt.Sprintf("INSERT INTO t0(name, amount, payload) VALUES ('%s', %d, '%s')", r.name, r.amount, r.payload))
	}
	e.t0 = append(e.t0, r)
}

func (e *dbEnv) upsertRow1() {
	var k int
	if len(e.t1keys) > 0 && rapid.IntRange(0, 2).Draw(e.rt, "update") == 0 {
		k = e.t1keys[rapid.IntRange(0, len(e.t1keys)-1).Draw(e.rt, "t1key")]
	} else {
		k = len(e.t1keys) + 1
		e.t1keys = append(e.t1keys, k)
	}
	v := e.payload()
	tx := e.exec(fmt.Sprintf("UPSERT INTO t1(k, v) VALUES (%d, '%s')", k, v))
	e.t1[k] = row1{v: v, tx: tx}
}

func (e *dbEnv) insertDoc() {
	e.ctr++
	tag := e.payload()
	if len(tag) > 200 { // string fields of a collection hold at most 256 bytes
		tag = tag[:200]
	}
	d := docRec{num: float64(e.ctr), tag: tag}
	res, err := e.db.InsertDocuments(bg, "admin", &protomodel.InsertDocumentsRequest{CollectionName: "c0", Documents: []*structpb.Struct{{Fields: map[string]*structpb.Value{
		"num": structpb.NewNumberValue(d.num), "tag": structpb.NewStringValue(d.tag)}}}})
	if err != nil {
		e.failf("InsertDocuments (cut=%d, %d truncations, %d restarts after a truncation): %v", e.cut, e.truncations, e.restartsAfterCut, err)
	}
	d.id, d.tx = res.DocumentIds[0], res.TransactionId
	e.docs = append(e.docs, d)
}

func (e *dbEnv) kvFiller() {
	e.ctr++
	v := []byte(e.payload())
	for len(v) < e.fileSize-7 { // about one chunk per filler value
		v = append(v, v[:min(len(v), e.fileSize-7-len(v))]...)
	}
	if _, err := e.db.Set(bg, &schema.SetRequest{KVs: []*schema.KeyValue{{Key: []byte(fmt.Sprintf("f%d", e.ctr)), Value: v}}}); err != nil {
		e.failf("Set (cut=%d): %v", e.cut, err)
	}
}

func (e *dbEnv) truncate() {
	last := e.lastTx()
	before := e.chunkFiles()
	path := rapid.SampledFrom([]string{"direct", "direct", "direct", "plan", "truncator"}).Draw(e.rt, "path")
	var n uint64
	switch path {
	case "direct":
		n = uint64(rapid.IntRange(1, int(last)).Draw(e.rt, "cut"))
		if rapid.Bool().Draw(e.rt, "cutLate") {
			n = uint64(rapid.IntRange(int(last*2/3)+1, int(last)).Draw(e.rt, "cutL"))
		}
		if err := database.NewVlogTruncator(e.db, quiet()).TruncateUptoTx(bg, n); err != nil {
			e.failf("vlogTruncator.TruncateUptoTx(%d) with %d committed transactions: %v", n, last, err)
		}
	case "plan":
		// every transaction is older than "two days from now": the plan is the newest transaction with entries
		tr := database.NewVlogTruncator(e.db, quiet())
		hdr, err := tr.Plan(bg, time.Now().Add(48*time.Hour))
		if err != nil {
			e.failf("vlogTruncator.Plan: %v", err)
		}
		n = hdr.Id
		if n == 0 || n > last {
			e.failf("vlogTruncator.Plan returned tx %d, committed %d", n, last)
		}
		if err := tr.TruncateUptoTx(bg, n); err != nil {
			e.failf("vlogTruncator.TruncateUptoTx(%d) (planned): %v", n, err)
		}
	case "truncator":
		// pkg/truncator with a negative retention period: same plan as above, through the server's code path
		if err := truncator.NewTruncator(e.db, 0, time.Hour, quiet()).Truncate(bg, -72*time.Hour); err != nil {
			e.failf("truncator.Truncate: %v", err)
		}
		n = last // the newest transaction has entries (every generated transaction has)
	}
	if n > e.cut {
		e.cut = n
	}
	e.truncations++
	e.restartsAfterCut = 0
	now := e.chunkFiles()
	for f := range before {
		if !now[f] {
			e.chunksDeleted = true
		}
	}
	if e.createTx < e.cut {
		e.catalogBelowCut = true
	}
	e.c.Descf("T%s%d", path[:1], n)
	e.c.Label("path-" + path)
}

func (e *dbEnv) restart() {
	if err := e.db.Close(); err != nil {
		e.failf("Close: %v", err)
	}
	db, err := database.OpenDB("db1", nil, e.opts, quiet())
	if err != nil {
		e.db = nil
		e.failf("OpenDB after %d truncations (cut=%d): %v", e.truncations, e.cut, err)
	}
	e.db = db
	if e.truncations > 0 {
		e.restartsAfterCut++
	}
	e.c.Descf("O")
}

func (e *dbEnv) searchDocs(q *protomodel.Query, what string) []string {
	r, err := e.db.SearchDocuments(bg, q, 0)
	if err != nil {
		e.failf("SearchDocuments(%s) (cut=%d): %v", what, e.cut, err)
	}
	defer r.Close()
	var out []string
	for {
		d, err := r.Read(bg)
		if errors.Is(err, document.ErrNoMoreDocuments) {
			return out
		}
		if err != nil {
			e.failf("SearchDocuments(%s) (cut=%d, %d truncations, %d restarts after a truncation): after %d documents: %v", what, e.cut, e.truncations, e.restartsAfterCut, len(out), err)
		}
		f := d.Document.Fields
		out = append(out, fmt.Sprintf("%s|%v|%s", f["_id"].GetStringValue(), f["num"].GetNumberValue(), f["tag"].GetStringValue()))
	}
}

// check evaluates the oracle: catalog, everything written at or after the cut, point reads of rows whose latest version is at or after the cut.
func (e *dbEnv) check() {
	// t0: rows from the first one written at or after the cut (ids and tx ids are monotone)
	cols := "id, name, amount, payload"
	if e.hasExtra {
		cols += ", extra"
	}
	render0 := func(r row0) []string {
		out := []string{fmt.Sprint(r.id), r.name, fmt.Sprint(r.amount), r.payload}
		if e.hasExtra {
			if r.extra == "" {
				out = append(out, "NULL")
			} else {
				out = append(out, r.extra)
			}
		}
		return out
	}
	first := len(e.t0) + 1
	for _, r := range e.t0 {
		if r.tx >= e.cut {
			first = r.id
			break
		}
	}
	if first > 1 {
		e.rowsBelowCut = true
	}
	var want [][]string
	for _, r := range e.t0 {
		if r.id >= first {
			want = append(want, render0(r))
		}
	}
	e.mustQuery(fmt.Sprintf("SELECT %s FROM t0 WHERE id >= %d", cols, first), want)
	if len(want) > 0 && first > 1 {
		e.retainedRowsRead = true
	}
	if e.hasAmtIx && first <= len(e.t0) {
		e.mustQuery(fmt.Sprintf("SELECT %s FROM t0 USE INDEX ON (amount) WHERE amount >= %d", cols, e.t0[first-1].amount), want)
	}
	if e.cut == 0 {
		e.mustQuery(fmt.Sprintf("SELECT %s FROM t0", cols), want)
	}
	// t1: point reads of the keys whose latest version is at or after the cut
	if e.hasT1 {
		for _, k := range e.t1keys {
			if r := e.t1[k]; r.tx >= e.cut {
				e.mustQuery(fmt.Sprintf("SELECT k, v FROM t1 WHERE k = %d", k), [][]string{{fmt.Sprint(k), r.v}})
			}
		}
		e.mustQuery(fmt.Sprintf("SELECT k FROM t1 WHERE k >= %d", len(e.t1keys)+1), nil)
	}
	// documents
	cinfo, err := e.db.GetCollection(bg, &protomodel.GetCollectionRequest{Name: "c0"})
	if err != nil {
		e.failf("GetCollection(c0) (cut=%d): %v", e.cut, err)
	}
	var fields, idx []string
	for _, f := range cinfo.Collection.Fields {
		fields = append(fields, f.Name)
	}
	for _, ix := range cinfo.Collection.Indexes {
		idx = append(idx, strings.Join(ix.Fields, "+"))
	}
	if fmt.Sprint(fields) != "[_id num tag]" || fmt.Sprint(idx) != "[_id num]" {
		e.failf("GetCollection(c0) (cut=%d): fields %v indexes %v, created with [_id num tag] / [_id num]", e.cut, fields, idx)
	}
	firstDoc := -1
	for i, d := range e.docs {
		if d.tx >= e.cut {
			firstDoc = i
			break
		}
	}
	if firstDoc >= 0 {
		var wantDocs []string
		for _, d := range e.docs[firstDoc:] {
			wantDocs = append(wantDocs, fmt.Sprintf("%s|%v|%s", d.id, d.num, d.tag))
		}
		ge := func(field string, v *structpb.Value) []*protomodel.QueryExpression {
			return []*protomodel.QueryExpression{{FieldComparisons: []*protomodel.FieldComparison{{Field: field, Operator: protomodel.ComparisonOperator_GE, Value: v}}}}
		}
		got := e.searchDocs(&protomodel.Query{CollectionName: "c0", Expressions: ge("num", structpb.NewNumberValue(e.docs[firstDoc].num)),
			OrderBy: []*protomodel.OrderByClause{{Field: "num"}}}, "num >= first retained, ORDER BY num")
		if fmt.Sprint(got) != fmt.Sprint(wantDocs) {
			e.failf("document search by indexed field (cut=%d): got %d documents %s, ledger %d", e.cut, len(got), clip([][]string{got}), len(wantDocs))
		}
		got = e.searchDocs(&protomodel.Query{CollectionName: "c0", Expressions: ge("_id", structpb.NewStringValue(e.docs[firstDoc].id))}, "_id >= first retained")
		if fmt.Sprint(got) != fmt.Sprint(wantDocs) {
			e.failf("document search by id range (cut=%d): got %d documents %s, ledger %d", e.cut, len(got), clip([][]string{got}), len(wantDocs))
		}
		if firstDoc > 0 {
			e.retainedDocsFound = true
		}
	}
}

func TestDatabaseTruncation(t *testing.T) {
	vk.Check(t, 64, 2000, func(rt *rapid.T, c *vk.Case) {
		e := &dbEnv{rt: rt, c: c, t1: map[int]row1{}}
		e.dir = vk.Dir()
		defer os.RemoveAll(e.dir)
		e.fileSize = rapid.SampledFrom([]int{1024, 2048, 4096}).Draw(rt, "fileSize")
		cfg := stx.Cfg{SyncFreqMs: 1, HdrVersion: 1, IOConc: rapid.IntRange(1, 3).Draw(rt, "ioConc"), FileSize: e.fileSize, TxLogCache: 100, MaxActiveTx: 100,
			MaxKeyLen: 512, MaxValueLen: 4096, MaxTxEntries: 128, WriteBuf: 4096, VLogCache: rapid.SampledFrom([]int{0, 0, 10}).Draw(rt, "vlogCache"),
			BulkSize: rapid.SampledFrom([]int{1, 4}).Draw(rt, "bulk"), FlushThld: 100, SyncThld: 100, IdxCache: 100, CompactionThld: 2, AHTSyncThld: 100, MaxBuffered: 1 << 22}
		// (small transaction pools: the defaults allocate and clear > 100 MiB per open)
		e.opts = database.DefaultOptions().WithDBRootPath(e.dir).WithStoreOptions(storeOpts(cfg).WithMaxConcurrency(8)).WithReadTxPoolSize(8)
		db, err := database.NewDB("db1", nil, e.opts, quiet())
		if err != nil {
			rt.Fatalf("NewDB: %v", err)
		}
		e.db = db
		defer func() {
			if e.db != nil {
				e.db.Close()
			}
		}()
		c.Descf("fs=%d io=%d vc=%d bulk=%d", e.fileSize, cfg.IOConc, cfg.VLogCache, cfg.BulkSize)

		// schema
		e.exec("CREATE TABLE t0 (id INTEGER AUTO_INCREMENT, name VARCHAR[64], amount INTEGER, payload VARCHAR[1600], PRIMARY KEY id)")
		if e.hasAmtIx = rapid.Bool().Draw(rt, "amountIndex"); e.hasAmtIx {
			e.exec("CREATE INDEX ON t0(amount)")
		}
		if rapid.Bool().Draw(rt, "uniqueName") {
			e.exec("CREATE UNIQUE INDEX ON t0(name)")
		}
		if e.hasT1 = rapid.Bool().Draw(rt, "t1"); e.hasT1 {
			e.exec("CREATE TABLE t1 (k INTEGER, v VARCHAR[1600], PRIMARY KEY k)")
		}
		if _, err := e.db.CreateCollection(bg, "admin", &protomodel.CreateCollectionRequest{Name: "c0",
			Fields:  []*protomodel.Field{{Name: "num", Type: protomodel.FieldType_DOUBLE}, {Name: "tag", Type: protomodel.FieldType_STRING}},
			Indexes: []*protomodel.Index{{Fields: []string{"num"}}}}); err != nil {
			rt.Fatalf("CreateCollection: %v", err)
		}
		e.createTx = e.lastTx()
		c.Descf("amtIx=%v t1=%v", e.hasAmtIx, e.hasT1)

		nOps := rapid.IntRange(6, 24).Draw(rt, "nOps")
		for i := 0; i < nOps; i++ {
			op := rapid.SampledFrom([]string{"row", "row", "row", "t1", "t1", "doc", "doc", "kv", "kv", "alter", "truncate", "truncate", "restart", "check"}).Draw(rt, "op")
			switch op {
			case "row":
				e.insertRow0()
				c.Descf("r")
			case "t1":
				if e.hasT1 {
					e.upsertRow1()
					c.Descf("u")
				}
			case "doc":
				e.insertDoc()
				c.Descf("d")
			case "kv":
				for k := rapid.IntRange(1, 4).Draw(rt, "fill"); k > 0; k-- {
					e.kvFiller()
				}
				c.Descf("k")
			case "alter":
				if !e.hasExtra {
					e.exec("ALTER TABLE t0 ADD COLUMN extra VARCHAR[20]")
					e.hasExtra = true
					c.Descf("a")
				}
			case "truncate":
				e.truncate()
				e.check()
			case "restart":
				e.restart()
				e.check()
			case "check":
				e.check()
			}
		}
		if e.truncations == 0 {
			e.truncate()
		}
		e.restart()
		e.check()
		// new inserts after truncation + restart, into every table and the collection
		e.insertRow0()
		if e.hasT1 {
			e.upsertRow1()
		}
		e.insertDoc()
		e.check()
		e.restart()
		e.check()

		c.Descf("cut=%d", e.cut)
		if e.chunksDeleted {
			c.Label("chunk-deleted")
		}
		if e.catalogBelowCut {
			c.Label("catalog-below-cut")
		}
		if e.truncations > 1 {
			c.Label("truncation-repeated")
		}
		if e.rowsBelowCut {
			c.Label("rows-below-cut")
		}
		if e.retainedRowsRead {
			c.Label("rows-at-or-after-cut-read")
		}
		if e.retainedDocsFound {
			c.Label("documents-at-or-after-cut-found")
		}
		if e.hasExtra {
			c.Label("altered-table")
		}
		if e.chunksDeleted && e.catalogBelowCut {
			c.NonTrivial()
		}
	})
}
