package c14

import (
	"context"
	"fmt"
	"os"
	"path/filepath"
	"testing"

	"github.com/codenotary/immudb/pkg/api/protomodel"
	"github.com/codenotary/immudb/pkg/api/schema"
	"github.com/codenotary/immudb/pkg/database"
	"google.golang.org/protobuf/types/known/structpb"
	"verif/internal/stx"
	"verif/internal/vk"
)

func TestDbgDB(t *testing.T) {
	dir := vk.Dir()
	defer os.RemoveAll(dir)
	cfg := stx.Cfg{SyncFreqMs: 1, HdrVersion: 1, IOConc: 1, FileSize: 512, TxLogCache: 10, MaxActiveTx: 100, MaxKeyLen: 1024,
		MaxValueLen: 4096, MaxTxEntries: 1024, WriteBuf: 4096, BulkSize: 1, FlushThld: 100, SyncThld: 100, IdxCache: 100, CompactionThld: 2, AHTSyncThld: 100,
		MaxBuffered: 1 << 22}
	opts := database.DefaultOptions().WithDBRootPath(dir).WithStoreOptions(storeOpts(cfg))
	db, err := database.NewDB("db1", nil, opts, quiet())
	if err != nil {
		t.Fatal(err)
	}
	bg := context.Background()
	exec := func(s string) uint64 {
		_, ctxs, err := db.SQLExec(bg, nil, &schema.SQLExecRequest{Sql: s})
		if err != nil {
			t.Fatalf("%s: %v", s, err)
		}
		return ctxs[len(ctxs)-1].TxHeader().ID
	}
	query := func(s string) {
		rows, err := db.SQLQueryAll(bg, nil, &schema.SQLQueryRequest{Sql: s})
		t.Logf("%s -> %d rows err=%v", s, len(rows), err)
	}
	exec("CREATE TABLE t0 (id INTEGER AUTO_INCREMENT, name VARCHAR[64], amount INTEGER, payload VARCHAR[600], PRIMARY KEY id)")
	exec("CREATE INDEX ON t0(amount)")
	_, err = db.CreateCollection(bg, "admin", &protomodel.CreateCollectionRequest{Name: "c0", Fields: []*protomodel.Field{{Name: "num", Type: protomodel.FieldType_DOUBLE}, {Name: "tag", Type: protomodel.FieldType_STRING}}, Indexes: []*protomodel.Index{{Fields: []string{"num"}}}})
	if err != nil {
		t.Fatal(err)
	}
	pay := make([]byte, 500)
	for i := range pay {
		pay[i] = 'x'
	}
	var txs []uint64
	var lastIDs []string
	for i := 1; i <= 10; i++ {
		txs = append(txs, exec(fmt.Sprintf("INSERT INTO t0(name, amount, payload) VALUES ('n%d', %d, '%s')", i, i*10, pay)))
		res, err := db.InsertDocuments(bg, "admin", &protomodel.InsertDocumentsRequest{CollectionName: "c0", Documents: []*structpb.Struct{{Fields: map[string]*structpb.Value{"num": structpb.NewNumberValue(float64(i)), "tag": structpb.NewStringValue(string(pay))}}}})
		if err != nil {
			t.Fatal(err)
		}
		lastIDs = append(lastIDs, res.DocumentIds[0])
		t.Logf("row %d tx %d, doc tx %d id %s", i, txs[len(txs)-1], res.TransactionId, res.DocumentIds[0])
	}
	files, _ := filepath.Glob(filepath.Join(dir, "db1", "val_*", "*.val"))
	t.Logf("chunks before: %d", len(files))
	tr := database.NewVlogTruncator(db, quiet())
	if err := tr.TruncateUptoTx(bg, txs[6]); err != nil {
		t.Fatal(err)
	}
	files, _ = filepath.Glob(filepath.Join(dir, "db1", "val_*", "*.val"))
	t.Logf("chunks after truncation at tx %d (row 7): %d", txs[6], len(files))
	query("SELECT id, name FROM t0 WHERE id >= 7")
	query("SELECT id, name FROM t0 WHERE id >= 8")
	query("SELECT id, name FROM t0")
	query("SELECT id, name FROM t0 WHERE amount >= 70")
	query("SELECT COUNT(*) FROM t0")
	query("SELECT id FROM t0 WHERE id > 100")
	search := func(lo float64) {
		r, err := db.SearchDocuments(bg, &protomodel.Query{CollectionName: "c0", Expressions: []*protomodel.QueryExpression{{FieldComparisons: []*protomodel.FieldComparison{{Field: "num", Operator: protomodel.ComparisonOperator_GE, Value: structpb.NewNumberValue(lo)}}}}}, 0)
		if err != nil {
			t.Logf("search >= %v: %v", lo, err)
			return
		}
		defer r.Close()
		n := 0
		for {
			_, err := r.Read(bg)
			if err != nil {
				t.Logf("search >= %v: %d docs then %v", lo, n, err)
				return
			}
			n++
		}
	}
	search(7)
	search(8)
	search(1)
	search2 := func(q *protomodel.Query, what string) {
		r, err := db.SearchDocuments(bg, q, 0)
		if err != nil {
			t.Logf("search %s: %v", what, err)
			return
		}
		defer r.Close()
		n := 0
		for {
			_, err := r.Read(bg)
			if err != nil {
				t.Logf("search %s: %d docs then %v", what, n, err)
				return
			}
			n++
		}
	}
	search2(&protomodel.Query{CollectionName: "c0", OrderBy: []*protomodel.OrderByClause{{Field: "num"}}, Expressions: []*protomodel.QueryExpression{{FieldComparisons: []*protomodel.FieldComparison{{Field: "num", Operator: protomodel.ComparisonOperator_GE, Value: structpb.NewNumberValue(8)}}}}}, "num>=8 order by num")
	search2(&protomodel.Query{CollectionName: "c0", Expressions: []*protomodel.QueryExpression{{FieldComparisons: []*protomodel.FieldComparison{{Field: "_id", Operator: protomodel.ComparisonOperator_GE, Value: structpb.NewStringValue(lastIDs[7])}}}}}, "_id>=id8")
	search2(&protomodel.Query{CollectionName: "c0", Expressions: []*protomodel.QueryExpression{{FieldComparisons: []*protomodel.FieldComparison{{Field: "_id", Operator: protomodel.ComparisonOperator_EQ, Value: structpb.NewStringValue(lastIDs[8])}}}}}, "_id==id9")
	db.Close()
	db, err = database.OpenDB("db1", nil, opts, quiet())
	if err != nil {
		t.Fatal(err)
	}
	query("SELECT id, name FROM t0 WHERE id >= 8")
	search(8)
	exec("INSERT INTO t0(name, amount, payload) VALUES ('new', 1, 'p')")
	query("SELECT id, name FROM t0 WHERE id >= 8")
	db.Close()
}
