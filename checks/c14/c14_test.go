// C14 — value-log truncation keeps everything at or after the cut readable.
package c14

import (
	"bytes"
	"context"
	"fmt"
	"os"
	"runtime"
	"strings"
	"sync"
	"sync/atomic"
	"testing"
	"time"

	"github.com/codenotary/immudb/embedded/appendable/multiapp"
	"github.com/codenotary/immudb/embedded/logger"
	"github.com/codenotary/immudb/embedded/store"

	"verif/internal/fsim"
	"verif/internal/stx"
	"verif/internal/vk"
)

const (
	kfF2       = "F2-exporttx-partial-truncation-leaks-lock"
	kfDeadlock = "K14a-concurrent-truncation-vlog-lock-order"
	kfReadAt   = "K14b-multiapp-readat-spurious-key-not-found"
)

func TestMain(m *testing.M) {
	vk.Main(m, vk.Config{
		Property: "C14",
		Rule: "store test: a generated history (1-6 concurrent committers, or 1-6 concurrent replicators with a generated launch order so that values land in the value logs out of id order; " +
			"MaxIOConcurrency 1-4, FileSize 64-512 B, value sizes around the chunk size, empty values at any position, compression on/off, value cache on/off) followed by a generated program of " +
			"truncations (any cut point, repeated, lower after higher, edge cuts 0 and committed+1), further commits, restarts and concurrent phases (truncations racing with each other, with writers and with readers); " +
			"after every step the whole store is compared with the ledger filled at acknowledgement (ReadTx+ReadValue, Get, History, ExportTx under a 30 s liveness bound, headers, Alh, dual proofs, inclusion proofs, twin replication of the exports). " +
			"database test: generated SQL tables / document collection / KV filler, truncation through vlogTruncator (Plan + TruncateUptoTx) and pkg/truncator, restart, then catalog, SELECT, document search and new inserts. " +
			"Non-trivial (store): a truncation deleted >= 1 chunk file while some tx >= n has its values located before the values of a tx < n in the same value log; (database): a truncation deleted >= 1 chunk file and the catalog was created before the cut. " +
			"Distinct by hash of (configuration, placement of the values, program).",
		Assumptions: []string{
			"ExportTx is the only call whose termination is bounded by wall clock (30 s, the property is about termination); every other oracle is value equality with the ledger",
			"cut points of truncations that race with writers are at most the last transaction committed before those writers started (a retention period is far larger than a commit): the window between the value-log append of an in-flight transaction and its precommit racing with a truncation whose cut was committed after that append is not generated (no hook can hold a committer there; see report)",
			"ExportTx of a transaction below the cut may return all values (nothing of it was deleted yet), digests only, or an explicit error; SELECT over SQL rows / documents written below the cut is not asserted (their values were deleted on purpose), only rows at or after the cut, the catalog, and new inserts",
			"embedded-values stores are not generated (truncation is a no-op there)",
			"histories written by concurrent committers are schedule dependent: a replay re-draws the same plan but not necessarily the same interleaving",
		},
		Probes: []vk.Probe{
			{ID: kfF2, Present: probeF2},
			{ID: kfDeadlock, Present: probeDeadlock},
			{ID: kfReadAt, Present: probeReadAt},
		},
	})
}

func quiet() logger.Logger { return logger.NewMemoryLoggerWithLevel(logger.LogError) }

// ---------------------------------------------------------------------------
// bounded calls (liveness)

const liveness = 30 * time.Second

// boundedMarker only exists to make the goroutine of a bounded call recognisable in a stack dump.
//
//go:noinline
func boundedMarker(fn func()) { fn() }

// bounded runs every fn in its own goroutine and waits up to the liveness bound for all of them.
// When parked is non-empty and the caller guarantees that nothing else is running inside the
// store, the wait ends early once every unfinished goroutine is seen parked in that frame on two
// looks 300 ms apart (nobody is left who could wake them): this only shortens the time to report
// a hang that the full bound would report as well.
func bounded(parked string, fns ...func()) (finished bool) {
	var left atomic.Int32
	left.Store(int32(len(fns)))
	done := make(chan struct{})
	var idMu sync.Mutex
	ids := map[string]bool{}
	for _, fn := range fns {
		fn := fn
		go func() {
			defer func() {
				if left.Add(-1) == 0 {
					close(done)
				}
			}()
			if parked != "" {
				var b [64]byte
				hdr := strings.Fields(string(b[:runtime.Stack(b[:], false)]))
				if len(hdr) > 1 {
					idMu.Lock()
					ids["goroutine "+hdr[1]+" ["] = true
					idMu.Unlock()
				}
			}
			boundedMarker(fn)
		}()
	}
	deadline := time.NewTimer(liveness)
	defer deadline.Stop()
	select {
	case <-done:
		return true
	case <-time.After(50 * time.Millisecond):
	}
	seen := 0
	for {
		select {
		case <-done:
			return true
		case <-deadline.C:
			return false
		case <-time.After(300 * time.Millisecond):
			if parked == "" {
				continue
			}
			idMu.Lock()
			n := markersParkedIn(parked, ids)
			idMu.Unlock()
			if n > 0 && n == int(left.Load()) {
				seen++
				if seen >= 2 {
					select {
					case <-done:
						return true
					default:
						return false
					}
				}
			} else {
				seen = 0
			}
		}
	}
}

func markersParkedIn(frame string, ids map[string]bool) int {
	buf := make([]byte, 4<<20)
	n := runtime.Stack(buf, true)
	cnt := 0
	for _, g := range strings.Split(string(buf[:n]), "\n\n") {
		sp := strings.Index(g, "[")
		if sp < 0 || !ids[g[:sp+1]] {
			continue
		}
		if strings.Contains(g, "c14.boundedMarker") && strings.Contains(g, frame) &&
			(strings.Contains(g, "[sync.Mutex.Lock") || strings.Contains(g, "[sync.Cond.Wait") || strings.Contains(g, "[semacquire")) {
			cnt++
		}
	}
	return cnt
}

// ---------------------------------------------------------------------------
// probes

func probeOpts(fileSize, ioConc int) *store.Options {
	cfg := stx.Cfg{SyncFreqMs: 1, HdrVersion: 1, IOConc: ioConc, FileSize: fileSize, TxLogCache: 10, MaxActiveTx: 100, MaxKeyLen: 64,
		MaxValueLen: 256, MaxTxEntries: 8, WriteBuf: 4096, BulkSize: 1, FlushThld: 100, SyncThld: 100, IdxCache: 10, CompactionThld: 2, AHTSyncThld: 100,
		MaxBuffered: 1 << 20}
	return cfg.Options()
}

// probeF2: tx = [k1 -> 40 bytes, k2 -> empty], FileSize 64, 10 txs, TruncateUptoTx(8); ExportTx(1) fails with
// "partially truncated transaction" and keeps the export buffer mutex: the next ExportTx never returns.
func probeF2() (bool, string) {
	dir := vk.Dir()
	defer os.RemoveAll(dir)
	st, err := store.Open(dir, probeOpts(64, 1))
	if err != nil {
		return false, ""
	}
	for i := 0; i < 10; i++ {
		_, err := stx.Commit(st, []stx.Entry{
			{Key: []byte("k1"), Value: bytes.Repeat([]byte{byte('a' + i)}, 40)},
			{Key: []byte("k2"), Value: []byte{}},
		}, false)
		if err != nil {
			st.Close()
			return false, ""
		}
	}
	if err := st.TruncateUptoTx(8); err != nil {
		st.Close()
		return false, ""
	}
	tx := store.NewTx(st.MaxTxEntries(), st.MaxKeyLen())
	_, err1 := st.ExportTx(1, false, false, tx)
	var err2 error
	fin := bounded("store.(*ImmuStore).ExportTx", func() {
		tx2 := store.NewTx(st.MaxTxEntries(), st.MaxKeyLen())
		_, err2 = st.ExportTx(9, false, false, tx2)
	})
	if !fin {
		// the store is left open: Close would be fine, but the parked goroutine still references it
		return true, fmt.Sprintf("10 txs [k1->40 bytes, k2->empty], FileSize 64, TruncateUptoTx(8): ExportTx(1) = %v; the following ExportTx(9) does not return (export mutex still held)", err1)
	}
	st.Close()
	if err2 != nil {
		return true, fmt.Sprintf("ExportTx(9) after a failed ExportTx(1) (%v): %v", err1, err2)
	}
	return false, ""
}

// probeDeadlock: MaxIOConcurrency 4, all value logs hold transactions below the cut; two TruncateUptoTx calls
// at once. Each call keeps every value log it has visited locked until it returns and visits them in map order:
// with opposite orders both calls (and from then on every commit) wait for each other forever.
// The storage seam holds the first call inside its first DiscardUpto until the second call is inside a
// DiscardUpto of the other log (or 200 ms passed: same order drawn, retry).
func probeDeadlock() (bool, string) {
	for attempt := 0; attempt < 24; attempt++ {
		dir := vk.Dir()
		fs := fsim.New(dir)
		var on atomic.Bool
		var mu sync.Mutex
		inDiscard := map[string]bool{}
		fs.Yield = func(log string, k fsim.Kind) {
			if !on.Load() || k != fsim.Discard {
				return
			}
			mu.Lock()
			inDiscard[log] = true
			mu.Unlock()
			for i := 0; i < 200; i++ {
				mu.Lock()
				n := len(inDiscard)
				mu.Unlock()
				if n >= 2 {
					return
				}
				time.Sleep(time.Millisecond)
			}
		}
		st, err := store.Open(dir, probeOpts(64, 4).WithAppFactory(fs.Factory()))
		if err != nil {
			os.RemoveAll(dir)
			return false, ""
		}
		for i := 0; i < 24; i++ {
			if _, err := stx.Commit(st, []stx.Entry{{Key: []byte("k"), Value: bytes.Repeat([]byte{byte('a' + i)}, 50)}}, false); err != nil {
				st.Close()
				os.RemoveAll(dir)
				return false, ""
			}
		}
		on.Store(true)
		fin := bounded("store.(*ImmuStore).fetchVLog", func() { st.TruncateUptoTx(20) }, func() { st.TruncateUptoTx(20) })
		on.Store(false)
		if !fin {
			return true, "MaxIOConcurrency 4, 24 single-value txs, two concurrent TruncateUptoTx(20): neither call returns (each holds a value log and waits for one the other holds)" + fmt.Sprintf(" [attempt %d]", attempt+1)
		}
		st.Close()
		os.RemoveAll(dir)
	}
	return false, ""
}

// probeReadAt: a log of 60 chunks opened with MaxOpenedFiles=1, four goroutines reading single chunks.
// multiapp.appendableFor inserts the freshly opened chunk into the SIEVE cache, drops the mutex and looks it up
// again; a Put by another reader (or by the writer rotating chunks) in between evicts it and the lookup error
// ("key not found") is returned to the caller of ReadAt.
func probeReadAt() (bool, string) {
	dir := vk.Dir()
	defer os.RemoveAll(dir)
	app, err := multiapp.Open(dir, multiapp.DefaultOptions().WithFileSize(64).WithMaxOpenedFiles(1).WithFileExt("val"))
	if err != nil {
		return false, ""
	}
	defer app.Close()
	for i := 0; i < 61; i++ {
		if _, _, err := app.Append(bytes.Repeat([]byte{byte(i)}, 64)); err != nil {
			return false, ""
		}
	}
	app.Flush()
	var hits atomic.Int64
	var first atomic.Value
	var wg sync.WaitGroup
	for g := 0; g < 4; g++ {
		wg.Add(1)
		go func(g int) {
			defer wg.Done()
			x := uint32(g*7919 + 1)
			buf := make([]byte, 8)
			for i := 0; i < 2500 && hits.Load() == 0; i++ {
				x = x*1664525 + 1013904223
				c := int64(x>>8) % 60
				if _, err := app.ReadAt(buf, c*64+3); err != nil {
					hits.Add(1)
					first.Store(fmt.Sprintf("ReadAt(8 bytes at chunk %d) = %v", c, err))
				}
			}
		}(g)
	}
	wg.Wait()
	if hits.Load() > 0 {
		return true, fmt.Sprintf("60 full chunks, MaxOpenedFiles=1, 4 concurrent readers of existing data: %v", first.Load())
	}
	return false, ""
}

func TestProbesOnly(t *testing.T) {
	if os.Getenv("VERIF_C14_PROBES") == "" {
		t.Skip("debugging aid")
	}
	t0 := time.Now()
	p, d := probeF2()
	t.Logf("F2: %v %s (%v)", p, d, time.Since(t0))
	t0 = time.Now()
	p, d = probeDeadlock()
	t.Logf("deadlock: %v %s (%v)", p, d, time.Since(t0))
	t0 = time.Now()
	p, d = probeReadAt()
	t.Logf("readat: %v %s (%v)", p, d, time.Since(t0))
	_ = context.Background
}
