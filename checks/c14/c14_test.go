// C14 — value-log truncation keeps everything at or after the cut readable.
package c14

import (
	"bytes"
	"context"
	"fmt"
	"os"
	"regexp"
	"runtime"
	"strings"
	"sync"
	"sync/atomic"
	"testing"
	"time"

	"github.com/codenotary/immudb/embedded/logger"
	"github.com/codenotary/immudb/embedded/store"

	"verif/internal/fsim"
	"verif/internal/stx"
	"verif/internal/vk"
)

const (
	kfF2       = "F2-exporttx-partial-truncation-leaks-lock"
	kfDeadlock = "K14a-concurrent-truncation-vlog-lock-order"
	kfInflight = "K14c-truncation-deletes-values-of-inflight-tx"
)

func TestMain(m *testing.M) {
	vk.Main(m, vk.Config{
		Property: "C14",
		Rule: "store test: a generated history (1-6 concurrent committers, or 1-9 concurrent replicators with a generated launch order so that values land in the value logs out of id order; " +
			"now and then one replicator launched 2-12 (or more than MaxConcurrency) ids ahead and overtaken by a long run of lower ids; MaxIOConcurrency 1-4, MaxConcurrency 1/2/3/30 (never more commits/replications in flight than tx holders), FileSize 64-512 B, value sizes around the chunk size, empty values at any position, compression on/off, value cache on/off) followed by a generated program of " +
			"truncations (any cut point, repeated, lower after higher, edge cuts 0 and committed+1), further commits, restarts and concurrent phases (truncations racing with each other, with writers and with readers); " +
			"after every step the whole store is compared with the ledger filled at acknowledgement (ReadTx+ReadValue, Get, History, ExportTx under a 30 s liveness bound, headers, Alh, dual proofs, inclusion proofs, twin replication of the exports). " +
			"database test: generated SQL tables / document collection / KV filler, truncation through vlogTruncator (Plan + TruncateUptoTx) and pkg/truncator, restart, then catalog, SELECT, document search and new inserts. " +
			"Non-trivial (store): a truncation deleted >= 1 chunk file while some tx >= n has its values located before the values of a tx < n in the same value log; (database): a truncation deleted >= 1 chunk file and the catalog was created before the cut. " +
			"Distinct by hash of (configuration, placement of the values, program).",
		Assumptions: []string{
			"only termination is bounded by wall clock: 30 s for a single ExportTx, 90 s for a whole concurrent phase (a few dozen calls), 120 s for the index to catch up / for the harness' own replicators; every other oracle is value equality with the ledger",
			"cut points of truncations that race with committers are at most the last transaction committed before those committers started (a retention period is far larger than a commit); a truncation racing with transactions whose values are already appended but which are not committed yet is generated only in the replication loader and is excluded while known finding K14c is open",
			"ExportTx of a transaction below the cut may return all values (nothing of it was deleted yet), digests only, or an explicit error; an out-of-range cut (0, committed+1, ...) may be rejected or accepted, it must not damage anything at or after the current cut",
			"database test: SELECT / document search over rows written below the cut is not asserted (their values were deleted on purpose): only the catalog, rows and documents at or after the cut (read through a primary-key / indexed range that starts at the first retained row), point reads of rows whose latest version is at or after the cut, and new inserts",
			"embedded-values stores are not generated (truncation is a no-op there)",
			"histories written by concurrent committers are schedule dependent: a replay re-draws the same plan but not necessarily the same interleaving",
		},
		Probes: []vk.Probe{
			{ID: kfF2, Present: probeF2},
			{ID: kfDeadlock, Present: probeDeadlock},
			{ID: kfInflight, Present: probeInflight},
		},
	})
}

func quiet() logger.Logger { return logger.NewMemoryLoggerWithLevel(logger.LogError) }

// ---------------------------------------------------------------------------
// bounded calls (liveness)

const liveness = 30 * time.Second

// boundedMarker only exists to make the goroutine of a bounded call recognisable in a stack dump.
//
//go:noinline
func boundedMarker(fn func()) { fn() }

// bounded runs every fn in its own goroutine and waits up to the liveness bound for all of them.
//
// When parked is non-empty (used by the start-up probes only, never by the tests) the wait may end early, to shorten
// the time to report a hang that the full bound would report as well: on 8 consecutive looks 300 ms apart (a) every
// unfinished goroutine of the call is parked in a lock wait (sync.Mutex / sync.Cond / sync.RWMutex) below the frame
// `parked`, with an unchanged stack, and (b) every other goroutine with an immudb frame on its stack is itself parked
// waiting for another goroutine (lock, channel, wait group) or is an idle indexer — nobody is running, runnable,
// sleeping, selecting, preempted or in a system call, i.e. nobody who could still release a lock can make progress.
func bounded(parked string, fns ...func()) (finished bool) {
	return boundedFor(liveness, parked, fns...)
}

// hangDump holds the immudb-related goroutines at the time the last bounded call gave up (diagnostics for the replay file).
var hangDump atomic.Value

func snapshotHang() {
	buf := make([]byte, 8<<20)
	n := runtime.Stack(buf, true)
	var keep []string
	for _, g := range strings.Split(string(buf[:n]), "\n\n") {
		if strings.Contains(g, "codenotary/immudb") {
			keep = append(keep, addrRe.ReplaceAllString(g, ""))
		}
	}
	hangDump.Store(keep)
}

func boundedFor(bound time.Duration, parked string, fns ...func()) (finished bool) {
	defer func() {
		if !finished {
			snapshotHang()
		}
	}()
	var left atomic.Int32
	left.Store(int32(len(fns)))
	done := make(chan struct{})
	var idMu sync.Mutex
	ids := map[string]bool{}
	for _, fn := range fns {
		fn := fn
		go func() {
			defer func() {
				if left.Add(-1) == 0 {
					close(done)
				}
			}()
			if parked != "" {
				var b [64]byte
				hdr := strings.Fields(string(b[:runtime.Stack(b[:], false)]))
				if len(hdr) > 1 {
					idMu.Lock()
					ids[hdr[1]] = true
					idMu.Unlock()
				}
			}
			boundedMarker(fn)
		}()
	}
	deadline := time.NewTimer(bound)
	defer deadline.Stop()
	select {
	case <-done:
		return true
	case <-time.After(50 * time.Millisecond):
	}
	seen, lastSig := 0, ""
	for {
		select {
		case <-done:
			return true
		case <-deadline.C:
			return false
		case <-time.After(300 * time.Millisecond):
			if parked == "" {
				continue
			}
			idMu.Lock()
			n, active, sig := lookAtGoroutines(parked, ids)
			idMu.Unlock()
			if n > 0 && n == int(left.Load()) && !active && (seen == 0 || sig == lastSig) {
				seen++
				lastSig = sig
				if seen >= 8 {
					select {
					case <-done:
						return true
					default:
						return false
					}
				}
			} else {
				seen = 0
			}
		}
	}
}

var addrRe = regexp.MustCompile(`\(0x[^)]*\)|\+0x[0-9a-f]+`)

// lookAtGoroutines: how many goroutines of `ids` are parked in a lock wait below `frame` (with their stacks as a
// signature), and whether any other goroutine with an immudb frame is running / runnable / in a system call.
func lookAtGoroutines(frame string, ids map[string]bool) (parked int, active bool, sig string) {
	buf := make([]byte, 8<<20)
	n := runtime.Stack(buf, true)
	for _, g := range strings.Split(string(buf[:n]), "\n\n") {
		var id, state string
		if f := strings.Fields(g); len(f) > 2 && f[0] == "goroutine" {
			id = f[1]
		}
		if i, j := strings.Index(g, "["), strings.Index(g, "]"); i >= 0 && j > i {
			state = strings.TrimSpace(strings.Split(g[i+1:j], ",")[0])
		}
		lockWait := state == "sync.Mutex.Lock" || state == "sync.Cond.Wait" || state == "sync.RWMutex.Lock" || state == "sync.RWMutex.RLock"
		if ids[id] {
			if lockWait && strings.Contains(g, frame) {
				parked++
				sig += addrRe.ReplaceAllString(g, "") + "\n"
			}
			continue
		}
		// anything with an immudb frame that is not parked waiting for another goroutine may still make progress
		waiting := lockWait || state == "chan receive" || state == "chan send" || state == "sync.WaitGroup.Wait" || state == "semacquire"
		if strings.Contains(g, "codenotary/immudb") && !waiting && !strings.Contains(g, "watchers.(*WatchersHub).WaitFor") {
			active = true
		}
	}
	return parked, active, sig
}

// ---------------------------------------------------------------------------
// probes

func probeOpts(fileSize, ioConc int) *store.Options {
	cfg := stx.Cfg{SyncFreqMs: 1, HdrVersion: 1, IOConc: ioConc, FileSize: fileSize, TxLogCache: 10, MaxActiveTx: 100, MaxKeyLen: 64,
		MaxValueLen: 256, MaxTxEntries: 8, WriteBuf: 4096, BulkSize: 1, FlushThld: 100, SyncThld: 100, IdxCache: 10, CompactionThld: 2, AHTSyncThld: 100,
		MaxBuffered: 1 << 20}
	return cfg.Options()
}

// probeF2: tx = [k1 -> 40 bytes, k2 -> empty], FileSize 64, 10 txs, TruncateUptoTx(8); ExportTx(1) fails with
// "partially truncated transaction" and keeps the export buffer mutex: the next ExportTx never returns.
func probeF2() (bool, string) {
	dir := vk.Dir()
	defer os.RemoveAll(dir)
	st, err := store.Open(dir, probeOpts(64, 1))
	if err != nil {
		return false, ""
	}
	for i := 0; i < 10; i++ {
		_, err := stx.Commit(st, []stx.Entry{
			{Key: []byte("k1"), Value: bytes.Repeat([]byte{byte('a' + i)}, 40)},
			{Key: []byte("k2"), Value: []byte{}},
		}, false)
		if err != nil {
			st.Close()
			return false, ""
		}
	}
	if err := st.TruncateUptoTx(8); err != nil {
		st.Close()
		return false, ""
	}
	tx := store.NewTx(st.MaxTxEntries(), st.MaxKeyLen())
	_, err1 := st.ExportTx(1, false, false, tx)
	var err2 error
	fin := bounded("store.(*ImmuStore).ExportTx", func() {
		tx2 := store.NewTx(st.MaxTxEntries(), st.MaxKeyLen())
		_, err2 = st.ExportTx(9, false, false, tx2)
	})
	if !fin {
		// the store is left open: Close would be fine, but the parked goroutine still references it
		return true, fmt.Sprintf("10 txs [k1->40 bytes, k2->empty], FileSize 64, TruncateUptoTx(8): ExportTx(1) = %v; the following ExportTx(9) does not return (export mutex still held)", err1)
	}
	st.Close()
	if err2 != nil {
		return true, fmt.Sprintf("ExportTx(9) after a failed ExportTx(1) (%v): %v", err1, err2)
	}
	return false, ""
}

// probeDeadlock: MaxIOConcurrency 4, all value logs hold transactions below the cut; two TruncateUptoTx calls
// at once. Each call keeps every value log it has visited locked until it returns and visits them in map order:
// with opposite orders both calls (and from then on every commit) wait for each other forever.
// The storage seam holds the first call inside its first DiscardUpto until the second call is inside a
// DiscardUpto of the other log (or 200 ms passed: same order drawn, retry).
func probeDeadlock() (bool, string) {
	for attempt := 0; attempt < 24; attempt++ {
		dir := vk.Dir()
		fs := fsim.New(dir)
		var on atomic.Bool
		var mu sync.Mutex
		inDiscard := map[string]bool{}
		fs.Yield = func(log string, k fsim.Kind) {
			if !on.Load() || k != fsim.Discard {
				return
			}
			mu.Lock()
			inDiscard[log] = true
			mu.Unlock()
			for i := 0; i < 200; i++ {
				mu.Lock()
				n := len(inDiscard)
				mu.Unlock()
				if n >= 2 {
					return
				}
				time.Sleep(time.Millisecond)
			}
		}
		st, err := store.Open(dir, probeOpts(64, 4).WithAppFactory(fs.Factory()))
		if err != nil {
			os.RemoveAll(dir)
			return false, ""
		}
		for i := 0; i < 24; i++ {
			if _, err := stx.Commit(st, []stx.Entry{{Key: []byte("k"), Value: bytes.Repeat([]byte{byte('a' + i)}, 50)}}, false); err != nil {
				st.Close()
				os.RemoveAll(dir)
				return false, ""
			}
		}
		on.Store(true)
		fin := bounded("store.(*ImmuStore).fetchVLog", func() { st.TruncateUptoTx(20) }, func() { st.TruncateUptoTx(20) })
		on.Store(false)
		if !fin {
			return true, "MaxIOConcurrency 4, 24 single-value txs, two concurrent TruncateUptoTx(20): neither call returns (each holds a value log and waits for one the other holds)" + fmt.Sprintf(" [attempt %d]", attempt+1)
		}
		st.Close()
		os.RemoveAll(dir)
	}
	return false, ""
}

// probeInflight: a replica receives transactions 1..7 (one 50-byte value each, FileSize 64) through concurrent
// ReplicateTx calls: the call for tx 7 runs first, appends its value and waits for its predecessors; txs 1..5 are
// replicated and committed; TruncateUptoTx(5) runs (it only looks at committed transactions: everything before the
// value of tx 5 goes, including the value of tx 7); then tx 6 arrives and tx 7 commits — its value is gone.
func probeInflight() (bool, string) {
	pdir, rdir := vk.Dir(), vk.Dir()
	defer os.RemoveAll(pdir)
	defer os.RemoveAll(rdir)
	primary, err := store.Open(pdir, probeOpts(1<<20, 1))
	if err != nil {
		return false, ""
	}
	defer primary.Close()
	var exports [][]byte
	for i := 0; i < 7; i++ {
		hdr, err := stx.Commit(primary, []stx.Entry{{Key: []byte("k"), Value: bytes.Repeat([]byte{byte('a' + i)}, 50)}}, false)
		if err != nil {
			return false, ""
		}
		b, err := primary.ExportTx(hdr.ID, false, false, store.NewTx(primary.MaxTxEntries(), primary.MaxKeyLen()))
		if err != nil {
			return false, ""
		}
		exports = append(exports, b)
	}
	fs := fsim.New(rdir)
	replica, err := store.Open(rdir, probeOpts(64, 1).WithAppFactory(fs.Factory()))
	if err != nil {
		return false, ""
	}
	defer replica.Close()
	done7 := make(chan error, 1)
	go func() {
		_, err := replica.ReplicateTx(context.Background(), exports[6], false, false)
		done7 <- err
	}()
	for t0 := time.Now(); valAppends(fs) < 1; time.Sleep(100 * time.Microsecond) {
		if time.Since(t0) > 30*time.Second {
			return false, ""
		}
	}
	for i := 0; i < 5; i++ {
		if _, err := replica.ReplicateTx(context.Background(), exports[i], false, false); err != nil {
			return false, ""
		}
	}
	if err := replica.TruncateUptoTx(5); err != nil {
		return false, ""
	}
	if _, err := replica.ReplicateTx(context.Background(), exports[5], false, false); err != nil {
		return false, ""
	}
	select {
	case err := <-done7:
		if err != nil {
			return false, ""
		}
	case <-time.After(30 * time.Second):
		return false, ""
	}
	tx := store.NewTx(replica.MaxTxEntries(), replica.MaxKeyLen())
	if err := replica.ReadTx(7, false, tx); err != nil {
		return true, "ReadTx(7): " + err.Error()
	}
	if v, err := replica.ReadValue(tx.Entries()[0]); err != nil || !bytes.Equal(v, bytes.Repeat([]byte{'g'}, 50)) {
		return true, fmt.Sprintf("replica: ReplicateTx(7) in flight (value appended), txs 1..5 replicated, TruncateUptoTx(5), txs 6 and 7 commit: ReadValue(tx 7) = %q, %v", v, err)
	}
	return false, ""
}

func TestProbesOnly(t *testing.T) {
	if os.Getenv("VERIF_C14_PROBES") == "" {
		t.Skip("debugging aid")
	}
	t0 := time.Now()
	p, d := probeF2()
	t.Logf("F2: %v %s (%v)", p, d, time.Since(t0))
	t0 = time.Now()
	p, d = probeDeadlock()
	t.Logf("deadlock: %v %s (%v)", p, d, time.Since(t0))
	t0 = time.Now()
	p, d = probeInflight()
	t.Logf("inflight: %v %s (%v)", p, d, time.Since(t0))

	_ = context.Background
}
