package c19

// Pinned reproductions of the defects this check found in immudb (see known_findings.json).

import (
	"errors"
	"fmt"
	"os"

	"github.com/codenotary/immudb/embedded/document"
	"github.com/codenotary/immudb/embedded/store"
	"github.com/codenotary/immudb/pkg/api/protomodel"
	"github.com/codenotary/immudb/pkg/verification"
	"google.golang.org/protobuf/types/known/structpb"

	"verif/internal/vk"
)

type probeEnv struct {
	st  *store.ImmuStore
	e   *document.Engine
	dir string
}

func newProbeEnv() *probeEnv {
	st, e, dir, err := openEngine()
	if err != nil {
		return nil
	}
	return &probeEnv{st, e, dir}
}

func (p *probeEnv) close() { p.st.Close(); os.RemoveAll(p.dir) }

func (p *probeEnv) wait() { p.st.WaitForIndexingUpto(bg, p.st.LastPrecommittedTxID()) }

func pdoc(kv ...any) *structpb.Struct {
	s := &structpb.Struct{Fields: map[string]*structpb.Value{}}
	for i := 0; i < len(kv); i += 2 {
		v, err := structpb.NewValue(kv[i+1])
		if err != nil {
			panic(err)
		}
		s.Fields[kv[i].(string)] = v
	}
	return s
}

func pquery(coll, field string, op protomodel.ComparisonOperator, v any) *protomodel.Query {
	val, _ := structpb.NewValue(v)
	return &protomodel.Query{CollectionName: coll, Expressions: []*protomodel.QueryExpression{{FieldComparisons: []*protomodel.FieldComparison{{Field: field, Operator: op, Value: val}}}}}
}

func (p *probeEnv) search(q *protomodel.Query) ([]*protomodel.DocumentAtRevision, error) {
	r, err := p.e.GetDocuments(bg, q, 0)
	if err != nil {
		return nil, err
	}
	defer r.Close()
	var out []*protomodel.DocumentAtRevision
	for {
		d, err := r.Read(bg)
		if errors.Is(err, document.ErrNoMoreDocuments) {
			return out, nil
		}
		if err != nil {
			return out, err
		}
		out = append(out, d)
	}
}

func fld(n string, t protomodel.FieldType) *protomodel.Field {
	return &protomodel.Field{Name: n, Type: t}
}

// one collection "c" with the given fields/indexes and documents, then a query: how many documents come back?
func probeCount(fields []*protomodel.Field, idx []*protomodel.Index, docs []*structpb.Struct, q *protomodel.Query) (int, error) {
	p := newProbeEnv()
	if p == nil {
		return 0, fmt.Errorf("open")
	}
	defer p.close()
	if err := p.e.CreateCollection(bg, "probe", "c", "", fields, idx); err != nil {
		return 0, err
	}
	for _, d := range docs {
		if _, _, err := p.e.InsertDocument(bg, "probe", "c", d); err != nil {
			return 0, err
		}
	}
	res, err := p.search(q)
	return len(res), err
}

// K19a: a DOUBLE field holding -0.0 is not found by `f == 0` when the field is indexed (it is without the index).
func probeNegZero() (bool, string) {
	fs := []*protomodel.Field{fld("f", tDOUBLE)}
	docs := func() []*structpb.Struct { return []*structpb.Struct{pdoc("f", negZero())} }
	with, err1 := probeCount(fs, []*protomodel.Index{{Fields: []string{"f"}}}, docs(), pquery("c", "f", opEQ, 0.0))
	without, err2 := probeCount(fs, nil, docs(), pquery("c", "f", opEQ, 0.0))
	if err1 == nil && err2 == nil && with != without {
		return true, fmt.Sprintf("doc {f:-0.0}, search f==0: %d result(s) with an index on f, %d without", with, without)
	}
	return false, ""
}

// K19b: an INTEGER field silently truncates 1.5 to 1: `n == 1` returns the document holding n:1.5.
func probeIntTrunc() (bool, string) {
	n, err := probeCount([]*protomodel.Field{fld("n", tINTEGER)}, nil, []*structpb.Struct{pdoc("n", 1.5)}, pquery("c", "n", opEQ, 1.0))
	if err == nil && n == 1 {
		return true, "doc {n:1.5} with n INTEGER is accepted and returned by the search n==1"
	}
	return false, ""
}

// K19c: LIKE with a non-ASCII pattern never matches: s LIKE 'é' does not return {s:'é'}.
func probeLikeUTF8() (bool, string) {
	n, err := probeCount([]*protomodel.Field{fld("s", tSTRING)}, nil, []*structpb.Struct{pdoc("s", "é")}, pquery("c", "s", opLK, "é"))
	if err == nil && n == 0 {
		return true, "doc {s:'é'} is not returned by s LIKE 'é'"
	}
	return false, ""
}

// K19d: LIKE wildcards do not match a newline: s LIKE 'a%' does not return {s:"a\nb"}.
func probeLikeNL() (bool, string) {
	n, err := probeCount([]*protomodel.Field{fld("s", tSTRING)}, nil, []*structpb.Struct{pdoc("s", "a\nb")}, pquery("c", "s", opLK, "a%"))
	if err == nil && n == 0 {
		return true, `doc {s:"a\nb"} is not returned by s LIKE 'a%'`
	}
	return false, ""
}

// K19e: a field declared after a document was written is not extracted for it.
func probeAddField() (bool, string) {
	p := newProbeEnv()
	if p == nil {
		return false, ""
	}
	defer p.close()
	if p.e.CreateCollection(bg, "probe", "c", "", nil, nil) != nil {
		return false, ""
	}
	if _, _, err := p.e.InsertDocument(bg, "probe", "c", pdoc("z", 7.0)); err != nil {
		return false, ""
	}
	if p.e.AddField(bg, "probe", "c", fld("z", tDOUBLE)) != nil {
		return false, ""
	}
	res, err := p.search(pquery("c", "z", opEQ, 7.0))
	if err == nil && len(res) == 0 {
		return true, "insert {z:7}, AddField(z DOUBLE), search z==7 returns nothing"
	}
	return false, ""
}

// K19f: the key of a unique index can never be used again once the document that held it was deleted
// (InsertDocuments validates uniqueness on a snapshot that is never renewed).
func probeBurntKey() (bool, string) {
	p := newProbeEnv()
	if p == nil {
		return false, ""
	}
	defer p.close()
	if p.e.CreateCollection(bg, "probe", "c", "", []*protomodel.Field{fld("s", tSTRING)}, []*protomodel.Index{{Fields: []string{"s"}, IsUnique: true}}) != nil {
		return false, ""
	}
	if _, _, err := p.e.InsertDocument(bg, "probe", "c", pdoc("s", "k")); err != nil {
		return false, ""
	}
	p.wait()
	if p.e.DeleteDocuments(bg, "probe", pquery("c", "s", opEQ, "k")) != nil {
		return false, ""
	}
	p.wait()
	if res, err := p.search(&protomodel.Query{CollectionName: "c"}); err != nil || len(res) != 0 {
		return false, ""
	}
	_, _, err := p.e.InsertDocument(bg, "probe", "c", pdoc("s", "k"))
	if errors.Is(err, document.ErrConflict) {
		return true, "unique index on s: insert {s:k}, delete it, insert {s:k} again fails with ErrConflict although the collection is empty"
	}
	return false, ""
}

// K19g: two back-to-back inserts of the same unique key can both succeed while the indexer lags
// (unsafe MVCC: the uniqueness precondition is validated against a stale index). Timing dependent: tried a bounded number of times.
func probeUniqRace() (bool, string) {
	if vk.Shard() != 0 {
		return false, ""
	}
	p := newProbeEnv()
	if p == nil {
		return false, ""
	}
	defer p.close()
	if p.e.CreateCollection(bg, "probe", "c", "", []*protomodel.Field{fld("s", tSTRING)}, []*protomodel.Index{{Fields: []string{"s"}, IsUnique: true}}) != nil {
		return false, ""
	}
	for i := 0; i < 150; i++ {
		var batch []*structpb.Struct
		for j := 0; j < 60; j++ {
			batch = append(batch, pdoc("s", fmt.Sprintf("filler-%d-%d", i, j)))
		}
		if _, _, err := p.e.InsertDocuments(bg, "probe", "c", batch); err != nil {
			return false, ""
		}
		k := fmt.Sprintf("key-%d", i)
		_, _, err1 := p.e.InsertDocument(bg, "probe", "c", pdoc("s", k, "n", 1.0))
		_, _, err2 := p.e.InsertDocument(bg, "probe", "c", pdoc("s", k, "n", 2.0))
		if err1 == nil && err2 == nil {
			res, err := p.search(pquery("c", "s", opEQ, k))
			if err == nil && len(res) == 2 {
				return true, fmt.Sprintf("unique index on s: two consecutive inserts of {s:%q} both succeeded (attempt %d); the collection holds 2 documents with that key", k, i+1)
			}
		}
	}
	return false, ""
}

// K19h: search results carry revision 0 / transaction 0 instead of the document's revision.
func probeSearchRev() (bool, string) {
	p := newProbeEnv()
	if p == nil {
		return false, ""
	}
	defer p.close()
	if p.e.CreateCollection(bg, "probe", "c", "", []*protomodel.Field{fld("s", tSTRING)}, nil) != nil {
		return false, ""
	}
	if _, _, err := p.e.InsertDocument(bg, "probe", "c", pdoc("s", "k")); err != nil {
		return false, ""
	}
	res, err := p.search(pquery("c", "s", opEQ, "k"))
	if err == nil && len(res) == 1 && res[0].Revision == 0 {
		return true, "search returns the document with Revision=0 TransactionId=0 (its revision is 1)"
	}
	return false, ""
}

// K19i: after the id field of a collection is renamed, documents written before keep the old id field:
// they come back without the (new) id field and their proofs cannot be verified.
func probeRenameID() (bool, string) {
	db, dir, err := openDB()
	if err != nil {
		return false, ""
	}
	defer func() { db.Close(); os.RemoveAll(dir) }()
	if _, err := db.CreateCollection(bg, "probe", &protomodel.CreateCollectionRequest{Name: "c", DocumentIdFieldName: "oldid", Fields: []*protomodel.Field{fld("s", tSTRING)}}); err != nil {
		return false, ""
	}
	ins, err := db.InsertDocuments(bg, "probe", &protomodel.InsertDocumentsRequest{CollectionName: "c", Documents: []*structpb.Struct{pdoc("s", "k")}})
	if err != nil {
		return false, ""
	}
	if _, err := db.UpdateCollection(bg, "probe", &protomodel.UpdateCollectionRequest{Name: "c", DocumentIdFieldName: "newid"}); err != nil {
		return false, ""
	}
	r, err := db.SearchDocuments(bg, pquery("c", "s", opEQ, "k"), 0)
	if err != nil {
		return false, ""
	}
	d, err := r.Read(bg)
	r.Close()
	if err != nil {
		return false, ""
	}
	proof, err := db.ProofDocument(bg, &protomodel.ProofDocumentRequest{CollectionName: "c", DocumentId: ins.DocumentIds[0]})
	if err != nil {
		return false, ""
	}
	_, verr := verification.VerifyDocument(bg, proof, d.Document, nil, nil)
	if _, has := d.Document.Fields["newid"]; !has && verr != nil {
		return true, fmt.Sprintf("id field renamed oldid->newid: the stored document comes back as %s and VerifyDocument fails: %v", structStr(d.Document), verr)
	}
	return false, ""
}

// K19j: insert {n:5}; list the collection; insert {n:5} again: the unique index on n admits the duplicate
// (store/ongoing_tx.go checkPreconditions returns as soon as ONE of the transaction's snapshots is up to date,
// skipping the read-set entries that belong to the stale snapshot of the unique index).
func probeDupAfterRead() (bool, string) {
	p := newProbeEnv()
	if p == nil {
		return false, ""
	}
	defer p.close()
	if p.e.CreateCollection(bg, "probe", "c", "", []*protomodel.Field{fld("n", tINTEGER)}, []*protomodel.Index{{Fields: []string{"n"}, IsUnique: true}}) != nil {
		return false, ""
	}
	if _, _, err := p.e.InsertDocument(bg, "probe", "c", pdoc("n", 5.0)); err != nil {
		return false, ""
	}
	p.wait()
	if res, err := p.search(&protomodel.Query{CollectionName: "c"}); err != nil || len(res) != 1 {
		return false, ""
	}
	_, _, err := p.e.InsertDocument(bg, "probe", "c", pdoc("n", 5.0))
	p.wait()
	res, serr := p.search(&protomodel.Query{CollectionName: "c"})
	if err == nil && serr == nil && len(res) == 2 {
		return true, "unique index on n: insert {n:5}, list the collection, insert {n:5} again succeeds; the collection now holds 2 documents with n=5"
	}
	return false, ""
}

// K19k: the uniqueness check looks at the FIRST index entry with the key only (store Snapshot.GetWithPrefixAndFilters);
// when that entry is the deleted one of an earlier holder, a live holder behind it is not seen.
// d0{s:k} d1{s:x} d2{s:y}; delete d0; replace d1 by {s:k} (fine); replace d2 by {s:k}: must conflict, succeeds.
func probeMasked() (bool, string) {
	p := newProbeEnv()
	if p == nil {
		return false, ""
	}
	defer p.close()
	if p.e.CreateCollection(bg, "probe", "c", "", []*protomodel.Field{fld("s", tSTRING)}, []*protomodel.Index{{Fields: []string{"s"}, IsUnique: true}}) != nil {
		return false, ""
	}
	var ids []string
	for _, v := range []string{"k", "x", "y"} {
		_, id, err := p.e.InsertDocument(bg, "probe", "c", pdoc("s", v))
		if err != nil {
			return false, ""
		}
		ids = append(ids, id.EncodeToHexString())
		p.wait()
	}
	if p.e.DeleteDocuments(bg, "probe", pquery("c", "s", opEQ, "k")) != nil {
		return false, ""
	}
	p.wait()
	if r, err := p.e.ReplaceDocuments(bg, "probe", &protomodel.Query{CollectionName: "c"}, pdoc("_id", ids[1], "s", "k")); err != nil || len(r) != 1 {
		return false, ""
	}
	p.wait()
	r, err := p.e.ReplaceDocuments(bg, "probe", &protomodel.Query{CollectionName: "c"}, pdoc("_id", ids[2], "s", "k"))
	p.wait()
	res, serr := p.search(pquery("c", "s", opEQ, "k"))
	if err == nil && len(r) == 1 && serr == nil && len(res) == 2 {
		return true, "unique index on s: docs k,x,y; delete k; replace x by k (ok); replace y by k also succeeds: 2 live documents with s=k"
	}
	return false, ""
}
