package c19

// Reference model of a document collection: the list of documents that were
// written (every revision kept), plus the declared schema. Nothing in this file
// calls immudb.

import (
	"bytes"
	"fmt"
	"math"
	"sort"
	"strings"
	"unicode/utf8"

	"github.com/codenotary/immudb/pkg/api/protomodel"
	"github.com/google/uuid"
	"google.golang.org/protobuf/types/known/structpb"
)

const (
	tSTRING  = protomodel.FieldType_STRING
	tBOOLEAN = protomodel.FieldType_BOOLEAN
	tINTEGER = protomodel.FieldType_INTEGER
	tDOUBLE  = protomodel.FieldType_DOUBLE
	tUUID    = protomodel.FieldType_UUID
	tID      = protomodel.FieldType(-1) // the document id pseudo-field
)

const (
	opEQ  = protomodel.ComparisonOperator_EQ
	opNE  = protomodel.ComparisonOperator_NE
	opLT  = protomodel.ComparisonOperator_LT
	opLE  = protomodel.ComparisonOperator_LE
	opGT  = protomodel.ComparisonOperator_GT
	opGE  = protomodel.ComparisonOperator_GE
	opLK  = protomodel.ComparisonOperator_LIKE
	opNLK = protomodel.ComparisonOperator_NOT_LIKE
)

// known findings (ids in checks/c19/known_findings.json)
const (
	kNegZero      = "K19a-double-negzero-index"
	kIntTrunc     = "K19b-integer-field-truncation"
	kLikeUTF8     = "K19c-like-non-ascii-pattern"
	kLikeNL       = "K19d-like-wildcard-newline"
	kAddField     = "K19e-addfield-no-backfill"
	kBurntKey     = "K19f-unique-key-not-reusable"
	kUniqRace     = "K19g-unique-insert-race"
	kSearchRev    = "K19h-search-without-revision"
	kRenameID     = "K19i-idfield-rename-breaks-old-docs"
	kDupAfterRead = "K19j-unique-duplicate-after-read"
	kMasked       = "K19k-unique-masked-by-deleted-entry"
)

type fieldDef struct {
	name string
	typ  protomodel.FieldType
}

var fieldPool = []fieldDef{
	{"s1", tSTRING}, {"s2", tSTRING}, {"n1", tINTEGER}, {"n2", tINTEGER}, {"f1", tDOUBLE}, {"b1", tBOOLEAN}, {"u1", tUUID},
	{"a.s", tSTRING}, {"a.n", tINTEGER}, {"a.b.f", tDOUBLE}, {"a.b.s", tSTRING},
}

func poolType(name string) protomodel.FieldType {
	for _, f := range fieldPool {
		if f.name == name {
			return f.typ
		}
	}
	panic("unknown field " + name)
}

type revision struct {
	deleted bool
	doc     *structpb.Struct // as written, WITHOUT the id field
	user    string
}

type rdoc struct {
	idx      int
	id       [2]string // hex id in collection 0 (indexed) and 1 (twin)
	alive    bool
	revs     []revision
	writeSeq int // schema sequence number at the last write (for column staleness)
}

func (d *rdoc) cur() *structpb.Struct { return d.revs[len(d.revs)-1].doc }

type indexDef struct {
	fields []string
	unique bool
}

func (ix indexDef) String() string {
	u := ""
	if ix.unique {
		u = "U"
	}
	return u + "(" + strings.Join(ix.fields, ",") + ")"
}

type model struct {
	idField  string
	declared map[string]int // field -> sequence number at which it was (last) declared
	order    []string       // declared fields in declaration order
	indexes  []indexDef     // indexes of collection 0
	docs     []*rdoc
	seq      int
	burnt    map[string]bool // unique-index key tuples once held by a revision that is no longer current
	// staleExcluded: columns added after a document was written are NULL for it (known finding K19e)
	staleExcluded bool
}

func (m *model) live() []*rdoc {
	var out []*rdoc
	for _, d := range m.docs {
		if d.alive {
			out = append(out, d)
		}
	}
	return out
}

func (m *model) isDeclared(f string) bool { _, ok := m.declared[f]; return ok }

func (m *model) typeOf(f string) protomodel.FieldType {
	if f == m.idField {
		return tID
	}
	return poolType(f)
}

// pathValue navigates a dotted path (at most 3 levels) through nested structs.
func pathValue(doc *structpb.Struct, path string) *structpb.Value {
	parts := strings.Split(path, ".")
	cur := doc
	for i, p := range parts {
		if cur == nil {
			return nil
		}
		v, ok := cur.Fields[p]
		if !ok {
			return nil
		}
		if i == len(parts)-1 {
			return v
		}
		cur = v.GetStructValue()
	}
	return nil
}

func isNull(v *structpb.Value) bool {
	if v == nil {
		return true
	}
	_, ok := v.GetKind().(*structpb.Value_NullValue)
	return ok
}

// kindOK: does the JSON value have the kind the declared type wants?
func kindOK(v *structpb.Value, t protomodel.FieldType) bool {
	switch t {
	case tSTRING:
		_, ok := v.GetKind().(*structpb.Value_StringValue)
		return ok
	case tUUID:
		if _, ok := v.GetKind().(*structpb.Value_StringValue); !ok {
			return false
		}
		_, err := uuid.Parse(v.GetStringValue())
		return err == nil
	case tINTEGER:
		// an INTEGER field holds numbers with an exact int64 representation
		if _, ok := v.GetKind().(*structpb.Value_NumberValue); !ok {
			return false
		}
		n := v.GetNumberValue()
		return n == math.Trunc(n) && n >= -9223372036854775808.0 && n < 9223372036854775808.0
	case tDOUBLE:
		_, ok := v.GetKind().(*structpb.Value_NumberValue)
		return ok
	case tBOOLEAN:
		_, ok := v.GetKind().(*structpb.Value_BoolValue)
		return ok
	}
	return false
}

// colValue is the value a search on field f sees for document d: nil when the
// field is missing, null, or (known finding K19e) when the column did not exist
// when the document was last written.
func (m *model) colValue(d *rdoc, f string) (v *structpb.Value, stale bool) {
	if f == m.idField {
		return nil, false
	}
	pv := pathValue(d.cur(), f)
	if isNull(pv) {
		return nil, false
	}
	if d.writeSeq < m.declared[f] {
		// written before the field was declared
		if m.staleExcluded || !kindOK(pv, poolType(f)) {
			return nil, true
		}
	}
	return pv, false
}

const (
	vF = 0
	vT = 1
	vU = 2 // not pinned by the property (null / missing operand, known-finding class)
)

func b2v(b bool) int {
	if b {
		return vT
	}
	return vF
}

type cmpT struct {
	field string
	op    protomodel.ComparisonOperator
	val   *structpb.Value // operand for ordinary fields
	idRef int             // for the id field: index of the reference document whose id is the operand (-1: an id that no document has)
}

type ordT struct {
	field string
	desc  bool
}

type qspec struct {
	groups [][]cmpT
	order  []ordT
	limit  uint32
	offset int64
}

func opName(o protomodel.ComparisonOperator) string {
	switch o {
	case opEQ:
		return "=="
	case opNE:
		return "!="
	case opLT:
		return "<"
	case opLE:
		return "<="
	case opGT:
		return ">"
	case opGE:
		return ">="
	case opLK:
		return "LIKE"
	case opNLK:
		return "NOTLIKE"
	}
	return "?"
}

func valStr(v *structpb.Value) string {
	if v == nil {
		return "<missing>"
	}
	switch k := v.GetKind().(type) {
	case *structpb.Value_NullValue:
		return "null"
	case *structpb.Value_StringValue:
		s := k.StringValue
		if len(s) > 24 {
			return fmt.Sprintf("%q…(%d)", s[:8], len(s))
		}
		return fmt.Sprintf("%q", s)
	case *structpb.Value_NumberValue:
		if k.NumberValue == 0 && math.Signbit(k.NumberValue) {
			return "-0"
		}
		return fmt.Sprintf("%v", k.NumberValue)
	case *structpb.Value_BoolValue:
		return fmt.Sprintf("%v", k.BoolValue)
	case *structpb.Value_StructValue:
		return structStr(k.StructValue)
	case *structpb.Value_ListValue:
		var parts []string
		for _, e := range k.ListValue.Values {
			parts = append(parts, valStr(e))
		}
		return "[" + strings.Join(parts, ",") + "]"
	}
	return "?"
}

func structStr(s *structpb.Struct) string {
	if s == nil {
		return "{}"
	}
	keys := make([]string, 0, len(s.Fields))
	for k := range s.Fields {
		keys = append(keys, k)
	}
	sort.Strings(keys)
	var parts []string
	for _, k := range keys {
		parts = append(parts, fmt.Sprintf("%q:%s", k, valStr(s.Fields[k])))
	}
	return "{" + strings.Join(parts, ",") + "}"
}

func (q qspec) String() string {
	var gs []string
	for _, g := range q.groups {
		var cs []string
		for _, c := range g {
			if c.val == nil {
				cs = append(cs, fmt.Sprintf("%s%s#%d", c.field, opName(c.op), c.idRef))
			} else {
				cs = append(cs, fmt.Sprintf("%s%s%s", c.field, opName(c.op), valStr(c.val)))
			}
		}
		gs = append(gs, strings.Join(cs, "&"))
	}
	s := "[" + strings.Join(gs, " | ") + "]"
	for _, o := range q.order {
		s += " by:" + o.field
		if o.desc {
			s += "-"
		}
	}
	if q.limit > 0 || q.offset > 0 {
		s += fmt.Sprintf(" lim=%d off=%d", q.limit, q.offset)
	}
	return s
}

// likeMatch: SQL LIKE. % = any sequence of characters (including none), _ = exactly one character,
// backslash makes the next character literal; the whole value must match.
func likeMatch(pattern, s string) bool {
	type tok struct {
		kind byte // 'l' literal rune, '%' or '_'
		r    rune
	}
	var toks []tok
	rs := []rune(pattern)
	for i := 0; i < len(rs); i++ {
		switch {
		case rs[i] == '\\' && i+1 < len(rs):
			toks = append(toks, tok{'l', rs[i+1]})
			i++
		case rs[i] == '%':
			toks = append(toks, tok{kind: '%'})
		case rs[i] == '_':
			toks = append(toks, tok{kind: '_'})
		default:
			toks = append(toks, tok{'l', rs[i]})
		}
	}
	val := []rune(s)
	// dp over (token, position)
	reach := make([]bool, len(val)+1)
	reach[0] = true
	for _, t := range toks {
		next := make([]bool, len(val)+1)
		switch t.kind {
		case '%':
			seen := false
			for p := 0; p <= len(val); p++ {
				seen = seen || reach[p]
				next[p] = seen
			}
		case '_':
			for p := 0; p < len(val); p++ {
				if reach[p] {
					next[p+1] = true
				}
			}
		default:
			for p := 0; p < len(val); p++ {
				if reach[p] && val[p] == t.r {
					next[p+1] = true
				}
			}
		}
		reach = next
	}
	return reach[len(val)]
}

func hasWildcard(p string) bool { return strings.ContainsAny(p, "%_") }

func isASCII(s string) bool {
	for i := 0; i < len(s); i++ {
		if s[i] >= 0x80 {
			return false
		}
	}
	return true
}

// cmpValues compares two present, non-null values of a declared type.
// ok=false: the ordering of this type is not pinned (bool/uuid ordering).
func cmpValues(t protomodel.FieldType, a, b *structpb.Value) (c int, eqOnly bool) {
	switch t {
	case tSTRING:
		return strings.Compare(a.GetStringValue(), b.GetStringValue()), false
	case tINTEGER:
		x, y := a.GetNumberValue(), b.GetNumberValue()
		switch {
		case x < y:
			return -1, false
		case x > y:
			return 1, false
		}
		return 0, false
	case tDOUBLE:
		x, y := a.GetNumberValue(), b.GetNumberValue()
		switch {
		case x < y:
			return -1, false
		case x > y:
			return 1, false
		}
		return 0, false
	case tBOOLEAN:
		if a.GetBoolValue() == b.GetBoolValue() {
			return 0, true
		}
		return 1, true
	case tUUID:
		ua, _ := uuid.Parse(a.GetStringValue())
		ub, _ := uuid.Parse(b.GetStringValue())
		if c := bytes.Compare(ua[:], ub[:]); c != 0 {
			return 1, true
		}
		return 0, true
	}
	return 0, true
}

type evalStats struct {
	unknownNull, unknownStale, unknownLikeUTF8, unknownLikeNL int
}

// evalCmp: three-valued evaluation of one comparison on one document.
func (m *model) evalCmp(d *rdoc, c cmpT, excl func(id string) bool, st *evalStats) int {
	if c.field == m.idField {
		same := c.idRef == d.idx
		switch c.op {
		case opEQ:
			return b2v(same)
		case opNE:
			return b2v(!same)
		}
		return vU
	}
	t := poolType(c.field)
	if isNull(c.val) {
		st.unknownNull++
		return vU
	}
	v, stale := m.colValue(d, c.field)
	if v == nil {
		if stale {
			st.unknownStale++
		} else {
			st.unknownNull++
		}
		return vU
	}
	if !kindOK(v, t) {
		// cannot happen for a value written while the field was declared
		st.unknownStale++
		return vU
	}
	if c.op == opLK || c.op == opNLK {
		if t != tSTRING {
			return vU
		}
		p, s := c.val.GetStringValue(), v.GetStringValue()
		if !isASCII(p) && excl(kLikeUTF8) {
			st.unknownLikeUTF8++
			return vU
		}
		if strings.Contains(s, "\n") && hasWildcard(p) && excl(kLikeNL) {
			st.unknownLikeNL++
			return vU
		}
		return b2v(likeMatch(p, s) == (c.op == opLK))
	}
	r, eqOnly := cmpValues(t, v, c.val)
	switch c.op {
	case opEQ:
		return b2v(r == 0)
	case opNE:
		return b2v(r != 0)
	}
	if eqOnly {
		return vU
	}
	switch c.op {
	case opLT:
		return b2v(r < 0)
	case opLE:
		return b2v(r <= 0)
	case opGT:
		return b2v(r > 0)
	case opGE:
		return b2v(r >= 0)
	}
	return vU
}

// eval: OR of AND groups; an empty filter matches everything.
func (m *model) eval(d *rdoc, q qspec, excl func(id string) bool, st *evalStats) int {
	if len(q.groups) == 0 {
		return vT
	}
	res := vF
	for _, g := range q.groups {
		gr := vT
		for _, c := range g {
			r := m.evalCmp(d, c, excl, st)
			if r == vF {
				// one false comparison makes the group false whatever the unknown ones are
				gr = vF
				break
			}
			if r == vU {
				gr = vU
			}
		}
		switch gr {
		case vT:
			return vT
		case vU:
			res = vU
		}
	}
	return res
}

// orderKey: the values a document is ordered by; nil entries are null/missing.
func (m *model) orderKey(d *rdoc, q qspec) []*structpb.Value {
	ks := make([]*structpb.Value, len(q.order))
	for i, o := range q.order {
		if o.field == m.idField {
			ks[i] = structpb.NewNumberValue(float64(d.idx)) // ids are never equal; order among ids is not pinned
			continue
		}
		ks[i], _ = m.colValue(d, o.field)
	}
	return ks
}

// keyEqual: equality of two order keys (null equals null; -0 equals 0).
func (m *model) keyEqual(q qspec, a, b []*structpb.Value) bool {
	for i, o := range q.order {
		if (a[i] == nil) != (b[i] == nil) {
			return false
		}
		if a[i] == nil {
			continue
		}
		if o.field == m.idField {
			if a[i].GetNumberValue() != b[i].GetNumberValue() {
				return false
			}
			continue
		}
		if c, _ := cmpValues(poolType(o.field), a[i], b[i]); c != 0 {
			return false
		}
	}
	return true
}

// keyLess: strict order of two fully pinned keys (no nulls, only string/number fields).
func (m *model) keyCmp(q qspec, a, b []*structpb.Value) int {
	for i, o := range q.order {
		c, _ := cmpValues(poolType(o.field), a[i], b[i])
		if o.desc {
			c = -c
		}
		if c != 0 {
			return c
		}
	}
	return 0
}

// orderPinned: every order field is a string/number field and the key has no nulls.
func (m *model) orderPinned(q qspec, k []*structpb.Value) bool {
	for i, o := range q.order {
		if o.field == m.idField {
			return false
		}
		switch poolType(o.field) {
		case tSTRING, tINTEGER, tDOUBLE:
		default:
			return false
		}
		if k[i] == nil {
			return false
		}
	}
	return true
}

// uniqueKey: the tuple a unique index holds for a document; pinned=false when a component is null/missing/stale.
func (m *model) uniqueKey(ix indexDef, doc *structpb.Struct, writeSeq int) (key string, pinned bool) {
	var sb strings.Builder
	pinned = true
	for _, f := range ix.fields {
		pv := pathValue(doc, f)
		if isNull(pv) || writeSeq < m.declared[f] || !kindOK(pv, poolType(f)) {
			pinned = false
			sb.WriteString("|null")
			continue
		}
		switch poolType(f) {
		case tSTRING:
			fmt.Fprintf(&sb, "|s%q", pv.GetStringValue())
		case tUUID:
			u, _ := uuid.Parse(pv.GetStringValue())
			fmt.Fprintf(&sb, "|u%x", u[:])
		case tINTEGER:
			fmt.Fprintf(&sb, "|i%d", int64(pv.GetNumberValue()))
		case tDOUBLE:
			x := pv.GetNumberValue()
			if x == 0 {
				x = 0 // -0 and 0 are the same number
			}
			fmt.Fprintf(&sb, "|f%x", math.Float64bits(x))
		case tBOOLEAN:
			fmt.Fprintf(&sb, "|b%v", pv.GetBoolValue())
		}
	}
	return ix.String() + sb.String(), pinned
}

// deepEqual compares two JSON values exactly (numbers by bits, so -0 != 0).
func deepEqualValue(a, b *structpb.Value) bool {
	if a == nil || b == nil {
		return a == b
	}
	switch x := a.GetKind().(type) {
	case *structpb.Value_NullValue:
		_, ok := b.GetKind().(*structpb.Value_NullValue)
		return ok
	case *structpb.Value_StringValue:
		y, ok := b.GetKind().(*structpb.Value_StringValue)
		return ok && x.StringValue == y.StringValue
	case *structpb.Value_NumberValue:
		y, ok := b.GetKind().(*structpb.Value_NumberValue)
		return ok && math.Float64bits(x.NumberValue) == math.Float64bits(y.NumberValue)
	case *structpb.Value_BoolValue:
		y, ok := b.GetKind().(*structpb.Value_BoolValue)
		return ok && x.BoolValue == y.BoolValue
	case *structpb.Value_StructValue:
		y, ok := b.GetKind().(*structpb.Value_StructValue)
		return ok && deepEqualStruct(x.StructValue, y.StructValue)
	case *structpb.Value_ListValue:
		y, ok := b.GetKind().(*structpb.Value_ListValue)
		if !ok || len(x.ListValue.GetValues()) != len(y.ListValue.GetValues()) {
			return false
		}
		for i := range x.ListValue.GetValues() {
			if !deepEqualValue(x.ListValue.Values[i], y.ListValue.Values[i]) {
				return false
			}
		}
		return true
	}
	return a.GetKind() == nil && b.GetKind() == nil
}

func deepEqualStruct(a, b *structpb.Struct) bool {
	if len(a.GetFields()) != len(b.GetFields()) {
		return false
	}
	for k, v := range a.GetFields() {
		w, ok := b.GetFields()[k]
		if !ok || !deepEqualValue(v, w) {
			return false
		}
	}
	return true
}

func cloneStruct(s *structpb.Struct) *structpb.Struct {
	out := &structpb.Struct{Fields: map[string]*structpb.Value{}}
	for k, v := range s.GetFields() {
		out.Fields[k] = cloneValue(v)
	}
	return out
}

func cloneValue(v *structpb.Value) *structpb.Value {
	switch x := v.GetKind().(type) {
	case *structpb.Value_StructValue:
		return structpb.NewStructValue(cloneStruct(x.StructValue))
	case *structpb.Value_ListValue:
		l := &structpb.ListValue{}
		for _, e := range x.ListValue.GetValues() {
			l.Values = append(l.Values, cloneValue(e))
		}
		return structpb.NewListValue(l)
	case *structpb.Value_StringValue:
		return structpb.NewStringValue(x.StringValue)
	case *structpb.Value_NumberValue:
		return structpb.NewNumberValue(x.NumberValue)
	case *structpb.Value_BoolValue:
		return structpb.NewBoolValue(x.BoolValue)
	}
	return structpb.NewNullValue()
}

// withID: the stored form of a document: what was written plus the id field.
func withID(doc *structpb.Struct, idField, id string) *structpb.Struct {
	out := cloneStruct(doc)
	out.Fields[idField] = structpb.NewStringValue(id)
	return out
}

// setPath stores v at a dotted path, creating intermediate structs.
func setPath(doc *structpb.Struct, path string, v *structpb.Value) {
	parts := strings.Split(path, ".")
	cur := doc
	for i, p := range parts {
		if i == len(parts)-1 {
			cur.Fields[p] = v
			return
		}
		nxt := cur.Fields[p].GetStructValue()
		if nxt == nil {
			nxt = &structpb.Struct{Fields: map[string]*structpb.Value{}}
			cur.Fields[p] = structpb.NewStructValue(nxt)
		}
		cur = nxt
	}
}

var _ = utf8.RuneError
