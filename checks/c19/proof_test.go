package c19

import (
	"errors"
	"fmt"
	"os"
	"testing"

	"github.com/codenotary/immudb/embedded/document"
	"github.com/codenotary/immudb/embedded/store"
	"github.com/codenotary/immudb/pkg/api/protomodel"
	"github.com/codenotary/immudb/pkg/api/schema"
	"github.com/codenotary/immudb/pkg/database"
	"github.com/codenotary/immudb/pkg/verification"
	"google.golang.org/protobuf/proto"
	"google.golang.org/protobuf/types/known/structpb"
	"pgregory.net/rapid"

	"verif/internal/vk"
)

func openDB() (database.DB, string, error) {
	dir := vk.Dir()
	opts := database.DefaultOptions().WithDBRootPath(dir).WithStoreOptions(store.DefaultOptions().WithSynced(false))
	db, err := database.NewDB("docdb", nil, opts, quietLogger())
	if err != nil {
		os.RemoveAll(dir)
		return nil, "", err
	}
	return db, dir, nil
}

type pdocRec struct {
	id   string
	revs []*structpb.Struct // stored form (with id) of every revision, in order
	txs  []uint64
}

// alter returns a document that differs from doc in one place.
func alter(rt *rapid.T, doc *structpb.Struct, idField string) (*structpb.Struct, string) {
	out := cloneStruct(doc)
	var keys []string
	for k := range out.Fields {
		if k != idField {
			keys = append(keys, k)
		}
	}
	sortStrings(keys)
	kind := rapid.SampledFrom([]string{"tweak", "tweak", "remove", "add", "nest"}).Draw(rt, "alterKind")
	if len(keys) == 0 && kind != "add" {
		kind = "add"
	}
	switch kind {
	case "tweak":
		k := rapid.SampledFrom(keys).Draw(rt, "alterKey")
		out.Fields[k] = tweak(out.Fields[k])
		return out, "tweak " + k
	case "remove":
		k := rapid.SampledFrom(keys).Draw(rt, "alterKey")
		delete(out.Fields, k)
		return out, "remove " + k
	case "nest":
		k := rapid.SampledFrom(keys).Draw(rt, "alterKey")
		out.Fields[k] = structpb.NewListValue(&structpb.ListValue{Values: []*structpb.Value{out.Fields[k]}})
		return out, "wrap " + k
	default:
		out.Fields["added-field"] = structpb.NewNullValue()
		return out, "add field"
	}
}

func tweak(v *structpb.Value) *structpb.Value {
	switch x := v.GetKind().(type) {
	case *structpb.Value_StringValue:
		return structpb.NewStringValue(x.StringValue + "​")
	case *structpb.Value_NumberValue:
		if x.NumberValue+1 != x.NumberValue {
			return structpb.NewNumberValue(x.NumberValue + 1)
		}
		return structpb.NewNumberValue(x.NumberValue / 2)
	case *structpb.Value_BoolValue:
		return structpb.NewBoolValue(!x.BoolValue)
	case *structpb.Value_NullValue:
		return structpb.NewBoolValue(false)
	case *structpb.Value_StructValue:
		s := cloneStruct(x.StructValue)
		s.Fields["tweak"] = structpb.NewNumberValue(1)
		return structpb.NewStructValue(s)
	case *structpb.Value_ListValue:
		l := &structpb.ListValue{Values: append([]*structpb.Value{structpb.NewNullValue()}, x.ListValue.GetValues()...)}
		return structpb.NewListValue(l)
	}
	return structpb.NewStringValue("tweak")
}

func sortStrings(s []string) {
	for i := 1; i < len(s); i++ {
		for j := i; j > 0 && s[j] < s[j-1]; j-- {
			s[j], s[j-1] = s[j-1], s[j]
		}
	}
}

// TestDocProofs: every stored revision has a proof that verifies (chained over known states); altered documents / proofs do not.
func TestDocProofs(t *testing.T) {
	vk.Check(t, 200, 8000, func(rt *rapid.T, c *vk.Case) {
		db, dir, err := openDB()
		if err != nil {
			rt.Fatalf("open: %v", err)
		}
		defer func() {
			db.Close()
			os.RemoveAll(dir)
		}()
		fail := func(format string, args ...any) { c.Failf(rt, nil, format, args...) }

		m := &model{declared: map[string]int{}, burnt: map[string]bool{}}
		h := &harness{rt: rt, c: c, m: m}
		idf := rapid.SampledFrom([]string{"", "docid", "ID"}).Draw(rt, "idField")
		m.idField = idf
		if idf == "" {
			m.idField = document.DefaultDocumentIDField
		}
		nf := rapid.IntRange(0, 4).Draw(rt, "nFields")
		perm := rapid.Permutation(fieldPool).Draw(rt, "fieldPerm")
		for _, f := range perm[:nf] {
			m.declared[f.name] = 0
			m.order = append(m.order, f.name)
		}
		var pix []*protomodel.Index
		if nf > 0 && rapid.Bool().Draw(rt, "withIndex") {
			pix = append(pix, &protomodel.Index{Fields: []string{m.order[0]}})
		}
		coll := "proofs"
		c.Descf("id=%s fields=%v idx=%d", m.idField, m.order, len(pix))
		if _, err := db.CreateCollection(bg, "admin", &protomodel.CreateCollectionRequest{Name: coll, DocumentIdFieldName: idf, Fields: h.fields(), Indexes: pix}); err != nil {
			fail("CreateCollection: %v", err)
		}
		// some unrelated KV traffic so that document transactions are not the only ones
		if rapid.Bool().Draw(rt, "kvNoise") {
			if _, err := db.Set(bg, &schema.SetRequest{KVs: []*schema.KeyValue{{Key: []byte("k"), Value: []byte("v")}}}); err != nil {
				fail("Set: %v", err)
			}
		}

		var recs []*pdocRec
		nOps := rapid.IntRange(1, 6).Draw(rt, "nOps")
		for i := 0; i < nOps; i++ {
			if len(recs) == 0 || rapid.IntRange(0, 2).Draw(rt, "op") == 0 {
				n := rapid.IntRange(1, 3).Draw(rt, "batch")
				var docs, in []*structpb.Struct
				for k := 0; k < n; k++ {
					d, _ := h.genDoc(false)
					docs = append(docs, d)
					in = append(in, cloneStruct(d))
					c.Descf("I%s", structStr(d))
				}
				res, err := db.InsertDocuments(bg, "admin", &protomodel.InsertDocumentsRequest{CollectionName: coll, Documents: in})
				if err != nil {
					fail("InsertDocuments: %v", err)
				}
				for k, id := range res.DocumentIds {
					recs = append(recs, &pdocRec{id: id, revs: []*structpb.Struct{withID(docs[k], m.idField, id)}, txs: []uint64{res.TransactionId}})
				}
			} else {
				r := recs[rapid.IntRange(0, len(recs)-1).Draw(rt, "target")]
				d, _ := h.genDoc(false)
				c.Descf("R%s", structStr(d))
				in := withID(d, m.idField, r.id)
				res, err := db.ReplaceDocuments(bg, "admin", &protomodel.ReplaceDocumentsRequest{Query: &protomodel.Query{CollectionName: coll}, Document: in})
				if err != nil {
					fail("ReplaceDocuments: %v", err)
				}
				if len(res.Revisions) != 1 || res.Revisions[0].Revision != uint64(len(r.revs)+1) {
					fail("ReplaceDocuments of %s returned %v, want revision %d", r.id, res.Revisions, len(r.revs)+1)
				}
				r.revs = append(r.revs, withID(d, m.idField, r.id))
				r.txs = append(r.txs, res.Revisions[0].TransactionId)
			}
		}

		// ProofDocument of the current revision (TransactionId 0) reads the index without waiting for it
		var lastTx uint64
		for _, r := range recs {
			if t := r.txs[len(r.txs)-1]; t > lastTx {
				lastTx = t
			}
		}
		if err := db.WaitForIndexingUpto(bg, lastTx); err != nil {
			fail("WaitForIndexingUpto: %v", err)
		}

		var known *schema.ImmutableState
		multiRev, rejected := false, 0
		for di, r := range recs {
			for ri := range r.revs {
				// at-revision proofs and the proof of the current revision (TransactionId 0)
				txSel := r.txs[ri]
				if ri == len(r.revs)-1 && rapid.Bool().Draw(rt, "currentProof") {
					txSel = 0
				}
				req := &protomodel.ProofDocumentRequest{CollectionName: coll, DocumentId: r.id, TransactionId: txSel}
				if known != nil {
					req.ProofSinceTransactionId = known.TxId
				}
				proof, err := db.ProofDocument(bg, req)
				if err != nil {
					fail("ProofDocument(doc %d rev %d tx %d since %d): %v", di, ri+1, txSel, req.ProofSinceTransactionId, err)
				}
				st, err := verification.VerifyDocument(bg, proto.Clone(proof).(*protomodel.ProofDocumentResponse), r.revs[ri], known, nil)
				if err != nil {
					fail("VerifyDocument(doc %d rev %d tx %d, known=%v) rejected the stored revision %s: %v", di, ri+1, r.txs[ri], known != nil, structStr(r.revs[ri]), err)
				}
				c.Label("proof-verified")
				if len(r.revs) > 1 {
					multiRev = true
					c.Label("proof-of-multi-revision-doc")
				}
				if ri < len(r.revs)-1 {
					c.Label("proof-of-old-revision")
				}

				// alterations must be rejected
				try := func(what string, p *protomodel.ProofDocumentResponse, d *structpb.Struct, ks *schema.ImmutableState) {
					_, err := verification.VerifyDocument(bg, p, d, ks, nil)
					if err == nil {
						fail("VerifyDocument accepted %s (doc %d rev %d): document %s", what, di, ri+1, structStr(d))
					}
					rejected++
					c.Label("alteration-rejected")
				}
				alt, what := alter(rt, r.revs[ri], m.idField)
				c.Descf("alt:%s", what)
				try("an altered document ("+what+")", proto.Clone(proof).(*protomodel.ProofDocumentResponse), alt, known)
				// another revision / another document
				if ri > 0 && !deepEqualStruct(r.revs[ri-1], r.revs[ri]) && !proto.Equal(r.revs[ri-1], r.revs[ri]) {
					try("the previous revision against the proof of this one", proto.Clone(proof).(*protomodel.ProofDocumentResponse), r.revs[ri-1], known)
				}
				if len(recs) > 1 {
					o := recs[(di+1)%len(recs)]
					try("another document", proto.Clone(proof).(*protomodel.ProofDocumentResponse), o.revs[len(o.revs)-1], known)
					// this document's content under another document's id
					swapped := withID(r.revs[ri], m.idField, o.id)
					try("the document under another id", proto.Clone(proof).(*protomodel.ProofDocumentResponse), swapped, known)
				}
				// tampered proof
				tp := proto.Clone(proof).(*protomodel.ProofDocumentResponse)
				switch rapid.IntRange(0, 3).Draw(rt, "tamper") {
				case 0:
					if len(tp.EncodedDocument) > 0 {
						pos := rapid.IntRange(0, len(tp.EncodedDocument)-1).Draw(rt, "tamperPos")
						tp.EncodedDocument[pos] ^= 1 << uint(rapid.IntRange(0, 7).Draw(rt, "tamperBit"))
						func() {
							defer func() {
								if r := recover(); r != nil {
									fail("VerifyDocument panicked on a proof with one flipped bit in the encoded document (byte %d): %v", pos, r)
								}
							}()
							try("a proof with a flipped bit in the encoded document", tp, r.revs[ri], known)
						}()
					}
				case 1:
					tp.VerifiableTx.Tx.Header.Ts++
					try("a proof with a changed tx timestamp", tp, r.revs[ri], known)
				case 2:
					e := tp.VerifiableTx.Tx.Entries[rapid.IntRange(0, len(tp.VerifiableTx.Tx.Entries)-1).Draw(rt, "tamperEntry")]
					e.HValue[0] ^= 0x80
					try("a proof with a changed entry digest", tp, r.revs[ri], known)
				case 3:
					if known != nil {
						bad := &schema.ImmutableState{Db: known.Db, TxId: known.TxId, TxHash: append([]byte{}, known.TxHash...)}
						bad.TxHash[3] ^= 1
						try("a known state with a wrong hash", tp, r.revs[ri], bad)
					} else {
						tp.VerifiableTx.DualProof.TargetTxHeader.EH[0] ^= 1
						try("a proof with a changed target header", tp, r.revs[ri], nil)
					}
				}
				if st.TxId < r.txs[ri] {
					fail("VerifyDocument returned state at tx %d, before the proven tx %d", st.TxId, r.txs[ri])
				}
				if known == nil || st.TxId >= known.TxId {
					known = st
				}
			}
		}
		// a document id that does not exist has no proof
		if _, err := db.ProofDocument(bg, &protomodel.ProofDocumentRequest{CollectionName: coll, DocumentId: "00ff00ff00ff00ff00ff00ff00ff00ff"}); err == nil {
			fail("ProofDocument of an unknown document id succeeded")
		} else if !errors.Is(err, document.ErrDocumentNotFound) {
			c.Label("unknown-id-other-error")
		}
		c.Descf("docs=%d", len(recs))
		if multiRev && rejected > 0 {
			c.NonTrivial()
		}
		_ = fmt.Sprint
	})
}
