// C19 — document collections store and find documents faithfully.
package c19

import (
	"context"
	"errors"
	"fmt"
	"io"
	"math"
	"os"
	"sort"
	"strings"
	"testing"

	"github.com/codenotary/immudb/embedded/document"
	"github.com/codenotary/immudb/embedded/logger"
	"github.com/codenotary/immudb/embedded/sql"
	"github.com/codenotary/immudb/embedded/store"
	"github.com/codenotary/immudb/pkg/api/protomodel"
	"google.golang.org/protobuf/proto"
	"google.golang.org/protobuf/types/known/structpb"
	"pgregory.net/rapid"

	"verif/internal/vk"
)

func TestMain(m *testing.M) {
	vk.Main(m, vk.Config{
		Property: "C19",
		Rule: "rapid-generated histories (schema with nested paths / 0-3 indexes incl. unique and composite / custom id field; insert-batch, replace, delete, " +
			"AddField/RemoveField/CreateIndex/DeleteIndex between data steps) run against an indexed collection and an index-free twin in one real store, " +
			"checked after every step against a reference list of JSON documents (full listing, id lookup, generated DNF queries with ORDER BY/limit/offset, counts, audit trail) " +
			"and indexed-vs-twin; proof histories through pkg/database + verification.VerifyDocument with altered documents/proofs. " +
			"Non-trivial: the history contains a query that returned a non-empty strict subset of the live documents, or a schema change after data was written " +
			"(proof cases: at least one document with >=2 revisions verified and one alteration rejected; lag cases: one unique index among 1-3 plain ones in generated declaration order, a write re-using a unique value issued right behind a 30-80 document batch); distinct by hash of the case descriptor (schema+ops+queries).",
		Assumptions: []string{
			"one client; writes are issued without waiting for the indexer (TestUniqueUnderLag provokes the lag with 30-80 document batches); nothing about time is asserted. Only GetEncodedDocument/AuditDocument sweeps and proofs wait for the indexer first (those calls read the index as it is)",
			"null / missing operands: membership, ordering position and uniqueness of nulls are NOT asserted against the reference, only indexed-vs-twin (property does not pin them)",
			"ordering of BOOLEAN and UUID values and of document ids is not pinned: only EQ/NE are asserted for them, order only differentially",
			"field paths have at most 3 levels (document.DefaultDocumentMaxNestedFields); a literal key containing '.' is never also a declared path",
			"LIKE is SQL LIKE: % any sequence, _ one character, backslash escapes; whole value must match",
			"a query whose result page is ambiguous (ties at the page boundary, or no ORDER BY with limit/offset) is checked for size, membership and key sequence only",
			"numbers are finite (JSON has no NaN/Inf); strings are valid UTF-8 (protobuf requirement)",
			"renaming the id field (UpdateCollection) after data exists is not part of generated histories (pinned separately by probe K19i)",
			"not driven: the gRPC layer (pkg/server page/per-page translation), concurrent writers, reopen/crash of the store (C03/C04), replicas",
		},
		Probes: []vk.Probe{
			{ID: kNegZero, Present: retry(probeNegZero)},
			{ID: kIntTrunc, Present: retry(probeIntTrunc)},
			{ID: kLikeUTF8, Present: retry(probeLikeUTF8)},
			{ID: kLikeNL, Present: retry(probeLikeNL)},
			{ID: kAddField, Present: retry(probeAddField)},
			{ID: kBurntKey, Present: retry(probeBurntKey)},
			{ID: kUniqRace, Present: probeUniqRace},
			{ID: kSearchRev, Present: retry(probeSearchRev)},
			{ID: kRenameID, Present: retry(probeRenameID)},
			{ID: kDupAfterRead, Present: retry(probeDupAfterRead)},
			{ID: kMasked, Present: retry(probeMasked)},
		},
	})
}

var bg = context.Background()

// retry: the pinned reproductions are deterministic; repeating them only guards the generator exclusions
// against an infrastructure hiccup (a probe that cannot open its store reports "absent").
func retry(p func() (bool, string)) func() (bool, string) {
	return func() (bool, string) {
		for i := 0; i < 3; i++ {
			if ok, d := p(); ok {
				return ok, d
			}
		}
		return false, ""
	}
}

func quietLogger() logger.Logger { return logger.NewSimpleLogger("c19", io.Discard) }

func openEngine() (*store.ImmuStore, *document.Engine, string, error) {
	dir := vk.Dir()
	st, err := store.Open(dir, store.DefaultOptions().WithMultiIndexing(true).WithSynced(false).WithLogger(quietLogger()))
	if err != nil {
		os.RemoveAll(dir)
		return nil, nil, "", err
	}
	e, err := document.NewEngine(st, document.DefaultOptions().WithPrefix([]byte{3}))
	if err != nil {
		st.Close()
		os.RemoveAll(dir)
		return nil, nil, "", err
	}
	return st, e, dir, nil
}

// ---------------------------------------------------------------------------
// value domains

var (
	long512 = strings.Repeat("z", 512)
	long513 = strings.Repeat("z", 513)
	strVals = []string{"", "a", "ab", "abc", "b", "B", "a b", "é", "aé", "日本", "😀", "a\x00", "a\nb", "100%", "x_y", "\\", "zz", long512}
	// all exactly representable as float64 and int64
	intVals  = []float64{-9223372036854775808, -9007199254740994, -9007199254740992, -2, -1, 0, 1, 2, 3, 7, 9007199254740992, 9007199254740994, 4611686018427387904}
	badInts  = []float64{1.5, -0.5, 2.000001, 1e19, 9223372036854775808, -1e30}
	dblVals  = []float64{-math.MaxFloat64, -1e300, -2, -1.5, -math.SmallestNonzeroFloat64, 0, math.SmallestNonzeroFloat64, 0.1, 1, 1.5, 2, 3, 9007199254740993, 1e300, math.MaxFloat64}
	uuidVals = []string{"00000000-0000-0000-0000-000000000000", "11111111-2222-3333-4444-555555555555", "AAAAAAAA-BBBB-CCCC-DDDD-EEEEEEEEEEEE", "aaaaaaaa-bbbb-cccc-dddd-eeeeeeeeeeee", "ffffffff-ffff-ffff-ffff-ffffffffffff"}
	patterns = []string{"", "%", "_", "a%", "%b", "%a%", "a_", "_b", "a", "ab", "a b", "a%c", "%é", "é", "日_", "__", "a\x00", "a_b", "a%b", "100\\%", "100%", "x\\_y", "x_y", "\\\\", "z%", "%z", "B", "b"}
)

func negZero() float64 { return math.Copysign(0, -1) }

// genFieldValue draws a value of the declared type (kind always right).
func genFieldValue(rt *rapid.T, t protomodel.FieldType, label string) *structpb.Value {
	switch t {
	case tSTRING:
		return structpb.NewStringValue(rapid.SampledFrom(strVals).Draw(rt, label))
	case tINTEGER:
		if rapid.IntRange(0, 24).Draw(rt, label+"bad") == 0 {
			if vk.Excluded(kIntTrunc) {
				vk.CountExcluded(kIntTrunc)
			} else {
				return structpb.NewNumberValue(rapid.SampledFrom(badInts).Draw(rt, label))
			}
		}
		return structpb.NewNumberValue(rapid.SampledFrom(intVals).Draw(rt, label))
	case tDOUBLE:
		if rapid.IntRange(0, 11).Draw(rt, label+"nz") == 0 {
			if vk.Excluded(kNegZero) {
				vk.CountExcluded(kNegZero)
			} else {
				return structpb.NewNumberValue(negZero())
			}
		}
		return structpb.NewNumberValue(rapid.SampledFrom(dblVals).Draw(rt, label))
	case tBOOLEAN:
		return structpb.NewBoolValue(rapid.Bool().Draw(rt, label))
	case tUUID:
		return structpb.NewStringValue(rapid.SampledFrom(uuidVals).Draw(rt, label))
	}
	panic("type")
}

func genWrongKind(rt *rapid.T, t protomodel.FieldType) *structpb.Value {
	switch t {
	case tSTRING:
		return rapid.SampledFrom([]*structpb.Value{structpb.NewNumberValue(1), structpb.NewBoolValue(true), structpb.NewStructValue(&structpb.Struct{})}).Draw(rt, "wrong")
	case tUUID:
		return rapid.SampledFrom([]*structpb.Value{structpb.NewNumberValue(1), structpb.NewStringValue("not-a-uuid"), structpb.NewStringValue("")}).Draw(rt, "wrong")
	case tBOOLEAN:
		return rapid.SampledFrom([]*structpb.Value{structpb.NewNumberValue(0), structpb.NewStringValue("true")}).Draw(rt, "wrong")
	default:
		return rapid.SampledFrom([]*structpb.Value{structpb.NewStringValue("1"), structpb.NewBoolValue(false), structpb.NewListValue(&structpb.ListValue{})}).Draw(rt, "wrong")
	}
}

func genJSON(rt *rapid.T, depth int) *structpb.Value {
	k := rapid.IntRange(0, 7).Draw(rt, "jk")
	if depth <= 0 && k >= 6 {
		k = 1
	}
	switch k {
	case 0:
		return structpb.NewNullValue()
	case 1:
		return structpb.NewStringValue(rapid.SampledFrom(append([]string{long513, "\u0000", "tab\t", "\"q\"", "\U0001F468\u200d\U0001F469"}, strVals...)).Draw(rt, "js"))
	case 2:
		return structpb.NewNumberValue(rapid.SampledFrom([]float64{0, negZero(), 1, -1, 1.5, 1e19, -1e-7, math.MaxFloat64, math.SmallestNonzeroFloat64, 9007199254740993, 123456789.125}).Draw(rt, "jn"))
	case 3:
		return structpb.NewNumberValue(rapid.Float64().Filter(func(f float64) bool { return !math.IsNaN(f) && !math.IsInf(f, 0) }).Draw(rt, "jf"))
	case 4, 5:
		return structpb.NewBoolValue(k == 4)
	case 6:
		l := &structpb.ListValue{}
		n := rapid.IntRange(0, 3).Draw(rt, "ln")
		for i := 0; i < n; i++ {
			l.Values = append(l.Values, genJSON(rt, depth-1))
		}
		return structpb.NewListValue(l)
	default:
		s := &structpb.Struct{Fields: map[string]*structpb.Value{}}
		n := rapid.IntRange(0, 3).Draw(rt, "sn")
		for i := 0; i < n; i++ {
			s.Fields[rapid.SampledFrom([]string{"k", "", "x.y", "ключ", "s", "b", "Z z"}).Draw(rt, "sk")] = genJSON(rt, depth-1)
		}
		return structpb.NewStructValue(s)
	}
}

// ---------------------------------------------------------------------------
// harness

var colls = [2]string{"ix_docs", "tw-docs"}

type harness struct {
	rt *rapid.T
	c  *vk.Case
	st *store.ImmuStore
	e  *document.Engine
	m  *model

	strictSubset, schemaEvolved bool
	queries                     int
	aborted                     bool // the twins legitimately diverged (ambiguous limit): the case ends
}

func excl(id string) bool { return vk.Excluded(id) }

func (h *harness) failf(format string, args ...any) {
	h.c.Failf(h.rt, h.dump(), format, args...)
}

func (h *harness) dump() any {
	var docs []string
	for _, d := range h.m.docs {
		docs = append(docs, fmt.Sprintf("#%d alive=%v revs=%d wseq=%d ids=%v cur=%s", d.idx, d.alive, len(d.revs), d.writeSeq, d.id, structStr(d.cur())))
	}
	var idx []string
	for _, ix := range h.m.indexes {
		idx = append(idx, ix.String())
	}
	return map[string]any{"idField": h.m.idField, "declared": fmt.Sprint(h.m.declared), "indexes": idx, "docs": docs}
}

func (h *harness) waitIndexed() {
	if err := h.st.WaitForIndexingUpto(bg, h.st.LastPrecommittedTxID()); err != nil {
		h.failf("WaitForIndexingUpto: %v", err)
	}
}

// beforeWrite: writes are issued without waiting for the indexer (the outcome of a write must not depend on it);
// only while the known finding K19g (unique-insert race) is present the harness lets the indexer catch up first.
func (h *harness) beforeWrite() {
	if excl(kUniqRace) {
		vk.CountExcluded(kUniqRace)
		h.waitIndexed()
	}
}

func (h *harness) fields() []*protomodel.Field {
	var fs []*protomodel.Field
	for _, f := range h.m.order {
		fs = append(fs, &protomodel.Field{Name: f, Type: poolType(f)})
	}
	return fs
}

// genDoc draws a document. reject != "" when the reference predicts that the engine must refuse it.
func (h *harness) genDoc(allowBad bool) (doc *structpb.Struct, reject string) {
	doc, reject = h.genDoc0(allowBad)
	if !allowBad && reject != "" {
		// the caller wants a valid document: repair the declared fields the schema would refuse
		for _, f := range h.m.order {
			if pv := pathValue(doc, f); !isNull(pv) && !kindOK(pv, poolType(f)) && poolType(f) == tINTEGER {
				setPath(doc, f, structpb.NewNumberValue(7))
			}
		}
		reject = h.predictReject(doc)
	}
	return doc, reject
}

func (h *harness) genDoc0(allowBad bool) (doc *structpb.Struct, reject string) {
	rt := h.rt
	doc = &structpb.Struct{Fields: map[string]*structpb.Value{}}
	if rapid.IntRange(0, 19).Draw(rt, "emptyDoc") == 0 {
		return doc, ""
	}
	allowBad = allowBad && rapid.IntRange(0, 5).Draw(rt, "mayBeInvalid") == 0
	for _, f := range fieldPool {
		declared := h.m.isDeclared(f.name)
		p := rapid.IntRange(0, 99).Draw(rt, "presence:"+f.name)
		_ = declared
		switch {
		case !declared && p >= 25:
			// undeclared pool fields are mostly absent
		case p < 8:
			// missing
		case p < 14:
			setPath(doc, f.name, structpb.NewNullValue())
		case p < 16 && allowBad:
			v := genWrongKind(rt, f.typ)
			setPath(doc, f.name, v)
		case p < 18 && f.typ == tSTRING && allowBad:
			setPath(doc, f.name, structpb.NewStringValue(long513))
		default:
			setPath(doc, f.name, genFieldValue(rt, f.typ, "val:"+f.name))
		}
	}
	// shadow a nested parent by a scalar: the nested declared fields are then missing
	if rapid.IntRange(0, 14).Draw(rt, "shadow") == 0 {
		doc.Fields["a"] = rapid.SampledFrom([]*structpb.Value{structpb.NewNumberValue(5), structpb.NewNullValue(), structpb.NewStringValue("scalar")}).Draw(rt, "shadowV")
	}
	// undeclared extras: arbitrary JSON
	n := rapid.IntRange(0, 3).Draw(rt, "extras")
	for i := 0; i < n; i++ {
		k := rapid.SampledFrom([]string{"x", "y", "x.y", "", "Z z", "ключ", "list", "_Id", "doc"}).Draw(rt, "extraK")
		if k == h.m.idField {
			continue
		}
		doc.Fields[k] = genJSON(rt, 3)
	}
	// collide with the unique key of a live document
	if live := h.m.live(); len(live) > 0 && rapid.IntRange(0, 3).Draw(rt, "collide") == 0 {
		for _, ix := range h.m.indexes {
			if !ix.unique {
				continue
			}
			src := live[rapid.IntRange(0, len(live)-1).Draw(rt, "collideWith")]
			for _, f := range ix.fields {
				if v := pathValue(src.cur(), f); !isNull(v) {
					setPath(doc, f, cloneValue(v))
				}
			}
			break
		}
	}
	if allowBad && rapid.IntRange(0, 9).Draw(rt, "reserved") == 0 {
		doc.Fields[document.DocumentBLOBField] = structpb.NewStringValue("x")
	}
	return doc, h.predictReject(doc)
}

// predictReject: must the engine refuse this document under the current schema?
func (h *harness) predictReject(doc *structpb.Struct) string {
	if _, has := doc.Fields[document.DocumentBLOBField]; has {
		return "reserved field _doc"
	}
	for _, f := range h.m.order {
		pv := pathValue(doc, f)
		if isNull(pv) {
			continue
		}
		if !kindOK(pv, poolType(f)) {
			return "wrong kind for " + f
		}
		if poolType(f) == tSTRING && len(pv.GetStringValue()) > 512 {
			return "string longer than 512 for " + f
		}
	}
	return ""
}

func (h *harness) labelDoc(doc *structpb.Struct) {
	for _, f := range h.m.order {
		pv := pathValue(doc, f)
		switch {
		case pv == nil:
			h.c.Label("doc-field-missing")
		case isNull(pv):
			h.c.Label("doc-field-null")
		}
		if strings.Contains(f, ".") && pv != nil && !isNull(pv) {
			h.c.Label("doc-nested-field-set")
		}
		if s := pv.GetStringValue(); s != "" && !isASCII(s) {
			h.c.Label("doc-unicode-field")
		}
	}
}

// ---------------------------------------------------------------------------
// reading

func (h *harness) toProto(q qspec, twin int) *protomodel.Query {
	pq := &protomodel.Query{CollectionName: colls[twin], Limit: q.limit}
	for _, g := range q.groups {
		exp := &protomodel.QueryExpression{}
		for _, c := range g {
			v := c.val
			if c.field == h.m.idField {
				if c.idRef >= 0 {
					v = structpb.NewStringValue(h.m.docs[c.idRef].id[twin])
				} else {
					v = structpb.NewStringValue("00ff00ff00ff00ff00ff00ff00ff00ff")
				}
			}
			exp.FieldComparisons = append(exp.FieldComparisons, &protomodel.FieldComparison{Field: c.field, Operator: c.op, Value: cloneValue(v)})
		}
		pq.Expressions = append(pq.Expressions, exp)
	}
	for _, o := range q.order {
		pq.OrderBy = append(pq.OrderBy, &protomodel.OrderByClause{Field: o.field, Desc: o.desc})
	}
	return pq
}

func (h *harness) read(q qspec, twin int, bulk int) ([]*protomodel.DocumentAtRevision, error) {
	r, err := h.e.GetDocuments(bg, h.toProto(q, twin), q.offset)
	if err != nil {
		return nil, err
	}
	defer r.Close()
	var out []*protomodel.DocumentAtRevision
	for {
		if bulk > 0 {
			ds, err := r.ReadN(bg, bulk)
			out = append(out, ds...)
			if errors.Is(err, document.ErrNoMoreDocuments) {
				return out, nil
			}
			if err != nil {
				return out, err
			}
			if len(ds) != bulk {
				return out, fmt.Errorf("ReadN(%d) returned %d documents without ErrNoMoreDocuments", bulk, len(ds))
			}
			continue
		}
		d, err := r.Read(bg)
		if errors.Is(err, document.ErrNoMoreDocuments) {
			return out, nil
		}
		if err != nil {
			return out, err
		}
		out = append(out, d)
		if len(out) > 10000 {
			return out, fmt.Errorf("reader does not terminate")
		}
	}
}

// resolve maps returned documents to reference documents and checks the payload.
func (h *harness) resolve(q qspec, twin int, res []*protomodel.DocumentAtRevision) []*rdoc {
	byID := map[string]*rdoc{}
	for _, d := range h.m.docs {
		byID[d.id[twin]] = d
	}
	seen := map[int]bool{}
	var out []*rdoc
	for i, r := range res {
		d, ok := byID[r.DocumentId]
		if !ok {
			h.failf("%s: query %s returned document id %s that was never inserted", colls[twin], q, r.DocumentId)
		}
		if !d.alive {
			h.failf("%s: query %s returned deleted document #%d", colls[twin], q, d.idx)
		}
		if seen[d.idx] {
			h.failf("%s: query %s returned document #%d twice (position %d)", colls[twin], q, d.idx, i)
		}
		seen[d.idx] = true
		want := withID(d.cur(), h.m.idField, d.id[twin])
		if !deepEqualStruct(r.Document, want) {
			h.failf("%s: query %s returned document #%d changed:\n got  %s\n want %s", colls[twin], q, d.idx, structStr(r.Document), structStr(want))
		}
		if r.Revision != uint64(len(d.revs)) {
			if r.Revision == 0 && excl(kSearchRev) {
				if i == 0 {
					vk.CountExcluded(kSearchRev)
				}
			} else {
				h.failf("%s: query %s returned document #%d with revision %d, want %d", colls[twin], q, d.idx, r.Revision, len(d.revs))
			}
		}
		out = append(out, d)
	}
	return out
}

// checkQuery runs q on both collections and applies the reference and the differential oracle.
func (h *harness) checkQuery(q qspec, tag string) {
	m := h.m
	h.queries++
	live := m.live()
	st := &evalStats{}
	verdict := map[int]int{}
	nT, nU := 0, 0
	for _, d := range live {
		v := m.eval(d, q, excl, st)
		verdict[d.idx] = v
		switch v {
		case vT:
			nT++
		case vU:
			nU++
		}
	}
	if st.unknownLikeUTF8 > 0 {
		vk.CountExcluded(kLikeUTF8)
		h.c.Label("q-like-known-finding-class")
	}
	if st.unknownLikeNL > 0 {
		vk.CountExcluded(kLikeNL)
		h.c.Label("q-like-known-finding-class")
	}
	if st.unknownStale > 0 && m.staleExcluded {
		vk.CountExcluded(kAddField)
		h.c.Label("q-stale-column")
	}

	var got [2][]*rdoc
	for twin := 0; twin < 2; twin++ {
		bulk := 0
		if len(q.groups)%2 == 1 && twin == 0 {
			bulk = 3
		}
		res, err := h.read(q, twin, bulk)
		if err != nil {
			h.failf("%s: query %s (%s): %v", colls[twin], q, tag, err)
		}
		docs := h.resolve(q, twin, res)
		got[twin] = docs

		cnt, err := h.e.CountDocuments(bg, h.toProto(q, twin), q.offset)
		if err != nil {
			h.failf("%s: count %s: %v", colls[twin], q, err)
		}
		if cnt != int64(len(docs)) {
			h.failf("%s: CountDocuments(%s)=%d but the search returns %d documents", colls[twin], q, cnt, len(docs))
		}

		// membership against the reference
		in := map[int]bool{}
		for _, d := range docs {
			in[d.idx] = true
			if verdict[d.idx] == vF {
				h.failf("%s: query %s returned document #%d which does not satisfy it: %s", colls[twin], q, d.idx, structStr(d.cur()))
			}
		}
		paged := q.limit > 0 || q.offset > 0
		if !paged {
			for _, d := range live {
				if verdict[d.idx] == vT && !in[d.idx] {
					h.failf("%s: query %s did not return document #%d which satisfies it: %s", colls[twin], q, d.idx, structStr(d.cur()))
				}
			}
		}
		// order / page against the reference
		keys := make([][]*structpb.Value, len(docs))
		for i, d := range docs {
			keys[i] = m.orderKey(d, q)
		}
		for i := 1; i < len(docs) && len(q.order) > 0; i++ {
			if m.orderPinned(q, keys[i-1]) && m.orderPinned(q, keys[i]) && m.keyCmp(q, keys[i-1], keys[i]) > 0 {
				h.failf("%s: query %s returned #%d before #%d, violating the requested order", colls[twin], q, docs[i-1].idx, docs[i].idx)
			}
		}
		if nU == 0 {
			// fully determined result set
			var exp []*rdoc
			for _, d := range live {
				if verdict[d.idx] == vT {
					exp = append(exp, d)
				}
			}
			lo := int(q.offset)
			if lo > len(exp) {
				lo = len(exp)
			}
			hi := len(exp)
			if q.limit > 0 && lo+int(q.limit) < hi {
				hi = lo + int(q.limit)
			}
			if len(docs) != hi-lo {
				h.failf("%s: query %s returned %d documents, want %d (matching %d, offset %d, limit %d)", colls[twin], q, len(docs), hi-lo, len(exp), q.offset, q.limit)
			}
			allPinned := len(q.order) > 0
			for _, d := range exp {
				if !m.orderPinned(q, m.orderKey(d, q)) {
					allPinned = false
				}
			}
			if allPinned && paged {
				sort.SliceStable(exp, func(i, j int) bool { return m.keyCmp(q, m.orderKey(exp[i], q), m.orderKey(exp[j], q)) < 0 })
				for i, d := range exp[lo:hi] {
					if !m.keyEqual(q, m.orderKey(d, q), keys[i]) {
						h.failf("%s: query %s: position %d of the page holds #%d, the reference order has a document with another key there (#%d)", colls[twin], q, i, docs[i].idx, d.idx)
					}
				}
				h.c.Label("q-page-exact")
			}
		}
	}

	// indexed vs twin
	a, b := got[0], got[1]
	if len(a) != len(b) {
		h.failf("query %s: indexed collection returns %d documents %v, index-free twin %d %v", q, len(a), idxs(a), len(b), idxs(b))
	}
	if q.limit == 0 && q.offset == 0 {
		sa, sb := idxs(a), idxs(b)
		sort.Ints(sa)
		sort.Ints(sb)
		if fmt.Sprint(sa) != fmt.Sprint(sb) {
			h.failf("query %s: indexed collection returns documents %v, index-free twin %v", q, sa, sb)
		}
	}
	if len(q.order) > 0 {
		for i := range a {
			if !m.keyEqual(q, m.orderKey(a[i], q), m.orderKey(b[i], q)) {
				h.failf("query %s: position %d differs in order key: indexed #%d, twin #%d (indexed %v, twin %v)", q, i, a[i].idx, b[i].idx, idxs(a), idxs(b))
			}
		}
	}

	// labels
	switch {
	case len(a) == 0:
		h.c.Label("q-empty")
	case len(a) == len(live):
		h.c.Label("q-all")
	default:
		h.c.Label("q-strict-subset")
		if len(q.groups) > 0 {
			h.strictSubset = true
		}
	}
	if nU > 0 {
		h.c.Label("q-with-unpinned-docs")
	} else {
		h.c.Label("q-fully-pinned")
	}
	if nT > 0 && nT < len(live) {
		h.c.Label("q-reference-selective")
	}
	if len(q.order) > 0 {
		h.c.Label("q-orderby")
	}
	if q.limit > 0 || q.offset > 0 {
		h.c.Label("q-paged")
	}
	if len(q.groups) > 1 {
		h.c.Label("q-or")
	}
	if h.indexEligible(q) {
		h.c.Label("q-index-eligible")
	}
}

func idxs(ds []*rdoc) []int {
	out := make([]int, len(ds))
	for i, d := range ds {
		out[i] = d.idx
	}
	return out
}

// indexEligible: the planner can use a secondary index of the indexed collection (ORDER BY prefix or equality on the leading column).
func (h *harness) indexEligible(q qspec) bool {
	for _, ix := range h.m.indexes {
		if len(q.order) > 0 && len(q.order) <= len(ix.fields) {
			ok := true
			for i, o := range q.order {
				if ix.fields[i] != o.field || o.desc != q.order[0].desc {
					ok = false
				}
			}
			if ok {
				return true
			}
		}
		if len(q.order) == 0 && len(q.groups) == 1 {
			for _, c := range q.groups[0] {
				if c.op == opEQ && c.field == ix.fields[0] {
					return true
				}
			}
		}
	}
	return false
}

func (h *harness) genCmp(label string) cmpT {
	rt := h.rt
	m := h.m
	cands := append([]string{}, m.order...)
	// bias towards indexed fields
	for _, ix := range m.indexes {
		cands = append(cands, ix.fields[0])
	}
	if len(cands) == 0 || rapid.IntRange(0, 7).Draw(rt, label+"id") == 0 {
		c := cmpT{field: m.idField, op: rapid.SampledFrom([]protomodel.ComparisonOperator{opEQ, opEQ, opNE}).Draw(rt, label+"idop"), idRef: -1}
		if len(m.docs) > 0 && rapid.IntRange(0, 9).Draw(rt, label+"idknown") > 0 {
			c.idRef = rapid.IntRange(0, len(m.docs)-1).Draw(rt, label+"idref")
		}
		return c
	}
	f := rapid.SampledFrom(cands).Draw(rt, label+"f")
	t := poolType(f)
	c := cmpT{field: f, idRef: -1}
	ops := []protomodel.ComparisonOperator{opEQ, opEQ, opNE, opLT, opLE, opGT, opGE}
	if t == tSTRING {
		ops = append(ops, opLK, opLK, opNLK)
	}
	c.op = rapid.SampledFrom(ops).Draw(rt, label+"op")
	switch {
	case c.op == opLK || c.op == opNLK:
		c.val = structpb.NewStringValue(rapid.SampledFrom(patterns).Draw(rt, label+"pat"))
	case rapid.IntRange(0, 19).Draw(rt, label+"nullop") == 0:
		c.val = structpb.NewNullValue()
	default:
		// mostly a value some live document holds, so that comparisons hit
		var held []*structpb.Value
		for _, d := range m.live() {
			if v, _ := m.colValue(d, f); v != nil && kindOK(v, t) {
				held = append(held, v)
			}
		}
		if len(held) > 0 && rapid.IntRange(0, 3).Draw(rt, label+"held") > 0 {
			c.val = cloneValue(held[rapid.IntRange(0, len(held)-1).Draw(rt, label+"heldIdx")])
		} else {
			c.val = genFieldValue(rt, t, label+"v")
		}
		if t == tINTEGER && !kindOK(c.val, t) {
			// operands are always proper integers (a non-integral operand for an INTEGER field is refused or truncated: K19b)
			c.val = structpb.NewNumberValue(rapid.SampledFrom(intVals).Draw(rt, label+"vint"))
		}
	}
	return c
}

func (h *harness) genQuery(label string, allowPaging bool) qspec {
	rt := h.rt
	var q qspec
	ng := rapid.SampledFrom([]int{0, 1, 1, 1, 1, 2, 2, 3}).Draw(rt, label+"groups")
	for g := 0; g < ng; g++ {
		nc := rapid.SampledFrom([]int{1, 1, 1, 2, 2, 3}).Draw(rt, label+"cmps")
		var grp []cmpT
		for i := 0; i < nc; i++ {
			grp = append(grp, h.genCmp(fmt.Sprintf("%sg%dc%d", label, g, i)))
		}
		q.groups = append(q.groups, grp)
	}
	if len(h.m.order) > 0 {
		no := rapid.SampledFrom([]int{0, 0, 1, 1, 2}).Draw(rt, label+"orders")
		used := map[string]bool{}
		for i := 0; i < no; i++ {
			cands := append([]string{}, h.m.order...)
			for _, ix := range h.m.indexes {
				if i < len(ix.fields) {
					cands = append(cands, ix.fields[i], ix.fields[i])
				}
			}
			f := rapid.SampledFrom(cands).Draw(rt, fmt.Sprintf("%sord%d", label, i))
			if used[f] {
				continue
			}
			used[f] = true
			q.order = append(q.order, ordT{field: f, desc: rapid.Bool().Draw(rt, fmt.Sprintf("%sdesc%d", label, i))})
		}
	}
	if allowPaging && rapid.IntRange(0, 2).Draw(rt, label+"paged") == 0 {
		q.limit = uint32(rapid.IntRange(0, 4).Draw(rt, label+"limit"))
		q.offset = int64(rapid.IntRange(0, 3).Draw(rt, label+"offset"))
	}
	return q
}

// checkListing: the full listing of both collections equals the reference list.
func (h *harness) checkListing(tag string) {
	for twin := 0; twin < 2; twin++ {
		res, err := h.read(qspec{}, twin, 0)
		if err != nil {
			h.failf("%s: listing after %s: %v", colls[twin], tag, err)
		}
		docs := h.resolve(qspec{}, twin, res)
		live := h.m.live()
		if len(docs) != len(live) {
			h.failf("%s: after %s the collection lists %d documents %v, the reference has %d %v", colls[twin], tag, len(docs), idxs(docs), len(live), idxs(live))
		}
	}
}

// checkByID: id lookup of every document (live: exactly itself; deleted: nothing), and the raw encoded revision.
func (h *harness) checkByID(d *rdoc) {
	h.waitIndexed() // GetEncodedDocument / AuditDocument read the index without waiting for it
	q := qspec{groups: [][]cmpT{{{field: h.m.idField, op: opEQ, idRef: d.idx}}}}
	for twin := 0; twin < 2; twin++ {
		res, err := h.read(q, twin, 0)
		if err != nil {
			h.failf("%s: id lookup of #%d: %v", colls[twin], d.idx, err)
		}
		docs := h.resolve(q, twin, res)
		want := 0
		if d.alive {
			want = 1
		}
		if len(docs) != want || (want == 1 && docs[0] != d) {
			h.failf("%s: id lookup of #%d (alive=%v) returned %v", colls[twin], d.idx, d.alive, idxs(docs))
		}
		id, _ := document.NewDocumentIDFromHexEncodedString(d.id[twin])
		_, idf, enc, err := h.e.GetEncodedDocument(bg, colls[twin], id, 0)
		if d.alive {
			if err != nil {
				h.failf("%s: GetEncodedDocument(#%d): %v", colls[twin], d.idx, err)
			}
			if idf != h.m.idField || enc.Revision != uint64(len(d.revs)) {
				h.failf("%s: GetEncodedDocument(#%d) id field %q revision %d, want %q %d", colls[twin], d.idx, idf, enc.Revision, h.m.idField, len(d.revs))
			}
			got, err := decodeRow(enc.EncodedDocument)
			if err != nil {
				h.failf("%s: encoded document of #%d: %v", colls[twin], d.idx, err)
			}
			if want := withID(d.cur(), h.m.idField, d.id[twin]); !deepEqualStruct(got, want) {
				h.failf("%s: encoded document of #%d:\n got  %s\n want %s", colls[twin], d.idx, structStr(got), structStr(want))
			}
		} else if !errors.Is(err, document.ErrDocumentNotFound) {
			h.failf("%s: GetEncodedDocument of deleted #%d: err=%v, want ErrDocumentNotFound", colls[twin], d.idx, err)
		}
	}
}

// decodeRow extracts the JSON payload from an encoded row the way pkg/verification does.
func decodeRow(enc []byte) (*structpb.Struct, error) {
	voff := sql.EncLenLen + sql.EncIDLen
	if len(enc) < voff {
		return nil, fmt.Errorf("short row")
	}
	_, n, err := sql.DecodeValue(enc[voff:], sql.BLOBType)
	if err != nil {
		return nil, err
	}
	voff += n + sql.EncIDLen
	if len(enc) < voff {
		return nil, fmt.Errorf("short row")
	}
	blob, _, err := sql.DecodeValue(enc[voff:], sql.BLOBType)
	if err != nil {
		return nil, err
	}
	s := &structpb.Struct{}
	if err := proto.Unmarshal(blob.RawValue().([]byte), s); err != nil {
		return nil, err
	}
	return s, nil
}

// checkAudit: the audit trail of a document lists every revision in order.
func (h *harness) checkAudit(d *rdoc) {
	rt := h.rt
	h.waitIndexed()
	desc := rapid.Bool().Draw(rt, "auditDesc")
	off := rapid.IntRange(0, 2).Draw(rt, "auditOff")
	lim := rapid.SampledFrom([]int{1, 2, 50}).Draw(rt, "auditLim")
	n := len(d.revs)
	var want []int // revision numbers
	for i := 0; i < n; i++ {
		r := i + 1
		if desc {
			r = n - i
		}
		want = append(want, r)
	}
	if off > len(want) {
		want = nil
	} else {
		want = want[off:]
	}
	if len(want) > lim {
		want = want[:lim]
	}
	for twin := 0; twin < 2; twin++ {
		id, _ := document.NewDocumentIDFromHexEncodedString(d.id[twin])
		revs, err := h.e.AuditDocument(bg, colls[twin], id, desc, uint64(off), lim, true)
		if err != nil {
			if len(want) == 0 {
				continue // an offset beyond the history may be refused
			}
			h.failf("%s: AuditDocument(#%d desc=%v off=%d lim=%d): %v", colls[twin], d.idx, desc, off, lim, err)
		}
		if len(revs) != len(want) {
			h.failf("%s: AuditDocument(#%d desc=%v off=%d lim=%d) returned %d revisions, want %d of %d", colls[twin], d.idx, desc, off, lim, len(revs), len(want), n)
		}
		var lastTx uint64
		for i, r := range revs {
			rv := d.revs[want[i]-1]
			if r.Revision != uint64(want[i]) {
				h.failf("%s: audit of #%d position %d has revision %d, want %d", colls[twin], d.idx, i, r.Revision, want[i])
			}
			if r.DocumentId != d.id[twin] {
				h.failf("%s: audit of #%d reports document id %s", colls[twin], d.idx, r.DocumentId)
			}
			if r.Username != rv.user {
				h.failf("%s: audit of #%d revision %d written by %q, want %q", colls[twin], d.idx, want[i], r.Username, rv.user)
			}
			if i > 0 && ((!desc && r.TransactionId <= lastTx) || (desc && r.TransactionId >= lastTx)) {
				h.failf("%s: audit of #%d: transaction ids not monotone (%d after %d)", colls[twin], d.idx, r.TransactionId, lastTx)
			}
			lastTx = r.TransactionId
			if rv.deleted {
				if r.Metadata == nil || !r.Metadata.Deleted {
					h.failf("%s: audit of #%d revision %d is not marked deleted", colls[twin], d.idx, want[i])
				}
				continue
			}
			if r.Metadata != nil && r.Metadata.Deleted {
				h.failf("%s: audit of #%d revision %d is marked deleted", colls[twin], d.idx, want[i])
			}
			if w := withID(rv.doc, h.m.idField, d.id[twin]); !deepEqualStruct(r.Document, w) {
				h.failf("%s: audit of #%d revision %d:\n got  %s\n want %s", colls[twin], d.idx, want[i], structStr(r.Document), structStr(w))
			}
		}
	}
	if len(d.revs) > 1 {
		h.c.Label("audit-multi-revision")
	}
}

// ---------------------------------------------------------------------------
// writes

// uniqueVerdict: does writing `doc` to the documents `targets` (nil for inserts) collide in a unique index?
// returns conflict (pinned collision), unpinned (outcome not pinned: null component or known finding K19f)
func (h *harness) uniqueVerdict(newDocs []*structpb.Struct, targets map[int]bool) (conflict, unpinned bool) {
	live, batch, unp := h.uniqueVerdict3(newDocs, targets)
	return live || batch, unp
}

// uniqueVerdict3 separates collisions with live documents from collisions inside the written batch.
func (h *harness) uniqueVerdict3(newDocs []*structpb.Struct, targets map[int]bool) (conflictLive, conflictBatch, unpinned bool) {
	m := h.m
	for _, ix := range m.indexes {
		if !ix.unique {
			continue
		}
		held := map[string]bool{}
		inBatch := map[string]bool{}
		for _, d := range m.live() {
			if targets[d.idx] {
				continue
			}
			k, pinned := m.uniqueKey(ix, d.cur(), d.writeSeq)
			if pinned {
				held[k] = true
			}
		}
		for _, nd := range newDocs {
			k, pinned := m.uniqueKey(ix, nd, m.seq)
			if !pinned {
				unpinned = true
				continue
			}
			if held[k] {
				if m.burnt[k] && excl(kMasked) {
					// known finding K19k: the deleted index entry of an earlier holder of this key can hide the live holder
					vk.CountExcluded(kMasked)
					unpinned = true
				} else {
					conflictLive = true
				}
			}
			if inBatch[k] {
				conflictBatch = true
			}
			inBatch[k] = true
			if m.burnt[k] && targets == nil {
				if excl(kBurntKey) {
					vk.CountExcluded(kBurntKey)
					unpinned = true
				}
			}
		}
	}
	return
}

func (h *harness) burn(d *rdoc) {
	for _, ix := range h.m.indexes {
		if ix.unique {
			if k, pinned := h.m.uniqueKey(ix, d.cur(), d.writeSeq); pinned {
				h.m.burnt[k] = true
			}
		}
	}
}

func (h *harness) opInsert() {
	rt := h.rt
	m := h.m
	n := rapid.SampledFrom([]int{1, 1, 1, 2, 3, 5}).Draw(rt, "batch")
	var docs []*structpb.Struct
	reject := ""
	for i := 0; i < n; i++ {
		d, rj := h.genDoc(true)
		if rj != "" && reject == "" {
			reject = rj
		}
		docs = append(docs, d)
	}
	if rapid.IntRange(0, 29).Draw(rt, "idOnInsert") == 0 {
		docs[0].Fields[m.idField] = structpb.NewStringValue("0102030405060708090a0b0c0d0e0f10")
		if reject == "" {
			reject = "id field given on insert"
		}
	}
	user := rapid.SampledFrom([]string{"alice", "bob", ""}).Draw(rt, "user")
	h.c.Descf("I%d", n)
	for _, d := range docs {
		h.c.Descf("%s", structStr(d))
	}
	conflict, unpinned := false, false
	if reject == "" {
		cl, cb, unp := h.uniqueVerdict3(docs, nil)
		if cl && excl(kDupAfterRead) {
			// known finding K19j: a duplicate of a live document's unique key is admitted once the primary index was read;
			// the harness lists the collection after every step, so this insert is left out
			vk.CountExcluded(kDupAfterRead)
			h.c.Label("insert-duplicate-left-out-K19j")
			return
		}
		conflict, unpinned = cl || cb, unp
	}
	h.beforeWrite()
	in := make([]*structpb.Struct, n)
	for i := range docs {
		in[i] = cloneStruct(docs[i])
	}
	txID, ids, err := h.e.InsertDocuments(bg, user, colls[0], in)
	switch {
	case reject != "":
		h.c.Label("insert-rejected-invalid")
		if err == nil {
			h.failf("insert of an invalid batch succeeded (%s)", reject)
		}
		h.checkListing("rejected insert")
		return
	case conflict:
		h.c.Label("insert-unique-conflict")
		if err == nil {
			h.failf("insert of %d documents succeeded although a unique index already holds one of the keys (indexes %v)", n, m.indexes)
		}
		if !errors.Is(err, document.ErrConflict) {
			h.failf("duplicate insert failed with %v, want ErrConflict", err)
		}
		h.checkListing("conflicting insert")
		return
	case err != nil:
		if unpinned && errors.Is(err, document.ErrConflict) {
			h.c.Label("insert-unpinned-conflict")
			h.checkListing("conflicting insert (unpinned)")
			return
		}
		h.failf("insert of %d valid documents failed: %v", n, err)
	}
	if len(ids) != n || txID == 0 {
		h.failf("insert returned tx %d and %d ids for %d documents", txID, len(ids), n)
	}
	h.beforeWrite()
	in2 := make([]*structpb.Struct, n)
	for i := range docs {
		in2[i] = cloneStruct(docs[i])
	}
	_, ids2, err := h.e.InsertDocuments(bg, user, colls[1], in2)
	if err != nil || len(ids2) != n {
		h.failf("insert into the index-free twin failed: %v", err)
	}
	for i, d := range docs {
		h.labelDoc(d)
		m.docs = append(m.docs, &rdoc{idx: len(m.docs), id: [2]string{ids[i].EncodeToHexString(), ids2[i].EncodeToHexString()}, alive: true,
			revs: []revision{{doc: d, user: user}}, writeSeq: m.seq})
	}
	h.c.Label("insert-ok")
	if n > 1 {
		h.c.Label("insert-batch")
	}
	h.checkListing("insert")
}

// writeTargets evaluates a write query on the reference; ok=false when the set of targets is not pinned.
func (h *harness) writeTargets(q qspec) (targets []*rdoc, ok bool) {
	_, chosen, ok := h.writeTargets3(q)
	if !ok || chosen == nil {
		return nil, false
	}
	return chosen, true
}

// writeTargets3: exp = every live document that satisfies the filter (ok=false when some document is not pinned);
// chosen = the documents the write must hit, or nil when limit < len(exp) and the order does not pin which ones.
func (h *harness) writeTargets3(q qspec) (exp, chosen []*rdoc, ok bool) {
	m := h.m
	for _, d := range m.live() {
		switch m.eval(d, q, excl, &evalStats{}) {
		case vT:
			exp = append(exp, d)
		case vU:
			return nil, nil, false
		}
	}
	if q.limit == 0 || int(q.limit) >= len(exp) {
		return exp, append([]*rdoc{}, exp...), true
	}
	if len(q.order) == 0 {
		return exp, nil, true
	}
	for _, d := range exp {
		if !m.orderPinned(q, m.orderKey(d, q)) {
			return exp, nil, true
		}
	}
	sorted := append([]*rdoc{}, exp...)
	sort.SliceStable(sorted, func(i, j int) bool { return m.keyCmp(q, m.orderKey(sorted[i], q), m.orderKey(sorted[j], q)) < 0 })
	k := int(q.limit)
	if m.keyCmp(q, m.orderKey(sorted[k-1], q), m.orderKey(sorted[k], q)) == 0 {
		return exp, nil, true // tie at the cut
	}
	return exp, sorted[:k], true
}

// checkAmbiguousPick: a write with limit k < len(exp) whose order does not pin the victims: any k of exp,
// but never a document that sorts strictly after a spared one.
func (h *harness) checkAmbiguousPick(what string, q qspec, twin int, exp, picked []*rdoc) {
	m := h.m
	if len(picked) != int(q.limit) {
		h.failf("%s: %s %s hit %d documents %v, want exactly limit=%d of the %d matching %v", colls[twin], what, q, len(picked), idxs(picked), q.limit, len(exp), idxs(exp))
	}
	in := map[int]bool{}
	for _, d := range exp {
		in[d.idx] = true
	}
	hit := map[int]bool{}
	for _, d := range picked {
		if !in[d.idx] {
			h.failf("%s: %s %s hit document #%d which does not satisfy the filter", colls[twin], what, q, d.idx)
		}
		hit[d.idx] = true
	}
	if len(q.order) == 0 {
		return
	}
	for _, d := range picked {
		kd := m.orderKey(d, q)
		if !m.orderPinned(q, kd) {
			continue
		}
		for _, sp := range exp {
			ks := m.orderKey(sp, q)
			if hit[sp.idx] || !m.orderPinned(q, ks) {
				continue
			}
			if m.keyCmp(q, kd, ks) > 0 {
				h.failf("%s: %s %s with limit %d hit #%d but spared #%d which comes first in the requested order", colls[twin], what, q, q.limit, d.idx, sp.idx)
			}
		}
	}
}

func (h *harness) liveSet(twin int) map[int]bool {
	res, err := h.read(qspec{}, twin, 0)
	if err != nil {
		h.failf("%s: listing: %v", colls[twin], err)
	}
	out := map[int]bool{}
	for _, d := range h.resolve(qspec{}, twin, res) {
		out[d.idx] = true
	}
	return out
}

// genLimitedWrite: a write query whose filter is pinned for every document (none, or id != some document) with a small limit.
func (h *harness) genLimitedWrite(label string) qspec {
	rt := h.rt
	q := h.genQuery(label, false)
	q.groups = nil
	if rapid.Bool().Draw(rt, label+"ne") {
		q.groups = [][]cmpT{{{field: h.m.idField, op: opNE, idRef: rapid.IntRange(0, len(h.m.docs)-1).Draw(rt, label+"neRef")}}}
	}
	q.limit = uint32(rapid.IntRange(1, 2).Draw(rt, label+"lim"))
	return q
}

func (h *harness) genWriteQuery(label string) qspec {
	rt := h.rt
	q := h.genQuery(label, false)
	if rapid.IntRange(0, 2).Draw(rt, label+"wlimit") == 0 {
		q.limit = uint32(rapid.IntRange(1, 3).Draw(rt, label+"wlim"))
	}
	return q
}

func (h *harness) opReplace() {
	rt := h.rt
	m := h.m
	doc, reject := h.genDoc(true)
	byID := -1
	q := qspec{}
	if len(m.docs) > 0 && rapid.IntRange(0, 2).Draw(rt, "replaceByID") > 0 {
		byID = rapid.IntRange(0, len(m.docs)-1).Draw(rt, "replaceTarget")
		if rapid.Bool().Draw(rt, "replaceExtraQuery") {
			q = h.genWriteQuery("rq")
		}
	} else if len(m.docs) > 1 && rapid.IntRange(0, 3).Draw(rt, "replaceLimited") == 0 {
		q = h.genLimitedWrite("rl")
	} else {
		q = h.genWriteQuery("rq")
	}
	// effective filter: the id comparison is added to every group
	eff := q
	if byID >= 0 {
		idc := cmpT{field: m.idField, op: opEQ, idRef: byID}
		eff.groups = nil
		if len(q.groups) == 0 {
			eff.groups = [][]cmpT{{idc}}
		}
		for _, g := range q.groups {
			eff.groups = append(eff.groups, append([]cmpT{idc}, g...))
		}
	}
	exp, targets, ok := h.writeTargets3(eff)
	ambiguous := ok && targets == nil
	if ambiguous {
		// limit < matching documents, victims not pinned by the order: only driven when nothing else can interfere
		for _, ix := range m.indexes {
			if ix.unique {
				ok = false
			}
		}
		if reject != "" {
			ok = false
		}
	}
	if !ok {
		h.c.Label("write-query-unpinned-skipped")
		h.checkQuery(qspec{groups: q.groups, order: q.order}, "unpinned write query")
		return
	}
	user := rapid.SampledFrom([]string{"alice", "carol"}).Draw(rt, "user")
	h.c.Descf("R%s id#%d %s", q, byID, structStr(doc))
	tset := map[int]bool{}
	var newDocs []*structpb.Struct
	for _, d := range targets {
		tset[d.idx] = true
		newDocs = append(newDocs, doc)
	}
	conflict, unpinned := false, false
	if reject == "" && len(targets) > 0 {
		conflict, unpinned = h.uniqueVerdict(newDocs, tset)
	}
	var results [2][]*protomodel.DocumentAtRevision
	if ambiguous {
		h.c.Label("replace-limit-ambiguous")
		var picked [2][]*rdoc
		for twin := 0; twin < 2; twin++ {
			h.beforeWrite()
			revs, err := h.e.ReplaceDocuments(bg, user, h.toProto(q, twin), cloneStruct(doc))
			if err != nil {
				h.failf("%s: replace %s: %v", colls[twin], q, err)
			}
			for _, r := range revs {
				var hit *rdoc
				for _, d := range m.docs {
					if d.id[twin] == r.DocumentId {
						hit = d
					}
				}
				if hit == nil {
					h.failf("%s: replace %s reports unknown document id %s", colls[twin], q, r.DocumentId)
				}
				picked[twin] = append(picked[twin], hit)
			}
			sort.Slice(picked[twin], func(i, j int) bool { return picked[twin][i].idx < picked[twin][j].idx })
			h.checkAmbiguousPick("replace", q, twin, exp, picked[twin])
			results[twin] = revs
		}
		if fmt.Sprint(idxs(picked[0])) != fmt.Sprint(idxs(picked[1])) {
			h.c.Label("twins-diverged-on-ambiguous-limit")
			h.aborted = true
			return
		}
		targets = picked[0]
	}
	for twin := 0; twin < 2 && !ambiguous; twin++ {
		in := cloneStruct(doc)
		if byID >= 0 {
			in.Fields[m.idField] = structpb.NewStringValue(m.docs[byID].id[twin])
		}
		h.beforeWrite()
		revs, err := h.e.ReplaceDocuments(bg, user, h.toProto(q, twin), in)
		if len(targets) == 0 {
			if err != nil || len(revs) != 0 {
				// an invalid document may be refused even when nothing matches; nothing may change
				if err == nil {
					h.failf("%s: replace %s matched no reference document but returned %d revisions", colls[twin], q, len(revs))
				}
				if reject == "" {
					h.failf("%s: replace %s with no matching document failed: %v", colls[twin], q, err)
				}
			}
			continue
		}
		if twin == 0 {
			switch {
			case reject != "":
				h.c.Label("replace-rejected-invalid")
				if err == nil {
					h.failf("replace with an invalid document succeeded (%s)", reject)
				}
				h.checkListing("rejected replace")
				return
			case conflict:
				h.c.Label("replace-unique-conflict")
				if err == nil {
					h.failf("replace %s of %v succeeded although it creates a duplicate in a unique index %v", q, idxs(targets), m.indexes)
				}
				if !errors.Is(err, document.ErrConflict) {
					h.failf("replace creating a duplicate failed with %v, want ErrConflict", err)
				}
				h.checkListing("conflicting replace")
				return
			case err != nil && unpinned && errors.Is(err, document.ErrConflict):
				h.c.Label("replace-unpinned-conflict")
				h.checkListing("conflicting replace (unpinned)")
				return
			}
		}
		if err != nil {
			h.failf("%s: replace %s of %v failed: %v", colls[twin], q, idxs(targets), err)
		}
		results[twin] = revs
	}
	if len(targets) == 0 {
		h.c.Label("replace-no-target")
		h.checkListing("replace without target")
		return
	}
	for twin := 0; twin < 2; twin++ {
		revs := results[twin]
		if len(revs) != len(targets) {
			h.failf("%s: replace %s returned %d revisions, the reference replaces %v", colls[twin], q, len(revs), idxs(targets))
		}
		seen := map[string]bool{}
		for _, r := range revs {
			seen[r.DocumentId] = true
		}
		for _, d := range targets {
			if !seen[d.id[twin]] {
				h.failf("%s: replace %s did not report document #%d; reported %v", colls[twin], q, d.idx, revs)
			}
		}
		for _, r := range revs {
			for _, d := range targets {
				if d.id[twin] == r.DocumentId && r.Revision != uint64(len(d.revs)+1) {
					h.failf("%s: replace of #%d reports revision %d, want %d", colls[twin], d.idx, r.Revision, len(d.revs)+1)
				}
			}
		}
	}
	for _, d := range targets {
		h.burn(d)
		d.revs = append(d.revs, revision{doc: doc, user: user})
		d.writeSeq = m.seq
	}
	h.labelDoc(doc)
	h.c.Label("replace-ok")
	if len(targets) > 1 {
		h.c.Label("replace-multi")
	}
	h.checkListing("replace")
}

func (h *harness) opDelete() {
	rt := h.rt
	m := h.m
	var q qspec
	if len(m.docs) > 1 && rapid.IntRange(0, 3).Draw(rt, "deleteLimited") == 0 {
		// "delete k of many": fully pinned filter, limit below the number of matches, random order
		q = h.genLimitedWrite("dl")
	} else if len(m.docs) > 0 && rapid.Bool().Draw(rt, "deleteByID") {
		q = qspec{groups: [][]cmpT{{{field: m.idField, op: opEQ, idRef: rapid.IntRange(0, len(m.docs)-1).Draw(rt, "deleteTarget")}}}}
		if rapid.Bool().Draw(rt, "deleteLimit1") {
			q.limit = 1
		}
	} else {
		q = h.genWriteQuery("dq")
		if len(q.groups) == 0 && rapid.IntRange(0, 3).Draw(rt, "deleteAllOK") > 0 {
			q.groups = [][]cmpT{{h.genCmp("dqc")}}
		}
		if q.limit == 0 && rapid.IntRange(0, 2).Draw(rt, "deleteLimit") == 0 {
			q.limit = uint32(rapid.IntRange(1, 2).Draw(rt, "deleteLim"))
		}
	}
	exp, targets, ok := h.writeTargets3(q)
	if !ok {
		h.c.Label("write-query-unpinned-skipped")
		h.checkQuery(qspec{groups: q.groups, order: q.order}, "unpinned write query")
		return
	}
	user := rapid.SampledFrom([]string{"alice", "dave"}).Draw(rt, "user")
	h.c.Descf("D%s", q)
	for twin := 0; twin < 2; twin++ {
		h.beforeWrite()
		if err := h.e.DeleteDocuments(bg, user, h.toProto(q, twin)); err != nil {
			h.failf("%s: delete %s: %v", colls[twin], q, err)
		}
	}
	if targets == nil {
		// limit < matching documents and the order does not pin the victims
		h.c.Label("delete-limit-ambiguous")
		var gone [2][]*rdoc
		for twin := 0; twin < 2; twin++ {
			ls := h.liveSet(twin)
			for _, d := range m.live() {
				if !ls[d.idx] {
					gone[twin] = append(gone[twin], d)
				}
			}
			h.checkAmbiguousPick("delete", q, twin, exp, gone[twin])
		}
		if fmt.Sprint(idxs(gone[0])) != fmt.Sprint(idxs(gone[1])) {
			// both choices are allowed; the two collections can no longer share one reference
			h.c.Label("twins-diverged-on-ambiguous-limit")
			h.aborted = true
			return
		}
		targets = gone[0]
	}
	for _, d := range targets {
		h.burn(d)
		d.alive = false
		d.revs = append(d.revs, revision{deleted: true, doc: d.cur(), user: user})
	}
	if len(targets) > 0 {
		h.c.Label("delete-ok")
	} else {
		h.c.Label("delete-no-target")
	}
	h.checkListing("delete")
}

func (h *harness) opSchema() {
	rt := h.rt
	m := h.m
	hadData := len(m.docs) > 0
	kind := rapid.SampledFrom([]string{"addField", "addField", "removeField", "createIndex", "createIndex", "deleteIndex"}).Draw(rt, "schemaOp")
	h.beforeWrite()
	switch kind {
	case "addField":
		var cands []fieldDef
		for _, f := range fieldPool {
			if !m.isDeclared(f.name) {
				cands = append(cands, f)
			}
		}
		if len(cands) == 0 {
			return
		}
		f := rapid.SampledFrom(cands).Draw(rt, "newField")
		h.c.Descf("AF:%s", f.name)
		for twin := 0; twin < 2; twin++ {
			if err := h.e.AddField(bg, "admin", colls[twin], &protomodel.Field{Name: f.name, Type: f.typ}); err != nil {
				h.failf("%s: AddField(%s): %v", colls[twin], f.name, err)
			}
		}
		m.seq++
		m.declared[f.name] = m.seq
		m.order = append(m.order, f.name)
		h.c.Label("schema-addfield")
	case "removeField":
		if len(m.order) == 0 {
			return
		}
		f := rapid.SampledFrom(m.order).Draw(rt, "dropField")
		used := false
		for _, ix := range m.indexes {
			for _, x := range ix.fields {
				used = used || x == f
			}
		}
		h.c.Descf("RF:%s", f)
		err := h.e.RemoveField(bg, "admin", colls[0], f)
		if used {
			if err == nil {
				h.failf("RemoveField(%s) succeeded although an index uses the field", f)
			}
			h.c.Label("schema-removefield-refused")
			break
		}
		if err != nil {
			h.failf("RemoveField(%s): %v", f, err)
		}
		if err := h.e.RemoveField(bg, "admin", colls[1], f); err != nil {
			h.failf("twin RemoveField(%s): %v", f, err)
		}
		delete(m.declared, f)
		for i, x := range m.order {
			if x == f {
				m.order = append(m.order[:i:i], m.order[i+1:]...)
				break
			}
		}
		m.seq++
		h.c.Label("schema-removefield")
	case "createIndex":
		if len(m.order) == 0 || len(m.indexes) >= 4 {
			return
		}
		ix := h.genIndex("ci")
		for _, o := range m.indexes {
			if strings.Join(o.fields, ",") == strings.Join(ix.fields, ",") {
				return
			}
		}
		if ix.unique && len(m.live()) > 0 && excl(kBurntKey) {
			// known finding K19f: the emptiness check runs on a stale snapshot, the outcome depends on when the index was last flushed
			vk.CountExcluded(kBurntKey)
			ix.unique = false
		}
		if ix.unique && len(m.live()) > 0 && len(m.live()) < len(m.docs) && excl(kMasked) {
			// known finding K19k: the emptiness check reads only the first primary-index entry; a deleted document hides the live ones
			vk.CountExcluded(kMasked)
			ix.unique = false
		}
		h.c.Descf("CI:%s", ix)
		err := h.e.CreateIndex(bg, "admin", colls[0], ix.fields, ix.unique)
		if ix.unique && len(m.live()) > 0 {
			if err == nil {
				h.failf("CreateIndex(unique %v) succeeded on a collection with %d live documents", ix.fields, len(m.live()))
			}
			h.c.Label("schema-unique-index-refused")
			break
		}
		if err != nil {
			if ix.unique && len(m.docs) > 0 && errors.Is(err, document.ErrLimitedIndexCreation) {
				// all documents deleted: whether the collection counts as empty is not pinned
				h.c.Label("schema-unique-index-refused")
				break
			}
			h.failf("CreateIndex(%s): %v", ix, err)
		}
		m.indexes = append(m.indexes, ix)
		m.seq++
		h.c.Label("schema-createindex")
		if hadData {
			h.c.Label("schema-createindex-on-data")
		}
	case "deleteIndex":
		if len(m.indexes) == 0 {
			return
		}
		i := rapid.IntRange(0, len(m.indexes)-1).Draw(rt, "dropIndex")
		ix := m.indexes[i]
		h.c.Descf("DI:%s", ix)
		if err := h.e.DeleteIndex(bg, "admin", colls[0], ix.fields); err != nil {
			h.failf("DeleteIndex(%s): %v", ix, err)
		}
		m.indexes = append(m.indexes[:i:i], m.indexes[i+1:]...)
		m.seq++
		h.c.Label("schema-deleteindex")
	}
	if hadData {
		h.schemaEvolved = true
	}
	h.checkListing("schema change " + kind)
}

func (h *harness) genIndex(label string) indexDef {
	rt := h.rt
	n := rapid.SampledFrom([]int{1, 1, 1, 2, 2, 3}).Draw(rt, label+"n")
	var fs []string
	used := map[string]bool{}
	hasString := false
	for i := 0; i < n; i++ {
		f := rapid.SampledFrom(h.m.order).Draw(rt, fmt.Sprintf("%sf%d", label, i))
		if poolType(f) == tSTRING && hasString {
			// two 512-byte STRING columns exceed the 1024-byte index key: such an index is accepted
			// but every later insert fails with "max key length exceeded" (schema limit, not generated)
			continue
		}
		if !used[f] {
			used[f] = true
			fs = append(fs, f)
			hasString = hasString || poolType(f) == tSTRING
		}
	}
	return indexDef{fields: fs, unique: rapid.IntRange(0, 3).Draw(rt, label+"u") == 0}
}

// TestDocHistory: stateful comparison of an indexed collection and its index-free twin with the reference list.
func TestDocHistory(t *testing.T) {
	maxOps := 14
	if vk.Thorough() {
		maxOps = 22
	}
	vk.Check(t, 960, 32000, func(rt *rapid.T, c *vk.Case) {
		st, e, dir, err := openEngine()
		if err != nil {
			rt.Fatalf("open: %v", err)
		}
		defer func() {
			st.Close()
			os.RemoveAll(dir)
		}()
		m := &model{declared: map[string]int{}, burnt: map[string]bool{}, staleExcluded: vk.Excluded(kAddField)}
		h := &harness{rt: rt, c: c, st: st, e: e, m: m}

		// schema
		idf := rapid.SampledFrom([]string{"", "", "_id", "docid", "my-id", "ID"}).Draw(rt, "idField")
		m.idField = idf
		if idf == "" {
			m.idField = document.DefaultDocumentIDField
		}
		nf := rapid.IntRange(0, 6).Draw(rt, "nFields")
		perm := rapid.Permutation(fieldPool).Draw(rt, "fieldPerm")
		for _, f := range perm[:nf] {
			m.declared[f.name] = 0
			m.order = append(m.order, f.name)
		}
		if nf > 0 {
			ni := rapid.SampledFrom([]int{0, 1, 1, 2, 2, 3}).Draw(rt, "nIndexes")
			for i := 0; i < ni; i++ {
				ix := h.genIndex(fmt.Sprintf("ix%d", i))
				dup := false
				for _, o := range m.indexes {
					dup = dup || strings.Join(o.fields, ",") == strings.Join(ix.fields, ",")
				}
				if !dup {
					m.indexes = append(m.indexes, ix)
				}
			}
		}
		var pix []*protomodel.Index
		for _, ix := range m.indexes {
			pix = append(pix, &protomodel.Index{Fields: ix.fields, IsUnique: ix.unique})
			if ix.unique {
				c.Label("schema-unique-index")
			}
			if len(ix.fields) > 1 {
				c.Label("schema-composite-index")
			}
		}
		for _, f := range m.order {
			if strings.Contains(f, ".") {
				c.Label("schema-nested-field")
				break
			}
		}
		c.Descf("id=%s fields=%v idx=%v", m.idField, m.order, m.indexes)
		if err := e.CreateCollection(bg, "admin", colls[0], idf, h.fields(), pix); err != nil {
			h.failf("CreateCollection: %v", err)
		}
		if err := e.CreateCollection(bg, "admin", colls[1], idf, h.fields(), nil); err != nil {
			h.failf("CreateCollection(twin): %v", err)
		}

		nOps := rapid.IntRange(3, maxOps).Draw(rt, "nOps")
		for i := 0; i < nOps; i++ {
			op := rapid.SampledFrom([]string{"insert", "insert", "insert", "insert", "replace", "replace", "delete", "schema", "query", "query"}).Draw(rt, "op")
			if len(m.docs) == 0 && op != "schema" {
				op = "insert"
			}
			switch op {
			case "insert":
				h.opInsert()
			case "replace":
				h.opReplace()
			case "delete":
				h.opDelete()
			case "schema":
				h.opSchema()
			}
			if h.aborted {
				break
			}
			nq := rapid.IntRange(1, 3).Draw(rt, "nQueries")
			for k := 0; k < nq; k++ {
				q := h.genQuery(fmt.Sprintf("q%d", k), true)
				c.Descf("Q%s", q)
				h.checkQuery(q, "generated")
			}
		}
		// final sweep: id lookup and audit trail of every document
		for _, d := range m.docs {
			if h.aborted {
				break
			}
			h.checkByID(d)
			h.checkAudit(d)
		}
		c.Descf("docs=%d live=%d", len(m.docs), len(m.live()))
		if h.strictSubset {
			c.Label("case-strict-subset-query")
		}
		if h.schemaEvolved {
			c.Label("case-schema-evolved-after-data")
		}
		if h.strictSubset || h.schemaEvolved {
			c.NonTrivial()
		}
	})
}
