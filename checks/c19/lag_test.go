package c19

// Unique indexes while the indexer lags: a write that re-uses a unique value is issued IMMEDIATELY after a
// large batch insert (no wait for the indexer, no search in between). The outcome does not depend on timing on
// a correct engine (a duplicate of a live document's key is refused, a freed or fresh key is accepted), so
// nothing about time is asserted: the lag is only provoked.

import (
	"errors"
	"fmt"
	"os"
	"sort"
	"strings"
	"testing"

	"github.com/codenotary/immudb/embedded/document"
	"github.com/codenotary/immudb/pkg/api/protomodel"
	"google.golang.org/protobuf/types/known/structpb"
	"pgregory.net/rapid"

	"verif/internal/vk"
)

type lagDoc struct {
	id    string
	key   int // unique key number
	alive bool
	doc   *structpb.Struct
}

type lagCase struct {
	rt *rapid.T
	c  *vk.Case
	e  *document.Engine

	coll    string
	uniq    []string // fields of the unique index
	fields  []fieldDef
	docs    []*lagDoc
	holder  map[int]*lagDoc // live holder of a unique key
	used    []int           // every key number ever written or attempted
	nextKey int
	serial  int
	salt    int
}

// keyValue: the value of unique-index field f for key number k (distinct k => distinct tuples).
func lagKeyValue(f string, k int) *structpb.Value {
	switch poolType(f) {
	case tINTEGER:
		return structpb.NewNumberValue(float64(k*7 - 1000))
	case tDOUBLE:
		return structpb.NewNumberValue(float64(k) + 0.25)
	case tSTRING:
		return structpb.NewStringValue(fmt.Sprintf("кey-%05d", k))
	case tUUID:
		return structpb.NewStringValue(fmt.Sprintf("00000000-0000-4000-8000-%012d", k))
	case tBOOLEAN:
		return structpb.NewBoolValue(k%2 == 0)
	}
	panic("type")
}

// newDoc: a multi-field document holding unique key k.
func (l *lagCase) newDoc(k int) *structpb.Struct {
	d := &structpb.Struct{Fields: map[string]*structpb.Value{}}
	l.serial++
	// the other fields are derived from the serial number (no generator draws: batches are large);
	// few distinct values so that the plain indexes hold many equal keys
	mix := uint64(l.serial)*0x9E3779B97F4A7C15 + uint64(l.salt)
	for i, f := range l.fields {
		x := int((mix >> (uint(i%8) * 7)) & 0x7f)
		isKey := false
		for _, u := range l.uniq {
			isKey = isKey || u == f.name
		}
		switch {
		case isKey:
			setPath(d, f.name, lagKeyValue(f.name, k))
		case x%10 == 0:
			// missing
		default:
			switch f.typ {
			case tSTRING:
				setPath(d, f.name, structpb.NewStringValue([]string{"original", "duplicate", "é", ""}[x%4]))
			case tINTEGER:
				setPath(d, f.name, structpb.NewNumberValue(float64(x%5-2)))
			case tDOUBLE:
				setPath(d, f.name, structpb.NewNumberValue([]float64{-1.5, 0, 2.5}[x%3]))
			case tBOOLEAN:
				setPath(d, f.name, structpb.NewBoolValue(x%2 == 0))
			case tUUID:
				setPath(d, f.name, structpb.NewStringValue(uuidVals[x%len(uuidVals)]))
			}
		}
	}
	d.Fields["serial"] = structpb.NewNumberValue(float64(l.serial))
	return d
}

func (l *lagCase) failf(format string, args ...any) {
	var live []string
	for _, d := range l.docs {
		if d.alive {
			live = append(live, fmt.Sprintf("k%d:%s", d.key, d.id[len(d.id)-6:]))
		}
	}
	l.c.Failf(l.rt, map[string]any{"unique": l.uniq, "live": strings.Join(live, " ")}, format, args...)
}

func (l *lagCase) keyQuery(k int) *protomodel.Query {
	exp := &protomodel.QueryExpression{}
	for _, f := range l.uniq {
		exp.FieldComparisons = append(exp.FieldComparisons, &protomodel.FieldComparison{Field: f, Operator: opEQ, Value: lagKeyValue(f, k)})
	}
	return &protomodel.Query{CollectionName: l.coll, Expressions: []*protomodel.QueryExpression{exp}}
}

// insertFresh inserts n documents with new keys; it must succeed.
func (l *lagCase) insertFresh(n int, what string) {
	var in []*structpb.Struct
	var ks []int
	var ds []*structpb.Struct
	for i := 0; i < n; i++ {
		k := l.nextKey
		l.nextKey++
		d := l.newDoc(k)
		ks = append(ks, k)
		ds = append(ds, d)
		in = append(in, cloneStruct(d))
	}
	_, ids, err := l.e.InsertDocuments(bg, "lag", l.coll, in)
	if err != nil || len(ids) != n {
		l.failf("%s: insert of %d documents with unused unique keys %d..%d failed: %v", what, n, ks[0], ks[n-1], err)
	}
	for i, k := range ks {
		ld := &lagDoc{id: ids[i].EncodeToHexString(), key: k, alive: true, doc: ds[i]}
		l.docs = append(l.docs, ld)
		l.holder[k] = ld
		l.used = append(l.used, k)
	}
}

func (l *lagCase) liveDocs() []*lagDoc {
	var out []*lagDoc
	for _, d := range l.docs {
		if d.alive {
			out = append(out, d)
		}
	}
	return out
}

// pickLive prefers a document of the most recent batch (the one the indexer is least likely to have seen).
func (l *lagCase) pickLive(label string, recent int) *lagDoc {
	live := l.liveDocs()
	if len(live) == 0 {
		return nil
	}
	if recent > len(live) {
		recent = len(live)
	}
	if recent > 0 && rapid.IntRange(0, 3).Draw(l.rt, label+"recent") > 0 {
		return live[len(live)-1-rapid.IntRange(0, recent-1).Draw(l.rt, label+"r")]
	}
	return live[rapid.IntRange(0, len(live)-1).Draw(l.rt, label+"any")]
}

// TestUniqueUnderLag: several indexes in generated declaration order, big batches, contested writes right behind them.
func TestUniqueUnderLag(t *testing.T) {
	vk.Check(t, 200, 6400, func(rt *rapid.T, c *vk.Case) {
		st, e, dir, err := openEngine()
		if err != nil {
			rt.Fatalf("open: %v", err)
		}
		defer func() {
			st.Close()
			os.RemoveAll(dir)
		}()
		l := &lagCase{rt: rt, c: c, e: e, coll: "lagging", holder: map[int]*lagDoc{}, salt: rapid.IntRange(0, 1<<20).Draw(rt, "salt")}

		// schema: 3-6 declared fields, one unique index and 1-3 plain ones in a generated declaration order
		l.uniq = rapid.SampledFrom([][]string{{"n1"}, {"s1"}, {"f1"}, {"a.n"}, {"u1"}, {"n1", "b1"}, {"b1", "s1"}, {"a.b.s"}}).Draw(rt, "uniqueFields")
		declared := map[string]bool{}
		for _, f := range l.uniq {
			declared[f] = true
		}
		plainPool := [][]string{{"s2"}, {"n2"}, {"b1"}, {"a.s"}, {"f1"}, {"n2", "b1"}, {"a.b.f"}, {"s2", "n2"}, {"n1"}, {"s1"}}
		nPlain := rapid.IntRange(1, 3).Draw(rt, "nPlain")
		var plain [][]string
		for _, p := range rapid.Permutation(plainPool).Draw(rt, "plainPerm") {
			if len(plain) == nPlain {
				break
			}
			if strings.Join(p, ",") == strings.Join(l.uniq, ",") {
				continue
			}
			// at most one 512-byte STRING column per index
			plain = append(plain, p)
			for _, f := range p {
				declared[f] = true
			}
		}
		for _, f := range fieldPool {
			if !declared[f.name] && rapid.IntRange(0, 3).Draw(rt, "extraField:"+f.name) == 0 {
				declared[f.name] = true
			}
		}
		var pfields []*protomodel.Field
		for _, f := range fieldPool {
			if declared[f.name] {
				l.fields = append(l.fields, f)
				pfields = append(pfields, &protomodel.Field{Name: f.name, Type: f.typ})
			}
		}
		pos := rapid.IntRange(0, len(plain)).Draw(rt, "uniquePos")
		var order []*protomodel.Index
		var names []string
		for i := 0; i <= len(plain); i++ {
			if i == pos {
				order = append(order, &protomodel.Index{Fields: l.uniq, IsUnique: true})
				names = append(names, "U("+strings.Join(l.uniq, ",")+")")
			}
			if i < len(plain) {
				order = append(order, &protomodel.Index{Fields: plain[i]})
				names = append(names, "("+strings.Join(plain[i], ",")+")")
			}
		}
		// the first `atCreate` indexes are part of CreateCollection, the others are added (in order) to the still empty collection
		atCreate := rapid.IntRange(0, len(order)).Draw(rt, "atCreate")
		if rapid.Bool().Draw(rt, "allAtCreate") {
			atCreate = len(order)
		}
		c.Descf("fields=%d idx=%v atCreate=%d", len(l.fields), names, atCreate)
		if err := e.CreateCollection(bg, "lag", l.coll, "", pfields, order[:atCreate]); err != nil {
			l.failf("CreateCollection: %v", err)
		}
		for _, ix := range order[atCreate:] {
			if err := e.CreateIndex(bg, "lag", l.coll, ix.Fields, ix.IsUnique); err != nil {
				l.failf("CreateIndex(%v unique=%v) on the empty collection: %v", ix.Fields, ix.IsUnique, err)
			}
		}
		if pos > 0 {
			c.Label("unique-index-after-plain")
		} else {
			c.Label("unique-index-first")
		}
		if len(l.uniq) > 1 {
			c.Label("unique-index-composite")
		}
		if atCreate < len(order) {
			c.Label("index-added-after-create")
		}

		contested := 0
		rounds := rapid.IntRange(2, 4).Draw(rt, "rounds")
		for r := 0; r < rounds; r++ {
			batch := rapid.SampledFrom([]int{30, 50, 50, 80}).Draw(rt, "batch")
			l.insertFresh(batch, "batch")
			c.Descf("B%d", batch)
			// immediately behind the batch: no wait for the indexer, no read
			follow := rapid.IntRange(1, 3).Draw(rt, "follow")
			for f := 0; f < follow; f++ {
				op := rapid.SampledFrom([]string{"dupInsert", "dupInsert", "dupInsert", "dupBatch", "dupReplace", "freshInsert", "deleteThenReuse"}).Draw(rt, "followOp")
				switch op {
				case "dupInsert":
					tgt := l.pickLive("di", batch)
					d := l.newDoc(tgt.key)
					c.Descf("dupInsert:k%d", tgt.key)
					_, _, err := e.InsertDocuments(bg, "lag", l.coll, []*structpb.Struct{cloneStruct(d)})
					if err == nil {
						l.failf("insert of a document re-using the unique value %v=%s of a live document (issued right behind a %d-document batch) was accepted (indexes %v)",
							l.uniq, valStr(lagKeyValue(l.uniq[0], tgt.key)), batch, names)
					}
					if !errors.Is(err, document.ErrConflict) {
						l.failf("duplicate insert failed with %v, want ErrConflict", err)
					}
					contested++
					c.Label("dup-insert-behind-batch")
				case "dupBatch":
					tgt := l.pickLive("db", batch)
					k1, k2 := l.nextKey, l.nextKey+1
					l.nextKey += 2
					l.used = append(l.used, k1, k2)
					in := []*structpb.Struct{l.newDoc(k1), l.newDoc(tgt.key), l.newDoc(k2)}
					c.Descf("dupBatch:k%d", tgt.key)
					_, _, err := e.InsertDocuments(bg, "lag", l.coll, in)
					if err == nil {
						l.failf("insert of 3 documents, one re-using the unique value of a live document (key %d), was accepted (indexes %v)", tgt.key, names)
					}
					if !errors.Is(err, document.ErrConflict) {
						l.failf("duplicate batch insert failed with %v, want ErrConflict", err)
					}
					contested++
					c.Label("dup-batch-behind-batch")
				case "dupReplace":
					tgt := l.pickLive("dr", batch)
					victim := l.pickLive("drv", 0)
					if tgt == victim {
						continue
					}
					d := l.newDoc(tgt.key)
					in := withID(d, document.DefaultDocumentIDField, victim.id)
					c.Descf("dupReplace:k%d->k%d", victim.key, tgt.key)
					_, err := e.ReplaceDocuments(bg, "lag", &protomodel.Query{CollectionName: l.coll}, in)
					if err == nil {
						l.failf("replace giving document k%d the unique value of live document k%d was accepted (indexes %v)", victim.key, tgt.key, names)
					}
					if !errors.Is(err, document.ErrConflict) {
						l.failf("duplicate replace failed with %v, want ErrConflict", err)
					}
					contested++
					c.Label("dup-replace-behind-batch")
				case "freshInsert":
					l.insertFresh(1, "insert behind a batch")
					c.Descf("fresh")
					c.Label("fresh-insert-behind-batch")
				case "deleteThenReuse":
					tgt := l.pickLive("dt", batch)
					q := &protomodel.Query{CollectionName: l.coll, Limit: 1, Expressions: []*protomodel.QueryExpression{{FieldComparisons: []*protomodel.FieldComparison{
						{Field: document.DefaultDocumentIDField, Operator: opEQ, Value: structpb.NewStringValue(tgt.id)}}}}}
					c.Descf("delReuse:k%d", tgt.key)
					if err := e.DeleteDocuments(bg, "lag", q); err != nil {
						l.failf("delete of k%d: %v", tgt.key, err)
					}
					tgt.alive = false
					delete(l.holder, tgt.key)
					d := l.newDoc(tgt.key)
					_, ids, err := e.InsertDocuments(bg, "lag", l.coll, []*structpb.Struct{cloneStruct(d)})
					if err != nil {
						l.failf("the only holder of unique key %d was deleted, the next insert with that key failed: %v", tgt.key, err)
					}
					nd := &lagDoc{id: ids[0].EncodeToHexString(), key: tgt.key, alive: true, doc: d}
					l.docs = append(l.docs, nd)
					l.holder[tgt.key] = nd
					c.Label("reuse-behind-delete")
				}
			}
		}

		// the uniqueness invariant seen through searches and counts
		live := l.liveDocs()
		total, err := e.CountDocuments(bg, &protomodel.Query{CollectionName: l.coll}, 0)
		if err != nil || total != int64(len(live)) {
			l.failf("the collection counts %d documents (err %v), the reference holds %d", total, err, len(live))
		}
		check := map[int]bool{}
		for _, k := range l.used {
			if len(check) < 40 || l.holder[k] == nil {
				check[k] = true
			}
		}
		// every contested key is among the last ones written; always include the keys of the latest documents
		for i := len(l.docs) - 1; i >= 0 && i >= len(l.docs)-60; i-- {
			check[l.docs[i].key] = true
		}
		var keys []int
		for k := range check {
			keys = append(keys, k)
		}
		sort.Ints(keys)
		for _, k := range keys {
			q := l.keyQuery(k)
			cnt, err := e.CountDocuments(bg, q, 0)
			if err != nil {
				l.failf("count by unique key %d: %v", k, err)
			}
			r, err := e.GetDocuments(bg, l.keyQuery(k), 0)
			if err != nil {
				l.failf("search by unique key %d: %v", k, err)
			}
			res, err := r.ReadN(bg, 10)
			r.Close()
			if err != nil && !errors.Is(err, document.ErrNoMoreDocuments) {
				l.failf("search by unique key %d: %v", k, err)
			}
			want := 0
			if l.holder[k] != nil {
				want = 1
			}
			if len(res) != want || cnt != int64(want) {
				var ids []string
				for _, x := range res {
					ids = append(ids, x.DocumentId)
				}
				l.failf("unique index %v: search by %s returns %d documents %v (count %d), the reference holds %d (indexes %v)", l.uniq, valStr(lagKeyValue(l.uniq[0], k)), len(res), ids, cnt, want, names)
			}
			if want == 1 {
				h := l.holder[k]
				if res[0].DocumentId != h.id || !deepEqualStruct(res[0].Document, withID(h.doc, document.DefaultDocumentIDField, h.id)) {
					l.failf("search by unique key %d returned %s, want document %s %s", k, structStr(res[0].Document), h.id, structStr(h.doc))
				}
			}
		}
		c.Descf("docs=%d live=%d contested=%d", len(l.docs), len(live), contested)
		if contested > 0 {
			c.Label("case-contested-write-behind-batch")
			if pos > 0 {
				c.Label("case-contested-write-unique-after-plain")
			}
			c.NonTrivial()
		}
	})
}
