package c12

// Harness: drives the embedded engine, keeps the reference copy, evaluates the
// invariants by full scans through the primary index.

import (
	"context"
	"errors"
	"fmt"
	"os"
	"path/filepath"
	"sort"
	"strings"
	"time"

	"github.com/codenotary/immudb/embedded/sql"
	"github.com/codenotary/immudb/embedded/store"
	"pgregory.net/rapid"

	"verif/internal/sqlgen"
	"verif/internal/vk"
)

type harness struct {
	rt  *rapid.T
	c   *vk.Case
	db  *sqlgen.DB
	dir string
	m   *model // committed reference copy

	log      []string
	paramCtr int
	nameCtr  int
	nStmts   int
	resync   map[string]bool
	rejected map[string]bool // tables on which a statement was rejected for a constraint
	nontriv  bool
	stop     bool // a known finding's class was reached where it cannot be avoided: the case ends

	holderCtr   int
	noVerify    bool // holders are open: the harness runs no query of its own
	ddlBoost    bool // transactions of the window are mostly autocommit DDL
	ddlAccepted int
}

func newHarness(rt *rapid.T, c *vk.Case) *harness {
	dir := vk.Dir()
	db, err := sqlgen.Open(dir, sqlgen.DBOpts{SmallIndexNodes: rapid.Bool().Draw(rt, "smallIndexNodes")})
	if err != nil {
		os.RemoveAll(dir)
		rt.Fatalf("open: %v", err)
	}
	return &harness{rt: rt, c: c, db: db, dir: dir, m: &model{}, resync: map[string]bool{}, rejected: map[string]bool{}}
}

func (h *harness) close() {
	if h.db != nil {
		h.db.Close()
	}
	os.RemoveAll(h.dir)
}

func (h *harness) logf(format string, args ...any) {
	h.log = append(h.log, fmt.Sprintf(format, args...))
}

func (h *harness) dump() any {
	l := h.log
	if len(l) > 120 {
		l = l[len(l)-120:]
	}
	return map[string]any{"history": l}
}

// infra reports an error of the harness itself (never a verdict about immudb):
// the process ends with the driver's infrastructure exit code instead of a VIOLATION.
func (h *harness) infra(format string, args ...any) {
	fmt.Printf("INFRA: C12 harness: %s\n", fmt.Sprintf(format, args...))
	h.close()
	if parent := filepath.Dir(h.dir); strings.HasPrefix(filepath.Base(parent), "verif-") {
		os.RemoveAll(parent)
	}
	os.Exit(2)
}

func (h *harness) failf(format string, args ...any) {
	h.c.Failf(h.rt, h.dump(), format, args...)
}

func errClass(err error) string {
	switch {
	case err == nil:
		return "ok"
	case errors.Is(err, store.ErrTxReadConflict):
		return "read-conflict"
	case errors.Is(err, store.ErrKeyAlreadyExists):
		return "key-exists"
	case errors.Is(err, sql.ErrNotNullableColumnCannotBeNull), errors.Is(err, sql.ErrPKCanNotBeNull):
		return "not-null"
	case errors.Is(err, sql.ErrCheckConstraintViolation):
		return "check"
	case errors.Is(err, sql.ErrMaxLengthExceeded):
		return "max-length"
	case errors.Is(err, sql.ErrPKCanNotBeUpdated):
		return "pk-update"
	case errors.Is(err, sql.ErrLimitedIndexCreation):
		return "unique-index-nonempty"
	case errors.Is(err, sql.ErrInvalidValue):
		return "invalid-value"
	}
	return "other"
}

func short(err error) string {
	if err == nil {
		return "ok"
	}
	s := err.Error()
	if len(s) > 140 {
		s = s[:140] + "…"
	}
	return "ERR " + s
}

func (h *harness) exec(tx *sql.SQLTx, text string, args map[string]interface{}) (*sql.SQLTx, []*sql.SQLTx, error) {
	if os.Getenv("C12_DEBUG") != "" {
		done := make(chan struct{})
		defer close(done)
		go func() {
			select {
			case <-done:
			case <-time.After(90 * time.Second):
				fmt.Fprintf(os.Stderr, "STUCK for 90 s in: %s\nhistory:\n%s\n", text, strings.Join(h.log, "\n"))
			}
		}()
	}
	return h.db.Eng.Exec(context.Background(), tx, text, args)
}

// ddl runs a set-up statement that must succeed.
func (h *harness) ddl(text string) {
	_, _, err := h.exec(nil, text, nil)
	h.logf("%s -> %s", text, short(err))
	if err != nil {
		// a schema the generator believes valid was refused: generator/harness problem, not a verdict
		h.rt.Fatalf("set-up statement failed: %s: %v", text, err)
	}
}

func (h *harness) setupSchema(nTables int, forConc bool) map[string]*[]index {
	later := map[string]*[]index{}
	for i := 1; i <= nTables; i++ {
		t, l := genTable(h.rt, fmt.Sprintf("t%d", i), forConc)
		h.ddl(t.createSQL())
		for i, ix := range t.indexes {
			h.ddl(indexSQL(t, ix))
			t.indexes[i].names = ixName(t, ix)
		}
		h.m.tables = append(h.m.tables, t)
		ll := l
		later[t.name] = &ll
		h.c.Descf("%s", t.createSQL())
		for _, ix := range t.indexes {
			h.c.Descf("%s", indexSQL(t, ix))
		}
		if t.autoCol() != nil {
			h.c.Label("schema-auto-increment")
		}
		if t.hasUnique() {
			h.c.Label("schema-unique-index")
		}
		if len(t.checks) > 0 {
			h.c.Label("schema-check")
		}
		if len(t.pk) > 1 {
			h.c.Label("schema-composite-pk")
		}
	}
	return later
}

// ---------------------------------------------------------------------------
// invariants

func rowFromScan(t *table, vals []V) row {
	r := row{}
	for i, c := range t.cols {
		if i < len(vals) && !vals[i].Null {
			r[c.id] = vals[i]
		}
	}
	return r
}

func sameValue(c col, a V, aok bool, b V, bok bool) bool {
	if aok != bok {
		return false
	}
	if !aok {
		return true
	}
	if c.typ == sqlgen.TJSON {
		return true // the engine normalises JSON text; only NULL-ness is compared
	}
	return a.Key() == b.Key()
}

// verify evaluates the invariants of the property on the committed state and
// compares it with the reference copy.
func (h *harness) verify(when string) {
	if h.noVerify {
		return
	}
	for _, t := range h.m.tables {
		q := "SELECT * FROM " + t.name
		res, err := sqlgen.QueryEngine(h.db.Eng, nil, q, nil)
		if err != nil {
			h.failf("%s: full scan of %s failed: %v", when, t.name, err)
		}
		if !res.PK {
			h.infra("%q was not served by the primary index (%q)", q, res.Index)
		}
		if len(res.Cols) != len(t.cols) {
			h.failf("%s: table %s has columns %v, the reference has %d columns (effects of a failed/rolled-back DDL visible?)", when, t.name, res.Cols, len(t.cols))
		}
		for i, c := range t.cols {
			if want := "(" + t.name + "." + c.name + ")"; res.Cols[i] != want {
				h.failf("%s: table %s column %d is %s, reference says %s", when, t.name, i, res.Cols[i], want)
			}
		}
		seenPK := map[string]row{}
		uniq := make([]map[string]string, len(t.indexes))
		for i := range uniq {
			uniq[i] = map[string]string{}
		}
		for _, vals := range res.Rows {
			r := rowFromScan(t, vals)
			for i, c := range t.cols {
				v := vals[i]
				if v.Null {
					if c.notNull || t.isPK(c.id) {
						h.failf("%s: committed row %s of %s holds NULL in NOT NULL column %s", when, fmtRow(t, r), t.name, c.name)
					}
					continue
				}
				if v.T != c.typ {
					h.failf("%s: committed row %s of %s holds a %v in %s column %s", when, fmtRow(t, r), t.name, v.T, c.typ, c.name)
				}
				if c.typ.VarSized() && c.maxLen > 0 {
					n := len(v.S)
					if c.typ == sqlgen.TBlob {
						n = len(v.Bs)
					}
					if n > c.maxLen {
						h.failf("%s: committed row %s of %s holds %d bytes in %s[%d]", when, fmtRow(t, r), t.name, n, c.name, c.maxLen)
					}
				}
			}
			pk, ok := t.pkKeyOf(r)
			if !ok {
				h.failf("%s: committed row %s of %s has a NULL primary key", when, fmtRow(t, r), t.name)
			}
			if other, dup := seenPK[pk]; dup {
				h.failf("%s: two live rows of %s share primary key %s: %s and %s", when, t.name, pk, fmtRow(t, other), fmtRow(t, r))
			}
			seenPK[pk] = r
			for i, ix := range t.indexes {
				if !ix.unique {
					continue
				}
				if k, nn := projKey(ix, r); nn {
					if other, dup := uniq[i][k]; dup {
						h.failf("%s: two live rows of %s share the key %s of unique index (%s): primary keys %s and %s", when, t.name, k, ixName(t, ix), other, pk)
					}
					uniq[i][k] = pk
				}
			}
			for _, ck := range t.checks {
				if ck.e.eval(r) == tFalse {
					h.failf("%s: committed row %s of %s violates CHECK (%s)", when, fmtRow(t, r), t.name, ck.e.sql(t))
				}
			}
		}
		// CHECKs once more, evaluated by the engine itself
		for _, ck := range t.checks {
			var pkNames []string
			for _, p := range t.pk {
				pkNames = append(pkNames, cname(t, p))
			}
			nq := fmt.Sprintf("SELECT %s FROM %s WHERE NOT (%s)", strings.Join(pkNames, ", "), t.name, ck.e.sql(t))
			nres, err := sqlgen.QueryEngine(h.db.Eng, nil, nq, nil)
			if err != nil {
				h.failf("%s: %s failed: %v", when, nq, err)
			}
			if len(nres.Rows) > 0 {
				h.failf("%s: %s returns %d committed rows (first %s)", when, nq, len(nres.Rows), sqlgen.RowKey(nres.Rows[0]))
			}
		}
		if h.resync[t.name] {
			t.rows = map[string]row{}
			for pk, r := range seenPK {
				t.store(pk, r)
			}
			delete(h.resync, t.name)
			h.c.Label("resynced-from-scan")
			continue
		}
		// reference copy
		if len(seenPK) != len(t.rows) {
			h.failf("%s: table %s holds %d rows, the reference copy %d: %s", when, t.name, len(seenPK), len(t.rows), h.diff(t, seenPK))
		}
		for pk, want := range t.rows {
			got, ok := seenPK[pk]
			if !ok {
				h.failf("%s: table %s differs from the reference copy: %s", when, t.name, h.diff(t, seenPK))
			}
			for _, c := range t.cols {
				a, aok := got[c.id]
				b, bok := want[c.id]
				if !sameValue(c, a, aok, b, bok) {
					h.failf("%s: table %s differs from the reference copy: %s", when, t.name, h.diff(t, seenPK))
				}
			}
		}
	}
}

func (h *harness) diff(t *table, got map[string]row) string {
	var out []string
	keys := map[string]bool{}
	for k := range got {
		keys[k] = true
	}
	for k := range t.rows {
		keys[k] = true
	}
	var ks []string
	for k := range keys {
		ks = append(ks, k)
	}
	sort.Strings(ks)
	for _, k := range ks {
		g, gok := got[k]
		w, wok := t.rows[k]
		switch {
		case !gok:
			out = append(out, "missing "+fmtRow(t, w))
		case !wok:
			out = append(out, "unexpected "+fmtRow(t, g))
		default:
			same := true
			for _, c := range t.cols {
				a, aok := g[c.id]
				b, bok := w[c.id]
				if !sameValue(c, a, aok, b, bok) {
					same = false
				}
			}
			if !same {
				out = append(out, "found "+fmtRow(t, g)+" expected "+fmtRow(t, w))
			}
		}
		if len(out) >= 6 {
			break
		}
	}
	return strings.Join(out, "; ")
}

// ---------------------------------------------------------------------------
// sequential transactions

func (h *harness) isExcluded(id string) bool { return vk.Excluded(id) }

// skipKnown: every violation of the statement is the class of an excluded
// known finding: the statement is left out (counted).
func (h *harness) skipKnown(o *outcome) bool {
	ids := o.knownOnly(h.isExcluded)
	for _, id := range ids {
		vk.CountExcluded(id)
		h.c.Label("excluded-" + id)
	}
	return len(ids) > 0
}

func (h *harness) labelStmt(s *stmt, o *outcome) {
	h.c.Label("stmt-" + s.kind.String())
	for _, n := range o.notes {
		h.c.Label(n)
	}
	if s.nAuto > 0 {
		h.c.Label("auto-increment-insert")
	}
	if len(s.args) > 0 {
		h.c.Label("with-params")
	}
}

// noteResult keeps the statistics the non-trivial rule needs.
func (h *harness) noteResult(tbl string, o *outcome, err error) {
	if err != nil {
		if sm := o.soundMust(h.isExcluded); sm != nil {
			for _, cl := range o.classes() {
				h.c.Label("rejected-" + cl)
			}
			h.rejected[tbl] = true
		} else if len(o.mays) > 0 || o.expectErr != "" {
			h.c.Label("rejected-undetermined-or-documented")
		} else if errClass(err) != "read-conflict" {
			h.c.Label("rejected-unexpected-" + errClass(err))
			h.c.Descf("UNEXPECTED-REJECT %s", short(err))
			if os.Getenv("C12_DEBUG") != "" {
				fmt.Fprintln(os.Stderr, "UNEXPECTED:", lastLog(h.log))
			}
		}
		return
	}
	if h.rejected[tbl] {
		h.nontriv = true
	}
}

func autoKeysFrom(tx *sql.SQLTx, s *stmt) []int64 {
	last, ok := tx.LastInsertedPKs()[s.tbl]
	if !ok {
		return nil
	}
	keys := make([]int64, s.nAuto)
	for i := range keys {
		keys[i] = last - int64(s.nAuto-1-i)
	}
	return keys
}

// checkAccepted is called when the engine accepted s although the reference
// says it violates a constraint.
func (h *harness) checkAccepted(s *stmt, o *outcome, where string) {
	if sm := o.soundMust(h.isExcluded); sm != nil {
		h.failf("%s: statement accepted although it violates a constraint (%s): %s  [%s]", where, sm.class, s.text, sm.what)
	}
}

// runTx generates and runs one transaction of the sequential history.
func (h *harness) runTx(later map[string]*[]index, allowDDL bool) {
	rt := h.rt
	form := weighted(rt, "txForm", []wc{{"auto", 40}, {"interactive", 32}, {"oneshot", 20}, {"newtx", 8}})
	if h.ddlBoost && chance(rt, "windowAuto", 85) {
		form = "auto"
	}
	n := 1
	if form != "auto" {
		n = rapid.IntRange(2, 5).Draw(rt, "txLen")
	}
	h.c.Label("tx-" + form)
	work := h.m.clone()
	work.beginTx()
	params := chance(rt, "params", 25)
	violRate := rapid.SampledFrom([]int{0, 3, 3, 8}).Draw(rt, "violRate")
	opts := genOpts{inTx: form != "auto", oneShot: form == "oneshot", violRate: violRate}
	ctx := context.Background()

	var tx *sql.SQLTx
	var err error
	switch form {
	case "interactive":
		tx, _, err = h.exec(nil, "BEGIN TRANSACTION", nil)
		h.logf("BEGIN TRANSACTION -> %s", short(err))
	case "newtx":
		tx, err = h.db.Eng.NewTx(ctx, sql.DefaultTxOptions().WithExplicitClose(true))
		h.logf("engine.NewTx -> %s", short(err))
	}
	if err != nil {
		h.failf("cannot open a transaction: %v", err)
	}

	var stmts []*stmt
	var outs []outcome
	touched := map[string]bool{}
	aborted := false
	var resyncTables []string
	for i := 0; i < n && !aborted; i++ {
		t := work.tables[rapid.IntRange(0, len(work.tables)-1).Draw(rt, "table")]
		var s *stmt
		ddlPct := map[string]int{"auto": 14, "interactive": 10, "newtx": 10}[form]
		if h.ddlBoost && form == "auto" {
			ddlPct = 75
		}
		if allowDDL && form != "oneshot" && chance(rt, "ddlInTx", ddlPct) {
			s = h.genDDL(rt, t, later[t.name], form != "auto")
		} else {
			s = h.genDML(rt, t, opts)
		}
		if s == nil {
			continue
		}
		h.render(t, s, params && !s.kind.ddl())
		pre := work.clone()
		o := pre.apply(s)
		if h.skipKnown(&o) {
			continue
		}
		h.nStmts++
		h.c.Descf("%s", s.text)
		h.labelStmt(s, &o)
		stmts = append(stmts, s)
		outs = append(outs, o)
		touched[s.tbl] = true
		if form == "oneshot" {
			if o.soundMust(h.isExcluded) != nil || o.endTx {
				break // the rest of the block would never run / cannot be followed
			}
			work = pre
			continue
		}
		// run it
		var ntx *sql.SQLTx
		var committed []*sql.SQLTx
		switch form {
		case "newtx":
			var parsed []sql.SQLStmt
			parsed, err = sql.ParseSQLString(s.text)
			if err == nil {
				ntx, committed, err = h.db.Eng.ExecPreparedStmts(ctx, tx, parsed, s.args)
			}
		default:
			ntx, committed, err = h.exec(tx, s.text, s.args)
		}
		h.logf("%s %v -> %s", s.text, s.args, short(err))
		h.noteResult(s.tbl, &o, err)
		if err != nil {
			if errors.Is(err, sql.ErrParsingError) {
				h.infra("generated statement does not parse: %s: %v", s.text, err)
			}
			if s.kind == kInsert && s.nAuto > 0 && errors.Is(err, store.ErrKeyAlreadyExists) && tx != nil {
				// which key did the engine generate for the row it refused?
				if last, ok := tx.LastInsertedPKs()[s.tbl]; ok {
					wt := work.table(s.tbl)
					// "last" is the key of the row that failed (keys of earlier rows of the statement are smaller and new)
					if r, taken := wt.rows[sqlgen.Int(last).Key()]; taken {
						h.failf("auto-generated key %d of %s collides with the existing row %s (the statement failed with %q)", last, s.text, fmtRow(wt, r), err)
					}
				}
			}
			aborted = true
			if tx != nil && !tx.Closed() {
				h.failf("a failed statement left its transaction open: %s: %v", s.text, err)
			}
			break
		}
		h.checkAccepted(s, &o, "at once")
		src := ntx
		if form == "auto" {
			if len(committed) == 0 {
				src = nil
			} else {
				src = committed[len(committed)-1]
			}
		}
		if s.nAuto > 0 {
			if src == nil {
				h.failf("no transaction reports the generated keys of %s", s.text)
			}
			s.autoKeys = autoKeysFrom(src, s)
			if s.autoKeys == nil {
				h.failf("LastInsertedPKs has no entry for %s after %s", s.tbl, s.text)
			}
			post := work.clone()
			o2 := post.apply(s)
			if sm := o2.soundMust(h.isExcluded); sm != nil {
				h.failf("auto-generated keys %v of %s collide or break a constraint (%s): %s", s.autoKeys, s.text, sm.class, sm.what)
			}
			work = post
		} else {
			work = pre
		}
		if o.resync {
			resyncTables = append(resyncTables, s.tbl)
		}
		if s.kind.ddl() && form == "auto" {
			h.ddlAccepted++
			if s.kind == kCreateIndex && s.ix.unique && h.noVerify {
				h.c.Label("unique-index-created-while-a-holder-is-open")
			}
		}
		if o.expectErr != "" {
			h.c.Label("accepted-where-engine-documents-refusal")
			h.c.Descf("ACCEPTED(%s)", o.expectErr)
		}
		if o.endTx {
			h.c.Label("tx-ended-reference-cannot-follow")
			i = n
		}
		if o.stopCase {
			h.stop = true
			h.c.Label("case-ended-constraints-undefined")
			if tx != nil && !tx.Closed() {
				tx.Cancel()
			}
			return
		}
	}

	commit := !aborted
	switch form {
	case "oneshot":
		if len(stmts) == 0 {
			return
		}
		var texts []string
		args := map[string]interface{}{}
		for _, s := range stmts {
			texts = append(texts, s.text)
			for k, v := range s.args {
				args[k] = v
			}
		}
		text := "BEGIN TRANSACTION; " + strings.Join(texts, "; ") + "; COMMIT;"
		_, committed, err := h.exec(nil, text, args)
		h.logf("%s %v -> %s", text, args, short(err))
		if err != nil && errors.Is(err, sql.ErrParsingError) {
			h.infra("generated block does not parse: %s: %v", text, err)
		}
		var firstMust *outcome
		for i := range outs {
			if outs[i].soundMust(h.isExcluded) != nil {
				firstMust = &outs[i]
			}
		}
		if err != nil {
			o := &outcome{}
			for i := range outs {
				o.mays = append(o.mays, outs[i].mays...)
				if outs[i].expectErr != "" {
					o.expectErr = outs[i].expectErr
				}
			}
			if firstMust != nil {
				o = firstMust
			}
			for tbl := range touched {
				h.noteResult(tbl, o, err)
				break
			}
			commit = false
			break
		}
		// (the verdict on an accepted block is taken below, from the replay with the generated keys: the
		// first pass ran on placeholder keys)
		// generated keys: consecutive from FirstInsertedPKs
		next := map[string]int64{}
		if len(committed) > 0 {
			for tbl, first := range committed[len(committed)-1].FirstInsertedPKs() {
				next[tbl] = first
			}
		}
		work = h.m.clone()
		work.beginTx()
		for i, s := range stmts {
			if s.nAuto > 0 {
				first, ok := next[s.tbl]
				if !ok {
					h.failf("FirstInsertedPKs has no entry for %s after %s", s.tbl, text)
				}
				s.autoKeys = make([]int64, s.nAuto)
				for k := range s.autoKeys {
					s.autoKeys[k] = first + int64(k)
				}
				next[s.tbl] = first + int64(s.nAuto)
			}
			o2 := work.apply(s)
			if sm := o2.soundMust(h.isExcluded); sm != nil {
				h.failf("committed BEGIN…COMMIT block: statement %d (%s) was accepted although it violates a constraint (%s) (generated keys %v): %s", i, s.text, sm.class, s.autoKeys, sm.what)
			}
			if h.skipKnown(&o2) || o2.endTx {
				// only visible with the real keys: the reference cannot follow
				h.c.Label("case-ended-at-known-finding")
				h.stop = true
				return
			}
			h.noteResult(s.tbl, &o2, nil)
			if o2.resync {
				resyncTables = append(resyncTables, s.tbl)
			}
		}
	case "interactive", "newtx":
		if aborted {
			break
		}
		rollbackPct := 12
		for _, st := range stmts {
			if st.kind == kDropCheck {
				rollbackPct = 50 // a dropped constraint must come back with the rollback
				h.c.Label("drop-constraint-in-transaction")
			}
		}
		if chance(rt, "rollback", rollbackPct) {
			commit = false
			_, _, err := h.exec(tx, "ROLLBACK", nil)
			h.logf("ROLLBACK -> %s", short(err))
			h.c.Label("explicit-rollback")
			if err != nil {
				h.failf("ROLLBACK failed: %v", err)
			}
			break
		}
		if form == "newtx" {
			err = tx.Commit(ctx)
		} else {
			_, _, err = h.exec(tx, "COMMIT", nil)
		}
		h.logf("COMMIT -> %s", short(err))
		if err != nil {
			h.c.Label("commit-error-" + errClass(err))
			h.c.Descf("COMMIT-ERROR %s", short(err))
			commit = false
		}
	}
	if commit {
		h.m = work
		for _, tbl := range resyncTables {
			h.resync[tbl] = true
		}
		h.c.Label("tx-committed")
		h.verify("after commit of [" + lastLog(h.log) + "]")
	} else {
		h.c.Label("tx-aborted")
		h.verify("after the aborted transaction ending with [" + lastLog(h.log) + "]")
	}
}

func lastLog(l []string) string {
	if len(l) == 0 {
		return ""
	}
	s := l[len(l)-1]
	if len(s) > 300 {
		s = s[:300] + "…"
	}
	return s
}
