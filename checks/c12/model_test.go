package c12

// Reference model of the tables: declared constraints, the live rows, every
// row version ever stored (needed to describe known finding K12a exactly) and a
// reference interpreter of the DDL/DML subset the generators emit.

import (
	"fmt"
	"sort"
	"strings"

	"verif/internal/sqlgen"
)

type V = sqlgen.Value

type tri int

const (
	tFalse tri = iota
	tTrue
	tUnk // depends on how NULL compares (or on an evaluation error): not asserted
)

func triOf(b bool) tri {
	if b {
		return tTrue
	}
	return tFalse
}

type col struct {
	id      int
	name    string
	typ     sqlgen.Type
	maxLen  int
	notNull bool
	autoInc bool
	pool    []V
	small   bool // INTEGER whose values stay small: arithmetic cannot overflow
}

type index struct {
	cols   []int
	unique bool
	names  string // column names when the index was created / when the running transaction began
	fresh  bool   // created by the running transaction
}

type check struct {
	e     expr
	name  string // constraint name in the catalog (declared, or the engine's <table>_check<n>)
	named bool   // declared with CONSTRAINT <name>
}

// row maps column id -> non-NULL value. A stored row is never mutated.
type row map[int]V

type table struct {
	name     string
	cols     []col
	pk       []int
	indexes  []index
	checks   []check
	rows     map[string]row
	versions map[string][]row // every version of every primary key ever stored
	txKeys   map[string]bool  // unique keys written by the running transaction
	wrote    bool             // written by the running transaction
	txFreed   map[string]bool // unique keys whose holder was deleted / moved by the running transaction
	txDeleted map[string]bool // primary keys deleted by the running transaction
	explicitAuto bool         // the running transaction wrote an explicit value into the AUTO_INCREMENT key
	nextCol  int
	ph       int64 // placeholder keys handed out while the generated ones are unknown
	dropped  []col
}

type model struct{ tables []*table }

func (m *model) clone() *model {
	n := &model{}
	for _, t := range m.tables {
		n.tables = append(n.tables, t.clone())
	}
	return n
}

func (m *model) beginTx() {
	for _, t := range m.tables {
		t.txKeys = map[string]bool{}
		t.txFreed = map[string]bool{}
		t.txDeleted = map[string]bool{}
		t.explicitAuto = false
		t.wrote = false
		for i, ix := range t.indexes {
			t.indexes[i].names = ixName(t, ix) // every transaction starts from the stored catalog
			t.indexes[i].fresh = false
		}
	}
}

func (m *model) table(name string) *table {
	for _, t := range m.tables {
		if t.name == name {
			return t
		}
	}
	return nil
}

func (t *table) clone() *table {
	n := *t
	n.cols = append([]col(nil), t.cols...)
	n.pk = append([]int(nil), t.pk...)
	n.indexes = append([]index(nil), t.indexes...)
	n.checks = append([]check(nil), t.checks...)
	n.dropped = append([]col(nil), t.dropped...)
	n.rows = make(map[string]row, len(t.rows))
	for k, r := range t.rows {
		n.rows[k] = r
	}
	n.versions = make(map[string][]row, len(t.versions))
	for k, vs := range t.versions {
		n.versions[k] = vs[:len(vs):len(vs)]
	}
	n.txKeys = make(map[string]bool, len(t.txKeys))
	for k := range t.txKeys {
		n.txKeys[k] = true
	}
	n.txFreed = make(map[string]bool, len(t.txFreed))
	for k := range t.txFreed {
		n.txFreed[k] = true
	}
	n.txDeleted = make(map[string]bool, len(t.txDeleted))
	for k := range t.txDeleted {
		n.txDeleted[k] = true
	}
	return &n
}

func (t *table) col(id int) *col {
	for i := range t.cols {
		if t.cols[i].id == id {
			return &t.cols[i]
		}
	}
	return nil
}

func (t *table) colByName(name string) *col {
	for i := range t.cols {
		if t.cols[i].name == name {
			return &t.cols[i]
		}
	}
	return nil
}

func (t *table) isPK(id int) bool {
	for _, p := range t.pk {
		if p == id {
			return true
		}
	}
	return false
}

// indexed: member of a secondary index.
func (t *table) indexed(id int) bool {
	for _, ix := range t.indexes {
		for _, c := range ix.cols {
			if c == id {
				return true
			}
		}
	}
	return false
}

func (t *table) inCheck(id int) bool {
	refs := map[int]bool{}
	for _, ck := range t.checks {
		ck.e.refs(refs)
	}
	return refs[id]
}

func (t *table) hasUnique() bool {
	for _, ix := range t.indexes {
		if ix.unique {
			return true
		}
	}
	return false
}

func (t *table) inUnique(id int) bool {
	for _, ix := range t.indexes {
		if !ix.unique {
			continue
		}
		for _, c := range ix.cols {
			if c == id {
				return true
			}
		}
	}
	return false
}

func (t *table) autoCol() *col {
	if len(t.pk) == 1 {
		if c := t.col(t.pk[0]); c != nil && c.autoInc {
			return c
		}
	}
	return nil
}

func (t *table) pkKeyOf(r row) (string, bool) {
	parts := make([]string, len(t.pk))
	for i, p := range t.pk {
		v, ok := r[p]
		if !ok {
			return "", false
		}
		parts[i] = v.Key()
	}
	return strings.Join(parts, "|"), true
}

func (t *table) cmpPK(a, b row) int {
	for _, p := range t.pk {
		if c := sqlgen.Compare(a[p], b[p]); c != 0 {
			return c
		}
	}
	return 0
}

// sortedPKs lists the live primary keys in key order.
func (t *table) sortedPKs() []string {
	ks := make([]string, 0, len(t.rows))
	for k := range t.rows {
		ks = append(ks, k)
	}
	sort.Slice(ks, func(i, j int) bool { return t.cmpPK(t.rows[ks[i]], t.rows[ks[j]]) < 0 })
	return ks
}

// projKey is the canonical text of r's values of the index columns;
// allNonNull is false when one of them is NULL.
func projKey(ix index, r row) (key string, allNonNull bool) {
	parts := make([]string, len(ix.cols))
	allNonNull = true
	for i, c := range ix.cols {
		v, ok := r[c]
		if !ok {
			parts[i] = "∅"
			allNonNull = false
			continue
		}
		parts[i] = v.Key()
	}
	return strings.Join(parts, "|"), allNonNull
}

func ixName(t *table, ix index) string {
	ns := make([]string, len(ix.cols))
	for i, c := range ix.cols {
		if cc := t.col(c); cc != nil {
			ns[i] = cc.name
		} else {
			ns[i] = fmt.Sprintf("#%d", c)
		}
	}
	return strings.Join(ns, ",")
}

func (t *table) freeKeys(old row) {
	for _, ix := range t.indexes {
		if ix.unique {
			k, _ := projKey(ix, old)
			t.txFreed[ixName(t, ix)+"="+k] = true
		}
	}
}

func (t *table) store(pk string, r row) {
	if old, ok := t.rows[pk]; ok {
		t.freeKeys(old)
	}
	delete(t.txDeleted, pk)
	t.rows[pk] = r
	vs := t.versions[pk]
	t.versions[pk] = append(vs[:len(vs):len(vs)], r)
	t.wrote = true
}

// tombstoneFirst describes known finding K12a: among the entries the unique
// index ix ever held under key, the one with the smallest primary key is not
// live any more (its row was deleted or moved to another key).
func (t *table) tombstoneFirst(ix index, key string) bool {
	var min row
	for _, vs := range t.versions {
		for _, v := range vs {
			if k, nn := projKey(ix, v); nn && k == key {
				if min == nil || t.cmpPK(v, min) < 0 {
					min = v
				}
				break
			}
		}
	}
	if min == nil {
		return false
	}
	pk, _ := t.pkKeyOf(min)
	live, ok := t.rows[pk]
	if !ok {
		return true
	}
	k, nn := projKey(ix, live)
	return !nn || k != key
}

// everHeld: some other primary key held this unique key in the past.
func (t *table) everHeld(ix index, key, pk string) bool {
	for opk, vs := range t.versions {
		if opk == pk {
			continue
		}
		for _, v := range vs {
			if k, nn := projKey(ix, v); nn && k == key {
				return true
			}
		}
	}
	return false
}

// firstPKDead describes known finding K12c: the table has live rows but the
// smallest primary key ever stored is not live.
func (t *table) firstPKDead() bool {
	if len(t.rows) == 0 {
		return false
	}
	var min row
	for _, vs := range t.versions {
		if len(vs) > 0 && (min == nil || t.cmpPK(vs[0], min) < 0) {
			min = vs[0]
		}
	}
	if min == nil {
		return false
	}
	pk, _ := t.pkKeyOf(min)
	_, ok := t.rows[pk]
	return !ok
}

// ---------------------------------------------------------------------------
// expressions (CHECK constraints and WHERE clauses)

type expr interface {
	sql(t *table) string
	eval(r row) tri
	refs(m map[int]bool)
}

func cmpHolds(op string, c int) bool {
	switch op {
	case "=":
		return c == 0
	case "<>":
		return c != 0
	case "<":
		return c < 0
	case "<=":
		return c <= 0
	case ">":
		return c > 0
	case ">=":
		return c >= 0
	}
	panic("op " + op)
}

func cname(t *table, id int) string {
	if c := t.col(id); c != nil {
		return c.name
	}
	for _, c := range t.dropped {
		if c.id == id {
			return c.name
		}
	}
	return fmt.Sprintf("col%d", id)
}

type cmpLit struct {
	c  int
	op string
	v  V
}

func (e *cmpLit) sql(t *table) string { return cname(t, e.c) + " " + e.op + " " + e.v.SQL() }
func (e *cmpLit) refs(m map[int]bool) { m[e.c] = true }
func (e *cmpLit) eval(r row) tri {
	v, ok := r[e.c]
	if !ok {
		return tUnk
	}
	return triOf(cmpHolds(e.op, sqlgen.Compare(v, e.v)))
}

type cmpCol struct {
	a  int
	op string
	b  int
}

func (e *cmpCol) sql(t *table) string { return cname(t, e.a) + " " + e.op + " " + cname(t, e.b) }
func (e *cmpCol) refs(m map[int]bool) { m[e.a], m[e.b] = true, true }
func (e *cmpCol) eval(r row) tri {
	x, ok1 := r[e.a]
	y, ok2 := r[e.b]
	if !ok1 || !ok2 {
		return tUnk
	}
	return triOf(cmpHolds(e.op, sqlgen.Compare(x, y)))
}

// sumCmp is (a + b) op v over two small INTEGER columns.
type sumCmp struct {
	a, b int
	op   string
	v    int64
}

func (e *sumCmp) sql(t *table) string {
	return fmt.Sprintf("(%s + %s) %s %d", cname(t, e.a), cname(t, e.b), e.op, e.v)
}
func (e *sumCmp) refs(m map[int]bool) { m[e.a], m[e.b] = true, true }
func (e *sumCmp) eval(r row) tri {
	x, ok1 := r[e.a]
	y, ok2 := r[e.b]
	if !ok1 || !ok2 {
		return tUnk
	}
	return triOf(cmpHolds(e.op, sqlgen.Compare(sqlgen.Int(x.I+y.I), sqlgen.Int(e.v))))
}

type isNull struct {
	c   int
	not bool
}

func (e *isNull) sql(t *table) string {
	if e.not {
		return cname(t, e.c) + " IS NOT NULL"
	}
	return cname(t, e.c) + " IS NULL"
}
func (e *isNull) refs(m map[int]bool) { m[e.c] = true }
func (e *isNull) eval(r row) tri {
	_, ok := r[e.c]
	return triOf(ok == e.not)
}

type inList struct {
	c  int
	vs []V
}

func (e *inList) sql(t *table) string {
	parts := make([]string, len(e.vs))
	for i, v := range e.vs {
		parts[i] = v.SQL()
	}
	return cname(t, e.c) + " IN (" + strings.Join(parts, ", ") + ")"
}
func (e *inList) refs(m map[int]bool) { m[e.c] = true }
func (e *inList) eval(r row) tri {
	v, ok := r[e.c]
	if !ok {
		return tUnk
	}
	for _, x := range e.vs {
		if sqlgen.Compare(v, x) == 0 {
			return tTrue
		}
	}
	return tFalse
}

type logic struct {
	op   string // AND, OR
	l, r expr
}

func (e *logic) sql(t *table) string {
	return "(" + e.l.sql(t) + ") " + e.op + " (" + e.r.sql(t) + ")"
}
func (e *logic) refs(m map[int]bool) { e.l.refs(m); e.r.refs(m) }
func (e *logic) eval(r row) tri {
	a, b := e.l.eval(r), e.r.eval(r)
	if e.op == "AND" {
		switch {
		case a == tFalse || b == tFalse:
			return tFalse
		case a == tTrue && b == tTrue:
			return tTrue
		}
		return tUnk
	}
	switch {
	case a == tTrue || b == tTrue:
		return tTrue
	case a == tFalse && b == tFalse:
		return tFalse
	}
	return tUnk
}

type notExpr struct{ e expr }

func (e *notExpr) sql(t *table) string { return "NOT (" + e.e.sql(t) + ")" }
func (e *notExpr) refs(m map[int]bool) { e.e.refs(m) }
func (e *notExpr) eval(r row) tri {
	switch e.e.eval(r) {
	case tTrue:
		return tFalse
	case tFalse:
		return tTrue
	}
	return tUnk
}

// ---------------------------------------------------------------------------
// statements

type stmtKind int

const (
	kInsert stmtKind = iota
	kUpsert
	kInsertIgnore
	kInsertUpdate
	kUpdate
	kDelete
	kCreateIndex
	kAddCol
	kDropCol
	kRenameCol
	kDropCheck
)

func (k stmtKind) String() string {
	return [...]string{"insert", "upsert", "insert-do-nothing", "insert-do-update", "update", "delete", "create-index", "add-column", "drop-column", "rename-column", "drop-constraint"}[k]
}

func (k stmtKind) ddl() bool { return k >= kCreateIndex }

type assign struct {
	c    int
	v    V // Null => SET c = NULL
	incr int64
}

type stmt struct {
	kind    stmtKind
	tbl     string
	cols    []int
	rows    [][]V
	set     []assign
	where   expr
	ix      index
	ncol    col
	cid     int
	newName string

	text string
	args map[string]interface{}

	nAuto    int     // rows whose key the engine generates
	autoKeys []int64 // the generated keys as reported by LastInsertedPKs
}

// must is one reason why the statement violates a declared constraint.
type must struct {
	class string // pk, unique, notnull, check, length, unique-index-over-duplicates
	what  string
	known string // known-finding id whose class this is ("" = none)
	soft  bool   // a violation only by the engine's own NULL semantics: counts only while the known finding is excluded
}

type outcome struct {
	musts     []must
	mays      []string // either result is consistent with the property
	expectErr string   // the engine documents a refusal the property does not require
	resync    bool     // effect of an accepted statement is not modelled
	stopCase  bool     // an accepted statement leaves the declared constraints undefined
	endTx     bool     // the reference cannot follow the rest of the transaction: it ends here
	notes     []string // shapes worth counting (labels)
}

func (o *outcome) note(s string) {
	for _, n := range o.notes {
		if n == s {
			return
		}
	}
	o.notes = append(o.notes, s)
}

func (o *outcome) must(class, known, format string, args ...any) {
	o.musts = append(o.musts, must{class: class, known: known, what: fmt.Sprintf(format, args...)})
}
func (o *outcome) may(s string) { o.mays = append(o.mays, s) }

// soundMust: a violation the engine is expected to catch (not the class of a
// known finding that is currently excluded).
func (o *outcome) soundMust(excluded func(string) bool) *must {
	for i := range o.musts {
		if o.musts[i].soft {
			continue
		}
		if o.musts[i].known == "" || !excluded(o.musts[i].known) {
			return &o.musts[i]
		}
	}
	return nil
}

// knownOnly: the statement is in the class of an excluded known finding and
// nothing else makes the engine refuse it.
func (o *outcome) knownOnly(excluded func(string) bool) []string {
	if o.soundMust(excluded) != nil {
		return nil
	}
	var ids []string
	seen := map[string]bool{}
	for _, m := range o.musts {
		if m.known != "" && excluded(m.known) && !seen[m.known] {
			seen[m.known] = true
			ids = append(ids, m.known)
		}
	}
	return ids
}

func (o *outcome) classes() []string {
	seen := map[string]bool{}
	var out []string
	for _, m := range o.musts {
		if !seen[m.class] {
			seen[m.class] = true
			out = append(out, m.class)
		}
	}
	return out
}

const (
	kUniqueTombstone = "K12a-unique-check-stops-at-tombstone"
	kUpdateNotNull   = "K12b-update-sets-not-null-column-to-null"
	kUniqueIndexDead = "K12c-unique-index-created-over-duplicates"
	kConflictSetsPK  = "K12d-on-conflict-do-update-assigns-primary-key"
	kCheckQuote      = "K12e-check-literal-with-quote-breaks-catalog"
	kIndexTwice      = "K12f-index-created-twice-after-rename-in-same-tx"
	kUniqueSameTx    = "K12g-unique-index-not-enforced-in-creating-tx"
	kConflictNoCheck = "K12h-on-conflict-do-update-skips-check"
	kAutoAfterExpl   = "K12i-generated-key-collides-after-explicit-key-in-same-tx"
)

func fmtRow(t *table, r row) string {
	var parts []string
	for _, c := range t.cols {
		if v, ok := r[c.id]; ok {
			parts = append(parts, c.name+"="+v.String()+"/"+v.T.String())
		} else {
			parts = append(parts, c.name+"=NULL")
		}
	}
	return "(" + strings.Join(parts, ", ") + ")"
}

// validateRow checks NOT NULL, lengths and CHECKs of one complete row.
func (t *table) validateRow(r row, o *outcome, updateNull map[int]bool, checkKnown string) {
	for _, c := range t.cols {
		v, ok := r[c.id]
		if !ok {
			if c.notNull || t.isPK(c.id) {
				known := ""
				if updateNull[c.id] {
					known = kUpdateNotNull
				}
				o.must("notnull", known, "NULL in NOT NULL column %s of %s", c.name, t.name)
			}
			continue
		}
		if c.typ.VarSized() && c.maxLen > 0 {
			n := len(v.S)
			if c.typ == sqlgen.TBlob {
				n = len(v.Bs)
			}
			if n > c.maxLen {
				o.must("length", "", "value of length %d in %s.%s [%d]", n, t.name, c.name, c.maxLen)
			}
		}
	}
	for _, ck := range t.checks {
		switch ck.e.eval(r) {
		case tFalse:
			o.must("check", checkKnown, "CHECK (%s) false for %s", ck.e.sql(t), fmtRow(t, r))
		case tUnk:
			o.may("check depends on NULL")
			if checkKnown != "" {
				// nothing evaluates the CHECK here (known finding): the engine's own SELECT … WHERE NOT (check) would show the row
				o.musts = append(o.musts, must{class: "check", known: checkKnown, soft: true, what: "CHECK (" + ck.e.sql(t) + ") undetermined for " + fmtRow(t, r)})
			}
		}
	}
}

// uniqueCheck compares r (stored under pk) with the other live rows.
func (t *table) uniqueCheck(pk string, r row, old row, o *outcome) {
	for _, ix := range t.indexes {
		if !ix.unique {
			continue
		}
		key, nn := projKey(ix, r)
		if old != nil {
			if ok, _ := projKey(ix, old); ok == key {
				continue // the row keeps its key
			}
		}
		conflict := false
		for opk, or := range t.rows {
			if opk == pk {
				continue
			}
			if k, _ := projKey(ix, or); k == key {
				conflict = true
				if nn {
					known := ""
					if t.tombstoneFirst(ix, key) {
						known = kUniqueTombstone
					}
					if ix.fresh {
						known = kUniqueSameTx
					}
					o.must("unique", known, "unique index %s(%s): key %s of row %s already held by row %s", t.name, ixName(t, ix), key, pk, opk)
				} else {
					o.may("unique key with NULL equals another row's")
				}
				break
			}
		}
		if !conflict && nn && t.everHeld(ix, key, pk) {
			o.note("unique-key-reused-after-delete-or-move")
		}
		tk := ixName(t, ix) + "=" + key
		if !conflict && (t.txKeys[tk] || t.txFreed[tk]) {
			// the engine's check still sees the entry this transaction wrote or freed
			o.may("unique key already written or freed by this transaction")
		}
		t.txKeys[tk] = true
	}
}

func (m *model) apply(s *stmt) outcome {
	var o outcome
	t := m.table(s.tbl)
	if t == nil {
		o.expectErr = "no such table"
		return o
	}
	switch s.kind {
	case kInsert, kUpsert, kInsertIgnore, kInsertUpdate:
		t.applyInsert(s, &o)
	case kUpdate:
		t.applyUpdate(s, &o)
	case kDelete:
		for _, pk := range t.match(s.where) {
			t.freeKeys(t.rows[pk])
			t.txDeleted[pk] = true
			delete(t.rows, pk)
			t.wrote = true
		}
	case kCreateIndex:
		t.applyCreateIndex(s, &o)
	case kAddCol:
		if t.colByName(s.ncol.name) != nil {
			o.expectErr = "column exists"
			return o
		}
		if s.ncol.notNull {
			o.expectErr = "new column must be nullable"
		}
		t.cols = append(t.cols, s.ncol)
	case kDropCol:
		c := t.col(s.cid)
		if c == nil {
			o.expectErr = "no such column"
			return o
		}
		if t.isPK(c.id) || t.indexed(c.id) {
			o.expectErr = "column is part of a key or index"
			o.stopCase = true // if accepted, what the table's keys mean is undefined: the case ends
			return o
		}
		if t.inCheck(c.id) {
			// The engine refuses when evaluating the CHECK on a row of zero
			// values reaches the column; a reference behind a short-circuit is
			// not noticed. If the drop is accepted the CHECKs over the column
			// are not asserted any more (their meaning is undefined).
			o.expectErr = "column is referenced by a CHECK"
			var keep []check
			for _, ck := range t.checks {
				refs := map[int]bool{}
				ck.e.refs(refs)
				if !refs[c.id] {
					keep = append(keep, ck)
				}
			}
			t.checks = keep
		}
		t.dropped = append(t.dropped, *c)
		var nc []col
		for _, x := range t.cols {
			if x.id != c.id {
				nc = append(nc, x)
			}
		}
		t.cols = nc
	case kDropCheck:
		var keep []check
		found := false
		for _, ck := range t.checks {
			if ck.name == s.newName {
				found = true
				continue
			}
			keep = append(keep, ck)
		}
		if !found {
			o.expectErr = "no such constraint"
			return o
		}
		t.checks = keep
		o.note("check-constraint-dropped")
	case kRenameCol:
		c := t.col(s.cid)
		if c == nil || t.colByName(s.newName) != nil {
			o.expectErr = "bad rename"
			return o
		}
		c.name = s.newName
	}
	return o
}

func (t *table) match(w expr) []string {
	var out []string
	for _, pk := range t.sortedPKs() {
		if w == nil || w.eval(t.rows[pk]) == tTrue {
			out = append(out, pk)
		}
	}
	return out
}

func (t *table) applyInsert(s *stmt, o *outcome) {
	ac := t.autoCol()
	autoGiven := false
	if ac != nil {
		for _, c := range s.cols {
			if c == ac.id {
				autoGiven = true
			}
		}
	}
	nextAuto := 0
	for _, vals := range s.rows {
		r := row{}
		for i, cid := range s.cols {
			if !vals[i].Null {
				r[cid] = vals[i]
			}
		}
		if ac != nil && !autoGiven && s.kind != kUpsert {
			var key int64
			if nextAuto < len(s.autoKeys) {
				key = s.autoKeys[nextAuto]
			} else {
				t.ph++
				key = int64(1)<<40 + t.ph
			}
			nextAuto++
			r[ac.id] = sqlgen.Int(key)
		}
		if ac != nil && autoGiven {
			o.may("explicit value for an AUTO_INCREMENT key")
			t.explicitAuto = true
		}
		pk, ok := t.pkKeyOf(r)
		if !ok {
			o.must("notnull", "", "NULL primary key in %s", t.name)
			return
		}
		existing, exists := t.rows[pk]
		if !exists && len(t.versions[pk]) > 0 {
			o.note("primary-key-reinserted-after-delete")
		}
		if !exists && t.txDeleted[pk] && s.kind != kUpsert {
			// the engine's conflict lookup still finds the key this transaction deleted: INSERT is refused,
			// ON CONFLICT takes the conflict branch (in-transaction visibility, not a constraint matter)
			o.may("primary key deleted earlier in this transaction")
			if s.kind != kInsert {
				o.resync, o.endTx = true, true
				return
			}
		}
		var updNull map[int]bool
		checkKnown := ""
		switch {
		case exists && s.kind == kInsert:
			class := "pk"
			if ac != nil && !autoGiven {
				class = "autoinc"
			}
			o.must(class, "", "primary key %s already in %s", pk, t.name)
			return
		case exists && s.kind == kInsertIgnore:
			// the engine validates the row of the INSERT attempt before it looks for the conflict
			var attempt outcome
			t.validateRow(r, &attempt, nil, "")
			if len(attempt.musts) > 0 || len(attempt.mays) > 0 {
				o.may("the skipped row itself breaks a constraint")
			}
			continue
		case exists && s.kind == kInsertUpdate:
			// the engine validates the row of the INSERT attempt before it looks for the conflict
			var attempt outcome
			t.validateRow(r, &attempt, nil, "")
			if len(attempt.musts) > 0 || len(attempt.mays) > 0 {
				o.may("the row of the INSERT attempt breaks a constraint although only the DO UPDATE result is stored")
			}
			checkKnown = kConflictNoCheck
			nr := row{}
			for k, v := range existing {
				nr[k] = v
			}
			updNull = map[int]bool{}
			for _, a := range s.set {
				if t.isPK(a.c) {
					o.must("pk", kConflictSetsPK, "ON CONFLICT DO UPDATE assigns primary key column %s", cname(t, a.c))
					o.resync = true
					return
				}
				t.assignTo(nr, a, updNull)
			}
			r = nr
			if t.hasUnique() {
				o.may("ON CONFLICT DO UPDATE re-checks the row's own unique entries")
			}
		}
		n := len(o.musts)
		t.validateRow(r, o, updNull, checkKnown)
		if s.kind == kUpsert || s.kind == kInsertUpdate {
			t.uniqueCheck(pk, r, existing, o)
		} else {
			t.uniqueCheck(pk, r, nil, o)
		}
		// a "soft" entry (CHECK undetermined by NULL in the ON CONFLICT DO UPDATE result) does not stop the
		// row from being stored: it only matters while known finding K12h is excluded
		hard := false
		for _, m := range o.musts[n:] {
			if !m.soft {
				hard = true
			}
		}
		if hard {
			return
		}
		t.store(pk, r)
	}
}

func (t *table) assignTo(r row, a assign, updNull map[int]bool) {
	switch {
	case a.incr != 0:
		if v, ok := r[a.c]; ok {
			r[a.c] = sqlgen.Int(v.I + a.incr)
		}
	case a.v.Null:
		delete(r, a.c)
		if updNull != nil {
			updNull[a.c] = true
		}
	default:
		r[a.c] = a.v
	}
}

func (t *table) applyUpdate(s *stmt, o *outcome) {
	for _, a := range s.set {
		if t.isPK(a.c) {
			o.expectErr = "primary key can not be updated"
			o.resync = true
			return
		}
		if t.col(a.c) == nil {
			o.expectErr = "no such column"
			return
		}
	}
	targets := t.match(s.where)
	olds := map[string]row{}
	n := len(o.musts)
	for _, pk := range targets {
		old := t.rows[pk]
		nr := row{}
		for k, v := range old {
			nr[k] = v
		}
		updNull := map[int]bool{}
		for _, a := range s.set {
			if a.incr != 0 {
				if _, ok := nr[a.c]; !ok {
					o.may("arithmetic on NULL")
				}
			}
			t.assignTo(nr, a, updNull)
		}
		t.validateRow(nr, o, updNull, "")
		olds[pk] = old
		t.rows[pk] = nr
	}
	// uniqueness of the final state (statement-level), order effects are "may"
	for _, ix := range t.indexes {
		if !ix.unique {
			continue
		}
		holders := map[string][]string{}
		for _, pk := range t.sortedPKs() {
			k, _ := projKey(ix, t.rows[pk])
			holders[k] = append(holders[k], pk)
		}
		oldKeys := map[string]string{}
		for pk, old := range olds {
			k, nn := projKey(ix, old)
			if nn {
				oldKeys[k] = pk
			}
		}
		for _, pk := range targets {
			key, nn := projKey(ix, t.rows[pk])
			if ok, _ := projKey(ix, olds[pk]); ok == key {
				continue
			}
			if hs := holders[key]; len(hs) > 1 {
				if nn {
					known := ""
					changed := 0
					for _, h := range hs {
						if old, ok := olds[h]; ok {
							if k, _ := projKey(ix, old); k != key {
								changed++
							}
						}
					}
					if changed == 1 && t.tombstoneFirstExcluding(ix, key, olds) {
						known = kUniqueTombstone
					}
					if ix.fresh {
						known = kUniqueSameTx
					}
					o.must("unique", known, "unique index %s(%s): key %s held by rows %v after the UPDATE", t.name, ixName(t, ix), key, hs)
				} else {
					o.may("unique key with NULL equals another row's")
				}
			} else if other, ok := oldKeys[key]; ok && other != pk {
				o.may("new unique key equals the old key of another updated row")
			}
			tk := ixName(t, ix) + "=" + key
			if t.txKeys[tk] || t.txFreed[tk] {
				o.may("unique key already written or freed by this transaction")
			}
			t.txKeys[tk] = true
		}
	}
	if len(o.musts) > n {
		return
	}
	for _, pk := range targets {
		t.freeKeys(olds[pk])
		r := t.rows[pk]
		vs := t.versions[pk]
		t.versions[pk] = append(vs[:len(vs):len(vs)], r)
		t.wrote = true
	}
}

// tombstoneFirstExcluding evaluates tombstoneFirst on the state before the
// UPDATE (olds holds the previous versions of the updated rows).
func (t *table) tombstoneFirstExcluding(ix index, key string, olds map[string]row) bool {
	saved := map[string]row{}
	for pk, old := range olds {
		saved[pk] = t.rows[pk]
		t.rows[pk] = old
	}
	res := t.tombstoneFirst(ix, key)
	for pk, cur := range saved {
		t.rows[pk] = cur
	}
	return res
}

func (t *table) applyCreateIndex(s *stmt, o *outcome) {
	for _, ix := range t.indexes {
		if fmt.Sprint(ix.cols) == fmt.Sprint(s.ix.cols) {
			o.expectErr = "index already exists"
			if ix.names != ixName(t, ix) {
				// the engine recognises an existing index by its column names
				o.must("duplicate-index", kIndexTwice, "second index over the columns of %s(%s), created as (%s)", t.name, ixName(t, ix), ix.names)
			}
			return
		}
	}
	if fmt.Sprint(t.pk) == fmt.Sprint(s.ix.cols) {
		o.expectErr = "index already exists"
		return
	}
	if s.ix.unique && len(t.rows) > 0 {
		o.expectErr = "unique index on a populated table"
		seen := map[string]string{}
		for _, pk := range t.sortedPKs() {
			k, nn := projKey(s.ix, t.rows[pk])
			if !nn {
				continue
			}
			if other, dup := seen[k]; dup {
				known := ""
				if t.firstPKDead() {
					known = kUniqueIndexDead
				}
				o.must("unique-index-over-duplicates", known, "CREATE UNIQUE INDEX ON %s(%s) while rows %s and %s share key %s", t.name, ixName(t, s.ix), other, pk, k)
				return
			}
			seen[k] = pk
		}
	}
	nix := s.ix
	nix.names = ixName(t, nix)
	nix.fresh = true
	t.indexes = append(t.indexes, nix)
}
