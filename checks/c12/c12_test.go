// C12 — SQL integrity constraints hold in every reachable state.
package c12

import (
	"fmt"
	"os"
	"testing"

	"pgregory.net/rapid"

	"verif/internal/sqlgen"
	"verif/internal/vk"
)

func TestMain(m *testing.M) {
	vk.Main(m, vk.Config{
		Property: "C12",
		Rule: "rapid-generated schemas (1-3 tables: single/composite/AUTO_INCREMENT keys, NOT NULL, VARCHAR/BLOB maxima, CHECKs, unique and plain indexes) " +
			"and DDL/DML histories over small value pools (INSERT, UPSERT, ON CONFLICT DO NOTHING/UPDATE, UPDATE, DELETE then re-insert, CREATE [UNIQUE] INDEX / " +
			"ADD / DROP / RENAME COLUMN and DROP CONSTRAINT (named and engine-named CHECKs; committed, rolled back or aborted) on populated tables, reopen), run as autocommit statements, interactive transactions, BEGIN…COMMIT blocks or engine.NewTx, " +
			"sessions that hold a read-write transaction open (reading only, or idle) across the DDL commits of other sessions - schema set-up and windows of " +
			"back-to-back DDL, also right after a reopen, with no query of the harness in between - then commit or roll back, followed by fresh sessions inserting " +
			"duplicates for the unique indexes created meanwhile, and a final audit on a re-opened engine; " +
			"and rounds of 2-4 concurrent sessions (scheduled interleavings and free-running goroutines). After every transaction the tables are scanned through the " +
			"primary index: invariants of the property + equality with a reference interpreter (commit order for concurrent sessions). " +
			"Non-trivial: a statement was rejected for a constraint and a later statement on the same table was accepted, or two concurrent sessions " +
			"tried to write the same primary/unique key; distinct by hash of schema + statements + schedule.",
		Assumptions: []string{
			"rows whose unique key contains a NULL are not asserted either way (the property does not say whether NULLs collide)",
			"a CHECK whose value depends on how a NULL compares (or on arithmetic over NULL) may be accepted or rejected; rows are asserted only where the reference evaluator says false; the engine's own SELECT … WHERE NOT (check) must always be empty",
			"WHERE clauses of UPDATE/DELETE are limited to forms whose matching rows do not depend on NULL ordering; inside a transaction that already wrote the table they use key / non-indexed columns only (in-transaction secondary-index scans are C11 known findings K11/K12); for the same reason primary key columns are never part of a secondary index",
			"columns referenced by a CHECK are not renamed (the meaning of the stored CHECK text afterwards is undocumented); FLOAT columns are not indexed (-0.0 key, C11/C15 known finding K6); JSON cells are compared by NULL-ness only",
			"a rejected statement that the reference considers valid is counted (label rejected-unexpected-*) but is not a violation of this property; explicit values for AUTO_INCREMENT keys and multi-row UPDATEs whose outcome depends on the row order may be accepted or rejected",
			"effects of accepted statements are compared with a reference interpreter (UPSERT replaces the row, ON CONFLICT DO UPDATE starts from the stored row); a difference is reported although the property text itself only speaks about constraints and aborted transactions",
			"ADD COLUMN is only run as an autocommit statement: after a transaction that added a column and did not commit, the store's index mappers still hold that column; a later column with the same id and another type makes indexing fail for ever and every commit that waits for the index hangs (engine defect outside this property, reported)",
			"not covered: ALTER COLUMN, DROP INDEX/TABLE, DEFAULT, FOREIGN KEY, partial indexes, savepoints (C13), type-mismatched literals",
			"concurrent sessions run no DDL; while K12a is listed, tables with a unique index get no DELETE / no change of unique columns from concurrent sessions (counted)",
		},
		Probes: []vk.Probe{
			{ID: kUniqueTombstone, Present: probeUniqueTombstone},
			{ID: kUpdateNotNull, Present: probeUpdateNotNull},
			{ID: kUniqueIndexDead, Present: probeUniqueIndexDead},
			{ID: kConflictSetsPK, Present: probeConflictSetsPK},
			{ID: kCheckQuote, Present: probeCheckQuote},
			{ID: kIndexTwice, Present: probeIndexTwice},
			{ID: kUniqueSameTx, Present: probeUniqueSameTx},
			{ID: kConflictNoCheck, Present: probeConflictNoCheck},
			{ID: kAutoAfterExpl, Present: probeAutoAfterExplicit},
		},
	})
}

// ---------------------------------------------------------------------------
// pinned reproductions of the known findings

func probeDB() (*sqlgen.DB, func()) {
	dir := vk.Dir()
	db, err := sqlgen.Open(dir, sqlgen.DBOpts{})
	if err != nil {
		os.RemoveAll(dir)
		return nil, func() {}
	}
	return db, func() { db.Close(); os.RemoveAll(dir) }
}

func runAll(db *sqlgen.DB, stmts ...string) error {
	for _, s := range stmts {
		if err := db.Exec(s, nil); err != nil {
			return fmt.Errorf("%s: %w", s, err)
		}
	}
	return nil
}

// K12a: the unique check reads only the first entry under the key; a deleted first entry hides a live one.
func probeUniqueTombstone() (bool, string) {
	db, done := probeDB()
	if db == nil {
		return false, ""
	}
	defer done()
	if err := runAll(db, "CREATE TABLE t (id INTEGER, u INTEGER, PRIMARY KEY id)", "CREATE UNIQUE INDEX ON t (u)",
		"INSERT INTO t (id, u) VALUES (1, 5)", "DELETE FROM t WHERE id = 1", "INSERT INTO t (id, u) VALUES (2, 5)"); err != nil {
		return false, ""
	}
	if err := db.Exec("INSERT INTO t (id, u) VALUES (3, 5)", nil); err == nil {
		r, _ := db.Query("SELECT id, u FROM t", nil)
		n := 0
		if r != nil {
			n = len(r.Rows)
		}
		return true, fmt.Sprintf("unique index on u: INSERT (1,5); DELETE id=1; INSERT (2,5); INSERT (3,5) accepted, %d live rows with u=5", n)
	}
	return false, ""
}

// K12b: UPDATE / ON CONFLICT DO UPDATE store NULL in a NOT NULL column.
func probeUpdateNotNull() (bool, string) {
	db, done := probeDB()
	if db == nil {
		return false, ""
	}
	defer done()
	if err := runAll(db, "CREATE TABLE t (id INTEGER, v INTEGER NOT NULL, PRIMARY KEY id)", "INSERT INTO t (id, v) VALUES (1, 5), (2, 6)"); err != nil {
		return false, ""
	}
	e1 := db.Exec("UPDATE t SET v = NULL WHERE id = 1", nil)
	e2 := db.Exec("INSERT INTO t (id, v) VALUES (2, 7) ON CONFLICT DO UPDATE SET v = NULL", nil)
	if e1 == nil || e2 == nil {
		return true, fmt.Sprintf("v INTEGER NOT NULL: UPDATE t SET v = NULL -> %v; INSERT … ON CONFLICT DO UPDATE SET v = NULL -> %v", e1, e2)
	}
	return false, ""
}

// K12c: CREATE UNIQUE INDEX takes a table for empty when its smallest key is deleted.
func probeUniqueIndexDead() (bool, string) {
	db, done := probeDB()
	if db == nil {
		return false, ""
	}
	defer done()
	if err := runAll(db, "CREATE TABLE t (id INTEGER, u INTEGER, PRIMARY KEY id)", "INSERT INTO t (id, u) VALUES (1, 5), (2, 7), (3, 7)", "DELETE FROM t WHERE id = 1"); err != nil {
		return false, ""
	}
	if err := db.Exec("CREATE UNIQUE INDEX ON t (u)", nil); err == nil {
		return true, "rows (2,7),(3,7) live, row 1 deleted: CREATE UNIQUE INDEX ON t (u) accepted"
	}
	return false, ""
}

// K12d: ON CONFLICT DO UPDATE SET <primary key> overwrites another row.
func probeConflictSetsPK() (bool, string) {
	db, done := probeDB()
	if db == nil {
		return false, ""
	}
	defer done()
	if err := runAll(db, "CREATE TABLE t (id INTEGER, v INTEGER, PRIMARY KEY id)", "INSERT INTO t (id, v) VALUES (1, 1), (2, 2)"); err != nil {
		return false, ""
	}
	if err := db.Exec("INSERT INTO t (id, v) VALUES (1, 9) ON CONFLICT DO UPDATE SET id = 2", nil); err == nil {
		r, _ := db.Query("SELECT id, v FROM t", nil)
		ks := []string{}
		if r != nil {
			ks = r.Keys()
		}
		return true, fmt.Sprintf("rows (1,1),(2,2): INSERT (1,9) ON CONFLICT DO UPDATE SET id = 2 accepted, table now %v", ks)
	}
	return false, ""
}

// K12e: a CHECK with a quote in a string literal is stored unescaped; the catalog cannot be loaded any more.
func probeCheckQuote() (bool, string) {
	db, done := probeDB()
	if db == nil {
		return false, ""
	}
	defer done()
	if err := runAll(db, "CREATE TABLE t (id INTEGER, s VARCHAR[8], CHECK (s <> 'it''s'), PRIMARY KEY id)"); err != nil {
		return false, ""
	}
	if err := db.Exec("INSERT INTO t (id, s) VALUES (1, 'a')", nil); err != nil {
		return true, fmt.Sprintf("after CREATE TABLE t (…, CHECK (s <> 'it''s'), …): INSERT INTO t (id, s) VALUES (1, 'a') -> %v", err)
	}
	return false, ""
}

// K12f: an index is recognised by its column names: in the transaction that renamed the column the same index can be created again and the catalog no longer loads.
func probeIndexTwice() (bool, string) {
	db, done := probeDB()
	if db == nil {
		return false, ""
	}
	defer done()
	if err := runAll(db, "CREATE TABLE t (id INTEGER, c INTEGER, PRIMARY KEY id)", "CREATE INDEX ON t (c)"); err != nil {
		return false, ""
	}
	if err := db.Exec("BEGIN TRANSACTION; ALTER TABLE t RENAME COLUMN c TO d; CREATE INDEX ON t (d); COMMIT;", nil); err != nil {
		return false, ""
	}
	if err := db.Exec("INSERT INTO t (id, d) VALUES (1, 1)", nil); err != nil {
		return true, fmt.Sprintf("CREATE INDEX ON t (c); BEGIN; RENAME COLUMN c TO d; CREATE INDEX ON t (d); COMMIT accepted; then INSERT -> %v", err)
	}
	return false, ""
}

// K12g: a unique index is not enforced inside the transaction that creates it.
func probeUniqueSameTx() (bool, string) {
	db, done := probeDB()
	if db == nil {
		return false, ""
	}
	defer done()
	if err := runAll(db, "CREATE TABLE t (id INTEGER, u INTEGER, PRIMARY KEY id)"); err != nil {
		return false, ""
	}
	if err := db.Exec("BEGIN TRANSACTION; CREATE UNIQUE INDEX ON t (u); INSERT INTO t (id, u) VALUES (1, 5), (2, 5); COMMIT;", nil); err == nil {
		r, _ := db.Query("SELECT id, u FROM t", nil)
		ks := []string{}
		if r != nil {
			ks = r.Keys()
		}
		return true, fmt.Sprintf("BEGIN; CREATE UNIQUE INDEX ON t (u); INSERT (1,5),(2,5); COMMIT accepted, table now %v", ks)
	}
	return false, ""
}

// K12h: the row produced by ON CONFLICT DO UPDATE is not checked against the CHECK constraints.
func probeConflictNoCheck() (bool, string) {
	db, done := probeDB()
	if db == nil {
		return false, ""
	}
	defer done()
	if err := runAll(db, "CREATE TABLE t (id INTEGER, v INTEGER, CHECK (v > 0), PRIMARY KEY id)", "INSERT INTO t (id, v) VALUES (1, 5)"); err != nil {
		return false, ""
	}
	if err := db.Exec("INSERT INTO t (id, v) VALUES (1, 7) ON CONFLICT DO UPDATE SET v = -1", nil); err == nil {
		r, _ := db.Query("SELECT id, v FROM t", nil)
		ks := []string{}
		if r != nil {
			ks = r.Keys()
		}
		return true, fmt.Sprintf("CHECK (v > 0), row (1,5): INSERT (1,7) ON CONFLICT DO UPDATE SET v = -1 accepted, table now %v", ks)
	}
	return false, ""
}

// K12i: an explicit value for the AUTO_INCREMENT key does not advance the counter of the running transaction.
func probeAutoAfterExplicit() (bool, string) {
	db, done := probeDB()
	if db == nil {
		return false, ""
	}
	defer done()
	if err := runAll(db, "CREATE TABLE t (id INTEGER AUTO_INCREMENT, v INTEGER, PRIMARY KEY id)"); err != nil {
		return false, ""
	}
	if err := db.Exec("BEGIN TRANSACTION; INSERT INTO t (id, v) VALUES (1, 10); INSERT INTO t (v) VALUES (20); COMMIT;", nil); err != nil {
		return true, fmt.Sprintf("empty AUTO_INCREMENT table: BEGIN; INSERT (id=1); INSERT (generated id); COMMIT -> %v", err)
	}
	return false, ""
}

// ---------------------------------------------------------------------------

// TestHistories: one session, DDL/DML histories in all transaction forms.
func TestHistories(t *testing.T) {
	maxStmts := 40
	vk.Check(t, 480, 16000, func(rt *rapid.T, c *vk.Case) {
		h := newHarness(rt, c)
		defer h.close()
		var later map[string]*[]index
		if chance(rt, "setupWithHolders", 45) {
			later = h.setupSchemaStraddled(rapid.IntRange(1, 3).Draw(rt, "nTables"))
		} else {
			later = h.setupSchema(rapid.IntRange(1, 3).Draw(rt, "nTables"), false)
		}
		budget := rapid.IntRange(12, maxStmts).Draw(rt, "budget")
		for iter := 0; h.nStmts < budget && iter < 3*maxStmts && !h.stop; iter++ {
			if chance(rt, "reopen", 4) {
				if err := h.db.Reopen(h.db.Opts); err != nil {
					h.failf("reopen: %v", err)
				}
				h.logf("-- reopen")
				c.Descf("reopen")
				c.Label("reopen")
				h.verify("after reopen")
				continue
			}
			if chance(rt, "window", 7) {
				h.window(later)
				continue
			}
			h.runTx(later, true)
		}
		if !h.stop {
			// final audit on a re-opened engine: nothing cached, the schema is read back from the store
			if err := h.db.Reopen(h.db.Opts); err != nil {
				h.failf("reopen: %v", err)
			}
			h.logf("-- reopen (final audit)")
			h.verify("final audit after re-opening the engine")
		}
		if h.nontriv {
			c.Label("reject-then-accept-same-table")
			c.NonTrivial()
		}
	})
}

// TestConcurrentSessions: rounds of 2-4 sessions with their own transactions.
func TestConcurrentSessions(t *testing.T) {
	vk.Check(t, 1200, 32000, func(rt *rapid.T, c *vk.Case) {
		h := newHarness(rt, c)
		defer h.close()
		h.setupSchema(rapid.IntRange(1, 2).Draw(rt, "nTables"), true)
		h.seedRows()
		rounds := rapid.IntRange(3, 6).Draw(rt, "rounds")
		for r := 0; r < rounds && !h.stop; r++ {
			h.runRound(r)
		}
		if h.nontriv {
			c.NonTrivial()
		}
	})
}
