package c12

// Concurrent sessions: 2-4 goroutines, each with its own SQLTx, stepped by a
// generated schedule (or free-running); committed transactions are replayed
// on the reference copy in commit order.

import (
	"context"
	"errors"
	"fmt"
	"os"
	"sort"
	"strings"
	"sync"

	"github.com/codenotary/immudb/embedded/sql"
	"github.com/codenotary/immudb/embedded/store"
	"pgregory.net/rapid"

	"verif/internal/sqlgen"
	"verif/internal/vk"
)

type session struct {
	id       int
	stmts    []*stmt
	rollback bool
	newTx    bool

	steps chan struct{}
	done  chan struct{}

	tx        *sql.SQLTx
	dead      bool
	failedAt  int
	err       error
	committed bool
	txID      uint64
	hasHeader bool
	log       []string
}

func (s *session) logf(format string, args ...any) {
	s.log = append(s.log, fmt.Sprintf("[s%d] ", s.id)+fmt.Sprintf(format, args...))
}

// step k: 0 = begin, 1..n = statements, n+1 = commit/rollback.
func (s *session) step(h *harness, k int) {
	ctx := context.Background()
	if s.dead {
		return
	}
	switch {
	case k == 0:
		var err error
		if s.newTx {
			s.tx, err = h.db.Eng.NewTx(ctx, sql.DefaultTxOptions().WithExplicitClose(true))
		} else {
			s.tx, _, err = h.db.Eng.Exec(ctx, nil, "BEGIN TRANSACTION", nil)
		}
		s.logf("BEGIN -> %s", short(err))
		if err != nil {
			s.dead, s.err, s.failedAt = true, err, -1
		}
	case k <= len(s.stmts):
		st := s.stmts[k-1]
		ntx, _, err := h.db.Eng.Exec(ctx, s.tx, st.text, st.args)
		s.logf("%s %v -> %s", st.text, st.args, short(err))
		if err != nil {
			s.dead, s.err, s.failedAt = true, err, k-1
			if s.tx != nil && !s.tx.Closed() {
				s.tx.Cancel()
			}
			return
		}
		if ntx != nil {
			s.tx = ntx
		}
		if st.nAuto > 0 {
			st.autoKeys = autoKeysFrom(s.tx, st)
		}
	default:
		if s.rollback {
			_, _, err := h.db.Eng.Exec(ctx, s.tx, "ROLLBACK", nil)
			s.logf("ROLLBACK -> %s", short(err))
			s.dead = true
			return
		}
		var err error
		if s.newTx {
			err = s.tx.Commit(ctx)
		} else {
			_, _, err = h.db.Eng.Exec(ctx, s.tx, "COMMIT", nil)
		}
		s.logf("COMMIT -> %s", short(err))
		if err != nil {
			s.dead, s.err, s.failedAt = true, err, len(s.stmts)
			return
		}
		s.committed = true
		if hdr := s.tx.TxHeader(); hdr != nil {
			s.txID, s.hasHeader = hdr.ID, true
		}
	}
}

// keysAttempted lists the primary keys and complete unique keys the session's
// statements try to write.
func keysAttempted(m *model, s *session) map[string]bool {
	out := map[string]bool{}
	for _, st := range s.stmts {
		t := m.table(st.tbl)
		if t == nil {
			continue
		}
		switch st.kind {
		case kInsert, kUpsert, kInsertIgnore, kInsertUpdate:
			for _, vals := range st.rows {
				r := row{}
				for i, cid := range st.cols {
					if !vals[i].Null {
						r[cid] = vals[i]
					}
				}
				if pk, ok := t.pkKeyOf(r); ok {
					out[t.name+"/pk/"+pk] = true
				}
				for _, ix := range t.indexes {
					if k, nn := projKey(ix, r); ix.unique && nn {
						out[t.name+"/"+ixName(t, ix)+"/"+k] = true
					}
				}
			}
		}
		for _, a := range st.set {
			for _, ix := range t.indexes {
				if ix.unique && len(ix.cols) == 1 && ix.cols[0] == a.c && !a.v.Null && a.incr == 0 {
					out[t.name+"/"+ixName(t, ix)+"/"+a.v.Key()] = true
				}
			}
		}
	}
	return out
}

func (h *harness) runRound(round int) {
	rt := h.rt
	ns := rapid.IntRange(2, 4).Draw(rt, "sessions")
	free := chance(rt, "freeRunning", 30)
	// hot values make the sessions meet on the same keys
	hot := map[string]V{}
	for _, t := range h.m.tables {
		for i := range t.cols {
			c := &t.cols[i]
			if (t.isPK(c.id) && !c.autoInc || t.inUnique(c.id)) && chance(rt, "hotCol", 70) {
				// prefer a value no live row holds: the sessions then race for it
				used := map[string]bool{}
				for _, r := range t.rows {
					if v, ok := r[c.id]; ok {
						used[v.Key()] = true
					}
				}
				var free []V
				for _, v := range c.pool {
					if !used[v.Key()] {
						free = append(free, v)
					}
				}
				if len(free) > 0 && chance(rt, "hotFree", 75) {
					hot[t.name+"."+c.name] = pickV(rt, "hotFreeVal", free)
				} else {
					hot[t.name+"."+c.name] = pickV(rt, "hotVal", c.pool)
				}
			}
		}
	}
	opts := genOpts{inTx: true, conc: true, hot: hot, violRate: rapid.SampledFrom([]int{0, 0, 0, 2}).Draw(rt, "violRate")}
	var ss []*session
	for i := 0; i < ns; i++ {
		s := &session{id: i, failedAt: -2, rollback: chance(rt, "rollback", 8), newTx: chance(rt, "newTx", 25),
			steps: make(chan struct{}, 16), done: make(chan struct{}, 16)}
		n := rapid.IntRange(1, 3).Draw(rt, "txLen")
		params := chance(rt, "params", 25)
		deletedFrom := map[string]bool{}
		for k := 0; k < n; k++ {
			t := h.m.tables[rapid.IntRange(0, len(h.m.tables)-1).Draw(rt, "table")]
			st := h.genDML(rt, t, opts)
			if st == nil {
				continue
			}
			if deletedFrom[t.name] && st.kind <= kInsertUpdate && st.kind != kUpsert {
				continue // INSERT of a key the same transaction deleted: in-transaction visibility, not followed by the reference
			}
			if st.kind == kDelete {
				deletedFrom[t.name] = true
			}
			h.render(t, st, params)
			s.stmts = append(s.stmts, st)
			h.c.Descf("s%d: %s", i, st.text)
			h.c.Label("stmt-" + st.kind.String())
			if st.nAuto > 0 {
				h.c.Label("auto-increment-insert")
			}
		}
		ss = append(ss, s)
	}
	// same key attempted by two sessions?
	attempts := map[string]int{}
	for _, s := range ss {
		for k := range keysAttempted(h.m, s) {
			attempts[k]++
		}
	}
	sameKey := false
	for k, n := range attempts {
		if n > 1 {
			sameKey = true
			if strings.Contains(k, "/pk/") {
				h.c.Label("two-sessions-same-primary-key")
			} else {
				h.c.Label("two-sessions-same-unique-key")
			}
		}
	}
	if sameKey {
		h.nontriv = true
	}

	var wg sync.WaitGroup
	if free {
		h.c.Label("round-free-running")
		h.c.Descf("free")
		start := make(chan struct{})
		for _, s := range ss {
			wg.Add(1)
			go func(s *session) {
				defer wg.Done()
				<-start
				for k := 0; k <= len(s.stmts)+1; k++ {
					s.step(h, k)
				}
			}(s)
		}
		close(start)
		wg.Wait()
	} else {
		h.c.Label("round-scheduled")
		// schedule: an interleaving of the sessions' steps
		remaining := make([]int, ns)
		total := 0
		for i, s := range ss {
			remaining[i] = len(s.stmts) + 2
			total += remaining[i]
		}
		var sched []int
		for total > 0 {
			var live []int
			for i, r := range remaining {
				if r > 0 {
					live = append(live, i)
				}
			}
			i := live[rapid.IntRange(0, len(live)-1).Draw(rt, "sched")]
			sched = append(sched, i)
			remaining[i]--
			total--
		}
		h.c.Descf("sched=%v", sched)
		for _, s := range ss {
			wg.Add(1)
			go func(s *session) {
				defer wg.Done()
				for k := 0; k <= len(s.stmts)+1; k++ {
					<-s.steps
					s.step(h, k)
					s.done <- struct{}{}
				}
			}(s)
		}
		for _, i := range sched {
			ss[i].steps <- struct{}{}
			<-ss[i].done
		}
		wg.Wait()
	}

	// outcome of the round
	var committed []*session
	for _, s := range ss {
		h.log = append(h.log, s.log...)
		switch {
		case s.committed && s.hasHeader:
			committed = append(committed, s)
			h.c.Label("session-committed")
		case s.committed:
			h.c.Label("session-committed-without-writes")
		case s.err != nil:
			cl := errClass(s.err)
			if s.failedAt == len(s.stmts) {
				h.c.Label("commit-refused-" + cl)
			} else {
				h.c.Label("statement-refused-" + cl)
			}
			if cl == "other" {
				h.c.Descf("OTHER-ERROR %s", short(s.err))
			}
			if os.Getenv("C12_DEBUG") != "" {
				fmt.Fprintln(os.Stderr, "REFUSED:", cl, s.log[len(s.log)-1])
			}
			if s.tx != nil && !s.tx.Closed() {
				s.tx.Cancel()
			}
		default:
			h.c.Label("session-rolled-back")
		}
	}
	sort.Slice(committed, func(i, j int) bool { return committed[i].txID < committed[j].txID })
	var order []string
	for _, s := range committed {
		order = append(order, fmt.Sprintf("s%d@tx%d", s.id, s.txID))
	}
	h.logf("round %d: commit order %v", round, order)
	if len(committed) > 1 {
		h.c.Label("round-with-2+-commits")
	}
	for _, s := range committed {
		work := h.m.clone()
		work.beginTx()
		for _, st := range s.stmts {
			if st.nAuto > 0 && len(st.autoKeys) != st.nAuto {
				h.failf("session %d committed but LastInsertedPKs did not report the generated keys of %s", s.id, st.text)
			}
			o := work.apply(st)
			if sm := o.soundMust(h.isExcluded); sm != nil {
				h.failf("session %d committed (tx %d) although, at its place in the commit order, %s violates a constraint (%s): %s", s.id, s.txID, st.text, sm.class, sm.what)
			}
			if h.skipKnown(&o) {
				// class of a known finding reached through the interleaving: the case ends here
				h.c.Label("case-ended-at-known-finding")
				h.stop = true
				return
			}
			for _, n := range o.notes {
				h.c.Label(n)
			}
			if o.endTx {
				h.c.Label("case-ended-reference-cannot-follow")
				h.stop = true
				return
			}
			if o.resync {
				h.resync[st.tbl] = true
			}
			if h.rejected[st.tbl] {
				h.nontriv = true
			}
		}
		h.m = work
	}
	for _, s := range ss {
		if s.err != nil && !errors.Is(s.err, store.ErrTxReadConflict) && s.failedAt >= 0 && s.failedAt < len(s.stmts) {
			h.rejected[s.stmts[s.failedAt].tbl] = true
		}
	}
	h.verify(fmt.Sprintf("after round %d (commit order %v)", round, order))
}

// seedRows fills the tables through autocommit INSERTs.
func (h *harness) seedRows() {
	rt := h.rt
	for _, t := range h.m.tables {
		n := rapid.IntRange(1, 5).Draw(rt, "seedStmts")
		for i := 0; i < n; i++ {
			work := h.m.clone()
			work.beginTx()
			wt := work.table(t.name)
			s := h.genDML(rt, wt, genOpts{violRate: 0, conc: true})
			if s == nil || s.kind == kUpdate || s.kind == kDelete {
				continue
			}
			h.render(wt, s, false)
			pre := work.clone()
			o := pre.apply(s)
			if len(o.musts) > 0 {
				continue
			}
			_, committed, err := h.exec(nil, s.text, s.args)
			h.logf("%s -> %s", s.text, short(err))
			if err != nil {
				continue
			}
			if s.nAuto > 0 {
				if len(committed) == 0 {
					h.failf("no committed transaction reported for %s", s.text)
				}
				s.autoKeys = autoKeysFrom(committed[len(committed)-1], s)
				post := work.clone()
				o2 := post.apply(s)
				if sm := o2.soundMust(h.isExcluded); sm != nil {
					h.failf("auto-generated keys %v of %s collide (%s): %s", s.autoKeys, s.text, sm.class, sm.what)
				}
				pre = post
			}
			h.m = pre
			h.c.Descf("seed: %s", s.text)
		}
	}
	h.verify("after seeding")
}

var _ = sqlgen.Int
var _ = vk.Dir
