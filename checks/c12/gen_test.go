package c12

// rapid generators: schemas with constraints, DML that hits them, DDL on
// populated tables.

import (
	"fmt"
	"sort"
	"strings"
	"time"

	"pgregory.net/rapid"

	"verif/internal/sqlgen"
	"verif/internal/vk"
)

type wc struct {
	name string
	w    int
}

// uniform draws a uniformly distributed number in [0, n), n <= 1024.
// rapid's integer generators favour small values and the bounds (IntRange(0,99)
// is below 3 in a quarter of the draws), which is wanted for picking values
// from pools but not for probabilities; ten fair bits are uniform.
var bits10 = rapid.SliceOfN(rapid.Bool(), 10, 10)

func uniform(rt *rapid.T, label string, n int) int {
	x := 0
	for _, b := range bits10.Draw(rt, label) {
		x <<= 1
		if b {
			x |= 1
		}
	}
	return x % n
}

func weighted(rt *rapid.T, label string, cs []wc) string {
	total := 0
	for _, c := range cs {
		total += c.w
	}
	x := uniform(rt, label, total)
	for _, c := range cs {
		if x < c.w {
			return c.name
		}
		x -= c.w
	}
	return cs[len(cs)-1].name
}

func chance(rt *rapid.T, label string, percent int) bool {
	return uniform(rt, label, 100) < percent
}

func pickV(rt *rapid.T, label string, vs []V) V {
	return vs[rapid.IntRange(0, len(vs)-1).Draw(rt, label)]
}

var baseTime = time.Date(2024, 2, 29, 23, 59, 59, 0, time.UTC)

func candidates(typ sqlgen.Type, maxLen int, wide bool) []V {
	var out []V
	switch typ {
	case sqlgen.TInt:
		for _, i := range []int64{0, 1, 2, 3, 4, 5, 7, 10, -1, -2, -5} {
			out = append(out, sqlgen.Int(i))
		}
		if wide {
			for _, i := range []int64{1 << 62, -(1 << 62), 1<<31 - 1, -(1 << 31), 65536, 255} {
				out = append(out, sqlgen.Int(i))
			}
		}
	case sqlgen.TBool:
		out = []V{sqlgen.Bool(false), sqlgen.Bool(true)}
	case sqlgen.TFloat:
		for _, f := range []float64{0, 1, -1, 0.5, 1.5, -2.25, 3, 10, 100.75, 0.25} {
			out = append(out, sqlgen.Float(f))
		}
	case sqlgen.TVarchar, sqlgen.TBlob:
		strs := []string{"", "a", "b", "ab", "abc", "A", "z", "zz", "a b", "it's", "m", "0", "10", "é", "abcd", "abcdefg"}
		for _, s := range strs {
			if maxLen > 0 && len(s) > maxLen {
				continue
			}
			if typ == sqlgen.TBlob {
				out = append(out, sqlgen.Blob([]byte(s)))
			} else {
				out = append(out, sqlgen.Varchar(s))
			}
		}
		if maxLen > 0 {
			full := strings.Repeat("x", maxLen)
			if typ == sqlgen.TBlob {
				out = append(out, sqlgen.Blob([]byte(full)), sqlgen.Blob([]byte{0xff}), sqlgen.Blob([]byte{0}))
			} else {
				out = append(out, sqlgen.Varchar(full))
			}
		}
	case sqlgen.TTimestamp:
		for _, d := range []time.Duration{0, time.Microsecond, -time.Second, time.Hour, 24 * time.Hour, -365 * 24 * time.Hour} {
			out = append(out, sqlgen.Timestamp(baseTime.Add(d)))
		}
		out = append(out, sqlgen.Timestamp(time.Date(1970, 1, 1, 0, 0, 0, 0, time.UTC)))
	case sqlgen.TUUID:
		for _, u := range []string{"00000000-0000-0000-0000-000000000000", "00000000-0000-0000-0000-000000000001", "ffffffff-ffff-ffff-ffff-ffffffffffff",
			"12345678-1234-5678-1234-567812345678", "80000000-0000-0000-0000-000000000000"} {
			out = append(out, sqlgen.UUID(u))
		}
	case sqlgen.TJSON:
		for _, j := range []string{`{}`, `{"a":1}`, `[1,2]`, `"s"`} {
			out = append(out, sqlgen.JSON(j))
		}
	}
	return out
}

func fillPool(rt *rapid.T, c *col, n int) {
	wide := c.typ == sqlgen.TInt && !c.small
	cands := candidates(c.typ, c.maxLen, wide)
	perm := rapid.Permutation(cands).Draw(rt, "pool")
	if n > len(perm) {
		n = len(perm)
	}
	c.pool = perm[:n]
}

func typeSQL(c col) string {
	s := c.typ.String()
	if c.typ.VarSized() && c.maxLen > 0 {
		s += fmt.Sprintf("[%d]", c.maxLen)
	}
	return s
}

func colSpecSQL(t *table, c col) string {
	s := c.name + " " + typeSQL(c)
	if c.notNull && !t.isPK(c.id) {
		s += " NOT NULL"
	}
	if c.autoInc {
		s += " AUTO_INCREMENT"
	}
	return s
}

func (t *table) createSQL() string {
	var parts []string
	for _, c := range t.cols {
		parts = append(parts, colSpecSQL(t, c))
	}
	for _, ck := range t.checks {
		if ck.named {
			parts = append(parts, "CONSTRAINT "+ck.name+" CHECK ("+ck.e.sql(t)+")")
		} else {
			parts = append(parts, "CHECK ("+ck.e.sql(t)+")")
		}
	}
	var pk []string
	for _, p := range t.pk {
		pk = append(pk, cname(t, p))
	}
	if len(pk) == 1 {
		parts = append(parts, "PRIMARY KEY "+pk[0])
	} else {
		parts = append(parts, "PRIMARY KEY ("+strings.Join(pk, ", ")+")")
	}
	return "CREATE TABLE " + t.name + " (" + strings.Join(parts, ", ") + ")"
}

func indexSQL(t *table, ix index) string {
	u := ""
	if ix.unique {
		u = "UNIQUE "
	}
	return fmt.Sprintf("CREATE %sINDEX ON %s (%s)", u, t.name, strings.ReplaceAll(ixName(t, ix), ",", ", "))
}

var keyTypes = []sqlgen.Type{sqlgen.TInt, sqlgen.TInt, sqlgen.TInt, sqlgen.TInt, sqlgen.TVarchar, sqlgen.TVarchar, sqlgen.TUUID, sqlgen.TTimestamp, sqlgen.TBlob, sqlgen.TBool}
var colTypes = []sqlgen.Type{sqlgen.TInt, sqlgen.TInt, sqlgen.TInt, sqlgen.TInt, sqlgen.TVarchar, sqlgen.TVarchar, sqlgen.TVarchar, sqlgen.TBool, sqlgen.TFloat, sqlgen.TTimestamp, sqlgen.TBlob, sqlgen.TUUID, sqlgen.TJSON}

func genCol(rt *rapid.T, t *table, name string, key bool) col {
	c := col{id: t.nextCol, name: name}
	t.nextCol++
	if key {
		c.typ = rapid.SampledFrom(keyTypes).Draw(rt, "keyType")
	} else {
		c.typ = rapid.SampledFrom(colTypes).Draw(rt, "colType")
	}
	if c.typ.VarSized() {
		c.maxLen = rapid.SampledFrom([]int{1, 2, 3, 4, 8, 16}).Draw(rt, "maxLen")
		if !key && chance(rt, "unbounded", 10) {
			c.maxLen = 0
		}
	}
	if c.typ == sqlgen.TInt {
		c.small = key || !chance(rt, "wideInt", 20)
	}
	return c
}

func indexable(c col) bool {
	if c.typ == sqlgen.TJSON || c.typ == sqlgen.TFloat {
		return false // FLOAT keys: -0.0 has its own key (known finding K6 of C11/C15), left out here
	}
	return !c.typ.VarSized() || c.maxLen > 0
}

// genTable draws one table. Some of its secondary indexes are returned as
// "later" ones: the history creates them on the populated table.
func genTable(rt *rapid.T, name string, forConc bool) (*table, []index) {
	t := &table{name: name, rows: map[string]row{}, versions: map[string][]row{}, txKeys: map[string]bool{}}
	npk := rapid.SampledFrom([]int{1, 1, 1, 2}).Draw(rt, "nPK")
	for k := 0; k < npk; k++ {
		c := genCol(rt, t, fmt.Sprintf("k%d", k+1), true)
		if c.typ == sqlgen.TBool && npk == 1 {
			c.typ = sqlgen.TInt
			c.small = true
		}
		c.notNull = true
		n := rapid.IntRange(5, 8).Draw(rt, "pkPool")
		if npk == 2 {
			n = rapid.IntRange(2, 4).Draw(rt, "pkPool2")
		}
		fillPool(rt, &c, n)
		t.cols = append(t.cols, c)
		t.pk = append(t.pk, c.id)
	}
	if npk == 1 && t.cols[0].typ == sqlgen.TInt && chance(rt, "autoInc", 35) {
		t.cols[0].autoInc = true
	}
	nc := rapid.IntRange(2, 5).Draw(rt, "nCols")
	for k := 0; k < nc; k++ {
		c := genCol(rt, t, fmt.Sprintf("c%d", k+1), false)
		c.notNull = chance(rt, "notNull", 35)
		fillPool(rt, &c, rapid.IntRange(3, 5).Draw(rt, "poolSize"))
		t.cols = append(t.cols, c)
	}
	// CHECK constraints
	for k := rapid.IntRange(0, 2).Draw(rt, "nChecks"); k > 0; k-- {
		if e := genCheck(rt, t, 1); e != nil {
			t.checks = append(t.checks, check{e: e, named: chance(rt, "namedCheck", 60)})
		}
	}
	// names as the engine assigns them: declared, or <table>_check<n> counting the unnamed ones
	unnamed := 0
	for i := range t.checks {
		if t.checks[i].named {
			t.checks[i].name = fmt.Sprintf("ck%d_%s", i+1, t.name)
		} else {
			unnamed++
			t.checks[i].name = fmt.Sprintf("%s_check%d", t.name, unnamed)
		}
	}
	if len(t.checks) > 0 {
		// with a CHECK on the table the engine re-parses JSON values and refuses CAST(… AS JSON) (not a constraint matter): no JSON here
		for i := range t.cols {
			if t.cols[i].typ == sqlgen.TJSON {
				t.cols[i].typ = sqlgen.TBool
				t.cols[i].pool = nil
				fillPool(rt, &t.cols[i], 2)
			}
		}
	}
	// secondary indexes
	var cand []col
	for _, c := range t.cols {
		if indexable(c) && !t.isPK(c.id) {
			cand = append(cand, c)
		}
	}
	var later []index
	if len(cand) > 0 {
		seen := map[string]bool{}
		ni := rapid.IntRange(0, 3).Draw(rt, "nIndexes")
		if forConc {
			ni = rapid.IntRange(1, 3).Draw(rt, "nIndexesConc")
		}
		for k := 0; k < ni; k++ {
			n := rapid.SampledFrom([]int{1, 1, 1, 2}).Draw(rt, "ixCols")
			if n > len(cand) {
				n = len(cand)
			}
			perm := rapid.Permutation(cand).Draw(rt, "ixPerm")
			ix := index{unique: chance(rt, "unique", 65)}
			for _, c := range perm[:n] {
				ix.cols = append(ix.cols, c.id)
			}
			if seen[fmt.Sprint(ix.cols)] {
				continue
			}
			seen[fmt.Sprint(ix.cols)] = true
			if !forConc && chance(rt, "ixLater", 30) {
				later = append(later, ix)
				continue
			}
			t.indexes = append(t.indexes, ix)
		}
	}
	// larger pools for unique columns: a unique column over 3 values holds 3 rows at most
	for _, ix := range append(append([]index(nil), t.indexes...), later...) {
		if !ix.unique {
			continue
		}
		for _, cid := range ix.cols {
			c := t.col(cid)
			if len(c.pool) < 6 {
				c.pool = nil
				fillPool(rt, c, rapid.IntRange(6, 10).Draw(rt, "uniquePool"))
			}
		}
	}
	return t, later
}

func litFor(rt *rapid.T, c *col) V {
	return pickV(rt, "lit", c.pool)
}

// checkLits: literals usable inside a CHECK. The catalog stores the CHECK as
// text (exp.String()) and re-parses it whenever a transaction loads the
// catalog; a string literal with a quote is stored unescaped and makes every
// later transaction fail with a syntax error (known finding K12e).
func checkLits(c *col) []V {
	var out []V
	for _, v := range c.pool {
		if c.typ == sqlgen.TVarchar && strings.Contains(v.S, "'") && vk.Excluded(kCheckQuote) {
			vk.CountExcluded(kCheckQuote)
			continue
		}
		out = append(out, v)
	}
	return out
}

var allOps = []string{"=", "<>", "<", "<=", ">", ">="}

// genCheck draws a CHECK expression over the table's columns.
func genCheck(rt *rapid.T, t *table, depth int) expr {
	var usable []*col
	for i := range t.cols {
		c := &t.cols[i]
		if c.typ == sqlgen.TJSON || c.typ == sqlgen.TBlob || c.typ == sqlgen.TUUID || c.typ == sqlgen.TTimestamp {
			continue
		}
		if c.autoInc || len(checkLits(c)) == 0 {
			continue
		}
		usable = append(usable, c)
	}
	if len(usable) == 0 {
		return nil
	}
	if depth > 0 && chance(rt, "ckLogic", 35) {
		l, r := genCheck(rt, t, depth-1), genCheck(rt, t, depth-1)
		if l != nil && r != nil {
			e := expr(&logic{op: rapid.SampledFrom([]string{"AND", "OR"}).Draw(rt, "ckOp"), l: l, r: r})
			if chance(rt, "ckNot", 10) {
				e = &notExpr{e: e}
			}
			return e
		}
	}
	c := usable[rapid.IntRange(0, len(usable)-1).Draw(rt, "ckCol")]
	var smallInts []*col
	for _, u := range usable {
		if u.typ == sqlgen.TInt && u.small && u.notNull {
			smallInts = append(smallInts, u)
		}
	}
	form := weighted(rt, "ckForm", []wc{{"lit", 50}, {"nullOr", 15}, {"in", 12}, {"col", 10}, {"sum", 8}, {"notnull", 5}})
	switch form {
	case "nullOr":
		if !c.notNull {
			return &logic{op: "OR", l: &isNull{c: c.id}, r: genCmpLit(rt, c)}
		}
	case "in":
		if c.typ != sqlgen.TBool && c.typ != sqlgen.TFloat {
			lits := checkLits(c)
			n := rapid.IntRange(1, len(lits)).Draw(rt, "inN")
			return &inList{c: c.id, vs: rapid.Permutation(lits).Draw(rt, "inVals")[:n]}
		}
	case "col":
		var same []*col
		for _, u := range usable {
			if u.id != c.id && u.typ == c.typ && c.typ != sqlgen.TBool {
				same = append(same, u)
			}
		}
		if len(same) > 0 {
			o := same[rapid.IntRange(0, len(same)-1).Draw(rt, "ckCol2")]
			return &cmpCol{a: c.id, op: rapid.SampledFrom([]string{"<=", "<>", ">=", "<"}).Draw(rt, "ckColOp"), b: o.id}
		}
	case "sum":
		if len(smallInts) >= 2 {
			p := rapid.Permutation(smallInts).Draw(rt, "sumCols")
			return &sumCmp{a: p[0].id, b: p[1].id, op: rapid.SampledFrom([]string{">=", "<=", "<>", ">"}).Draw(rt, "sumOp"), v: int64(rapid.IntRange(-2, 8).Draw(rt, "sumV"))}
		}
	case "notnull":
		return &isNull{c: c.id, not: true}
	}
	return genCmpLit(rt, c)
}

func genCmpLit(rt *rapid.T, c *col) expr {
	v := pickV(rt, "ckLit", checkLits(c))
	if c.typ == sqlgen.TBool {
		return &cmpLit{c: c.id, op: "=", v: v}
	}
	return &cmpLit{c: c.id, op: rapid.SampledFrom(allOps).Draw(rt, "ckCmp"), v: v}
}

// ---------------------------------------------------------------------------
// DML

type genOpts struct {
	inTx     bool // inside a multi-statement transaction
	oneShot  bool // the transaction is sent as one text: generated keys are not observable per statement
	conc     bool // concurrent test: no lookahead is possible, exclusions are applied by class of statement
	hot      map[string]V
	violRate int // percent of deliberately violating values
}

func (h *harness) excluded(id string) bool { return vk.Excluded(id) }

// genValue draws a value for column c of a new/updated row.
func genValue(rt *rapid.T, t *table, c *col, o genOpts) V {
	if hv, ok := o.hot[t.name+"."+c.name]; ok && chance(rt, "hot", 55) {
		return hv
	}
	if c.notNull {
		if chance(rt, "nullViol", o.violRate) {
			return sqlgen.Null(c.typ)
		}
	} else if chance(rt, "null", 12) {
		return sqlgen.Null(c.typ)
	}
	if c.typ.VarSized() && c.maxLen > 0 && chance(rt, "tooLong", o.violRate) {
		s := strings.Repeat("y", c.maxLen+rapid.IntRange(1, 3).Draw(rt, "extra"))
		if c.typ == sqlgen.TBlob {
			return sqlgen.Blob([]byte(s))
		}
		return sqlgen.Varchar(s)
	}
	return pickV(rt, "val", c.pool)
}

func existingRow(rt *rapid.T, t *table) row {
	if len(t.rows) == 0 {
		return nil
	}
	pks := t.sortedPKs()
	return t.rows[pks[rapid.IntRange(0, len(pks)-1).Draw(rt, "existing")]]
}

func (h *harness) genDML(rt *rapid.T, t *table, o genOpts) *stmt {
	kind := weighted(rt, "dml", []wc{{"insert", 36}, {"upsert", 10}, {"ignore", 6}, {"doupdate", 10}, {"update", 22}, {"delete", 16}})
	if o.conc {
		// sessions whose statements mostly succeed: only committed transactions meet each other
		kind = weighted(rt, "dmlConc", []wc{{"insert", 28}, {"upsert", 18}, {"ignore", 14}, {"doupdate", 10}, {"update", 20}, {"delete", 10}})
	}
	ac := t.autoCol()
	tombstoneBan := o.conc && t.hasUnique() && h.excluded(kUniqueTombstone)
	if tombstoneBan && kind == "delete" {
		vk.CountExcluded(kUniqueTombstone)
		kind = "insert"
	}
	s := &stmt{tbl: t.name}
	switch kind {
	case "insert", "upsert", "ignore", "doupdate":
		s.kind = map[string]stmtKind{"insert": kInsert, "upsert": kUpsert, "ignore": kInsertIgnore, "doupdate": kInsertUpdate}[kind]
		omitAuto := ac != nil && (s.kind == kInsert && chance(rt, "omitAuto", 75) || s.kind != kInsert && chance(rt, "omitAuto2", 10))
		if ac != nil && o.conc && s.kind == kInsert {
			omitAuto = true
		}
		if omitAuto && t.explicitAuto && !o.oneShot && h.excluded(kAutoAfterExpl) {
			// a generated key after an explicit one in the same transaction: known finding K12i
			vk.CountExcluded(kAutoAfterExpl)
			omitAuto = false
		}
		if ac != nil && o.oneShot {
			// explicit and generated keys are not mixed where the keys cannot be read back per statement
			s.kind = kInsert
			omitAuto = true
		}
		for i := range t.cols {
			c := &t.cols[i]
			switch {
			case c.autoInc:
				if omitAuto {
					continue
				}
			case t.isPK(c.id):
			case c.notNull:
				if chance(rt, "omitNotNull", o.violRate) {
					continue
				}
			default:
				if chance(rt, "omitCol", 15) && !t.inCheck(c.id) {
					continue
				}
			}
			s.cols = append(s.cols, c.id)
		}
		if len(s.cols) == 0 {
			// the column list is never empty: a table whose only column left is the AUTO_INCREMENT key
			// (everything else was dropped) gets an explicit key value
			for i := range t.cols {
				if !t.cols[i].autoInc {
					s.cols = append(s.cols, t.cols[i].id)
					break
				}
			}
			if len(s.cols) == 0 {
				for _, p := range t.pk {
					s.cols = append(s.cols, p)
				}
				omitAuto = false
			}
			if len(s.cols) == 0 {
				return nil
			}
		}
		if chance(rt, "shuffleCols", 20) {
			s.cols = rapid.Permutation(s.cols).Draw(rt, "colPerm")
		}
		nrows := rapid.SampledFrom([]int{1, 1, 1, 2, 3}).Draw(rt, "nRows")
		if o.conc {
			nrows = rapid.SampledFrom([]int{1, 1, 1, 1, 2}).Draw(rt, "nRowsConc")
		}
		wantExisting := map[stmtKind]int{kInsert: 18, kUpsert: 60, kInsertIgnore: 50, kInsertUpdate: 70}[s.kind]
		for r := 0; r < nrows; r++ {
			var ex row
			if chance(rt, "useExisting", wantExisting) {
				ex = existingRow(rt, t)
			}
			tries := 1
			if o.conc {
				tries = 4
			}
			var vals []V
			for try := 0; try < tries; try++ {
				vals = h.genRowVals(rt, t, s, ex, o, tombstoneBan)
				if try == tries-1 || h.plausible(t, s, vals, ex != nil) {
					break
				}
			}
			s.rows = append(s.rows, vals)
		}
		if omitAuto && s.kind != kUpsert {
			s.nAuto = len(s.rows)
		}
		if s.kind == kInsertUpdate {
			s.set = h.genSet(rt, t, o, true, tombstoneBan)
			if len(s.set) == 0 {
				s.kind = kInsertIgnore
			}
		}
	case "update":
		s.kind = kUpdate
		s.set = h.genSet(rt, t, o, false, tombstoneBan)
		if len(s.set) == 0 {
			s.kind = kDelete
			if tombstoneBan {
				return nil
			}
		}
		s.where = genWhere(rt, t, o)
	case "delete":
		s.kind = kDelete
		s.where = genWhere(rt, t, o)
		if s.where == nil && !chance(rt, "deleteAll", 25) {
			s.where = pkEq(rt, t)
		}
	}
	return s
}

// plausible: the row passes the CHECKs and, for a plain INSERT of a new row, its key is free in the reference copy.
func (h *harness) plausible(t *table, s *stmt, vals []V, existing bool) bool {
	r := row{}
	for i, cid := range s.cols {
		if !vals[i].Null {
			r[cid] = vals[i]
		}
	}
	for _, ck := range t.checks {
		if ck.e.eval(r) == tFalse {
			return false
		}
	}
	pk, havePK := t.pkKeyOf(r)
	if s.kind == kInsert && !existing && havePK {
		if _, taken := t.rows[pk]; taken {
			return false
		}
	}
	for _, ix := range t.indexes {
		if !ix.unique {
			continue
		}
		k, nn := projKey(ix, r)
		if !nn {
			continue
		}
		for opk, or := range t.rows {
			if ok, _ := projKey(ix, or); ok == k && (!havePK || opk != pk) {
				return false
			}
		}
	}
	return true
}

func (h *harness) genRowVals(rt *rapid.T, t *table, s *stmt, ex row, o genOpts, tombstoneBan bool) []V {
	vals := make([]V, len(s.cols))
	for i, cid := range s.cols {
		c := t.col(cid)
		if t.isPK(cid) {
			if ex != nil {
				vals[i] = ex[cid]
			} else if hv, ok := o.hot[t.name+"."+c.name]; ok && chance(rt, "hotPK", 50) {
				vals[i] = hv
			} else {
				vals[i] = pickV(rt, "pkVal", c.pool)
				if c.autoInc && chance(rt, "bigAuto", 50) {
					vals[i] = sqlgen.Int(int64(rapid.IntRange(1, 40).Draw(rt, "autoExplicit")))
				}
			}
		}
	}
	if ex == nil {
		// the key may exist all the same
		r := row{}
		for i, cid := range s.cols {
			if t.isPK(cid) {
				r[cid] = vals[i]
			}
		}
		if pk, ok := t.pkKeyOf(r); ok {
			ex = t.rows[pk]
		}
	}
	// delete-then-reinsert on unique columns: take the unique key some row version held before
	var donor row
	if t.hasUnique() && len(t.versions) > 0 && chance(rt, "reuseUniqueKey", 40) {
		var pks []string
		for pk := range t.versions {
			pks = append(pks, pk)
		}
		sort.Strings(pks)
		vs := t.versions[pks[rapid.IntRange(0, len(pks)-1).Draw(rt, "donorPK")]]
		donor = vs[rapid.IntRange(0, len(vs)-1).Draw(rt, "donorVersion")]
	}
	for i, cid := range s.cols {
		if t.isPK(cid) {
			continue
		}
		c := t.col(cid)
		vals[i] = genValue(rt, t, c, o)
		if donor != nil && t.inUnique(cid) {
			if v, ok := donor[cid]; ok {
				vals[i] = v
			}
		}
		if tombstoneBan && ex != nil && t.inUnique(cid) && s.kind != kInsert && s.kind != kInsertIgnore {
			// would move an existing row to another unique key (tombstone): keep its key
			if v, ok := ex[cid]; ok {
				vals[i] = v
			} else {
				vals[i] = sqlgen.Null(c.typ)
			}
			vk.CountExcluded(kUniqueTombstone)
		}
	}
	return vals
}

// genSet draws the assignments of UPDATE / ON CONFLICT DO UPDATE.
func (h *harness) genSet(rt *rapid.T, t *table, o genOpts, onConflict, tombstoneBan bool) []assign {
	var settable []*col
	for i := range t.cols {
		c := &t.cols[i]
		if t.isPK(c.id) {
			continue
		}
		if tombstoneBan && t.inUnique(c.id) {
			continue
		}
		settable = append(settable, c)
	}
	var out []assign
	if !o.conc && chance(rt, "setPK", 3) {
		// assignment to a key column: UPDATE must refuse it; ON CONFLICT DO UPDATE is known finding K12d
		if onConflict && h.excluded(kConflictSetsPK) {
			vk.CountExcluded(kConflictSetsPK)
		} else {
			c := t.col(t.pk[0])
			return []assign{{c: c.id, v: pickV(rt, "setPKVal", c.pool)}}
		}
	}
	if len(settable) == 0 {
		return nil
	}
	n := rapid.IntRange(1, min(2, len(settable))).Draw(rt, "nSet")
	perm := rapid.Permutation(settable).Draw(rt, "setPerm")
	for _, c := range perm[:n] {
		if c.typ == sqlgen.TInt && c.small && chance(rt, "incr", 25) {
			out = append(out, assign{c: c.id, incr: rapid.SampledFrom([]int64{1, -1, 2}).Draw(rt, "incrBy")})
			continue
		}
		v := genValue(rt, t, c, o)
		if v.Null && c.notNull && h.excluded(kUpdateNotNull) {
			vk.CountExcluded(kUpdateNotNull)
			v = pickV(rt, "setVal", c.pool)
		}
		out = append(out, assign{c: c.id, v: v})
	}
	return out
}

func pkEq(rt *rapid.T, t *table) expr {
	ex := existingRow(rt, t)
	if ex != nil && chance(rt, "pkMiss", 12) {
		ex = nil
	}
	var e expr
	for _, p := range t.pk {
		c := t.col(p)
		var v V
		if ex != nil {
			v = ex[p]
		} else {
			v = pickV(rt, "pkLit", c.pool)
		}
		leaf := &cmpLit{c: p, op: "=", v: v}
		if e == nil {
			e = leaf
		} else {
			e = &logic{op: "AND", l: e, r: leaf}
		}
	}
	return e
}

// genWhere draws a WHERE clause whose set of matching rows does not depend on
// how NULL compares: no negation, and on nullable columns only =, IN, >, >=,
// two-sided ranges and IS [NOT] NULL.
func genWhere(rt *rapid.T, t *table, o genOpts) expr {
	form := weighted(rt, "where", []wc{{"pk", 45}, {"leaf", 30}, {"and", 8}, {"or", 10}, {"none", 7}})
	switch form {
	case "none":
		return nil
	case "pk":
		return pkEq(rt, t)
	case "and", "or":
		l, r := whereLeaf(rt, t, o), whereLeaf(rt, t, o)
		if l == nil || r == nil {
			return pkEq(rt, t)
		}
		return &logic{op: strings.ToUpper(form), l: l, r: r}
	}
	if e := whereLeaf(rt, t, o); e != nil {
		return e
	}
	return pkEq(rt, t)
}

func whereLeaf(rt *rapid.T, t *table, o genOpts) expr {
	var usable []*col
	for i := range t.cols {
		c := &t.cols[i]
		if c.typ == sqlgen.TJSON || c.typ == sqlgen.TFloat {
			continue
		}
		// inside a transaction that already wrote the table, scans through a
		// secondary index are unreliable (C11 known findings K11/K12): keep
		// the predicate on key and non-indexed columns
		if (o.inTx && t.wrote || o.conc) && t.indexed(c.id) {
			continue
		}
		usable = append(usable, c)
	}
	if len(usable) == 0 {
		return nil
	}
	c := usable[rapid.IntRange(0, len(usable)-1).Draw(rt, "whereCol")]
	forms := []wc{{"eq", 45}, {"in", 15}, {"range", 15}, {"gt", 10}}
	if !c.notNull {
		forms = append(forms, wc{"isnull", 10}, wc{"notnull", 5})
	} else {
		forms = append(forms, wc{"any", 10})
	}
	if c.typ == sqlgen.TBool {
		forms = []wc{{"eq", 1}}
	}
	switch weighted(rt, "leaf", forms) {
	case "in":
		n := rapid.IntRange(1, min(3, len(c.pool))).Draw(rt, "inN")
		return &inList{c: c.id, vs: rapid.Permutation(c.pool).Draw(rt, "inVals")[:n]}
	case "range":
		a, b := litFor(rt, c), litFor(rt, c)
		if sqlgen.Compare(a, b) > 0 {
			a, b = b, a
		}
		return &logic{op: "AND", l: &cmpLit{c: c.id, op: ">=", v: a}, r: &cmpLit{c: c.id, op: "<=", v: b}}
	case "gt":
		return &cmpLit{c: c.id, op: rapid.SampledFrom([]string{">", ">="}).Draw(rt, "gtOp"), v: litFor(rt, c)}
	case "isnull":
		return &isNull{c: c.id}
	case "notnull":
		return &isNull{c: c.id, not: true}
	case "any":
		return &cmpLit{c: c.id, op: rapid.SampledFrom(allOps).Draw(rt, "anyOp"), v: litFor(rt, c)}
	}
	return &cmpLit{c: c.id, op: "=", v: litFor(rt, c)}
}

// ---------------------------------------------------------------------------
// DDL on populated tables

func (h *harness) genDDL(rt *rapid.T, t *table, later *[]index, inTx bool) *stmt {
	kind := weighted(rt, "ddl", []wc{{"index", 36}, {"add", 20}, {"drop", 16}, {"rename", 18}, {"dropcheck", 10}})
	if len(t.checks) > 0 && chance(rt, "preferDropCheck", 25) {
		kind = "dropcheck"
	}
	if inTx && kind == "add" {
		// ADD COLUMN only as an autocommit statement: the store's index mappers keep the catalog object of the
		// transaction that registered them, a column added by a transaction that does not commit stays in it,
		// and a later column with the same id and another type makes indexing fail for ever (commits hang)
		kind = "rename"
	}
	s := &stmt{tbl: t.name}
	switch kind {
	case "index":
		s.kind = kCreateIndex
		if len(*later) > 0 && chance(rt, "planned", 60) {
			s.ix = (*later)[0]
			*later = (*later)[1:]
			ok := true
			for _, c := range s.ix.cols {
				if t.col(c) == nil {
					ok = false
				}
			}
			if ok {
				return s
			}
		}
		var cand []col
		for _, c := range t.cols {
			// key columns stay out of secondary indexes: the planner prefers such an index for key
			// equality and its in-transaction scans are stale (C11 known finding K11)
			if indexable(c) && !t.isPK(c.id) {
				cand = append(cand, c)
			}
		}
		if len(cand) == 0 {
			return nil
		}
		n := rapid.SampledFrom([]int{1, 1, 2}).Draw(rt, "ixCols")
		if n > len(cand) {
			n = len(cand)
		}
		s.ix = index{unique: chance(rt, "unique", 60)}
		for _, c := range rapid.Permutation(cand).Draw(rt, "ixPerm")[:n] {
			s.ix.cols = append(s.ix.cols, c.id)
		}
	case "add":
		s.kind = kAddCol
		name := fmt.Sprintf("n%d", t.nextCol)
		if len(t.dropped) > 0 && chance(rt, "reuseName", 60) {
			name = t.dropped[rapid.IntRange(0, len(t.dropped)-1).Draw(rt, "droppedName")].name
		}
		c := genCol(rt, t, name, false)
		if c.typ == sqlgen.TJSON && len(t.checks) > 0 {
			c.typ = sqlgen.TBool
		}
		c.notNull = chance(rt, "addNotNull", 8)
		fillPool(rt, &c, rapid.IntRange(3, 5).Draw(rt, "poolSize"))
		s.ncol = c
	case "drop":
		s.kind = kDropCol
		var free, bound []col
		for _, c := range t.cols {
			if t.isPK(c.id) || t.indexed(c.id) || t.inCheck(c.id) {
				bound = append(bound, c)
			} else {
				free = append(free, c)
			}
		}
		switch {
		case len(free) > 0 && (len(bound) == 0 || !chance(rt, "dropBound", 15)):
			s.cid = free[rapid.IntRange(0, len(free)-1).Draw(rt, "dropCol")].id
		case len(bound) > 0:
			s.cid = bound[rapid.IntRange(0, len(bound)-1).Draw(rt, "dropBoundCol")].id
		default:
			return nil
		}
	case "dropcheck":
		s.kind = kDropCheck
		if len(t.checks) == 0 || chance(rt, "dropMissingCheck", 8) {
			s.newName = "ck_none_" + t.name
		} else {
			s.newName = t.checks[rapid.IntRange(0, len(t.checks)-1).Draw(rt, "dropCheck")].name
		}
	case "rename":
		s.kind = kRenameCol
		var cand []col
		for _, c := range t.cols {
			if !t.inCheck(c.id) { // what a CHECK means after its column is renamed is not documented
				cand = append(cand, c)
			}
		}
		if len(cand) == 0 {
			return nil
		}
		s.cid = cand[rapid.IntRange(0, len(cand)-1).Draw(rt, "renCol")].id
		s.newName = fmt.Sprintf("r%d", h.nameCtr)
		h.nameCtr++
		if chance(rt, "renameClash", 8) {
			s.newName = t.cols[rapid.IntRange(0, len(t.cols)-1).Draw(rt, "clash")].name
		}
	}
	return s
}

// ---------------------------------------------------------------------------
// rendering

func (h *harness) render(t *table, s *stmt, useParams bool) {
	s.args = nil
	lit := func(v V) string {
		if useParams && !v.Null {
			if p, ok := v.Param(); ok {
				name := fmt.Sprintf("p%d", h.paramCtr)
				h.paramCtr++
				if s.args == nil {
					s.args = map[string]interface{}{}
				}
				s.args[name] = p
				return "@" + name
			}
		}
		return v.SQL()
	}
	sets := func() string {
		parts := make([]string, len(s.set))
		for i, a := range s.set {
			n := cname(t, a.c)
			if a.incr != 0 {
				parts[i] = fmt.Sprintf("%s = %s + %d", n, n, a.incr)
				if a.incr < 0 {
					parts[i] = fmt.Sprintf("%s = %s - %d", n, n, -a.incr)
				}
			} else {
				parts[i] = n + " = " + lit(a.v)
			}
		}
		return strings.Join(parts, ", ")
	}
	var sb strings.Builder
	switch s.kind {
	case kInsert, kUpsert, kInsertIgnore, kInsertUpdate:
		if s.kind == kUpsert {
			sb.WriteString("UPSERT INTO ")
		} else {
			sb.WriteString("INSERT INTO ")
		}
		names := make([]string, len(s.cols))
		for i, c := range s.cols {
			names[i] = cname(t, c)
		}
		sb.WriteString(t.name + " (" + strings.Join(names, ", ") + ") VALUES ")
		for i, r := range s.rows {
			if i > 0 {
				sb.WriteString(", ")
			}
			vs := make([]string, len(r))
			for j, v := range r {
				vs[j] = lit(v)
			}
			sb.WriteString("(" + strings.Join(vs, ", ") + ")")
		}
		switch s.kind {
		case kInsertIgnore:
			sb.WriteString(" ON CONFLICT DO NOTHING")
		case kInsertUpdate:
			sb.WriteString(" ON CONFLICT DO UPDATE SET " + sets())
		}
	case kUpdate:
		sb.WriteString("UPDATE " + t.name + " SET " + sets())
		if s.where != nil {
			sb.WriteString(" WHERE " + s.where.sql(t))
		}
	case kDelete:
		sb.WriteString("DELETE FROM " + t.name)
		if s.where != nil {
			sb.WriteString(" WHERE " + s.where.sql(t))
		}
	case kCreateIndex:
		sb.WriteString(indexSQL(t, s.ix))
	case kAddCol:
		sb.WriteString("ALTER TABLE " + t.name + " ADD COLUMN " + colSpecSQL(t, s.ncol))
	case kDropCol:
		sb.WriteString("ALTER TABLE " + t.name + " DROP COLUMN " + cname(t, s.cid))
	case kDropCheck:
		sb.WriteString("ALTER TABLE " + t.name + " DROP CONSTRAINT " + s.newName)
	case kRenameCol:
		sb.WriteString("ALTER TABLE " + t.name + " RENAME COLUMN " + cname(t, s.cid) + " TO " + s.newName)
	}
	s.text = sb.String()
}
