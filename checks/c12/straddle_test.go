package c12

// Sessions that hold a read-write transaction open across DDL commits of other
// sessions (they only read, or do nothing) and then commit / roll back; the DDL
// runs back-to-back and also as the first statements after (re)opening the
// engine. Afterwards fresh sessions try to break the constraints that DDL
// declared. On a correct engine the holder's end changes nothing.

import (
	"context"
	"fmt"

	"github.com/codenotary/immudb/embedded/sql"
	"pgregory.net/rapid"

	"verif/internal/sqlgen"
)

type holder struct {
	id     int
	tx     *sql.SQLTx
	newTx  bool
	tables []string // tables of the catalog the holder opened on
}

func (h *harness) openHolder(betweenDDL bool) *holder {
	ctx := context.Background()
	x := &holder{id: h.holderCtr, newTx: chance(h.rt, "holderNewTx", 40)}
	h.holderCtr++
	var err error
	if x.newTx {
		x.tx, err = h.db.Eng.NewTx(ctx, sql.DefaultTxOptions().WithExplicitClose(true))
	} else {
		x.tx, _, err = h.db.Eng.Exec(ctx, nil, "BEGIN TRANSACTION", nil)
	}
	h.logf("[holder %d] open read-write transaction -> %s", x.id, short(err))
	if err != nil || x.tx == nil {
		h.failf("cannot open a transaction: %v", err)
	}
	for _, t := range h.m.tables {
		x.tables = append(x.tables, t.name)
	}
	h.c.Descf("holder%d-open", x.id)
	h.c.Label("holder-opened")
	if betweenDDL {
		h.c.Label("holder-opened-between-two-ddl-commits")
	}
	if chance(h.rt, "holderReadsAtOnce", 60) {
		h.holderRead(x)
	}
	return x
}

// holderRead: the holder only reads (tables of its own catalog).
func (h *harness) holderRead(x *holder) {
	if len(x.tables) == 0 || x.tx.Closed() {
		return
	}
	name := x.tables[rapid.IntRange(0, len(x.tables)-1).Draw(h.rt, "holderTable")]
	_, err := sqlgen.QueryEngine(h.db.Eng, x.tx, "SELECT * FROM "+name, nil)
	h.logf("[holder %d] SELECT * FROM %s -> %s", x.id, name, short(err))
	h.c.Label("holder-read")
}

// closeHolder ends the holder's transaction; it wrote nothing.
func (h *harness) closeHolder(x *holder) {
	ctx := context.Background()
	if x.tx.Closed() {
		return
	}
	if chance(h.rt, "holderReadsBeforeEnd", 30) {
		h.holderRead(x)
	}
	if x.tx.Closed() {
		return
	}
	if chance(h.rt, "holderRollback", 25) {
		_, _, err := h.db.Eng.Exec(ctx, x.tx, "ROLLBACK", nil)
		h.logf("[holder %d] ROLLBACK -> %s", x.id, short(err))
		h.c.Descf("holder%d-rollback", x.id)
		h.c.Label("holder-rolled-back")
		return
	}
	var err error
	if x.newTx {
		err = x.tx.Commit(ctx)
	} else {
		_, _, err = h.db.Eng.Exec(ctx, x.tx, "COMMIT", nil)
	}
	h.logf("[holder %d] COMMIT (nothing written) -> %s", x.id, short(err))
	h.c.Descf("holder%d-commit", x.id)
	if err != nil {
		h.c.Label("holder-commit-error-" + errClass(err))
		if !x.tx.Closed() {
			x.tx.Cancel()
		}
		return
	}
	h.c.Label("holder-committed-without-writes")
}

// setupSchemaStraddled creates the tables and their indexes back-to-back (no
// query in between, the engine was just opened) while holders open at drawn
// positions of that DDL sequence and end after it.
func (h *harness) setupSchemaStraddled(nTables int) map[string]*[]index {
	rt := h.rt
	later := map[string]*[]index{}
	type step struct {
		sql string
		fn  func()
	}
	var steps []step
	for i := 1; i <= nTables; i++ {
		t, l := genTable(rt, fmt.Sprintf("t%d", i), false)
		ll := l
		later[t.name] = &ll
		tt := t
		pending := tt.indexes
		tt.indexes = nil
		steps = append(steps, step{sql: tt.createSQL(), fn: func() { h.m.tables = append(h.m.tables, tt) }})
		for _, ix := range pending {
			ix := ix
			steps = append(steps, step{sql: indexSQL(tt, ix), fn: func() {
				ix.names = ixName(tt, ix)
				tt.indexes = append(tt.indexes, ix)
				if ix.unique {
					h.c.Label("unique-index-created-while-a-holder-is-open")
				}
			}})
		}
		h.c.Descf("%s", tt.createSQL())
		for _, ix := range pending {
			h.c.Descf("%s", indexSQL(tt, ix))
		}
		if tt.autoCol() != nil {
			h.c.Label("schema-auto-increment")
		}
		if len(tt.checks) > 0 {
			h.c.Label("schema-check")
		}
		if len(tt.pk) > 1 {
			h.c.Label("schema-composite-pk")
		}
	}
	nHold := rapid.IntRange(1, 2).Draw(rt, "setupHolders")
	openAt := make([]int, nHold)
	for i := range openAt {
		// mostly after the first CREATE TABLE: the holder then knows a table and lacks the later DDL
		openAt[i] = rapid.IntRange(0, len(steps)-1).Draw(rt, "holderOpenAt")
		if openAt[i] == 0 && len(steps) > 1 && chance(rt, "holderAfterFirstTable", 70) {
			openAt[i] = 1
		}
	}
	var holders []*holder
	h.c.Label("schema-set-up-with-holders")
	for i, st := range steps {
		for _, at := range openAt {
			if at == i {
				holders = append(holders, h.openHolder(i > 0))
				h.c.Descf("holder-open-at-step-%d", i)
			}
		}
		h.ddl(st.sql)
		st.fn()
	}
	for _, t := range h.m.tables {
		if t.hasUnique() {
			h.c.Label("schema-unique-index")
		}
	}
	for _, x := range holders {
		h.closeHolder(x)
	}
	h.verify("after the schema set-up with open holders")
	h.targetedDuplicates(nil)
	return later
}

func uniqueSet(m *model) map[string]bool {
	out := map[string]bool{}
	for _, t := range m.tables {
		for _, ix := range t.indexes {
			if ix.unique {
				out[t.name+fmt.Sprint(ix.cols)] = true
			}
		}
	}
	return out
}

// window: holders stay open while other sessions commit DDL (back-to-back, also
// right after a reopen) and DML; no query of the harness runs inside it.
func (h *harness) window(later map[string]*[]index) {
	rt := h.rt
	h.c.Label("window-with-holders")
	h.c.Descf("window")
	if chance(rt, "windowAfterReopen", 35) {
		if err := h.db.Reopen(h.db.Opts); err != nil {
			h.failf("reopen: %v", err)
		}
		h.logf("-- reopen (no query follows)")
		h.c.Descf("reopen")
		h.c.Label("window-starts-right-after-reopen")
	}
	before := uniqueSet(h.m)
	h.noVerify = true
	var holders []*holder
	if chance(rt, "holderBeforeWindow", 50) {
		holders = append(holders, h.openHolder(false))
	}
	// an emptied table can take a new unique index
	if chance(rt, "emptyATable", 45) {
		t := h.m.tables[rapid.IntRange(0, len(h.m.tables)-1).Draw(rt, "emptyTable")]
		h.runAuto(&stmt{kind: kDelete, tbl: t.name}, "window")
	}
	nOps := rapid.IntRange(2, 4).Draw(rt, "windowOps")
	ddlSeen := 0
	for i := 0; i < nOps && !h.stop; i++ {
		if i > 0 && len(holders) < 2 && chance(rt, "holderInsideWindow", 60) {
			holders = append(holders, h.openHolder(ddlSeen > 0))
		}
		n0 := h.ddlAccepted
		h.ddlBoost = true
		h.runTx(later, true)
		h.ddlBoost = false
		if h.ddlAccepted > n0 {
			ddlSeen++
			if ddlSeen > 1 {
				h.c.Label("ddl-commits-back-to-back-in-window")
			}
		}
	}
	if len(holders) == 0 {
		holders = append(holders, h.openHolder(ddlSeen > 0))
	}
	for _, x := range holders {
		h.closeHolder(x)
	}
	h.noVerify = false
	if h.stop {
		return
	}
	h.verify("after a window with open holders")
	h.targetedDuplicates(before)
}

// targetedDuplicates: fresh sessions insert two rows with the same key for
// every unique index (created in the window when before != nil): the second
// one must be refused.
func (h *harness) targetedDuplicates(before map[string]bool) {
	rt := h.rt
	for _, t0 := range h.m.tables {
		for _, ix0 := range t0.indexes {
			if !ix0.unique || (before != nil && before[t0.name+fmt.Sprint(ix0.cols)]) || h.stop {
				continue
			}
			if before == nil && !chance(rt, "dupAfterSetup", 60) {
				continue
			}
			var first []V
			var cols []int
			for k := 0; k < 2; k++ {
				t := h.m.table(t0.name)
				s := &stmt{kind: kInsert, tbl: t.name}
				ac := t.autoCol()
				for _, c := range t.cols {
					if ac != nil && c.id == ac.id {
						continue
					}
					s.cols = append(s.cols, c.id)
				}
				if ac != nil {
					s.nAuto = 1
				}
				var vals []V
				for try := 0; try < 6; try++ {
					vals = h.genRowVals(rt, t, s, nil, genOpts{}, false)
					if k == 1 {
						for i, cid := range s.cols {
							for _, uc := range ix0.cols {
								if cid == uc && fmt.Sprint(cols) == fmt.Sprint(s.cols) {
									vals[i] = first[i]
								}
							}
						}
					}
					allSet := true
					for i, cid := range s.cols {
						for _, uc := range ix0.cols {
							if cid == uc && vals[i].Null {
								allSet = false
							}
						}
					}
					if !allSet {
						continue
					}
					if k == 0 && h.plausible(t, s, vals, false) {
						break
					}
					if k == 1 && h.freshPK(t, s, vals) {
						break
					}
				}
				s.rows = [][]V{vals}
				if k == 0 {
					first, cols = vals, s.cols
				}
				h.c.Label("targeted-duplicate-insert")
				h.runAuto(s, "fresh session after the holders ended")
			}
		}
	}
}

func (h *harness) freshPK(t *table, s *stmt, vals []V) bool {
	r := row{}
	for i, cid := range s.cols {
		if !vals[i].Null {
			r[cid] = vals[i]
		}
	}
	pk, ok := t.pkKeyOf(r)
	if !ok {
		return t.autoCol() != nil
	}
	_, taken := t.rows[pk]
	return !taken
}

// runAuto runs one prepared statement as an autocommit transaction of a fresh session.
func (h *harness) runAuto(s *stmt, where string) {
	work := h.m.clone()
	work.beginTx()
	t := work.table(s.tbl)
	h.render(t, s, false)
	pre := work.clone()
	o := pre.apply(s)
	if h.skipKnown(&o) {
		return
	}
	h.nStmts++
	h.c.Descf("%s", s.text)
	h.labelStmt(s, &o)
	_, committed, err := h.exec(nil, s.text, s.args)
	h.logf("%s %v -> %s", s.text, s.args, short(err))
	h.noteResult(s.tbl, &o, err)
	if err != nil {
		h.verify("after the refused statement of a " + where + " [" + lastLog(h.log) + "]")
		return
	}
	h.checkAccepted(s, &o, where)
	if s.nAuto > 0 {
		if len(committed) == 0 {
			h.failf("no committed transaction reports the generated keys of %s", s.text)
		}
		s.autoKeys = autoKeysFrom(committed[len(committed)-1], s)
		if s.autoKeys == nil {
			h.failf("LastInsertedPKs has no entry for %s after %s", s.tbl, s.text)
		}
		post := work.clone()
		o2 := post.apply(s)
		if sm := o2.soundMust(h.isExcluded); sm != nil {
			h.failf("auto-generated keys %v of %s collide or break a constraint (%s): %s", s.autoKeys, s.text, sm.class, sm.what)
		}
		pre = post
	}
	h.m = pre
	if o.resync {
		h.resync[s.tbl] = true
	}
	h.verify("after [" + lastLog(h.log) + "] of a " + where)
}
