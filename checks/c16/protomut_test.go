package c16

import (
	"fmt"
	"math"

	"google.golang.org/protobuf/proto"
	"google.golang.org/protobuf/reflect/protoreflect"
	"pgregory.net/rapid"
)

// generic structure-aware mutation of a protobuf message: every field that the
// wire can carry differently (absent sub-message, digest of the wrong length,
// hostile integers, shorter/longer repeated fields).

type protoSite struct {
	path string
	msg  protoreflect.Message
	fd   protoreflect.FieldDescriptor
}

func collectSites(prefix string, m protoreflect.Message, depth int, out *[]protoSite) {
	fds := m.Descriptor().Fields()
	for i := 0; i < fds.Len(); i++ {
		fd := fds.Get(i)
		p := prefix + string(fd.Name())
		*out = append(*out, protoSite{p, m, fd})
		if depth <= 0 {
			continue
		}
		if fd.Kind() == protoreflect.MessageKind || fd.Kind() == protoreflect.GroupKind {
			if fd.IsList() {
				l := m.Get(fd).List()
				for k := 0; k < l.Len() && k < 3; k++ {
					collectSites(fmt.Sprintf("%s[%d].", p, k), l.Get(k).Message(), depth-1, out)
				}
			} else if !fd.IsMap() && m.Has(fd) {
				collectSites(p+".", m.Get(fd).Message(), depth-1, out)
			}
		}
	}
}

var bytesLens = []int{0, 1, 31, 32, 33, 64, 256, 257, 70000}

func fillBytes(n int, seed byte) []byte {
	b := make([]byte, n)
	for i := range b {
		b[i] = seed + byte(i)
	}
	return b
}

// mutateProtoOnce edits m in place and returns the descriptor of the edit.
func mutateProtoOnce(rt *rapid.T, m proto.Message, tag string) string {
	var sites []protoSite
	collectSites("", m.ProtoReflect(), 5, &sites)
	if len(sites) == 0 {
		return "no-sites"
	}
	s := sites[rapid.IntRange(0, len(sites)-1).Draw(rt, tag+"site")]
	fd, msg := s.fd, s.msg
	if fd.IsMap() {
		msg.Clear(fd)
		return s.path + "=cleared-map"
	}
	if fd.IsList() {
		l := msg.Mutable(fd).List()
		op := rapid.SampledFrom([]string{"clear", "dropLast", "dupLast", "appendZero", "appendMany", "elem"}).Draw(rt, tag+"listop")
		switch op {
		case "clear":
			msg.Clear(fd)
		case "dropLast":
			if l.Len() > 0 {
				l.Truncate(l.Len() - 1)
			}
		case "dupLast":
			if l.Len() > 0 {
				l.Append(l.Get(l.Len() - 1))
			} else {
				l.Append(l.NewElement())
			}
		case "appendZero":
			l.Append(l.NewElement())
		case "appendMany":
			for i := 0; i < 3000; i++ {
				l.Append(l.NewElement())
			}
		case "elem":
			if l.Len() == 0 {
				l.Append(l.NewElement())
				break
			}
			k := rapid.IntRange(0, l.Len()-1).Draw(rt, tag+"elemIdx")
			if fd.Kind() == protoreflect.BytesKind {
				n := rapid.SampledFrom(bytesLens).Draw(rt, tag+"blen")
				l.Set(k, protoreflect.ValueOfBytes(fillBytes(n, 7)))
				return fmt.Sprintf("%s[i]=bytes(%d)", s.path, n)
			}
			if fd.Kind() == protoreflect.MessageKind {
				l.Set(k, l.NewElement())
				return s.path + "[i]=empty-message"
			}
		}
		return s.path + " list:" + op
	}
	switch fd.Kind() {
	case protoreflect.MessageKind, protoreflect.GroupKind:
		if msg.Has(fd) && rapid.IntRange(0, 3).Draw(rt, tag+"msgop") != 0 {
			msg.Clear(fd)
			return s.path + "=nil"
		}
		msg.Set(fd, protoreflect.ValueOfMessage(msg.NewField(fd).Message()))
		return s.path + "=empty-message"
	case protoreflect.BytesKind:
		n := rapid.SampledFrom(bytesLens).Draw(rt, tag+"blen")
		msg.Set(fd, protoreflect.ValueOfBytes(fillBytes(n, 3)))
		return fmt.Sprintf("%s=bytes(%d)", s.path, n)
	case protoreflect.StringKind:
		n := rapid.SampledFrom([]int{0, 1, 300, 70000}).Draw(rt, tag+"slen")
		msg.Set(fd, protoreflect.ValueOfString(string(fillBytes(n, 'a'))))
		return fmt.Sprintf("%s=string(%d)", s.path, n)
	case protoreflect.BoolKind:
		msg.Set(fd, protoreflect.ValueOfBool(!msg.Get(fd).Bool()))
		return s.path + "=!bool"
	case protoreflect.EnumKind:
		msg.Set(fd, protoreflect.ValueOfEnum(protoreflect.EnumNumber(rapid.SampledFrom([]int32{0, 1, 2, 99, -1}).Draw(rt, tag+"enum"))))
		return s.path + "=enum"
	case protoreflect.DoubleKind, protoreflect.FloatKind:
		v := rapid.SampledFrom([]float64{0, -1, math.NaN(), math.Inf(1), math.MaxFloat64}).Draw(rt, tag+"f")
		if fd.Kind() == protoreflect.FloatKind {
			msg.Set(fd, protoreflect.ValueOfFloat32(float32(v)))
		} else {
			msg.Set(fd, protoreflect.ValueOfFloat64(v))
		}
		return s.path + "=float"
	}
	// integers
	type iv struct {
		class string
		f     func(cur int64) int64
	}
	ivs := []iv{
		{"0", func(int64) int64 { return 0 }}, {"1", func(int64) int64 { return 1 }}, {"2", func(int64) int64 { return 2 }},
		{"v-1", func(c int64) int64 { return c - 1 }}, {"v+1", func(c int64) int64 { return c + 1 }}, {"v+2", func(c int64) int64 { return c + 2 }},
		{"-1", func(int64) int64 { return -1 }}, {"max32", func(int64) int64 { return math.MaxInt32 }}, {"min32", func(int64) int64 { return math.MinInt32 }},
		{"max64", func(int64) int64 { return math.MaxInt64 }}, {"min64", func(int64) int64 { return math.MinInt64 }}, {"1<<20", func(int64) int64 { return 1 << 20 }},
		{"3", func(int64) int64 { return 3 }}, {"255", func(int64) int64 { return 255 }},
	}
	ch := ivs[rapid.IntRange(0, len(ivs)-1).Draw(rt, tag+"int")]
	switch fd.Kind() {
	case protoreflect.Int32Kind, protoreflect.Sint32Kind, protoreflect.Sfixed32Kind:
		msg.Set(fd, protoreflect.ValueOfInt32(int32(ch.f(msg.Get(fd).Int()))))
	case protoreflect.Int64Kind, protoreflect.Sint64Kind, protoreflect.Sfixed64Kind:
		msg.Set(fd, protoreflect.ValueOfInt64(ch.f(msg.Get(fd).Int())))
	case protoreflect.Uint32Kind, protoreflect.Fixed32Kind:
		msg.Set(fd, protoreflect.ValueOfUint32(uint32(ch.f(int64(msg.Get(fd).Uint())))))
	case protoreflect.Uint64Kind, protoreflect.Fixed64Kind:
		msg.Set(fd, protoreflect.ValueOfUint64(uint64(ch.f(int64(msg.Get(fd).Uint())))))
	default:
		return s.path + "=untouched"
	}
	return s.path + "=" + ch.class
}

// mutateProto clones m, applies 1..3 edits and passes the result through the
// wire format (so that it is exactly what a peer can make the decoder produce).
func mutateProto[T proto.Message](rt *rapid.T, m T) (T, string, bool) {
	c := proto.Clone(m).(T)
	n := rapid.SampledFrom([]int{1, 1, 1, 2, 3}).Draw(rt, "nProtoMut")
	desc := ""
	for i := 0; i < n; i++ {
		if i > 0 {
			desc += " + "
		}
		desc += mutateProtoOnce(rt, c, fmt.Sprintf("p%d.", i))
	}
	wire, err := proto.Marshal(c)
	if err != nil {
		rt.Fatalf("marshal: %v", err)
	}
	out := c.ProtoReflect().New().Interface().(T)
	if err := proto.Unmarshal(wire, out); err != nil {
		rt.Fatalf("unmarshal of a marshalled message: %v", err)
	}
	return out, desc, n == 1
}
