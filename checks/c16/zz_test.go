package c16
import ("testing";"fmt";"context";"errors"
 "github.com/codenotary/immudb/embedded/sql")
func TestZZ(t *testing.T){
  corpus(t)
  for _, q := range hostileSQL {
    eng, err := newScratchEngine(); if err != nil { t.Fatal(err) }
    r := run(func(){
      stmts, err := sql.ParseSQLString(q); if err != nil { fmt.Println("ZZ parse-err", q, err); return }
      for _, st := range stmts { if ds, ok := st.(sql.DataSource); ok { rd, err := eng.e.QueryPreparedStmt(context.Background(), nil, ds, nil); if err != nil { fmt.Println("ZZ q-err", q, err); continue }; for { _, e := rd.Read(context.Background()); if e != nil { if !errors.Is(e, sql.ErrNoMoreRows) { fmt.Println("ZZ read-err", q, e) }; break } }; rd.Close() } }
    })
    if r.panicked { fmt.Println("ZZ PANIC", q, r.pval, r.stack[:min(200,len(r.stack))]) }
    if r.hung { fmt.Println("ZZ HUNG", q) }
    eng.close()
  }
}
