package c16

// childMain runs a child-process scenario when the test binary was re-executed
// by the harness (see indexer_test.go); false = normal test run.
func childMain() bool { return false }
