package c16

import (
	"bufio"
	"bytes"
	"fmt"
	"io"
	"os"
	"os/exec"
	"strings"
	"sync"
	"time"

	"verif/internal/vk"
)

// Child-process execution: immudb runs decoders of on-disk data in background
// goroutines (indexers, tbtree insert helpers); a panic there cannot be
// recovered by the caller and kills the process. Such targets run in a copy of
// this test binary (env C16_CHILD=serve): a long-lived worker that takes one
// request per line on stdin and answers on stdout. When the worker dies, the
// crash is attributed to the request it was serving, and a new worker starts.

// ids whose exclusion matters inside child processes
var allKnownIDs = []string{kfF2, kfF4, kfF16, kfF17, kfF17b, kfF18, kfF19, kfF20, kfF21, kfF22, kfF23, kfF24, kfF25, kfF30}

// isExcluded: vk.Excluded in the parent; in a child process (which runs no
// probes) the list handed over by the parent. Exclusions applied inside a child
// are printed and counted by the parent.
func isExcluded(id string) bool {
	if os.Getenv("C16_CHILD") == "" {
		return vk.Excluded(id)
	}
	for _, x := range strings.Split(os.Getenv("C16_EXCLUDED"), ",") {
		if x == id {
			return true
		}
	}
	return false
}

func countExcluded(id string) {
	if os.Getenv("C16_CHILD") == "" {
		vk.CountExcluded(id)
		return
	}
	fmt.Printf("\nC16EXCL %s\n", id)
}

func oneLine(s string) string { return strings.ReplaceAll(s, "\n", " | ") }

// childMain serves requests when the binary was started as a worker; false = normal test run.
func childMain() bool {
	if os.Getenv("C16_CHILD") == "" {
		return false
	}
	sc := bufio.NewScanner(os.Stdin)
	sc.Buffer(make([]byte, 1<<20), 1<<24)
	for sc.Scan() {
		req := map[string]string{}
		for _, kv := range strings.Split(sc.Text(), "\t") {
			if i := strings.IndexByte(kv, '='); i > 0 {
				req[kv[:i]] = kv[i+1:]
			}
		}
		switch req["mode"] {
		case "openread":
			comp, dir := req["comp"], req["dir"]
			var opened bool
			var err error
			r := runStateful(func() { opened, err = openAndRead(comp, dir, storeKeys()) })
			es := ""
			if err != nil {
				es = err.Error()
			}
			answer(opened, es, r.verdict("open + full read of a corrupted "+comp+" directory", diskReadCap))
		case "indexrow":
			childIndexRow(req["rowval"])
		default:
			answer(false, "unknown mode", "")
		}
	}
	os.Exit(0)
	return true
}

func answer(opened bool, err, verdict string) {
	fmt.Printf("\nC16CHILD opened=%v\nC16ERR %s\nC16VERDICT %s\nC16END\n", opened, oneLine(err), oneLine(verdict))
}

type childResult struct {
	died    bool   // the worker did not finish the request
	crash   string // panic / fatal error excerpt
	opened  bool
	err     string
	verdict string
}

type syncBuffer struct {
	mu sync.Mutex
	b  bytes.Buffer
}

func (s *syncBuffer) Write(p []byte) (int, error) {
	s.mu.Lock()
	defer s.mu.Unlock()
	if s.b.Len() > 4<<20 {
		s.b.Reset()
	}
	return s.b.Write(p)
}

func (s *syncBuffer) String() string {
	s.mu.Lock()
	defer s.mu.Unlock()
	return s.b.String()
}

type worker struct {
	cmd   *exec.Cmd
	in    io.WriteCloser
	lines chan string
	errb  *syncBuffer
}

var (
	workerMu sync.Mutex
	theWork  *worker
)

func startWorker() (*worker, error) {
	var ex []string
	for _, id := range allKnownIDs {
		if vk.Excluded(id) {
			ex = append(ex, id)
		}
	}
	cmd := exec.Command(os.Args[0], "-test.run=^$")
	cmd.Env = append(os.Environ(), "C16_CHILD=serve", "C16_EXCLUDED="+strings.Join(ex, ","))
	in, err := cmd.StdinPipe()
	if err != nil {
		return nil, err
	}
	out, err := cmd.StdoutPipe()
	if err != nil {
		return nil, err
	}
	w := &worker{cmd: cmd, in: in, lines: make(chan string, 64), errb: &syncBuffer{}}
	cmd.Stderr = w.errb
	if err := cmd.Start(); err != nil {
		return nil, err
	}
	go func() {
		sc := bufio.NewScanner(out)
		sc.Buffer(make([]byte, 1<<20), 1<<24)
		for sc.Scan() {
			w.lines <- sc.Text()
		}
		close(w.lines)
	}()
	return w, nil
}

func (w *worker) kill() {
	w.in.Close()
	if w.cmd.Process != nil {
		w.cmd.Process.Kill()
	}
	go func() {
		for range w.lines {
		}
	}()
	w.cmd.Wait()
}

// runChild sends one request to the worker (starting it when needed).
func runChild(mode string, args map[string]string) childResult {
	workerMu.Lock()
	defer workerMu.Unlock()
	if theWork == nil {
		w, err := startWorker()
		if err != nil {
			return childResult{died: true, crash: "cannot start the worker process: " + err.Error()}
		}
		theWork = w
	}
	w := theWork
	line := "mode=" + mode
	for k, v := range args {
		line += "\t" + k + "=" + v
	}
	if _, err := io.WriteString(w.in, line+"\n"); err != nil {
		w.kill()
		theWork = nil
		return childResult{died: true, crash: "worker process is gone: " + err.Error() + " " + crashExcerpt(w.errb.String())}
	}
	var res childResult
	var seen []string
	deadline := time.NewTimer(deadBound + 2*hangBound)
	defer deadline.Stop()
	for {
		select {
		case l, ok := <-w.lines:
			if !ok {
				// the worker died while serving this request
				w.cmd.Wait()
				theWork = nil
				res.died = true
				if p := os.Getenv("C16_DEBUG_WORKER_STDERR"); p != "" {
					os.WriteFile(p, []byte(w.errb.String()), 0o644)
				}
				res.crash = crashExcerpt(w.errb.String() + "\n" + strings.Join(seen, "\n"))
				if res.crash == "" {
					res.crash = "worker exited: " + lastBytes(w.errb.String(), 600)
				}
				return res
			}
			seen = append(seen, l)
			switch {
			case strings.HasPrefix(l, "C16EXCL "):
				vk.CountExcluded(strings.TrimPrefix(l, "C16EXCL "))
			case strings.HasPrefix(l, "C16CHILD "):
				res.opened = strings.Contains(l, "opened=true")
			case strings.HasPrefix(l, "C16ERR "):
				res.err = strings.TrimPrefix(l, "C16ERR ")
			case strings.HasPrefix(l, "C16VERDICT "):
				res.verdict = strings.TrimPrefix(l, "C16VERDICT ")
			case l == "C16END":
				if res.verdict != "" {
					// a hung or bloated worker is not reused
					w.kill()
					theWork = nil
				}
				return res
			}
		case <-deadline.C:
			w.kill()
			theWork = nil
			return childResult{died: true, crash: fmt.Sprintf("worker did not answer within %s", deadBound+2*hangBound)}
		}
	}
}

func stopWorker() {
	workerMu.Lock()
	defer workerMu.Unlock()
	if theWork != nil {
		theWork.kill()
		theWork = nil
	}
}

func lastBytes(s string, n int) string {
	if len(s) > n {
		return s[len(s)-n:]
	}
	return s
}

// crashExcerpt keeps the panic message and the first frames of the crashing goroutine.
func crashExcerpt(s string) string {
	i := strings.Index(s, "panic: ")
	if j := strings.Index(s, "fatal error: "); j >= 0 && (i < 0 || j < i) {
		i = j
	}
	if i < 0 {
		return ""
	}
	s = s[i:]
	lines := strings.Split(s, "\n")
	var keep []string
	for _, l := range lines {
		l = strings.TrimSpace(l)
		if l == "" {
			if len(keep) > 4 {
				break
			}
			continue
		}
		keep = append(keep, l)
		if len(keep) >= 14 {
			break
		}
	}
	return strings.Join(keep, " <- ")
}
