package c16

import (
	"bytes"
	"fmt"
	"os"
	"os/exec"
	"strings"
	"time"
)

// Child-process execution: immudb runs decoders of on-disk data in background
// goroutines (indexers, tbtree insert helpers); a panic there cannot be
// recovered by the caller and kills the process. Such targets run in a copy of
// this test binary (env C16_CHILD set) so that a crash is observed as the death
// of the child and attributed to the directory it was given.

// childMain runs the scenario requested through the environment; false = normal test run.
func childMain() bool {
	mode := os.Getenv("C16_CHILD")
	if mode == "" {
		return false
	}
	switch mode {
	case "openread":
		comp, dir := os.Getenv("C16_COMP"), os.Getenv("C16_DIR")
		var opened bool
		var err error
		r := runStateful(func() { opened, err = openAndRead(comp, dir, storeKeys()) })
		v := r.verdict("open + full read of a corrupted "+comp+" directory", diskReadCap)
		es := ""
		if err != nil {
			es = err.Error()
		}
		fmt.Printf("\nC16CHILD opened=%v\nC16ERR %s\nC16VERDICT %s\nC16END\n", opened, oneLine(es), oneLine(v))
	case "indexrow":
		childIndexRow()
	default:
		fmt.Printf("C16CHILD unknown mode %q\n", mode)
		os.Exit(3)
	}
	os.Exit(0)
	return true
}

func oneLine(s string) string { return strings.ReplaceAll(s, "\n", " | ") }

type childResult struct {
	died    bool   // the process did not finish the scenario
	crash   string // panic / fatal error excerpt
	opened  bool
	err     string
	verdict string
}

// runChild re-executes the test binary in child mode.
func runChild(mode string, env map[string]string) childResult {
	cmd := exec.Command(os.Args[0], "-test.run=^$")
	cmd.Env = append(os.Environ(), "C16_CHILD="+mode)
	for k, v := range env {
		cmd.Env = append(cmd.Env, k+"="+v)
	}
	var out, errb bytes.Buffer
	cmd.Stdout, cmd.Stderr = &out, &errb
	if err := cmd.Start(); err != nil {
		return childResult{died: true, crash: "cannot start child: " + err.Error()}
	}
	done := make(chan error, 1)
	go func() { done <- cmd.Wait() }()
	var werr error
	select {
	case werr = <-done:
	case <-time.After(3 * hangBound):
		cmd.Process.Kill()
		<-done
		return childResult{died: true, crash: fmt.Sprintf("child did not finish within %s", 3*hangBound)}
	}
	var res childResult
	o := out.String()
	if i := strings.Index(o, "C16CHILD "); i >= 0 && strings.Contains(o, "C16END") {
		for _, l := range strings.Split(o[i:], "\n") {
			switch {
			case strings.HasPrefix(l, "C16CHILD "):
				res.opened = strings.Contains(l, "opened=true")
			case strings.HasPrefix(l, "C16ERR "):
				res.err = strings.TrimPrefix(l, "C16ERR ")
			case strings.HasPrefix(l, "C16VERDICT "):
				res.verdict = strings.TrimPrefix(l, "C16VERDICT ")
			}
		}
		if werr == nil {
			return res
		}
	}
	res.died = true
	res.crash = crashExcerpt(errb.String() + "\n" + o)
	if res.crash == "" {
		res.crash = fmt.Sprintf("child exited with %v", werr)
	}
	return res
}

// crashExcerpt keeps the panic message and the first frames of the crashing goroutine.
func crashExcerpt(s string) string {
	i := strings.Index(s, "panic: ")
	if j := strings.Index(s, "fatal error: "); j >= 0 && (i < 0 || j < i) {
		i = j
	}
	if i < 0 {
		return ""
	}
	s = s[i:]
	lines := strings.Split(s, "\n")
	var keep []string
	for _, l := range lines {
		l = strings.TrimSpace(l)
		if l == "" {
			if len(keep) > 4 {
				break
			}
			continue
		}
		keep = append(keep, l)
		if len(keep) >= 14 {
			break
		}
	}
	return strings.Join(keep, " <- ")
}
