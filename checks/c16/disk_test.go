package c16

import (
	"context"
	"encoding/binary"
	"errors"
	"fmt"
	"io"
	"os"
	"path/filepath"
	"runtime"
	"sort"
	"strings"
	"sync"
	"testing"
	"time"

	"github.com/codenotary/immudb/embedded/ahtree"
	"github.com/codenotary/immudb/embedded/appendable"
	"github.com/codenotary/immudb/embedded/appendable/multiapp"
	"github.com/codenotary/immudb/embedded/appendable/singleapp"
	"github.com/codenotary/immudb/embedded/store"
	"github.com/codenotary/immudb/embedded/tbtree"
	"pgregory.net/rapid"

	"verif/internal/vk"
)

// ---------------------------------------------------------------------------
// pristine directories of every on-disk component, kept in memory

type dirImage struct {
	files map[string][]byte // relative path -> content
	names []string          // sorted
}

// canonMetadata re-encodes a metadata block with its entries sorted by key
// (the writer iterates a Go map: the order differs from run to run, the
// pristine images must not).
func canonMetadata(b []byte) ([]byte, bool) {
	ref := classifyAppMetadata(b)
	if ref.known != "" || len(b) < 8 || binary.BigEndian.Uint32(b) != 4 || int(binary.BigEndian.Uint32(b[4:])) != len(ref.keys) {
		return nil, false
	}
	idx := make([]int, len(ref.keys))
	for i := range idx {
		idx[i] = i
	}
	sort.Slice(idx, func(a, c int) bool { return ref.keys[idx[a]] < ref.keys[idx[c]] })
	out := append(be32(4), be32(len(ref.keys))...)
	total := 8
	for _, i := range idx {
		v := ref.values[i]
		if strings.Contains(ref.keys[i], "WRAPPED") {
			if cv, ok := canonMetadata(v); ok && len(cv) == len(v) {
				v = cv
			}
		}
		out = append(out, be32(len(ref.keys[i]))...)
		out = append(out, ref.keys[i]...)
		out = append(out, be32(len(v))...)
		out = append(out, v...)
		total += 8 + len(ref.keys[i]) + len(v)
	}
	if total != len(b) {
		return nil, false
	}
	return out, true
}

func canonFile(b []byte) []byte {
	if len(b) < 4 {
		return b
	}
	mLen := int(binary.BigEndian.Uint32(b))
	if mLen > len(b)-4 {
		return b
	}
	cm, ok := canonMetadata(b[4 : 4+mLen])
	if !ok {
		return b
	}
	out := append([]byte(nil), b[:4]...)
	out = append(out, cm...)
	return append(out, b[4+mLen:]...)
}

func readDirImage(root string) (*dirImage, error) {
	img := &dirImage{files: map[string][]byte{}}
	err := filepath.Walk(root, func(p string, info os.FileInfo, err error) error {
		if err != nil || info.IsDir() {
			return err
		}
		rel, _ := filepath.Rel(root, p)
		b, err := os.ReadFile(p)
		if err != nil {
			return err
		}
		img.files[rel] = canonFile(b)
		img.names = append(img.names, rel)
		return nil
	})
	sort.Strings(img.names)
	return img, err
}

func (img *dirImage) writeTo(root string, override map[string][]byte, deleted map[string]bool) error {
	for _, n := range img.names {
		if deleted[n] {
			continue
		}
		b := img.files[n]
		if o, ok := override[n]; ok {
			b = o
		}
		p := filepath.Join(root, n)
		if err := os.MkdirAll(filepath.Dir(p), 0o755); err != nil {
			return err
		}
		if err := os.WriteFile(p, b, 0o644); err != nil {
			return err
		}
	}
	for n, b := range override {
		if _, ok := img.files[n]; !ok {
			p := filepath.Join(root, n)
			os.MkdirAll(filepath.Dir(p), 0o755)
			if err := os.WriteFile(p, b, 0o644); err != nil {
				return err
			}
		}
	}
	return nil
}

type diskFixture struct {
	comp     map[string]*dirImage
	keys     [][]byte           // keys written to the store / tbtree fixtures
	zOffsets []int64            // chunk offsets of the compressed singleapp fixture
	txFields map[string][]field // fields of the store's tx-log records, by chunk file (base name)
}

func payloadOf(b []byte) (int, []byte) {
	if len(b) < 4 {
		return 0, nil
	}
	h := 4 + int(binary.BigEndian.Uint32(b))
	if h < 4 || h > len(b) {
		return 0, nil
	}
	return h, b[h:]
}

// mapTxLogFields parses the records of the pristine store's tx log (the
// concatenation of the chunk payloads) and maps every field back to its file.
func mapTxLogFields(img *dirImage) map[string][]field {
	type chunk struct {
		name       string
		hdr, start int // header length in the file, offset of its payload in the concatenation
		n          int
	}
	var chunks []chunk
	var cat []byte
	for _, n := range img.names {
		if strings.HasPrefix(n, "tx/") {
			h, pl := payloadOf(img.files[n])
			chunks = append(chunks, chunk{filepath.Base(n), h, len(cat), len(pl)})
			cat = append(cat, pl...)
		}
	}
	l := &layout{b: cat}
	layoutTxLog(l, 0)
	out := map[string][]field{}
	for _, f := range l.f {
		for _, c := range chunks {
			if f.off >= c.start && f.off+f.n <= c.start+c.n {
				g := f
				g.off = f.off - c.start + c.hdr
				out[c.name] = append(out[c.name], g)
			}
		}
	}
	return out
}

var (
	dfOnce sync.Once
	df     *diskFixture
	dfErr  error
)

func diskFix(t testing.TB) *diskFixture {
	dfOnce.Do(func() { df, dfErr = buildDiskFixture() })
	if dfErr != nil {
		t.Fatalf("disk fixture: %v", dfErr)
	}
	return df
}

func diskStoreOpts() *store.Options {
	return smallStoreOpts().WithFileSize(2048).WithMaxTxEntries(16).WithMaxKeyLen(64).WithMaxValueLen(256)
}

func tbtreeOpts() *tbtree.Options {
	return tbtree.DefaultOptions().WithLogger(quiet).WithFileSize(2048).WithMaxNodeSize(512).WithMaxKeySize(32).WithMaxValueSize(64).
		WithCacheSize(16).WithFlushThld(1000).WithFlushBufferSize(4096).WithMaxActiveSnapshots(4)
}

func ahtOpts() *ahtree.Options {
	return ahtree.DefaultOptions().WithFileSize(1024).WithSyncThld(4).WithDigestsCacheSlots(8).WithDataCacheSlots(4).WithWriteBufferSize(1024).WithReadBufferSize(256)
}

func buildDiskFixture() (*diskFixture, error) {
	f := &diskFixture{comp: map[string]*dirImage{}}
	base := vk.Dir()
	defer removeAll(base)

	// singleapp
	{
		d := filepath.Join(base, "singleapp")
		os.MkdirAll(d, 0o755)
		md := appendable.NewMetadata(nil)
		md.PutInt("VERSION", 1)
		md.Put("NAME", []byte("fixture"))
		a, err := singleapp.Open(filepath.Join(d, "f.aof"), singleapp.DefaultOptions().WithMetadata(md.Bytes()).WithWriteBuffer(make([]byte, 256)).WithReadBufferSize(64))
		if err != nil {
			return nil, err
		}
		for i := 0; i < 10; i++ {
			if _, _, err := a.Append(fillBytes(30, byte(i))); err != nil {
				return nil, err
			}
		}
		if err := a.Close(); err != nil {
			return nil, err
		}
		img, err := readDirImage(d)
		if err != nil {
			return nil, err
		}
		f.comp["singleapp"] = img
	}
	// singleapp with compressed chunks
	{
		d := filepath.Join(base, "singleapp-z")
		os.MkdirAll(d, 0o755)
		a, err := singleapp.Open(filepath.Join(d, "f.aof"), singleapp.DefaultOptions().WithCompressionFormat(appendable.GZipCompression).WithWriteBuffer(make([]byte, 256)).WithReadBufferSize(64))
		if err != nil {
			return nil, err
		}
		for i := 0; i < 6; i++ {
			off, _, err := a.Append(fillBytes(40, byte(i)))
			if err != nil {
				return nil, err
			}
			f.zOffsets = append(f.zOffsets, off)
		}
		if err := a.Close(); err != nil {
			return nil, err
		}
		img, err := readDirImage(d)
		if err != nil {
			return nil, err
		}
		f.comp["singleapp-z"] = img
	}
	// multiapp
	{
		d := filepath.Join(base, "multiapp")
		md := appendable.NewMetadata(nil)
		md.PutInt("VERSION", 1)
		a, err := multiapp.Open(d, multiapp.DefaultOptions().WithFileSize(128).WithMetadata(md.Bytes()).WithWriteBufferSize(64).WithReadBufferSize(32))
		if err != nil {
			return nil, err
		}
		for i := 0; i < 12; i++ {
			if _, _, err := a.Append(fillBytes(30, byte(i))); err != nil {
				return nil, err
			}
		}
		if err := a.Close(); err != nil {
			return nil, err
		}
		img, err := readDirImage(d)
		if err != nil {
			return nil, err
		}
		f.comp["multiapp"] = img
	}
	// ahtree
	{
		d := filepath.Join(base, "aht")
		tr, err := ahtree.Open(d, ahtOpts())
		if err != nil {
			return nil, err
		}
		for i := 0; i < 21; i++ {
			if _, _, err := tr.Append(fillBytes(1+i%40, byte(i))); err != nil {
				return nil, err
			}
		}
		if err := tr.Close(); err != nil {
			return nil, err
		}
		img, err := readDirImage(d)
		if err != nil {
			return nil, err
		}
		f.comp["aht"] = img
	}
	// tbtree
	{
		d := filepath.Join(base, "tbtree")
		tr, err := tbtree.Open(d, tbtreeOpts())
		if err != nil {
			return nil, err
		}
		for round := 0; round < 3; round++ {
			for i := 0; i < 30; i++ {
				k := []byte(fmt.Sprintf("key-%02d", i%(20+round*5)))
				if err := tr.Insert(k, fillBytes(8+i%20, byte(round))); err != nil {
					return nil, err
				}
			}
			if _, _, err := tr.Flush(); err != nil {
				return nil, err
			}
		}
		if err := tr.Close(); err != nil {
			return nil, err
		}
		img, err := readDirImage(d)
		if err != nil {
			return nil, err
		}
		f.comp["tbtree"] = img
	}
	// store
	{
		d := filepath.Join(base, "store")
		st, err := store.Open(d, diskStoreOpts())
		if err != nil {
			return nil, err
		}
		ctx := context.Background()
		for i := 0; i < 12; i++ {
			tx, err := st.NewWriteOnlyTx(ctx)
			if err != nil {
				return nil, err
			}
			if i == 3 {
				md := store.NewTxMetadata()
				md.WithExtra([]byte("x-tra"))
				tx.WithMetadata(md)
			}
			for e := 0; e < 1+i%3; e++ {
				k := []byte(fmt.Sprintf("k-%d-%d", i%5, e))
				var md *store.KVMetadata
				if i == 7 {
					md = store.NewKVMetadata()
					md.AsDeleted(true)
				}
				if err := tx.Set(k, md, fillBytes(5+i*7, byte(i))); err != nil {
					return nil, err
				}
				f.keys = append(f.keys, k)
			}
			if _, err := tx.Commit(ctx); err != nil {
				return nil, err
			}
		}
		if err := st.WaitForIndexingUpto(ctx, 12); err != nil {
			return nil, err
		}
		if err := st.FlushIndexes(0, true); err != nil {
			return nil, err
		}
		if err := st.Close(); err != nil {
			return nil, err
		}
		img, err := readDirImage(d)
		if err != nil {
			return nil, err
		}
		f.comp["store"] = img
		f.txFields = mapTxLogFields(img)
	}
	return f, nil
}

// ---------------------------------------------------------------------------
// file layout: [mLen 4][metadata: countLen 4, count 4, (klen,key,vlen,val)*][payload]

// layoutMetadataBlock maps a VALID metadata block at base; returns false when it is not one.
func layoutMetadataBlock(l *layout, prefix string, base, n int, depth int) bool {
	b := l.b
	end := base + n
	i := base
	need := func(k int) bool { return i+k <= end }
	if !need(8) || binary.BigEndian.Uint32(b[i:]) != 4 {
		return false
	}
	var fs []field
	fs = append(fs, field{prefix + "countLen", i, 4, kLen}, field{prefix + "count", i + 4, 4, kCount})
	cnt := int(binary.BigEndian.Uint32(b[i+4:]))
	i += 8
	type sub struct {
		name   string
		off, n int
	}
	var subs []sub
	for e := 0; e < cnt; e++ {
		if !need(4) {
			return false
		}
		kl := int(binary.BigEndian.Uint32(b[i:]))
		if kl > 64 || !need(4+kl+4) {
			return false
		}
		key := string(b[i+4 : i+4+kl])
		fs = append(fs, field{prefix + key + ".klen", i, 4, kLen}, field{prefix + key + ".key", i + 4, kl, kBytes})
		i += 4 + kl
		vl := int(binary.BigEndian.Uint32(b[i:]))
		if !need(4 + vl) {
			return false
		}
		kind := kBytes
		if vl == 8 || vl == 1 {
			kind = kNum
		}
		fs = append(fs, field{prefix + key + ".vlen", i, 4, kLen}, field{prefix + key + ".val", i + 4, vl, kind})
		if vl >= 8 {
			subs = append(subs, sub{prefix + key + ">", i + 4, vl})
		}
		i += 4 + vl
	}
	if i != end {
		return false
	}
	l.f = append(l.f, fs...)
	if depth > 0 {
		for _, s := range subs {
			layoutMetadataBlock(l, s.name, s.off, s.n, depth-1)
		}
	}
	return true
}

// layoutFile maps a pristine appendable file.
func layoutFile(name string, data []byte) *layout {
	l := &layout{b: data}
	if len(data) < 4 {
		return l
	}
	mLen := int(binary.BigEndian.Uint32(data))
	if 4+mLen > len(data) {
		return l
	}
	l.add("mLen", 0, 4, kLen)
	l.add("meta", 4, mLen, kBytes)
	layoutMetadataBlock(l, "meta.", 4, mLen, 3)
	p0 := 4 + mLen
	pl := len(data) - p0
	switch {
	case strings.HasSuffix(name, ".txi"): // store commit log: [txOff 8][txSize 4][alh 32]
		n := pl / 44
		for _, e := range pick(n) {
			o := p0 + e*44
			l.add(fmt.Sprintf("clog[%s].txOff", idxName(e, n)), o, 8, kNum)
			l.add(fmt.Sprintf("clog[%s].txSize", idxName(e, n)), o+8, 4, kLen)
			l.add(fmt.Sprintf("clog[%s].alh", idxName(e, n)), o+12, 32, kHash)
			l.recs = append(l.recs, record{fmt.Sprintf("clog[%s]", idxName(e, n)), o, o + 44})
		}
	case strings.HasSuffix(name, ".tx") && df != nil && df.txFields != nil:
		for _, f := range df.txFields[filepath.Base(name)] {
			l.f = append(l.f, f)
		}
	default:
		for w := 0; w < 4 && (w+1)*8 <= pl; w++ {
			l.add(fmt.Sprintf("pl.w8[%d]", w), p0+w*8, 8, kNum)
			l.add(fmt.Sprintf("pl.w8[-%d]", w+1), len(data)-(w+1)*8, 8, kNum)
		}
		for w := 0; w < 6 && (w+1)*4 <= pl; w++ {
			l.add(fmt.Sprintf("pl.w4[%d]", w), p0+w*4, 4, kNum)
			l.add(fmt.Sprintf("pl.w4[-%d]", w+1), len(data)-(w+1)*4, 4, kNum)
		}
		for w := 0; w < 4 && (w+1)*2 <= pl; w++ {
			l.add(fmt.Sprintf("pl.w2[-%d]", w+1), len(data)-(w+1)*2, 2, kNum)
		}
	}
	if pl > 0 {
		l.add("payload", p0, pl, kBytes)
	}
	return l
}

func pick(n int) []int {
	var idx []int
	for _, e := range []int{0, 1, n - 3, n - 2, n - 1} {
		if e >= 0 && e < n && (len(idx) == 0 || idx[len(idx)-1] < e) {
			idx = append(idx, e)
		}
	}
	return idx
}

func idxName(e, n int) string {
	if e >= n-3 && e > 1 {
		return fmt.Sprintf("last-%d", n-1-e)
	}
	return fmt.Sprint(e)
}

// layoutTxLog maps the records of a store tx log (values not embedded).
func layoutTxLog(l *layout, p0 int) {
	b := l.b
	i := p0
	for r := 0; i+8 <= len(b); r++ {
		if binary.BigEndian.Uint64(b[i:]) == 0 {
			break
		}
		start := i
		p := fmt.Sprintf("tx%d.", r+1)
		detailed := true
		add := func(name string, n, kind int) {
			if detailed {
				l.add(p+name, i, n, kind)
			}
			i += n
		}
		if i+8+8+8+32+32+2+2 > len(b) {
			return
		}
		add("ID", 8, kNum)
		add("Ts", 8, kNum)
		add("BlTxID", 8, kNum)
		add("BlRoot", 32, kHash)
		add("PrevAlh", 32, kHash)
		ver := binary.BigEndian.Uint16(b[i:])
		add("Version", 2, kNum)
		if ver != 1 {
			return
		}
		mdLen := int(binary.BigEndian.Uint16(b[i:]))
		add("mdLen", 2, kLen)
		if i+mdLen+4 > len(b) {
			return
		}
		add("md", mdLen, kBytes)
		ne := int(binary.BigEndian.Uint32(b[i:]))
		add("NEntries", 4, kCount)
		for e := 0; e < ne; e++ {
			q := fmt.Sprintf("e%d.", e)
			if i+2 > len(b) {
				return
			}
			kml := int(binary.BigEndian.Uint16(b[i:]))
			add(q+"kvmdLen", 2, kLen)
			add(q+"kvmd", kml, kBytes)
			if i+2 > len(b) {
				return
			}
			kl := int(binary.BigEndian.Uint16(b[i:]))
			add(q+"kLen", 2, kLen)
			add(q+"key", kl, kBytes)
			if i+4+8+32 > len(b) {
				return
			}
			add(q+"vLen", 4, kNum) // not a framing length inside this file
			add(q+"vOff", 8, kNum)
			add(q+"hVal", 32, kHash)
		}
		if i+32 > len(b) {
			return
		}
		add("Alh", 32, kHash)
		if detailed {
			l.recs = append(l.recs, record{fmt.Sprintf("tx%d", r+1), start, i})
		}
	}
}

// ---------------------------------------------------------------------------
// known classes on the header of a mutated file

// headerKnown mirrors what singleapp.Open does with the first bytes of a file
// and what the clients of the package do with the (nested) metadata.
func headerKnown(mut []byte, compressed bool) string {
	if len(mut) < 4 {
		return ""
	}
	if k := headerKnown1(mut); k != "" {
		return k
	}
	if !compressed {
		// an uncompressed file whose header now says "compressed": every read takes 4 payload bytes as a chunk length
		mLen := int(binary.BigEndian.Uint32(mut))
		if mLen <= len(mut)-4 {
			ref := classifyAppMetadata(mut[4 : 4+mLen])
			for i, k := range ref.keys {
				if k == "COMPRESSION_FORMAT" && len(ref.values[i]) >= 8 && binary.BigEndian.Uint64(ref.values[i]) != 0 {
					return kfF18
				}
			}
		}
	}
	return ""
}

func headerKnown1(mut []byte) string {
	mLen := int(binary.BigEndian.Uint32(mut))
	avail := len(mut) - 4
	if mLen > 16<<10 && mLen > avail {
		return kfF16 // make([]byte, mLen) before reading
	}
	if mLen > avail {
		return "" // io.ReadFull fails: ErrCorruptedMetadata
	}
	return metadataKnown(mut[4:4+mLen], 4)
}

func metadataKnown(b []byte, depth int) string {
	ref := classifyAppMetadata(b)
	if ref.known != "" {
		return ref.known
	}
	for i, k := range ref.keys {
		v := ref.values[i]
		isWrapped := strings.Contains(k, "WRAPPED")
		if !isWrapped && len(v) < 8 && !strings.Contains(k, "EMBEDDED") && !strings.Contains(k, "PREALLOC_FILES") {
			return kfF16 // GetInt on a short value
		}
		if !isWrapped && len(v) < 1 {
			return kfF16 // GetBool on an empty value
		}
		if isWrapped && depth > 0 && len(v) > 0 {
			if k := metadataKnown(v, depth-1); k != "" {
				return k
			}
		}
	}
	return ""
}

func zOffsetsOf() []int64 {
	if df != nil {
		return df.zOffsets
	}
	return nil
}

// storeKeys: the keys written to the store fixture (deterministic, also known to the child process).
func storeKeys() [][]byte {
	var ks [][]byte
	for i := 0; i < 12; i++ {
		for e := 0; e < 1+i%3; e++ {
			ks = append(ks, []byte(fmt.Sprintf("k-%d-%d", i%5, e)))
		}
	}
	return ks
}

// ---------------------------------------------------------------------------
// open + full read of every component

const diskReadCap = 1 << 20

func readAllAppendable(a appendable.Appendable) error {
	err := readAllAppendable1(a)
	a.Close() // not deferred: a panic inside ReadAt leaves the appendable's mutex locked
	return err
}

func readAllAppendable1(a appendable.Appendable) error {
	a.Metadata()
	sz, err := a.Size()
	if err != nil {
		return err
	}
	a.Offset()
	if sz < 0 {
		return fmt.Errorf("negative size %d", sz)
	}
	if sz > diskReadCap {
		sz = diskReadCap
	}
	buf := make([]byte, 97)
	for off := int64(0); off < sz; off += int64(len(buf)) {
		if _, err := a.ReadAt(buf, off); err != nil && !errors.Is(err, io.EOF) {
			return err
		}
	}
	r := appendable.NewReaderFrom(a, 0, 64)
	for i := 0; i < 1000; i++ {
		if _, err := r.ReadUint32(); err != nil {
			break
		}
	}
	return nil
}

// openAndRead never closes in a defer: a panic inside a component leaves its
// mutex locked and a deferred Close would turn the panic into a deadlock.
func openAndRead(comp, dir string, keys [][]byte) (opened bool, err error) {
	var closers []func()
	opened, err = openAndRead1(comp, dir, keys, &closers)
	for i := len(closers) - 1; i >= 0; i-- {
		closers[i]()
	}
	return opened, err
}

func openAndRead1(comp, dir string, keys [][]byte, closers *[]func()) (opened bool, err error) {
	onExit := func(f func()) { *closers = append(*closers, f) }
	switch comp {
	case "singleapp":
		a, err := singleapp.Open(filepath.Join(dir, "f.aof"), singleapp.DefaultOptions().WithReadBufferSize(64).WithWriteBuffer(make([]byte, 256)))
		if err != nil {
			return false, err
		}
		return true, readAllAppendable(a)
	case "singleapp-z":
		a, err := singleapp.Open(filepath.Join(dir, "f.aof"), singleapp.DefaultOptions().WithReadBufferSize(64).WithWriteBuffer(make([]byte, 256)))
		if err != nil {
			return false, err
		}
		onExit(func() { a.Close() })
		a.Metadata()
		a.Size()
		var firstErr error
		buf := make([]byte, 40)
		for _, o := range zOffsetsOf() {
			if _, err := a.ReadAt(buf, o); err != nil && firstErr == nil {
				firstErr = err
			}
		}
		return true, firstErr
	case "multiapp":
		a, err := multiapp.Open(dir, multiapp.DefaultOptions().WithFileSize(128).WithReadBufferSize(32).WithWriteBufferSize(64))
		if err != nil {
			return false, err
		}
		return true, readAllAppendable(a)
	case "aht":
		tr, err := ahtree.Open(dir, ahtOpts())
		if err != nil {
			return false, err
		}
		onExit(func() { tr.Close() })
		n := tr.Size()
		if n > 5000 {
			n = 5000
		}
		tr.Root()
		for k := uint64(1); k <= n; k++ {
			if _, err := tr.RootAt(k); err != nil {
				return true, err
			}
			if _, err := tr.DataAt(k); err != nil {
				return true, err
			}
		}
		for j := uint64(1); j <= n && j <= 40; j++ {
			for i := uint64(1); i <= j; i++ {
				if _, err := tr.InclusionProof(i, j); err != nil {
					return true, err
				}
				if _, err := tr.ConsistencyProof(i, j); err != nil {
					return true, err
				}
			}
		}
		if n > 0 {
			if _, _, err := tr.Append([]byte("after-open")); err != nil {
				return true, err
			}
		}
		return true, nil
	case "tbtree":
		tr, err := tbtree.Open(dir, tbtreeOpts())
		if err != nil {
			return false, err
		}
		onExit(func() { tr.Close() })
		tr.Ts()
		snap, err := tr.Snapshot()
		if err != nil {
			return true, err
		}
		onExit(func() { snap.Close() })
		for _, desc := range []bool{false, true} {
			rd, err := snap.NewReader(tbtree.ReaderSpec{DescOrder: desc, IncludeHistory: desc})
			if err != nil {
				return true, err
			}
			for i := 0; i < 10000; i++ {
				k, _, _, _, err := rd.Read()
				if err != nil {
					break
				}
				snap.History(k, 0, false, 100)
			}
			rd.Close()
		}
		for i := 0; i < 30; i++ {
			k := []byte(fmt.Sprintf("key-%02d", i))
			snap.Get(k)
			tr.History(k, 0, true, 10)
		}
		return true, nil
	case "store":
		st, err := store.Open(dir, diskStoreOpts())
		if err != nil {
			return false, err
		}
		onExit(func() { st.Close() })
		n := st.TxCount()
		if n > 200 {
			n = 200
		}
		holder := store.NewTx(64, 256)
		exportBlocked := false
		var firstErr error
		note := func(e error) {
			if e != nil && firstErr == nil {
				firstErr = e
			}
		}
		for id := uint64(1); id <= n; id++ {
			if err := st.ReadTx(id, false, holder); err != nil {
				note(err)
				continue
			}
			for _, e := range holder.Entries() {
				_, err := st.ReadValue(e)
				note(err)
			}
			if !exportBlocked {
				_, err := st.ExportTx(id, false, false, store.NewTx(64, 256))
				note(err)
				if err != nil && strings.Contains(err.Error(), "partially truncated") && isExcluded(kfF2) {
					// known finding: this error path returns with _valBsMux held, the next ExportTx would block for ever
					countExcluded(kfF2)
					exportBlocked = true
				}
			}
		}
		if n >= 2 {
			h1, e1 := st.ReadTxHeader(1, false, false)
			hn, e2 := st.ReadTxHeader(n, false, false)
			if e1 == nil && e2 == nil {
				_, err := st.DualProof(h1, hn)
				note(err)
				_, err = st.LinearProof(1, n)
				note(err)
			}
		}
		ctx, cancel := context.WithTimeout(context.Background(), hangBound/3)
		defer cancel()
		if err := st.WaitForIndexingUpto(ctx, n); err != nil {
			note(err)
		} else {
			for _, k := range keys {
				vr, err := st.Get(ctx, k)
				if err != nil {
					continue
				}
				_, err = vr.Resolve()
				note(err)
			}
		}
		return true, firstErr
	}
	return false, fmt.Errorf("unknown component %s", comp)
}

const kfF19 = "F19-store-open-trusts-last-clog-entry"
const kfF30 = "F30-store-clog-entry-txsize-unchecked"

// clogTxSizeKnown: some commit-log entry other than the last one (the one store.Open validates against the tx
// log) announces a transaction larger than 16 KiB (the fixture's largest possible tx record, maxTxSize, is 2.4 KiB):
// every reader of that tx allocates a buffer of that size. The commit log is mapped the way multiapp does it:
// chunk k holds the logical range [k*fileSize, k*fileSize+len(payload_k)).
func clogTxSizeKnown(img *dirImage, override map[string][]byte, deleted map[string]bool) bool {
	type chunk struct {
		id int
		pl []byte
	}
	var chunks []chunk
	seen := map[string]bool{}
	consider := func(n string, b []byte) {
		if !strings.HasPrefix(n, "commit/") || seen[n] {
			return
		}
		seen[n] = true
		var id int
		if _, err := fmt.Sscanf(strings.TrimSuffix(filepath.Base(n), filepath.Ext(n)), "%d", &id); err != nil {
			return
		}
		_, pl := payloadOf(b)
		chunks = append(chunks, chunk{id, pl})
	}
	for n, b := range override {
		consider(n, b)
	}
	for _, n := range img.names {
		if !deleted[n] {
			consider(n, img.files[n])
		}
	}
	if len(chunks) == 0 {
		return false
	}
	sort.Slice(chunks, func(i, j int) bool { return chunks[i].id < chunks[j].id })
	fileSize := 2048
	lastName := fmt.Sprintf("commit/%08d.txi", chunks[len(chunks)-1].id)
	lb, ok := override[lastName]
	if !ok {
		lb = img.files[lastName]
	}
	if m := innermostMetaLevel(lb, 1); m != nil {
		if v, ok := m["FILE_SIZE"]; ok && len(v) >= 8 {
			if fs := int64(binary.BigEndian.Uint64(v)); fs > 0 && fs < 1<<31 {
				fileSize = int(fs)
			}
		}
	}
	read := func(off, n int) []byte {
		for _, c := range chunks {
			lo := c.id * fileSize
			if off >= lo && off+n <= lo+len(c.pl) {
				return c.pl[off-lo : off-lo+n]
			}
		}
		return nil
	}
	last := chunks[len(chunks)-1]
	total := last.id*fileSize + len(last.pl)
	n := total / 44
	for i := 0; i < n-1; i++ {
		e := read(i*44, 44)
		if e == nil {
			continue
		}
		if sz := binary.BigEndian.Uint32(e[8:]); sz > 16<<10 {
			return true
		}
	}
	return false
}

const kfF21 = "F21-aht-dataat-trusts-commit-log-size"
const kfF23 = "F23-tbtree-root-node-size-unchecked"
const kfF17 = "F17-limits-in-commit-log-header-trusted"
const kfF17b = "F17b-unbounded-limits-in-commit-log-header"
const kfF22 = "F22-txlog-vlen-unchecked"

// innermostMeta returns the client metadata (singleapp -> multiapp -> client) of a chunk file.
func innermostMeta(b []byte) map[string][]byte { return innermostMetaLevel(b, 2) }

// innermostMetaLevel unwraps `levels` WRAPPED_METADATA layers (1 = the multiapp block, 2 = the client's).
func innermostMetaLevel(b []byte, levels int) map[string][]byte {
	if len(b) < 4 {
		return nil
	}
	mLen := int(binary.BigEndian.Uint32(b))
	if mLen > len(b)-4 {
		return nil
	}
	cur := b[4 : 4+mLen]
	for depth := 0; depth < levels; depth++ {
		ref := classifyAppMetadata(cur)
		if ref.known != "" {
			return nil
		}
		var next []byte
		for i, k := range ref.keys {
			if k == "WRAPPED_METADATA" {
				next = ref.values[i]
			}
		}
		if next == nil {
			return nil
		}
		cur = next
	}
	ref := classifyAppMetadata(cur)
	if ref.known != "" {
		return nil
	}
	m := map[string][]byte{}
	for i, k := range ref.keys {
		m[k] = ref.values[i]
	}
	return m
}

// limitsKnown classifies an altered limit in the innermost metadata of a commit-log chunk:
//
//	F17  - a value that Options.Validate would never have let in: MAX_KEY_LEN outside 1..1024, FILE_SIZE outside
//	       1..MaxFileSize-1, MAX_TX_ENTRIES or MAX_VALUE_LEN <= 0
//	F17b - a value for which no bound exists anywhere and that grew: MAX_TX_ENTRIES, MAX_VALUE_LEN above the pristine
//	       value; any change of the tbtree limits (MAX_NODE_SIZE, MAX_KEY_SIZE, MAX_VALUE_SIZE)
//
// Smaller (valid) limits are NOT excluded: the store then meets records that exceed them.
func limitsKnown(img *dirImage, override map[string][]byte) string {
	res := ""
	for n, b := range override {
		if !strings.Contains(n, "commit/") {
			continue
		}
		orig, ok := img.files[n]
		if !ok {
			continue
		}
		mo, mm := innermostMeta(orig), innermostMeta(b)
		if mo == nil || mm == nil {
			continue
		}
		val := func(m map[string][]byte, k string) (int64, bool) {
			v, ok := m[k]
			if !ok || len(v) < 8 {
				return 0, false
			}
			return int64(binary.BigEndian.Uint64(v)), true
		}
		for _, k := range []string{"MAX_KEY_LEN", "FILE_SIZE", "MAX_TX_ENTRIES", "MAX_VALUE_LEN", "MAX_NODE_SIZE", "MAX_KEY_SIZE", "MAX_VALUE_SIZE"} {
			vo, ok1 := val(mo, k)
			vm, ok2 := val(mm, k)
			if !ok1 || !ok2 || vo == vm {
				continue
			}
			switch k {
			case "MAX_KEY_LEN":
				if vm < 1 || vm > 1024 {
					return kfF17
				}
			case "FILE_SIZE":
				if vm < 1 || vm >= 1<<31-1 {
					return kfF17
				}
			case "MAX_TX_ENTRIES", "MAX_VALUE_LEN":
				if vm <= 0 {
					return kfF17
				}
				if vm > vo {
					res = kfF17b
				}
			default:
				res = kfF17b
			}
		}
	}
	return res
}

// txLogMetadataKnown: at an offset where a record of the pristine tx log starts (the commit log still points
// there), the mutated file holds a version-1 header whose metadata block runs into F4 (extra attribute longer
// than the block / than maxExtraLen).
func txLogMetadataKnown(img *dirImage, override map[string][]byte, txFields map[string][]field) bool {
	for n, b := range override {
		if _, ok := img.files[n]; !ok || !strings.HasPrefix(n, "tx/") {
			continue
		}
		for _, f := range txFields[filepath.Base(n)] {
			if !strings.HasSuffix(f.name, ".ID") || strings.Contains(f.name, ".e") {
				continue
			}
			i := f.off + 8 + 8 + 8 + 32 + 32
			if i+4 > len(b) || binary.BigEndian.Uint16(b[i:]) != 1 {
				continue
			}
			mdLen := int(binary.BigEndian.Uint16(b[i+2:]))
			if mdLen == 0 || mdLen > maxTxMetadataLen || i+4+mdLen > len(b) {
				continue
			}
			if mc := classifyTxMetadata(b[i+4 : i+4+mdLen]); mc.known != "" {
				return true
			}
		}
	}
	return false
}

// vLenKnown: an in-place edit gave a tx-log record a value length above the store's MaxValueLen (256 in the fixture).
func vLenKnown(img *dirImage, override map[string][]byte, txFields map[string][]field) bool {
	for n, b := range override {
		orig, ok := img.files[n]
		if !ok || !strings.HasPrefix(n, "tx/") || len(orig) != len(b) {
			continue
		}
		for _, f := range txFields[filepath.Base(n)] {
			if strings.HasSuffix(f.name, ".vLen") && getBE(b[f.off:f.off+f.n]) != getBE(orig[f.off:f.off+f.n]) && getBE(b[f.off:f.off+f.n]) > 256 {
				return true
			}
		}
	}
	return false
}

// ahtSizeKnown: some (complete) entry of the aht commit log announces a payload
// larger than the whole data log, or an offset that is negative as int64 (the
// fixture's commit log is a single chunk).
func ahtSizeKnown(img *dirImage, override map[string][]byte, deleted map[string]bool, prefix string) bool {
	get := func(n string) []byte {
		if deleted[n] {
			return nil
		}
		if b, ok := override[n]; ok {
			return b
		}
		return img.files[n]
	}
	payload := func(b []byte) []byte {
		if len(b) < 4 {
			return nil
		}
		h := 4 + int(binary.BigEndian.Uint32(b))
		if h < 4 || h > len(b) {
			return nil
		}
		return b[h:]
	}
	c := payload(get(prefix + "commit/00000000.di"))
	dataLen := 0
	for _, n := range img.names {
		if strings.HasPrefix(n, prefix+"data/") {
			dataLen += len(payload(get(n)))
		}
	}
	for n, b := range override {
		if _, ok := img.files[n]; !ok && strings.HasPrefix(n, prefix+"data/") {
			dataLen += len(payload(b))
		}
	}
	for i := 0; i+12 <= len(c); i += 12 {
		if sz := int(binary.BigEndian.Uint32(c[i+8:])); sz > dataLen && sz > 16<<10 {
			return true
		}
		if off := binary.BigEndian.Uint64(c[i:]); off >= 1<<63 {
			return true // negative as int64: passes `pLogFileSize < pLogSize`, SetOffset then walks ~2^50 chunk ids
		}
	}
	return false
}

const kfF2 = "F2-exporttx-partial-truncation-keeps-lock"

// probeF2: a tx whose second value lies beyond the end of the value log (vOff of
// the tx-log record patched; vLen/vOff are not covered by the entry digest):
// ExportTx reports "partially truncated transaction" and keeps _valBsMux locked,
// the next ExportTx never returns.
func probeF2() (bool, string) {
	dfOnce.Do(func() { df, dfErr = buildDiskFixture() })
	if dfErr != nil {
		return false, ""
	}
	img := df.comp["store"]
	name := "tx/00000000.tx"
	b := append([]byte(nil), img.files[name]...)
	l := layoutFile(name, b)
	hit := false
	for _, f := range l.f {
		if f.name == "tx2.e1.vOff" {
			putBE(b[f.off:f.off+f.n], 1<<40)
			hit = true
		}
	}
	if !hit {
		return false, ""
	}
	dir := vk.Dir()
	defer removeAll(dir)
	if err := img.writeTo(dir, map[string][]byte{name: b}, nil); err != nil {
		return false, ""
	}
	st, err := store.Open(dir, diskStoreOpts())
	if err != nil {
		return false, ""
	}
	_, err = st.ExportTx(2, false, false, store.NewTx(64, 256))
	if err == nil || !strings.Contains(err.Error(), "partially truncated") {
		st.Close()
		return false, ""
	}
	done := make(chan struct{})
	go func() {
		defer close(done)
		st.ExportTx(1, false, false, store.NewTx(64, 256)) // c16-f2-probe
	}()
	// blocked = the goroutine sits in sync.Mutex.Lock for 3 s in a row while nobody else uses the store
	var since time.Time
	deadline := time.Now().Add(hangBound)
	for time.Now().Before(deadline) {
		select {
		case <-done:
			st.Close()
			return false, ""
		case <-time.After(50 * time.Millisecond):
		}
		buf := make([]byte, 4<<20)
		buf = buf[:runtime.Stack(buf, true)]
		waiting := false
		for _, g := range strings.Split(string(buf), "\n\n") {
			if strings.Contains(g, "c16.probeF2.func") && strings.Contains(g, "[sync.Mutex.Lock") {
				waiting = true
			}
		}
		switch {
		case !waiting:
			since = time.Time{}
		case since.IsZero():
			since = time.Now()
		case time.Since(since) >= 3*time.Second:
			return true, "ExportTx(2) = 'partially truncated transaction' (second value beyond the value log); the following ExportTx(1) has been waiting for _valBsMux for 3 s while nothing else uses the store"
		}
	}
	return true, "ExportTx after a 'partially truncated transaction' error did not return within 30 s"
}

const kfF20 = "F20-multiapp-missing-or-zero-file-size"

// multiappFileSizeKnown: in some directory of the (edited) image the chunk file
// with the highest number - the one multiapp.Open reads FILE_SIZE from - has no
// FILE_SIZE entry in its wrapped metadata, or one that is <= 0.
func multiappFileSizeKnown(img *dirImage, override map[string][]byte, deleted map[string]bool, singleFile bool) bool {
	if singleFile {
		return false
	}
	last := map[string]string{}
	consider := func(n string) {
		d := filepath.Dir(n)
		if cur, ok := last[d]; !ok || filepath.Base(n) > filepath.Base(cur) {
			last[d] = n
		}
	}
	for _, n := range img.names {
		if !deleted[n] {
			consider(n)
		}
	}
	for n := range override {
		consider(n)
	}
	for _, n := range last {
		b, ok := override[n]
		if !ok {
			b = img.files[n]
		}
		if len(b) < 4 {
			continue
		}
		mLen := int(binary.BigEndian.Uint32(b))
		if mLen > len(b)-4 {
			continue // singleapp.Open refuses the file
		}
		outer := classifyAppMetadata(b[4 : 4+mLen])
		if outer.known != "" {
			continue
		}
		var wrapped []byte
		found := false
		for i, k := range outer.keys {
			if k == "WRAPPED_METADATA" {
				wrapped, found = outer.values[i], true
			}
		}
		if !found {
			continue // singleapp.Open refuses the file
		}
		inner := classifyAppMetadata(wrapped)
		if inner.known != "" {
			continue
		}
		ok = false
		for i, k := range inner.keys {
			if k == "FILE_SIZE" && len(inner.values[i]) >= 8 {
				ok = int64(binary.BigEndian.Uint64(inner.values[i])) > 0
			}
		}
		if !ok {
			return true
		}
	}
	return false
}

// bytesEqualPayloadOf: the mutated file has the same payload (bytes after the header) as the pristine one.
func bytesEqualPayloadOf(orig, mut []byte) bool {
	if orig == nil {
		return false // a new chunk file
	}
	if len(orig) < 4 || len(mut) < 4 {
		return false
	}
	ho := 4 + int(binary.BigEndian.Uint32(orig))
	hm := 4 + int(binary.BigEndian.Uint32(mut))
	if ho > len(orig) || hm > len(mut) || hm < 0 {
		return false
	}
	return string(orig[ho:]) == string(mut[hm:])
}

// probeVerdict: pinned reproductions use small bombs (<= 256 MiB: eight shards run them at once) and a 48 MiB bound.
func probeVerdict(r result, what string) (bool, string) {
	r.base = 48 << 20
	if m := r.verdict(what, 4096); m != "" {
		return true, m
	}
	return false, ""
}

func diskProbes() []vk.Probe {
	probe := func(edit func(img *dirImage) []byte) (bool, string) {
		dfOnce.Do(func() { df, dfErr = buildDiskFixture() })
		if dfErr != nil {
			return false, ""
		}
		img := df.comp["singleapp-z"]
		dir := vk.Dir()
		defer removeAll(dir)
		if err := img.writeTo(dir, map[string][]byte{"f.aof": edit(img)}, nil); err != nil {
			return false, ""
		}
		r := runStateful(func() { openAndRead("singleapp-z", dir, nil) })
		return probeVerdict(r, "singleapp.Open + ReadAt of every chunk")
	}
	storeProbe := func(what, name string, edit func(b []byte, l *layout) bool, use func(st *store.ImmuStore)) (bool, string) {
		dfOnce.Do(func() { df, dfErr = buildDiskFixture() })
		if dfErr != nil {
			return false, ""
		}
		img := df.comp["store"]
		b := append([]byte(nil), img.files[name]...)
		if !edit(b, layoutFile(name, img.files[name])) {
			return false, ""
		}
		dir := vk.Dir()
		defer removeAll(dir)
		if err := img.writeTo(dir, map[string][]byte{name: b}, nil); err != nil {
			return false, ""
		}
		r := runStateful(func() {
			st, err := store.Open(dir, diskStoreOpts())
			if err != nil {
				return
			}
			defer st.Close()
			if use != nil {
				use(st)
			}
		})
		return probeVerdict(r, what)
	}
	setField := func(suffix string, v uint64) func(b []byte, l *layout) bool {
		return func(b []byte, l *layout) bool {
			for _, f := range l.f {
				if strings.HasSuffix(f.name, suffix) {
					putBE(b[f.off:f.off+f.n], v)
					return true
				}
			}
			return false
		}
	}
	return []vk.Probe{{ID: kfF23, Present: func() (bool, string) {
		dfOnce.Do(func() { df, dfErr = buildDiskFixture() })
		if dfErr != nil {
			return false, ""
		}
		img := df.comp["store"]
		name := "index/commit/00000000.ri"
		b := append([]byte(nil), img.files[name]...)
		h, pl := payloadOf(b)
		if len(pl) < 100 {
			return false, ""
		}
		// rootNodeSize (bytes 16..20 of the only commit-log entry; not covered by the node-log checksum) := 16
		binary.BigEndian.PutUint32(b[h+16:], 16)
		dir := vk.Dir()
		defer removeAll(dir)
		if err := img.writeTo(dir, map[string][]byte{name: b}, nil); err != nil {
			return false, ""
		}
		cr := runChild("openread", map[string]string{"comp": "store", "dir": dir})
		if cr.died {
			return true, "store.Open + reads with rootNodeSize := 16 in index/commit/00000000.ri KILLS THE PROCESS: " + cr.crash
		}
		if cr.verdict != "" {
			return true, cr.verdict
		}
		return false, ""
	}}, {ID: kfF17, Present: func() (bool, string) {
		return storeProbe("store.Open with MAX_KEY_LEN := 1<<22 in the header of commit/00000000.txi (MAX_TX_ENTRIES stays 16)", "commit/00000000.txi",
			setField(">MAX_KEY_LEN.val", 1<<22), nil)
	}}, {ID: kfF30, Present: func() (bool, string) {
		return storeProbe("store.Open + ReadTx(2) with the txSize of commit-log entry 2 (not the last one) set to 0x04000000", "commit/00000000.txi",
			setField("clog[1].txSize", 0x04000000), func(st *store.ImmuStore) {
				st.ReadTx(2, false, store.NewTx(64, 256))
			})
	}}, {ID: kfF17b, Present: func() (bool, string) {
		return storeProbe("store.Open with MAX_TX_ENTRIES := 1<<16 in the header of commit/00000000.txi", "commit/00000000.txi",
			setField(">MAX_TX_ENTRIES.val", 1<<16), nil)
	}}, {ID: kfF22, Present: func() (bool, string) {
		return storeProbe("store.Open + ReadTx(1) (integrity checks on) + ReadValue with the vLen of tx 1's entry set to 0x04000000 in the tx log", "tx/00000000.tx",
			setField("tx1.e0.vLen", 0x04000000), func(st *store.ImmuStore) {
				holder := store.NewTx(64, 256)
				if err := st.ReadTx(1, false, holder); err != nil {
					return
				}
				st.ReadValue(holder.Entries()[0])
			})
	}}, {ID: kfF21, Present: func() (bool, string) {
		dfOnce.Do(func() { df, dfErr = buildDiskFixture() })
		if dfErr != nil {
			return false, ""
		}
		img := df.comp["aht"]
		name := "commit/00000000.di"
		b := append([]byte(nil), img.files[name]...)
		p0 := 4 + int(binary.BigEndian.Uint32(b))
		// size of the first payload := 0x04000000
		binary.BigEndian.PutUint32(b[p0+8:], 0x04000000)
		dir := vk.Dir()
		defer removeAll(dir)
		if err := img.writeTo(dir, map[string][]byte{name: b}, nil); err != nil {
			return false, ""
		}
		r := runStateful(func() {
			tr, err := ahtree.Open(dir, ahtOpts())
			if err != nil {
				return
			}
			defer tr.Close()
			tr.DataAt(1)
		})
		return probeVerdict(r, "ahtree.Open + DataAt(1) with the payload size of commit-log entry 1 set to 0x04000000")
	}}, {ID: kfF2, Present: probeF2}, {ID: kfF20, Present: func() (bool, string) {
		dfOnce.Do(func() { df, dfErr = buildDiskFixture() })
		if dfErr != nil {
			return false, ""
		}
		img := df.comp["multiapp"]
		name := img.names[len(img.names)-1]
		b := append([]byte(nil), img.files[name]...)
		l := layoutFile(name, b)
		hit := false
		for _, f := range l.f {
			if strings.HasSuffix(f.name, ">FILE_SIZE.val") {
				putBE(b[f.off:f.off+f.n], 0)
				hit = true
			}
		}
		if !hit {
			return false, ""
		}
		dir := vk.Dir()
		defer removeAll(dir)
		if err := img.writeTo(dir, map[string][]byte{name: b}, nil); err != nil {
			return false, ""
		}
		r := runStateful(func() { openAndRead("multiapp", dir, nil) })
		if m := r.verdict("multiapp.Open + ReadAt with FILE_SIZE := 0 in the header of the last chunk file ("+name+")", 1024); m != "" {
			return true, m
		}
		return false, ""
	}}, {ID: kfF19, Present: func() (bool, string) {
		dfOnce.Do(func() { df, dfErr = buildDiskFixture() })
		if dfErr != nil {
			return false, ""
		}
		img := df.comp["store"]
		name := "commit/00000000.txi"
		b := append([]byte(nil), img.files[name]...)
		if len(b) < 44 {
			return false, ""
		}
		// last commit-log entry: txOff := -0x04000000, txSize := 0x04000000 (their sum, 0, passes the only size check)
		e := len(b) - 44
		binary.BigEndian.PutUint64(b[e:], uint64(0xFFFFFFFFFC000000))
		binary.BigEndian.PutUint32(b[e+8:], 0x04000000)
		dir := vk.Dir()
		defer removeAll(dir)
		if err := img.writeTo(dir, map[string][]byte{name: b}, nil); err != nil {
			return false, ""
		}
		r := runStateful(func() {
			if st, err := store.Open(dir, diskStoreOpts()); err == nil {
				st.Close()
			}
		})
		return probeVerdict(r, "store.Open with the last commit-log entry set to (txOff=-0x04000000, txSize=0x04000000)")
	}}, {ID: kfF18, Present: func() (bool, string) {
		// gzip-compressed appendable, length of the first chunk set to 04 00 00 00 (64 MiB)
		if ok, m := probe(func(img *dirImage) []byte {
			b := append([]byte(nil), img.files["f.aof"]...)
			p0 := 4 + int(binary.BigEndian.Uint32(b))
			copy(b[p0:], []byte{0x04, 0, 0, 0})
			return b
		}); ok {
			return true, "first chunk length := 04000000: " + m
		}
		// compression format := 9 (unknown)
		return probe(func(img *dirImage) []byte {
			b := append([]byte(nil), img.files["f.aof"]...)
			l := layoutFile("f.aof", b)
			for _, f := range l.f {
				if f.name == "meta.COMPRESSION_FORMAT.val" {
					putBE(b[f.off:f.off+f.n], 9)
				}
			}
			return b
		})
	}}}
}

var diskComponents = []string{"singleapp", "singleapp-z", "multiapp", "aht", "tbtree", "store", "store"}

// zChunkKnown: a chunk of the compressed fixture announces more bytes than the file holds
// (or the header no longer names a known compression format).
func zChunkKnown(mut []byte, offs []int64) bool {
	if len(mut) < 4 {
		return false
	}
	mLen := int(binary.BigEndian.Uint32(mut))
	if mLen > len(mut)-4 {
		return false
	}
	ref := classifyAppMetadata(mut[4 : 4+mLen])
	for i, k := range ref.keys {
		if k == "COMPRESSION_FORMAT" && len(ref.values[i]) >= 8 {
			if f := binary.BigEndian.Uint64(ref.values[i]); f > 4 {
				return true // reader() returns (nil, nil): nil dereference
			}
		}
	}
	p0 := 4 + mLen
	for _, o := range offs {
		at := p0 + int(o)
		if at+4 > len(mut) {
			continue
		}
		if n := int(binary.BigEndian.Uint32(mut[at:])); n > len(mut)-at-4 && n > 16<<10 {
			return true
		}
	}
	return false
}

// TestOpenCorruptedDirectories: structure-aware corruption of pristine on-disk
// images, then open + full read.
func TestOpenCorruptedDirectories(t *testing.T) {
	fx := diskFix(t)
	vk.Check(t, 6000, 80000, func(rt *rapid.T, c *vk.Case) {
		comp := rapid.SampledFrom(diskComponents).Draw(rt, "component")
		img := fx.comp[comp]
		override := map[string][]byte{}
		deleted := map[string]bool{}
		nEdits := rapid.SampledFrom([]int{1, 1, 1, 2}).Draw(rt, "edits")
		desc := ""
		single := nEdits == 1
		known := ""
		for e := 0; e < nEdits; e++ {
			name := img.names[rapid.IntRange(0, len(img.names)-1).Draw(rt, "file")]
			if comp == "store" && rapid.IntRange(0, 3).Draw(rt, "preferLogs") == 0 {
				// the commit log and the tx log carry most of the structure: pick them more often
				var logs []string
				for _, n := range img.names {
					if strings.HasPrefix(n, "commit/") || strings.HasPrefix(n, "tx/") {
						logs = append(logs, n)
					}
				}
				name = logs[rapid.IntRange(0, len(logs)-1).Draw(rt, "logFile")]
			}
			fileOp := rapid.SampledFrom([]string{"mutate", "mutate", "mutate", "mutate", "mutate", "mutate", "delete", "empty", "headerOnly", "cloneAsNext"}).Draw(rt, "fileOp")
			data := img.files[name]
			if e > 0 {
				desc += " ++ "
			}
			switch fileOp {
			case "delete":
				deleted[name] = true
				desc += name + ": deleted"
			case "empty":
				override[name] = []byte{}
				desc += name + ": emptied"
			case "headerOnly":
				if len(data) >= 4 {
					hl := 4 + int(binary.BigEndian.Uint32(data))
					if hl <= len(data) {
						override[name] = data[:hl]
					}
				}
				desc += name + ": payload removed"
			case "cloneAsNext":
				ext := filepath.Ext(name)
				baseName := strings.TrimSuffix(filepath.Base(name), ext)
				var id int
				if _, err := fmt.Sscanf(baseName, "%d", &id); err == nil {
					nn := filepath.Join(filepath.Dir(name), fmt.Sprintf("%08d%s", id+1+rapid.IntRange(0, 1).Draw(rt, "gap"), ext))
					override[nn] = data
				}
				desc += name + ": cloned as a later chunk"
			default:
				l := layoutFile(name, data)
				var limits []field
				for _, f := range l.f {
					for _, k := range []string{"MAX_TX_ENTRIES.val", "MAX_KEY_LEN.val", "MAX_VALUE_LEN.val", "MAX_NODE_SIZE.val", "MAX_KEY_SIZE.val", "MAX_VALUE_SIZE.val", "FILE_SIZE.val"} {
						if strings.HasSuffix(f.name, k) && f.n == 8 {
							limits = append(limits, f)
						}
					}
				}
				if len(limits) > 0 && rapid.IntRange(0, 5).Draw(rt, "shrinkLimit") == 0 {
					// a limit smaller than what the log already holds: records now exceed it
					f := limits[rapid.IntRange(0, len(limits)-1).Draw(rt, "limit")]
					cur := getBE(data[f.off : f.off+f.n])
					nv := rapid.SampledFrom([]uint64{1, 2, 3, cur / 2, cur - 1}).Draw(rt, "smaller")
					b := l.clone()
					putBE(b[f.off:f.off+f.n], nv)
					override[name] = b
					desc += fmt.Sprintf("%s: shrink %s to %d", name, f.name, nv)
					break
				}
				var clogFields []field
				for _, f := range l.f {
					if strings.HasPrefix(f.name, "clog[") && f.kind != kHash {
						clogFields = append(clogFields, f)
					}
				}
				if len(clogFields) > 0 && rapid.IntRange(0, 2).Draw(rt, "clogEntry") == 0 {
					// a commit-log entry (any position) with a hostile offset or size
					f := clogFields[rapid.IntRange(0, len(clogFields)-1).Draw(rt, "clogField")]
					b := l.clone()
					hs := hostileValues(f.n, getBE(b[f.off:f.off+f.n]), len(b)-f.off-f.n)
					h := hs[rapid.IntRange(0, len(hs)-1).Draw(rt, "clogHostile")]
					putBE(b[f.off:f.off+f.n], h.v)
					override[name] = b
					desc += fmt.Sprintf("%s: set %s=%s", name, f.name, h.class)
					break
				}
				b, d := mutateOnce(rt, l, l.clone(), fmt.Sprintf("e%d.", e))
				override[name] = b
				desc += name + ": " + d
				if k := headerKnown(b, comp == "singleapp-z"); k != "" {
					known = k
				}
				if comp == "singleapp-z" && zChunkKnown(b, fx.zOffsets) {
					known = kfF18
				}
			}
		}
		// every known-finding class the corruption belongs to (a fixed one no longer hides the others)
		var knowns []string
		add := func(k string) {
			if k != "" {
				knowns = append(knowns, k)
			}
		}
		add(known)
		for n := range override {
			if comp == "store" && strings.HasPrefix(n, "commit/") && !bytesEqualPayloadOf(img.files[n], override[n]) {
				add(kfF19)
				break
			}
		}
		for n := range deleted {
			if comp == "store" && strings.HasPrefix(n, "commit/") {
				add(kfF19)
				break
			}
		}
		if comp == "store" && clogTxSizeKnown(img, override, deleted) {
			add(kfF30)
		}
		if comp == "store" || comp == "tbtree" {
			add(limitsKnown(img, override))
		}
		if comp == "store" && txLogMetadataKnown(img, override, fx.txFields) {
			add(kfF4)
		}
		if comp == "store" && vLenKnown(img, override, fx.txFields) {
			add(kfF22)
		}
		for n, b := range override {
			isIdxCommit := comp == "tbtree" && strings.HasPrefix(n, "commit/") || comp == "store" && strings.HasPrefix(n, "index") && strings.Contains(n, "/commit/")
			if isIdxCommit && !bytesEqualPayloadOf(img.files[n], b) {
				add(kfF23)
				break
			}
		}
		if comp == "aht" && ahtSizeKnown(img, override, deleted, "") {
			add(kfF21)
		}
		if comp == "store" && ahtSizeKnown(img, override, deleted, "aht/") {
			add(kfF21)
		}
		if multiappFileSizeKnown(img, override, deleted, strings.HasPrefix(comp, "singleapp")) {
			add(kfF20)
		}
		c.Descf("%s | %s", comp, desc)
		c.Label("component-" + comp)
		skip := false
		for _, k := range knowns {
			if excludedKnown(c, k, true) {
				skip = true
				break
			}
		}
		if skip {
			return
		}
		dir := vk.Dir()
		defer removeAll(dir)
		if err := img.writeTo(dir, override, deleted); err != nil {
			rt.Fatalf("writing the image: %v", err)
		}
		var opened bool
		var rerr error
		if comp == "store" || comp == "tbtree" {
			// the store's indexers and tbtree's insert helpers decode nodes in background goroutines: run in a child process
			cr := runChild("openread", map[string]string{"comp": comp, "dir": dir})
			c.Label("ran-in-child-process")
			if cr.died {
				c.Failf(rt, map[string]any{"component": comp, "corruption": desc}, "open + full read of a corrupted %s directory KILLED THE PROCESS: %s\ncorruption: %s", comp, cr.crash, desc)
			}
			if cr.verdict != "" {
				c.Failf(rt, map[string]any{"component": comp, "corruption": desc}, "%s\ncorruption: %s", cr.verdict, desc)
			}
			opened = cr.opened
			if cr.err != "" {
				rerr = errors.New(cr.err)
			}
		} else {
			r := runStateful(func() { opened, rerr = openAndRead(comp, dir, fx.keys) })
			if m := r.verdict("open + full read of a corrupted "+comp+" directory", diskReadCap); m != "" {
				c.Failf(rt, map[string]any{"component": comp, "corruption": desc}, "%s\ncorruption: %s", m, desc)
			}
		}
		switch {
		case !opened:
			c.Label("open-refused")
		case rerr != nil:
			c.Label("opened,read-error")
		default:
			c.Label("opened,read-clean")
		}
		if opened || single {
			c.NonTrivial()
		}
	})
}
