#!/usr/bin/env python3
# Applies the C16 proposed fixes to a copy of the immudb repository (argv[1]).
# Optional argv[2..]: finding ids to apply (default: all).
import sys, os
root = sys.argv[1]
only = set(sys.argv[2:])

def sub(path, old, new, count=1):
    p = os.path.join(root, path)
    s = open(p).read()
    if s.count(old) < 1:
        raise SystemExit("PATCH DOES NOT APPLY: %s :: %r" % (path, old[:80]))
    s = s.replace(old, new, count)
    open(p, 'w').write(s)

def want(fid):
    return not only or fid in only

if want('F4'):
    sub('embedded/store/tx_metadata.go', '''	a.extra = make([]byte, binary.BigEndian.Uint16(b))
	copy(a.extra, b[sszSize:])

	return sszSize + len(a.extra), nil''', '''	n := int(binary.BigEndian.Uint16(b))
	if n > maxExtraLen || len(b) < sszSize+n {
		return 0, ErrCorruptedData
	}

	a.extra = make([]byte, n)
	copy(a.extra, b[sszSize:sszSize+n])

	return sszSize + n, nil''')

if want('F8'):
    sub('embedded/store/tx.go', '''	// following records are currently common in versions 0 and 1
	copy(hdr.Eh[:], b[i:])''', '''	if len(b) < i+sha256.Size+txIDSize+sha256.Size {
		return ErrCorruptedData
	}

	// following records are currently common in versions 0 and 1
	copy(hdr.Eh[:], b[i:])''')

if want('F9'):
    sub('embedded/store/tx.go', '''	case 1:
		{
			var mdbs []byte

			if hdr.Metadata != nil {
				mdbs = hdr.Metadata.Bytes()
			}

			binary.BigEndian.PutUint16(b[i:], uint16(len(mdbs)))
			i += sszSize

			copy(b[i:], mdbs)
			i += len(mdbs)

			binary.BigEndian.PutUint32(b[i:], uint32(hdr.NEntries))
			i += lszSize
		}
	default:
		{
			panic(fmt.Errorf("missing tx hash calculation method for version %d", hdr.Version))
		}
	}

	// following records are currently common in versions 0 and 1

	copy(b[i:], hdr.Eh[:])''', '''	default:
		{
			// version 1; a header with an unknown (newer or forged) version, e.g. one
			// received in a proof, is hashed with the newest known layout: the version
			// is part of the preimage, so the resulting Alh cannot match a genuine one
			var mdbs []byte

			if hdr.Metadata != nil {
				mdbs = hdr.Metadata.Bytes()
			}

			binary.BigEndian.PutUint16(b[i:], uint16(len(mdbs)))
			i += sszSize

			copy(b[i:], mdbs)
			i += len(mdbs)

			binary.BigEndian.PutUint32(b[i:], uint32(hdr.NEntries))
			i += lszSize
		}
	}

	// following records are currently common in versions 0 and 1

	copy(b[i:], hdr.Eh[:])''')

if want('F3'):
    sub('embedded/store/immustore.go', '''			i += mdLen
		}

		// value
		vLen := int(binary.BigEndian.Uint32(exportedTx[i:]))''', '''			i += mdLen
		}

		if len(exportedTx) < i+lszSize {
			return nil, ErrIllegalArguments
		}

		// value
		vLen := int(binary.BigEndian.Uint32(exportedTx[i:]))''')
    sub('embedded/store/immustore.go', '''		// information for truncated value
		tLen := int(binary.BigEndian.Uint16(exportedTx[i:]))
		i += sszSize
		if len(exportedTx) < i+tLen {
			return nil, ErrIllegalArguments
		}''', '''		// information for truncated value
		if len(exportedTx) < i+sszSize {
			return nil, ErrIllegalArguments
		}
		tLen := int(binary.BigEndian.Uint16(exportedTx[i:]))
		i += sszSize
		if tLen == 0 || len(exportedTx) < i+tLen {
			return nil, ErrIllegalArguments
		}''')

if want('F19'):
    sub('embedded/store/immustore.go', '''		if txLogFileSize < committedTxLogSize {
			return nil, fmt.Errorf("corrupted transaction log: size is too small: %w", ErrCorruptedTxData)
		}''', '''		if committedTxOffset < 0 || txLogFileSize < committedTxLogSize {
			return nil, fmt.Errorf("corrupted transaction log: size is too small: %w", ErrCorruptedTxData)
		}''')

if want('F2'):
    p = os.path.join(root, 'embedded/store/immustore.go')
    s = open(p).read()
    a = '''			if isValueTruncated {
				return nil, fmt.Errorf("%w: partially truncated transaction", ErrCorruptedData)
			}

			// vLen'''
    b = '''			if !isValueTruncated && i > 0 {
				return nil, fmt.Errorf("%w: partially truncated transaction", ErrCorruptedData)
			}'''
    if a in s and b in s:
        s = s.replace(a, a.replace('				return nil', '				s._valBsMux.Unlock()\n				return nil'))
        s = s.replace(b, b.replace('				return nil', '				s._valBsMux.Unlock()\n				return nil'))
        open(p, 'w').write(s)
    else:
        print("F2: already fixed upstream (or shape changed), skipped")

if want('F22'):
    sub('embedded/store/immustore.go', '''	b := make([]byte, entry.vLen)

	_, err := s.readValueAt(b, entry.vOff, entry.hVal, false)''', '''	if entry.vLen < 0 || entry.vLen > s.maxValueLen {
		return nil, fmt.Errorf("%w: value length exceeds the maximum", ErrCorruptedTxData)
	}

	b := make([]byte, entry.vLen)

	_, err := s.readValueAt(b, entry.vOff, entry.hVal, false)''')
    sub('embedded/store/immustore.go', '''		var valBuf []byte
		if e.vLen > len(s._valBs) {''', '''		if e.vLen < 0 || e.vLen > s.maxValueLen {
			s._valBsMux.Unlock()
			return nil, fmt.Errorf("%w: value length exceeds the maximum", ErrCorruptedTxData)
		}

		var valBuf []byte
		if e.vLen > len(s._valBs) {''')
    sub('embedded/store/key_reader.go', '''	valLen := binary.BigEndian.Uint32(indexedVal[i:])
	i += lszSize
''', '''	valLen := binary.BigEndian.Uint32(indexedVal[i:])
	i += lszSize

	if int64(valLen) > int64(st.maxValueLen) {
		return nil, ErrCorruptedIndex
	}
''')
    sub('embedded/store/indexer.go', '''	buf := idx.valBuffer(vLen)''', '''	if vLen < 0 || vLen > idx.store.maxValueLen {
		return nil, fmt.Errorf("%w: value length exceeds the maximum", ErrCorruptedTxData)
	}

	buf := idx.valBuffer(vLen)''')

if want('F17'):
    sub('embedded/store/immustore.go', '''	// These limits are persisted to metadata at store creation and cannot be changed''', '''	// the same bounds Options.Validate enforces when the store is created
	if fileSize <= 0 || fileSize >= MaxFileSize || maxKeyLen <= 0 || maxKeyLen > MaxKeyLen || maxTxEntries <= 0 || maxValueLen <= 0 {
		return nil, fmt.Errorf("%w: invalid limits in metadata", ErrCorruptedCLog)
	}

	// These limits are persisted to metadata at store creation and cannot be changed''')

if want('F16'):
    sub('embedded/appendable/metadata.go', '''	lenb, err := readField(r)
	if err != nil {
		return 0, err
	}
	len := int(binary.BigEndian.Uint32(lenb))''', '''	lenb, err := readField(r)
	if err != nil {
		return 0, err
	}
	if len(lenb) != 4 {
		return 0, ErrCorruptedMetadata
	}
	len := int(binary.BigEndian.Uint32(lenb))''')
    sub('embedded/appendable/metadata.go', '''	v, ok := m.Get(key)
	if !ok {
		return 0, false
	}
	return int(binary.BigEndian.Uint64(v)), true''', '''	v, ok := m.Get(key)
	if !ok || len(v) < 8 {
		return 0, false
	}
	return int(binary.BigEndian.Uint64(v)), true''')
    sub('embedded/appendable/metadata.go', '''	v, ok := m.Get(key)
	if !ok {
		return false, false
	}
	return v[0] != 0, true''', '''	v, ok := m.Get(key)
	if !ok || len(v) < 1 {
		return false, false
	}
	return v[0] != 0, true''')
    sub('embedded/appendable/metadata.go', '''	fb := make([]byte, len)
	_, err = io.ReadFull(r, fb)
	if err != nil {
		return nil, err
	}

	return fb, nil''', '''	// the buffer grows with the data actually present: a corrupted length cannot trigger a huge allocation
	var fb bytes.Buffer
	_, err = io.CopyN(&fb, r, int64(len))
	if err != nil {
		return nil, err
	}

	return fb.Bytes(), nil''')
    sub('embedded/appendable/metadata.go', '''type Metadata struct {''', '''var ErrCorruptedMetadata = errors.New("appendable: corrupted metadata")

type Metadata struct {''')
    sub('embedded/appendable/metadata.go', '''	"encoding/binary"
	"io"''', '''	"encoding/binary"
	"errors"
	"io"''')
    sub('embedded/appendable/singleapp/single_app.go', '''		mLenBs := make([]byte, 4)
		_, err := io.ReadFull(r, mLenBs)
		if err != nil {
			return nil, ErrCorruptedMetadata
		}

		mBs := make([]byte, binary.BigEndian.Uint32(mLenBs))
		_, err = io.ReadFull(r, mBs)
		if err != nil {
			return nil, ErrCorruptedMetadata
		}''', '''		finfo, err := f.Stat()
		if err != nil {
			f.Close()
			return nil, err
		}

		mLenBs := make([]byte, 4)
		_, err = io.ReadFull(r, mLenBs)
		if err != nil {
			f.Close()
			return nil, ErrCorruptedMetadata
		}

		mLen := binary.BigEndian.Uint32(mLenBs)
		if int64(mLen) > finfo.Size()-4 {
			f.Close()
			return nil, ErrCorruptedMetadata
		}

		mBs := make([]byte, mLen)
		_, err = io.ReadFull(r, mBs)
		if err != nil {
			f.Close()
			return nil, ErrCorruptedMetadata
		}''')

if want('F18'):
    sub('embedded/appendable/singleapp/single_app.go', '''		compressionFormat = cf
''', '''		if cf < appendable.NoCompression || cf > appendable.ZLibCompression {
			f.Close()
			return nil, ErrCorruptedMetadata
		}
		compressionFormat = cf
''')
    sub('embedded/appendable/singleapp/single_app.go', '''	cBs := make([]byte, binary.BigEndian.Uint32(clenBs))
	_, err = aof.readAt(cBs, off+4)
	if err != nil {
		return 0, err
	}
''', '''	cLen := int64(binary.BigEndian.Uint32(clenBs))
	if cLen > aof.offset()-off-4 {
		// the chunk cannot be larger than what has been written after its length
		return 0, io.EOF
	}

	cBs := make([]byte, cLen)
	_, err = aof.readAt(cBs, off+4)
	if err != nil {
		return 0, err
	}
''')

if want('F20'):
    sub('embedded/appendable/multiapp/multi_app.go', '''	fileSize, _ := appendable.NewMetadata(currApp.Metadata()).GetInt(metaFileSize)
''', '''	fileSize, ok := appendable.NewMetadata(currApp.Metadata()).GetInt(metaFileSize)
	if !ok || fileSize <= 0 {
		currApp.Close()
		return nil, ErrCorruptedMetadata
	}
''')
    sub('embedded/appendable/multiapp/multi_app.go', '''var ErrReadOnly = errors.New("multiapp: read-only mode")''', '''var ErrReadOnly = errors.New("multiapp: read-only mode")
var ErrCorruptedMetadata = errors.New("multiapp: corrupted metadata")''')

if want('F21'):
    sub('embedded/ahtree/ahtree.go', '''	pOff := binary.BigEndian.Uint64(b[:])
	pSize := binary.BigEndian.Uint32(b[offsetSize:])

	p := make([]byte, pSize)
	if pSize > 0 {''', '''	pOff := binary.BigEndian.Uint64(b[:])
	pSize := binary.BigEndian.Uint32(b[offsetSize:])

	if pOff > uint64(t.pLogSize) || int64(pOff)+int64(szSize)+int64(pSize) > t.pLogSize {
		return nil, ErrorCorruptedData
	}

	p := make([]byte, pSize)
	if pSize > 0 {''')
    # offsets that are negative as int64 (Open and ResetSize)
    sub('embedded/ahtree/ahtree.go', '''	t.pLogSize = int64(pOff) + int64(szSize+pSize)

	pLogFileSize, err := pLog.Size()
	if err != nil {
		return nil, err
	}

	if pLogFileSize < t.pLogSize {''', '''	t.pLogSize = int64(pOff) + int64(szSize+pSize)

	pLogFileSize, err := pLog.Size()
	if err != nil {
		return nil, err
	}

	if pOff > uint64(pLogFileSize) || pLogFileSize < t.pLogSize {''')
    sub('embedded/ahtree/ahtree.go', '''		if pLogFileSize < pLogSize {
			return ErrorCorruptedData
		}''', '''		if pOff > uint64(pLogFileSize) || pLogFileSize < pLogSize {
			return ErrorCorruptedData
		}''')
    sub('embedded/appendable/multiapp/multi_app.go', '''	if off == currOffset {
		return nil
	}

	appID := appendableID(off, mf.fileSize)''', '''	if off == currOffset {
		return nil
	}

	if off < 0 {
		return ErrIllegalArguments
	}

	appID := appendableID(off, mf.fileSize)''')

if want('F24'):
    sub('embedded/sql/engine.go', '''		voff := 0

		cols := int(binary.BigEndian.Uint32(value[voff:]))
		voff += EncLenLen

		for i := 0; i < cols; i++ {
			if len(value) < EncIDLen {
				return fmt.Errorf("key is lower than required")
			}

			colID := binary.BigEndian.Uint32(value[voff:])
			voff += EncIDLen

			col, err := index.table.GetColumnByID(colID)
			if errors.Is(err, ErrColumnDoesNotExist) {
				vlen := int(binary.BigEndian.Uint32(value[voff:]))
				voff += EncLenLen + vlen
				continue
			} else if err != nil {''', '''		voff := 0

		if len(value) < EncLenLen {
			return ErrCorruptedData
		}

		cols := int(binary.BigEndian.Uint32(value[voff:]))
		voff += EncLenLen

		for i := 0; i < cols; i++ {
			if len(value)-voff < EncIDLen {
				return ErrCorruptedData
			}

			colID := binary.BigEndian.Uint32(value[voff:])
			voff += EncIDLen

			col, err := index.table.GetColumnByID(colID)
			if errors.Is(err, ErrColumnDoesNotExist) {
				vlen, n, err := DecodeValueLength(value[voff:])
				if err != nil {
					return err
				}
				voff += n + vlen
				continue
			} else if err != nil {''')

if want('F25'):
    sub('embedded/sql/row_reader.go', '''	for i, pos := 0, 0; i < cols; i++ {
		if len(v) < EncIDLen {
			return nil, ErrCorruptedData
		}''', '''	for i, pos := 0, 0; i < cols; i++ {
		if len(v)-voff < EncIDLen {
			return nil, ErrCorruptedData
		}''')

if want('F6') or want('F10'):
    p = 'pkg/api/schema/database_protoconv.go'
    sub(p, '''func TxFromProto(stx *Tx) *store.Tx {
	header := &store.TxHeader{}''', '''func TxFromProto(stx *Tx) *store.Tx {
	if stx == nil || stx.Header == nil || int(stx.Header.Nentries) != len(stx.Entries) {
		return nil
	}

	header := &store.TxHeader{}''')
    sub(p, '''	for i, e := range stx.Entries {
		entries[i] = store.NewTxEntry(''', '''	for i, e := range stx.Entries {
		if e == nil {
			return nil
		}
		entries[i] = store.NewTxEntry(''')
    for fn, typ in [('InclusionProofFromProto(iproof *InclusionProof) *htree.InclusionProof', 'iproof'),
                    ('DualProofFromProto(dproof *DualProof) *store.DualProof', 'dproof'),
                    ('DualProofV2FromProto(dproof *DualProofV2) *store.DualProofV2', 'dproof'),
                    ('TxHeaderFromProto(hdr *TxHeader) *store.TxHeader', 'hdr'),
                    ('LinearProofFromProto(lproof *LinearProof) *store.LinearProof', 'lproof')]:
        sub(p, 'func %s {\n	return' % fn, 'func %s {\n	if %s == nil {\n		return nil\n	}\n	return' % (fn, typ))
    sub(p, '''	for i, proof := range laproof.InclusionProofs {
		inclusionProofs[i] = DigestsFromProto(proof.Terms)
	}''', '''	for i, proof := range laproof.InclusionProofs {
		if proof != nil {
			inclusionProofs[i] = DigestsFromProto(proof.Terms)
		}
	}''')
    sub('pkg/api/schema/linear_inclusion_enhancer.go', '''		lAdvProof.InclusionProofs[txID-startTxID-1] = DigestsFromProto(partialProof.DualProof.InclusionProof)''', '''		if partialProof == nil || partialProof.DualProof == nil {
			return store.ErrCorruptedData
		}
		lAdvProof.InclusionProofs[txID-startTxID-1] = DigestsFromProto(partialProof.DualProof.InclusionProof)''')
    sub('pkg/api/schema/linear_inclusion_enhancer.go', '''	lAdvProof.LinearProofTerms = DigestsFromProto(partialProof.DualProof.LinearProof.Terms)''', '''	if partialProof == nil || partialProof.DualProof == nil || partialProof.DualProof.LinearProof == nil {
		return store.ErrCorruptedData
	}
	lAdvProof.LinearProofTerms = DigestsFromProto(partialProof.DualProof.LinearProof.Terms)''')

if want('F11') or want('F12') or want('F13'):
    helper = '''
// checkVerifiableTx makes sure a server reply carries every part the client-side
// verification dereferences: a reply with an absent sub-message must be rejected, not crash the client.
func checkVerifiableTx(vtx *schema.VerifiableTx) error {
	if vtx == nil || vtx.Tx == nil || vtx.Tx.Header == nil || vtx.DualProof == nil ||
		vtx.DualProof.SourceTxHeader == nil || vtx.DualProof.TargetTxHeader == nil {
		return store.ErrCorruptedData
	}
	if int(vtx.Tx.Header.Nentries) != len(vtx.Tx.Entries) {
		return store.ErrCorruptedData
	}
	for _, e := range vtx.Tx.Entries {
		if e == nil {
			return store.ErrCorruptedData
		}
	}
	return nil
}

func checkVerifiableEntry(vEntry *schema.VerifiableEntry) error {
	if vEntry == nil || vEntry.Entry == nil || vEntry.InclusionProof == nil {
		return store.ErrCorruptedData
	}
	return checkVerifiableTx(vEntry.VerifiableTx)
}

func decodeTxEntries(entries []*schema.TxEntry) {
	for _, it := range entries {
		if it != nil && len(it.Key) > 0 {
			it.Key = it.Key[1:]
		}
	}
}
'''
    sub('pkg/client/client.go', '''
func decodeTxEntries(entries []*schema.TxEntry) {
	for _, it := range entries {
		it.Key = it.Key[1:]
	}
}
''', helper)
    sub('pkg/client/client.go', '''	vEntry, err := c.ServiceClient.VerifiableGet(ctx, req)
	if err != nil {
		return nil, err
	}
''', '''	vEntry, err := c.ServiceClient.VerifiableGet(ctx, req)
	if err != nil {
		return nil, err
	}

	if err := checkVerifiableEntry(vEntry); err != nil {
		return nil, err
	}
''')
    sub('pkg/client/client.go', '''	if verifiableTx.Tx.Header.Nentries != 1 || len(verifiableTx.Tx.Entries) != 1 {
		return nil, store.ErrCorruptedData
	}''', '''	if err := checkVerifiableTx(verifiableTx); err != nil {
		return nil, err
	}

	if verifiableTx.Tx.Header.Nentries != 1 || len(verifiableTx.Tx.Entries) != 1 {
		return nil, store.ErrCorruptedData
	}''')
    sub('pkg/client/client.go', '''	dualProof := schema.DualProofFromProto(vTx.DualProof)

	var sourceID, targetID uint64
	var sourceAlh, targetAlh [sha256.Size]byte

	if state.TxId <= tx {''', '''	if err := checkVerifiableTx(vTx); err != nil {
		return nil, err
	}

	dualProof := schema.DualProofFromProto(vTx.DualProof)

	var sourceID, targetID uint64
	var sourceAlh, targetAlh [sha256.Size]byte

	if state.TxId <= tx {''')
    sub('pkg/client/client.go', '''	if verifiableTx.Tx.Header.Nentries != 1 {
		return nil, store.ErrCorruptedData
	}''', '''	if err := checkVerifiableTx(verifiableTx); err != nil {
		return nil, err
	}

	if verifiableTx.Tx.Header.Nentries != 1 {
		return nil, store.ErrCorruptedData
	}''')
    sub('pkg/client/client.go', '''	if vtx.Tx.Header.Nentries != 1 {
		return nil, store.ErrCorruptedData
	}''', '''	if err := checkVerifiableTx(vtx); err != nil {
		return nil, err
	}

	if vtx.Tx.Header.Nentries != 1 {
		return nil, store.ErrCorruptedData
	}''')
    sub('pkg/client/streams.go', '''	if verifiableTx.Tx.Header.Nentries != int32(len(kvs)) || len(verifiableTx.Tx.Entries) != len(kvs) {''', '''	if err := checkVerifiableTx(verifiableTx); err != nil {
		return nil, err
	}

	if verifiableTx.Tx.Header.Nentries != int32(len(kvs)) || len(verifiableTx.Tx.Entries) != len(kvs) {''')
    sub('pkg/client/streams.go', '''	entrySpecDigest, err := store.EntrySpecDigestFor(int(vEntry.VerifiableTx.Tx.Header.Version))''', '''	if err := checkVerifiableEntry(vEntry); err != nil {
		return nil, err
	}

	entrySpecDigest, err := store.EntrySpecDigestFor(int(vEntry.VerifiableTx.Tx.Header.Version))''')
    sub('pkg/client/sql.go', '''	if len(vEntry.PKIDs) < len(pkVals) {
		return ErrIllegalArguments
	}''', '''	if vEntry.SqlEntry == nil || vEntry.InclusionProof == nil {
		return store.ErrCorruptedData
	}

	if err := checkVerifiableTx(vEntry.VerifiableTx); err != nil {
		return err
	}

	if len(vEntry.PKIDs) < len(pkVals) {
		return ErrIllegalArguments
	}''')
    sub('pkg/client/sql.go', '''	colsCount := binary.BigEndian.Uint32(encodedRow[off:])
	off += sql.EncLenLen
''', '''	colsCount := binary.BigEndian.Uint32(encodedRow[off:])
	off += sql.EncLenLen

	// every column takes at least an id and a length
	if int64(colsCount) > int64(len(encodedRow)-off)/int64(sql.EncIDLen+sql.EncLenLen) {
		return nil, sql.ErrCorruptedData
	}
''')

if want('F14'):
    for f, fn, ret, cond in [('query.go', 'ParseQueryMsg(payload []byte) (QueryMsg, error) {\n	msg', 'QueryMsg{}', 'len(payload) == 0'),
                             ('password_message.go', 'ParsePasswordMsg(payload []byte) (PasswordMsg, error) {\n	password', 'PasswordMsg{}', 'len(payload) == 0'),
                             ('describe.go', 'ParseDescribeMsg(msg []byte) (DescribeMsg, error) {\n	descType', 'DescribeMsg{}', 'len(msg) < 2')]:
        p = 'pkg/pgsql/server/fmessages/' + f
        head, tail = fn.split('{\n	')
        sub(p, 'func ' + fn, 'func %s{\n	if %s {\n		return %s, pgserrors.ErrMalformedMessage\n	}\n	%s' % (head, cond, ret, tail))
        sub(p, 'package fmessages\n', 'package fmessages\n\nimport pgserrors "github.com/codenotary/immudb/pkg/pgsql/errors"\n')

if want('F15'):
    sub('pkg/stream/receiver.go', '''	msgSize := int(binary.BigEndian.Uint64(firstChunk.Content))

	b := make([]byte, msgSize)
	read := 0

	copy(b, firstChunk.Content[8:])
	read += len(firstChunk.Content) - 8

	for read < msgSize {
		chunk, err := r.stream.Recv()
		if err == io.EOF {
			break
		}
		if err != nil {
			return b, firstChunk.Metadata, err
		}

		copy(b[read:], chunk.Content)
		read += len(chunk.Content)
	}

	if read < msgSize {
		return b, firstChunk.Metadata, io.EOF
	}

	return b, firstChunk.Metadata, nil''', '''	msgSize := int(binary.BigEndian.Uint64(firstChunk.Content))
	if msgSize < 0 {
		return nil, firstChunk.Metadata, errors.New(ErrInvalidMessageLength)
	}

	// the buffer grows with the chunks actually received: the announced length alone allocates nothing
	b := append([]byte(nil), firstChunk.Content[8:]...)

	for len(b) < msgSize {
		chunk, err := r.stream.Recv()
		if err == io.EOF {
			break
		}
		if err != nil {
			return b, firstChunk.Metadata, err
		}

		b = append(b, chunk.Content...)
	}

	if len(b) < msgSize {
		return b, firstChunk.Metadata, io.EOF
	}

	return b[:msgSize], firstChunk.Metadata, nil''')
    sub('pkg/stream/receiver.go', '''			r.tl = int(binary.BigEndian.Uint64(trailer))
		}''', '''			r.tl = int(binary.BigEndian.Uint64(trailer))
			if r.tl < 0 {
				r.tl = 0
				return 0, errors.New(ErrInvalidMessageLength)
			}
		}''')
    sub('pkg/stream/errors.go', '''var ErrRefOptNotImplemented =''', '''var ErrInvalidMessageLength = "invalid message length"
var ErrRefOptNotImplemented =''')
    sub('pkg/stream/errors.go', '''	errors.CodeMap[ErrRefOptNotImplemented] =''', '''	errors.CodeMap[ErrInvalidMessageLength] = errors.CodDataException
	errors.CodeMap[ErrRefOptNotImplemented] =''')

if want('F28'):
    sub('embedded/sql/sql_grammar.y', '''    fnCall opt_as
    {
        $$ = &FnDataSourceStmt{fnCall: $1.(*FnCall), as: $2}
    }''', '''    fnCall opt_as
    {
        fc, ok := $1.(*FnCall)
        if !ok {
            yylex.Error("window functions can not be used as a data source")
            goto ret1
        }
        $$ = &FnDataSourceStmt{fnCall: fc, as: $2}
    }''')
    sub('embedded/sql/sql_parser.go', '''			yyVAL.ds = &FnDataSourceStmt{fnCall: yyDollar[1].value.(*FnCall), as: yyDollar[2].id}''', '''			fc, ok := yyDollar[1].value.(*FnCall)
			if !ok {
				yylex.Error("window functions can not be used as a data source")
				goto ret1
			}
			yyVAL.ds = &FnDataSourceStmt{fnCall: fc, as: yyDollar[2].id}''')

if want('F29'):
    sub('embedded/sql/functions.go', '''	if fill == "" {
		fill = " "
	}
	for int64(len(s)) < length {''', '''	if fill == "" {
		fill = " "
	}
	if length < 0 {
		length = 0
	}
	if length > maxPadLength {
		return nil, fmt.Errorf("%w: LPAD/RPAD length exceeds %d", ErrIllegalArguments, maxPadLength)
	}
	for int64(len(s)) < length {''')
    sub('embedded/sql/functions.go', '''	if n <= 0 {
		return NewVarchar(""), nil
	}
	return NewVarchar(strings.Repeat(s, int(n))), nil''', '''	if n <= 0 {
		return NewVarchar(""), nil
	}
	if n > maxPadLength || int64(len(s))*n > maxPadLength {
		return nil, fmt.Errorf("%w: '%s' result exceeds %d bytes", ErrIllegalArguments, RepeatFnCall, maxPadLength)
	}
	return NewVarchar(strings.Repeat(s, int(n))), nil''')
    sub('embedded/sql/functions.go', '''func (f *padFn) Apply(''', '''// maxPadLength bounds the result of LPAD/RPAD
const maxPadLength = 1 << 20

func (f *padFn) Apply(''')

print("applied")
