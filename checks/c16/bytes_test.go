package c16

import (
	"encoding/binary"
	"encoding/json"
	"fmt"
	"io"
	"testing"
	"time"

	"github.com/codenotary/immudb/embedded/appendable"
	"github.com/codenotary/immudb/embedded/sql"
	"github.com/codenotary/immudb/pkg/api/schema"
	fm "github.com/codenotary/immudb/pkg/pgsql/server/fmessages"
	"github.com/codenotary/immudb/pkg/stream"
	"github.com/google/uuid"
	"pgregory.net/rapid"

	"verif/internal/vk"
)

const (
	kfF14 = "F14-fmessages-short-payload"
	kfF15 = "F15-stream-message-length-unchecked"
	kfF16 = "F16-appendable-metadata-unchecked-lengths"
	kfF18 = "F18-singleapp-compressed-read-unchecked"
)

func bytesProbes() []vk.Probe {
	return []vk.Probe{
		{ID: kfF14, Present: func() (bool, string) {
			for _, c := range []struct {
				name string
				f    func()
			}{
				{"fmessages.ParseQueryMsg([]byte{}) (wire: 'Q' 00 00 00 04)", func() { fm.ParseQueryMsg([]byte{}) }},
				{"fmessages.ParsePasswordMsg([]byte{}) (wire: 'p' 00 00 00 04, before authentication)", func() { fm.ParsePasswordMsg([]byte{}) }},
				{"fmessages.ParseDescribeMsg([]byte{}) (wire: 'D' 00 00 00 04)", func() { fm.ParseDescribeMsg([]byte{}) }},
				{"fmessages.ParseDescribeMsg([]byte{'S'})", func() { fm.ParseDescribeMsg([]byte{'S'}) }},
			} {
				if r := run(c.f); r.panicked {
					return true, c.name + " panics: " + r.pval
				}
			}
			return false, ""
		}},
		{ID: kfF15, Present: func() (bool, string) {
			neg := []byte{0xFF, 0xFF, 0xFF, 0xFF, 0xFF, 0xFF, 0xFF, 0xFF}
			if m := checkMsgReceiver([][]byte{neg}, "readfully", 64, false); m != "" {
				return true, m
			}
			if m := checkMsgReceiver([][]byte{append(append([]byte{}, neg...), 'x')}, "read", 64, false); m != "" {
				return true, m
			}
			// an 8-byte chunk announcing 128 MiB: ReadFully allocates it before any payload arrives
			if m := checkMsgReceiver([][]byte{{0, 0, 0, 0, 0x08, 0, 0, 0}}, "readfully", 64, false); m != "" {
				return true, m
			}
			return false, ""
		}},
		{ID: kfF16, Present: func() (bool, string) {
			for _, in := range [][]byte{
				{0, 0, 0, 0},       // count field of length 0: Uint32 on an empty slice
				{0, 0, 0, 2, 0, 1}, // count field of length 2
				{0x10, 0, 0, 0, 1}, // count field announcing 256 MiB
			} {
				if m := checkAppMetadata(in, false); m != "" {
					return true, m
				}
			}
			// one entry "K" -> 3-byte value: GetInt reads 8 bytes
			in := []byte{0, 0, 0, 4, 0, 0, 0, 1, 0, 0, 0, 1, 'K', 0, 0, 0, 3, 1, 2, 3}
			if m := checkAppMetadata(in, false); m != "" {
				return true, m
			}
			return false, ""
		}},
	}
}

// ---------------------------------------------------------------------------
// SQL value codecs

type sqlVal struct {
	t      sql.SQLValueType
	raw    interface{}
	maxLen int
	name   string
}

func genSQLVal(rt *rapid.T) sqlVal {
	kind := rapid.SampledFrom([]string{"int", "varchar", "bool", "blob", "float", "ts", "uuid", "json"}).Draw(rt, "type")
	switch kind {
	case "int":
		return sqlVal{sql.IntegerType, rapid.SampledFrom([]int64{0, 1, -1, 1 << 40, -1 << 62}).Draw(rt, "i"), 8, kind}
	case "varchar":
		n := rapid.SampledFrom([]int{0, 1, 5, 32}).Draw(rt, "n")
		return sqlVal{sql.VarcharType, string(fillBytes(n, 'a')), 32, kind}
	case "bool":
		return sqlVal{sql.BooleanType, rapid.Bool().Draw(rt, "b"), 1, kind}
	case "blob":
		n := rapid.SampledFrom([]int{0, 1, 16, 32}).Draw(rt, "n")
		return sqlVal{sql.BLOBType, fillBytes(n, 1), 32, kind}
	case "float":
		return sqlVal{sql.Float64Type, rapid.SampledFrom([]float64{0, 1.5, -2.25, 1e300}).Draw(rt, "f"), 8, kind}
	case "ts":
		return sqlVal{sql.TimestampType, time.Unix(1700000000, 123000).UTC(), 8, kind}
	case "uuid":
		var u [16]byte
		copy(u[:], fillBytes(16, 9))
		return sqlVal{sql.UUIDType, uuid.UUID(u), 16, kind}
	default:
		return sqlVal{sql.JSONType, json.RawMessage(`{"a":[1,2,{"b":null}]}`), 0, kind}
	}
}

var allSQLTypes = []sql.SQLValueType{sql.IntegerType, sql.VarcharType, sql.BooleanType, sql.BLOBType, sql.Float64Type, sql.TimestampType, sql.UUIDType, sql.JSONType, sql.AnyType, "NOSUCH"}

func useTyped(v sql.TypedValue) {
	if v == nil {
		return
	}
	v.RawValue()
	v.Type()
	v.IsNull()
	_ = v.String()
}

func checkDecodeValue(b []byte, t sql.SQLValueType, nullable bool) string {
	var n int
	var err error
	r := runPure(func() {
		var v sql.TypedValue
		if nullable {
			v, n, err = sql.DecodeNullableValue(b, t)
		} else {
			v, n, err = sql.DecodeValue(b, t)
		}
		if err == nil {
			useTyped(v)
		}
		sql.DecodeValueLength(b)
	})
	if m := r.verdict(fmt.Sprintf("sql.DecodeValue(%s, %s)", hexs(b), t), len(b)); m != "" {
		return m
	}
	if err == nil && (n < 4 || n > len(b)) {
		return fmt.Sprintf("sql.DecodeValue(%s, %s) consumed %d bytes of %d", hexs(b), t, n, len(b))
	}
	return ""
}

func checkDecodeKey(b []byte, t sql.SQLValueType, maxLen int) string {
	var n int
	var err error
	r := runPure(func() {
		var v sql.TypedValue
		v, n, err = sql.DecodeValueFromKey(b, t, maxLen)
		if err == nil {
			useTyped(v)
		}
	})
	if m := r.verdict(fmt.Sprintf("sql.DecodeValueFromKey(%s, %s, %d)", hexs(b), t, maxLen), len(b)); m != "" {
		return m
	}
	if err == nil && (n < 1 || n > len(b)) {
		return fmt.Sprintf("sql.DecodeValueFromKey(%s, %s, %d) consumed %d bytes of %d", hexs(b), t, maxLen, n, len(b))
	}
	return ""
}

func TestSQLValueDecoders(t *testing.T) {
	vk.Check(t, 60000, 1500000, func(rt *rapid.T, c *vk.Case) {
		sv := genSQLVal(rt)
		asKey := sv.maxLen > 0 && rapid.Bool().Draw(rt, "asKey")
		var enc []byte
		var err error
		if asKey {
			enc, _, err = sql.EncodeRawValueAsKey(sv.raw, sv.t, sv.maxLen)
		} else {
			enc, err = sql.EncodeRawValue(sv.raw, sv.t, sv.maxLen, false)
		}
		if err != nil {
			rt.Fatalf("encoding a valid %s value: %v", sv.name, err)
		}
		l := &layout{b: enc}
		if asKey {
			l.add("tag", 0, 1, kTag)
			if sv.t == sql.VarcharType || sv.t == sql.BLOBType {
				l.add("payload", 1, sv.maxLen, kBytes)
				l.add("lenSuffix", 1+sv.maxLen, 4, kNum)
			} else {
				l.add("payload", 1, len(enc)-1, kBytes)
			}
		} else {
			l.add("vlen", 0, 4, kLen)
			l.add("payload", 4, len(enc)-4, kBytes)
		}
		b, desc, single := mutate(rt, l)
		dt := sv.t
		if rapid.IntRange(0, 3).Draw(rt, "otherType") == 0 {
			dt = rapid.SampledFrom(allSQLTypes).Draw(rt, "decodeAs")
		}
		c.Descf("%s key=%v as=%s | %s", sv.name, asKey, dt, desc)
		var m string
		if asKey {
			ml := sv.maxLen
			if rapid.IntRange(0, 4).Draw(rt, "otherMaxLen") == 0 {
				ml = rapid.SampledFrom([]int{1, 2, 8, 16, 31, 33, 256, 65536}).Draw(rt, "maxLen")
			}
			m = checkDecodeKey(b, dt, ml)
			c.Label("DecodeValueFromKey")
		} else {
			m = checkDecodeValue(b, dt, rapid.Bool().Draw(rt, "nullable"))
			c.Label("DecodeValue")
		}
		if m != "" {
			c.Failf(rt, map[string]any{"input": fmt.Sprintf("%x", b)}, "%s", m)
		}
		framed := len(b) >= 4 && !asKey && int(binary.BigEndian.Uint32(b)) <= len(b)-4 || asKey && len(b) > 0 && b[0] == 0x80
		if framed {
			c.Label("framed")
		}
		if framed || single {
			c.NonTrivial()
		}
	})
}

func FuzzDecodeValue(f *testing.F) {
	for _, s := range [][]byte{{0, 0, 0, 8, 0, 0, 0, 0, 0, 0, 0, 1}, {0, 0, 0, 1, 1}, {0, 0, 0, 3, 'a', 'b', 'c'}, {0, 0, 0, 0}, {0xFF, 0xFF, 0xFF, 0xFF}, {0, 0, 0, 2, '{', '}'}, {0x80, 0, 0, 0, 0}} {
		for ti := range allSQLTypes {
			f.Add(s, uint8(ti), false)
		}
	}
	f.Fuzz(func(t *testing.T, b []byte, ti uint8, nullable bool) {
		if m := checkDecodeValue(b, allSQLTypes[int(ti)%len(allSQLTypes)], nullable); m != "" {
			t.Fatal(m)
		}
	})
}

func FuzzDecodeValueFromKey(f *testing.F) {
	for _, s := range [][]byte{{0x20}, {0x80, 0x80, 0, 0, 0, 0, 0, 0, 1}, {0x80, 1}, {0x80, 'a', 0, 0, 0, 0, 0, 0, 1}, {0x80, 0, 0xFF, 0xFF, 0xFF, 0xFF}, {}} {
		for ti := range allSQLTypes {
			f.Add(s, uint8(ti), uint16(8))
			f.Add(s, uint8(ti), uint16(1))
		}
	}
	f.Fuzz(func(t *testing.T, b []byte, ti uint8, maxLen uint16) {
		if m := checkDecodeKey(b, allSQLTypes[int(ti)%len(allSQLTypes)], int(maxLen)); m != "" {
			t.Fatal(m)
		}
	})
}

// ---------------------------------------------------------------------------
// pgsql wire: frontend message payload parsers

type pgMsg struct {
	kind string
	l    *layout
}

func cstr(s string) []byte { return append([]byte(s), 0) }

func genPgMsg(rt *rapid.T) pgMsg {
	kind := rapid.SampledFrom([]string{"bind", "bind", "parse", "execute", "describe", "query", "password", "copyfail", "copydata", "sync", "flush", "terminate"}).Draw(rt, "msg")
	l := &layout{}
	put := func(name string, b []byte, k int) {
		l.add(name, len(l.b), len(b), k)
		l.b = append(l.b, b...)
	}
	switch kind {
	case "bind":
		put("portal", cstr(rapid.SampledFrom([]string{"", "p1"}).Draw(rt, "portal")), kBytes)
		put("stmt", cstr(rapid.SampledFrom([]string{"", "s1"}).Draw(rt, "stmt")), kBytes)
		np := rapid.IntRange(0, 3).Draw(rt, "nparams")
		nf := rapid.SampledFrom([]int{0, 1, np}).Draw(rt, "nfmt")
		put("nFormatCodes", be16(nf), kCount)
		for i := 0; i < nf; i++ {
			put(fmt.Sprintf("fmt%d", i), be16(rapid.IntRange(0, 1).Draw(rt, "fmt")), kTag)
		}
		put("nParams", be16(np), kCount)
		for i := 0; i < np; i++ {
			start := len(l.b)
			if rapid.IntRange(0, 4).Draw(rt, "nullParam") == 0 {
				put(fmt.Sprintf("p%d.len", i), be32(-1), kLen)
			} else {
				v := fillBytes(rapid.SampledFrom([]int{0, 1, 4, 8}).Draw(rt, "plen"), '0')
				put(fmt.Sprintf("p%d.len", i), be32(len(v)), kLen)
				put(fmt.Sprintf("p%d.val", i), v, kBytes)
			}
			l.recs = append(l.recs, record{fmt.Sprintf("param%d", i), start, len(l.b)})
		}
		nr := rapid.IntRange(0, 2).Draw(rt, "nres")
		put("nResultCodes", be16(nr), kCount)
		for i := 0; i < nr; i++ {
			put(fmt.Sprintf("res%d", i), be16(rapid.IntRange(0, 1).Draw(rt, "res")), kTag)
		}
	case "parse":
		put("name", cstr(rapid.SampledFrom([]string{"", "s1"}).Draw(rt, "name")), kBytes)
		put("query", cstr("SELECT * FROM t WHERE id = $1"), kBytes)
		n := rapid.IntRange(0, 3).Draw(rt, "noids")
		put("nParamTypes", be16(n), kCount)
		for i := 0; i < n; i++ {
			put(fmt.Sprintf("oid%d", i), be32(23), kNum)
		}
	case "execute":
		put("portal", cstr(rapid.SampledFrom([]string{"", "p1"}).Draw(rt, "portal")), kBytes)
		put("maxRows", be32(rapid.SampledFrom([]int{0, 1, 100}).Draw(rt, "maxRows")), kNum)
	case "describe":
		put("type", []byte{rapid.SampledFrom([]byte{'S', 'P'}).Draw(rt, "dtype")}, kTag)
		put("name", cstr(rapid.SampledFrom([]string{"", "s1"}).Draw(rt, "name")), kBytes)
	case "query":
		put("sql", cstr("SELECT 1"), kBytes)
	case "password":
		put("secret", cstr("immudb"), kBytes)
	case "copyfail":
		put("error", cstr("boom"), kBytes)
	case "copydata":
		put("data", []byte("1\tone\n"), kBytes)
	}
	return pgMsg{kind, l}
}

func pgKnown(kind string, b []byte) string {
	switch kind {
	case "query", "password":
		if len(b) == 0 {
			return kfF14
		}
	case "describe":
		if len(b) < 2 {
			return kfF14
		}
	}
	return ""
}

func checkPgMsg(kind string, b []byte, honorKnown bool) string {
	if k := pgKnown(kind, b); k != "" && honorKnown && vk.Excluded(k) {
		vk.CountExcluded(k)
		return ""
	}
	r := runPure(func() {
		switch kind {
		case "bind":
			if m, err := fm.ParseBindMsg(b); err == nil {
				_ = len(m.ParamVals) + len(m.ResultColumnFormatCodes) + len(m.DestPortalName)
			}
		case "parse":
			fm.ParseParseMsg(b)
		case "execute":
			fm.ParseExecuteMsg(b)
		case "describe":
			fm.ParseDescribeMsg(b)
		case "query":
			if m, err := fm.ParseQueryMsg(b); err == nil {
				m.GetStatements()
			}
		case "password":
			if m, err := fm.ParsePasswordMsg(b); err == nil {
				m.GetSecret()
			}
		case "copyfail":
			fm.ParseCopyFailMsg(b)
		case "copydata":
			fm.ParseCopyDataMsg(b)
			fm.ParseCopyDoneMsg(b)
		case "sync":
			fm.ParseSyncMsg(b)
		case "flush":
			fm.ParseFlushMsg(b)
		case "terminate":
			fm.ParseTerminateMsg(b)
		}
	})
	// Bind allocates one buffer + one string per parameter, each bounded by pgmeta.MaxMsgSize whatever the payload
	// holds (2 x MaxMsgSize for a 20-byte message): a constant bound, well below the 64 MiB limit with MaxMsgSize = 4 MiB.
	return r.verdict(fmt.Sprintf("fmessages parser of a %q message, payload %s", kind, hexs(b)), len(b))
}

var pgKinds = []string{"bind", "parse", "execute", "describe", "query", "password", "copyfail", "copydata", "sync", "flush", "terminate"}

func TestPgsqlFrontendMessages(t *testing.T) {
	vk.Check(t, 40000, 1000000, func(rt *rapid.T, c *vk.Case) {
		msg := genPgMsg(rt)
		b, desc, single := mutate(rt, msg.l)
		kind := msg.kind
		if rapid.IntRange(0, 9).Draw(rt, "crossParse") == 0 {
			// the type byte is attacker-controlled too: the same payload under another type
			kind = rapid.SampledFrom(pgKinds).Draw(rt, "as")
		}
		c.Descf("%s as %s (%d fields) | %s", msg.kind, kind, len(msg.l.f), desc)
		c.Label("msg-" + kind)
		if k := pgKnown(kind, b); k != "" {
			c.Label("known-class-" + k)
		}
		if m := checkPgMsg(kind, b, true); m != "" {
			c.Failf(rt, map[string]any{"type": kind, "payload": fmt.Sprintf("%x", b)}, "%s", m)
		}
		if single || len(b) > 0 {
			c.NonTrivial()
		}
	})
}

func FuzzPgsqlFrontendMessages(f *testing.F) {
	seeds := [][]byte{{}, {0}, {'S'}, {'S', 0}, cstr("SELECT 1"), {0, 0, 0, 0, 0, 0, 0, 0, 0, 0}, {0, 0, 0, 1, 0, 1, 0, 1, 0xFF, 0xFF, 0xFF, 0xFF, 0, 0},
		{0, 0, 0x7F, 0xFF}, {0, 0, 0, 0, 0, 1, 0x7F, 0xFF, 0xFF, 0xFF}, {0, 0, 0, 0, 0x7F, 0xFF}}
	for _, s := range seeds {
		for k := range pgKinds {
			f.Add(uint8(k), s)
		}
	}
	f.Fuzz(func(t *testing.T, k uint8, b []byte) {
		if m := checkPgMsg(pgKinds[int(k)%len(pgKinds)], b, true); m != "" {
			t.Fatal(m)
		}
	})
}

// ---------------------------------------------------------------------------
// pkg/stream receivers

type chunkStream struct {
	chunks [][]byte
	i      int
}

func (s *chunkStream) Recv() (*schema.Chunk, error) {
	if s.i >= len(s.chunks) {
		return nil, io.EOF
	}
	c := &schema.Chunk{Content: s.chunks[s.i]}
	s.i++
	return c, nil
}

// streamKnown: the first message length (ReadFully) or any message length met
// by Read is negative as an int, or (ReadFully) larger than what the stream carries.
func streamKnown(chunks [][]byte, mode string, bufSize int) string {
	total := 0
	for _, c := range chunks {
		total += len(c)
	}
	if mode == "readfully" {
		if len(chunks) == 0 || len(chunks[0]) < 8 {
			return ""
		}
		n := binary.BigEndian.Uint64(chunks[0])
		if n > uint64(total) {
			return kfF15
		}
		return ""
	}
	if simulateRead(chunks, bufSize) {
		return kfF15
	}
	return ""
}

// simulateRead mirrors the state machine of msgReceiver.Read when it is read
// with buffers of bufSize bytes until it fails; it reports whether a message
// length that is negative as an int reaches make([]byte, tl-s).
func simulateRead(chunks [][]byte, bufSize int) bool {
	var b []byte
	eof, msgSend := false, false
	tl, s, ci := 0, 0, 0
	for iter := 0; iter < 1000000; iter++ {
		if msgSend {
			msgSend = false
			continue
		}
		if eof && len(b) == 0 {
			return false
		}
	inner:
		for {
			for len(b) <= bufSize {
				if ci >= len(chunks) {
					eof = true
					break
				}
				b = append(b, chunks[ci]...)
				ci++
			}
			if tl == 0 {
				if len(b) == 0 {
					return false
				}
				var tr [8]byte
				n := copy(tr[:], b)
				b = b[n:]
				tl = int(binary.BigEndian.Uint64(tr[:]))
			}
			if eof && len(b) < tl-s {
				return false
			}
			msgInFirstChunk := len(b) >= tl
			lastRead := tl-s <= bufSize
			tooBig := tl-s > bufSize
			if (msgInFirstChunk || lastRead) && !tooBig {
				size := tl - s
				if size < 0 {
					return true
				}
				if size > 0 && len(b) == 0 {
					return false
				}
				if size > len(b) {
					size = len(b)
				}
				b = b[size:]
				tl, s, msgSend = 0, 0, true
				break inner
			}
			if len(b) > bufSize {
				b = b[bufSize:]
				s += bufSize
				break inner
			}
		}
	}
	return false
}

func checkMsgReceiver(chunks [][]byte, mode string, bufSize int, honorKnown bool) string {
	if k := streamKnown(chunks, mode, bufSize); k != "" && honorKnown && vk.Excluded(k) {
		vk.CountExcluded(k)
		return ""
	}
	total := 0
	for _, c := range chunks {
		total += len(c)
	}
	r := runPure(func() {
		mr := stream.NewMsgReceiver(&chunkStream{chunks: chunks})
		switch mode {
		case "readfully":
			mr.ReadFully()
		case "read":
			buf := make([]byte, bufSize)
			for i := 0; i < 10000; i++ {
				if _, err := mr.Read(buf); err != nil {
					return
				}
			}
		case "kv":
			kr := stream.NewKvStreamReceiver(mr, bufSize)
			for i := 0; i < 1000; i++ {
				_, vr, err := kr.Next()
				if err != nil {
					return
				}
				if _, err := stream.ReadValue(vr, bufSize); err != nil {
					return
				}
			}
		case "z":
			zr := stream.NewZStreamReceiver(mr, bufSize)
			for i := 0; i < 1000; i++ {
				set, key, score, atTx, vr, err := zr.Next()
				if err != nil {
					return
				}
				if _, err := stream.ParseZEntry(set, key, score, atTx, vr, bufSize); err != nil {
					return
				}
			}
		case "ventry":
			vr := stream.NewVEntryStreamReceiver(mr, bufSize)
			for i := 0; i < 1000; i++ {
				e, vtx, ip, r, err := vr.Next()
				if err != nil {
					return
				}
				if _, err := stream.ParseVerifiableEntry(e, vtx, ip, r, bufSize); err != nil {
					return
				}
			}
		case "execall":
			er := stream.NewExecAllStreamReceiver(mr, bufSize)
			for i := 0; i < 1000; i++ {
				op, err := er.Next()
				if err != nil {
					return
				}
				if kv, ok := op.(*stream.Op_KeyValue); ok {
					if _, err := stream.ReadValue(kv.KeyValue.Value.Content, bufSize); err != nil {
						return
					}
				}
			}
		}
	})
	return r.verdict(fmt.Sprintf("stream %s receiver over chunks %s", mode, chunksHex(chunks)), total)
}

func chunksHex(chunks [][]byte) string {
	s := ""
	for i, c := range chunks {
		if i > 0 {
			s += "|"
		}
		s += hexs(c)
		if len(s) > 800 {
			return s + "…"
		}
	}
	return s
}

var streamModes = []string{"readfully", "read", "kv", "z", "ventry", "execall"}

func TestStreamReceivers(t *testing.T) {
	vk.Check(t, 40000, 2000000, func(rt *rapid.T, c *vk.Case) {
		mode := rapid.SampledFrom(streamModes).Draw(rt, "mode")
		// a valid stream for that receiver
		l := &layout{}
		msg := func(name string, payload []byte) {
			start := len(l.b)
			l.add(name+".len", len(l.b), 8, kLen)
			l.b = append(l.b, be64(uint64(len(payload)))...)
			l.add(name, len(l.b), len(payload), kBytes)
			l.b = append(l.b, payload...)
			l.recs = append(l.recs, record{name, start, len(l.b)})
		}
		val := func(tag string) []byte {
			return fillBytes(rapid.SampledFrom([]int{1, 3, 8, 40, 200}).Draw(rt, tag), 'v')
		}
		switch mode {
		case "readfully", "read":
			msg("m0", val("m0"))
			if mode == "read" && rapid.Bool().Draw(rt, "two") {
				msg("m1", val("m1"))
			}
		case "kv":
			for i := 0; i < rapid.IntRange(1, 2).Draw(rt, "pairs"); i++ {
				msg(fmt.Sprintf("key%d", i), []byte(fmt.Sprintf("key-%d", i)))
				msg(fmt.Sprintf("val%d", i), val("v"))
			}
		case "z":
			msg("set", []byte("zset"))
			msg("key", []byte("key"))
			msg("score", be64(0x3FF8000000000000))
			msg("atTx", be64(3))
			msg("value", val("v"))
		case "ventry":
			msg("entry", []byte{0x12, 0x01, 'k'})
			msg("vtx", []byte{0x0a, 0x00})
			msg("iproof", []byte{0x08, 0x01})
			msg("value", val("v"))
		case "execall":
			msg("op0", []byte{stream.TOp_Kv})
			msg("key0", []byte("k"))
			msg("val0", val("v"))
			msg("op1", []byte{stream.TOp_ZAdd})
			msg("zadd", []byte{0x0a, 0x01, 's', 0x1a, 0x01, 'k'})
		}
		b, desc, single := mutate(rt, l)
		if rapid.IntRange(0, 9).Draw(rt, "identity") == 0 {
			b, desc, single = l.clone(), "identity", true
		}
		// split into chunks
		csz := rapid.SampledFrom([]int{1, 7, 8, 9, 16, 64, 4096}).Draw(rt, "chunk")
		var chunks [][]byte
		for i := 0; i < len(b); i += csz {
			e := i + csz
			if e > len(b) {
				e = len(b)
			}
			chunks = append(chunks, b[i:e])
		}
		bufSize := rapid.SampledFrom([]int{1, 8, 64, 4096}).Draw(rt, "bufSize")
		c.Descf("%s chunk=%d buf=%d | %s", mode, csz, bufSize, desc)
		c.Label("mode-" + mode)
		if k := streamKnown(chunks, mode, bufSize); k != "" {
			c.Label("known-class-" + k)
		}
		if m := checkMsgReceiver(chunks, mode, bufSize, true); m != "" {
			c.Failf(rt, map[string]any{"mode": mode, "chunks": chunksHex(chunks), "bufSize": bufSize}, "%s", m)
		}
		if single || len(b) >= 8 {
			c.NonTrivial()
		}
	})
}

func FuzzStreamReceivers(f *testing.F) {
	one := append(be64(3), 'a', 'b', 'c')
	two := append(append([]byte{}, one...), one...)
	for _, s := range [][]byte{{}, one, two, be64(0), {0xFF, 0xFF, 0xFF, 0xFF, 0xFF, 0xFF, 0xFF, 0xFF, 1}, append(be64(1), stream.TOp_ZAdd), {0, 0, 0}} {
		for m := range streamModes {
			f.Add(uint8(m), s, uint8(8), uint8(8))
		}
	}
	f.Fuzz(func(t *testing.T, m uint8, b []byte, csz uint8, bufSize uint8) {
		cs, bs := int(csz)%64+1, int(bufSize)%64+1
		var chunks [][]byte
		for i := 0; i < len(b); i += cs {
			e := i + cs
			if e > len(b) {
				e = len(b)
			}
			chunks = append(chunks, b[i:e])
		}
		if msg := checkMsgReceiver(chunks, streamModes[int(m)%len(streamModes)], bs, true); msg != "" {
			t.Fatal(msg)
		}
	})
}

// ---------------------------------------------------------------------------
// appendable metadata (the header every appendable file starts with)

// refMetadata mirrors appendable.Metadata.ReadFrom (fields are read with
// io.ReadFull: a field that is not completely there ends the decoding; what was
// decoded before stays).
type refMetadata struct {
	known  string
	keys   []string
	values [][]byte
}

func classifyAppMetadata(b []byte) refMetadata {
	var m refMetadata
	rest := b
	readField := func() ([]byte, bool) {
		if len(rest) < 4 {
			return nil, false
		}
		ln := binary.BigEndian.Uint32(rest)
		rest = rest[4:]
		if ln > 16<<10 && int64(ln) > int64(len(rest)) {
			m.known = kfF16 // make([]byte, ln) before anything is read
			return nil, false
		}
		if int64(ln) > int64(len(rest)) {
			return nil, false
		}
		fb := rest[:ln]
		rest = rest[ln:]
		return fb, true
	}
	if b == nil {
		return m
	}
	cnt, ok := readField()
	if !ok {
		return m
	}
	if len(cnt) < 4 {
		m.known = kfF16 // binary.BigEndian.Uint32 on a short count field
		return m
	}
	n := int(binary.BigEndian.Uint32(cnt))
	seen := map[string]int{}
	for i := 0; i < n; i++ {
		k, ok := readField()
		if !ok {
			return m
		}
		v, ok := readField()
		if !ok {
			return m
		}
		if at, dup := seen[string(k)]; dup {
			m.values[at] = v
		} else {
			seen[string(k)] = len(m.keys)
			m.keys = append(m.keys, string(k))
			m.values = append(m.values, v)
		}
	}
	return m
}

// checkAppMetadata: NewMetadata + the accessors every client of the package
// uses on the keys it expects (GetInt for sizes/offsets, GetBool for flags).
func checkAppMetadata(b []byte, honorKnown bool) string {
	ref := classifyAppMetadata(b)
	if ref.known == "" {
		for _, v := range ref.values {
			if len(v) < 8 {
				ref.known = kfF16 // GetInt / GetBool index into the value without a length check
			}
		}
	}
	if honorKnown && ref.known != "" && vk.Excluded(ref.known) {
		vk.CountExcluded(ref.known)
		return ""
	}
	r := runPure(func() {
		m := appendable.NewMetadata(b)
		for _, k := range ref.keys {
			m.Get(k)
			m.GetInt(k)
			m.GetBool(k)
		}
		m.Get("nosuch")
		m.GetInt("nosuch")
		enc := m.Bytes()
		appendable.NewMetadata(enc)
	})
	return r.verdict("appendable.NewMetadata("+hexs(b)+") + GetInt/GetBool on its keys", len(b))
}

func TestAppendableMetadata(t *testing.T) {
	vk.Check(t, 40000, 2000000, func(rt *rapid.T, c *vk.Case) {
		l := &layout{}
		put := func(name string, b []byte, k int) {
			l.add(name, len(l.b), len(b), k)
			l.b = append(l.b, b...)
		}
		n := rapid.IntRange(0, 4).Draw(rt, "entries")
		put("countLen", be32(4), kLen)
		put("count", be32(n), kCount)
		for i := 0; i < n; i++ {
			start := len(l.b)
			key := rapid.SampledFrom([]string{"FILE_SIZE", "MAX_TX_ENTRIES", "K", "", "VERSION"}).Draw(rt, "key") + fmt.Sprint(i)
			put(fmt.Sprintf("k%d.len", i), be32(len(key)), kLen)
			put(fmt.Sprintf("k%d", i), []byte(key), kBytes)
			vl := rapid.SampledFrom([]int{8, 8, 8, 9, 16, 100}).Draw(rt, "vlen")
			put(fmt.Sprintf("v%d.len", i), be32(vl), kLen)
			put(fmt.Sprintf("v%d", i), fillBytes(vl, 1), kBytes)
			l.recs = append(l.recs, record{fmt.Sprintf("entry%d", i), start, len(l.b)})
		}
		if m := checkAppMetadata(l.clone(), true); m != "" {
			c.Failf(rt, nil, "valid metadata: %s", m)
		}
		b, desc, single := mutate(rt, l)
		c.Descf("entries=%d | %s", n, desc)
		ref := classifyAppMetadata(b)
		if ref.known != "" {
			c.Label("known-class-" + ref.known)
		}
		if m := checkAppMetadata(b, true); m != "" {
			c.Failf(rt, map[string]any{"input": fmt.Sprintf("%x", b)}, "%s", m)
		}
		if len(ref.keys) > 0 {
			c.Label("entries-decoded")
		}
		if single || len(ref.keys) > 0 {
			c.NonTrivial()
		}
	})
}

func FuzzAppendableMetadata(f *testing.F) {
	valid := appendable.NewMetadata(nil)
	valid.PutInt("FILE_SIZE", 1<<20)
	valid.PutBool("FLAG", true)
	valid.Put("WRAPPED", []byte("inner"))
	f.Add(valid.Bytes())
	for _, s := range [][]byte{{}, {0, 0, 0, 0}, {0, 0, 0, 4, 0, 0, 0, 0}, {0, 0, 0, 4, 0xFF, 0xFF, 0xFF, 0xFF}, {0xFF, 0xFF, 0xFF, 0xFF}, {0, 0, 0, 4, 0, 0, 0, 1, 0, 0, 0, 1, 'K', 0, 0, 0, 3, 1, 2, 3}} {
		f.Add(s)
	}
	f.Fuzz(func(t *testing.T, b []byte) {
		if m := checkAppMetadata(b, true); m != "" {
			t.Fatal(m)
		}
	})
}
