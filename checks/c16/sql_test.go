package c16

import (
	"bufio"
	"context"
	"errors"
	"fmt"
	"os"
	"regexp"
	"strings"
	"sync"
	"testing"
	"time"

	"github.com/codenotary/immudb/embedded/sql"
	"github.com/codenotary/immudb/embedded/store"
	"pgregory.net/rapid"

	"verif/internal/vk"
)

// ---------------------------------------------------------------------------
// SQL text: corpus (statements taken from the repository's own tests, stored in
// testdata/sql_corpus.txt) + token-level mutation; what parses is executed on a
// scratch engine.

var (
	corpusOnce sync.Once
	sqlCorpus  []string
)

func corpus(t testing.TB) []string {
	corpusOnce.Do(func() {
		f, err := os.Open("testdata/sql_corpus.txt")
		if err != nil {
			return
		}
		defer f.Close()
		sc := bufio.NewScanner(f)
		sc.Buffer(make([]byte, 1<<20), 1<<20)
		for sc.Scan() {
			if l := strings.TrimSpace(sc.Text()); l != "" {
				sqlCorpus = append(sqlCorpus, l)
			}
		}
	})
	if len(sqlCorpus) >= 100 && !corpusExtended {
		sqlCorpus = append(sqlCorpus, hostileSQL...)
		corpusExtended = true
	}
	if len(sqlCorpus) < 100 {
		t.Fatalf("testdata/sql_corpus.txt missing or too small (%d statements)", len(sqlCorpus))
	}
	return sqlCorpus
}

var corpusExtended bool

// hand-written additions to the corpus: statements found by the thorough tier and relatives
var hostileSQL = []string{
	"SELECT * FROM f() OVER () x",
	"SELECT * FROM table1, rank() OVER (ORDER BY id) r",
	"SELECT RPAD('hi', -1, '.')",
	"SELECT LPAD(title, -9223372036854775808, 'x') FROM table1",
	"SELECT RPAD('hi', 9223372036854775807, '')",
	"SELECT SUBSTRING(title, -1, -1), SUBSTRING(title, 9223372036854775807, 9223372036854775807) FROM table1",
	"SELECT REPEAT('x', -1), REPEAT('x', 100000000000)",
	"SELECT LEFT(title, -5), RIGHT(title, -5) FROM table1",
	"SELECT SPLIT_PART('a,b', ',', 0), SPLIT_PART('a,b', ',', -1)",
	"SELECT id FROM table1 LIMIT -1 OFFSET -1",
	"SELECT CAST('x' AS INTEGER), CAST(1e308 AS INTEGER), CAST('' AS TIMESTAMP)",
	"SELECT 1 / 0, 1 % 0, -9223372036854775807 - 2",
}

var tokRe = regexp.MustCompile(`[A-Za-z_][A-Za-z0-9_]*|@[A-Za-z0-9_]+|\$[0-9]+|[0-9]+(?:\.[0-9]+)?|'(?:[^']|'')*'|"[^"]*"|\s+|<=|>=|<>|!=|\|\||::|->>|->|.`)

func tokenize(s string) []string { return tokRe.FindAllString(s, -1) }

var sqlDict = []string{
	"SELECT", "FROM", "WHERE", "AND", "OR", "NOT", "NULL", "IS", "IN", "LIKE", "EXISTS", "BETWEEN", "CASE", "WHEN", "THEN", "ELSE", "END",
	"JOIN", "LEFT", "RIGHT", "FULL", "INNER", "CROSS", "ON", "AS", "GROUP", "BY", "HAVING", "ORDER", "LIMIT", "OFFSET", "UNION", "ALL", "EXCEPT", "INTERSECT",
	"DISTINCT", "INSERT", "UPSERT", "INTO", "VALUES", "UPDATE", "SET", "DELETE", "CREATE", "TABLE", "INDEX", "UNIQUE", "DROP", "ALTER", "ADD", "COLUMN", "RENAME", "TO",
	"PRIMARY", "KEY", "AUTO_INCREMENT", "DEFAULT", "CHECK", "CONSTRAINT", "BEGIN", "TRANSACTION", "COMMIT", "ROLLBACK", "SAVEPOINT", "RETURNING", "CONFLICT", "DO", "NOTHING",
	"INTEGER", "VARCHAR", "BOOLEAN", "BLOB", "TIMESTAMP", "FLOAT", "JSON", "UUID", "CAST", "COUNT", "SUM", "MIN", "MAX", "AVG", "NOW", "UPPER", "LOWER", "LENGTH", "SUBSTRING", "TRIM",
	"BEFORE", "AFTER", "SINCE", "UNTIL", "TX", "HISTORY", "OF", "DIFF", "USE", "DATABASE", "GRANT", "REVOKE", "WITH", "RECURSIVE", "OVER", "PARTITION", "ROWS", "WINDOW",
	"(", ")", ",", ";", "*", "+", "-", "/", "%", "=", "<", ">", "<=", ">=", "<>", "!=", ".", "[", "]", "::", "->", "->>", "||", "@p", "$1", "?", "'", "\"", "`", "--", "/*", "*/", "\\",
	"0", "1", "-1", "9223372036854775807", "9223372036854775808", "-9223372036854775809", "99999999999999999999999999999999999999", "1e309", "0.0000000000000000000000000000001", "1.7976931348623157e308",
	"''", "'a'", "'it''s'", "x'00ff'", "x'0'", "true", "false", "table1", "table2", "mytable", "id", "title", "active", "payload", "amount", "ts", "j", "u", "_rev", "t1", "NOW()", "RANDOM_UUID()",
	"\x00", "\xff", "‮", "é", "  ", "\n", "\t",
}

var classDict = map[string][]string{
	"num":  {"0", "1", "-1", "2", "100", "255", "256", "65535", "65536", "2147483648", "9223372036854775807", "9223372036854775808", "18446744073709551616", "99999999999999999999999999999999999999", "0.5", "1e10", "1e309", "0.0000000000000000000000000000001", "00", "1.", ".5"},
	"str":  {"''", "'a'", "'it''s'", "'" + strings.Repeat("x", 300) + "'", "'2021-12-08'", "'2021-12-08 11:22:33.123456'", "'{\"a\":{\"b\":[1,2,{}]}}'", "'%'", "'_%_'", "'\\'", "'[[['", "'00000000-0000-0000-0000-000000000000'", "'é‮'", "'true'", "'1'"},
	"type": {"INTEGER", "VARCHAR", "VARCHAR[1]", "VARCHAR[0]", "VARCHAR[65536]", "VARCHAR[99999999999]", "BOOLEAN", "BLOB", "BLOB[0]", "BLOB[4294967296]", "TIMESTAMP", "FLOAT", "JSON", "UUID"},
	"id":   {"table1", "table2", "mytable", "id", "title", "active", "payload", "amount", "ts", "j", "u", "name", "t1", "t2", "x", "nosuch", "_rev", "\"quoted id\"", "SELECT", "key"},
	"cmp":  {"=", "<", ">", "<=", ">=", "<>", "!=", "LIKE", "NOT LIKE", "IN", "IS", "+", "-", "*", "/", "%", "AND", "OR", "||"},
	"fn":   {"COUNT", "SUM", "MIN", "MAX", "AVG", "UPPER", "LOWER", "LENGTH", "SUBSTRING", "TRIM", "NOW", "CAST", "COALESCE", "ABS", "ROUND", "NOSUCHFN", "JSON_TYPEOF", "RANDOM_UUID", "EXTRACT", "DATE_TRUNC", "CONCAT", "REPLACE", "LPAD"},
	"par":  {"@param0", "@param1", "@param2", "@param3", "@nosuch", "$1", "$2", "$99", "?"},
}

var (
	reNum   = regexp.MustCompile(`^[0-9]+(\.[0-9]+)?$`)
	reIdent = regexp.MustCompile(`^[A-Za-z_][A-Za-z0-9_]*$`)
	typeSet = map[string]bool{"INTEGER": true, "VARCHAR": true, "BOOLEAN": true, "BLOB": true, "TIMESTAMP": true, "FLOAT": true, "JSON": true, "UUID": true}
	cmpSet  = map[string]bool{"=": true, "<": true, ">": true, "<=": true, ">=": true, "<>": true, "!=": true, "+": true, "-": true, "/": true, "%": true, "AND": true, "OR": true, "LIKE": true}
	fnSet   = map[string]bool{"COUNT": true, "SUM": true, "MIN": true, "MAX": true, "AVG": true, "UPPER": true, "LOWER": true, "LENGTH": true, "SUBSTRING": true, "TRIM": true, "NOW": true, "COALESCE": true, "ABS": true}
	kwSet   = func() map[string]bool {
		m := map[string]bool{}
		for _, w := range sqlDict {
			if reIdent.MatchString(w) && strings.ToUpper(w) == w {
				m[w] = true
			}
		}
		return m
	}()
)

func tokClass(t string) string {
	u := strings.ToUpper(t)
	switch {
	case reNum.MatchString(t):
		return "num"
	case len(t) >= 2 && t[0] == '\'':
		return "str"
	case t[0] == '@' || t[0] == '$' && len(t) > 1:
		return "par"
	case typeSet[u]:
		return "type"
	case cmpSet[u]:
		return "cmp"
	case fnSet[u]:
		return "fn"
	case reIdent.MatchString(t) && !kwSet[u]:
		return "id"
	}
	return ""
}

// mutateSQL applies 1..3 token-level edits.
func mutateSQL(rt *rapid.T, base string, others []string) (string, string) {
	toks := tokenize(base)
	n := rapid.SampledFrom([]int{1, 1, 1, 1, 2, 3}).Draw(rt, "nSQLMut")
	desc := ""
	for i := 0; i < n; i++ {
		op := rapid.SampledFrom([]string{"sameClass", "sameClass", "sameClass", "sameClass", "sameClass", "sameClass", "sameClass", "sameClass", "case", "del", "dup", "swap", "replace", "insert", "nest", "repeat", "splice", "truncBytes", "longIdent", "delRange", "case"}).Draw(rt, fmt.Sprintf("s%d.op", i))
		if i > 0 {
			desc += "+"
		}
		desc += op
		if len(toks) == 0 {
			toks = []string{"SELECT"}
		}
		at := rapid.IntRange(0, len(toks)-1).Draw(rt, fmt.Sprintf("s%d.at", i))
		switch op {
		case "sameClass":
			// replace a literal / identifier / type / operator by another one of the same lexical class: mostly still parses
			var idx []int
			for k, tk := range toks {
				if tokClass(tk) != "" {
					idx = append(idx, k)
				}
			}
			if len(idx) == 0 {
				break
			}
			k := idx[rapid.IntRange(0, len(idx)-1).Draw(rt, fmt.Sprintf("s%d.k", i))]
			cls := tokClass(toks[k])
			toks[k] = rapid.SampledFrom(classDict[cls]).Draw(rt, fmt.Sprintf("s%d.same", i))
			desc += ":" + cls
		case "del":
			toks = append(toks[:at:at], toks[at+1:]...)
		case "dup":
			toks = append(toks[:at+1:at+1], toks[at:]...)
		case "swap":
			if at+2 < len(toks) {
				toks[at], toks[at+2] = toks[at+2], toks[at]
			}
		case "replace":
			toks[at] = rapid.SampledFrom(sqlDict).Draw(rt, fmt.Sprintf("s%d.tok", i))
		case "insert":
			w := rapid.SampledFrom(sqlDict).Draw(rt, fmt.Sprintf("s%d.tok", i))
			toks = append(toks[:at:at], append([]string{" ", w, " "}, toks[at:]...)...)
		case "nest":
			depth := rapid.SampledFrom([]int{1, 2, 10, 100, 1000}).Draw(rt, fmt.Sprintf("s%d.depth", i))
			desc += fmt.Sprint(depth)
			end := rapid.IntRange(at, len(toks)-1).Draw(rt, fmt.Sprintf("s%d.endAt", i))
			mid := strings.Join(toks[at:end+1], "")
			pre, post := strings.Repeat("(", depth), strings.Repeat(")", depth)
			if rapid.Bool().Draw(rt, fmt.Sprintf("s%d.sel", i)) {
				pre, post = strings.Repeat("(SELECT ", depth), strings.Repeat(")", depth)
			}
			toks = append(toks[:at:at], append([]string{pre, mid, post}, toks[end+1:]...)...)
		case "repeat":
			k := rapid.SampledFrom([]int{2, 10, 300, 3000}).Draw(rt, fmt.Sprintf("s%d.k", i))
			desc += fmt.Sprint(k)
			w := rapid.SampledFrom([]string{"NOT ", "-", "+", "(", "a.", "1+", "x OR ", "CASE WHEN ", ",1", " JOIN table1 ON true", ";", "'"}).Draw(rt, fmt.Sprintf("s%d.rep", i))
			toks = append(toks[:at:at], append([]string{strings.Repeat(w, k)}, toks[at:]...)...)
		case "splice":
			o := tokenize(others[rapid.IntRange(0, len(others)-1).Draw(rt, fmt.Sprintf("s%d.other", i))])
			if len(o) > 0 {
				from := rapid.IntRange(0, len(o)-1).Draw(rt, fmt.Sprintf("s%d.from", i))
				toks = append(toks[:at:at], o[from:]...)
			}
		case "truncBytes":
			s := strings.Join(toks, "")
			if len(s) > 0 {
				s = s[:rapid.IntRange(0, len(s)-1).Draw(rt, fmt.Sprintf("s%d.cut", i))]
			}
			toks = tokenize(s)
		case "longIdent":
			k := rapid.SampledFrom([]int{64, 257, 70000}).Draw(rt, fmt.Sprintf("s%d.k", i))
			desc += fmt.Sprint(k)
			toks[at] = strings.Repeat("a", k)
		case "delRange":
			end := rapid.IntRange(at, len(toks)-1).Draw(rt, fmt.Sprintf("s%d.endAt", i))
			toks = append(toks[:at:at], toks[end+1:]...)
		case "case":
			if rapid.Bool().Draw(rt, fmt.Sprintf("s%d.up", i)) {
				toks[at] = strings.ToUpper(toks[at])
			} else {
				toks[at] = strings.ToLower(toks[at])
			}
		}
	}
	return strings.Join(toks, ""), desc
}

// ---------------------------------------------------------------------------
// scratch engine

type scratchEngine struct {
	dir string
	st  *store.ImmuStore
	e   *sql.Engine
}

func newScratchEngine() (*scratchEngine, error) {
	dir := vk.Dir()
	st, err := store.Open(dir, sqlStoreOpts())
	if err != nil {
		removeAll(dir)
		return nil, err
	}
	e, err := sql.NewEngine(st, sql.DefaultOptions().WithPrefix([]byte("sql")))
	if err != nil {
		st.Close()
		removeAll(dir)
		return nil, err
	}
	s := &scratchEngine{dir, st, e}
	ctx := context.Background()
	for _, q := range []string{
		`CREATE TABLE table1 (id INTEGER AUTO_INCREMENT, title VARCHAR[50], active BOOLEAN, payload BLOB[32], amount FLOAT, ts TIMESTAMP, j JSON, u UUID, PRIMARY KEY id)`,
		`CREATE INDEX ON table1(title)`,
		`CREATE TABLE table2 (id INTEGER, amount INTEGER, title VARCHAR[20], PRIMARY KEY id)`,
		`CREATE TABLE mytable (id INTEGER, name VARCHAR[30], active BOOLEAN, PRIMARY KEY (id))`,
		`INSERT INTO table1 (title, active, payload, amount, ts, j) VALUES ('one', true, x'00ff', 1.5, NOW(), '{"a": 1}'), ('two', false, NULL, -2.25, NULL, NULL), ('three', NULL, x'', 0.0, NOW(), '[1, "x", null]')`,
		`INSERT INTO table2 (id, amount, title) VALUES (1, 10, 'a'), (2, 20, 'b'), (3, 30, 'c')`,
		`INSERT INTO mytable (id, name, active) VALUES (1, 'n1', true), (2, 'n2', false)`,
	} {
		if _, _, err := e.Exec(ctx, nil, q, nil); err != nil {
			s.close()
			return nil, fmt.Errorf("fixture %q: %w", q, err)
		}
	}
	return s, nil
}

func sqlStoreOpts() *store.Options {
	return smallStoreOpts().WithMultiIndexing(true).WithMaxTxEntries(256).WithMaxKeyLen(512).WithMaxConcurrency(10).
		WithIndexOptions(store.DefaultIndexOptions().WithCacheSize(64).WithMaxActiveSnapshots(20).WithFlushBufferSize(1 << 14))
}

func (s *scratchEngine) close() {
	s.st.Close()
	removeAll(s.dir)
}

var sqlParams = map[string]interface{}{
	"param0": 1, "param1": "one", "param2": true, "p": 1, "id": 1, "name": "n1", "title": "one", "active": true, "amount": 1.5,
	"param3": []byte{1, 2}, "ts": time.Unix(1700000000, 0), "param": 1, "p1": 1, "p2": "x", "param4": 2.5,
}

const (
	kfF28 = "F28-sql-parser-window-fn-as-datasource"
	kfF29 = "F29-sql-lpad-rpad-negative-length"
)

// knownBySignature: these two defects cannot be recognised from the SQL text without the parser itself; the class
// is "the call panicked with exactly this root-cause signature" (counted like any other exclusion).
func knownBySignature(r result) string {
	switch {
	case r.panicked && strings.Contains(r.pval, "is *sql.WindowFnExp, not *sql.FnCall"):
		return kfF28
	case r.panicked && (strings.Contains(r.stack, "sql.(*padFn).Apply") || strings.Contains(r.stack, "sql.(*repeatFn).Apply")):
		return kfF29
	}
	return ""
}

func sqlProbes() []vk.Probe {
	return []vk.Probe{
		{ID: kfF28, Present: func() (bool, string) {
			q := "SELECT * FROM f() OVER () x"
			if r := run(func() { sql.ParseSQLString(q) }); r.panicked {
				return true, fmt.Sprintf("sql.ParseSQLString(%q) panics: %s", q, r.pval)
			}
			return false, ""
		}},
		{ID: kfF29, Present: func() (bool, string) {
			eng, err := newScratchEngine()
			if err != nil {
				return false, ""
			}
			defer eng.close()
			q := "SELECT RPAD('hi', -1, '.')"
			r := run(func() {
				rd, err := eng.e.Query(context.Background(), nil, q, nil)
				if err != nil {
					return
				}
				defer rd.Close()
				rd.Read(context.Background())
			})
			if r.panicked {
				return true, fmt.Sprintf("%s panics: %s [%s]", q, r.pval, r.stack)
			}
			return false, ""
		}},
	}
}

var padRe = regexp.MustCompile(`(?i)([LR]PAD|REPEAT)\s*\(`)

var heavyRe = regexp.MustCompile(`(?i)RECURSIVE|GENERATE_SERIES|PG_SLEEP|SLEEP`)

// TestSQLParseAndExec: mutated SQL text through ParseSQLString; what parses is
// executed (Exec / Query + full read) on a scratch engine: errors are fine,
// panics and hangs of the parser are not.
func TestSQLParseAndExec(t *testing.T) {
	cp := corpus(t)
	vk.Check(t, 1600, 16000, func(rt *rapid.T, c *vk.Case) {
		eng, err := newScratchEngine()
		if err != nil {
			rt.Fatalf("scratch engine: %v", err)
		}
		defer eng.close()
		nStmts := rapid.IntRange(6, 16).Draw(rt, "nStmts")
		var tx *sql.SQLTx
		defer func() {
			if tx != nil && !tx.Closed() {
				tx.Cancel()
			}
		}()
		parsedAny, executedAny := false, false
		for n := 0; n < nStmts; n++ {
			base := cp[rapid.IntRange(0, len(cp)-1).Draw(rt, "base")]
			text, desc := base, "verbatim"
			if rapid.IntRange(0, 5).Draw(rt, "verbatim") != 0 {
				text, desc = mutateSQL(rt, base, cp)
			}
			c.Descf("%s", desc)
			vk.AddLabel("TestSQLParseAndExec/statements", 1)
			var stmts []sql.SQLStmt
			var perr error
			r := runPure(func() { stmts, perr = sql.ParseSQLString(text) })
			dump := map[string]any{"sql": text, "mutation": desc, "base": base}
			if k := knownBySignature(r); k != "" && vk.Excluded(k) {
				vk.CountExcluded(k)
				c.Label("known-class-" + k)
				continue
			}
			if m := r.verdict("sql.ParseSQLString", len(text)); m != "" {
				c.Failf(rt, dump, "%s\nSQL: %.2000q", m, text)
			}
			if perr != nil {
				c.Label("parse-error")
				vk.AddLabel("TestSQLParseAndExec/statements-rejected-by-parser", 1)
				continue
			}
			parsedAny = true
			c.Label("parses")
			vk.AddLabel("TestSQLParseAndExec/statements-parsed", 1)
			if padRe.MatchString(text) && vk.Excluded(kfF29) {
				// LPAD/RPAD/REPEAT: negative length panics, huge length never finishes or exhausts the memory (known finding): parsed, not executed
				vk.CountExcluded(kfF29)
				c.Label("known-class-" + kfF29)
				continue
			}
			if heavyRe.MatchString(text) || len(text) > 20000 {
				c.Label("not-executed-(unbounded-by-nature)")
				continue
			}
			for _, stmt := range stmts {
				stmt := stmt
				var xerr error
				ctx, cancel := context.WithTimeout(context.Background(), 5*time.Second)
				r := run(func() {
					if ds, ok := stmt.(sql.DataSource); ok {
						rd, e := eng.e.QueryPreparedStmt(ctx, tx, ds, sqlParams)
						if e != nil {
							xerr = e
							return
						}
						defer rd.Close()
						rd.Columns(ctx)
						for rows := 0; rows < 500; rows++ {
							row, e := rd.Read(ctx)
							if e != nil {
								if !errors.Is(e, sql.ErrNoMoreRows) {
									xerr = e
								}
								return
							}
							for _, v := range row.ValuesByPosition {
								if v != nil {
									v.RawValue()
									_ = v.String()
								}
							}
						}
						return
					}
					ntx, _, e := eng.e.ExecPreparedStmts(ctx, tx, []sql.SQLStmt{stmt}, sqlParams)
					xerr = e
					if e == nil || ntx != nil {
						tx = ntx
					} else if tx != nil && tx.Closed() {
						tx = nil
					}
				})
				cancel()
				if k := knownBySignature(r); k != "" && vk.Excluded(k) {
					vk.CountExcluded(k)
					c.Label("known-class-" + k)
					if tx != nil && tx.Closed() {
						tx = nil
					}
					continue
				}
				if r.panicked {
					c.Failf(rt, dump, "executing a statement that parsed PANICKED: %s [%s]\nSQL: %.2000q", r.pval, r.stack, text)
				}
				if r.hung {
					// execution time of arbitrary SQL is not bounded by the property; give up on this engine
					c.Label("exec-did-not-finish-(not-a-failure)")
					return
				}
				executedAny = true
				if xerr != nil {
					c.Label("exec-error")
					vk.AddLabel("TestSQLParseAndExec/statements-exec-error", 1)
					if tx != nil && tx.Closed() {
						tx = nil
					}
				} else {
					c.Label("exec-ok")
					vk.AddLabel("TestSQLParseAndExec/statements-exec-ok", 1)
				}
			}
		}
		if executedAny {
			c.Label("executed>=1")
		}
		if parsedAny {
			c.NonTrivial()
		}
	})
}

// FuzzParseSQL: native fuzzing of the parser alone.
func FuzzParseSQL(f *testing.F) {
	for i, s := range corpus(f) {
		if i%12 == 0 {
			f.Add(s)
		}
	}
	for _, s := range []string{"SELECT * FROM f() OVER () x", "", ";", "SELECT", "SELECT (((((((((", "SELECT 'unterminated", "SELECT \x00", "SELECT 1 /* open", "SELECT x'0'", "SELECT 99999999999999999999999999", "INSERT INTO t VALUES (" + strings.Repeat("(", 500)} {
		f.Add(s)
	}
	f.Fuzz(func(t *testing.T, s string) {
		if len(s) > 1<<16 {
			return
		}
		r := runPure(func() { sql.ParseSQLString(s) })
		if k := knownBySignature(r); k != "" && vk.Excluded(k) {
			vk.CountExcluded(k)
			return
		}
		if m := r.verdict("sql.ParseSQLString", len(s)); m != "" {
			t.Fatalf("%s\nSQL: %q", m, s)
		}
	})
}
