package c16

import (
	"bytes"
	"context"
	"crypto/sha256"
	"encoding/binary"
	"fmt"
	"strings"
	"sync"
	"testing"
	"time"

	"github.com/codenotary/immudb/embedded/store"
	"pgregory.net/rapid"

	"verif/internal/vk"
)

// ---------------------------------------------------------------------------
// primary fixture: a store with transactions of every shape, and their exports

type honestTx struct {
	id     uint64
	blob   []byte
	alh    [sha256.Size]byte
	shape  string
	digest bool // digest-only ("truncated") export built from blob
}

type primaryFixture struct {
	txs       []honestTx // index i holds tx id i+1
	digestTxs [][]byte   // digest-only form of the same txs
}

var (
	fixOnce sync.Once
	fix     *primaryFixture
	fixErr  error
)

func smallStoreOpts() *store.Options {
	n := int64(0)
	return store.DefaultOptions().
		WithLogger(quiet).
		WithSynced(false).
		WithMaxConcurrency(3).
		WithMaxIOConcurrency(1).
		WithMaxActiveTransactions(8).
		WithTxLogCacheSize(4).
		WithFileSize(1 << 16).
		WithWriteBufferSize(1 << 12).
		WithMaxTxEntries(32).
		WithMaxKeyLen(128).
		WithMaxValueLen(1 << 12).
		WithMaxWaitees(16).
		WithTimeFunc(func() time.Time { n++; return time.Unix(1700000000+n, 0) }).
		WithIndexOptions(store.DefaultIndexOptions().WithCacheSize(16).WithMaxActiveSnapshots(4).WithFlushBufferSize(1 << 12).WithMaxNodeSize(1024)).
		WithAHTOptions(store.DefaultAHTOptions().WithWriteBufferSize(1 << 12))
}

func primary(t testing.TB) *primaryFixture {
	fixOnce.Do(func() { fix, fixErr = buildPrimary() })
	if fixErr != nil {
		t.Fatalf("primary fixture: %v", fixErr)
	}
	return fix
}

func buildPrimary() (*primaryFixture, error) {
	dir := vk.Dir()
	defer removeAll(dir)
	st, err := store.Open(dir, smallStoreOpts())
	if err != nil {
		return nil, err
	}
	defer st.Close()
	ctx := context.Background()
	type ent struct {
		k, v string
		md   *store.KVMetadata
	}
	del := store.NewKVMetadata()
	del.AsDeleted(true)
	exp := store.NewKVMetadata()
	exp.ExpiresAt(time.Unix(4000000000, 0))
	nonidx := store.NewKVMetadata()
	nonidx.AsNonIndexable(true)
	all := store.NewKVMetadata()
	all.AsDeleted(true)
	all.ExpiresAt(time.Unix(4000000001, 0))
	all.AsNonIndexable(true)
	extra := store.NewTxMetadata()
	extra.WithExtra([]byte("extra-metadata-of-the-client"))
	trunc := store.NewTxMetadata().WithTruncatedTxID(1)
	both := store.NewTxMetadata().WithTruncatedTxID(2)
	both.WithExtra(make([]byte, 70))
	big := make([]ent, 20)
	for i := range big {
		big[i] = ent{k: fmt.Sprintf("big-%02d", i), v: fmt.Sprintf("value-%d-%s", i, string(make([]byte, i*3)))}
	}
	shapes := []struct {
		name string
		md   *store.TxMetadata
		es   []ent
	}{
		{"1kv", nil, []ent{{k: "k1", v: "v1"}}},
		{"3kv-empty-value", nil, []ent{{k: "a", v: ""}, {k: "b", v: "x"}, {k: "c", v: string(make([]byte, 100))}}},
		{"kvmd-deleted", nil, []ent{{k: "k1", v: "", md: del}}},
		{"kvmd-expiry", nil, []ent{{k: "e", v: "expiring", md: exp}, {k: "f", v: "plain"}}},
		{"txmd-extra", extra, []ent{{k: "x", v: "with extra"}}},
		{"kvmd-nonindexable", nil, []ent{{k: "n", v: "not indexed", md: nonidx}}},
		{"txmd-truncated", trunc, []ent{{k: "t", v: "after truncation"}}},
		{"20kv", nil, big},
		{"kvmd-all+txmd-both", both, []ent{{k: "z", v: "zz", md: all}, {k: "y", v: "yy"}}},
		{"txmd-truncated-noentries", store.NewTxMetadata().WithTruncatedTxID(3), nil},
		{"1kv-long-key", nil, []ent{{k: string(make([]byte, 128)), v: "v"}}},
		{"last", nil, []ent{{k: "k1", v: "v2"}}},
	}
	f := &primaryFixture{}
	for _, s := range shapes {
		tx, err := st.NewWriteOnlyTx(ctx)
		if err != nil {
			return nil, err
		}
		if s.md != nil {
			tx.WithMetadata(s.md)
		}
		for _, e := range s.es {
			if err := tx.Set([]byte(e.k), e.md, []byte(e.v)); err != nil {
				return nil, fmt.Errorf("%s: set: %w", s.name, err)
			}
		}
		hdr, err := tx.Commit(ctx)
		if err != nil {
			return nil, fmt.Errorf("%s: commit: %w", s.name, err)
		}
		holder := store.NewTx(64, 256)
		blob, err := st.ExportTx(hdr.ID, false, false, holder)
		if err != nil {
			return nil, fmt.Errorf("%s: export: %w", s.name, err)
		}
		f.txs = append(f.txs, honestTx{id: hdr.ID, blob: blob, alh: hdr.Alh(), shape: s.name})
	}
	for _, h := range f.txs {
		f.digestTxs = append(f.digestTxs, digestOnlyForm(h.blob))
	}
	return f, nil
}

// digestOnlyForm rewrites an honest export the way ExportTx writes a tx whose
// values were truncated: every value replaced by its SHA-256, flag = 1.
func digestOnlyForm(blob []byte) []byte {
	l := layoutExport(blob)
	var out []byte
	prev := 0
	for i, f := range l.f {
		if f.kind == kLen && len(f.name) > 5 && f.name[len(f.name)-5:] == ".vLen" {
			val := l.f[i+1]
			out = append(out, blob[prev:f.off]...)
			h := sha256.Sum256(blob[val.off : val.off+val.n])
			out = append(out, be32(32)...)
			out = append(out, h[:]...)
			prev = val.off + val.n
		}
	}
	out = append(out, blob[prev:]...)
	out[len(out)-1] = 1
	return out
}

// layoutExport maps a VALID exported tx.
func layoutExport(blob []byte) *layout {
	l := &layout{b: blob}
	hdrLen := int(binary.BigEndian.Uint32(blob))
	l.add("hdrLen", 0, 4, kLen)
	l.add("hdr", 4, hdrLen, kBytes)
	end := layoutHeader(l, "hdr.", 4)
	if end != 4+hdrLen {
		panic("layoutExport: header length mismatch")
	}
	hc := classifyHeader(blob[4 : 4+hdrLen])
	i := end
	for e := 0; e < hc.nentries; e++ {
		start := i
		p := fmt.Sprintf("e%d.", e)
		kl := int(binary.BigEndian.Uint16(blob[i:]))
		l.add(p+"kLen", i, 2, kLen)
		l.add(p+"key", i+2, kl, kBytes)
		i += 2 + kl
		ml := int(binary.BigEndian.Uint16(blob[i:]))
		l.add(p+"mdLen", i, 2, kLen)
		l.add(p+"md", i+2, ml, kBytes)
		j := i + 2
		for j < i+2+ml {
			code := blob[j]
			l.add(fmt.Sprintf("%smd.code%d", p, code), j, 1, kTag)
			j++
			if code == 1 {
				l.add(p+"md.expiresAt", j, 8, kNum)
				j += 8
			}
		}
		i += 2 + ml
		vl := int(binary.BigEndian.Uint32(blob[i:]))
		l.add(p+"vLen", i, 4, kLen)
		l.add(p+"value", i+4, vl, kBytes)
		i += 4 + vl
		l.recs = append(l.recs, record{fmt.Sprintf("e%d", e), start, i})
	}
	if i < len(blob) {
		tl := int(binary.BigEndian.Uint16(blob[i:]))
		l.add("tLen", i, 2, kLen)
		l.add("tFlag", i+2, tl, kTag)
		l.recs = append(l.recs, record{"trailer", i, i + 2 + tl})
		i += 2 + tl
	}
	if i != len(blob) {
		panic("layoutExport: trailing bytes in an honest export")
	}
	return l
}

type exportClass struct {
	known    string
	framed   bool // all entries and the trailer are framed: the input reaches precommit
	hdrOK    bool // header decoded (past the prologue)
	id       uint64
	entries  int
	nentries int
}

func kvmdDecodes(b []byte) bool {
	if len(b) > maxKVMetadataLen {
		return false
	}
	i := 0
	for i != len(b) {
		code := b[i]
		i++
		switch code {
		case 0, 2:
		case 1:
			if len(b)-i < 8 {
				return false
			}
			i += 8
		default:
			return false
		}
	}
	return true
}

// classifyExport mirrors the framing part of ImmuStore.ReplicateTx with explicit bounds.
func classifyExport(b []byte) exportClass {
	var c exportClass
	if len(b) < 4 {
		return c
	}
	hdrLen := int(binary.BigEndian.Uint32(b))
	i := 4
	if len(b) < i+hdrLen {
		return c
	}
	hc := classifyHeader(b[i : i+hdrLen])
	if hc.known != "" {
		c.known = hc.known
		return c
	}
	if !hc.ok {
		return c
	}
	c.hdrOK = true
	c.id = binary.BigEndian.Uint64(b[i:])
	c.nentries = hc.nentries
	i += hdrLen
	for e := 0; e < hc.nentries; e++ {
		if len(b) < i+2+2+4 {
			return c
		}
		kLen := int(binary.BigEndian.Uint16(b[i:]))
		i += 2
		if len(b) < i+2+4+kLen {
			return c
		}
		i += kLen
		mdLen := int(binary.BigEndian.Uint16(b[i:]))
		i += 2
		if len(b) < i+mdLen {
			return c
		}
		if mdLen > 0 {
			if !kvmdDecodes(b[i : i+mdLen]) {
				return c
			}
			i += mdLen
		}
		if len(b)-i < 4 {
			c.known = kfF3c
			return c
		}
		vLen := int(binary.BigEndian.Uint32(b[i:]))
		i += 4
		if len(b) < i+vLen {
			return c
		}
		i += vLen
		c.entries++
	}
	if i < len(b) {
		if len(b)-i < 2 {
			c.known = kfF3b
			return c
		}
		tLen := int(binary.BigEndian.Uint16(b[i:]))
		i += 2
		if len(b) < i+tLen {
			return c
		}
		if tLen > 0 && b[i] > 1 {
			return c
		}
		if tLen == 0 {
			c.known = kfF3a
			return c
		}
		i += tLen
	}
	if i != len(b) {
		return c
	}
	c.framed = true
	if hc.oversizeExtra {
		c.known = kfF4 // precommit compares the metadata through Bytes()
	}
	return c
}

func replicateProbes() []vk.Probe {
	mk := func(id string, edit func(blob []byte) []byte) vk.Probe {
		return vk.Probe{ID: id, Present: func() (bool, string) {
			fixOnce.Do(func() { fix, fixErr = buildPrimary() })
			if fixErr != nil {
				return false, ""
			}
			dir := vk.Dir()
			defer removeAll(dir)
			st, err := store.Open(dir, smallStoreOpts())
			if err != nil {
				return false, ""
			}
			defer st.Close()
			in := edit(append([]byte(nil), fix.txs[0].blob...))
			r := runStateful(func() { st.ReplicateTx(context.Background(), in, false, false) })
			if m := r.verdict("ReplicateTx("+hexs(in)+")", len(in)); m != "" {
				return true, m
			}
			return false, ""
		}}
	}
	return []vk.Probe{
		// honest export of tx 1 with the trailer `00 01 00` replaced by `00 00`
		mk(kfF3a, func(b []byte) []byte { return append(b[:len(b)-3], 0, 0) }),
		// honest export of tx 1 cut by 2 bytes: one byte where the 2-byte trailer length is read
		mk(kfF3b, func(b []byte) []byte { return b[:len(b)-2] }),
		// honest export of tx 1 (one entry): mdLen := 1, a `deleted` attribute, then the end of the buffer
		mk(kfF3c, func(b []byte) []byte {
			l := layoutExport(b)
			for _, f := range l.f {
				if f.name == "e0.mdLen" {
					out := append([]byte(nil), b[:f.off]...)
					// the preceding check needs len >= keyStart + 2 + 4 + kLen: pad the metadata so that it is satisfied
					return append(out, 0, 4, 0, 2, 0, 2)
				}
			}
			return b
		}),
	}
}

// ---------------------------------------------------------------------------

type replicaState struct {
	committed, precommitted uint64
	calh, palh              [sha256.Size]byte
	count                   uint64
}

func stateOf(st *store.ImmuStore) replicaState {
	var s replicaState
	s.committed, s.calh = st.CommittedAlh()
	s.precommitted, s.palh = st.PrecommittedAlh()
	s.count = st.TxCount()
	return s
}

func (s replicaState) String() string {
	return fmt.Sprintf("committed=%d/%x precommitted=%d/%x count=%d", s.committed, s.calh[:4], s.precommitted, s.palh[:4], s.count)
}

// TestReplicateTxMutations: structure-aware mutations of honest exports against
// a replica that already holds the first k transactions.
func TestReplicateTxMutations(t *testing.T) {
	fx := primary(t)
	perCase := 24
	vk.Check(t, 5000, 60000, func(rt *rapid.T, c *vk.Case) {
		k := rapid.IntRange(0, len(fx.txs)-2).Draw(rt, "k")
		dir := vk.Dir()
		defer removeAll(dir)
		opts := smallStoreOpts()
		if rapid.IntRange(0, 7).Draw(rt, "synced") == 0 {
			opts.WithSynced(true).WithSyncFrequency(time.Millisecond)
			c.Label("replica-synced")
		}
		st, err := store.Open(dir, opts)
		if err != nil {
			rt.Fatalf("open replica: %v", err)
		}
		defer st.Close()
		ctx := context.Background()
		for i := 0; i < k; i++ {
			blob := fx.txs[i].blob
			if rapid.IntRange(0, 5).Draw(rt, "digestForm") == 0 {
				blob = fx.digestTxs[i]
			}
			if _, err := st.ReplicateTx(ctx, blob, false, false); err != nil {
				c.Failf(rt, nil, "honest tx %d (%s) rejected by an empty-history replica: %v", i+1, fx.txs[i].shape, err)
			}
		}
		target := fx.txs[k]
		base := target.blob
		baseName := "full"
		if rapid.IntRange(0, 4).Draw(rt, "digestBase") == 0 {
			base = fx.digestTxs[k]
			baseName = "digest-only"
		}
		l := layoutExport(base)
		c.Descf("k=%d target=%s base=%s", k, target.shape, baseName)
		before := stateOf(st)
		nInputs := rapid.IntRange(perCase/2, perCase).Draw(rt, "inputs")
		nontrivial := false
		accepted := false
		for n := 0; n < nInputs && !accepted; n++ {
			in, desc, single := mutate(rt, l)
			if bytes.Equal(in, base) {
				c.Label("identity-mutation-(skipped)")
				continue
			}
			if strings.Contains(desc, "hdr.Ts") && rapid.IntRange(0, 3).Draw(rt, "keepTs") != 0 {
				// the replica cannot validate the timestamp: such mutants are accepted and end the sequence; keep only a quarter of them
				continue
			}
			c.Descf("%s", desc)
			cl := classifyExport(in)
			vk.AddLabel("TestReplicateTxMutations/inputs", 1)
			if cl.known != "" {
				c.Label("known-class-" + cl.known)
				if vk.Excluded(cl.known) {
					vk.CountExcluded(cl.known)
					continue
				}
			}
			if cl.hdrOK || single {
				nontrivial = true
			}
			switch {
			case cl.framed:
				c.Label("reaches-precommit")
				vk.AddLabel("TestReplicateTxMutations/inputs-reaching-precommit", 1)
			case cl.hdrOK:
				c.Label("header-decoded")
				vk.AddLabel("TestReplicateTxMutations/inputs-header-decoded", 1)
			default:
				c.Label("rejected-in-header")
			}
			skip := rapid.IntRange(0, 11).Draw(rt, "skipIntegrity") == 0
			callCtx, cancel := ctx, context.CancelFunc(func() {})
			if cl.framed && cl.id > before.precommitted+1 {
				// by design such a tx waits for its predecessor; bound the wait
				callCtx, cancel = context.WithTimeout(ctx, 150*time.Millisecond)
				c.Label("id-ahead-(bounded-wait)")
			}
			var hdr *store.TxHeader
			var rerr error
			r := runStateful(func() { hdr, rerr = st.ReplicateTx(callCtx, in, skip, false) })
			cancel()
			dump := map[string]any{"input": fmt.Sprintf("%x", in), "mutation": desc, "k": k, "target": target.shape, "skipIntegrityCheck": skip}
			if m := r.verdict("ReplicateTx", len(in)); m != "" {
				c.Failf(rt, dump, "%s (mutation: %s of tx %d %q)", m, desc, k+1, target.shape)
			}
			after := stateOf(st)
			if rerr != nil {
				if after != before {
					c.Failf(rt, dump, "ReplicateTx returned %v but the replica changed: before %s, after %s (mutation: %s)", rerr, before, after, desc)
				}
				continue
			}
			// accepted: must be exactly one more tx, readable
			accepted = true
			c.Label("mutant-accepted")
			if hdr == nil || hdr.ID != before.precommitted+1 || after.precommitted != before.precommitted+1 {
				c.Failf(rt, dump, "ReplicateTx accepted a mutated tx but the state is not 'one more tx': hdr=%+v before %s after %s", hdr, before, after)
			}
			holder := store.NewTx(64, 256)
			var e2 error
			r = runStateful(func() { e2 = st.ReadTx(hdr.ID, false, holder) })
			if m := r.verdict("ReadTx of the accepted tx", len(in)); m != "" {
				c.Failf(rt, dump, "%s", m)
			}
			if e2 != nil {
				c.Failf(rt, dump, "ReplicateTx accepted a mutated tx (%s) that cannot be read back: %v", desc, e2)
			}
			if hdr.Alh() == target.alh && k+1 <= len(fx.txs)-2 {
				// an equivalent encoding of the honest tx (e.g. without the optional trailer): go on with the next tx
				c.Label("equivalent-encoding-accepted")
				k++
				target = fx.txs[k]
				base = target.blob
				l = layoutExport(base)
				before = after
				accepted = false
				c.Descf("-> k=%d", k)
			}
		}
		if !accepted {
			// the honest tx must still be accepted and lead to the primary's state
			var hdr *store.TxHeader
			var rerr error
			r := runStateful(func() { hdr, rerr = st.ReplicateTx(ctx, target.blob, false, true) })
			if m := r.verdict("ReplicateTx(honest)", len(target.blob)); m != "" {
				c.Failf(rt, nil, "after %d rejected inputs: %s", nInputs, m)
			}
			if rerr != nil {
				c.Failf(rt, nil, "after %d rejected mutated inputs the honest tx %d (%s) is no longer accepted: %v", nInputs, k+1, target.shape, rerr)
			}
			if hdr.Alh() != target.alh {
				c.Failf(rt, nil, "after rejected inputs the honest tx %d leads to a different Alh", k+1)
			}
			c.Label("honest-next-accepted")
		}
		if nontrivial {
			c.NonTrivial()
		}
	})
}
