package c16

import (
	"context"
	"errors"
	"fmt"
	"path/filepath"
	"strings"
	"sync"
	"testing"

	"github.com/codenotary/immudb/pkg/api/schema"
	ic "github.com/codenotary/immudb/pkg/client"
	"github.com/codenotary/immudb/pkg/server"
	"github.com/codenotary/immudb/pkg/server/servertest"
	"google.golang.org/grpc"
	"google.golang.org/protobuf/proto"
	"pgregory.net/rapid"

	"verif/internal/vk"
)

const (
	kfF11 = "F11-client-verified-reply-absent-submessage"
	kfF12 = "F12-client-decoderow-column-count-allocation"
	kfF13 = "F13-client-decodetxentries-empty-key"
)

// rowCountBomb: the encoded row announces more columns than its bytes can hold.
func rowCountBomb(v []byte) bool {
	if len(v) < 4 {
		return false
	}
	n := int(uint32(v[0])<<24 | uint32(v[1])<<16 | uint32(v[2])<<8 | uint32(v[3]))
	return n > (len(v)-4)/8 && n > 1<<16
}

// ---------------------------------------------------------------------------
// a real server behind bufconn, a real client, and a client-side interceptor
// that can capture the honest reply of a call or replace it with a mutated one

type icMode int

const (
	icPass icMode = iota
	icCapture
	icReplay
)

var errCaptured = errors.New("c16: reply captured")

type replySwitch struct {
	mu       sync.Mutex
	mode     icMode
	method   string // suffix of the full method name the mode applies to
	captured proto.Message
	replay   proto.Message
	hits     int
}

func (s *replySwitch) intercept(ctx context.Context, method string, req, reply any, cc *grpc.ClientConn, invoker grpc.UnaryInvoker, opts ...grpc.CallOption) error {
	s.mu.Lock()
	mode, want := s.mode, s.method
	s.mu.Unlock()
	if mode == icPass || !strings.HasSuffix(method, "/"+want) {
		return invoker(ctx, method, req, reply, cc, opts...)
	}
	switch mode {
	case icCapture:
		err := invoker(ctx, method, req, reply, cc, opts...)
		if err != nil {
			return err
		}
		s.mu.Lock()
		s.captured = proto.Clone(reply.(proto.Message))
		s.hits++
		s.mu.Unlock()
		return errCaptured
	case icReplay:
		s.mu.Lock()
		first := s.hits == 0
		s.hits++
		rep := s.replay
		s.mu.Unlock()
		if !first {
			// later calls of the same method inside one operation (FillMissingLinearAdvanceProof) go to the real server
			return invoker(ctx, method, req, reply, cc, opts...)
		}
		rm := reply.(proto.Message)
		proto.Reset(rm)
		proto.Merge(rm, rep)
		return nil
	}
	return nil
}

func (s *replySwitch) set(mode icMode, method string, replay proto.Message) {
	s.mu.Lock()
	s.mode, s.method, s.replay, s.captured, s.hits = mode, method, replay, nil, 0
	s.mu.Unlock()
}

// trackState is the client's state service: the harness decides the trusted
// state and observes every SetState.
type trackState struct {
	mu   sync.Mutex
	cur  *schema.ImmutableState
	sets int
}

func (t *trackState) GetState(ctx context.Context, db string) (*schema.ImmutableState, error) {
	t.mu.Lock()
	defer t.mu.Unlock()
	return proto.Clone(t.cur).(*schema.ImmutableState), nil
}
func (t *trackState) SetState(db string, st *schema.ImmutableState) error {
	t.mu.Lock()
	defer t.mu.Unlock()
	t.cur = proto.Clone(st).(*schema.ImmutableState)
	t.sets++
	return nil
}
func (t *trackState) CacheLock() error         { return nil }
func (t *trackState) CacheUnlock() error       { return nil }
func (t *trackState) SetServerIdentity(string) {}

type clientFixture struct {
	bs     *servertest.BufconnServer
	cl     ic.ImmuClient
	sw     *replySwitch
	st     *trackState
	states []*schema.ImmutableState // honest (txid, alh) for tx 1..n at index i-1
	keys   [][]byte
	nTx    uint64
	row    *schema.Row // row id=1 of table t as SQLQuery returns it
}

var (
	cfOnce sync.Once
	cf     *clientFixture
	cfErr  error
)

func clientFix(t testing.TB) *clientFixture {
	cfOnce.Do(func() { cf, cfErr = buildClientFixture() })
	if cfErr != nil {
		t.Fatalf("client fixture: %v", cfErr)
	}
	return cf
}

func buildClientFixture() (*clientFixture, error) {
	dir := vk.Dir()
	opts := server.DefaultOptions().
		WithDir(filepath.Join(dir, "data")).
		WithLogfile(filepath.Join(dir, "immudb.log")).
		WithAuth(true).
		WithMetricsServer(false).
		WithWebServer(false).
		WithPgsqlServer(false).
		WithGRPCReflectionServerEnabled(false)
	bs := servertest.NewBufconnServer(opts)
	if err := bs.Start(); err != nil {
		return nil, fmt.Errorf("server start: %w", err)
	}
	sw := &replySwitch{}
	copts := ic.DefaultOptions().WithDir(filepath.Join(dir, "client"))
	cl := bs.NewClient(copts)
	cl.GetOptions().DialOptions = append(cl.GetOptions().DialOptions, grpc.WithChainUnaryInterceptor(sw.intercept))
	if err := cl.OpenSession(context.Background(), []byte("immudb"), []byte("immudb"), "defaultdb"); err != nil {
		return nil, fmt.Errorf("open session: %w", err)
	}
	f := &clientFixture{bs: bs, cl: cl, sw: sw, st: &trackState{}}
	ctx := context.Background()
	for i := 0; i < 6; i++ {
		k := []byte(fmt.Sprintf("key-%d", i))
		f.keys = append(f.keys, k)
		if _, err := cl.Set(ctx, k, []byte(fmt.Sprintf("value-%d", i))); err != nil {
			return nil, err
		}
	}
	if _, err := cl.SetReference(ctx, []byte("ref-0"), f.keys[0]); err != nil {
		return nil, err
	}
	if _, err := cl.ZAdd(ctx, []byte("zset"), 1.5, f.keys[1]); err != nil {
		return nil, err
	}
	if _, err := cl.Set(ctx, f.keys[0], []byte("value-0-bis")); err != nil {
		return nil, err
	}
	if _, err := cl.SQLExec(ctx, "CREATE TABLE t(id INTEGER, name VARCHAR[32], ok BOOLEAN, PRIMARY KEY id)", nil); err != nil {
		return nil, err
	}
	if _, err := cl.SQLExec(ctx, "INSERT INTO t(id, name, ok) VALUES (1, 'one', true), (2, 'two', false)", nil); err != nil {
		return nil, err
	}
	res, err := cl.SQLQuery(ctx, "SELECT id, name, ok FROM t WHERE id = 1", nil, true)
	if err != nil || len(res.Rows) != 1 {
		return nil, fmt.Errorf("SQLQuery: %v", err)
	}
	f.row = res.Rows[0]
	cur, err := cl.CurrentState(ctx)
	if err != nil {
		return nil, err
	}
	f.nTx = cur.TxId
	for id := uint64(1); id <= f.nTx; id++ {
		tx, err := cl.TxByID(ctx, id)
		if err != nil {
			return nil, fmt.Errorf("TxByID(%d): %w", id, err)
		}
		alh := schema.TxHeaderFromProto(tx.Header).Alh()
		f.states = append(f.states, &schema.ImmutableState{Db: "defaultdb", TxId: id, TxHash: alh[:]})
	}
	cl.WithStateService(f.st)
	return f, nil
}

type clientOp struct {
	name   string
	method string
	call   func(ctx context.Context, f *clientFixture) error
}

func clientOps() []clientOp {
	return []clientOp{
		{"VerifiedGet", "VerifiableGet", func(ctx context.Context, f *clientFixture) error {
			_, err := f.cl.VerifiedGet(ctx, f.keys[2])
			return err
		}},
		{"VerifiedGet(updated key)", "VerifiableGet", func(ctx context.Context, f *clientFixture) error {
			_, err := f.cl.VerifiedGet(ctx, f.keys[0])
			return err
		}},
		{"VerifiedGet(reference)", "VerifiableGet", func(ctx context.Context, f *clientFixture) error {
			_, err := f.cl.VerifiedGet(ctx, []byte("ref-0"))
			return err
		}},
		{"VerifiedGetAt", "VerifiableGet", func(ctx context.Context, f *clientFixture) error {
			_, err := f.cl.VerifiedGetAt(ctx, f.keys[0], 1)
			return err
		}},
		{"VerifiedTxByID", "VerifiableTxById", func(ctx context.Context, f *clientFixture) error {
			_, err := f.cl.VerifiedTxByID(ctx, 3)
			return err
		}},
		{"VerifiedTxByID(last)", "VerifiableTxById", func(ctx context.Context, f *clientFixture) error {
			_, err := f.cl.VerifiedTxByID(ctx, f.nTx)
			return err
		}},
		{"VerifiedSet", "VerifiableSet", func(ctx context.Context, f *clientFixture) error {
			_, err := f.cl.VerifiedSet(ctx, []byte("written-key"), []byte("written-value"))
			return err
		}},
		{"VerifiedSetReference", "VerifiableSetReference", func(ctx context.Context, f *clientFixture) error {
			_, err := f.cl.VerifiedSetReference(ctx, []byte("written-ref"), f.keys[3])
			return err
		}},
		{"VerifiedZAdd", "VerifiableZAdd", func(ctx context.Context, f *clientFixture) error {
			_, err := f.cl.VerifiedZAdd(ctx, []byte("zset"), 2.5, f.keys[4])
			return err
		}},
		{"VerifyRow", "VerifiableSQLGet", func(ctx context.Context, f *clientFixture) error {
			return f.cl.VerifyRow(ctx, f.row, "t", []*schema.SQLValue{f.row.Values[0]})
		}},
	}
}

// requiredAbsent: the reply lacks a sub-message that pkg/client dereferences without a check.
func requiredAbsent(m proto.Message) bool {
	vtxBad := func(v *schema.VerifiableTx) bool {
		return v == nil || v.Tx == nil || v.Tx.Header == nil || v.DualProof == nil || v.DualProof.SourceTxHeader == nil ||
			v.DualProof.TargetTxHeader == nil || v.DualProof.LinearProof == nil
	}
	switch r := m.(type) {
	case *schema.VerifiableEntry:
		return r.Entry == nil || r.InclusionProof == nil || vtxBad(r.VerifiableTx)
	case *schema.VerifiableTx:
		return vtxBad(r)
	case *schema.VerifiableSQLEntry:
		return r.SqlEntry == nil || r.InclusionProof == nil || vtxBad(r.VerifiableTx)
	}
	return false
}

func replyHeaders(m proto.Message) (hs []*schema.TxHeader, tx *schema.Tx) {
	var v *schema.VerifiableTx
	switch r := m.(type) {
	case *schema.VerifiableEntry:
		v = r.VerifiableTx
	case *schema.VerifiableTx:
		v = r
	case *schema.VerifiableSQLEntry:
		v = r.VerifiableTx
	}
	if v == nil {
		return nil, nil
	}
	if v.Tx != nil {
		hs = append(hs, v.Tx.Header)
	}
	if v.DualProof != nil {
		hs = append(hs, v.DualProof.SourceTxHeader, v.DualProof.TargetTxHeader)
	}
	return hs, v.Tx
}

func clientProbes() []vk.Probe {
	return []vk.Probe{{ID: kfF12, Present: func() (bool, string) {
		cfOnce.Do(func() { cf, cfErr = buildClientFixture() })
		if cfErr != nil {
			return false, ""
		}
		f := cf
		f.st.cur = f.states[len(f.states)-1]
		op := clientOps()[9]
		f.sw.set(icCapture, op.method, nil)
		op.call(context.Background(), f)
		honest, _ := f.sw.captured.(*schema.VerifiableSQLEntry)
		f.sw.set(icPass, "", nil)
		if honest == nil {
			return false, ""
		}
		// the honest reply with the column count of the encoded row set to 0x00040003 (256K columns in a 40-byte value);
		// the pinned repro uses a small count (map creation is slow) and a proportionally small bound: 4 MiB for 40 bytes
		m := proto.Clone(honest).(*schema.VerifiableSQLEntry)
		m.SqlEntry.Value[1] = 0x04
		// a single execution: once the count is validated the call lasts microseconds, too short for background allocation to matter
		f.sw.set(icReplay, op.method, m)
		r := run(func() { op.call(context.Background(), f) })
		f.sw.set(icPass, "", nil)
		if v := r.verdict("VerifyRow over a reply whose row value announces 256K columns", len(m.SqlEntry.Value)); v != "" {
			return true, v
		}
		if r.alloc > 4<<20 {
			return true, fmt.Sprintf("VerifyRow over a reply whose 40-byte row value announces 256K columns allocated %d MiB", r.alloc>>20)
		}
		return false, ""
	}}, {ID: kfF13, Present: func() (bool, string) {
		cfOnce.Do(func() { cf, cfErr = buildClientFixture() })
		if cfErr != nil {
			return false, ""
		}
		f := cf
		f.st.cur = f.states[0]
		op := clientOps()[4]
		f.sw.set(icCapture, op.method, nil)
		op.call(context.Background(), f)
		honest, _ := f.sw.captured.(*schema.VerifiableTx)
		f.sw.set(icPass, "", nil)
		if honest == nil || honest.Tx == nil || len(honest.Tx.Entries) == 0 {
			return false, ""
		}
		m := proto.Clone(honest).(*schema.VerifiableTx)
		m.Tx.Entries[0].Key = nil
		f.sw.set(icReplay, op.method, m)
		r := runStateful(func() { op.call(context.Background(), f) })
		f.sw.set(icPass, "", nil)
		if r.panicked {
			return true, "VerifiedTxByID over the honest reply with the first entry's key emptied panics: " + r.pval + " [" + r.stack + "]"
		}
		return false, ""
	}}, {ID: kfF11, Present: func() (bool, string) {
		cfOnce.Do(func() { cf, cfErr = buildClientFixture() })
		if cfErr != nil {
			return false, ""
		}
		f := cf
		f.st.cur = f.states[len(f.states)-1]
		for _, c := range []struct {
			name string
			msg  proto.Message
			op   clientOp
		}{
			{"VerifiedGet with an empty VerifiableEntry reply", &schema.VerifiableEntry{}, clientOps()[0]},
			{"VerifiedTxByID with an empty VerifiableTx reply", &schema.VerifiableTx{}, clientOps()[4]},
			{"VerifyRow with an empty VerifiableSQLEntry reply", &schema.VerifiableSQLEntry{PKIDs: []uint32{1}}, clientOps()[9]},
		} {
			f.sw.set(icReplay, c.op.method, c.msg)
			r := runStateful(func() { c.op.call(context.Background(), f) })
			f.sw.set(icPass, "", nil)
			if r.panicked {
				return true, c.name + " panics: " + r.pval + " [" + r.stack + "]"
			}
		}
		return false, ""
	}}}
}

// TestClientVerificationMutations: the Go client's Verified* operations over
// server replies mutated field by field (the server is real; a client-side
// interceptor swaps the reply).
func TestClientVerificationMutations(t *testing.T) {
	f := clientFix(t)
	ops := clientOps()
	ctx := context.Background()
	vk.Check(t, 6000, 120000, func(rt *rapid.T, c *vk.Case) {
		op := ops[rapid.IntRange(0, len(ops)-1).Draw(rt, "op")]
		trusted := rapid.IntRange(1, len(f.states)).Draw(rt, "trustedTx")
		f.st.mu.Lock()
		f.st.cur = proto.Clone(f.states[trusted-1]).(*schema.ImmutableState)
		f.st.sets = 0
		f.st.mu.Unlock()

		// phase 1: the honest reply for exactly this request and trusted state
		f.sw.set(icCapture, op.method, nil)
		err := op.call(ctx, f)
		honest := f.sw.captured
		f.sw.set(icPass, "", nil)
		if honest == nil {
			rt.Fatalf("%s: no reply captured (err=%v)", op.name, err)
		}
		if f.st.sets != 0 {
			rt.Fatalf("harness: state changed while capturing")
		}
		identity := rapid.IntRange(0, 19).Draw(rt, "identity") == 0
		var mutated proto.Message
		desc, single := "identity", false
		if identity {
			mutated = proto.Clone(honest)
		} else {
			mutated, desc, single = mutateProto(rt, honest)
		}
		c.Descf("%s trusted=%d | %s", op.name, trusted, desc)
		c.Label("op-" + op.name)

		hs, tx := replyHeaders(mutated)
		if excludedKnown(c, kfF11, requiredAbsent(mutated)) {
			return
		}
		badVer := false
		for _, h := range hs {
			badVer = badVer || hdrVersionBad(h)
		}
		if excludedKnown(c, kfF9, badVer) {
			return
		}
		if tx != nil && tx.Header != nil && excludedKnown(c, kfF10, int(tx.Header.Nentries) != len(tx.Entries)) {
			return
		}

		if se, ok := mutated.(*schema.VerifiableSQLEntry); ok && se.SqlEntry != nil && excludedKnown(c, kfF12, rowCountBomb(se.SqlEntry.Value)) {
			return
		}

		if vt, ok := mutated.(*schema.VerifiableTx); ok && vt.Tx != nil {
			emptyKey := false
			for _, e := range vt.Tx.Entries {
				emptyKey = emptyKey || len(e.Key) == 0
			}
			if excludedKnown(c, kfF13, emptyKey) {
				return
			}
		}

		// phase 2: the same operation sees the mutated reply
		f.sw.set(icReplay, op.method, mutated)
		var cerr error
		r := runStateful(func() { cerr = op.call(ctx, f) })
		f.sw.set(icPass, "", nil)
		dump := map[string]any{"op": op.name, "trustedTx": trusted, "mutation": desc, "reply": fmt.Sprintf("%v", mutated)}
		if m := r.verdict(op.name+" over a mutated reply", 1<<20); m != "" {
			c.Failf(rt, dump, "%s (mutation: %s)", m, desc)
		}
		f.st.mu.Lock()
		sets, cur := f.st.sets, f.st.cur
		f.st.mu.Unlock()
		if identity {
			if cerr != nil {
				c.Failf(rt, dump, "%s rejects the honest reply when it is replayed: %v", op.name, cerr)
			}
			c.Label("honest-reply-accepted")
		}
		if cerr != nil {
			c.Label("rejected")
			if sets != 0 {
				c.Failf(rt, dump, "%s returned %v but stored a new trusted state (tx %d): partial effect", op.name, cerr, cur.TxId)
			}
		} else {
			c.Label("accepted")
			if sets != 1 {
				c.Failf(rt, dump, "%s succeeded with %d state updates", op.name, sets)
			}
		}
		if single || identity || cerr == nil {
			c.NonTrivial()
		}
	})
}
