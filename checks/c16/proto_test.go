package c16

import (
	"context"
	"crypto/sha256"
	"fmt"
	"sync"
	"testing"

	"github.com/codenotary/immudb/embedded/store"
	"github.com/codenotary/immudb/pkg/api/schema"
	"pgregory.net/rapid"

	"verif/internal/vk"
)

const (
	kfF6  = "F6-protoconv-nil-submessage"
	kfF9  = "F9-txheader-alh-unknown-version-panics"
	kfF10 = "F10-txfromproto-nentries-mismatch"
)

// ---------------------------------------------------------------------------
// fixture: honest proofs of a real store, as protobuf messages

type proofPair struct {
	src, tgt       uint64
	srcAlh, tgtAlh [sha256.Size]byte
	dual           *schema.DualProof
	dualV2         *schema.DualProofV2
}

type txFix struct {
	id     uint64
	tx     *schema.Tx
	key    []byte
	value  []byte
	iproof *schema.InclusionProof
	eh     [sha256.Size]byte
	digest [sha256.Size]byte
}

type proofFixture struct {
	pairs []proofPair
	txs   []txFix
}

var (
	pfOnce sync.Once
	pf     *proofFixture
	pfErr  error
)

func proofs(t testing.TB) *proofFixture {
	pfOnce.Do(func() { pf, pfErr = buildProofs() })
	if pfErr != nil {
		t.Fatalf("proof fixture: %v", pfErr)
	}
	return pf
}

func buildProofs() (*proofFixture, error) {
	dir := vk.Dir()
	defer removeAll(dir)
	st, err := store.Open(dir, smallStoreOpts())
	if err != nil {
		return nil, err
	}
	defer st.Close()
	ctx := context.Background()
	const n = 9
	f := &proofFixture{}
	for i := 1; i <= n; i++ {
		tx, err := st.NewWriteOnlyTx(ctx)
		if err != nil {
			return nil, err
		}
		if i == 4 {
			md := store.NewTxMetadata()
			md.WithExtra([]byte("xtra"))
			tx.WithMetadata(md)
		}
		for e := 0; e < 1+i%3; e++ {
			var md *store.KVMetadata
			if i == 5 {
				md = store.NewKVMetadata()
				md.AsNonIndexable(true)
			}
			if err := tx.Set([]byte(fmt.Sprintf("key-%d-%d", i, e)), md, []byte(fmt.Sprintf("value-%d-%d", i, e))); err != nil {
				return nil, err
			}
		}
		if _, err := tx.Commit(ctx); err != nil {
			return nil, err
		}
	}
	hdrs := make([]*store.TxHeader, n+1)
	for i := 1; i <= n; i++ {
		h, err := st.ReadTxHeader(uint64(i), false, false)
		if err != nil {
			return nil, err
		}
		hdrs[i] = h
		holder := store.NewTx(64, 256)
		if err := st.ReadTx(uint64(i), false, holder); err != nil {
			return nil, err
		}
		e := holder.Entries()[0]
		ip, err := holder.Proof(e.Key())
		if err != nil {
			return nil, err
		}
		val, err := st.ReadValue(e)
		if err != nil {
			return nil, err
		}
		dg, err := h.TxEntryDigest()
		if err != nil {
			return nil, err
		}
		d, err := dg(e)
		if err != nil {
			return nil, err
		}
		f.txs = append(f.txs, txFix{id: uint64(i), tx: schema.TxToProto(holder), key: append([]byte(nil), e.Key()...), value: val,
			iproof: schema.InclusionProofToProto(ip), eh: h.Eh, digest: d})
	}
	for i := 1; i <= n; i++ {
		for j := i; j <= n; j++ {
			dp, err := st.DualProof(hdrs[i], hdrs[j])
			if err != nil {
				return nil, fmt.Errorf("DualProof(%d,%d): %w", i, j, err)
			}
			dp2, err := st.DualProofV2(hdrs[i], hdrs[j])
			if err != nil {
				return nil, fmt.Errorf("DualProofV2(%d,%d): %w", i, j, err)
			}
			p := proofPair{src: uint64(i), tgt: uint64(j), srcAlh: hdrs[i].Alh(), tgtAlh: hdrs[j].Alh(),
				dual: schema.DualProofToProto(dp), dualV2: schema.DualProofV2ToProto(dp2)}
			if !store.VerifyDualProof(schema.DualProofFromProto(p.dual), p.src, p.tgt, p.srcAlh, p.tgtAlh) {
				return nil, fmt.Errorf("honest dual proof (%d,%d) does not verify after the proto round trip", i, j)
			}
			if err := store.VerifyDualProofV2(schema.DualProofV2FromProto(p.dualV2), p.src, p.tgt, p.srcAlh, p.tgtAlh); err != nil {
				return nil, fmt.Errorf("honest dual proof v2 (%d,%d): %w", i, j, err)
			}
			f.pairs = append(f.pairs, p)
		}
	}
	return f, nil
}

// ---------------------------------------------------------------------------
// classes of the known findings

func hdrVersionBad(h *schema.TxHeader) bool { return h != nil && h.Version != 0 && h.Version != 1 }

func protoProbes() []vk.Probe {
	return []vk.Probe{
		{ID: kfF6, Present: func() (bool, string) {
			calls := []struct {
				name string
				f    func()
			}{
				{"schema.DualProofFromProto(&schema.DualProof{})", func() { schema.DualProofFromProto(&schema.DualProof{}) }},
				{"schema.DualProofV2FromProto(&schema.DualProofV2{})", func() { schema.DualProofV2FromProto(&schema.DualProofV2{}) }},
				{"schema.TxFromProto(&schema.Tx{})", func() { schema.TxFromProto(&schema.Tx{}) }},
				{"schema.InclusionProofFromProto(nil)", func() { schema.InclusionProofFromProto(nil) }},
				{"schema.TxHeaderFromProto(nil)", func() { schema.TxHeaderFromProto(nil) }},
				{"schema.LinearProofFromProto(nil)", func() { schema.LinearProofFromProto(nil) }},
			}
			for _, c := range calls {
				if r := run(c.f); r.panicked {
					return true, c.name + " panics: " + r.pval
				}
			}
			return false, ""
		}},
		{ID: kfF9, Present: func() (bool, string) {
			h := schema.TxHeaderFromProto(&schema.TxHeader{Id: 1, Version: 2, Nentries: 1})
			if r := runPure(func() { h.Alh() }); r.panicked {
				return true, "schema.TxHeaderFromProto(&schema.TxHeader{Id:1, Version:2, Nentries:1}).Alh() panics: " + r.pval
			}
			dp := &store.DualProof{SourceTxHeader: h, TargetTxHeader: h}
			if r := runPure(func() { store.VerifyDualProof(dp, 1, 1, [32]byte{}, [32]byte{}) }); r.panicked {
				return true, "store.VerifyDualProof over a header with Version=2 panics: " + r.pval
			}
			return false, ""
		}},
		{ID: kfF10, Present: func() (bool, string) {
			m := &schema.Tx{Header: &schema.TxHeader{Id: 1, Version: 1, Nentries: 2}, Entries: []*schema.TxEntry{{Key: []byte("k"), HValue: make([]byte, 32)}}}
			if r := runPure(func() { schema.TxFromProto(m) }); r.panicked {
				return true, "schema.TxFromProto(tx with header.nentries=2 and 1 entry) panics: " + r.pval + " [" + r.stack + "]"
			}
			return false, ""
		}},
	}
}

// excludedKnown: true when the case belongs to an active known finding (counted).
func excludedKnown(c *vk.Case, id string, inClass bool) bool {
	if !inClass {
		return false
	}
	c.Label("known-class-" + id)
	if vk.Excluded(id) {
		vk.CountExcluded(id)
		return true
	}
	return false
}

// TestProtoConvMutations: *FromProto + the store-level verifiers over mutated honest proof messages.
func TestProtoConvMutations(t *testing.T) {
	fx := proofs(t)
	vk.Check(t, 60000, 2500000, func(rt *rapid.T, c *vk.Case) {
		kind := rapid.SampledFrom([]string{"dual", "dual", "dualV2", "tx", "inclusion", "header", "txmd", "kvmd"}).Draw(rt, "kind")
		var desc string
		var single bool
		var r result
		deep := false // got past the conversion (into the verifier)
		switch kind {
		case "dual":
			p := fx.pairs[rapid.IntRange(0, len(fx.pairs)-1).Draw(rt, "pair")]
			m, d, s := mutateProto(rt, p.dual)
			desc, single = fmt.Sprintf("(%d,%d) %s", p.src, p.tgt, d), s
			c.Descf("dual %s", desc)
			if excludedKnown(c, kfF6, m.SourceTxHeader == nil || m.TargetTxHeader == nil || m.LinearProof == nil) {
				return
			}
			if excludedKnown(c, kfF9, hdrVersionBad(m.SourceTxHeader) || hdrVersionBad(m.TargetTxHeader)) {
				return
			}
			r = runPure(func() {
				dp := schema.DualProofFromProto(m)
				ok1 := store.VerifyDualProof(dp, p.src, p.tgt, p.srcAlh, p.tgtAlh)
				ok2 := false
				if dp != nil && dp.SourceTxHeader != nil && dp.TargetTxHeader != nil {
					// the way pkg/client calls it: ids and Alh taken from the reply itself
					ok2 = store.VerifyDualProof(dp, dp.SourceTxHeader.ID, dp.TargetTxHeader.ID, dp.SourceTxHeader.Alh(), dp.TargetTxHeader.Alh())
					deep = true
				}
				if ok1 {
					c.Label("verifies-against-trusted-state")
				}
				if ok2 {
					c.Label("verifies-self-consistently")
				}
			})
		case "dualV2":
			p := fx.pairs[rapid.IntRange(0, len(fx.pairs)-1).Draw(rt, "pair")]
			m, d, s := mutateProto(rt, p.dualV2)
			desc, single = fmt.Sprintf("(%d,%d) %s", p.src, p.tgt, d), s
			c.Descf("dualV2 %s", desc)
			if excludedKnown(c, kfF6, m.SourceTxHeader == nil || m.TargetTxHeader == nil) {
				return
			}
			if excludedKnown(c, kfF9, hdrVersionBad(m.SourceTxHeader) || hdrVersionBad(m.TargetTxHeader)) {
				return
			}
			r = runPure(func() {
				dp := schema.DualProofV2FromProto(m)
				store.VerifyDualProofV2(dp, p.src, p.tgt, p.srcAlh, p.tgtAlh)
				if dp != nil && dp.SourceTxHeader != nil && dp.TargetTxHeader != nil {
					store.VerifyDualProofV2(dp, dp.SourceTxHeader.ID, dp.TargetTxHeader.ID, dp.SourceTxHeader.Alh(), dp.TargetTxHeader.Alh())
					deep = true
				}
			})
		case "tx":
			tf := fx.txs[rapid.IntRange(0, len(fx.txs)-1).Draw(rt, "tx")]
			m, d, s := mutateProto(rt, tf.tx)
			desc, single = fmt.Sprintf("tx%d %s", tf.id, d), s
			c.Descf("tx %s", desc)
			if excludedKnown(c, kfF6, m.Header == nil) {
				return
			}
			if excludedKnown(c, kfF9, hdrVersionBad(m.Header)) {
				return
			}
			if excludedKnown(c, kfF10, m.Header != nil && int(m.Header.Nentries) != len(m.Entries)) {
				return
			}
			r = runPure(func() {
				tx := schema.TxFromProto(m)
				if tx == nil {
					return
				}
				deep = true
				h := tx.Header()
				h.Alh()
				h.Bytes()
				for _, e := range tx.Entries() {
					e.Key()
					e.Metadata()
					tx.Proof(e.Key())
				}
				tx.IndexOf(tf.key)
				if ip, err := tx.Proof(tf.key); err == nil {
					store.VerifyInclusion(ip, tf.digest, h.Eh)
				}
			})
		case "inclusion":
			tf := fx.txs[rapid.IntRange(0, len(fx.txs)-1).Draw(rt, "tx")]
			m, d, s := mutateProto(rt, tf.iproof)
			desc, single = fmt.Sprintf("tx%d %s", tf.id, d), s
			c.Descf("inclusion %s", desc)
			r = runPure(func() {
				ip := schema.InclusionProofFromProto(m)
				deep = true
				if store.VerifyInclusion(ip, tf.digest, tf.eh) {
					c.Label("verifies-against-trusted-state")
				}
			})
		case "header":
			tf := fx.txs[rapid.IntRange(0, len(fx.txs)-1).Draw(rt, "tx")]
			m, d, s := mutateProto(rt, tf.tx.Header)
			desc, single = fmt.Sprintf("tx%d %s", tf.id, d), s
			c.Descf("header %s", desc)
			if excludedKnown(c, kfF9, hdrVersionBad(m)) {
				return
			}
			r = runPure(func() {
				h := schema.TxHeaderFromProto(m)
				if h == nil {
					return
				}
				deep = true
				h.Alh()
				if b, err := h.Bytes(); err == nil {
					h2 := &store.TxHeader{}
					h2.ReadFrom(b)
				}
				schema.TxHeaderToProto(h)
			})
		case "txmd":
			m, d, s := mutateProto(rt, &schema.TxMetadata{TruncatedTxID: 3, Extra: []byte("abc")})
			desc, single = d, s
			c.Descf("txmd %s", desc)
			r = runPure(func() {
				md := schema.TxMetadataFromProto(m)
				deep = true
				if md != nil {
					md.Bytes()
					schema.TxMetadataToProto(md)
				}
			})
		case "kvmd":
			m, d, s := mutateProto(rt, &schema.KVMetadata{Deleted: true, Expiration: &schema.Expiration{ExpiresAt: 4000000000}, NonIndexable: true})
			desc, single = d, s
			c.Descf("kvmd %s", desc)
			r = runPure(func() {
				md := schema.KVMetadataFromProto(m)
				deep = true
				if md != nil {
					md.Bytes()
					schema.KVMetadataToProto(md)
				}
			})
		}
		if m := r.verdict(kind+" message: FromProto + verification", 1<<20); m != "" {
			c.Failf(rt, map[string]any{"kind": kind, "mutation": desc}, "%s (mutation: %s)", m, desc)
		}
		c.Label("kind-" + kind)
		if deep {
			c.Label("reached-verifier")
		}
		if deep || single {
			c.NonTrivial()
		}
	})
}
