package c16

import (
	"encoding/binary"
	"fmt"

	"pgregory.net/rapid"
)

// field kinds
const (
	kLen   = iota // big-endian length of a following region
	kCount        // number of following records
	kNum          // id / timestamp / offset / version
	kTag          // attribute code, message type, flag
	kHash         // digest
	kBytes        // opaque payload (key, value, metadata body)
)

type field struct {
	name string
	off  int
	n    int
	kind int
}

// record is a repeatable group of fields (an entry, an attribute, a log record).
type record struct {
	name     string
	from, to int
}

// layout is a valid encoding plus the map of its fields.
type layout struct {
	b    []byte
	f    []field
	recs []record
}

func (l *layout) add(name string, off, n, kind int) {
	l.f = append(l.f, field{name, off, n, kind})
}

func (l *layout) clone() []byte { return append([]byte(nil), l.b...) }

func getBE(b []byte) uint64 {
	var v uint64
	for _, x := range b {
		v = v<<8 | uint64(x)
	}
	return v
}

func putBE(b []byte, v uint64) {
	for i := len(b) - 1; i >= 0; i-- {
		b[i] = byte(v)
		v >>= 8
	}
}

type hostile struct {
	class string
	v     uint64
}

// hostileValues for a numeric field of width n holding v, with rem bytes
// following the field in the encoding.
func hostileValues(n int, v uint64, rem int) []hostile {
	max := uint64(1)<<(8*uint(n)) - 1
	if n == 8 {
		max = ^uint64(0)
	}
	hs := []hostile{
		{"0", 0}, {"1", 1}, {"2", 2}, {"v-1", v - 1}, {"v+1", v + 1}, {"v*2", v * 2}, {"v/2", v / 2},
		{"max", max}, {"max-1", max - 1}, {"max/2", max / 2}, {"max/2+1", max/2 + 1},
		{"rem", uint64(rem)}, {"rem+1", uint64(rem) + 1}, {"rem-1", uint64(rem) - 1}, {"rem-3", uint64(rem) - 3}, {"rem-4", uint64(rem) - 4},
		{"255", 255}, {"256", 256}, {"257", 257}, {"1024", 1024}, {"1025", 1025}, {"65535", 65535}, {"65536", 65536},
		{"1<<31", 1 << 31}, {"1<<32-1", 1<<32 - 1}, {"1<<24", 1 << 24}, {"1<<30", 1 << 30},
	}
	out := hs[:0]
	for _, h := range hs {
		h.v &= max
		out = append(out, h)
	}
	return out
}

func numericFields(l *layout) []int {
	var idx []int
	for i, f := range l.f {
		if (f.kind == kLen || f.kind == kCount || f.kind == kNum || f.kind == kTag) && f.n <= 8 {
			idx = append(idx, i)
		}
	}
	return idx
}

// mutateOnce applies one structure-aware mutation to the encoding b laid out
// as l (l.b is never modified). It returns the mutated bytes, the descriptor
// (field + class, no raw random values) and whether it was a single-field edit.
func mutateOnce(rt *rapid.T, l *layout, b []byte, tag string) ([]byte, string) {
	ops := []string{"set", "set", "set", "trunc", "trunc", "append", "flip", "rec", "resize", "zero", "setrand"}
	op := rapid.SampledFrom(ops).Draw(rt, tag+"op")
	sameShape := len(b) == len(l.b)
	switch op {
	case "set", "setrand":
		idx := numericFields(l)
		if len(idx) == 0 || !sameShape {
			return truncAt(rt, b, tag)
		}
		f := l.f[idx[rapid.IntRange(0, len(idx)-1).Draw(rt, tag+"field")]]
		v := getBE(b[f.off : f.off+f.n])
		if op == "setrand" {
			nv := rapid.Uint64().Draw(rt, tag+"rnd")
			putBE(b[f.off:f.off+f.n], nv)
			return b, fmt.Sprintf("set %s=random", f.name)
		}
		hs := hostileValues(f.n, v, len(b)-f.off-f.n)
		h := hs[rapid.IntRange(0, len(hs)-1).Draw(rt, tag+"hostile")]
		putBE(b[f.off:f.off+f.n], h.v)
		return b, fmt.Sprintf("set %s=%s", f.name, h.class)
	case "trunc":
		if !sameShape || len(l.f) == 0 {
			return truncAt(rt, b, tag)
		}
		f := l.f[rapid.IntRange(0, len(l.f)-1).Draw(rt, tag+"field")]
		d := rapid.SampledFrom([]int{-1, 0, 1, 2, 3}).Draw(rt, tag+"delta")
		at := f.off + d
		where := "start"
		if rapid.Bool().Draw(rt, tag+"end") {
			at = f.off + f.n + d - 1
			where = "end"
		}
		if at < 0 {
			at = 0
		}
		if at > len(b) {
			at = len(b)
		}
		return b[:at], fmt.Sprintf("trunc %s.%s%+d", f.name, where, d)
	case "append":
		k := rapid.SampledFrom([]int{1, 2, 3, 4, 5, 8, 33}).Draw(rt, tag+"k")
		fill := rapid.SampledFrom([]byte{0, 1, 0xFF, 0x80}).Draw(rt, tag+"fill")
		for i := 0; i < k; i++ {
			b = append(b, fill)
		}
		return b, fmt.Sprintf("append %dx%02x", k, fill)
	case "flip":
		if len(b) == 0 {
			return b, "flip-empty"
		}
		name := "?"
		at := rapid.IntRange(0, len(b)-1).Draw(rt, tag+"at")
		if sameShape && len(l.f) > 0 {
			f := l.f[rapid.IntRange(0, len(l.f)-1).Draw(rt, tag+"field")]
			if f.n > 0 {
				at = f.off + rapid.IntRange(0, f.n-1).Draw(rt, tag+"in")
				name = f.name
			}
		}
		b[at] ^= 1 << uint(rapid.IntRange(0, 7).Draw(rt, tag+"bit"))
		return b, "flip " + name
	case "zero":
		if !sameShape || len(l.f) == 0 {
			return truncAt(rt, b, tag)
		}
		f := l.f[rapid.IntRange(0, len(l.f)-1).Draw(rt, tag+"field")]
		fill := rapid.SampledFrom([]byte{0, 0xFF}).Draw(rt, tag+"fill")
		for i := f.off; i < f.off+f.n; i++ {
			b[i] = fill
		}
		return b, fmt.Sprintf("fill %s with %02x", f.name, fill)
	case "rec":
		if !sameShape || len(l.recs) == 0 {
			return truncAt(rt, b, tag)
		}
		ri := rapid.IntRange(0, len(l.recs)-1).Draw(rt, tag+"rec")
		r := l.recs[ri]
		kind := rapid.SampledFrom([]string{"dup", "del", "swap"}).Draw(rt, tag+"recop")
		switch kind {
		case "dup":
			nb := append([]byte(nil), b[:r.to]...)
			nb = append(nb, b[r.from:r.to]...)
			nb = append(nb, b[r.to:]...)
			return nb, "dup " + r.name
		case "del":
			nb := append([]byte(nil), b[:r.from]...)
			nb = append(nb, b[r.to:]...)
			return nb, "del " + r.name
		default:
			if ri+1 < len(l.recs) && l.recs[ri+1].from == r.to {
				r2 := l.recs[ri+1]
				nb := append([]byte(nil), b[:r.from]...)
				nb = append(nb, b[r2.from:r2.to]...)
				nb = append(nb, b[r.from:r.to]...)
				nb = append(nb, b[r2.to:]...)
				return nb, "swap " + r.name
			}
			nb := append([]byte(nil), b[:r.from]...)
			nb = append(nb, b[r.to:]...)
			return nb, "del " + r.name
		}
	case "resize":
		// change a length field and the region it frames consistently
		var lens []int
		for i, f := range l.f {
			if f.kind == kLen && i+1 < len(l.f) && l.f[i+1].off == f.off+f.n {
				lens = append(lens, i)
			}
		}
		if !sameShape || len(lens) == 0 {
			return truncAt(rt, b, tag)
		}
		i := lens[rapid.IntRange(0, len(lens)-1).Draw(rt, tag+"lenfield")]
		f, body := l.f[i], l.f[i+1]
		cur := int(getBE(l.b[f.off : f.off+f.n]))
		if cur != body.n {
			// the length frames more than the next field (e.g. header length): resize by cutting/adding at its end
			body = field{name: body.name, off: body.off, n: cur}
		}
		if body.off+body.n > len(b) {
			return truncAt(rt, b, tag)
		}
		nl := rapid.SampledFrom([]int{0, 1, 2, 3, 8, 9, 10, 11, 12, 20, 32, 33, 255, 256, 257, 258, 259, 268, 269, 1024, 1025, 4096, 4097, 65535}).Draw(rt, tag+"newlen")
		if f.n == 2 && nl > 65535 {
			nl = 65535
		}
		fill := rapid.SampledFrom([]byte{0, 1, 2, 3, 0xFF}).Draw(rt, tag+"fill")
		nb := append([]byte(nil), b[:body.off]...)
		for k := 0; k < nl; k++ {
			if k < body.n {
				nb = append(nb, b[body.off+k])
			} else {
				nb = append(nb, fill)
			}
		}
		if body.off+body.n <= len(b) {
			nb = append(nb, b[body.off+body.n:]...)
		}
		putBE(nb[f.off:f.off+f.n], uint64(nl))
		return nb, fmt.Sprintf("resize %s->%d fill %02x", f.name, nl, fill)
	}
	return b, "none"
}

func truncAt(rt *rapid.T, b []byte, tag string) ([]byte, string) {
	if len(b) == 0 {
		return b, "trunc-empty"
	}
	at := rapid.IntRange(0, len(b)-1).Draw(rt, tag+"truncAt")
	cls := "mid"
	switch {
	case at < 4:
		cls = "head"
	case at >= len(b)-4:
		cls = "tail"
	}
	return b[:at], "trunc " + cls
}

// mutate applies 1 (mostly) or 2..3 mutations.
func mutate(rt *rapid.T, l *layout) ([]byte, string, bool) {
	b := l.clone()
	n := rapid.SampledFrom([]int{1, 1, 1, 1, 2, 3}).Draw(rt, "nmut")
	desc := ""
	for i := 0; i < n; i++ {
		var d string
		b, d = mutateOnce(rt, l, b, fmt.Sprintf("m%d.", i))
		if i > 0 {
			desc += " + "
		}
		desc += d
	}
	return b, desc, n == 1
}

func be16(v int) []byte { var b [2]byte; binary.BigEndian.PutUint16(b[:], uint16(v)); return b[:] }
func be32(v int) []byte { var b [4]byte; binary.BigEndian.PutUint32(b[:], uint32(v)); return b[:] }
func be64(v uint64) []byte {
	var b [8]byte
	binary.BigEndian.PutUint64(b[:], v)
	return b[:]
}
