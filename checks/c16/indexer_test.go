package c16

import (
	"bytes"
	"context"
	"encoding/binary"
	"encoding/hex"
	"errors"
	"fmt"
	"strings"
	"sync"
	"testing"
	"time"

	"github.com/codenotary/immudb/embedded/sql"
	"github.com/codenotary/immudb/embedded/store"
	"pgregory.net/rapid"

	"verif/internal/vk"
)

// SQL rows stored in the KV store are decoded (a) by the secondary-index mapper
// inside the indexer goroutine and (b) by the row reader of every SELECT. The
// row value is written raw (store-level Set under the row key prefix, which is
// what ReplicateTx does for a replica and what an embedded user can do).

const (
	kfF24 = "F24-sql-index-mapper-short-row-value"
	kfF25 = "F25-sql-rowreader-colid-bounds"
)

type rowFixture struct {
	key   []byte // key of row id=1
	value []byte // its encoded value
}

var (
	rfOnce sync.Once
	rf     *rowFixture
	rfErr  error
)

func rowEngine() (*scratchEngineT, error) {
	dir := vk.Dir()
	st, err := store.Open(dir, sqlStoreOpts())
	if err != nil {
		removeAll(dir)
		return nil, err
	}
	e, err := sql.NewEngine(st, sql.DefaultOptions().WithPrefix([]byte("sql")))
	if err != nil {
		st.Close()
		removeAll(dir)
		return nil, err
	}
	s := &scratchEngineT{dir, st, e}
	ctx := context.Background()
	for _, q := range []string{
		`CREATE TABLE t (id INTEGER, name VARCHAR[20], n INTEGER, PRIMARY KEY id)`,
		`CREATE INDEX ON t(name)`,
		`INSERT INTO t (id, name, n) VALUES (1, 'one', 11)`,
	} {
		if _, _, err := e.Exec(ctx, nil, q, nil); err != nil {
			s.close()
			return nil, fmt.Errorf("fixture %q: %w", q, err)
		}
	}
	return s, nil
}

type scratchEngineT = scratchEngine

// findRow returns key and value of the row entry written by the last tx.
func findRow(st *store.ImmuStore) ([]byte, []byte, error) {
	holder := store.NewTx(256, 512)
	if err := st.ReadTx(st.TxCount(), false, holder); err != nil {
		return nil, nil, err
	}
	for _, e := range holder.Entries() {
		if bytes.HasPrefix(e.Key(), []byte("sqlR.")) {
			v, err := st.ReadValue(e)
			return append([]byte(nil), e.Key()...), v, err
		}
	}
	return nil, nil, errors.New("row entry not found")
}

func rowFix(t testing.TB) *rowFixture {
	rfOnce.Do(func() {
		eng, err := rowEngine()
		if err != nil {
			rfErr = err
			return
		}
		defer eng.close()
		k, v, err := findRow(eng.st)
		if err != nil {
			rfErr = err
			return
		}
		rf = &rowFixture{k, v}
	})
	if rfErr != nil {
		t.Fatalf("row fixture: %v", rfErr)
	}
	return rf
}

// childIndexRow: fresh engine, the raw row (value from the environment) under
// the key of id=2, then wait for the indexer and read the table both ways.
// The raw value is committed under the key of the existing row id=1.
func childIndexRow(valHex string) {
	val, err := hex.DecodeString(valHex)
	if err != nil {
		answer(false, "bad input", "")
		return
	}
	eng, err := rowEngine()
	if err != nil {
		answer(false, "fixture: "+err.Error(), "")
		return
	}
	defer eng.close()
	key, _, err := findRow(eng.st)
	if err != nil {
		answer(false, "fixture: "+err.Error(), "")
		return
	}
	// the raw value replaces row id=1 (an update: the indexer finds the previous version of the source key)
	ctx := context.Background()
	var firstErr error
	r := runStateful(func() {
		tx, err := eng.st.NewWriteOnlyTx(ctx)
		if err != nil {
			firstErr = err
			return
		}
		if err := tx.Set(key, nil, val); err != nil {
			firstErr = err
			return
		}
		hdr, err := tx.AsyncCommit(ctx) // Commit would wait for the indexer, which retries for ever on an entry its mapper rejects
		if err != nil {
			firstErr = err
			return
		}
		wctx, cancel := context.WithTimeout(ctx, time.Second)
		defer cancel()
		if err := eng.st.WaitForIndexingUpto(wctx, hdr.ID); err != nil {
			firstErr = fmt.Errorf("indexer stalled: %w", err) // by design: the mapper's error is retried; not a crash
		}
		for _, q := range []string{`SELECT id, name, n FROM t`, `SELECT id, name FROM t USE INDEX ON (name) WHERE name >= ''`, `SELECT COUNT(*) FROM t`} {
			qctx, qcancel := context.WithTimeout(ctx, 3*time.Second)
			rd, err := eng.e.Query(qctx, nil, q, nil)
			if err != nil {
				if firstErr == nil {
					firstErr = err
				}
				qcancel()
				continue
			}
			for i := 0; i < 100; i++ {
				if _, err := rd.Read(qctx); err != nil {
					if !errors.Is(err, sql.ErrNoMoreRows) && firstErr == nil {
						firstErr = err
					}
					break
				}
			}
			rd.Close()
			qcancel()
		}
	})
	es := ""
	if firstErr != nil {
		es = firstErr.Error()
	}
	answer(true, es, r.verdict("raw row + indexing + SELECT", len(val)))
}

// rowKnown mirrors the two decoders with explicit bounds. Columns of t: 1 id INTEGER, 2 name VARCHAR, 3 n INTEGER.
func rowKnown(v []byte) string {
	colType := map[uint32]sql.SQLValueType{1: sql.IntegerType, 2: sql.VarcharType, 3: sql.IntegerType}
	// (a) index mapper (engine.go indexEntryMapperFor.valueExtractor)
	mapper := func() bool {
		if len(v) < 4 {
			return true
		}
		cols := int(binary.BigEndian.Uint32(v))
		voff := 4
		for i := 0; i < cols; i++ {
			if len(v) < 4 {
				return false
			}
			if voff > len(v) || len(v)-voff < 4 {
				return true
			}
			id := binary.BigEndian.Uint32(v[voff:])
			voff += 4
			t, ok := colType[id]
			if !ok {
				if len(v)-voff < 4 {
					return true
				}
				voff += 4 + int(binary.BigEndian.Uint32(v[voff:]))
				continue
			}
			_, n, err := sql.DecodeValue(v[voff:], t)
			if err != nil {
				return false
			}
			voff += n
		}
		return false
	}
	if mapper() {
		return kfF24
	}
	// (b) row reader (row_reader.go)
	reader := func() bool {
		if len(v) < 4 {
			return false
		}
		cols := int(binary.BigEndian.Uint32(v))
		voff := 4
		for i := 0; i < cols; i++ {
			if len(v)-voff < 4 {
				return true
			}
			id := binary.BigEndian.Uint32(v[voff:])
			voff += 4
			t, ok := colType[id]
			if !ok {
				return false // id above maxColID: ErrCorruptedData
			}
			_, n, err := sql.DecodeValue(v[voff:], t)
			if err != nil {
				return false
			}
			voff += n
		}
		return false
	}
	if reader() {
		return kfF25
	}
	return ""
}

func rowProbes() []vk.Probe {
	mk := func(id string, val []byte, what string) vk.Probe {
		return vk.Probe{ID: id, Present: func() (bool, string) {
			cr := runChild("indexrow", map[string]string{"rowval": hex.EncodeToString(val)})
			if cr.died {
				return true, what + " KILLS THE PROCESS: " + cr.crash
			}
			if cr.verdict != "" {
				return true, what + ": " + cr.verdict
			}
			return false, ""
		}}
	}
	return []vk.Probe{
		mk(kfF24, []byte{0, 0}, "a 2-byte value committed under a row key of a table with a secondary index (indexer goroutine, sql.indexEntryMapperFor)"),
		// count says 2 columns, one is present: the mapper's DecodeValue fails cleanly (entry skipped?) or the reader runs out of bytes
		mk(kfF25, rowValue(2, col{1, be64(2)}), "a row value announcing 2 columns but holding 1 (SELECT, row reader)"),
	}
}

type col struct {
	id  uint32
	val []byte
}

func rowValue(count int, cols ...col) []byte {
	b := be32(count)
	for _, c := range cols {
		b = append(b, be32(int(c.id))...)
		b = append(b, be32(len(c.val))...)
		b = append(b, c.val...)
	}
	return b
}

// TestRawRowIndexingAndRead: mutated row values through the index mapper (background goroutine) and the row reader; child process per case.
func TestRawRowIndexingAndRead(t *testing.T) {
	fx := rowFix(t)
	vk.Check(t, 400, 6000, func(rt *rapid.T, c *vk.Case) {
		l := &layout{b: fx.value}
		l.add("count", 0, 4, kCount)
		i := 4
		for k := 0; i+8 <= len(fx.value); k++ {
			start := i
			n := int(binary.BigEndian.Uint32(fx.value[i+4:]))
			l.add(fmt.Sprintf("col%d.id", k), i, 4, kTag)
			l.add(fmt.Sprintf("col%d.len", k), i+4, 4, kLen)
			l.add(fmt.Sprintf("col%d.val", k), i+8, n, kBytes)
			i += 8 + n
			l.recs = append(l.recs, record{fmt.Sprintf("col%d", k), start, i})
		}
		val, desc, single := mutate(rt, l)
		c.Descf("%s", desc)
		known := rowKnown(val)
		if excludedKnown(c, known, known != "") {
			return
		}
		cr := runChild("indexrow", map[string]string{"rowval": hex.EncodeToString(val)})
		dump := map[string]any{"rowValue": hex.EncodeToString(val), "mutation": desc}
		if cr.died {
			c.Failf(rt, dump, "a raw row value (%s) KILLED THE PROCESS: %s", desc, cr.crash)
		}
		if cr.verdict != "" {
			c.Failf(rt, dump, "%s (row value mutation: %s)", cr.verdict, desc)
		}
		if strings.Contains(cr.err, "indexer stalled") {
			c.Label("indexer-stalled-on-mapper-error-(by-design)")
		}
		if cr.err != "" {
			c.Label("rejected-with-error")
		} else {
			c.Label("row-readable")
		}
		if single || cr.err == "" {
			c.NonTrivial()
		}
	})
}
