package c16

import (
	"bytes"
	"crypto/sha256"
	"encoding/binary"
	"fmt"
	"testing"

	"github.com/codenotary/immudb/embedded/store"
	"pgregory.net/rapid"

	"verif/internal/vk"
)

// known findings of the store-level byte parsers
const (
	kfF4  = "F4-txmetadata-extra-len-unbounded"
	kfF8  = "F8-txheader-readfrom-short-tail"
	kfF3a = "F3a-replicatetx-empty-truncation-flag"
	kfF3b = "F3b-replicatetx-one-byte-tail"
	kfF3c = "F3c-replicatetx-short-tail-after-kvmetadata"
)

const (
	maxExtraLen      = 256
	maxTxMetadataLen = 1 + 8 + 1 + 2 + maxExtraLen
	maxKVMetadataLen = 1 + 1 + 8 + 1
	minHdrLen        = 8 + 32 + 8 + 2 + 2 + 32 + 8 + 32
)

func storeProbes() []vk.Probe {
	return []vk.Probe{
		{ID: kfF4, Present: func() (bool, string) {
			if m := checkTxMetadata([]byte{1, 0xFF, 0xFF}, false); m != "" {
				return true, m
			}
			// an extra attribute of 257 bytes fits the overall limit and decodes, re-encoding it panics
			b := append([]byte{1, 0x01, 0x01}, make([]byte, 257)...)
			if m := checkTxMetadata(b, false); m != "" {
				return true, m
			}
			return false, ""
		}},
		{ID: kfF8, Present: func() (bool, string) {
			if m := checkTxHeader(f8Input(), false); m != "" {
				return true, m
			}
			return false, ""
		}},
	}
}

// f8Input: a version-1 header of exactly the minimum accepted length whose
// 68-byte metadata pushes Eh/BlTxID/BlRoot past the end.
func f8Input() []byte {
	var b []byte
	b = append(b, be64(2)...)          // ID
	b = append(b, make([]byte, 32)...) // PrevAlh
	b = append(b, be64(1)...)          // Ts
	b = append(b, be16(1)...)          // Version
	b = append(b, be16(68)...)         // mdLen
	b = append(b, 1, 0, 65)            // extra attribute, 65 bytes
	b = append(b, make([]byte, 65)...) //
	b = append(b, be32(1)...)          // NEntries
	return b                           // 124 bytes: nothing left for Eh, BlTxID, BlRoot
}

// ---------------------------------------------------------------------------
// reference framing of tx metadata (mirrors TxMetadata.ReadFrom with explicit bounds)

type mdClass struct {
	ok       bool   // reference says: decodes
	known    string // known finding this input runs into first ("" = none)
	hasTrunc bool   // carries the truncation attribute (non-client metadata)
	strict   bool   // well-formed by the strictest reading of the format (every extra <= maxExtraLen)
	oversize bool   // decodes, but holds an extra attribute longer than maxExtraLen (Bytes() panics: same finding)
	attrs    int
	pastTags bool // at least one attribute framed
}

func classifyTxMetadata(b []byte) mdClass {
	var c mdClass
	if len(b) > maxTxMetadataLen {
		return c
	}
	i := 0
	lastExtra := -1
	anyOversize := false
	for i != len(b) {
		code := b[i]
		i++
		switch code {
		case 0:
			if len(b)-i < 8 {
				return c
			}
			i += 8
			c.hasTrunc = true
		case 1:
			if len(b)-i < 2 {
				return c
			}
			n := int(binary.BigEndian.Uint16(b[i:]))
			if i+2+n > len(b) {
				c.known = kfF4 // declared length runs past the buffer
				return c
			}
			lastExtra = n
			anyOversize = anyOversize || n > maxExtraLen
			i += 2 + n
		default:
			return c
		}
		c.attrs++
		c.pastTags = true
	}
	if lastExtra > maxExtraLen {
		c.oversize = true
		c.known = kfF4 // decodes, but the value cannot be re-encoded (serialize slices a 258-byte array)
	}
	c.ok = true
	c.strict = !anyOversize
	return c
}

// checkTxMetadata runs TxMetadata.ReadFrom and, on success, every accessor.
// honorKnown: leave out inputs of a known-finding class when that finding is active.
func checkTxMetadata(b []byte, honorKnown bool) string {
	cl := classifyTxMetadata(b)
	if honorKnown && cl.known != "" && vk.Excluded(cl.known) {
		vk.CountExcluded(cl.known)
		return ""
	}
	var err error
	var again []byte
	r := runPure(func() {
		md := store.NewTxMetadata()
		err = md.ReadFrom(b)
		if err != nil {
			return
		}
		enc := md.Bytes()
		md.Extra()
		md.IsEmpty()
		md.HasExtraOnly()
		if md.HasTruncatedTxID() {
			md.GetTruncatedTxID()
		}
		md.Equal(md)
		md2 := store.NewTxMetadata()
		if e := md2.ReadFrom(enc); e != nil {
			panic(fmt.Sprintf("re-decoding the re-encoded value failed: %v (enc=%x)", e, enc))
		}
		again = md2.Bytes()
		if !bytes.Equal(enc, again) {
			panic(fmt.Sprintf("re-encoding is not stable: %x vs %x", enc, again))
		}
	})
	if m := r.verdict("TxMetadata.ReadFrom("+hexs(b)+")", len(b)); m != "" {
		return m
	}
	if cl.known == "" && cl.ok && cl.strict && err != nil {
		return fmt.Sprintf("TxMetadata.ReadFrom(%s): err=%v for a well-formed encoding", hexs(b), err)
	}
	if !cl.ok && cl.known == "" && err == nil {
		return fmt.Sprintf("TxMetadata.ReadFrom(%s) accepted an encoding that is not well-formed", hexs(b))
	}
	return ""
}

// ---------------------------------------------------------------------------
// tx metadata: valid encodings + layout

type mdSpec struct {
	trunc    bool
	truncID  uint64
	extraLen int // 0 = absent
}

func genMdSpec(rt *rapid.T, tag string) mdSpec {
	return mdSpec{
		trunc:    rapid.Bool().Draw(rt, tag+"trunc"),
		truncID:  rapid.SampledFrom([]uint64{1, 2, 255, 1 << 32, ^uint64(0)}).Draw(rt, tag+"truncID"),
		extraLen: rapid.SampledFrom([]int{0, 0, 1, 2, 7, 65, 100, 255, 256}).Draw(rt, tag+"extraLen"),
	}
}

func (s mdSpec) build() *store.TxMetadata {
	md := store.NewTxMetadata()
	if s.trunc {
		md.WithTruncatedTxID(s.truncID)
	}
	if s.extraLen > 0 {
		x := make([]byte, s.extraLen)
		for i := range x {
			x[i] = byte(i*7 + 1)
		}
		if err := md.WithExtra(x); err != nil {
			panic(err)
		}
	}
	return md
}

func (s mdSpec) String() string {
	return fmt.Sprintf("md{trunc=%v extra=%d}", s.trunc, s.extraLen)
}

// layoutTxMetadata maps a VALID metadata encoding at offset base of l.b.
func layoutTxMetadata(l *layout, prefix string, base, n int) {
	b := l.b
	i := base
	k := 0
	for i < base+n {
		start := i
		code := b[i]
		l.add(fmt.Sprintf("%sattr%d.code", prefix, k), i, 1, kTag)
		i++
		switch code {
		case 0:
			l.add(fmt.Sprintf("%sattr%d.truncTxID", prefix, k), i, 8, kNum)
			i += 8
		case 1:
			ln := int(binary.BigEndian.Uint16(b[i:]))
			l.add(fmt.Sprintf("%sattr%d.extraLen", prefix, k), i, 2, kLen)
			l.add(fmt.Sprintf("%sattr%d.extra", prefix, k), i+2, ln, kBytes)
			i += 2 + ln
		default:
			panic("layoutTxMetadata: not a valid encoding")
		}
		l.recs = append(l.recs, record{fmt.Sprintf("%sattr%d", prefix, k), start, i})
		k++
	}
}

func TestTxMetadataMutations(t *testing.T) {
	vk.Check(t, 60000, 3000000, func(rt *rapid.T, c *vk.Case) {
		spec := genMdSpec(rt, "")
		enc := spec.build().Bytes()
		l := &layout{b: enc}
		layoutTxMetadata(l, "", 0, len(enc))
		var b []byte
		var desc string
		single := false
		if len(enc) == 0 || rapid.IntRange(0, 9).Draw(rt, "crafted") == 0 {
			b, desc = craftedAttrBytes(rt, "c.")
			desc = "crafted " + desc
		} else {
			b, desc, single = mutate(rt, l)
		}
		c.Descf("%s | %s", spec, desc)
		cl := classifyTxMetadata(b)
		if m := checkTxMetadata(b, true); m != "" {
			c.Failf(rt, map[string]any{"input": fmt.Sprintf("%x", b)}, "%s", m)
		}
		switch {
		case cl.known != "":
			c.Label("known-class-" + cl.known)
		case cl.ok:
			c.Label("decodes")
		default:
			c.Label("rejected")
		}
		if cl.pastTags {
			c.Label("framed>=1-attribute")
		}
		if cl.pastTags || single {
			c.NonTrivial()
		}
	})
}

// craftedAttrBytes builds an attribute list from hostile pieces (codes, lengths).
func craftedAttrBytes(rt *rapid.T, tag string) ([]byte, string) {
	n := rapid.IntRange(0, 4).Draw(rt, tag+"n")
	var b []byte
	desc := ""
	for i := 0; i < n; i++ {
		code := rapid.SampledFrom([]byte{0, 1, 1, 2, 3, 0xFF}).Draw(rt, tag+"code")
		b = append(b, code)
		body := rapid.SampledFrom([]int{0, 1, 2, 3, 7, 8, 9, 10}).Draw(rt, tag+"body")
		lenv := rapid.SampledFrom([]int{0, 1, 2, 6, 7, 8, 255, 256, 257, 258, 265, 266, 0xFFFF}).Draw(rt, tag+"len")
		desc += fmt.Sprintf("[%d len=%d body=%d]", code, lenv, body)
		if code == 1 {
			b = append(b, be16(lenv)...)
			if rapid.Bool().Draw(rt, tag+"consistent") && lenv <= 300 {
				body = lenv
				desc += "c"
			}
		}
		for k := 0; k < body; k++ {
			b = append(b, byte(k))
		}
	}
	return b, desc
}

// ---------------------------------------------------------------------------
// tx header

type hdrSpec struct {
	id       uint64
	ts       int64
	version  int
	md       mdSpec
	nentries int
	blTxID   uint64
}

func genHdrSpec(rt *rapid.T) hdrSpec {
	s := hdrSpec{
		id:       rapid.SampledFrom([]uint64{1, 2, 3, 1000, 1 << 40}).Draw(rt, "id"),
		ts:       rapid.SampledFrom([]int64{0, 1, 1700000000, -1}).Draw(rt, "ts"),
		version:  rapid.IntRange(0, 1).Draw(rt, "version"),
		nentries: rapid.SampledFrom([]int{1, 2, 1024, 65535}).Draw(rt, "nentries"),
	}
	if s.version == 1 {
		s.md = genMdSpec(rt, "hdr.")
	}
	s.blTxID = s.id - 1
	if s.blTxID > 0 && rapid.Bool().Draw(rt, "blHalf") {
		s.blTxID /= 2
	}
	return s
}

func (s hdrSpec) String() string {
	return fmt.Sprintf("hdr{v%d idclass=%d n=%d %s}", s.version, bitsLen(s.id), s.nentries, s.md)
}

func bitsLen(v uint64) int {
	n := 0
	for v > 0 {
		n++
		v >>= 1
	}
	return n
}

func (s hdrSpec) build() *store.TxHeader {
	h := &store.TxHeader{ID: s.id, Ts: s.ts, Version: s.version, NEntries: s.nentries, BlTxID: s.blTxID}
	h.PrevAlh = sha256.Sum256([]byte("prev"))
	h.Eh = sha256.Sum256([]byte("eh"))
	h.BlRoot = sha256.Sum256([]byte("bl"))
	if s.version == 1 {
		h.Metadata = s.md.build()
	}
	return h
}

// layoutHeader maps a VALID header encoding of n bytes at base.
func layoutHeader(l *layout, prefix string, base int) int {
	b := l.b
	i := base
	l.add(prefix+"ID", i, 8, kNum)
	i += 8
	l.add(prefix+"PrevAlh", i, 32, kHash)
	i += 32
	l.add(prefix+"Ts", i, 8, kNum)
	i += 8
	l.add(prefix+"Version", i, 2, kNum)
	ver := binary.BigEndian.Uint16(b[i:])
	i += 2
	if ver == 0 {
		l.add(prefix+"NEntries16", i, 2, kCount)
		i += 2
	} else {
		mdLen := int(binary.BigEndian.Uint16(b[i:]))
		l.add(prefix+"mdLen", i, 2, kLen)
		i += 2
		l.add(prefix+"md", i, mdLen, kBytes)
		layoutTxMetadata(l, prefix+"md.", i, mdLen)
		i += mdLen
		l.add(prefix+"NEntries32", i, 4, kCount)
		i += 4
	}
	l.add(prefix+"Eh", i, 32, kHash)
	i += 32
	l.add(prefix+"BlTxID", i, 8, kNum)
	i += 8
	l.add(prefix+"BlRoot", i, 32, kHash)
	i += 32
	return i
}

type hdrClass struct {
	mdHasTrunc    bool
	ok            bool
	oversizeExtra bool   // metadata holds an oversize extra attribute: ReadFrom works, Bytes()/Alh() panic (F4)
	known         string // ReadFrom itself runs into this finding
	pastVer       bool   // got past the version switch (the prologue)
	nentries      int
	mdLen         int
	version       int
}

// classifyHeader mirrors TxHeader.ReadFrom with explicit bounds.
func classifyHeader(b []byte) hdrClass {
	var c hdrClass
	if len(b) < minHdrLen {
		return c
	}
	id := binary.BigEndian.Uint64(b)
	if id < 1 {
		return c
	}
	i := 8 + 32 + 8
	ver := int(binary.BigEndian.Uint16(b[i:]))
	c.version = ver
	i += 2
	switch ver {
	case 0:
		c.nentries = int(binary.BigEndian.Uint16(b[i:]))
		i += 2
	case 1:
		mdLen := int(binary.BigEndian.Uint16(b[i:]))
		i += 2
		if len(b) < i+mdLen+4 || mdLen > maxTxMetadataLen {
			return c
		}
		c.mdLen = mdLen
		if mdLen > 0 {
			mc := classifyTxMetadata(b[i : i+mdLen])
			if !mc.ok {
				c.known = mc.known
				return c
			}
			c.oversizeExtra = mc.oversize
			c.mdHasTrunc = mc.hasTrunc
			i += mdLen
		}
		c.nentries = int(binary.BigEndian.Uint32(b[i:]))
		i += 4
	default:
		return c
	}
	c.pastVer = true
	if c.nentries < 1 && !c.mdHasTrunc {
		// a tx without entries is only valid with non-client metadata (the truncation marker)
		return c
	}
	i += 32 // Eh is copied, short copies are silent
	if len(b) < i+8 {
		c.known = kfF8
		return c
	}
	bl := binary.BigEndian.Uint64(b[i:])
	if bl >= id {
		return c
	}
	c.ok = true
	return c
}

func checkTxHeader(b []byte, honorKnown bool) string {
	cl := classifyHeader(b)
	if cl.known == "" && cl.ok && cl.oversizeExtra {
		cl.known = kfF4
	}
	if honorKnown && cl.known != "" && vk.Excluded(cl.known) {
		vk.CountExcluded(cl.known)
		return ""
	}
	var err error
	r := runPure(func() {
		h := &store.TxHeader{}
		err = h.ReadFrom(b)
		if err != nil {
			return
		}
		enc, e := h.Bytes()
		if e != nil {
			panic(fmt.Sprintf("decoded header cannot be re-encoded: %v", e))
		}
		alh := h.Alh()
		h.TxEntryDigest()
		h2 := &store.TxHeader{}
		if e := h2.ReadFrom(enc); e != nil {
			panic(fmt.Sprintf("re-decoding the re-encoded header failed: %v (enc=%x)", e, enc))
		}
		if h2.Alh() != alh {
			panic("Alh changes over re-encode/re-decode")
		}
	})
	if m := r.verdict("TxHeader.ReadFrom("+hexs(b)+")", len(b)); m != "" {
		return m
	}
	// only the sound direction is asserted: what the reference framing rejects must not decode (the lenient
	// cases - a version-1 header one or two bytes short of BlRoot - may be accepted or refused)
	if cl.known == "" && !cl.ok && err == nil {
		return fmt.Sprintf("TxHeader.ReadFrom(%s) accepted an encoding that is not well-formed", hexs(b))
	}
	return ""
}

func TestTxHeaderMutations(t *testing.T) {
	vk.Check(t, 60000, 3000000, func(rt *rapid.T, c *vk.Case) {
		spec := genHdrSpec(rt)
		enc, err := spec.build().Bytes()
		if err != nil {
			rt.Fatalf("building a valid header: %v", err)
		}
		if m := checkTxHeader(enc, true); m != "" {
			c.Failf(rt, nil, "valid header: %s", m)
		}
		l := &layout{b: enc}
		layoutHeader(l, "", 0)
		b, desc, single := mutate(rt, l)
		c.Descf("%s | %s", spec, desc)
		cl := classifyHeader(b)
		if cl.known == "" && cl.ok && cl.oversizeExtra {
			cl.known = kfF4
		}
		if m := checkTxHeader(b, true); m != "" {
			c.Failf(rt, map[string]any{"input": fmt.Sprintf("%x", b)}, "%s", m)
		}
		switch {
		case cl.known != "":
			c.Label("known-class-" + cl.known)
		case cl.ok:
			c.Label("decodes")
		default:
			c.Label("rejected")
		}
		c.Label(fmt.Sprintf("base-v%d", spec.version))
		if cl.pastVer {
			c.Label("past-version-switch")
		}
		if cl.pastVer || single {
			c.NonTrivial()
		}
	})
}

// ---------------------------------------------------------------------------
// native fuzz targets (thorough tier; the seed corpus also runs in the quick tier)

func FuzzTxMetadataReadFrom(f *testing.F) {
	for _, s := range []mdSpec{{}, {trunc: true, truncID: 1}, {extraLen: 1}, {trunc: true, truncID: 7, extraLen: 256}, {extraLen: 100}} {
		f.Add(s.build().Bytes())
	}
	for _, s := range [][]byte{{1, 0xFF, 0xFF}, {1, 1, 1}, {0}, {0, 0, 0, 0, 0, 0, 0, 0}, {2}, {1, 0, 0, 1, 0, 0}, append([]byte{1, 1, 1}, make([]byte, 257)...)} {
		f.Add(s)
	}
	f.Fuzz(func(t *testing.T, b []byte) {
		if m := checkTxMetadata(b, true); m != "" {
			t.Fatal(m)
		}
	})
}

func FuzzTxHeaderReadFrom(f *testing.F) {
	for _, s := range []hdrSpec{
		{id: 1, version: 0, nentries: 1},
		{id: 2, ts: 1700000000, version: 1, nentries: 3, blTxID: 1},
		{id: 1000, version: 1, nentries: 1024, blTxID: 999, md: mdSpec{trunc: true, truncID: 5, extraLen: 65}},
		{id: 3, version: 1, nentries: 1, blTxID: 2, md: mdSpec{extraLen: 256}},
	} {
		b, err := s.build().Bytes()
		if err != nil {
			f.Fatal(err)
		}
		f.Add(b)
		f.Add(b[:len(b)-1])
	}
	f.Add(f8Input())
	f.Add(make([]byte, minHdrLen))
	f.Fuzz(func(t *testing.T, b []byte) {
		if m := checkTxHeader(b, true); m != "" {
			t.Fatal(m)
		}
	})
}
