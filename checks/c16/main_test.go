// C16 — decoders/parsers are total: malformed input gives an error, never a
// crash, a hang, an allocation bomb or a partial effect.
package c16

import (
	"fmt"
	"io"
	"os"
	"runtime"
	"runtime/metrics"
	"strings"
	"syscall"
	"testing"
	"time"

	"github.com/codenotary/immudb/embedded/logger"
	"github.com/codenotary/immudb/pkg/pgsql/server/pgmeta"

	"verif/internal/vk"
)

func TestMain(m *testing.M) {
	// pgsql: ReadRawMessage refuses frames above pgmeta.MaxMsgSize (a variable, 32 MiB by default) and ParseBindMsg
	// bounds every parameter with it. The same bound scaled down keeps one Bind evaluation at <= 8 MiB instead of 64.
	pgmeta.MaxMsgSize = 4 << 20
	if childMain() {
		return
	}
	vk.Main(m, vk.Config{
		Property: "C16",
		Rule: "every case is one input (or a short sequence of inputs) for one decoding entry point, produced by STRUCTURE-AWARE MUTATION of a valid " +
			"encoding written by the real encoder (every length/count/tag/id field set to hostile constants, truncation at and around every field " +
			"boundary, trailing bytes, record duplicate/delete/swap, consistent re-framing with illegal contents, bit flips) or, for SQL text, by token-level " +
			"mutation (same-lexical-class replacement, delete/dup/swap/splice, deep nesting, repetition) of 1811 statements taken from the repository's " +
			"own tests plus hand-written hostile ones; for protobuf replies by field-wise mutation through protoreflect (absent sub-messages, digests of " +
			"the wrong length, hostile integers, resized lists) passed through the wire format. The target runs in a child goroutine that recovers panics; oracle: returns (value,nil) " +
			"or (_,err) within 30 s and with < 64 MiB (+64x input) of heap allocation, a returned value survives its own accessors/re-encoding, and for " +
			"stateful targets (ReplicateTx, the Go client's Verified* calls, store/index/aht/appendable open) a rejected input leaves the component unchanged (same state, honest next " +
			"input still accepted). NON-TRIVIAL: the input passed the first validation step of the parser (it got past the prologue: e.g. header " +
			"parsed, file metadata accepted, SQL lexed+parsed, first record framed) or is a single-field mutation of a valid encoding; DISTINCT by " +
			"hash of (target, base encoding shape, mutated field, mutation class).",
		Assumptions: []string{
			"the decoders are called the way their real callers call them (payload slices of any length >= 0, maxLen arguments taken from a catalog: 1..64Ki)",
			"allocation is measured with runtime/metrics /gc/heap/allocs:bytes around the call; background goroutines of the same process allocate far less than the 64 MiB threshold during one call; a reading above the bound is confirmed by re-running pure decoders twice (minimum counts), stateful targets (ReplicateTx, open, client calls) use a 1 GiB bound instead",
			"liveness: a call is a hang only after 30 s of wall time AND 20 s of process CPU time (busy loop, gigabyte memset), or after 240 s whatever the CPU (deadlock); nothing is failed for being slow on a loaded machine",
			"ReplicateTx inputs whose header ID is ahead of the replica wait for the missing predecessor by design; they are called with a 150 ms context and must return an error",
			"pgmeta.MaxMsgSize (the frame/parameter size limit of the pgsql server, a package variable) is set to 4 MiB instead of 32 MiB for the whole run: same code paths, 8x less memory churn per Bind evaluation",
			"pgsql session read loop over net.Pipe is not driven (session type is unexported and needs a full server); its per-message parsers (fmessages.Parse*) are called with exactly the payloads ReadRawMessage can hand over (any length 0..MaxMsgSize)",
			"native fuzz targets run in the thorough tier only; quick tier replays their seed corpus",
			"decoders that immudb runs in background goroutines (the store's indexers incl. the SQL index-entry mapper, tbtree insert helpers) are exercised in a long-lived worker process (a copy of the test binary); the death of the worker is attributed to the request it was serving",
			"two SQL findings (F28, F29) are excluded by root-cause signature of the panic (they cannot be recognised from the SQL text without the parser); LPAD/RPAD/REPEAT statements are parsed but not executed while F29 is known",
			"execution time of SQL that parsed is not bounded by the property: an execution that does not finish is labelled, not failed; RECURSIVE / generate_series statements are parsed, not executed",
			"the indexer retrying for ever on an entry its mapper rejects (indexing stalls) is by design and only labelled",
			"not covered: pgsql session loop over a socket, document-layer id/field parsers, remote (S3) appendables, tbtree nodes reached only through compaction; MAX_TX_ENTRIES-class limits and the tbtree root-node size stay known findings without patch",
		},
		Probes: probes(),
	})
}

func probes() []vk.Probe {
	var ps []vk.Probe
	ps = append(ps, storeProbes()...)
	ps = append(ps, replicateProbes()...)
	ps = append(ps, protoProbes()...)
	ps = append(ps, bytesProbes()...)
	ps = append(ps, sqlProbes()[:1]...)
	if os.Getenv("VERIF_FUZZING") != "" {
		// native fuzzing workers only run the byte-parser targets
		return ps
	}
	ps = append(ps, clientProbes()...)
	ps = append(ps, diskProbes()...)
	ps = append(ps, rowProbes()...)
	ps = append(ps, sqlProbes()[1:]...)
	if os.Getenv("C16_PROBE_TIMES") != "" {
		for i := range ps {
			p := ps[i]
			ps[i].Present = func() (bool, string) {
				t0 := time.Now()
				ok, d := p.Present()
				fmt.Fprintf(os.Stderr, "PROBE %s present=%v %v\n", p.ID, ok, time.Since(t0))
				return ok, d
			}
		}
	}
	return ps
}

var quiet = logger.NewSimpleLogger("c16 ", io.Discard)

func removeAll(d string) { os.RemoveAll(d) }

// ---------------------------------------------------------------------------
// guarded execution

type result struct {
	panicked bool
	pval     string
	stack    string
	hung     bool
	alloc    uint64 // bytes of heap allocated while the call ran
	base     uint64 // allocation bound for an empty input (0 = allocBase)
}

var allocSample = []metrics.Sample{{Name: "/gc/heap/allocs:bytes"}}

func heapAllocs() uint64 {
	s := []metrics.Sample{{Name: "/gc/heap/allocs:bytes"}}
	metrics.Read(s)
	if s[0].Value.Kind() == metrics.KindUint64 {
		return s[0].Value.Uint64()
	}
	return 0
}

// Liveness: a call "hangs" when it has not returned after hangBound of wall
// time AND the process has burnt hangCPU of CPU time since it started (a busy
// loop / gigabyte memset), or after deadBound of wall time whatever the CPU
// (a deadlock). Wall time alone is not used: the machine may be oversubscribed.
const (
	hangBound = 30 * time.Second
	hangCPU   = 20 * time.Second
	deadBound = 240 * time.Second
)

func procCPU() time.Duration {
	var ru syscall.Rusage
	if err := syscall.Getrusage(syscall.RUSAGE_SELF, &ru); err != nil {
		return 0
	}
	return time.Duration(ru.Utime.Nano() + ru.Stime.Nano())
}

// run executes f in a child goroutine, turning a panic into a recorded result
// and a missing return within hangBound into hung=true.
func run(f func()) result {
	done := make(chan result, 1)
	a0 := heapAllocs()
	go func() {
		var r result
		defer func() {
			if p := recover(); p != nil {
				r.panicked = true
				r.pval = fmt.Sprint(p)
				buf := make([]byte, 6144)
				buf = buf[:runtime.Stack(buf, false)]
				r.stack = trimStack(string(buf))
			}
			done <- r
		}()
		f()
	}()
	t0, c0 := time.Now(), procCPU()
	t := time.NewTimer(hangBound)
	defer t.Stop()
	for {
		select {
		case r := <-done:
			r.alloc = heapAllocs() - a0
			return r
		case <-t.C:
			if time.Since(t0) >= deadBound || procCPU()-c0 >= hangCPU {
				return result{hung: true, stack: hungStack()}
			}
			t.Reset(2 * time.Second)
		}
	}
}

// hungStack returns the stack of the goroutine started by run that is still going.
func hungStack() string {
	buf := make([]byte, 4<<20)
	buf = buf[:runtime.Stack(buf, true)]
	gs := strings.Split(string(buf), "\n\n")
	// the goroutine started last by run is the one that is still going (older ones are leftovers of earlier hangs)
	for i := len(gs) - 1; i >= 0; i-- {
		g := gs[i]
		if strings.Contains(g, "c16.run.func1") {
			if len(g) > 3000 {
				g = g[:3000]
			}
			return g
		}
	}
	return ""
}

// runPure is run for targets without side effects: an allocation reading above
// the bound is confirmed by two more executions (the counter is process-wide, so
// a background goroutine can pollute a single reading); the smallest one counts.
func runPure(f func()) result {
	r := run(f)
	for i := 0; i < 2 && !r.panicked && !r.hung && r.alloc > allocBase; i++ {
		r2 := run(f)
		if r2.panicked || r2.hung {
			return r2
		}
		if r2.alloc < r.alloc {
			r = r2
		}
	}
	return r
}

// runStateful is run for targets with side effects (cannot be repeated): the
// allocation bound is 1 GiB so that background allocation never matters.
func runStateful(f func()) result {
	r := run(f)
	r.base = 1 << 30
	return r
}

// trimStack keeps the frames below the panic (the interesting ones).
func trimStack(s string) string {
	lines := strings.Split(s, "\n")
	out := []string{}
	seenPanic := false
	for i := 0; i < len(lines); i++ {
		l := lines[i]
		if strings.HasPrefix(l, "panic(") {
			seenPanic = true
			i++
			continue
		}
		if !seenPanic {
			continue
		}
		if strings.HasPrefix(l, "verif/") || strings.HasPrefix(l, "testing.") || strings.HasPrefix(l, "pgregory.net") {
			break
		}
		out = append(out, strings.TrimSpace(l))
		if len(out) >= 12 {
			break
		}
	}
	if len(out) == 0 {
		return s
	}
	return strings.Join(out, " <- ")
}

const allocBase = 64 << 20

// allocLimit is the per-call allocation bound for an input of n bytes.
func allocLimit(n int) uint64 { return allocBase + 64*uint64(n) }

func (r result) limit(n int) uint64 {
	if r.base != 0 {
		return r.base + 64*uint64(n)
	}
	return allocLimit(n)
}

// verdict turns a result into a failure message ("" = fine).
func (r result) verdict(what string, inputLen int) string {
	switch {
	case r.panicked:
		return fmt.Sprintf("%s PANICKED: %s  [%s]", what, r.pval, r.stack)
	case r.hung:
		return fmt.Sprintf("%s did not return (>= %s of wall time and >= %s of CPU time, or %s); it is at: %s", what, hangBound, hangCPU, deadBound, r.stack)
	case r.alloc > r.limit(inputLen):
		return fmt.Sprintf("%s allocated %d MiB for a %d-byte input (bound %d MiB)", what, r.alloc>>20, inputLen, r.limit(inputLen)>>20)
	}
	return ""
}

func hexs(b []byte) string {
	if len(b) > 600 {
		return fmt.Sprintf("%x…(%d bytes)", b[:600], len(b))
	}
	return fmt.Sprintf("%x", b)
}
