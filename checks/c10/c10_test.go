// C10 — the timed B-tree equals a multi-version ordered map; snapshots are immutable.
package c10

import (
	"errors"
	"fmt"
	"os"
	"path/filepath"
	"strings"
	"sync/atomic"
	"testing"
	"time"

	"github.com/codenotary/immudb/embedded/appendable"
	"github.com/codenotary/immudb/embedded/appendable/multiapp"

	"github.com/codenotary/immudb/embedded/tbtree"
	"pgregory.net/rapid"

	"verif/internal/vk"
)

const (
	kfBetween  = "K10a-getbetween-walks-past-own-history"
	kfRollback = "K10b-failed-insert-after-open-empties-tree"
	kfCleanup  = "K10c-cleanup-flush-breaks-open-readers-of-current-root"
	kfHReader  = "K10d-newhistoryreader-concurrent-map-write"
)

func TestMain(m *testing.M) {
	vk.Main(m, vk.Config{
		Property: "C10",
		Rule: "rapid-generated configurations (node size from the required minimum, key/value limits, cache bytes, flush/sync/buffer " +
			"thresholds, chunk size, cleanup %, snapshot limits) and operation sequences on a real on-disk tbtree (Insert, BulkInsert with " +
			"zero/explicit/mixed timestamps and repeated keys, IncreaseTs, Flush/FlushWith/Sync, Compact, close+reopen, Snapshot/" +
			"SnapshotMustIncludeTs, snapshot Set, held readers stepped between writer steps, point/bounded/history/prefix lookups, readers " +
			"over seek/end/inclusive/prefix/direction/offset/history/time-window) compared with a multi-version ordered-map model; " +
			"TestReaderSpecs: one query per case against fixed deep trees (flushed and unflushed versions); TestConcurrentReaders: goroutines " +
			"reading held snapshots while the writer inserts/flushes with cleanup/compacts. Non-trivial (TestTreeModel/TestConcurrentReaders): " +
			"the key count guarantees depth >= 3 and a held snapshot taken before a later flush-with-cleanup or compaction was read afterwards; " +
			"(TestReaderSpecs): the query has a non-empty answer or is a bounded/filtered miss on an existing key. Distinct by hash of the case descriptor.",
		Assumptions: []string{
			"a re-insert at the timestamp a key already has is generated with the same value only (the tree keeps the first one; the property does not say which one wins)",
			"GetWithPrefix neq is nil, below the prefix, or the first key with the prefix (the cases where 'other than neq' and 'greater than neq' coincide; production callers pass nil)",
			"reader Offset together with IncludeHistory, and Offset with ReadBetween, are not generated (what is skipped is not documented); ReadBetween is not called with initialTs > finalTs",
			"Reader.Reset is exercised for readers without history only (the way the store uses it)",
			"a snapshot is required to equal the tree state at SOME operation boundary whose logical time is >= the requested one (Snapshot() may legitimately reuse the last flushed root)",
			"bulks that violate the documented precondition (timestamps decreasing for one key inside a bulk) appear only in a dedicated rule that asserts: error returned, and the content is a state not older than the last flush",
			"after such a rejected bulk the case stops generating compactions (which folder a restart prefers after logical time moved backwards is not specified)",
			"depth is not observable through the API: 'depth >= 3' is a lower bound computed from node size and the smallest key/value present",
			"crash states, I/O errors and the shared-cache/onFlush options are out of scope here (C03/C09); options stored in metadata (node/key/value/file size) are kept across reopen",
			"TestConcurrentReaders uses one chunk per log: with tiny chunks a reader's read-ahead can open the next chunk file while the writer is creating it and fail with 'singleapp: corrupted metadata' (appendable-layer race, reported, not asserted here); chunk deletion under cleanup is covered single-threaded",
			"the opened-files caches of the three logs are configured larger than the number of chunks: with small caches multiapp.ReadAt returns a spurious 'key not found' under concurrent readers (a just-opened chunk is evicted before it is fetched back) - an appendable-layer defect reported under C17, not asserted here",
		},
		Probes: []vk.Probe{
			{ID: kfBetween, Present: probeBetween},
			{ID: kfRollback, Present: probeRollback},
			{ID: kfCleanup, Present: probeCleanup},
			{ID: kfHReader, Present: probeHReaderRace},
		},
	})
}

func probeOpts() *tbtree.Options {
	return tbtree.DefaultOptions().WithLogger(nolog{}).WithMaxKeySize(8).WithMaxValueSize(8).WithMaxNodeSize(128)
}

func put(t *tbtree.TBtree, k, v string, ts uint64) error {
	return t.BulkInsert([]*tbtree.KVT{{K: []byte(k), V: []byte(v), T: ts}})
}

// probeBetween: GetBetween(k, 0, 2) on a key whose versions are all newer returns a version of another key.
func probeBetween() (bool, string) {
	dir := vk.Dir()
	defer os.RemoveAll(dir)
	t, err := tbtree.Open(dir, probeOpts())
	if err != nil {
		return false, ""
	}
	defer t.Close()
	put(t, "j", "j1", 1)
	put(t, "j", "j2", 2)
	t.FlushWith(0, false)
	put(t, "k", "k3", 3)
	put(t, "k", "k4", 4)
	put(t, "k", "k5", 5)
	t.FlushWith(0, false)
	v, ts, hc, err := t.GetBetween([]byte("k"), 0, 2)
	if !errors.Is(err, tbtree.ErrKeyNotFound) {
		return true, fmt.Sprintf("j@1,j@2,flush,k@3,k@4,k@5,flush: GetBetween(k,0,2) = (%q, ts=%d, hc=%d, err=%v), want key not found", v, ts, hc, err)
	}
	return false, ""
}

// probeRollback: open an index with flushed content, insert, then a rejected bulk: the tree is reset to empty.
func probeRollback() (bool, string) {
	dir := vk.Dir()
	defer os.RemoveAll(dir)
	t, err := tbtree.Open(dir, probeOpts())
	if err != nil {
		return false, ""
	}
	put(t, "a", "a1", 1)
	t.Close()
	t, err = tbtree.Open(dir, probeOpts())
	if err != nil {
		return false, ""
	}
	defer t.Close()
	put(t, "b", "b2", 2)
	err = t.BulkInsert([]*tbtree.KVT{{K: []byte("c"), V: []byte("c5"), T: 5}, {K: []byte("c"), V: []byte("c4"), T: 4}})
	if err == nil {
		return false, ""
	}
	if _, _, _, gerr := t.Get([]byte("a")); gerr != nil {
		return true, fmt.Sprintf("a@1, close, reopen, b@2, rejected bulk [c@5,c@4]: Get(a) err=%v, Ts()=%d (flushed key gone; the next flush persists the loss)", gerr, t.Ts())
	}
	return false, ""
}

// probeCleanup: a reader opened on a snapshot of the current (unmodified) root fails after FlushWith(100, true).
func probeCleanup() (bool, string) {
	dir := vk.Dir()
	defer os.RemoveAll(dir)
	o := tbtree.DefaultOptions().WithLogger(nolog{}).WithMaxKeySize(8).WithMaxValueSize(8).WithMaxNodeSize(requiredNodeSize(8, 8)).
		WithCacheSize(1).WithFileSize(128)
	t, err := tbtree.Open(dir, o)
	if err != nil {
		return false, ""
	}
	defer t.Close()
	for i := 0; i < 40; i++ {
		t.Insert([]byte(fmt.Sprintf("k%03d", i)), []byte("v"))
	}
	t.FlushWith(0, true)
	s, err := t.Snapshot()
	if err != nil {
		return false, ""
	}
	defer s.Close()
	r, err := s.NewReader(tbtree.ReaderSpec{})
	if err != nil {
		return false, ""
	}
	defer r.Close()
	n := 0
	for ; n < 3; n++ {
		r.Read()
	}
	t.FlushWith(100, true)
	for {
		_, _, _, _, err := r.Read()
		if errors.Is(err, tbtree.ErrNoMoreEntries) {
			break
		}
		if err != nil {
			return true, fmt.Sprintf("40 keys, flush, Snapshot, reader reads 3 entries, FlushWith(100,true) with no insert in between: entry #%d fails with %v", n+1, err)
		}
		n++
	}
	if n != 40 {
		return true, fmt.Sprintf("reader returned %d of 40 entries after FlushWith(100,true)", n)
	}
	return false, ""
}

// blockingApp lets the probe hold a goroutine inside a snapshot read (which keeps the snapshot's read lock).
type blockingApp struct {
	appendable.Appendable
	gate    chan struct{} // closed = reads pass
	armed   *atomic.Bool
	entered chan struct{}
}

func (b *blockingApp) ReadAt(bs []byte, off int64) (int, error) {
	if b.armed.CompareAndSwap(true, false) {
		close(b.entered)
		<-b.gate
	}
	return b.Appendable.ReadAt(bs, off)
}

// probeHReaderRace: Snapshot.NewHistoryReader registers the reader in the snapshot's map while holding only the
// READ lock (two goroutines doing so on one snapshot die with "fatal error: concurrent map writes"). Pinned without
// a crash: a Get is parked inside the snapshot's read lock (blocked in the node log); NewHistoryReader completing
// meanwhile shows that it does not take the write lock.
func probeHReaderRace() (bool, string) {
	dir := vk.Dir()
	defer os.RemoveAll(dir)
	gate, entered := make(chan struct{}), make(chan struct{})
	armed := &atomic.Bool{}
	o := probeOpts().WithCacheSize(1).WithAppFactory(func(rootPath, subPath string, opts *multiapp.Options) (appendable.Appendable, error) {
		app, err := multiapp.Open(filepath.Join(rootPath, subPath), opts)
		if err != nil || !strings.HasPrefix(subPath, "nodes") {
			return app, err
		}
		return &blockingApp{Appendable: app, gate: gate, armed: armed, entered: entered}, nil
	})
	t, err := tbtree.Open(dir, o)
	if err != nil {
		return false, ""
	}
	defer t.Close()
	for i := 0; i < 30; i++ {
		put(t, fmt.Sprintf("k%02d", i), "v", 0)
	}
	s, err := t.Snapshot()
	if err != nil {
		return false, ""
	}
	defer s.Close()
	armed.Store(true)
	done := make(chan struct{})
	go func() {
		s.Get([]byte("k07")) // cache of 1 byte: must read a node, parks in ReadAt with the snapshot read-locked
		close(done)
	}()
	select {
	case <-entered:
	case <-done: // no node read happened: cannot tell
		armed.Store(false)
		close(gate)
		return false, ""
	}
	opened := make(chan struct{})
	go func() {
		hr, err := s.NewHistoryReader(&tbtree.HistoryReaderSpec{Key: []byte("k07"), ReadLimit: 1})
		close(opened)
		if err == nil {
			hr.Close()
		}
	}()
	present := false
	select {
	case <-opened:
		present = true
	case <-time.After(3 * time.Second):
	}
	close(gate)
	<-done
	if present {
		return true, "NewHistoryReader completed (writing s.readers / s.maxReaderID) while another goroutine held the snapshot's read lock inside Get"
	}
	<-opened
	return false, ""
}

// ---------------------------------------------------------------------------

type heldReader struct {
	r    *tbtree.Reader
	sp   rspec
	want []res
	pos  int
}

type heldSnap struct {
	s       *tbtree.Snapshot
	st      *state
	events  int    // cleanup/compaction events seen when it was taken
	setTs   uint64 // timestamp of local writes (Snapshot.Set)
	local   bool   // has local writes (its root is a private copy then)
	readers []*heldReader
}

type drv struct {
	rt   *rapid.T
	c    *vk.Case
	cfg  treeCfg
	dir  string
	tree *tbtree.TBtree

	cur    *state
	states map[uint64]*state // frozen state at every operation boundary, by logical time
	held   []*heldSnap
	pool   *keyPool
	ctr    int

	folders      map[uint64]bool // compaction targets that exist on disk
	compacted    *state          // state of the latest successful compaction since open
	flushedTs    uint64          // logical time of a state known to be flushed
	cntAtOpen    uint64
	snapSinceOpn bool
	noCompact    bool
	maxKeys      int

	events                                             int
	nFlushCleanup, nCompact, nReopen, nSnapReadAfterEv int
	nSnap, nSnapOlder, nDiscard, nRollback, nSet       int
	nHeldReaderSteps, nHeldReaderAfterEv               int
	oplog                                              []string
	concurrentOn                                       map[uint64]bool // states that goroutines are reading right now
}

func (d *drv) fail(format string, args ...any) {
	d.c.Failf(d.rt, map[string]any{"cfg": d.cfg, "modelTs": d.cur.ts, "keys": len(d.cur.m), "ops": d.oplog}, format, args...)
}

func (d *drv) logf(format string, args ...any) {
	if len(d.oplog) < 400 {
		d.oplog = append(d.oplog, fmt.Sprintf(format, args...))
	}
}

func (d *drv) open() {
	d.logf("open %+v", d.cfg)
	t, err := tbtree.Open(d.dir, d.cfg.opts())
	if err != nil {
		d.fail("Open: %v", err)
	}
	d.tree = t
	d.cntAtOpen, _ = t.SnapshotCount()
	d.snapSinceOpn = false
}

func (d *drv) boundary() {
	d.states[d.cur.ts] = d.cur.clone()
}

func (d *drv) checkTs(op string) {
	if got := d.tree.Ts(); got != d.cur.ts {
		d.fail("after %s: Ts()=%d, model %d", op, got, d.cur.ts)
	}
}

// noteFlushes: a flush that happened inside an insert is either before or after it.
func (d *drv) noteFlushes(before uint64, prevTs uint64) {
	after, _ := d.tree.SnapshotCount()
	if after > before && prevTs > d.flushedTs {
		d.flushedTs = prevTs
	}
}

func (d *drv) genBulk(n int) []kvt {
	rt := d.rt
	var out []kvt
	last := map[string]kvt{}
	base := d.cur.ts
	mode := rapid.SampledFrom([]string{"zero", "explicit", "mixed", "spread"}).Draw(rt, "tsMode")
	for i := 0; i < n; i++ {
		newPct := 60
		if len(d.cur.m) >= d.maxKeys {
			newPct = 0
		}
		var k []byte
		if len(out) > 0 && rapid.IntRange(0, 7).Draw(rt, "repeatInBulk") == 0 {
			k = out[rapid.IntRange(0, len(out)-1).Draw(rt, "repIdx")].K
		} else {
			k = d.pool.pick(rt, newPct)
		}
		d.ctr++
		e := kvt{K: k, V: mkVal(d.ctr, genValLen(rt, d.cfg.MaxVal))}
		switch mode {
		case "zero":
			e.Eff = base + 1
		case "explicit", "mixed":
			e.Eff = base + uint64(rapid.IntRange(1, 3).Draw(rt, "dTs"))
		case "spread":
			e.Eff = base + uint64(i) + 1
		}
		if p, ok := last[string(k)]; ok {
			// repeated key inside the bulk: later timestamp with a new value, or the same timestamp with the same value
			if rapid.Bool().Draw(rt, "sameTsAgain") {
				e.Eff, e.V = p.Eff, p.V
			} else if e.Eff <= p.Eff {
				e.Eff = p.Eff + 1
			}
		}
		e.T = e.Eff
		if e.Eff == base+1 && (mode == "zero" || (mode == "mixed" && rapid.Bool().Draw(rt, "asZero"))) {
			e.T = 0
		}
		last[string(k)] = e
		out = append(out, e)
	}
	return out
}

func toKVTs(b []kvt) []*tbtree.KVT {
	out := make([]*tbtree.KVT, len(b))
	for i, e := range b {
		out[i] = &tbtree.KVT{K: append([]byte(nil), e.K...), V: append([]byte(nil), e.V...), T: e.T}
	}
	return out
}

func (d *drv) opInsert() {
	newPct := 50
	if len(d.cur.m) >= d.maxKeys {
		newPct = 0
	}
	k := d.pool.pick(d.rt, newPct)
	d.ctr++
	v := mkVal(d.ctr, genValLen(d.rt, d.cfg.MaxVal))
	before, _ := d.tree.SnapshotCount()
	prev := d.cur.ts
	kk, vv := append([]byte(nil), k...), append([]byte(nil), v...)
	d.logf("Insert %s len(v)=%d", kx(k), len(v))
	if err := d.tree.Insert(kk, vv); err != nil {
		d.fail("Insert(%x,%x): %v", k, v, err)
	}
	scribble(kk) // the tree must have taken copies
	scribble(vv)
	d.cur.apply([]kvt{{K: k, V: v, Eff: d.cur.ts + 1}})
	d.boundary()
	d.noteFlushes(before, prev)
	d.c.Descf("I")
	d.checkTs("Insert")
}

func (d *drv) opBulk() {
	maxN := 12
	if vk.Thorough() {
		maxN = 30
	}
	n := rapid.IntRange(1, maxN).Draw(d.rt, "bulkN")
	b := d.genBulk(n)
	before, _ := d.tree.SnapshotCount()
	prev := d.cur.ts
	in := toKVTs(b)
	for _, e := range b {
		d.logf("  bulk %s len(v)=%d T=%d", kx(e.K), len(e.V), e.T)
	}
	d.logf("BulkInsert %d", len(b))
	if err := d.tree.BulkInsert(in); err != nil {
		d.fail("BulkInsert(%d entries, base ts %d): %v", len(b), prev, err)
	}
	for _, e := range in {
		scribble(e.K)
		scribble(e.V)
	}
	d.cur.apply(b)
	d.boundary()
	d.noteFlushes(before, prev)
	d.c.Descf("B%d", n)
	d.checkTs("BulkInsert")
}

func (d *drv) opIncreaseTs() {
	if rapid.IntRange(0, 3).Draw(d.rt, "badIncrease") == 0 {
		ts := uint64(rapid.IntRange(0, int(d.cur.ts)).Draw(d.rt, "oldTs"))
		if err := d.tree.IncreaseTs(ts); !errors.Is(err, tbtree.ErrIllegalArguments) {
			d.fail("IncreaseTs(%d) at ts %d: err=%v, want illegal arguments", ts, d.cur.ts, err)
		}
		d.checkTs("rejected IncreaseTs")
		return
	}
	before, _ := d.tree.SnapshotCount()
	prev := d.cur.ts
	ts := d.cur.ts + uint64(rapid.IntRange(1, 4).Draw(d.rt, "incBy"))
	d.logf("IncreaseTs %d", ts)
	if err := d.tree.IncreaseTs(ts); err != nil {
		d.fail("IncreaseTs(%d) at ts %d: %v", ts, d.cur.ts, err)
	}
	d.cur.ts = ts
	d.boundary()
	d.noteFlushes(before, prev)
	d.c.Descf("T")
	d.c.Label("op-increase-ts")
	d.checkTs("IncreaseTs")
}

// avoidK10c: known finding K10c — a flush with cleanup rewrites the unmodified current root in place, and what
// readers already opened on snapshots of that very root still point to is discarded. Exactly that class is left out:
// such readers are completed and closed before the flush; with concurrent readers the cleanup is skipped.
func (d *drv) avoidK10c() (skipCleanup bool) {
	if !vk.Excluded(kfCleanup) {
		return false
	}
	if d.concurrentOn != nil && d.concurrentOn[d.cur.ts] && d.cfg.FileSize < 1<<20 { // (single chunk: nothing is ever deleted)
		vk.CountExcluded(kfCleanup)
		d.c.Label("excluded-K10c")
		return true
	}
	for _, h := range d.held {
		if h.local || h.st.ts != d.cur.ts || len(h.readers) == 0 {
			continue
		}
		for _, hr := range h.readers {
			if msg := drain(hr.r, hr.sp, hr.want, hr.pos); msg != "" {
				d.fail("held reader on snapshot@%d (tree at %d): %s", h.st.ts, d.cur.ts, msg)
			}
			hr.r.Close()
			vk.CountExcluded(kfCleanup)
		}
		h.readers = nil
		d.c.Label("excluded-K10c")
	}
	return false
}

func (d *drv) opFlush() {
	kind := rapid.IntRange(0, 5).Draw(d.rt, "flushKind")
	var err error
	switch kind {
	case 0:
		if d.cfg.Cleanup > 0 && d.avoidK10c() {
			return
		}
		d.logf("Flush")
		_, _, err = d.tree.Flush()
		if d.cfg.Cleanup > 0 {
			d.events++
			d.nFlushCleanup++
		}
		d.c.Descf("F")
	case 1:
		d.logf("Sync")
		err = d.tree.Sync()
		d.c.Descf("Y")
	default:
		pct := rapid.SampledFrom([]float32{0, 1, 10, 50, 99, 100, 100}).Draw(d.rt, "pct")
		synced := rapid.IntRange(0, 2).Draw(d.rt, "synced") != 0
		if pct > 0 && d.avoidK10c() {
			pct = 0
		}
		first := firstChunk(liveNodesFolder(d.dir))
		d.logf("FlushWith %v %v", pct, synced)
		_, _, err = d.tree.FlushWith(pct, synced)
		if pct > 0 {
			d.events++
			d.nFlushCleanup++
			if synced && firstChunk(liveNodesFolder(d.dir)) > first {
				d.nDiscard++
			}
		}
		d.c.Descf("F%v%v", pct, synced)
	}
	if err != nil {
		d.fail("flush: %v", err)
	}
	d.flushedTs = d.cur.ts
	d.checkTs("flush")
}

func (d *drv) opCompact() {
	if d.noCompact {
		return
	}
	cnt, _ := d.tree.SnapshotCount()
	d.logf("Compact")
	ts, err := d.tree.Compact()
	switch {
	case cnt < uint64(d.cfg.CompThl):
		if !errors.Is(err, tbtree.ErrCompactionThresholdNotReached) {
			d.fail("Compact with %d stored snapshots (threshold %d): ts=%d err=%v", cnt, d.cfg.CompThl, ts, err)
		}
		d.c.Label("compact-below-threshold")
		return
	case err != nil:
		if d.folders[d.cur.ts] && strings.Contains(err.Error(), tbtree.ErrTargetPathAlreadyExists.Error()) {
			d.c.Label("compact-target-exists")
			d.flushedTs = d.cur.ts
			return
		}
		d.fail("Compact at ts %d: %v", d.cur.ts, err)
	}
	if ts != d.cur.ts {
		d.fail("Compact reported ts %d, the tree is at %d", ts, d.cur.ts)
	}
	d.folders[ts] = true
	d.compacted = d.cur.clone()
	d.flushedTs = d.cur.ts
	d.events++
	d.nCompact++
	d.c.Descf("C")
	d.checkTs("Compact")
}

func (d *drv) closeSnap(i int) {
	h := d.held[i]
	for _, hr := range h.readers {
		if msg := drain(hr.r, hr.sp, hr.want, hr.pos); msg != "" {
			d.fail("held reader on snapshot@%d (tree now at %d): %s", h.st.ts, d.cur.ts, msg)
		}
		hr.r.Close()
		d.noteSnapRead(h)
	}
	if msg := fullCheck(h.s, h.st); msg != "" {
		d.fail("snapshot@%d before Close (tree now at %d, %d cleanup/compaction events since it was taken): %s", h.st.ts, d.cur.ts, d.events-h.events, msg)
	}
	d.noteSnapRead(h)
	d.logf("close snapshot@%d", h.st.ts)
	if err := h.s.Close(); err != nil {
		d.fail("Snapshot.Close: %v", err)
	}
	d.held = append(d.held[:i], d.held[i+1:]...)
}

func (d *drv) noteSnapRead(h *heldSnap) {
	if d.events > h.events {
		d.nSnapReadAfterEv++
	}
}

func (d *drv) opReopen() {
	for len(d.held) > 0 {
		d.closeSnap(0)
	}
	d.logf("Close")
	if err := d.tree.Close(); err != nil {
		d.fail("Close: %v", err)
	}
	d.cfg.volatile(d.rt)
	d.open()
	if d.compacted != nil {
		// the compacted index is the one a restart loads: the state at the time Compact reported
		d.cur = d.compacted.clone()
		d.cur.sorted = nil
		d.folders = map[uint64]bool{d.compacted.ts: true}
		d.compacted = nil
		d.c.Label("reopen-after-compaction")
	}
	d.states = map[uint64]*state{}
	d.boundary()
	// the stored root carries the logical time of the last inserted entry; a logical time raised by IncreaseTs
	// comes back from the TIMESTAMP file on top of it. Both are states the tree was in with this very content.
	var maxVer uint64
	for _, vs := range d.cur.m {
		if t := vs[len(vs)-1].Ts; t > maxVer {
			maxVer = t
		}
	}
	if maxVer < d.cur.ts {
		alt := d.cur.clone()
		alt.ts = maxVer
		d.states[maxVer] = alt
	}
	d.flushedTs = maxVer
	d.nReopen++
	d.c.Descf("O")
	d.checkTs("reopen")
	d.checkTree("reopen")
}

// checkTree: complete comparison of the live tree with the model, through a synchronous snapshot.
func (d *drv) checkTree(when string) {
	s, err := d.tree.SyncSnapshot()
	if err != nil {
		d.fail("SyncSnapshot: %v", err)
	}
	msg := fullCheck(s, d.cur)
	s.Close()
	if msg != "" {
		d.fail("live tree after %s: %s", when, msg)
	}
}

func (d *drv) opSnapshot() {
	var req uint64
	switch rapid.IntRange(0, 4).Draw(d.rt, "snapKind") {
	case 0, 1:
		req = 0
	case 2:
		req = d.cur.ts
	case 3:
		req = uint64(rapid.IntRange(0, int(d.cur.ts)).Draw(d.rt, "snapTs"))
	case 4:
		req = d.cur.ts + uint64(rapid.IntRange(1, 3).Draw(d.rt, "future"))
	}
	before, _ := d.tree.SnapshotCount()
	var s *tbtree.Snapshot
	var err error
	d.logf("Snapshot req=%d held=%d", req, len(d.held))
	if req == 0 && rapid.Bool().Draw(d.rt, "plainSnapshot") {
		s, err = d.tree.Snapshot()
	} else {
		s, err = d.tree.SnapshotMustIncludeTs(req)
	}
	switch {
	case req > d.cur.ts:
		if !errors.Is(err, tbtree.ErrIllegalArguments) {
			d.fail("SnapshotMustIncludeTs(%d) at ts %d: err=%v, want illegal arguments", req, d.cur.ts, err)
		}
		return
	case len(d.held) >= d.cfg.MaxSnaps:
		if !errors.Is(err, tbtree.ErrorToManyActiveSnapshots) {
			d.fail("snapshot #%d with MaxActiveSnapshots=%d: err=%v", len(d.held)+1, d.cfg.MaxSnaps, err)
		}
		d.c.Label("snapshot-limit-hit")
		return
	case err != nil:
		d.fail("SnapshotMustIncludeTs(%d): %v", req, err)
	}
	d.snapSinceOpn = true
	sts := s.Ts()
	st := d.states[sts]
	if sts < req {
		d.fail("SnapshotMustIncludeTs(%d) returned a snapshot at ts %d", req, sts)
	}
	if st == nil {
		d.fail("SnapshotMustIncludeTs(%d) returned a snapshot at ts %d: the tree never was in a state with that logical time (now %d)", req, sts, d.cur.ts)
	}
	if after, _ := d.tree.SnapshotCount(); after > before || sts == d.cur.ts {
		d.flushedTs = sts
	}
	h := &heldSnap{s: s, st: st, events: d.events, setTs: sts + 1}
	d.held = append(d.held, h)
	d.nSnap++
	if sts < d.cur.ts {
		d.nSnapOlder++
	}
	if rapid.IntRange(0, 2).Draw(d.rt, "checkNow") == 0 {
		if msg := fullCheck(s, st); msg != "" {
			d.fail("fresh snapshot@%d (requested %d, tree at %d): %s", sts, req, d.cur.ts, msg)
		}
	}
	d.c.Descf("S%d", d.cur.ts-sts)
	d.checkTs("snapshot")
}

func (d *drv) pickHeld() *heldSnap {
	if len(d.held) == 0 {
		d.opSnapshot() // rules that need a snapshot take one first
	}
	if len(d.held) == 0 {
		return nil
	}
	return d.held[rapid.IntRange(0, len(d.held)-1).Draw(d.rt, "heldIdx")]
}

func (d *drv) opSnapSet() {
	h := d.pickHeld()
	if h == nil {
		return
	}
	// local write: visible in this snapshot only, at the snapshot's own next timestamp
	k := d.pool.pick(d.rt, 30)
	localTs := h.setTs
	if vs := h.st.m[string(k)]; len(vs) > 0 && vs[len(vs)-1].Ts >= localTs {
		return // already written locally (a second write at the same timestamp is not generated)
	}
	d.ctr++
	v := mkVal(d.ctr, genValLen(d.rt, d.cfg.MaxVal))
	d.logf("Set on snapshot@%d %s", h.st.ts, kx(k))
	if err := h.s.Set(append([]byte(nil), k...), append([]byte(nil), v...)); err != nil {
		d.fail("Snapshot.Set(%x): %v", k, err)
	}
	if len(h.readers) > 0 {
		// open readers keep their position inside nodes the local write replaces: their remaining output is not specified
		for _, hr := range h.readers {
			hr.r.Close()
		}
		h.readers = nil
	}
	// the frozen state is shared with the model's history: copy before the local change; logical time of the root moves too
	st := h.st.clone()
	st.sorted = nil
	st.apply([]kvt{{K: k, V: v, Eff: localTs}})
	st.ts = localTs
	h.st = st
	h.local = true
	d.nSet++
	d.c.Descf("W")
}

func (d *drv) opReadTree() {
	n := rapid.IntRange(1, 6).Draw(d.rt, "nReads")
	for i := 0; i < n; i++ {
		q := genQuery(d.rt, d.cur, d.cfg.MaxKey, false)
		if q.k10a(d.cur) && vk.Excluded(kfBetween) {
			vk.CountExcluded(kfBetween)
			d.c.Label("excluded-K10a")
			continue
		}
		if msg := runPoint(d.tree, d.cur, q, false); msg != "" {
			d.fail("live tree (ts %d): %s", d.cur.ts, msg)
		}
		d.c.Label("q-tree-" + q.Kind)
	}
	d.c.Descf("r%d", n)
}

func (d *drv) opReadSnap() {
	h := d.pickHeld()
	if h == nil {
		return
	}
	n := rapid.IntRange(1, 5).Draw(d.rt, "nReads")
	for i := 0; i < n; i++ {
		q := genQuery(d.rt, h.st, d.cfg.MaxKey, true)
		if q.k10a(h.st) && vk.Excluded(kfBetween) {
			vk.CountExcluded(kfBetween)
			d.c.Label("excluded-K10a")
			continue
		}
		if msg := runQuery(h.s, h.st, q); msg != "" {
			d.fail("snapshot@%d (tree at %d, %d cleanup/compaction events since it was taken): %s", h.st.ts, d.cur.ts, d.events-h.events, msg)
		}
		d.c.Label("q-snap-" + q.Kind)
		d.noteSnapRead(h)
	}
	d.c.Descf("s%d", n)
}

func (d *drv) opOpenReader() {
	if h := d.pickHeld(); h != nil {
		d.openReaderOn(h)
	}
}

func (d *drv) openReaderOn(h *heldSnap) {
	if len(h.readers) >= 3 {
		return
	}
	sp := genReaderSpec(d.rt, h.st, d.cfg.MaxKey)
	if h.st.k10aInRange(sp) && vk.Excluded(kfBetween) {
		vk.CountExcluded(kfBetween)
		return
	}
	r, err := h.s.NewReader(sp.spec())
	if err != nil {
		d.fail("NewReader%s: %v", sp, err)
	}
	h.readers = append(h.readers, &heldReader{r: r, sp: sp, want: h.st.scan(sp)})
	d.c.Descf("R")
}

func (d *drv) opStepReader() {
	h := d.pickHeld()
	if h != nil && len(h.readers) == 0 {
		d.openReaderOn(h)
	}
	if h == nil || len(h.readers) == 0 {
		return
	}
	hr := h.readers[rapid.IntRange(0, len(h.readers)-1).Draw(d.rt, "readerIdx")]
	k := rapid.IntRange(1, 4).Draw(d.rt, "steps")
	for i := 0; i < k && hr.pos < len(hr.want); i++ {
		got := readerNext(hr.r, hr.sp)
		if !sameRes(got, hr.want[hr.pos]) {
			d.fail("held reader%s on snapshot@%d entry #%d = %s, model %s (tree at %d)", hr.sp, h.st.ts, hr.pos, got, hr.want[hr.pos], d.cur.ts)
		}
		hr.pos++
		d.nHeldReaderSteps++
		if d.events > h.events {
			d.nHeldReaderAfterEv++
		}
		d.noteSnapRead(h)
	}
	d.c.Descf("n")
}

func (d *drv) opCloseSnap() {
	if len(d.held) == 0 {
		return
	}
	d.closeSnap(rapid.IntRange(0, len(d.held)-1).Draw(d.rt, "closeIdx"))
	d.c.Descf("X")
}

func (d *drv) opInvalid() {
	cur := d.cur.ts
	k := d.pool.pick(d.rt, 20)
	v := mkVal(1, 1)
	var err error
	var want error
	kind := rapid.IntRange(0, 5).Draw(d.rt, "invalidKind")
	switch kind {
	case 0:
		if cur == 0 {
			return
		}
		ts := uint64(rapid.IntRange(1, int(cur)).Draw(d.rt, "oldTs"))
		// a valid entry first: nothing of a rejected bulk may become visible
		other := d.pool.pick(d.rt, 50)
		err = d.tree.BulkInsert([]*tbtree.KVT{{K: other, V: mkVal(9, 1), T: cur + 1}, {K: k, V: v, T: ts}})
		want = tbtree.ErrIllegalArguments
	case 1:
		err = d.tree.Insert(nil, v)
		want = tbtree.ErrIllegalArguments
	case 2:
		err = d.tree.Insert(k, nil)
		want = tbtree.ErrIllegalArguments
	case 3:
		err = d.tree.Insert(make([]byte, d.cfg.MaxKey+1), v)
		want = tbtree.ErrorMaxKeySizeExceeded
	case 4:
		err = d.tree.Insert(k, make([]byte, d.cfg.MaxVal+1))
		want = tbtree.ErrorMaxValueSizeExceeded
	case 5:
		err = d.tree.BulkInsert(nil)
		want = tbtree.ErrIllegalArguments
	}
	if !errors.Is(err, want) {
		d.fail("invalid insert kind %d: err=%v, want %v", kind, err, want)
	}
	d.c.Label("op-invalid-insert")
	d.c.Descf("!%d", kind)
	d.checkTs("rejected insert")
	if rapid.IntRange(0, 2).Draw(d.rt, "checkAfterInvalid") == 0 {
		d.checkTree("rejected insert")
	}
}

// opRejectedBulk: the dedicated rule for a bulk that breaks the documented precondition half-way.
func (d *drv) opRejectedBulk() {
	cnt, _ := d.tree.SnapshotCount()
	if cnt == d.cntAtOpen && !d.snapSinceOpn && vk.Excluded(kfRollback) {
		// known finding K10b: without a flush or snapshot since Open the rollback target is an empty tree.
		// Leave exactly that class: flush first.
		vk.CountExcluded(kfRollback)
		d.c.Label("excluded-K10b")
		if _, _, err := d.tree.FlushWith(0, false); err != nil {
			d.fail("flush: %v", err)
		}
		d.flushedTs = d.cur.ts
	}
	k := d.pool.pick(d.rt, 50)
	b := []*tbtree.KVT{}
	for _, e := range d.genBulk(rapid.IntRange(0, 3).Draw(d.rt, "validPart")) {
		if string(e.K) != string(k) {
			b = append(b, &tbtree.KVT{K: e.K, V: e.V, T: e.T})
		}
	}
	b = append(b, &tbtree.KVT{K: k, V: mkVal(7, 1), T: d.cur.ts + 3}, &tbtree.KVT{K: k, V: mkVal(8, 1), T: d.cur.ts + 2})
	d.logf("rejected bulk (%d valid entries first) on %s", len(b)-2, kx(k))
	err := d.tree.BulkInsert(b)
	if !errors.Is(err, tbtree.ErrIllegalArguments) {
		d.fail("bulk with decreasing timestamps for one key: err=%v, want illegal arguments", err)
	}
	// the content must be a state the tree had at an operation boundary, not older than the last flush
	ts := d.tree.Ts()
	s, err := d.tree.SyncSnapshot()
	if err != nil {
		d.fail("SyncSnapshot: %v", err)
	}
	got, err := dumpState(s, ts)
	s.Close()
	if err != nil {
		d.fail("reading the tree after a rejected bulk: %v", err)
	}
	want := d.states[ts]
	if want == nil || !want.equalContent(got) {
		d.fail("after a rejected bulk the tree (ts %d, %d keys) is not in any state it had before (model ts %d, %d keys)", ts, len(got.m), d.cur.ts, len(d.cur.m))
	}
	if ts < d.flushedTs {
		d.fail("after a rejected bulk the tree is back at ts %d, older than flushed state ts %d: flushed content lost", ts, d.flushedTs)
	}
	if ts < d.cur.ts {
		d.c.Label("rollback-to-older-state")
	}
	d.cur = want.clone()
	d.cur.sorted = nil
	d.states = map[uint64]*state{}
	d.boundary()
	// keys that only existed in dropped states stay in the pool: they are simply new again
	d.noCompact = true
	d.nRollback++
	d.c.Descf("Z")
}

// TestTreeModel: stateful comparison of a real on-disk index with the multi-version map.
func TestTreeModel(t *testing.T) {
	base := vk.Dir()
	vk.Check(t, 3200, 48000, func(rt *rapid.T, c *vk.Case) {
		d := &drv{rt: rt, c: c, cfg: genCfg(rt), dir: filepath.Join(base, "t"), cur: newState(), states: map[uint64]*state{},
			folders: map[uint64]bool{0: true}}
		os.RemoveAll(d.dir)
		defer os.RemoveAll(d.dir)
		d.pool = newKeyPool(d.cfg.MaxKey)
		d.maxKeys = rapid.SampledFrom([]int{3, 12, 40, 60, 120, 120}).Draw(rt, "maxKeys")
		if vk.Thorough() && d.maxKeys == 120 && rapid.Bool().Draw(rt, "big") {
			d.maxKeys = 400
		}
		c.Descf("cfg=%+v maxKeys=%d", d.cfg, d.maxKeys)
		d.open()
		defer func() {
			for _, h := range d.held {
				for _, hr := range h.readers {
					hr.r.Close()
				}
				h.s.Close()
			}
			d.tree.Close()
		}()
		d.boundary()

		ops := []struct {
			w int
			f func()
		}{
			{8, d.opInsert}, {28, d.opBulk}, {3, d.opIncreaseTs}, {10, d.opFlush}, {4, d.opCompact}, {3, d.opReopen},
			{8, d.opSnapshot}, {2, d.opSnapSet}, {3, d.opCloseSnap}, {7, d.opReadTree}, {12, d.opReadSnap},
			{3, d.opOpenReader}, {8, d.opStepReader}, {1, d.opRejectedBulk}, {2, d.opInvalid},
		}
		var wheel []int
		for i, o := range ops {
			for j := 0; j < o.w; j++ {
				wheel = append(wheel, i)
			}
		}
		steps := rapid.IntRange(4, 70).Draw(rt, "steps")
		for i := 0; i < steps; i++ {
			ops[wheel[rapid.IntRange(0, len(wheel)-1).Draw(rt, "op")]].f()
		}

		// end of the case: every held snapshot still answers from its frozen state; the tree equals the model,
		// also after a restart (and after a restart that picks up the compacted index)
		deep := depthAtLeast3(d.cfg, d.cur)
		for len(d.held) > 0 {
			d.closeSnap(0)
		}
		d.checkTree("the sequence")
		d.opReopen()

		c.Descf("keys=%d vers=%d ts=%d", len(d.cur.m), d.cur.nvers, d.cur.ts)
		lab := func(on bool, l string) {
			if on {
				c.Label(l)
			}
		}
		lab(deep, "depth>=3")
		lab(d.cur.nvers > len(d.cur.m), "multi-version-keys")
		lab(d.nFlushCleanup > 0, "flush-with-cleanup")
		lab(d.nDiscard > 0, "nlog-chunks-discarded")
		lab(d.nCompact > 0, "compaction")
		lab(d.nReopen > 1, "reopen-mid-sequence")
		lab(d.nSnap > 0, "snapshot")
		lab(d.nSnapOlder > 0, "snapshot-of-older-state")
		lab(d.nSnapReadAfterEv > 0, "snapshot-read-after-cleanup-or-compaction")
		lab(d.nSet > 0, "snapshot-local-write")
		lab(d.nHeldReaderSteps > 0, "held-reader-stepped")
		lab(d.nHeldReaderAfterEv > 0, "held-reader-stepped-after-cleanup-or-compaction")
		lab(d.nRollback > 0, "rejected-bulk")
		lab(d.cfg.NodeSize == requiredNodeSize(d.cfg.MaxKey, d.cfg.MaxVal), "min-node-size")
		if deep && d.nSnapReadAfterEv > 0 {
			c.NonTrivial()
		}
	})
}
