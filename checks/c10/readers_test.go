// TestReaderSpecs: one generated query per case against fixed deep trees.
package c10

import (
	"fmt"
	"sync"
	"testing"

	"github.com/codenotary/immudb/embedded/tbtree"
	"pgregory.net/rapid"

	"verif/internal/vk"
)

type fixture struct {
	cfg   treeCfg
	tree  *tbtree.TBtree
	snaps []*tbtree.Snapshot // [0] a regular snapshot of an older, flushed state; [1] a synchronous snapshot of the live root
	sts   []*state
}

var (
	fixOnce sync.Once
	fixes   []*fixture
	fixErr  error
)

// detKey: deterministic keys with shared prefixes, 0x00/0xff bytes and all lengths up to maxKey.
func detKey(i, maxKey int) []byte {
	x := uint32(i)*2654435761 + 12345
	l := 1 + int(x>>7)%maxKey
	if maxKey > 6 && i%4 != 0 {
		l = 1 + int(x>>7)%6
	}
	k := make([]byte, l)
	for j := range k {
		x = x*1664525 + 1013904223
		k[j] = keyAlphabet[(x>>24)%uint32(len(keyAlphabet))]
	}
	return k
}

func buildFixture(cfg treeCfg, nKeys int) (*fixture, error) {
	f := &fixture{cfg: cfg}
	t, err := tbtree.Open(vk.Dir(), cfg.opts())
	if err != nil {
		return nil, err
	}
	f.tree = t
	cur := newState()
	seen := map[string]bool{}
	var keys [][]byte
	for i := 0; len(keys) < nKeys; i++ {
		k := detKey(i, cfg.MaxKey)
		if !seen[string(k)] {
			seen[string(k)] = true
			keys = append(keys, k)
		}
	}
	ctr := 0
	round := func(r int) error {
		// key i gets a version in round r when (i+r)%3 != 0 or r == 1: between 1 and ~6 versions per key
		var b []kvt
		flushB := func() error {
			if len(b) == 0 {
				return nil
			}
			if err := t.BulkInsert(toKVTs(b)); err != nil {
				return err
			}
			cur.apply(b)
			b = nil
			return nil
		}
		for i, k := range keys {
			if r != 1 && (i+r)%3 == 0 {
				continue
			}
			if r > 1 && i%7 == 0 {
				continue // single-version keys
			}
			ctr++
			vl := 1 + (ctr*5)%cfg.MaxVal
			if vl > 40 {
				vl = 40
			}
			b = append(b, kvt{K: k, V: mkVal(ctr, vl), T: 0, Eff: cur.ts + 1})
			if len(b) == 9 {
				if err := flushB(); err != nil {
					return err
				}
			}
		}
		return flushB()
	}
	steps := []func() error{
		func() error { return round(1) },
		func() error { return round(2) },
		func() error { _, _, err := t.FlushWith(0, false); return err },
		func() error { return round(3) },
		func() error { return round(4) },
		func() error { return round(5) },
		func() error { _, _, err := t.FlushWith(30, true); return err }, // history blocks with several entries
		func() error {
			s, err := t.SnapshotMustIncludeTs(cur.ts)
			if err != nil {
				return err
			}
			f.snaps = append(f.snaps, s)
			f.sts = append(f.sts, cur.clone())
			return nil
		},
		func() error { return round(6) },
		func() error { _, _, err := t.FlushWith(0, false); return err },
		func() error { return round(7) },
		func() error { return round(8) }, // rounds 7,8 stay in memory (several unflushed versions per key)
		func() error {
			s, err := t.SyncSnapshot() // holds the tree's read lock: nothing writes from here on
			if err != nil {
				return err
			}
			f.snaps = append(f.snaps, s)
			f.sts = append(f.sts, cur.clone())
			return nil
		},
	}
	for i, st := range steps {
		if err := st(); err != nil {
			return nil, fmt.Errorf("fixture step %d: %w", i, err)
		}
	}
	return f, nil
}

func fixtures() ([]*fixture, error) {
	fixOnce.Do(func() {
		n := 150
		if vk.Thorough() {
			n = 420
		}
		cfgs := []treeCfg{
			{MaxKey: 8, MaxVal: 8, NodeSize: requiredNodeSize(8, 8), Cache: 300, FileSize: 256},
			{MaxKey: 16, MaxVal: 32, NodeSize: requiredNodeSize(16, 32) + 64, Cache: 1 << 20, FileSize: 1024},
			{MaxKey: 40, MaxVal: 100, NodeSize: 4096, Cache: 1, FileSize: 1 << 20},
		}
		for _, c := range cfgs {
			c.FlushThld, c.SyncThld, c.MaxBuf, c.FlushBuf, c.MaxSnaps, c.CompThl = 1<<30, 1<<30, 1<<30, 4096, 10, 1
			f, err := buildFixture(c, n)
			if err != nil {
				fixErr = err
				return
			}
			fixes = append(fixes, f)
		}
	})
	return fixes, fixErr
}

func TestReaderSpecs(t *testing.T) {
	fs, err := fixtures()
	if err != nil {
		t.Fatalf("building the fixtures: %v", err)
	}
	// the fixtures must be what the model says before single queries mean anything
	for i, f := range fs {
		for j, s := range f.snaps {
			if msg := fullCheck(s, f.sts[j]); msg != "" {
				vk.ReportViolation("TestReaderSpecs-fixture", map[string]any{"fixture": i, "snapshot": j, "message": msg})
				t.Fatalf("fixture %d snapshot %d: %s", i, j, msg)
			}
		}
	}
	vk.Check(t, 100000, 2400000, func(rt *rapid.T, c *vk.Case) {
		fi := rapid.IntRange(0, len(fs)-1).Draw(rt, "fixture")
		si := rapid.IntRange(0, 1).Draw(rt, "snapshot")
		f := fs[fi]
		s, st := f.snaps[si], f.sts[si]
		q := genQuery(rt, st, f.cfg.MaxKey, true)
		c.Descf("fix=%d snap=%d %s", fi, si, q)
		if q.k10a(st) && vk.Excluded(kfBetween) {
			vk.CountExcluded(kfBetween)
			c.Label("excluded-K10a")
			return
		}
		if msg := runQuery(s, st, q); msg != "" {
			c.Failf(rt, map[string]any{"cfg": f.cfg, "snapshotTs": st.ts}, "fixture %d, snapshot %d (ts %d): %s", fi, si, st.ts, msg)
		}
		c.Label("q-" + q.Kind)
		nonEmpty := false
		switch q.Kind {
		case "get":
			nonEmpty = st.get(q.Key).Err == nil
		case "between":
			nonEmpty = len(st.m[string(q.Key)]) > 0
			if st.getBetween(q.Key, q.I, q.F).Err == nil {
				c.Label("between-hit")
			} else if nonEmpty {
				c.Label("between-miss-on-existing-key")
			}
		case "history", "hreader":
			nonEmpty = len(st.m[string(q.Key)]) > 0
			if q.Desc {
				c.Label("history-desc")
			}
		case "prefix":
			nonEmpty = st.getWithPrefix(q.Prefix, q.Neq).Err == nil
			if len(q.Neq) > 0 {
				c.Label("prefix-with-neq")
			}
		case "reader":
			n := len(st.scan(q.Sp))
			nonEmpty = n > 0
			lab := func(on bool, l string) {
				if on {
					c.Label(l)
				}
			}
			lab(n > 0, "reader-nonempty")
			lab(q.Sp.Desc, "reader-desc")
			lab(q.Sp.Hist, "reader-history")
			lab(q.Sp.Between, "reader-between")
			lab(len(q.Sp.Prefix) > 0, "reader-prefix")
			lab(len(q.Sp.Seek) > 0, "reader-seek")
			lab(len(q.Sp.End) > 0, "reader-end")
			lab(q.Sp.Offset > 0, "reader-offset")
			lab(q.ResetAfter >= 0, "reader-reset")
		}
		if si == 1 {
			c.Label("unflushed-root")
		}
		if nonEmpty {
			c.NonTrivial()
		}
	})
}
