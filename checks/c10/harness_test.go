// Shared harness for C10: configurations, key/value generators, queries and their comparison with the model.
package c10

import (
	"bytes"
	"errors"
	"fmt"
	"os"
	"path/filepath"
	"sort"
	"strings"
	"time"

	"github.com/codenotary/immudb/embedded/tbtree"
	"pgregory.net/rapid"
)

type nolog struct{}

func (nolog) Errorf(string, ...interface{})   {}
func (nolog) Warningf(string, ...interface{}) {}
func (nolog) Infof(string, ...interface{})    {}
func (nolog) Debugf(string, ...interface{})   {}
func (nolog) Close() error                    { return nil }

// ---------------------------------------------------------------------------
// configuration

type treeCfg struct {
	MaxKey, MaxVal, NodeSize int
	FlushThld, SyncThld      int
	MaxBuf, FlushBuf         int
	Cleanup                  float32
	MaxSnaps                 int
	Renew                    time.Duration
	Cache, FileSize, CompThl int
}

func requiredNodeSize(maxKey, maxVal int) int {
	a, b := 2*(29+maxKey), 31+maxKey+maxVal
	if a < b {
		return b
	}
	return a
}

func genCfg(rt *rapid.T) treeCfg {
	var c treeCfg
	c.MaxKey = rapid.SampledFrom([]int{3, 4, 8, 8, 16, 40}).Draw(rt, "maxKey")
	c.MaxVal = rapid.SampledFrom([]int{2, 4, 8, 8, 32, 100}).Draw(rt, "maxVal")
	extra := rapid.SampledFrom([]int{0, 0, 0, 1, 7, 30, 64, 64, 200, 1000}).Draw(rt, "nodeExtra")
	c.NodeSize = requiredNodeSize(c.MaxKey, c.MaxVal) + extra
	if rapid.IntRange(0, 19).Draw(rt, "defaultSizes") == 0 {
		c.MaxKey, c.MaxVal, c.NodeSize = tbtree.DefaultMaxKeySize, tbtree.DefaultMaxValueSize, tbtree.DefaultMaxNodeSize
	}
	// chunk size: small enough that cleanup really deletes chunk files, but bounded below so that a case never
	// needs more chunks than the (deliberately huge) opened-files caches can hold
	c.FileSize = rapid.SampledFrom([]int{128, 256, 512, 1024, 1 << 20}).Draw(rt, "fileSize")
	if c.FileSize < c.NodeSize/4 {
		c.FileSize = c.NodeSize / 4
	}
	c.volatile(rt)
	return c
}

// volatile (re)draws the options that may change between two openings of the same index.
func (c *treeCfg) volatile(rt *rapid.T) {
	c.FlushThld = rapid.SampledFrom([]int{1, 2, 3, 7, 20, 100000, 100000}).Draw(rt, "flushThld")
	c.SyncThld = c.FlushThld * rapid.SampledFrom([]int{1, 2, 5, 1000}).Draw(rt, "syncMul")
	c.MaxBuf = rapid.SampledFrom([]int{1, 40, 200, 1 << 22, 1 << 22}).Draw(rt, "maxBuf")
	c.FlushBuf = rapid.SampledFrom([]int{16, 64, 4096}).Draw(rt, "flushBuf")
	c.Cleanup = rapid.SampledFrom([]float32{0, 0, 5, 35, 100}).Draw(rt, "cleanupPct")
	c.MaxSnaps = rapid.SampledFrom([]int{1, 2, 4, 100}).Draw(rt, "maxSnaps")
	c.Renew = rapid.SampledFrom([]time.Duration{0, 0, 1, time.Hour}).Draw(rt, "renew")
	c.Cache = rapid.SampledFrom([]int{1, 70, 300, 2000, 1 << 20}).Draw(rt, "cache")
	c.CompThl = rapid.SampledFrom([]int{1, 1, 2, 3}).Draw(rt, "compThld")
}

func (c treeCfg) opts() *tbtree.Options {
	return tbtree.DefaultOptions().WithLogger(nolog{}).
		WithMaxKeySize(c.MaxKey).WithMaxValueSize(c.MaxVal).WithMaxNodeSize(c.NodeSize).
		WithFileSize(c.FileSize).WithFlushThld(c.FlushThld).WithSyncThld(c.SyncThld).
		WithMaxBufferedDataSize(c.MaxBuf).WithFlushBufferSize(c.FlushBuf).WithCleanupPercentage(c.Cleanup).
		WithMaxActiveSnapshots(c.MaxSnaps).WithRenewSnapRootAfter(c.Renew).WithCacheSize(c.Cache).
		WithCompactionThld(c.CompThl).WithDelayDuringCompaction(0).
		// the opened-files caches never fill: multiapp returns a spurious "key not found" when a chunk it has just
		// opened is evicted by a concurrent reader before it is fetched back (appendable layer, see C17)
		WithNodesLogMaxOpenedFiles(1 << 20).WithHistoryLogMaxOpenedFiles(1 << 20).WithCommitLogMaxOpenedFiles(1 << 20)
}

// depthAtLeast3 is a sound lower bound: more keys than two levels can hold with the smallest entries present.
func depthAtLeast3(c treeCfg, st *state) bool {
	if len(st.m) == 0 {
		return false
	}
	minK, minV := 1<<30, 1<<30
	for k, vs := range st.m {
		if len(k) < minK {
			minK = len(k)
		}
		if l := len(vs[len(vs)-1].V); l < minV {
			minV = l
		}
	}
	capLeaf := (c.NodeSize - 3) / (28 + minK + minV)
	capInner := (c.NodeSize - 3) / (26 + minK)
	return len(st.m) > capLeaf*capInner
}

// ---------------------------------------------------------------------------
// keys and values

var keyAlphabet = []byte{0x00, 0x01, 'a', 'b', 'c', 0x7f, 0xfe, 0xff}

func genKeyBytes(rt *rapid.T, maxLen int, label string) []byte {
	l := rapid.IntRange(1, maxLen).Draw(rt, label+"Len")
	if maxLen > 6 && rapid.IntRange(0, 3).Draw(rt, label+"Short") != 0 {
		l = rapid.IntRange(1, 6).Draw(rt, label+"Len2")
	}
	k := make([]byte, l)
	for i := range k {
		k[i] = keyAlphabet[rapid.IntRange(0, len(keyAlphabet)-1).Draw(rt, label+"B")]
	}
	return k
}

type keyPool struct {
	keys [][]byte
	seen map[string]bool
	max  int
}

func newKeyPool(maxLen int) *keyPool { return &keyPool{seen: map[string]bool{}, max: maxLen} }

// fresh makes a key that is new to the pool, often sharing a prefix with an existing one.
func (p *keyPool) fresh(rt *rapid.T) []byte {
	for try := 0; ; try++ {
		var k []byte
		if len(p.keys) > 0 && rapid.IntRange(0, 2).Draw(rt, "shareP") != 0 {
			base := p.keys[rapid.IntRange(0, len(p.keys)-1).Draw(rt, "baseKey")]
			cut := rapid.IntRange(0, len(base)).Draw(rt, "cut")
			k = append([]byte(nil), base[:cut]...)
			if room := p.max - len(k); room > 0 {
				suf := genKeyBytes(rt, room, "suf")
				if len(k) > 0 && len(suf) > 2 {
					suf = suf[:2]
				}
				k = append(k, suf...)
			}
		} else {
			k = genKeyBytes(rt, p.max, "key")
		}
		if try > 8 { // dense pool: fall back to a counter-based key
			k = []byte(fmt.Sprintf("%0*d", p.max, len(p.keys)))[:p.max]
		}
		if len(k) > 0 && !p.seen[string(k)] {
			p.seen[string(k)] = true
			p.keys = append(p.keys, k)
			return k
		}
		if try > 12 {
			return p.keys[0]
		}
	}
}

func (p *keyPool) pick(rt *rapid.T, newPct int) []byte {
	if len(p.keys) == 0 || rapid.IntRange(0, 99).Draw(rt, "newKey") < newPct {
		return p.fresh(rt)
	}
	return p.keys[rapid.IntRange(0, len(p.keys)-1).Draw(rt, "keyIdx")]
}

// mkVal: a value of the requested length that encodes ctr (unique as far as the length allows).
func mkVal(ctr, l int) []byte {
	v := make([]byte, l)
	x := ctr
	for i := range v {
		if i < 3 {
			v[i] = byte(x%251) + 1
			x /= 251
		} else {
			v[i] = byte(ctr*7 + i)
		}
	}
	return v
}

func genValLen(rt *rapid.T, maxVal int) int {
	switch rapid.IntRange(0, 5).Draw(rt, "valLenKind") {
	case 0:
		return 1
	case 1:
		return maxVal
	default:
		return rapid.IntRange(1, maxVal).Draw(rt, "valLen")
	}
}

// ---------------------------------------------------------------------------
// queries

type pointAPI interface {
	Get(key []byte) (value []byte, ts uint64, hc uint64, err error)
	GetBetween(key []byte, initialTs, finalTs uint64) (value []byte, ts uint64, hc uint64, err error)
	History(key []byte, offset uint64, descOrder bool, limit int) (tvs []tbtree.TimedValue, hCount uint64, err error)
	GetWithPrefix(prefix []byte, neq []byte) (key []byte, value []byte, ts uint64, hc uint64, err error)
}

type query struct {
	Kind        string // get | between | history | prefix | reader | hreader
	Key         []byte
	I, F        uint64
	Offset      uint64
	Desc        bool
	Limit       int
	Prefix, Neq []byte
	Sp          rspec
	ResetAfter  int // reader: call Reset after that many entries and start over (-1: never)
}

func (q query) String() string {
	switch q.Kind {
	case "get":
		return fmt.Sprintf("Get(%x)", q.Key)
	case "between":
		return fmt.Sprintf("GetBetween(%x,%d,%d)", q.Key, q.I, q.F)
	case "history":
		return fmt.Sprintf("History(%x,off=%d,desc=%v,limit=%d)", q.Key, q.Offset, q.Desc, q.Limit)
	case "prefix":
		return fmt.Sprintf("GetWithPrefix(%x,neq=%x)", q.Prefix, q.Neq)
	case "reader":
		return fmt.Sprintf("Reader%s reset@%d", q.Sp, q.ResetAfter)
	case "hreader":
		return fmt.Sprintf("HistoryReader(%x,off=%d,desc=%v,limit=%d)", q.Key, q.Offset, q.Desc, q.Limit)
	}
	return q.Kind
}

func scribble(b []byte) {
	for i := range b {
		b[i] ^= 0xA5
	}
}

// someKey: an existing key most of the time, otherwise a near miss.
func someKey(rt *rapid.T, st *state, maxKey int) []byte {
	ks := st.keys()
	if len(ks) == 0 || rapid.IntRange(0, 9).Draw(rt, "missKey") == 0 {
		return genKeyBytes(rt, maxKey, "qk")
	}
	k := []byte(ks[rapid.IntRange(0, len(ks)-1).Draw(rt, "qKeyIdx")])
	switch rapid.IntRange(0, 11).Draw(rt, "keyMut") {
	case 0:
		if len(k) > 1 {
			return append([]byte(nil), k[:len(k)-1]...)
		}
	case 1:
		if len(k) < maxKey {
			return append(append([]byte(nil), k...), keyAlphabet[rapid.IntRange(0, len(keyAlphabet)-1).Draw(rt, "app")])
		}
	}
	return append([]byte(nil), k...)
}

// someTs: a timestamp at/around a version of the key, or around the state's time.
func someTs(rt *rapid.T, st *state, key []byte) uint64 {
	vs := st.m[string(key)]
	var base uint64
	if len(vs) > 0 && rapid.IntRange(0, 4).Draw(rt, "tsFromVer") != 0 {
		base = vs[rapid.IntRange(0, len(vs)-1).Draw(rt, "verIdx")].Ts
	} else {
		base = uint64(rapid.IntRange(0, int(st.ts)+1).Draw(rt, "anyTs"))
	}
	d := rapid.SampledFrom([]int{0, 0, 0, -1, 1}).Draw(rt, "tsDelta")
	if d < 0 && base == 0 {
		d = 0
	}
	return uint64(int64(base) + int64(d))
}

// genWindow: a time window placed deliberately relative to the versions of key.
func genWindow(rt *rapid.T, st *state, key []byte) (uint64, uint64) {
	vs := st.m[string(key)]
	if len(vs) == 0 {
		a, b := someTs(rt, st, key), someTs(rt, st, key)
		if a > b {
			a, b = b, a
		}
		return a, b
	}
	first, last := vs[0].Ts, vs[len(vs)-1].Ts
	switch rapid.IntRange(0, 7).Draw(rt, "winKind") {
	case 0: // exactly one version
		t := vs[rapid.IntRange(0, len(vs)-1).Draw(rt, "winVer")].Ts
		return t, t
	case 1: // below the first version
		if first > 1 {
			f := uint64(rapid.IntRange(1, int(first)-1).Draw(rt, "winF"))
			return uint64(rapid.IntRange(0, int(f)).Draw(rt, "winI")), f
		}
	case 2: // above the last version
		return last + 1, last + uint64(rapid.IntRange(1, 3).Draw(rt, "winUp"))
	case 3: // in a gap between two versions
		if len(vs) > 1 {
			i := rapid.IntRange(0, len(vs)-2).Draw(rt, "gapIdx")
			if vs[i+1].Ts-vs[i].Ts > 1 {
				return vs[i].Ts + 1, vs[i+1].Ts - 1
			}
		}
	case 4: // from the beginning up to some version
		return 0, vs[rapid.IntRange(0, len(vs)-1).Draw(rt, "winVer")].Ts
	case 5: // everything
		return 0, st.ts + 1
	}
	a, b := someTs(rt, st, key), someTs(rt, st, key)
	if a > b {
		a, b = b, a
	}
	return a, b
}

func genBound(rt *rapid.T, st *state, maxKey int, label string) []byte {
	switch rapid.IntRange(0, 5).Draw(rt, label+"Kind") {
	case 0:
		return nil
	case 1:
		return genKeyBytes(rt, maxKey, label)
	default:
		return someKey(rt, st, maxKey)
	}
}

func genPrefix(rt *rapid.T, st *state, maxKey int) []byte {
	ks := st.keys()
	switch rapid.IntRange(0, 5).Draw(rt, "prefixKind") {
	case 0, 1:
		return nil
	case 2:
		return genKeyBytes(rt, min(maxKey, 3), "prefix")
	default:
		if len(ks) == 0 {
			return nil
		}
		k := ks[rapid.IntRange(0, len(ks)-1).Draw(rt, "prefKey")]
		return []byte(k[:rapid.IntRange(1, len(k)).Draw(rt, "prefLen")])
	}
}

func genReaderSpec(rt *rapid.T, st *state, maxKey int) rspec {
	sp := rspec{
		Seek:     genBound(rt, st, maxKey, "seek"),
		End:      genBound(rt, st, maxKey, "end"),
		Prefix:   genPrefix(rt, st, maxKey),
		InclSeek: rapid.Bool().Draw(rt, "inclSeek"),
		InclEnd:  rapid.Bool().Draw(rt, "inclEnd"),
		Desc:     rapid.Bool().Draw(rt, "desc"),
	}
	// make seek <= end in reading direction most of the time (otherwise the range is empty)
	if len(sp.Seek) > 0 && len(sp.End) > 0 && rapid.IntRange(0, 4).Draw(rt, "orderBounds") != 0 {
		c := bytes.Compare(sp.Seek, sp.End)
		if (!sp.Desc && c > 0) || (sp.Desc && c < 0) {
			sp.Seek, sp.End = sp.End, sp.Seek
		}
	}
	switch rapid.IntRange(0, 3).Draw(rt, "readMode") {
	case 0: // latest values, with an offset
		if rapid.Bool().Draw(rt, "withOffset") {
			sp.Offset = uint64(rapid.IntRange(0, 5).Draw(rt, "offset"))
		}
	case 1: // full history, offset 0 (offset+history is not documented: left out)
		sp.Hist = true
	case 2: // ReadBetween, offset 0
		sp.Between = true
		var k []byte
		if ks := st.keys(); len(ks) > 0 {
			k = []byte(ks[rapid.IntRange(0, len(ks)-1).Draw(rt, "tsKey")])
		}
		a, b := genWindow(rt, st, k)
		if rapid.IntRange(0, 5).Draw(rt, "unbounded") == 0 {
			a, b = 0, 0
		}
		sp.InitialTs, sp.FinalTs = a, b
	}
	return sp
}

func genQuery(rt *rapid.T, st *state, maxKey int, withReaders bool) query {
	kinds := []string{"get", "between", "between", "history", "history", "prefix"}
	if withReaders {
		kinds = append(kinds, "reader", "reader", "reader", "hreader")
	}
	q := query{Kind: rapid.SampledFrom(kinds).Draw(rt, "qKind"), ResetAfter: -1}
	switch q.Kind {
	case "get":
		q.Key = someKey(rt, st, maxKey)
	case "between":
		q.Key = someKey(rt, st, maxKey)
		q.I, q.F = genWindow(rt, st, q.Key)
		if q.I < q.F && rapid.IntRange(0, 19).Draw(rt, "inverted") == 0 {
			q.I, q.F = q.F, q.I
		}
		if rapid.IntRange(0, 9).Draw(rt, "zeroFinal") == 0 {
			q.I, q.F = 0, 0
		}
	case "history", "hreader":
		q.Key = someKey(rt, st, maxKey)
		n := len(st.m[string(q.Key)])
		q.Offset = uint64(rapid.IntRange(0, n+1).Draw(rt, "hOffset"))
		q.Desc = rapid.Bool().Draw(rt, "hDesc")
		q.Limit = rapid.SampledFrom([]int{1, 1, 2, 3, 10, 1000, 0}).Draw(rt, "hLimit")
	case "prefix":
		q.Prefix = genPrefix(rt, st, maxKey)
		if q.Prefix == nil {
			q.Prefix = someKey(rt, st, maxKey)
		}
		switch rapid.IntRange(0, 3).Draw(rt, "neqKind") {
		case 0: // neq below the prefix: no effect under either reading of "neq"
			if len(q.Prefix) > 1 {
				q.Neq = q.Prefix[:len(q.Prefix)-1]
			}
		case 1: // neq = first key with the prefix: "other than neq" == "greater than neq"
			if r := st.getWithPrefix(q.Prefix, nil); r.Err == nil {
				q.Neq = r.K
			}
		}
	case "reader":
		q.Sp = genReaderSpec(rt, st, maxKey)
		if !q.Sp.Hist && rapid.IntRange(0, 3).Draw(rt, "doReset") == 0 {
			q.ResetAfter = rapid.IntRange(0, 4).Draw(rt, "resetAfter")
		}
	}
	return q
}

// k10a reports whether the query belongs to the class of known finding K10a.
func (q query) k10a(st *state) bool {
	switch q.Kind {
	case "between":
		return st.inK10aClass(q.Key, q.I, q.F)
	case "reader":
		return st.k10aInRange(q.Sp)
	}
	return false
}

// runPoint executes a point query against the tree or a snapshot and compares it with the model state.
// It returns "" or a description of the mismatch (no testing.T here: also used from goroutines).
func runPoint(api pointAPI, st *state, q query, copied bool) string {
	switch q.Kind {
	case "get":
		v, ts, hc, err := api.Get(q.Key)
		got, want := res{V: v, Ts: ts, Hc: hc, Err: err}, st.get(q.Key)
		if !sameRes(got, want) {
			return fmt.Sprintf("%s = %s, model %s", q, got, want)
		}
		scribble(v)
	case "between":
		v, ts, hc, err := api.GetBetween(q.Key, q.I, q.F)
		got, want := res{V: v, Ts: ts, Hc: hc, Err: err}, st.getBetween(q.Key, q.I, q.F)
		if !sameRes(got, want) {
			return fmt.Sprintf("%s = %s, model %s", q, got, want)
		}
		if copied {
			scribble(v)
		}
	case "history":
		tvs, n, err := api.History(q.Key, q.Offset, q.Desc, q.Limit)
		want, wn, werr := st.history(q.Key, q.Offset, q.Desc, q.Limit)
		if werr != nil || err != nil {
			if werr == nil || err == nil || !errors.Is(err, werr) {
				return fmt.Sprintf("%s: err=%v, model err=%v", q, err, werr)
			}
			return ""
		}
		if n != wn || len(tvs) != len(want) {
			return fmt.Sprintf("%s: %d values of %d, model %d of %d", q, len(tvs), n, len(want), wn)
		}
		for i := range want {
			if tvs[i].Ts != want[i].Ts || !bytes.Equal(tvs[i].Value, want[i].V) {
				return fmt.Sprintf("%s: #%d = (%x,%d), model (%x,%d)", q, i, tvs[i].Value, tvs[i].Ts, want[i].V, want[i].Ts)
			}
		}
	case "prefix":
		k, v, ts, hc, err := api.GetWithPrefix(q.Prefix, q.Neq)
		got, want := res{K: k, V: v, Ts: ts, Hc: hc, Err: err}, st.getWithPrefix(q.Prefix, q.Neq)
		if !sameRes(got, want) {
			return fmt.Sprintf("%s = %s, model %s", q, got, want)
		}
		scribble(v)
	}
	return ""
}

// readerNext reads one entry the way the spec says.
func readerNext(r *tbtree.Reader, sp rspec) res {
	var k, v []byte
	var ts, hc uint64
	var err error
	if sp.Between {
		k, v, ts, hc, err = r.ReadBetween(sp.InitialTs, sp.FinalTs)
	} else {
		k, v, ts, hc, err = r.Read()
	}
	out := res{K: append([]byte(nil), k...), V: append([]byte(nil), v...), Ts: ts, Hc: hc, Err: err}
	scribble(k) // returned slices are the caller's: overwriting them must not change the index
	scribble(v)
	return out
}

func drain(r *tbtree.Reader, sp rspec, want []res, from int) string {
	for i := from; ; i++ {
		got := readerNext(r, sp)
		if errors.Is(got.Err, tbtree.ErrNoMoreEntries) {
			if i != len(want) {
				return fmt.Sprintf("Reader%s ended after %d entries, model has %d (next %s)", sp, i, len(want), want[i])
			}
			return ""
		}
		if got.Err != nil {
			return fmt.Sprintf("Reader%s entry #%d: unexpected error %v", sp, i, got.Err)
		}
		if i >= len(want) {
			return fmt.Sprintf("Reader%s returned extra entry #%d %s, model has %d", sp, i, got, len(want))
		}
		if !sameRes(got, want[i]) {
			return fmt.Sprintf("Reader%s entry #%d = %s, model %s", sp, i, got, want[i])
		}
	}
}

func runQuery(s *tbtree.Snapshot, st *state, q query) string {
	switch q.Kind {
	case "reader":
		r, err := s.NewReader(q.Sp.spec())
		if err != nil {
			return fmt.Sprintf("NewReader%s: %v", q.Sp, err)
		}
		defer r.Close()
		want := st.scan(q.Sp)
		if q.ResetAfter >= 0 {
			for i := 0; i < q.ResetAfter && i < len(want); i++ {
				if got := readerNext(r, q.Sp); !sameRes(got, want[i]) {
					return fmt.Sprintf("Reader%s entry #%d = %s, model %s", q.Sp, i, got, want[i])
				}
			}
			if err := r.Reset(); err != nil {
				return fmt.Sprintf("Reader.Reset: %v", err)
			}
		}
		return drain(r, q.Sp, want, 0)
	case "hreader":
		hr, err := s.NewHistoryReader(&tbtree.HistoryReaderSpec{Key: q.Key, Offset: q.Offset, DescOrder: q.Desc, ReadLimit: q.Limit})
		if err != nil {
			return fmt.Sprintf("NewHistoryReader: %v", err)
		}
		defer hr.Close()
		_, _, werr := st.history(q.Key, q.Offset, q.Desc, q.Limit)
		var all []tbtree.TimedValue
		for round := 0; ; round++ {
			tvs, err := hr.Read()
			if round == 0 && werr != nil {
				if err == nil || !errors.Is(err, werr) {
					return fmt.Sprintf("%s: first Read err=%v, model err=%v", q, err, werr)
				}
				return ""
			}
			if errors.Is(err, tbtree.ErrNoMoreEntries) {
				break
			}
			if err != nil {
				return fmt.Sprintf("%s: Read #%d err=%v", q, round, err)
			}
			if len(tvs) == 0 || len(tvs) > q.Limit {
				return fmt.Sprintf("%s: Read #%d returned %d values", q, round, len(tvs))
			}
			all = append(all, tvs...)
		}
		want, _, _ := st.history(q.Key, q.Offset, q.Desc, 1<<30)
		if len(all) != len(want) {
			return fmt.Sprintf("%s: %d values in total, model %d", q, len(all), len(want))
		}
		for i := range want {
			if all[i].Ts != want[i].Ts || !bytes.Equal(all[i].Value, want[i].V) {
				return fmt.Sprintf("%s: #%d = (%x,%d), model (%x,%d)", q, i, all[i].Value, all[i].Ts, want[i].V, want[i].Ts)
			}
		}
		return ""
	}
	return runPoint(s, st, q, true)
}

// fullCheck: the snapshot holds exactly the model state (every key, every version, both directions).
func fullCheck(s *tbtree.Snapshot, st *state) string {
	for _, sp := range []rspec{{Hist: true}, {Desc: true}} {
		r, err := s.NewReader(sp.spec())
		if err != nil {
			return fmt.Sprintf("NewReader: %v", err)
		}
		msg := drain(r, sp, st.scan(sp), 0)
		r.Close()
		if msg != "" {
			return "full scan: " + msg
		}
	}
	return ""
}

// dumpState reads the whole content of a snapshot into a model state.
func dumpState(s *tbtree.Snapshot, ts uint64) (*state, error) {
	r, err := s.NewReader(tbtree.ReaderSpec{IncludeHistory: true})
	if err != nil {
		return nil, err
	}
	defer r.Close()
	st := newState()
	st.ts = ts
	for {
		k, v, vts, _, err := r.Read()
		if errors.Is(err, tbtree.ErrNoMoreEntries) {
			return st, nil
		}
		if err != nil {
			return nil, err
		}
		st.m[string(k)] = append(st.m[string(k)], ver{V: v, Ts: vts})
	}
}

// firstChunk returns the index of the oldest chunk file still present in an appendable folder (-1: none).
func firstChunk(dir string) int {
	es, err := os.ReadDir(dir)
	if err != nil {
		return -1
	}
	var names []string
	for _, e := range es {
		if !e.IsDir() {
			names = append(names, e.Name())
		}
	}
	if len(names) == 0 {
		return -1
	}
	sort.Strings(names)
	n := 0
	fmt.Sscanf(strings.TrimSuffix(names[0], filepath.Ext(names[0])), "%d", &n)
	return n
}

func liveNodesFolder(dir string) string {
	es, _ := os.ReadDir(dir)
	best := ""
	for _, e := range es {
		if e.IsDir() && strings.HasPrefix(e.Name(), "nodes") && e.Name() > best {
			best = e.Name()
		}
	}
	return filepath.Join(dir, best)
}

func sprint(v any) string { return fmt.Sprint(v) }

// kx: short printable form of a key.
func kx(k []byte) string {
	if len(k) <= 12 {
		return fmt.Sprintf("%x", k)
	}
	return fmt.Sprintf("%x..(%d)", k[:12], len(k))
}
