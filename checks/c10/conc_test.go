// TestConcurrentReaders: goroutines read held snapshots while the writer inserts, flushes with cleanup and compacts.
package c10

import (
	"os"
	"path/filepath"
	"sync"
	"testing"

	"github.com/codenotary/immudb/embedded/tbtree"
	"pgregory.net/rapid"

	"verif/internal/vk"
)

type readerJob struct {
	s      *tbtree.Snapshot
	st     *state
	qs     []query
	rounds int
	events int
}

func TestConcurrentReaders(t *testing.T) {
	base := vk.Dir()
	vk.Check(t, 900, 10000, func(rt *rapid.T, c *vk.Case) {
		cfg := genCfg(rt)
		cfg.MaxSnaps = 100
		cfg.Cache = rapid.SampledFrom([]int{1, 70, 300, 2000}).Draw(rt, "smallCache") // snapshots must go back to disk
		// one chunk per log while goroutines read: with small chunks a reader's read-ahead past the end of a log can
		// open the next chunk file at the instant the writer creates it (header not yet written) and fail with
		// "singleapp: corrupted metadata" - an appendable-layer race (seen once per ~10 loaded runs), not tbtree's.
		// Chunk deletion by cleanup is exercised single-threaded in TestTreeModel.
		cfg.FileSize = 1 << 20
		d := &drv{rt: rt, c: c, cfg: cfg, dir: filepath.Join(base, "t"), cur: newState(), states: map[uint64]*state{},
			folders: map[uint64]bool{0: true}, concurrentOn: map[uint64]bool{}}
		os.RemoveAll(d.dir)
		defer os.RemoveAll(d.dir)
		d.pool = newKeyPool(cfg.MaxKey)
		d.maxKeys = rapid.SampledFrom([]int{20, 60, 150}).Draw(rt, "maxKeys")
		c.Descf("cfg=%+v maxKeys=%d", cfg, d.maxKeys)
		d.open()
		d.boundary()

		var wg sync.WaitGroup
		var mu sync.Mutex
		var failures []string
		var jobs []*readerJob
		defer func() {
			wg.Wait()
			for _, j := range jobs {
				j.s.Close()
			}
			d.tree.Close()
		}()

		writer := []struct {
			w int
			f func()
		}{{3, d.opInsert}, {10, d.opBulk}, {1, d.opIncreaseTs}, {6, d.opFlush}, {2, d.opCompact}, {2, d.opReadTree}}
		var wheel []int
		for i, o := range writer {
			for j := 0; j < o.w; j++ {
				wheel = append(wheel, i)
			}
		}
		writeSteps := func(n int) {
			for i := 0; i < n; i++ {
				writer[wheel[rapid.IntRange(0, len(wheel)-1).Draw(rt, "wop")]].f()
			}
		}

		writeSteps(rapid.IntRange(3, 12).Draw(rt, "warmup"))
		phases := rapid.IntRange(1, 3).Draw(rt, "phases")
		for p := 0; p < phases; p++ {
			// a snapshot of the current state, then readers on it run while the writer goes on
			s, err := d.tree.SnapshotMustIncludeTs(d.cur.ts)
			if err != nil {
				d.fail("SnapshotMustIncludeTs(%d): %v", d.cur.ts, err)
			}
			if s.Ts() != d.cur.ts {
				d.fail("SnapshotMustIncludeTs(%d) returned ts %d", d.cur.ts, s.Ts())
			}
			d.flushedTs = d.cur.ts
			st := d.states[d.cur.ts]
			d.concurrentOn[st.ts] = true
			nReaders := rapid.IntRange(1, 3).Draw(rt, "readersOnSnapshot")
			for g := 0; g < nReaders; g++ {
				job := &readerJob{s: s, st: st, rounds: rapid.IntRange(1, 4).Draw(rt, "rounds"), events: d.events}
				nq := rapid.IntRange(3, 12).Draw(rt, "nQueries")
				for i := 0; i < nq; i++ {
					q := genQuery(rt, st, cfg.MaxKey, true)
					if q.k10a(st) && vk.Excluded(kfBetween) {
						vk.CountExcluded(kfBetween)
						continue
					}
					if q.Kind == "hreader" && g > 0 && vk.Excluded(kfHReader) {
						// known finding K10d: two goroutines opening history readers on ONE snapshot crash the process
						vk.CountExcluded(kfHReader)
						c.Label("excluded-K10d")
						continue
					}
					job.qs = append(job.qs, q)
				}
				if g == 0 {
					jobs = append(jobs, job) // one entry per snapshot is enough for closing
				}
				wg.Add(1)
				go func(j *readerJob) {
					defer wg.Done()
					defer func() {
						if r := recover(); r != nil {
							mu.Lock()
							failures = append(failures, "panic in a snapshot reader: "+sprint(r))
							mu.Unlock()
						}
					}()
					for r := 0; r < j.rounds; r++ {
						for _, q := range j.qs {
							if msg := runQuery(j.s, j.st, q); msg != "" {
								mu.Lock()
								failures = append(failures, "snapshot@"+sprint(j.st.ts)+" read concurrently with the writer: "+msg)
								mu.Unlock()
								return
							}
						}
						if msg := fullCheck(j.s, j.st); msg != "" {
							mu.Lock()
							failures = append(failures, "snapshot@"+sprint(j.st.ts)+" read concurrently with the writer: "+msg)
							mu.Unlock()
							return
						}
					}
				}(job)
			}
			writeSteps(rapid.IntRange(2, 14).Draw(rt, "writeSteps"))
		}
		wg.Wait()
		mu.Lock()
		fs := append([]string(nil), failures...)
		mu.Unlock()
		if len(fs) > 0 {
			d.fail("%s", fs[0])
		}
		// after the writer is done every snapshot still holds its state
		evAfter := 0
		for _, j := range jobs {
			if msg := fullCheck(j.s, j.st); msg != "" {
				d.fail("snapshot@%d after the writer finished (tree at %d): %s", j.st.ts, d.cur.ts, msg)
			}
			if d.events > j.events {
				evAfter++
			}
		}
		d.checkTree("concurrent phase")
		deep := depthAtLeast3(cfg, d.cur)
		c.Descf("keys=%d ts=%d phases=%d", len(d.cur.m), d.cur.ts, phases)
		if deep {
			c.Label("depth>=3")
		}
		if d.nFlushCleanup > 0 {
			c.Label("flush-with-cleanup")
		}
		if d.nDiscard > 0 {
			c.Label("nlog-chunks-discarded")
		}
		if d.nCompact > 0 {
			c.Label("compaction")
		}
		if evAfter > 0 {
			c.Label("snapshot-read-after-cleanup-or-compaction")
		}
		if deep && evAfter > 0 {
			c.NonTrivial()
		}
	})
}
