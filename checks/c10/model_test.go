// Reference model for C10: a multi-version ordered map.
package c10

import (
	"bytes"
	"errors"
	"fmt"
	"sort"

	"github.com/codenotary/immudb/embedded/tbtree"
)

type ver struct {
	V  []byte
	Ts uint64
}

// state is one logical state of the index: key -> versions in ascending ts, plus the tree's logical time.
type state struct {
	ts     uint64
	m      map[string][]ver
	sorted []string // cache of sorted keys (nil = stale)
	nvers  int
}

func newState() *state { return &state{m: map[string][]ver{}} }

// clone returns a frozen copy (version slices are append-only, so clipped headers can be shared).
func (s *state) clone() *state {
	c := &state{ts: s.ts, m: make(map[string][]ver, len(s.m)), nvers: s.nvers}
	for k, vs := range s.m {
		c.m[k] = vs[:len(vs):len(vs)]
	}
	c.sorted = s.keys()
	return c
}

func (s *state) keys() []string {
	if s.sorted == nil || len(s.sorted) != len(s.m) {
		ks := make([]string, 0, len(s.m))
		for k := range s.m {
			ks = append(ks, k)
		}
		sort.Strings(ks)
		s.sorted = ks
	}
	return s.sorted
}

type kvt struct {
	K, V []byte
	T    uint64 // as passed to the tree (0 = "current+1")
	Eff  uint64 // effective timestamp
}

// apply performs a valid bulk insert (per key: non-decreasing effective ts; equal ts is ignored).
func (s *state) apply(kvts []kvt) {
	for _, e := range kvts {
		vs := s.m[string(e.K)]
		if len(vs) > 0 && vs[len(vs)-1].Ts >= e.Eff {
			continue // same-ts re-insert: ignored (generated with the same value only)
		}
		if len(vs) == 0 {
			s.sorted = nil
		}
		s.m[string(e.K)] = append(vs, ver{V: e.V, Ts: e.Eff})
		s.nvers++
		if e.Eff > s.ts {
			s.ts = e.Eff
		}
	}
}

type res struct {
	K      []byte
	V      []byte
	Ts, Hc uint64
	Err    error // nil, or one of the tbtree sentinel errors
}

func (r res) String() string {
	if r.Err != nil {
		return fmt.Sprintf("err=%v", r.Err)
	}
	return fmt.Sprintf("(k=%x v=%x ts=%d hc=%d)", r.K, r.V, r.Ts, r.Hc)
}

func sameRes(got, want res) bool {
	if want.Err != nil || got.Err != nil {
		return want.Err != nil && got.Err != nil && errors.Is(got.Err, want.Err)
	}
	return bytes.Equal(got.K, want.K) && bytes.Equal(got.V, want.V) && got.Ts == want.Ts && got.Hc == want.Hc
}

func (s *state) get(k []byte) res {
	vs := s.m[string(k)]
	if len(vs) == 0 {
		return res{Err: tbtree.ErrKeyNotFound}
	}
	l := vs[len(vs)-1]
	return res{V: l.V, Ts: l.Ts, Hc: uint64(len(vs))}
}

// getBetween: most recent version with initialTs <= ts <= finalTs (finalTs 0 = unbounded); hc = its revision number.
func (s *state) getBetween(k []byte, initialTs, finalTs uint64) res {
	vs := s.m[string(k)]
	if len(vs) == 0 {
		return res{Err: tbtree.ErrKeyNotFound}
	}
	if initialTs > finalTs {
		return res{Err: tbtree.ErrIllegalArguments}
	}
	for i := len(vs) - 1; i >= 0; i-- {
		if vs[i].Ts < initialTs {
			break
		}
		if finalTs == 0 || vs[i].Ts <= finalTs {
			return res{V: vs[i].V, Ts: vs[i].Ts, Hc: uint64(i + 1)}
		}
	}
	return res{Err: tbtree.ErrKeyNotFound}
}

// inK2Class: the bounded lookup whose answer is "not found" because every version of a key with >= 3 versions is
// newer than finalTs (known finding K10a: the history-log walk runs past the key's own chain).
func (s *state) inK10aClass(k []byte, initialTs, finalTs uint64) bool {
	vs := s.m[string(k)]
	return len(vs) >= 3 && finalTs != 0 && initialTs <= finalTs && finalTs < vs[0].Ts
}

// history returns the versions as History(key, offset, desc, limit) defines them.
func (s *state) history(k []byte, offset uint64, desc bool, limit int) ([]ver, uint64, error) {
	if limit < 1 {
		return nil, 0, tbtree.ErrIllegalArguments
	}
	vs := s.m[string(k)]
	if len(vs) == 0 {
		return nil, 0, tbtree.ErrKeyNotFound
	}
	n := uint64(len(vs))
	if offset == n {
		return nil, 0, tbtree.ErrNoMoreEntries
	}
	if offset > n {
		return nil, 0, tbtree.ErrOffsetOutOfRange
	}
	cnt := uint64(limit)
	if cnt > n-offset {
		cnt = n - offset
	}
	out := make([]ver, 0, cnt)
	for i := uint64(0); i < cnt; i++ {
		if desc {
			out = append(out, vs[n-1-offset-i])
		} else {
			out = append(out, vs[offset+i])
		}
	}
	return out, n, nil
}

// getWithPrefix: first key >= prefix (and > neq when neq is given); found iff it has the prefix.
// The generator only uses neq values for which "greater than neq" and "different from neq" coincide.
func (s *state) getWithPrefix(prefix, neq []byte) res {
	ks := s.keys()
	i := sort.SearchStrings(ks, string(prefix))
	for ; i < len(ks); i++ {
		if len(neq) > 0 && ks[i] <= string(neq) {
			continue
		}
		break
	}
	if i == len(ks) || !bytes.HasPrefix([]byte(ks[i]), prefix) {
		return res{Err: tbtree.ErrKeyNotFound}
	}
	r := s.get([]byte(ks[i]))
	r.K = []byte(ks[i])
	return r
}

type rspec struct {
	Seek, End, Prefix  []byte
	InclSeek, InclEnd  bool
	Hist, Desc         bool
	Offset             uint64
	Between            bool
	InitialTs, FinalTs uint64
}

func (sp rspec) String() string {
	return fmt.Sprintf("{seek=%x%s end=%x%s prefix=%x desc=%v hist=%v off=%d between=%v[%d,%d]}",
		sp.Seek, incl(sp.InclSeek), sp.End, incl(sp.InclEnd), sp.Prefix, sp.Desc, sp.Hist, sp.Offset, sp.Between, sp.InitialTs, sp.FinalTs)
}

func incl(b bool) string {
	if b {
		return "(incl)"
	}
	return "(excl)"
}

func (sp rspec) spec() tbtree.ReaderSpec {
	return tbtree.ReaderSpec{SeekKey: sp.Seek, EndKey: sp.End, Prefix: sp.Prefix, InclusiveSeek: sp.InclSeek,
		InclusiveEnd: sp.InclEnd, IncludeHistory: sp.Hist, DescOrder: sp.Desc, Offset: sp.Offset}
}

// rangeKeys: keys within [seek,end] (an empty bound is unbounded) that carry the prefix, in reading order.
func (s *state) rangeKeys(sp rspec) []string {
	lo, hi := sp.Seek, sp.End
	loIncl, hiIncl := sp.InclSeek, sp.InclEnd
	if sp.Desc {
		lo, hi = sp.End, sp.Seek
		loIncl, hiIncl = sp.InclEnd, sp.InclSeek
	}
	var out []string
	for _, k := range s.keys() {
		if len(lo) > 0 {
			c := bytes.Compare([]byte(k), lo)
			if c < 0 || (c == 0 && !loIncl) {
				continue
			}
		}
		if len(hi) > 0 {
			c := bytes.Compare([]byte(k), hi)
			if c > 0 || (c == 0 && !hiIncl) {
				continue
			}
		}
		if !bytes.HasPrefix([]byte(k), sp.Prefix) {
			continue
		}
		out = append(out, k)
	}
	if sp.Desc {
		for i, j := 0, len(out)-1; i < j; i, j = i+1, j-1 {
			out[i], out[j] = out[j], out[i]
		}
	}
	return out
}

// scan is the full expected read-out of a reader with this spec.
func (s *state) scan(sp rspec) []res {
	ks := s.rangeKeys(sp)
	var out []res
	switch {
	case sp.Between:
		for _, k := range ks {
			r := s.getBetween([]byte(k), sp.InitialTs, sp.FinalTs)
			if r.Err == nil {
				r.K = []byte(k)
				out = append(out, r)
			}
		}
	case sp.Hist:
		for _, k := range ks {
			vs := s.m[k]
			for i := range vs {
				j := i
				if sp.Desc {
					j = len(vs) - 1 - i
				}
				out = append(out, res{K: []byte(k), V: vs[j].V, Ts: vs[j].Ts, Hc: uint64(j + 1)})
			}
		}
	default:
		for i, k := range ks {
			if uint64(i) < sp.Offset {
				continue
			}
			r := s.get([]byte(k))
			r.K = []byte(k)
			out = append(out, r)
		}
	}
	return out
}

// k10aInRange: some key the reader will visit is in the K10a class for this time window.
func (s *state) k10aInRange(sp rspec) bool {
	if !sp.Between {
		return false
	}
	for _, k := range s.rangeKeys(sp) {
		if s.inK10aClass([]byte(k), sp.InitialTs, sp.FinalTs) {
			return true
		}
	}
	return false
}

// equalContent compares two states (content and logical time).
func (s *state) equalContent(o *state) bool {
	if s.ts != o.ts || len(s.m) != len(o.m) {
		return false
	}
	for k, vs := range s.m {
		ws := o.m[k]
		if len(ws) != len(vs) {
			return false
		}
		for i := range vs {
			if vs[i].Ts != ws[i].Ts || !bytes.Equal(vs[i].V, ws[i].V) {
				return false
			}
		}
	}
	return true
}
