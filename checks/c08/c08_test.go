// C08 — hash trees equal the reference Merkle construction.
package c08

import (
	"bytes"
	"crypto/sha256"
	"fmt"
	"testing"

	"github.com/codenotary/immudb/embedded/ahtree"
	"github.com/codenotary/immudb/embedded/htree"
	"pgregory.net/rapid"

	"verif/internal/refmodel"
	"verif/internal/vk"
)

type H = [sha256.Size]byte

func TestMain(m *testing.M) {
	vk.Main(m, vk.Config{
		Property: "C08",
		Rule: "rapid-generated append/reset/sync/reopen histories of a real on-disk AHT compared with an RFC-6962 reference; " +
			"exhaustive (i,j) proof verification for every size up to a bound; verifier soundness over mutated/relabelled claims whose " +
			"leaf and roots are true leaves/roots of the history. Non-trivial: tree size not a power of two, or history with a " +
			"reset followed by re-append/reopen, or a mutated claim that is false; distinct by hash of the case descriptor.",
		Assumptions: []string{
			"SHA-256 is collision resistant (a claim over true leaves/roots that is false in the history cannot have a valid proof)",
			"soundness claims use leaf hashes and roots taken from the reference history (a verifier cannot bind anything about a root it is merely handed)",
		},
		Probes: []vk.Probe{
			{ID: "K2-aht-verifier-unbound-size", Present: probeK2},
			{ID: "K2h-htree-verifier-unbound-width", Present: probeK2h},
			{ID: "K3b-aht-reset-not-persisted", Present: probeK3b},
			{ID: "F7-aht-dataat-empty-payload", Present: probeF7},
		},
	})
}

// probeK2: ahtree verifiers accept a correct proof under shifted sizes/positions.
func probeK2() (bool, string) {
	leaves := make([]H, 8)
	for i := range leaves {
		leaves[i] = refmodel.LeafHash([]byte{byte(i + 1)})
	}
	roots := refmodel.Roots(leaves)
	// leaf 3 in a tree of 3 has proof [H(l1,l2)]; relabelled as position 2 of size 3 (true root)
	p := []H{refmodel.NodeHash(leaves[0], leaves[1])}
	if ahtree.VerifyInclusion(p, 2, 3, leaves[2], roots[3]) {
		return true, "VerifyInclusion(proof(3,3), i=2, j=3, leaf3, root3) = true"
	}
	if ahtree.VerifyInclusion([]H{leaves[1]}, 1, 4, leaves[0], roots[2]) {
		return true, "VerifyInclusion(proof(1,2), i=1, j=4, leaf1, root2) = true"
	}
	if ahtree.VerifyInclusion(nil, 5, 5, leaves[4], leaves[4]) {
		return true, "VerifyInclusion(nil, 5, 5, x, x) = true"
	}
	return false, ""
}

// probeK2h: htree.VerifyInclusion does not relate the number of terms to the claimed leaf/width.
func probeK2h() (bool, string) {
	ds := digestsFor(1, 1)
	tr, _ := htree.New(1)
	tr.BuildWith(ds)
	p, _ := tr.InclusionProof(0)
	q := &htree.InclusionProof{Leaf: 3, Width: 4, Terms: p.Terms}
	if htree.VerifyInclusion(q, ds[0], tr.Root()) {
		return true, "proof of the only leaf of a width-1 tree verifies as leaf 3 of width 4"
	}
	return false, ""
}

// probeF7 (fixed): DataAt of an empty payload that is no longer cached.
func probeF7() (bool, string) {
	dir := vk.Dir()
	defer removeAll(dir)
	tree, err := ahtree.Open(dir, ahtree.DefaultOptions().WithDataCacheSlots(1))
	if err != nil {
		return false, ""
	}
	defer tree.Close()
	tree.Append([]byte{})
	tree.Append([]byte("x"))
	if d, err := tree.DataAt(1); err != nil || len(d) != 0 {
		return true, fmt.Sprintf("DataAt(1) of an empty payload = (%x, %v)", d, err)
	}
	return false, ""
}

// probeK3b: ResetSize is only logical; close+reopen restores the larger size.
func probeK3b() (bool, string) {
	dir := vk.Dir()
	defer removeAll(dir)
	tree, err := ahtree.Open(dir, ahtree.DefaultOptions())
	if err != nil {
		return false, ""
	}
	tree.Append([]byte("a"))
	tree.Append([]byte("b"))
	tree.ResetSize(1)
	tree.Close()
	tree, err = ahtree.Open(dir, ahtree.DefaultOptions())
	if err != nil {
		return true, "reopen after ResetSize failed: " + err.Error()
	}
	defer tree.Close()
	if sz := tree.Size(); sz != 1 {
		return true, fmt.Sprintf("append 2, ResetSize(1), close, reopen: Size()=%d", sz)
	}
	return false, ""
}

// ---------------------------------------------------------------------------

type ahtCfg struct {
	fileSize, syncThld, dCache, pCache, wbuf int
}

func genCfg(rt *rapid.T) ahtCfg {
	return ahtCfg{
		fileSize: rapid.SampledFrom([]int{64, 100, 256, 1024, 1 << 20}).Draw(rt, "fileSize"),
		syncThld: rapid.IntRange(1, 16).Draw(rt, "syncThld"),
		dCache:   rapid.SampledFrom([]int{1, 2, 3, 8, 64}).Draw(rt, "digestsCache"),
		pCache:   rapid.SampledFrom([]int{1, 2, 8, 64}).Draw(rt, "dataCache"),
		wbuf:     rapid.SampledFrom([]int{32, 64, 4096}).Draw(rt, "writeBuf"),
	}
}

func (c ahtCfg) opts() *ahtree.Options {
	return ahtree.DefaultOptions().WithFileSize(c.fileSize).WithSyncThld(c.syncThld).
		WithDigestsCacheSlots(c.dCache).WithDataCacheSlots(c.pCache).WithWriteBufferSize(c.wbuf).WithReadBufferSize(64)
}

func leafOf(d []byte) H { return refmodel.LeafHash(d) }

// TestAHTModel: stateful comparison with the reference tree.
func TestAHTModel(t *testing.T) {
	maxSize := 120
	if vk.Thorough() {
		maxSize = 700
	}
	vk.Check(t, 2500, 120000, func(rt *rapid.T, c *vk.Case) {
		cfg := genCfg(rt)
		c.Descf("cfg=%+v", cfg)
		dir := vk.Dir()
		defer removeAll(dir)
		tree, err := ahtree.Open(dir, cfg.opts())
		if err != nil {
			rt.Fatalf("open: %v", err)
		}
		defer func() { tree.Close() }()

		var payloads [][]byte
		var leaves []H
		ctr := 0
		resets, reopens, reappendAfterReset := 0, 0, 0
		pendingReset := false
		highWater := 0 // largest size ever reached: what the never-truncated files still hold
		syncedSize := 0 // size at the last explicit Sync / clean reopen: must survive a process kill
		kills := 0
		dirtyReset := false // a ResetSize happened since the files were last known to hold no dropped entries

		checkAll := func(full bool) {
			n := uint64(len(payloads))
			if got := tree.Size(); got != n {
				c.Failf(rt, nil, "Size()=%d, model %d", got, n)
			}
			if n == 0 {
				if _, _, err := tree.Root(); err != ahtree.ErrEmptyTree {
					c.Failf(rt, nil, "Root() on empty tree: err=%v", err)
				}
				return
			}
			roots := refmodel.Roots(leaves)
			sz, r, err := tree.Root()
			if err != nil || sz != n || r != roots[n] {
				c.Failf(rt, nil, "Root()=(%d,%x,%v) want (%d,%x)", sz, r[:4], err, n, roots[n][:4])
			}
			ks := []uint64{1, n}
			for q := 0; q < 6; q++ {
				ks = append(ks, uint64(rapid.IntRange(1, int(n)).Draw(rt, "k")))
			}
			if full {
				ks = ks[:0]
				for k := uint64(1); k <= n; k++ {
					ks = append(ks, k)
				}
			}
			for _, k := range ks {
				rk, err := tree.RootAt(k)
				if err != nil || rk != roots[k] {
					c.Failf(rt, nil, "RootAt(%d)=(%x,%v) want %x (n=%d)", k, rk[:4], err, roots[k][:4], n)
				}
				d, err := tree.DataAt(k)
				if err != nil || !bytes.Equal(d, payloads[k-1]) {
					c.Failf(rt, nil, "DataAt(%d)=(%x,%v) want %x", k, d, err, payloads[k-1])
				}
			}
			for q := 0; q < 6; q++ {
				j := uint64(rapid.IntRange(1, int(n)).Draw(rt, "j"))
				i := uint64(rapid.IntRange(1, int(j)).Draw(rt, "i"))
				ip, err := tree.InclusionProof(i, j)
				if err != nil {
					c.Failf(rt, nil, "InclusionProof(%d,%d): %v", i, j, err)
				}
				if !ahtree.VerifyInclusion(ip, i, j, leaves[i-1], roots[j]) {
					c.Failf(rt, nil, "honest inclusion proof (%d,%d) of size-%d tree does not verify against the reference root", i, j, n)
				}
				cp, err := tree.ConsistencyProof(i, j)
				if err != nil {
					c.Failf(rt, nil, "ConsistencyProof(%d,%d): %v", i, j, err)
				}
				if !ahtree.VerifyConsistency(cp, i, j, roots[i], roots[j]) {
					c.Failf(rt, nil, "honest consistency proof (%d,%d) of size-%d tree does not verify against the reference roots", i, j, n)
				}
			}
		}

		rt.Repeat(map[string]func(*rapid.T){
			"append": func(rt *rapid.T) {
				if len(payloads) >= maxSize {
					rt.Skip("max size")
				}
				k := rapid.IntRange(1, 12).Draw(rt, "count")
				for q := 0; q < k; q++ {
					ln := rapid.SampledFrom([]int{0, 1, 5, 32, 33, 90}).Draw(rt, "len")
					ctr++
					d := make([]byte, ln)
					for x := range d {
						d[x] = byte(ctr*31 + x)
					}
					if ln >= 4 { // unique payloads so that all roots differ
						d[0], d[1], d[2], d[3] = byte(ctr), byte(ctr>>8), byte(ctr>>16), 0xA5
					}
					n, h, err := tree.Append(d)
					if err != nil {
						c.Failf(rt, nil, "Append: %v", err)
					}
					payloads = append(payloads, d)
					leaves = append(leaves, leafOf(d))
					if len(payloads) > highWater {
						highWater = len(payloads)
					}
					if n != uint64(len(payloads)) {
						c.Failf(rt, nil, "Append returned n=%d want %d", n, len(payloads))
					}
					if want := refmodel.MerkleRoot(leaves); h != want {
						c.Failf(rt, nil, "Append returned root %x want %x at n=%d", h[:4], want[:4], n)
					}
					if pendingReset {
						reappendAfterReset++
						pendingReset = false
					}
				}
				c.Descf("A%d", k)
			},
			"reset": func(rt *rapid.T) {
				if len(payloads) == 0 {
					rt.Skip("empty")
				}
				m := rapid.IntRange(0, len(payloads)).Draw(rt, "newSize")
				if err := tree.ResetSize(uint64(m)); err != nil {
					c.Failf(rt, nil, "ResetSize(%d) from %d: %v", m, len(payloads), err)
				}
				if m < len(payloads) {
					resets++
					pendingReset = true
					dirtyReset = true
				}
				payloads, leaves = payloads[:m], leaves[:m]
				if syncedSize > m {
					syncedSize = m
				}
				c.Descf("R%d", m)
			},
			"resetLarger": func(rt *rapid.T) {
				if err := tree.ResetSize(uint64(len(payloads) + 1)); err != ahtree.ErrCannotResetToLargerSize {
					c.Failf(rt, nil, "ResetSize to larger size: err=%v", err)
				}
			},
			"sync": func(rt *rapid.T) {
				if err := tree.Sync(); err != nil {
					c.Failf(rt, nil, "Sync: %v", err)
				}
				syncedSize = len(payloads)
				c.Descf("S")
			},
			"reopen": func(rt *rapid.T) {
				if len(payloads) < highWater && vk.Excluded("K3b-aht-reset-not-persisted") {
					// known finding K3b: the reopened tree would report the stale larger size
					// the generator first re-appends up to the old size (counted)
					vk.CountExcluded("K3b-aht-reset-not-persisted")
					c.Label("reopen-below-high-water-avoided-K3b")
					for len(payloads) < highWater {
						ctr++
						d := []byte{byte(ctr), byte(ctr >> 8), byte(ctr >> 16), 0x5A}
						if _, _, err := tree.Append(d); err != nil {
							c.Failf(rt, nil, "Append: %v", err)
						}
						payloads = append(payloads, d)
						leaves = append(leaves, leafOf(d))
					}
					if pendingReset {
						reappendAfterReset++
						pendingReset = false
					}
				}
				if err := tree.Close(); err != nil {
					c.Failf(rt, nil, "Close: %v", err)
				}
				cfg2 := cfg
				cfg2.dCache = rapid.SampledFrom([]int{1, 2, 64}).Draw(rt, "digestsCache2")
				cfg2.syncThld = rapid.IntRange(1, 16).Draw(rt, "syncThld2")
				var err error
				tree, err = ahtree.Open(dir, cfg2.opts())
				if err != nil {
					c.Failf(rt, nil, "reopen: %v", err)
				}
				reopens++
				dirtyReset = false
				syncedSize = len(payloads)
				c.Descf("O")
				checkAll(len(payloads) <= 40)
			},
			"killReopen": func(rt *rapid.T) {
				// process kill: the directory as it is on disk right now (whatever the appendables flushed by
				// themselves) is what the next process finds; the recovered tree must be a prefix of the model that
				// contains everything explicitly synced, and must keep working
				if dirtyReset && vk.Excluded("K3b-aht-reset-not-persisted") {
					// K3b: after a ResetSize the files may still hold the dropped entries until a clean
					// close/reopen cycle (which the generator only performs once the tree has grown back)
					vk.CountExcluded("K3b-aht-reset-not-persisted")
					rt.Skip("K3b")
				}
				// unsynced appends right before the kill (the invariant run after every step reads the last
				// payload, which makes the tree sync: without this the kill would always find a synced tree)
				for q := rapid.IntRange(0, 9).Draw(rt, "unsyncedAppends"); q > 0 && len(payloads) < maxSize; q-- {
					ctr++
					d := []byte{byte(ctr), byte(ctr >> 8), byte(ctr >> 16), 0xC3, byte(q)}
					if _, _, err := tree.Append(d); err != nil {
						c.Failf(rt, nil, "Append: %v", err)
					}
					payloads = append(payloads, d)
					leaves = append(leaves, leafOf(d))
				}
				dir2 := vk.Dir()
				if err := copyDir(dir, dir2); err != nil {
					rt.Fatalf("harness: copy: %v", err)
				}
				tree.Close()
				removeAll(dir)
				dir = dir2
				var err error
				tree, err = ahtree.Open(dir, cfg.opts())
				if err != nil {
					c.Failf(rt, nil, "open after process kill: %v", err)
				}
				sz := int(tree.Size())
				if sz > len(payloads) || sz < syncedSize {
					c.Failf(rt, nil, "after process kill the tree has %d leaves; model has %d of which %d were explicitly synced", sz, len(payloads), syncedSize)
				}
				payloads, leaves = payloads[:sz], leaves[:sz]
				highWater = sz
				pendingReset = false
				kills++
				c.Descf("X%d", sz)
				checkAll(sz <= 40)
			},
			"": func(rt *rapid.T) {
				// reading the last payload makes the tree sync its buffered entries: half of the steps are left
				// unobserved so that appends, resets and re-appends also meet while entries are still buffered
				if rapid.Bool().Draw(rt, "observe") {
					checkAll(false)
				}
			},
		})
		defer removeAll(dir)
		checkAll(len(payloads) <= 64)
		n := len(payloads)
		c.Descf("n=%d", n)
		if resets > 0 {
			c.Label("reset")
		}
		if reopens > 0 {
			c.Label("reopen")
		}
		if kills > 0 {
			c.Label("process-kill-reopen")
		}
		if reappendAfterReset > 0 {
			c.Label("reappend-after-reset")
		}
		if n&(n-1) != 0 {
			c.Label("non-pow2")
		}
		if n > 0 && (n&(n-1) != 0 || reappendAfterReset > 0) {
			c.NonTrivial()
		}
	})
}

// TestAHTExhaustivePairs: every 1<=i<=j<=n for one tree of size n.
func TestAHTExhaustivePairs(t *testing.T) {
	if vk.Shard() != 0 {
		t.Skip("enumeration runs on shard 0 only")
	}
	n := 72
	if vk.Thorough() {
		n = 300
	}
	dir := vk.Dir()
	tree, err := ahtree.Open(dir, ahtree.DefaultOptions().WithFileSize(4096).WithSyncThld(7).WithDigestsCacheSlots(5))
	if err != nil {
		t.Fatal(err)
	}
	defer tree.Close()
	var leaves []H
	for i := 0; i < n; i++ {
		d := []byte(fmt.Sprintf("leaf-%d", i))
		if _, _, err := tree.Append(d); err != nil {
			t.Fatal(err)
		}
		leaves = append(leaves, leafOf(d))
	}
	roots := refmodel.Roots(leaves)
	for j := uint64(1); j <= uint64(n); j++ {
		for i := uint64(1); i <= j; i++ {
			e := vk.NewEnum("TestAHTExhaustivePairs")
			e.Descf("i=%d j=%d", i, j)
			ip, err := tree.InclusionProof(i, j)
			if err != nil || !ahtree.VerifyInclusion(ip, i, j, leaves[i-1], roots[j]) {
				e.Failf(t, nil, "inclusion proof (%d,%d) err=%v does not verify against reference root", i, j, err)
				return
			}
			cp, err := tree.ConsistencyProof(i, j)
			if err != nil || !ahtree.VerifyConsistency(cp, i, j, roots[i], roots[j]) {
				e.Failf(t, nil, "consistency proof (%d,%d) err=%v does not verify against reference roots", i, j, err)
				return
			}
			if i == j {
				if !ahtree.VerifyLastInclusion(ip, i, leaves[i-1], roots[i]) {
					e.Failf(t, nil, "last-inclusion proof (%d) does not verify", i)
					return
				}
			}
			if j&(j-1) != 0 {
				e.NonTrivial()
			}
			e.Done()
		}
	}
	vk.SetExhaustive(fmt.Sprintf("AHT honest proofs: all 1<=i<=j<=%d", n))
}

// fixture for soundness: one big tree, honest proofs taken from the real AHT.
var (
	fixTree   *ahtree.AHtree
	fixLeaves []H
	fixRoots  []H
	leafPos   = map[H]int{}
	rootPos   = map[H]int{}
)

const fixN = 260

func fixture(t *testing.T) {
	if fixTree != nil {
		return
	}
	dir := vk.Dir()
	tree, err := ahtree.Open(dir, ahtree.DefaultOptions().WithFileSize(1<<16).WithDigestsCacheSlots(4096))
	if err != nil {
		t.Fatal(err)
	}
	for i := 0; i < fixN; i++ {
		d := []byte(fmt.Sprintf("L%d", i))
		if _, _, err := tree.Append(d); err != nil {
			t.Fatal(err)
		}
		fixLeaves = append(fixLeaves, leafOf(d))
		leafPos[fixLeaves[i]] = i + 1
	}
	fixRoots = refmodel.Roots(fixLeaves)
	for k := 1; k <= fixN; k++ {
		if _, dup := rootPos[fixRoots[k]]; !dup {
			rootPos[fixRoots[k]] = k // root(1) == leaf(1) by definition
		}
	}
	fixTree = tree
}

func mutateTerms(rt *rapid.T, p []H, pool []H) ([]H, string) {
	q := append([]H(nil), p...)
	kind := rapid.SampledFrom([]string{"none", "drop", "dup", "flip", "insert", "swap", "truncate", "replace", "empty", "append"}).Draw(rt, "mut")
	pick := func() H { return pool[rapid.IntRange(0, len(pool)-1).Draw(rt, "poolIdx")] }
	switch kind {
	case "drop":
		if len(q) > 0 {
			i := rapid.IntRange(0, len(q)-1).Draw(rt, "at")
			q = append(q[:i], q[i+1:]...)
		}
	case "dup":
		if len(q) > 0 {
			i := rapid.IntRange(0, len(q)-1).Draw(rt, "at")
			q = append(q[:i+1], q[i:]...)
		}
	case "flip":
		if len(q) > 0 {
			i := rapid.IntRange(0, len(q)-1).Draw(rt, "at")
			q[i][rapid.IntRange(0, 31).Draw(rt, "byte")] ^= 1 << uint(rapid.IntRange(0, 7).Draw(rt, "bit"))
		}
	case "insert":
		i := rapid.IntRange(0, len(q)).Draw(rt, "at")
		q = append(q[:i], append([]H{pick()}, q[i:]...)...)
	case "swap":
		if len(q) > 1 {
			i := rapid.IntRange(0, len(q)-2).Draw(rt, "at")
			q[i], q[i+1] = q[i+1], q[i]
		}
	case "truncate":
		if len(q) > 0 {
			q = q[:rapid.IntRange(0, len(q)-1).Draw(rt, "keep")]
		}
	case "replace":
		if len(q) > 0 {
			q[rapid.IntRange(0, len(q)-1).Draw(rt, "at")] = pick()
		}
	case "empty":
		q = nil
	case "append":
		q = append(q, pick())
	}
	return q, kind
}

func near(rt *rapid.T, v, lo, hi int, label string) int {
	d := rapid.SampledFrom([]int{0, 0, 0, -1, 1, -2, 2, 3, -3, 4, 8, -8}).Draw(rt, label)
	w := v + d
	if rapid.IntRange(0, 9).Draw(rt, label+"far") == 0 {
		w = rapid.IntRange(lo, hi).Draw(rt, label+"any")
	}
	if w < lo {
		w = lo
	}
	if w > hi {
		w = hi
	}
	return w
}

func nodePool() []H {
	pool := append([]H(nil), fixLeaves[:16]...)
	pool = append(pool, fixRoots[1:40]...)
	return pool
}

// TestAHTInclusionSoundness: accept => the claim (leaf at i in the tree whose root at size j is given) is true.
func TestAHTInclusionSoundness(t *testing.T) {
	fixture(t)
	pool := nodePool()
	vk.Check(t, 400000, 12000000, func(rt *rapid.T, c *vk.Case) {
		j := rapid.IntRange(1, fixN).Draw(rt, "j")
		if rapid.IntRange(0, 2).Draw(rt, "small") == 0 {
			j = rapid.IntRange(1, 20).Draw(rt, "jSmall")
		}
		i := rapid.IntRange(1, j).Draw(rt, "i")
		proof, err := fixTree.InclusionProof(uint64(i), uint64(j))
		if err != nil {
			rt.Fatalf("InclusionProof: %v", err)
		}
		p2, kind := mutateTerms(rt, proof, pool)
		ci := near(rt, i, 0, fixN, "ci")
		cj := near(rt, j, 0, fixN, "cj")
		leafIdx := near(rt, i, 1, fixN, "leafIdx")
		rootIdx := near(rt, j, 1, fixN, "rootIdx")
		leaf, root := fixLeaves[leafIdx-1], fixRoots[rootIdx]
		claimTrue := ci >= 1 && ci <= cj && cj == rootIdx && leafIdx == ci
		c.Descf("honest=(%d,%d) mut=%s claim=(i=%d,j=%d,leaf@%d,root@%d) true=%v", i, j, kind, ci, cj, leafIdx, rootIdx, claimTrue)
		ok := ahtree.VerifyInclusion(p2, uint64(ci), uint64(cj), leaf, root)
		if kind == "none" && ci == i && cj == j && leafIdx == i && rootIdx == j && !ok {
			c.Failf(rt, nil, "honest inclusion proof (%d,%d) rejected", i, j)
		}
		if ok && !claimTrue {
			lenOK := ci >= 1 && ci <= cj && cj <= fixN && len(p2) == honestInclusionLen(rt, ci, cj)
			switch {
			case !lenOK:
				// a proof whose length is not the one (i,j) requires: a strict verifier rejects it (K2)
				if !vk.Excluded("K2-aht-verifier-unbound-size") {
					c.Failf(rt, nil, "VerifyInclusion accepted a false claim with a proof of the wrong length: proof=honest(%d,%d)+%s len=%d, claimed i=%d j=%d, leaf is leaf #%d, root is root of size %d",
						i, j, kind, len(p2), ci, cj, leafIdx, rootIdx)
				}
				vk.CountExcluded("K2-aht-verifier-unbound-size")
				c.Label("accepted-false-claim-K2-class")
			case cj == rootIdx:
				// (size, root) is a true pair and the length is right: position must be bound
				c.Failf(rt, nil, "VerifyInclusion accepted a false claim: proof=honest(%d,%d)+%s len=%d, claimed i=%d j=%d (true root of that size), but the leaf is leaf #%d",
					i, j, kind, len(p2), ci, cj, leafIdx)
			default:
				// the (size, root) pair itself is false and the shape fits: no verifier can tell (terms may be inner nodes)
				c.Label("accepted-unfalsifiable-false-root-pair")
			}
		}
		c.Label("mut-" + kind)
		if ok {
			c.Label("accepted")
		}
		if !claimTrue {
			c.NonTrivial()
		}
	})
}

func honestInclusionLen(rt *rapid.T, i, j int) int {
	p, err := fixTree.InclusionProof(uint64(i), uint64(j))
	if err != nil {
		rt.Fatalf("InclusionProof(%d,%d): %v", i, j, err)
	}
	return len(p)
}

func honestConsistencyLen(rt *rapid.T, i, j int) int {
	p, err := fixTree.ConsistencyProof(uint64(i), uint64(j))
	if err != nil {
		rt.Fatalf("ConsistencyProof(%d,%d): %v", i, j, err)
	}
	return len(p)
}

func inclusionLen(i, j uint64) int {
	i1, j1 := i-1, j-1
	n := 0
	for i1 != j1 {
		n++
		i1 >>= 1
		j1 >>= 1
	}
	for j1 > 0 {
		if j1&1 == 1 {
			n++
		}
		j1 >>= 1
	}
	return n
}

func TestAHTConsistencySoundness(t *testing.T) {
	fixture(t)
	pool := nodePool()
	vk.Check(t, 400000, 12000000, func(rt *rapid.T, c *vk.Case) {
		j := rapid.IntRange(1, fixN).Draw(rt, "j")
		if rapid.IntRange(0, 2).Draw(rt, "small") == 0 {
			j = rapid.IntRange(1, 20).Draw(rt, "jSmall")
		}
		i := rapid.IntRange(1, j).Draw(rt, "i")
		proof, err := fixTree.ConsistencyProof(uint64(i), uint64(j))
		if err != nil {
			rt.Fatalf("ConsistencyProof: %v", err)
		}
		p2, kind := mutateTerms(rt, proof, pool)
		ci := near(rt, i, 0, fixN, "ci")
		cj := near(rt, j, 0, fixN, "cj")
		iRootIdx := near(rt, i, 1, fixN, "iRootIdx")
		jRootIdx := near(rt, j, 1, fixN, "jRootIdx")
		claimTrue := ci >= 1 && ci <= cj && iRootIdx == ci && jRootIdx == cj
		if ci >= 1 && ci == cj && iRootIdx == jRootIdx && len(p2) == 0 {
			// "a tree is consistent with itself": with an empty proof the verifier only compares the two roots,
			// which is all such a claim says; nothing can be bound about the size
			claimTrue = true
		}
		c.Descf("honest=(%d,%d) mut=%s claim=(i=%d,j=%d,iRoot@%d,jRoot@%d) true=%v", i, j, kind, ci, cj, iRootIdx, jRootIdx, claimTrue)
		var ok bool
		func() {
			defer func() {
				if r := recover(); r != nil {
					// EvalConsistency indexes cproof[0]; VerifyConsistency guards it. A panic here is a verifier defect.
					c.Failf(rt, nil, "VerifyConsistency panicked: %v (len=%d i=%d j=%d)", r, len(p2), ci, cj)
				}
			}()
			ok = ahtree.VerifyConsistency(p2, uint64(ci), uint64(cj), fixRoots[iRootIdx], fixRoots[jRootIdx])
		}()
		if kind == "none" && ci == i && cj == j && iRootIdx == i && jRootIdx == j && !ok {
			c.Failf(rt, nil, "honest consistency proof (%d,%d) rejected", i, j)
		}
		if ok && !claimTrue {
			lenOK := ci >= 1 && ci <= cj && cj <= fixN && len(p2) == honestConsistencyLen(rt, ci, cj)
			switch {
			case !lenOK:
				if !vk.Excluded("K2-aht-verifier-unbound-size") {
					c.Failf(rt, nil, "VerifyConsistency accepted a false claim with a proof of the wrong length: proof=honest(%d,%d)+%s len=%d, claimed i=%d j=%d, iRoot is root of size %d, jRoot is root of size %d",
						i, j, kind, len(p2), ci, cj, iRootIdx, jRootIdx)
				}
				vk.CountExcluded("K2-aht-verifier-unbound-size")
				c.Label("accepted-false-claim-K2-class")
			case jRootIdx == cj:
				// the larger (size, root) pair is true, the length is right: the smaller root must be bound
				c.Failf(rt, nil, "VerifyConsistency accepted a false claim: proof=honest(%d,%d)+%s len=%d, claimed i=%d j=%d (true root of size j), but iRoot is the root of size %d",
					i, j, kind, len(p2), ci, cj, iRootIdx)
			default:
				c.Label("accepted-unfalsifiable-false-root-pair")
			}
		}
		c.Label("mut-" + kind)
		if ok {
			c.Label("accepted")
		}
		if !claimTrue {
			c.NonTrivial()
		}
	})
}

// ---------------------------------------------------------------------------
// per-transaction entry tree

func digestsFor(w int, salt int) []H {
	ds := make([]H, w)
	for i := range ds {
		ds[i] = sha256.Sum256([]byte(fmt.Sprintf("d-%d-%d", salt, i)))
	}
	return ds
}

func refHTreeRoot(ds []H) H {
	if len(ds) == 0 {
		return sha256.Sum256(nil)
	}
	ls := make([]H, len(ds))
	for i, d := range ds {
		ls[i] = refmodel.LeafHash(d[:])
	}
	return refmodel.MerkleRoot(ls)
}

func TestHTreeExhaustive(t *testing.T) {
	if vk.Shard() != 0 {
		t.Skip("enumeration runs on shard 0 only")
	}
	maxW := 200
	if vk.Thorough() {
		maxW = 700
	}
	tr, err := htree.New(maxW)
	if err != nil {
		t.Fatal(err)
	}
	// widths visited in a non-monotone order so that stale levels of a previous, wider build are present
	order := []int{}
	for w := maxW; w >= 0; w -= 7 {
		order = append(order, w)
	}
	for w := 0; w <= maxW; w++ {
		order = append(order, w)
	}
	for _, w := range order {
		ds := digestsFor(w, w)
		if err := tr.BuildWith(ds); err != nil {
			t.Fatal(err)
		}
		want := refHTreeRoot(ds)
		e := vk.NewEnum("TestHTreeExhaustive")
		e.Descf("width=%d", w)
		if tr.Root() != want {
			e.Failf(t, nil, "htree root for width %d differs from the reference", w)
			return
		}
		for i := 0; i < w; i++ {
			p, err := tr.InclusionProof(i)
			if err != nil || !htree.VerifyInclusion(p, ds[i], want) {
				e.Failf(t, nil, "htree inclusion proof width=%d leaf=%d err=%v does not verify", w, i, err)
				return
			}
			if p.Leaf != i || p.Width != w {
				e.Failf(t, nil, "htree proof reports leaf=%d width=%d want %d,%d", p.Leaf, p.Width, i, w)
				return
			}
		}
		if _, err := tr.InclusionProof(w); err == nil {
			e.Failf(t, nil, "htree InclusionProof(%d) on width %d did not fail", w, w)
			return
		}
		if w&(w-1) != 0 {
			e.NonTrivial()
		}
		e.Done()
	}
	if err := tr.BuildWith(digestsFor(maxW+1, 0)); err == nil {
		t.Errorf("BuildWith beyond maxWidth did not fail")
	}
	vk.SetExhaustive(fmt.Sprintf("htree: all widths 0..%d, all leaves", maxW))
}

func TestHTreeSoundness(t *testing.T) {
	vk.Check(t, 300000, 8000000, func(rt *rapid.T, c *vk.Case) {
		w := rapid.IntRange(1, 70).Draw(rt, "width")
		ds := digestsFor(w, 1)
		tr, _ := htree.New(w)
		if err := tr.BuildWith(ds); err != nil {
			rt.Fatalf("%v", err)
		}
		root := tr.Root()
		i := rapid.IntRange(0, w-1).Draw(rt, "leaf")
		p, err := tr.InclusionProof(i)
		if err != nil {
			rt.Fatalf("%v", err)
		}
		pool := append([]H(nil), ds...)
		for k := 0; k < w && k < 8; k++ {
			pool = append(pool, refmodel.LeafHash(ds[k][:]))
		}
		terms, kind := mutateTerms(rt, p.Terms, pool)
		cl := near(rt, i, -1, w+2, "claimLeaf")
		cw := near(rt, w, -1, w+3, "claimWidth")
		di := near(rt, i, 0, w-1, "digestIdx")
		q := &htree.InclusionProof{Leaf: cl, Width: cw, Terms: terms}
		claimTrue := cl == di && cw == w
		c.Descf("w=%d leaf=%d mut=%s claim=(leaf=%d,width=%d,digest@%d) true=%v", w, i, kind, cl, cw, di, claimTrue)
		var ok bool
		func() {
			defer func() {
				if r := recover(); r != nil {
					c.Failf(rt, nil, "htree.VerifyInclusion panicked: %v", r)
				}
			}()
			ok = htree.VerifyInclusion(q, ds[di], root)
		}()
		if kind == "none" && claimTrue && cl == i && !ok {
			c.Failf(rt, nil, "honest htree proof rejected")
		}
		if ok && !claimTrue {
			lenOK := cl >= 0 && cl < cw && len(terms) == inclusionLen(uint64(cl+1), uint64(cw))
			switch {
			case !lenOK:
				if !vk.Excluded("K2h-htree-verifier-unbound-width") {
					c.Failf(rt, nil, "htree.VerifyInclusion accepted a false claim with the wrong number of terms: true (w=%d, leaf=%d), mutation %s, %d terms, claimed leaf=%d width=%d with digest #%d", w, i, kind, len(terms), cl, cw, di)
				}
				vk.CountExcluded("K2h-htree-verifier-unbound-width")
				c.Label("accepted-false-claim-K2h-class")
			case cw == w:
				c.Failf(rt, nil, "htree.VerifyInclusion accepted a false claim: true (w=%d, leaf=%d), mutation %s, claimed leaf=%d (true width) with digest #%d", w, i, kind, cl, di)
			default:
				c.Label("accepted-unfalsifiable-false-width")
			}
		}
		c.Label("mut-" + kind)
		if !claimTrue {
			c.NonTrivial()
		}
	})
}
