package c08

import (
	"io"
	"os"
	"path/filepath"
)

func removeAll(d string) { os.RemoveAll(d) }

// copyDir copies a directory tree as it is on disk right now.
func copyDir(src, dst string) error {
	return filepath.Walk(src, func(p string, info os.FileInfo, err error) error {
		if err != nil {
			return err
		}
		rel, _ := filepath.Rel(src, p)
		target := filepath.Join(dst, rel)
		if info.IsDir() {
			return os.MkdirAll(target, 0o755)
		}
		in, err := os.Open(p)
		if err != nil {
			return err
		}
		defer in.Close()
		out, err := os.Create(target)
		if err != nil {
			return err
		}
		defer out.Close()
		_, err = io.Copy(out, in)
		return err
	})
}
