package c08

import "os"

func removeAll(d string) { os.RemoveAll(d) }
