package c17

import (
	"fmt"
	"path/filepath"
	"strings"
	"testing"

	"verif/internal/vk"
)

// TestExhaustiveSmall: every sequence of exactly L operations over a small alphabet on tiny
// configurations, the model being compared after every step (so all shorter sequences are covered as
// prefixes). The sequences are split over the shards by index.

type enumFail struct{ msg string }

var enumCfgs = []cfg{
	{Multi: false, WBuf: 2},
	{Multi: false, WBuf: 3, Retryable: true, AutoSync: true},
	{Multi: true, FileSize: 4, WBuf: 2, MaxOpen: 1},
	{Multi: true, FileSize: 4, WBuf: 3, MaxOpen: 1, Retryable: true, AutoSync: true},
	{Multi: true, FileSize: 3, WBuf: 8, MaxOpen: 2, Retryable: true, AutoSync: false},
}

var enumOps = []string{"a1", "a3", "a9", "F", "S", "r0", "r1", "rH", "O", "P", "C", "D"}

func (h *harness) enumOp(op string) {
	switch op {
	case "a1":
		h.doAppend(1)
	case "a3":
		h.doAppend(3)
	case "a9":
		h.doAppend(9)
	case "F":
		h.doFlush()
	case "S":
		h.doSync()
	case "r0":
		h.doSetOffset(h.discard)
	case "r1":
		x := len(h.data) - 1
		if x < h.discard {
			x = h.discard
		}
		h.doSetOffset(x)
	case "rH":
		h.doSetOffset((h.discard + len(h.data) + 1) / 2)
	case "O":
		h.doReopen(h.c, 1, false, false)
	case "P":
		h.doReopen(h.c, 0, true, false)
	case "C":
		h.doCopy(false)
	case "D":
		h.doDiscard((h.discard + len(h.data)) / 2)
	}
	h.verifyAll(3)
}

func TestExhaustiveSmall(t *testing.T) {
	L := 4
	if vk.Thorough() {
		L = 5
	}
	total := 1
	for i := 0; i < L; i++ {
		total *= len(enumOps)
	}
	shard, shards := vk.Shard(), vk.Shards()
	base := vk.Dir()
	defer removeAll(base)
	for ci, cf := range enumCfgs {
		cf.Level = 1
		for idx := shard; idx < total; idx += shards {
			seqOps := make([]string, L)
			for k, x := 0, idx; k < L; k++ {
				seqOps[k] = enumOps[x%len(enumOps)]
				x /= len(enumOps)
			}
			e := vk.NewEnum("TestExhaustiveSmall")
			e.Descf("cfg#%d %s", ci, strings.Join(seqOps, " "))
			h := &harness{c: cf, meta: []byte("m"), maxSize: 1 << 20}
			h.lbl = e.Label
			h.tok = e.Descf
			h.fail = func(format string, args ...any) { panic(enumFail{fmt.Sprintf(format, args...)}) }
			dir := filepath.Join(base, fmt.Sprintf("c%d-%d", ci, idx))
			h.path = filepath.Join(dir, "app")
			failed := func() (msg string) {
				defer func() {
					if r := recover(); r != nil {
						if ef, ok := r.(enumFail); ok {
							msg = ef.msg
							return
						}
						msg = fmt.Sprintf("panic: %v", r)
					}
				}()
				if err := mkdir(dir); err != nil {
					return "mkdir: " + err.Error()
				}
				h.openFresh()
				for _, op := range seqOps {
					h.enumOp(op)
				}
				return ""
			}()
			if h.app != nil {
				h.app.Close()
			}
			removeAll(dir)
			if failed != "" {
				e.Failf(t, map[string]any{"cfg": cf.String(), "ops": seqOps, "log": h.log}, "%s [cfg %s, ops %s]", failed, cf, strings.Join(seqOps, " "))
				return
			}
			if h.reopens > 0 || h.span3 > 0 || h.rewindShort > 0 {
				e.NonTrivial()
			}
			e.Done()
		}
	}
	vk.SetExhaustive(fmt.Sprintf("all %d^%d sequences over {%s} on %d tiny configurations", len(enumOps), L, strings.Join(enumOps, ","), len(enumCfgs)))
}
